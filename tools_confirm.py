#!/usr/bin/env python3
"""Confirm a seeded change delivered by a sub-agent, in the property's scratch worktree (never in /repo):
   1. unchanged worktree: the demonstration passes;
   2. patch applied: the existing test suite still passes, the demonstration fails;
   3. worktree restored.
usage: tools_confirm.py Cxx A|B [--install]     (--install copies a confirmed change to /verif/seeded/Cxx-A/)
Reads /tmp/mut/Cxx-out/<A|B>/{patch.diff,demo/,meta.json}; worktree /tmp/mut/Cxx; target dir /tmp/mut/Cxx-target."""
import json, os, re, shutil, subprocess, sys, time

prop, var = sys.argv[1], sys.argv[2]
install = "--install" in sys.argv
wt = f"/tmp/mut/{prop}"
tgt = f"/tmp/mut/{prop}-target"
out = f"/tmp/mut/{prop}-out/{var}"
env = dict(os.environ, CARGO_NET_OFFLINE="true", CARGO_TARGET_DIR=tgt)


def sh(cmd, cwd=None, timeout=3600):
    p = subprocess.run(cmd, shell=True, cwd=cwd, env=env, stdout=subprocess.PIPE, stderr=subprocess.STDOUT, text=True, timeout=timeout)
    return p.returncode, p.stdout


def clean():
    sh(f"git -C {wt} checkout -- . && git -C {wt} clean -fdq")


def demo():
    """returns (rc, output tail)"""
    run = os.path.join(out, "demo", "run.sh")
    if os.path.exists(run):
        rc, o = sh(f"bash {run} {wt} {tgt}", cwd=os.path.join(out, "demo"))
        return rc, o[-1500:]
    # generic: a cargo integration test described in RUN.md
    text = open(os.path.join(out, "demo", "RUN.md")).read().replace("\\\n", " ")
    m = re.search(r"cargo test[^\n]*?-p\s+(\S+)[^\n]*?--test\s+(\S+)", text) or re.search(r"cargo test[^\n]*?--test\s+(\S+)[^\n]*?-p\s+(\S+)", text)
    if not m:
        return 99, "cannot find the demonstration command in RUN.md"
    pkg, test = m.group(1), m.group(2)
    if not pkg.startswith("graphql"):
        pkg, test = test, pkg
    pkgdir = {"graphql_client": "graphql_client", "graphql_client_codegen": "graphql_client_codegen", "graphql_client_cli": "graphql_client_cli",
              "graphql_query_derive": "graphql_query_derive"}[pkg]
    dest = os.path.join(wt, pkgdir, "tests")
    os.makedirs(dest, exist_ok=True)
    copied = []
    for f in os.listdir(os.path.join(out, "demo")):
        if f in ("RUN.md", "run.sh"):
            continue
        src = os.path.join(out, "demo", f)
        dst = os.path.join(dest, f)
        if os.path.isdir(src):
            shutil.copytree(src, dst, dirs_exist_ok=True)
        else:
            shutil.copy(src, dst)
        copied.append(dst)
    rc, o = sh(f"cargo test -p {pkg} --test {test} --offline", cwd=wt)
    for c in copied:
        if os.path.isdir(c):
            shutil.rmtree(c, ignore_errors=True)
        else:
            os.remove(c)
    return rc, o[-1500:]


res = {"property": prop, "variant": var, "at": time.strftime("%Y-%m-%dT%H:%M:%S")}
clean()
rc, o = sh(f"git -C {wt} apply --check {out}/patch.diff")
res["patch_applies"] = rc == 0
if rc != 0:
    res["error"] = o[-500:]
else:
    rc0, o0 = demo()
    res["demo_without_change"] = "passed" if rc0 == 0 else f"FAILED rc={rc0}"
    res["demo_without_change_tail"] = o0[-300:]
    sh(f"git -C {wt} apply {out}/patch.diff")
    rcs, os_ = sh("cargo test --workspace --no-fail-fast --offline", cwd=wt)
    passed = sum(int(x) for x in re.findall(r"test result: \w+\. (\d+) passed", os_))
    failed = sum(int(x) for x in re.findall(r"test result: \w+\. \d+ passed; (\d+) failed", os_))
    res["suite_with_change"] = f"rc={rcs} passed={passed} failed={failed}"
    rc1, o1 = demo()
    res["demo_with_change"] = "passed" if rc1 == 0 else f"FAILED rc={rc1}"
    res["demo_with_change_tail"] = o1[-600:]
    res["confirmed"] = rc0 == 0 and rcs == 0 and failed == 0 and rc1 not in (0, 99)
clean()
print(json.dumps({k: v for k, v in res.items() if not k.endswith("_tail")}, indent=1))
allp = "/tmp/mut/confirm_results.json"
try:
    allr = json.load(open(allp))
except Exception:
    allr = {}
allr[f"{prop}-{var}"] = res
json.dump(allr, open(allp, "w"), indent=1)
if install and res.get("confirmed"):
    d = f"/verif/seeded/{prop}-{var}"
    shutil.rmtree(d, ignore_errors=True)
    os.makedirs(d)
    shutil.copy(f"{out}/patch.diff", d)
    shutil.copytree(f"{out}/demo", f"{d}/demo")
    try:
        meta = json.load(open(f"{out}/meta.json"))
    except Exception:
        meta = {"property": prop}
    meta["confirmed_by_builder"] = {"what_i_ran": [
        f"scratch worktree of /repo HEAD: demonstration without the change -> {res['demo_without_change']}",
        f"patch applied: cargo test --workspace --no-fail-fast --offline -> {res['suite_with_change']}",
        f"patch applied: demonstration -> {res['demo_with_change']}"], "at": res["at"]}
    json.dump(meta, open(f"{d}/meta.json", "w"), indent=1)
    print("installed", d)
