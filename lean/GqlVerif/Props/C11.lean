import GqlVerif.Model.Names
import GqlVerif.Model.Codegen
/-!
# C11 — Rust keywords and naming conventions never reach the wire or break the build

* `bsearch_sound`, `bsearch_complete`, `binsearch_iff_mem` — on a strictly sorted table, binary search
  finds a word **iff** it is in the table (any table, any word);
* `table_sorted` — the keyword table **as regenerated from the current source** is strictly sorted
  (so a misplaced entry breaks this obligation, and `keyword_replace` silently misses words exactly
  when this fails);
* `table_covers_reference` — it contains every strict and reserved keyword of editions 2015–2021
  (reference list written from the Rust Reference, independent of the code's table);
* `keywordReplace_spec` — hence `keyword_replace w = w ++ "_"` for every reference keyword and the
  identity on every word outside the table;
* `escaped_not_keyword` — no escaped form `w_` is itself in the table, so escaping never lands on
  another keyword;
* `wire_is_graphql_name` — for **any** case-mapping function and any keyword table, the wire name
  (`rename` or identifier) of an emitted response field is exactly the GraphQL name (the alias when
  there is one); the same for variables, input fields and `@oneOf` members
  (`input_wire_is_graphql_name`, `oneof_wire_is_graphql_name`).
-/
namespace GqlVerif
namespace C11

/-! ## binary search -/

theorem bsearch_sound (t : Array String) (x : String) :
    ∀ (n lo hi : Nat), hi - lo ≤ n → ∀ i, bsearch t x lo hi = some i → t[i]? = some x := by
  intro n
  induction n with
  | zero =>
    intro lo hi hn i h
    unfold bsearch at h
    have : ¬ lo < hi := by omega
    simp [this] at h
  | succ n ih =>
    intro lo hi hn i h
    unfold bsearch at h
    split at h
    · rename_i hlt
      simp only at h
      split at h
      · simp at h
      · rename_i m hm
        split at h
        · rename_i hxm
          simp only [Option.some.injEq] at h
          subst h
          rw [hm]; simp at hxm; simp [hxm]
        · split at h
          · exact ih lo ((lo + hi) / 2) (by omega) i h
          · exact ih ((lo + hi) / 2 + 1) hi (by omega) i h
    · simp at h

theorem lt_or_eq_or_gt (a b : String) : a < b ∨ a = b ∨ b < a := by
  by_cases h1 : a < b
  · exact Or.inl h1
  · by_cases h2 : b < a
    · exact Or.inr (Or.inr h2)
    · exact Or.inr (Or.inl (String.le_antisymm (String.not_lt.mp h2) (String.not_lt.mp h1)))

/-- strictly increasing array -/
def StrictlySorted (t : Array String) : Prop :=
  ∀ i j (hi : i < t.size) (hj : j < t.size), i < j → t[i] < t[j]

theorem bsearch_complete (t : Array String) (hs : StrictlySorted t) (x : String) :
    ∀ (n lo hi : Nat), hi - lo ≤ n → hi ≤ t.size → ∀ i, lo ≤ i → i < hi → t[i]? = some x →
      (bsearch t x lo hi).isSome = true := by
  intro n
  induction n with
  | zero => intro lo hi hn _ i h1 h2 _; omega
  | succ n ih =>
    intro lo hi hn hsz i hlo hhi hi_x
    unfold bsearch
    have hlt : lo < hi := by omega
    simp only [hlt, ↓reduceDIte]
    have hmid : (lo + hi) / 2 < t.size := by omega
    have hm : t[(lo + hi) / 2]? = some t[(lo + hi) / 2] := by simp [hmid]
    rw [hm]
    simp only
    have hisz : i < t.size := by omega
    have hxi : t[i] = x := by
      have := hi_x; simp [hisz] at this; exact this
    split
    · rfl
    · rename_i hne
      have hne' : x ≠ t[(lo + hi) / 2] := by simpa using hne
      split
      · rename_i hxlt
        -- x < t[mid]  ⇒  i < mid
        have : i < (lo + hi) / 2 := by
          rcases Nat.lt_trichotomy i ((lo + hi) / 2) with h | h | h
          · exact h
          · exfalso; subst h; exact hne' hxi.symm
          · exfalso
            have := hs _ _ hmid hisz h
            rw [hxi] at this
            exact String.lt_asymm this hxlt
        exact ih lo _ (by omega) (by omega) i hlo this hi_x
      · rename_i hnlt
        have : (lo + hi) / 2 < i := by
          rcases Nat.lt_trichotomy i ((lo + hi) / 2) with h | h | h
          · exfalso
            have := hs _ _ hisz hmid h
            rw [hxi] at this
            exact hnlt this
          · exfalso; subst h; exact hne' hxi.symm
          · exact h
        exact ih _ hi (by omega) hsz i (by omega) hhi hi_x

theorem sorted_of_pairwise (l : List String) (h : l.Pairwise (· < ·)) : StrictlySorted l.toArray := by
  intro i j hi hj hij
  simp only [List.size_toArray] at hi hj
  simpa using (List.pairwise_iff_getElem.mp h) i j hi hj hij

/-- **binary search = membership** on a strictly sorted table -/
theorem binsearch_iff_mem (l : List String) (h : l.Pairwise (· < ·)) (x : String) :
    (binarySearch l x).isSome = true ↔ x ∈ l := by
  unfold binarySearch
  constructor
  · intro hsome
    obtain ⟨i, hi⟩ := Option.isSome_iff_exists.mp hsome
    have := bsearch_sound l.toArray x _ 0 l.length (Nat.le_refl _) i hi
    have : l[i]? = some x := by simpa using this
    exact List.mem_of_getElem? this
  · intro hmem
    obtain ⟨i, hi, hx⟩ := List.getElem_of_mem hmem
    exact bsearch_complete l.toArray (sorted_of_pairwise l h) x _ 0 l.length (Nat.le_refl _) (by simp) i
      (Nat.zero_le _) hi (by simp [hi, hx])

/-- … and the index it returns is the word's position -/
theorem binsearch_index (l : List String) (x : String) (i : Nat) (h : binarySearch l x = some i) :
    l[i]? = some x := by
  have := bsearch_sound l.toArray x _ 0 l.length (Nat.le_refl _) i h
  simpa using this

/-! ## the table of the current source -/

/-- the regenerated table is strictly sorted -/
theorem table_sorted : Gen.keywordTable.Pairwise (· < ·) := by decide +kernel

/-- strict and reserved keywords, editions 2015–2021 (Rust Reference, "Keywords") -/
def referenceKeywords : List String :=
  ["as", "break", "const", "continue", "crate", "else", "enum", "extern", "false", "fn", "for", "if", "impl", "in",
   "let", "loop", "match", "mod", "move", "mut", "pub", "ref", "return", "self", "Self", "static", "struct", "super",
   "trait", "true", "type", "unsafe", "use", "where", "while", "async", "await", "dyn", "abstract", "become", "box",
   "do", "final", "macro", "override", "priv", "typeof", "unsized", "virtual", "yield", "try"]

theorem table_covers_reference : ∀ w ∈ referenceKeywords, w ∈ Gen.keywordTable := by decide +kernel

/-- no escaped form is itself a keyword -/
theorem escaped_not_keyword : ∀ w ∈ Gen.keywordTable, (w ++ "_") ∉ Gen.keywordTable := by decide +kernel

/-- `keyword_replace` on the current table: a word of the table gets a trailing underscore, every
    other word is unchanged -/
theorem keywordReplace_spec (w : String) :
    keywordReplace w = if w ∈ Gen.keywordTable then w ++ "_" else w := by
  unfold keywordReplace keywordReplaceIn
  by_cases hm : w ∈ Gen.keywordTable
  · have := (binsearch_iff_mem _ table_sorted w).mpr hm
    obtain ⟨i, hi⟩ := Option.isSome_iff_exists.mp this
    simp [hi, hm, binsearch_index _ _ _ hi]
  · have : binarySearch Gen.keywordTable w = none := by
      cases h : binarySearch Gen.keywordTable w with
      | none => rfl
      | some i => exact absurd ((binsearch_iff_mem _ table_sorted w).mp (by simp [h])) hm
    simp [this, hm]

theorem reference_keyword_escaped (w : String) (h : w ∈ referenceKeywords) : keywordReplace w = w ++ "_" := by
  rw [keywordReplace_spec]; simp [table_covers_reference w h]

/-! ## the wire name is the GraphQL name, whatever the Rust identifier -/

theorem rename_wire (gname rname : String) :
    ({ rust := rname, rename := fieldRename gname rname, ty := .path "" } : RField).wire = gname := by
  unfold RField.wire fieldRename
  by_cases h : gname = rname <;> simp [h]

/-- response fields (alias when there is one): for any case function, keyword table, type and options -/
theorem wire_is_graphql_name (c : Codegen.Ctx) (gname r ft : String) (quals : List Qual) (fl bx : Bool)
    (dep : Option (Option String)) (f : RField)
    (h : Codegen.renderField c (some gname) r ft quals fl bx dep = .ok (some f)) : f.wire = gname := by
  unfold Codegen.renderField at h
  cases hd : Codegen.decorateType (.path ft) quals with
  | error e => simp [hd, bind, Except.bind] at h
  | ok ty =>
    simp only [hd, bind, Except.bind] at h
    split at h
    · simp [pure, Except.pure] at h
    · simp only [pure, Except.pure, Except.ok.injEq, Option.some.injEq] at h
      subst h
      unfold RField.wire fieldRename
      by_cases hg : gname = r <;> simp [hg]

/-- the rename rule used for variables and input-object fields -/
theorem input_wire_is_graphql_name (name safe : String) (ty : RTy) (skip : Bool) :
    ({ rust := safe, rename := fieldRename name safe, ty := ty, skipNone := skip } : RField).wire = name := by
  unfold RField.wire fieldRename
  by_cases h : name = safe <;> simp [h]

/-- `@oneOf` members (rename computed against the escaped identifier since the repair) -/
theorem oneof_wire_is_graphql_name (name safe : String) (t : RTy) :
    ({ name := safe, rename := fieldRename name safe, payload := some t } : RVariant).wire = name := by
  unfold RVariant.wire fieldRename
  by_cases h : name = safe <;> simp [h]

example : binarySearch Gen.keywordTable "type" ≠ none ∧ keywordReplace "typo" = "typo" := by
  constructor
  · have := (binsearch_iff_mem _ table_sorted "type").mpr (by decide +kernel)
    intro h; simp [h] at this
  · rw [keywordReplace_spec]; simp; decide +kernel

end C11
end GqlVerif
