import GqlVerif.Props.C10
import GqlVerif.Props.C11
/-!
# C09 — Rust-side options never change the JSON wire format

What goes on the wire is decided by: the wire names of fields / variables / input fields / `@oneOf`
members, the string tables of enums, the `Option`/`Vec` shape of types, the `flatten` / `tag` / `other`
/ `skip_serializing_if` / `default` / `deserialize_with` attributes.  The theorems here show that the
*naming* options cannot reach the wire names:

* `field_wire_indep` — two generations of the same field under different case functions, keyword
  tables (i.e. Rust identifiers), derive lists, serde path and visibility have the same wire name;
* `enum_wire_indep` — the wire strings of a generated enum are the schema's value names under both
  normalizations and any case function;
* `variable_wire_indep`, `oneof_wire_indep` — the same for variables / input fields and `@oneOf` members.

The remaining statements of the design (`serde_ignores_derives`, `codegen_neutral_options`,
`scalars_module_only_changes_alias_target`) are in `GqlVerif/Proofs/C09Options.lean` when proved; until
then they are covered by the metamorphic correspondence only (same vectors through two compiled
modules generated under different option sets must give identical replies).
-/
namespace GqlVerif
namespace C09

/-- the wire name of an emitted response field does not depend on the context it was generated in -/
theorem field_wire_indep (c c' : Codegen.Ctx) (gname r r' ft ft' : String) (quals : List Qual) (fl bx : Bool)
    (dep : Option (Option String)) (f f' : RField)
    (h : Codegen.renderField c (some gname) r ft quals fl bx dep = .ok (some f))
    (h' : Codegen.renderField c' (some gname) r' ft' quals fl bx dep = .ok (some f')) :
    f.wire = f'.wire := by
  rw [C11.wire_is_graphql_name c gname r ft quals fl bx dep f h,
      C11.wire_is_graphql_name c' gname r' ft' quals fl bx dep f' h']

/-- the wire strings of a generated enum are the schema's value names, whatever the options -/
theorem enum_wire_indep (c c' : Codegen.Ctx) (e : StoredEnum) :
    ∃ n d p i ser de n' d' p' i' ser' de',
      Codegen.enumItem c e = .gqlEnum n d p i ser de ∧ Codegen.enumItem c' e = .gqlEnum n' d' p' i' ser' de' ∧
      de.map (·.1) = de'.map (·.1) ∧ ser.map (·.2) = ser'.map (·.2) := by
  obtain ⟨n, d, p, i, ser, de, h, h1, h2⟩ := C10.wire_is_schema_name c e
  obtain ⟨n', d', p', i', ser', de', h', h1', h2'⟩ := C10.wire_is_schema_name c' e
  exact ⟨n, d, p, i, ser, de, n', d', p', i', ser', de', h, h', h1.trans h1'.symm, h2.trans h2'.symm⟩

/-- variables and input-object fields -/
theorem variable_wire_indep (name safe safe' : String) (ty ty' : RTy) (skip skip' : Bool) :
    ({ rust := safe, rename := fieldRename name safe, ty := ty, skipNone := skip } : RField).wire =
    ({ rust := safe', rename := fieldRename name safe', ty := ty', skipNone := skip' } : RField).wire := by
  rw [C11.input_wire_is_graphql_name, C11.input_wire_is_graphql_name]

/-- `@oneOf` members -/
theorem oneof_wire_indep (name safe safe' : String) (t t' : RTy) :
    ({ name := safe, rename := fieldRename name safe, payload := some t } : RVariant).wire =
    ({ name := safe', rename := fieldRename name safe', payload := some t' } : RVariant).wire := by
  rw [C11.oneof_wire_is_graphql_name, C11.oneof_wire_is_graphql_name]

end C09
end GqlVerif
