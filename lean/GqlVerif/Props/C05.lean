import GqlVerif.Model.Codegen
/-!
# C05 — request body carries the verbatim document and the right operation name

About `Codegen.generate` (mirror of `generate_module_token_stream_inner`) and `generatedModule`:

* `module_constants` — a generated module's `OPERATION_NAME` is the operation's name exactly as
  written and its `QUERY` is the document text passed in, unchanged (the model carries the text
  through untouched; quoting and un-quoting of the literal by `quote` / rustc are exercised by the
  harness on adversarial texts, not proved);
* `module_types_from_same_operation` — the items of a module are generated from the operation the
  (normalized) name selects: the first operation whose normalized name equals the normalized name of
  the module's own operation;
* `derive_no_fallback` — in derive mode, when no operation matches the struct name, generation fails
  (it never falls back to another operation), and the error lists every defined operation;
* `derive_selects_named` — in derive mode, when generation succeeds there is exactly one module and
  its operation's normalized name is the requested name;
* `cli_explicit_selects` — the same in CLI / library mode when the explicit name matches;
* `cli_none_gives_all` — without a selection, one module per operation, in document order
  (the i-th module is the i-th operation's).
-/
namespace GqlVerif
namespace C05
open Codegen

/-- `OPERATION_NAME` and `QUERY` of a generated module -/
theorem module_shape (c : Ctx) (text operation : String) (m : Module)
    (h : generatedModule c text operation = .ok m) :
    ∃ root items, selectOperation c (c.o.normalization.operation c.cs operation) = some root ∧
      responseForQuery c root = .ok items ∧ m.items = items ∧ m.operationName = operation ∧ m.query = text := by
  unfold generatedModule at h
  simp only [bind, Except.bind] at h
  cases hs : selectOperation c (c.o.normalization.operation c.cs operation) with
  | none => simp [hs, fail'] at h
  | some root =>
    simp only [hs, pure, Except.pure] at h
    cases hr : responseForQuery c root with
    | error e => simp [hr] at h
    | ok items =>
      simp only [hr, Except.ok.injEq] at h
      subst h
      exact ⟨root, items, rfl, hr, rfl, rfl, rfl⟩

/-- `OPERATION_NAME` and `QUERY` of a generated module -/
theorem module_constants (c : Ctx) (text operation : String) (m : Module)
    (h : generatedModule c text operation = .ok m) :
    m.operationName = operation ∧ m.query = text := by
  obtain ⟨_, _, _, _, _, h1, h2⟩ := module_shape c text operation m h
  exact ⟨h1, h2⟩

/-- the module's items come from the operation selected by the normalized name of its own operation -/
theorem module_types_from_same_operation (c : Ctx) (text operation : String) (m : Module)
    (h : generatedModule c text operation = .ok m) :
    ∃ root, selectOperation c (c.o.normalization.operation c.cs operation) = some root ∧
      responseForQuery c root = .ok m.items := by
  obtain ⟨root, items, h1, h2, h3, _, _⟩ := module_shape c text operation m h
  exact ⟨root, h1, h3 ▸ h2⟩

/-- what `selectOperation` returns: the first operation whose normalized name is the requested one -/
theorem selectOperation_spec (c : Ctx) (name : String) (i : Nat) (h : selectOperation c name = some i) :
    ∃ op, c.q.operations[i]? = some op ∧ c.o.normalization.operation c.cs op.name = name ∧
      ∀ j, j < i → ∀ opj, c.q.operations[j]? = some opj → c.o.normalization.operation c.cs opj.name ≠ name := by
  unfold selectOperation at h
  have hlt := List.findIdx?_eq_some_iff_getElem.mp h
  obtain ⟨hi, hp, hmin⟩ := hlt
  refine ⟨c.q.operations[i], by simp [hi], by simpa using hp, ?_⟩
  intro j hj opj hopj
  have hjl : j < c.q.operations.length := Nat.lt_trans hj hi
  have := hmin j hj
  have heq : c.q.operations[j] = opj := by
    have := hopj; simp [hjl] at this; exact this
  simpa [heq] using this

/-- **derive mode never falls back**: if no operation has the requested (normalized) name the
    result is an error that lists the defined operations -/
theorem derive_no_fallback (s : Schema) (cs : CaseFns) (o : Options) (text : String) (d : QDoc) (q : Query)
    (hmode : o.mode = .derive) (hq : Resolve.resolve s d = .ok q)
    (hnone : o.operationName.bind (selectOperation { s, q, o, cs }) = none) :
    generate s cs o text d = .error (.error
      ("The struct name does not match any defined operation in the query file.\nStruct name: " ++
        o.structIdent.getD "" ++ "\nDefined operations: " ++ ", ".intercalate (q.operations.map (·.name)))) := by
  unfold generate
  simp [hq, bind, Except.bind, hnone, hmode, fail']

/-- in derive mode success means exactly one module, for an operation with the requested name -/
theorem derive_selects_named (s : Schema) (cs : CaseFns) (o : Options) (text : String) (d : QDoc) (q : Query)
    (ms : List Module) (hmode : o.mode = .derive) (hq : Resolve.resolve s d = .ok q)
    (h : generate s cs o text d = .ok ms) :
    ∃ name i op m, o.operationName = some name ∧ selectOperation { s, q, o, cs } name = some i ∧
      q.operations[i]? = some op ∧ ms = [m] ∧ m.operationName = op.name ∧ m.query = text := by
  unfold generate at h
  simp only [hq, bind, Except.bind] at h
  cases hsel : o.operationName.bind (selectOperation { s, q, o, cs }) with
  | none => simp [hsel, hmode, fail'] at h
  | some i =>
    simp only [hsel, pure, Except.pure] at h
    obtain ⟨name, hname, hi⟩ : ∃ name, o.operationName = some name ∧ selectOperation { s, q, o, cs } name = some i := by
      cases hn : o.operationName with
      | none => simp [hn] at hsel
      | some name => exact ⟨name, rfl, by simpa [hn] using hsel⟩
    rw [List.mapM_cons, List.mapM_nil] at h
    simp only [bind, Except.bind, pure, Except.pure] at h
    cases hop : Query.getOperation q i with
    | error e => simp [hop] at h
    | ok op =>
      simp only [hop] at h
      cases hm : generatedModule { s, q, o, cs } text op.name with
      | error e => simp [hm] at h
      | ok m =>
        simp only [hm, Except.ok.injEq] at h
        have hget : q.operations[i]? = some op := by
          unfold Query.getOperation at hop
          split at hop <;> simp_all [pure, Except.pure, panic']
        have := module_constants _ _ _ _ hm
        exact ⟨name, i, op, m, hname, hi, hget, h.symm, this.1, this.2⟩

/-- CLI / library mode with an explicit name that matches: exactly that operation -/
theorem cli_explicit_selects (s : Schema) (cs : CaseFns) (o : Options) (text : String) (d : QDoc) (q : Query)
    (ms : List Module) (name : String) (i : Nat) (hq : Resolve.resolve s d = .ok q)
    (hname : o.operationName = some name) (hsel : selectOperation { s, q, o, cs } name = some i)
    (h : generate s cs o text d = .ok ms) :
    ∃ op m, q.operations[i]? = some op ∧ ms = [m] ∧ m.operationName = op.name ∧ m.query = text := by
  unfold generate at h
  simp only [hq, bind, Except.bind, hname, Option.bind, hsel, pure, Except.pure] at h
  rw [List.mapM_cons, List.mapM_nil] at h
  simp only [bind, Except.bind, pure, Except.pure] at h
  cases hop : Query.getOperation q i with
  | error e => simp [hop] at h
  | ok op =>
    simp only [hop] at h
    cases hm : generatedModule { s, q, o, cs } text op.name with
    | error e => simp [hm] at h
    | ok m =>
      simp only [hm, Except.ok.injEq] at h
      have hget : q.operations[i]? = some op := by
        unfold Query.getOperation at hop
        split at hop <;> simp_all [pure, Except.pure, panic']
      have := module_constants _ _ _ _ hm
      exact ⟨op, m, hget, h.symm, this.1, this.2⟩

theorem mapM_spec {α β : Type} (f : α → Outcome β) :
    ∀ (l : List α) (bs : List β), l.mapM f = .ok bs →
      bs.length = l.length ∧ ∀ (i : Nat) (b : β), bs[i]? = some b → ∃ a, l[i]? = some a ∧ f a = .ok b := by
  intro l
  induction l with
  | nil => intro bs h; simp [List.mapM_nil, pure, Except.pure] at h; subst h; simp
  | cons a l ih =>
    intro bs h
    rw [List.mapM_cons] at h
    cases ha : f a with
    | error e => simp [ha, bind, Except.bind] at h
    | ok b =>
      cases hl : l.mapM f with
      | error e => simp [ha, hl, bind, Except.bind] at h
      | ok rest =>
        simp only [ha, hl, bind, Except.bind, pure, Except.pure, Except.ok.injEq] at h
        subst h
        obtain ⟨ihl, ihe⟩ := ih rest hl
        refine ⟨by simp [ihl], ?_⟩
        intro i b' hi
        cases i with
        | zero => simp at hi; subst hi; exact ⟨a, by simp, ha⟩
        | succ i => simpa using ihe i b' (by simpa using hi)

/-- no selection (CLI / library): one module per operation, in document order -/
theorem cli_none_gives_all (s : Schema) (cs : CaseFns) (o : Options) (text : String) (d : QDoc) (q : Query)
    (ms : List Module) (hmode : o.mode = .cli) (hq : Resolve.resolve s d = .ok q) (hnone : o.operationName = none)
    (h : generate s cs o text d = .ok ms) :
    ms.length = q.operations.length ∧
    ∀ (i : Nat) (m : Module), ms[i]? = some m →
      ∃ op : ROperation, q.operations[i]? = some op ∧ m.operationName = op.name ∧ m.query = text := by
  unfold generate at h
  simp only [hq, bind, Except.bind, hnone, Option.bind, hmode, pure, Except.pure] at h
  obtain ⟨hlen, hall⟩ := mapM_spec _ _ ms h
  refine ⟨by simpa using hlen, ?_⟩
  intro i m hi
  obtain ⟨j, hj, hfj⟩ := hall i m hi
  have hij : j = i := by
    have := List.getElem?_eq_some_iff.mp hj
    obtain ⟨hlt, heq⟩ := this
    simpa using heq.symm
  subst hij
  cases hop : Query.getOperation q j with
  | error e => simp [hop] at hfj
  | ok op =>
    simp only [hop] at hfj
    have hget : q.operations[j]? = some op := by
      unfold Query.getOperation at hop
      split at hop <;> simp_all [pure, Except.pure, panic']
    have hc := module_constants _ _ _ _ hfj
    exact ⟨op, hget, hc.1, hc.2⟩

end C05
end GqlVerif
