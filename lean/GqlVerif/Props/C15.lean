import GqlVerif.Proofs.C15
import GqlVerif.Model.Gen.Consts
/-!
# C15 — Response / Error envelope accepts and preserves every spec-shaped body

Model: `GqlVerif.Model.Envelope` (serde's derived (de)serialisation of `Response<Data>`, `Error`, `Location`,
`PathFragment`, `QueryBody` over `serde_json::Value`, and `impl Display for Error`).
Specification: `GqlVerif.Model.EnvelopeSpec` (`specBody` grammar, `ResponsePres`, `displaySpec`).

**Object equality.**  A Rust map (`HashMap<String, Value>`, `serde_json::Map`) is represented by the list of
its entries in an arbitrary iteration order with distinct keys.  The round-trip theorems return *literally*
the same list (same order), for every such representative; equality up to key order follows a fortiori.
`accepts_spec_body` locates members with `Json.lookup`, hence holds for every member order of the body.

Hypotheses are the guarantees of the Rust types: `Response.wf` / `Error.wf` say that `line`, `column` and
`Index` values fit an `i32` and that map keys are distinct.  All theorems are for all values / all JSON,
no size bound.
-/
namespace GqlVerif
namespace C15
open Envelope Envelope.Spec

/-! ## round trips -/

/-- `PathFragment` is untagged with `Key` tried before `Index`: a serialised fragment always comes back as
itself … -/
theorem path_untagged (f : PathFragment) (h : f.wf = true) :
    dePathFragment (serPathFragment f) = some f :=
  dePathFragment_ser f h

example : (PathFragment.index (-2147483648)).wf = true ∧ (PathFragment.key "0").wf = true := by decide

/-- … and the two variants are never confused: `Key` is produced by JSON strings only, `Index` by JSON
integers within i32 only, everything else (bools, floats, null, arrays, objects, larger integers) is an error. -/
theorem path_untagged_exact (j : Json) :
    (∀ s, dePathFragment j = some (.key s) ↔ j = .str s) ∧
    (∀ n, dePathFragment j = some (.index n) ↔ (j = .int n ∧ inI32 n = true)) ∧
    (dePathFragment j = none ↔ (∀ s, j ≠ .str s) ∧ (∀ n, j = .int n → inI32 n = false)) := by
  cases j with
  | str s => simp [dePathFragment, deString]
  | int n =>
    by_cases h : inI32 n = true
    · simp [dePathFragment, deString, deI32, h]
    · simp [dePathFragment, deString, deI32, h]
  | _ => simp [dePathFragment, deString, deI32]

theorem location_roundtrip (l : Location) (h : l.wf = true) : deLocation (serLocation l) = some l :=
  deLocation_ser l h

example : ({ line := -7, column := 2147483647 } : Location).wf = true := by decide

/-- `deserialize(serialize(e)) = e` for every `Error` value -/
theorem error_roundtrip (e : Error) (h : e.wf = true) : deError (serError e) = some e :=
  deError_ser e h

/-- a non-trivial `Error` value (mixed path with empty and `/`-terminated keys, boundary index, nested
extension JSON) is well-formed -/
def sampleError : Error :=
  { message := "boom",
    locations := some [{ line := 3, column := -1 }],
    path := some [.key "", .index (-2147483648), .key "a/", .index 2147483647],
    extensions := some [("code", .str "X"), ("deep", .obj [("a", .arr [.null, .int 1, .num "1.5"])])] }

example : sampleError.wf = true := by
  simp [sampleError, Error.wf, optAll, Location.wf, PathFragment.wf, inI32, i32Min, i32Max, distinctKeys, hasKey]

/-- `deserialize(serialize(r)) = r` for every `Response<Data>` value, for every data type whose values
never serialise to `null` and round-trip themselves (generated `ResponseData` structs, JSON objects). -/
theorem response_roundtrip_generic {δ : Type} (deData : Json → Option δ) (serData : δ → Json)
    (wfData : δ → Bool) (hnn : ∀ d, serData d ≠ .null)
    (hrt : ∀ d, wfData d = true → deData (serData d) = some d)
    (r : Response δ) (h : r.wf wfData = true) :
    deResponse deData (serResponse serData r) = some r :=
  deResponse_ser deData serData wfData (fun d => isNull_false_of_ne (hnn d)) hrt r h

/-- `deserialize(serialize(r)) = r` for every `Response<serde_json::Map<String, Value>>` value -/
theorem response_roundtrip (r : Response JMap) (h : r.wf distinctKeys = true) :
    deResponseObj (serResponseObj r) = some r :=
  deResponse_ser deMap Json.obj distinctKeys (fun _ => rfl) deMap_obj r h

def sampleResponse : Response JMap :=
  { data := some [("user", .obj [("id", .int 1)]), ("n", .null)],
    errors := some [sampleError, { message := "", locations := none, path := none, extensions := none }],
    extensions := some [] }

example : sampleResponse.wf distinctKeys = true := by
  simp [sampleResponse, Response.wf, sampleError, Error.wf, optAll, Location.wf, PathFragment.wf, inI32,
    i32Min, i32Max, distinctKeys, hasKey]

/-- why "never serialises to null" is needed: with `Data = ()` (serialised as `null`) `Some(())` comes
back as `None` -/
theorem null_data_counterexample :
    deResponse (fun j => if isNull j then some () else none) (serResponse (fun _ => Json.null)
      { data := some (), errors := none, extensions := none }) =
    some { data := none, errors := none, extensions := none } := by
  simp [serResponse, deResponse, optMember, field, occurrences, deOptField, serOpt, deOpt, isNull]

/-! ## tolerant parsing -/

/-- **Every spec-shaped body is accepted and everything in it is preserved**: for every JSON value of the
grammar `specBody` (each optional member absent / `null` / present, unknown members anywhere, any member
order, paths mixing names and indices, arbitrary nested extension JSON) deserialisation succeeds and the
value has exactly the `data`, the `errors` (message, locations, path, extensions of each, in order) and
the `extensions` of the body. -/
theorem accepts_spec_body (j : Json) (h : specBody j = true) :
    ∃ r, deResponseObj j = some r ∧ ResponsePres r j :=
  specBody_pres j h

/-- the same for a single error object -/
theorem accepts_spec_error (j : Json) (h : specError j = true) : ∃ e, deError j = some e ∧ ErrorPres e j :=
  specError_pres j h

/-- a body exercising the grammar: `data: null`, unknown members at both levels, members out of order,
a mixed path with an empty key, an absent `locations`, nested extensions -/
def sampleBody : Json :=
  .obj [("zzz", .arr [.bool true]), ("errors", .arr [
          .obj [("path", .arr [.str "a", .int 0, .str ""]), ("x-extra", .num "1e3"), ("message", .str "m"),
                ("extensions", .obj [("k", .obj [("k", .null)])])],
          .obj [("message", .str ""), ("locations", .arr [.obj [("column", .int 2), ("line", .int 1), ("offset", .int 9)]]),
                ("path", .null)]]),
        ("data", .null)]

example : specBody sampleBody = true := by
  simp [sampleBody, specBody, optMemberOk, reqMemberOk, countKey, Json.lookup, isNull, specListOf, specError,
    specLocation, specObject, specString, specInt, specPathEntry, distinctKeys, hasKey, inI32, i32Min, i32Max]

/-- the serialisation of every value is itself a spec-shaped body (so `accepts_spec_body` applies to it) -/
theorem ser_is_spec_body (r : Response JMap) (h : r.wf distinctKeys = true) :
    specBody (serResponseObj r) = true := by
  obtain ⟨data, errs, ext⟩ := r
  have h' : optAll distinctKeys data = true ∧ optAll (fun es => es.all Error.wf) errs = true ∧
      optAll distinctKeys ext = true := by
    simpa [Response.wf, and_assoc] using h
  have herr : ∀ e : Error, e.wf = true → specError (serError e) = true := by
    intro e he
    obtain ⟨msg, locs, path, x⟩ := e
    have he' : optAll (fun ls => ls.all Location.wf) locs = true ∧
        optAll (fun fs => fs.all PathFragment.wf) path = true ∧ optAll distinctKeys x = true := by
      simpa [Error.wf, and_assoc] using he
    have hl : (isNull (serOpt (fun ls => Json.arr (ls.map serLocation)) locs) ||
        specListOf specLocation (serOpt (fun ls => Json.arr (ls.map serLocation)) locs)) = true := by
      cases locs with
      | none => simp [serOpt, isNull]
      | some ls =>
        have : ∀ l ∈ ls, l.wf = true := by simpa [optAll] using he'.1
        simp only [serOpt, isNull, Bool.false_or, specListOf, List.all_map, List.all_eq_true]
        intro l hl
        have hw : inI32 l.line = true ∧ inI32 l.column = true := by simpa [Location.wf] using this l hl
        simp [Function.comp, serLocation, specLocation, reqMemberOk, countKey, Json.lookup, specInt, hw.1, hw.2]
    have hp : (isNull (serOpt (fun fs => Json.arr (fs.map serPathFragment)) path) ||
        specListOf specPathEntry (serOpt (fun fs => Json.arr (fs.map serPathFragment)) path)) = true := by
      cases path with
      | none => simp [serOpt, isNull]
      | some fs =>
        have : ∀ f ∈ fs, f.wf = true := by simpa [optAll] using he'.2.1
        simp only [serOpt, isNull, Bool.false_or, specListOf, List.all_map, List.all_eq_true]
        intro f hf
        cases f with
        | key s => simp [Function.comp, serPathFragment, specPathEntry, specString]
        | index n =>
          have hw : inI32 n = true := by simpa [PathFragment.wf] using this _ hf
          simp [Function.comp, serPathFragment, specPathEntry, specString, specInt, hw]
    have hx : (isNull (serOpt Json.obj x) || specObject (serOpt Json.obj x)) = true := by
      cases x with
      | none => simp [serOpt, isNull]
      | some m => simpa [serOpt, isNull, specObject, optAll] using he'.2.2
    simp [serError, specError, reqMemberOk, optMemberOk, countKey, Json.lookup, specString, hl, hp, hx]
  have hd : (isNull (serOpt Json.obj data) || specObject (serOpt Json.obj data)) = true := by
    cases data with
    | none => simp [serOpt, isNull]
    | some m => simpa [serOpt, isNull, specObject, optAll] using h'.1
  have he : (isNull (serOpt (fun es => Json.arr (es.map serError)) errs) ||
      specListOf specError (serOpt (fun es => Json.arr (es.map serError)) errs)) = true := by
    cases errs with
    | none => simp [serOpt, isNull]
    | some es =>
      have : ∀ e ∈ es, e.wf = true := by simpa [optAll] using h'.2.1
      simp only [serOpt, isNull, Bool.false_or, specListOf, List.all_map, List.all_eq_true]
      intro e hmem
      exact herr e (this e hmem)
  have hx : (isNull (serOpt Json.obj ext) || specObject (serOpt Json.obj ext)) = true := by
    cases ext with
    | none => simp [serOpt, isNull]
    | some m => simpa [serOpt, isNull, specObject, optAll] using h'.2.2
  simp [serResponseObj, serResponse, specBody, optMemberOk, countKey, Json.lookup, hd, he, hx]

/-- unknown members are ignored wherever they stand in an error object -/
theorem unknown_member_ignored_error (pre post : JMap) (k : String) (v : Json)
    (hk : k ≠ "message" ∧ k ≠ "locations" ∧ k ≠ "path" ∧ k ≠ "extensions") :
    deError (.obj (pre ++ (k, v) :: post)) = deError (.obj (pre ++ post)) := by
  have hocc : ∀ k', k ≠ k' → occurrences k' (pre ++ (k, v) :: post) = occurrences k' (pre ++ post) := by
    intro k' hne
    simp [occurrences, List.filter_append, hne]
  simp [deError, reqMember, optMember, field, hocc _ hk.1, hocc _ hk.2.1, hocc _ hk.2.2.1, hocc _ hk.2.2.2]

/-- … and in the response object -/
theorem unknown_member_ignored_response (pre post : JMap) (k : String) (v : Json)
    (hk : k ≠ "data" ∧ k ≠ "errors" ∧ k ≠ "extensions") :
    deResponseObj (.obj (pre ++ (k, v) :: post)) = deResponseObj (.obj (pre ++ post)) := by
  have hocc : ∀ k', k ≠ k' → occurrences k' (pre ++ (k, v) :: post) = occurrences k' (pre ++ post) := by
    intro k' hne
    simp [occurrences, List.filter_append, hne]
  simp [deResponseObj, deResponse, optMember, field, hocc _ hk.1, hocc _ hk.2.1, hocc _ hk.2.2]

example : ("x-extra" : String) ≠ "message" ∧ ("x-extra" : String) ≠ "locations" ∧
    ("x-extra" : String) ≠ "path" ∧ ("x-extra" : String) ≠ "extensions" := by decide

/-- `message` is the one required member: an error object without it is rejected -/
theorem message_required (kvs : JMap) (h : Json.lookup "message" kvs = none) : deError (.obj kvs) = none := by
  have hocc : occurrences "message" kvs = [] := by
    rw [lookup_eq_head?] at h
    simpa using h
  simp [deError, reqMember, field, hocc]

example : Json.lookup "message" [("msg", Json.str "typo")] = none := by simp [Json.lookup]

/-! ## Display -/

/-- the model's integer rendering is Lean's decimal rendering … -/
theorem decimal_spec (n : Int) : decimal n = toString n := decimal_eq_toString n

/-- … and reads back to the number (Horner value of the digit string; a leading `-` for negatives) -/
theorem decimal_reads_back (n : Nat) :
    digitsValue (decimal (Int.ofNat n)).toList = n ∧
    (decimal (Int.negSucc n)).toList = '-' :: natDigits (n + 1) ∧ digitsValue (natDigits (n + 1)) = n + 1 := by
  refine ⟨?_, ?_, digitsValue_natDigits (n + 1)⟩
  · simp [decimal, digitsValue_natDigits]
  · simp [decimal, String.toList_append]

/-- **Display format**: `path:line:column: message`, the path `/`-joined (`<query>` when absent), the first
location (0:0 when absent or empty), for every `Error` value. Total: `Error.display` is a total function. -/
theorem display_spec (e : Error) : e.display = displaySpec e := by
  obtain ⟨msg, locs, path, ext⟩ := e
  have hfrag : ∀ fs : List PathFragment, fs.map PathFragment.display = fs.map fragmentText := by
    intro fs
    apply List.map_congr_left
    intro f _
    cases f <;> simp [PathFragment.display, fragmentText, decimal_eq_toString]
  have hp : ∀ fs : List PathFragment,
      joinWith "/" (fs.map PathFragment.display) = joinSlash (fs.map fragmentText) := by
    intro fs
    rw [hfrag, joinWith_eq_intercalate, joinSlash]
  cases path <;> rcases locs with _ | _ | ⟨l, ls⟩ <;>
    simp [Error.display, displaySpec, pathText, firstLocation, hp, decimal_eq_toString]

/-- consequences spelled out on the shapes the old fold-and-trim implementation got wrong -/
theorem display_keeps_trailing_segments (msg : String) :
    ({ message := msg, locations := none, path := some [.key "a", .key ""], extensions := none } : Error).display
      = "a/:0:0: " ++ msg ∧
    ({ message := msg, locations := none, path := some [.key "a/"], extensions := none } : Error).display
      = "a/:0:0: " ++ msg ∧
    ({ message := msg, locations := some [], path := some [], extensions := none } : Error).display
      = ":0:0: " ++ msg ∧
    ({ message := msg, locations := none, path := none, extensions := none } : Error).display
      = "<query>:0:0: " ++ msg := by
  simp [Error.display, joinWith, PathFragment.display, decimal, natDigits, digitChar]

/-! ## QueryBody -/

/-- the request body has exactly the three members `variables`, `query`, `operationName`, carrying
exactly the given values, whatever the variables serialise to -/
theorem querybody_members (q : QueryBody) :
    ∃ kvs, serQueryBody q = .obj kvs ∧
      kvs.map (·.1) = ["variables", "query", "operationName"] ∧
      Json.lookup "variables" kvs = some q.variables ∧
      Json.lookup "query" kvs = some (.str q.query) ∧
      Json.lookup "operationName" kvs = some (.str q.operationName) :=
  ⟨_, rfl, by simp, by simp [Json.lookup], by simp [Json.lookup], by simp [Json.lookup]⟩

/-! ## the shape the envelope model was written for, against the source

`Model/Envelope.lean` models what serde's derives do for five type definitions of `graphql_client/src/lib.rs`. The translator
re-reads those definitions on every run (`Gen.envelopeShape`: derives, container attributes, and per member its name, type and
serde attributes); the model's assumptions are written out here and compared: a new attribute (`deny_unknown_fields`,
`skip_serializing_if`, `deserialize_with`, a `default`), a changed member type or a new member makes this obligation fail even
before the differential run finds an input. A guard by evaluation, not a theorem about behaviour. -/

def modelledEnvelopeShape : List (String × String × List String × List String × List (String × String × List String)) :=
  [("QueryBody", "struct", ["Deserialize", "Serialize"], [],
      [("variables", "Variables", []), ("query", "&'staticstr", []), ("operation_name", "&'staticstr", ["rename=\"operationName\""])]),
   ("Location", "struct", ["Deserialize", "Serialize"], [], [("line", "i32", []), ("column", "i32", [])]),
   ("PathFragment", "enum", ["Deserialize", "Serialize"], ["untagged"], [("Key", "String", []), ("Index", "i32", [])]),
   ("Error", "struct", ["Deserialize", "Serialize"], [],
      [("message", "String", []), ("locations", "Option<Vec<Location>>", []), ("path", "Option<Vec<PathFragment>>", []),
       ("extensions", "Option<HashMap<String,serde_json::Value>>", [])]),
   ("Response", "struct", ["Deserialize", "Serialize"], [],
      [("data", "Option<Data>", []), ("errors", "Option<Vec<Error>>", []), ("extensions", "Option<HashMap<String,serde_json::Value>>", [])])]

theorem envelope_shape_matches_source : modelledEnvelopeShape = Gen.envelopeShape := by rfl

end C15
end GqlVerif
