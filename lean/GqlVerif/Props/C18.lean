import GqlVerif.Proofs.C18
import GqlVerif.Model.Gen.Consts
/-!
# C18 — the derive macro applies exactly the options written in `#[graphql(...)]`

Model: `GqlVerif.Model.Attr` (the three positional scanners of `attributes.rs`, option building of
`lib.rs`).  Specification: an attribute is a list of `Item`s (`key = "value"`, flag, `key("a", …)`)
laid out by `render` (commas between items, optional trailing comma, optional trailing comma and any
delimiter for lists), surrounded by arbitrary other attributes (`mkInput`); the options it denotes are
`lookupKv` / `hasFlag` / `lookupList` / `specDerive`, defined on the item list.

All theorems are for **every** item list (any length, any order, any values: string-literal *values*
are arbitrary strings, so "a value that looks like a key", commas, `=` etc. are covered) — proved by
induction over the items with the invariant that the scanner stands at an item boundary
(`Proofs/C18.lean`: `scanAttr_render`, `scanAttrList_render`, `identExistsToks_render`).

Side conditions (all decidable):
* `WfItems items`   — the leading identifiers of the items are pairwise distinct;
* `NoFlagThenKv k`  — the exact condition `extract_attr` needs for key `k` (implied by `WfItems`);
* `NotKey f items`  — `f` is not used as the key of a `key = ".."` / `key(..)` item;
* `NoGraphql pre`   — no attribute named `graphql` precedes the one considered (the first one wins).
-/
namespace GqlVerif
namespace C18
open Attr

/-! ## a full attribute built from the recognised keys (used by the `example`s) -/

def fullAttr : List Item :=
  [.kv "schema_path" "schema.graphql", .flag "skip_serializing_none", .kv "query_path" "src/q.graphql",
   .listAttr "extern_enums" ["Direction", "query_path"], .kv "response_derives" "Debug,PartialEq",
   .kv "variables_derives" "deprecated = \"deny\"", .kv "deprecated" " DeNy ", .kv "normalization" "Rust",
   .kv "custom_scalars_module" "crate::scalars", .kv "fragments_other_variant" "true"]

def derivesAround : List Attribute :=
  [{ path := "derive", tokens := some [.ident "GraphQLQuery"] }, { path := "allow", tokens := some [.ident "dead_code"] }]

def plain : Style := { trailing := false, listTrailing := false, delim := .paren }
def trailingCommas : Style := { trailing := true, listTrailing := true, delim := .paren }

example : WfItems fullAttr := by decide
example : WfItems fullAttr.reverse := by decide
example : NotKey "skip_serializing_none" fullAttr := by decide
example : NoGraphql derivesAround := by decide
example : ∀ k ∈ ["schema_path", "query_path", "deprecated", "skip_serializing_none", "extern_enums", "unknown"],
    NoFlagThenKv k fullAttr = true := by decide

/-! ## 1. the three scanners return what was written -/

theorem extractAttr_spec (pre post : List Attribute) (st : Style) (items : List Item) (k : String)
    (hpre : NoGraphql pre) (h : NoFlagThenKv k items = true) :
    extractAttr (mkInput pre st items post) k = resOfOpt (lookupKv k items) := by
  simp [extractAttr, findGraphql_mkInput pre post st items hpre, scanAttr_render st k items h]

theorem extractAttrList_spec (pre post : List Attribute) (st : Style) (items : List Item) (k : String)
    (hpre : NoGraphql pre) :
    extractAttrList (mkInput pre st items post) k = resOfOpt (lookupList k items) := by
  simp [extractAttrList, findGraphql_mkInput pre post st items hpre, scanAttrList_render st k items]

theorem identExists_spec (pre post : List Attribute) (st : Style) (items : List Item) (f : String)
    (hpre : NoGraphql pre) :
    identExists (mkInput pre st items post) f =
      if (items.map Item.head).contains f then .ok () else .error .notFound := by
  simp [identExists, findGraphql_mkInput pre post st items hpre, identExistsToks_render st f items]

/-- **`extract_attr` returns exactly the written value** (`WfItems` form): for every layout, every
surrounding attributes and every key `k` (recognised or not). -/
theorem extractAttr_iff (pre post : List Attribute) (st : Style) (items : List Item) (k v : String)
    (hpre : NoGraphql pre) (wf : WfItems items) :
    extractAttr (mkInput pre st items post) k = .ok v ↔ Item.kv k v ∈ items := by
  rw [extractAttr_spec pre post st items k hpre (noFlagThenKv_of_wf k items wf)]
  constructor
  · intro h
    cases e : lookupKv k items with
    | none => simp [e] at h
    | some w => simp [e] at h; subst h; exact lookupKv_mem k w items e
  · intro h; simp [lookupKv_of_mem k v items wf h]

example : extractAttr (mkInput derivesAround trailingCommas fullAttr []) "variables_derives" = .ok "deprecated = \"deny\"" :=
  (extractAttr_iff _ _ _ _ _ _ (by decide) (by decide)).mpr (by decide)

/-- **absent key ⇒ error** (which `build_graphql_client_derive_options` turns into the default);
no side condition on the items at all. -/
theorem extractAttr_absent (pre post : List Attribute) (st : Style) (items : List Item) (k : String)
    (hpre : NoGraphql pre) (h : ∀ v, Item.kv k v ∉ items) :
    extractAttr (mkInput pre st items post) k = .error .notFound := by
  rw [extractAttr_spec pre post st items k hpre (noFlagThenKv_of_absent k items h), lookupKv_none_of_absent k items h]
  rfl

example : ∀ v, Item.kv "skip_serializing_none" v ∉ fullAttr := by intro v h; simp [fullAttr] at h

/-- `ident_exists f` ⇔ `f` is the leading identifier of some item (unconditionally) -/
theorem identExists_iff_head (pre post : List Attribute) (st : Style) (items : List Item) (f : String)
    (hpre : NoGraphql pre) :
    identExists (mkInput pre st items post) f = .ok () ↔ f ∈ items.map Item.head := by
  rw [identExists_spec pre post st items f hpre]
  by_cases h : f ∈ items.map Item.head
  · simp [h]
  · simp [h]

/-- **flags**: `ident_exists f` ⇔ the flag `f` is written, provided `f` is not used as a key -/
theorem identExists_iff_flag (pre post : List Attribute) (st : Style) (items : List Item) (f : String)
    (hpre : NoGraphql pre) (nk : NotKey f items) :
    identExists (mkInput pre st items post) f = .ok () ↔ Item.flag f ∈ items := by
  rw [identExists_iff_head pre post st items f hpre, List.mem_map]
  constructor
  · rintro ⟨i, hi, e⟩; exact nk i hi e ▸ hi
  · intro h; exact ⟨_, h, rfl⟩

/-- **`extract_attr_list` returns exactly the written list** (also the empty one, see
`empty_list_is_ok` below) -/
theorem extractAttrList_iff (pre post : List Attribute) (st : Style) (items : List Item) (k : String)
    (vs : List String) (hpre : NoGraphql pre) (wf : WfItems items) :
    extractAttrList (mkInput pre st items post) k = .ok vs ↔ Item.listAttr k vs ∈ items := by
  rw [extractAttrList_spec pre post st items k hpre]
  constructor
  · intro h
    cases e : lookupList k items with
    | none => simp [e] at h
    | some w => simp [e] at h; subst h; exact lookupList_mem k w items e
  · intro h; simp [lookupList_of_mem k vs items wf h]

example : extractAttrList (mkInput derivesAround plain fullAttr []) "extern_enums" = .ok ["Direction", "query_path"] :=
  (extractAttrList_iff _ _ _ _ _ _ (by decide) (by decide)).mpr (by decide)

/-- no `#[graphql]` attribute at all: every function reports the missing attribute -/
theorem missing_attribute (input : Input) (h : ∀ a ∈ input, a.path ≠ "graphql") (k : String) :
    extractAttr input k = .error .missingAttribute ∧ identExists input k = .error .missingAttribute ∧
    extractAttrList input k = .error .missingAttribute := by
  have : findGraphql input = none := by
    induction input with
    | nil => rfl
    | cons a rest ih =>
      have ha : a.path ≠ "graphql" := h a (by simp)
      simp [findGraphql, ha, ih (fun b hb => h b (by simp [hb]))]
  simp [extractAttr, identExists, extractAttrList, this]

/-! ## 2. the options -/

/-- what `derive` computes on a rendered attribute, with the schema path still in the code's form -/
theorem derive_core (pre post : List Attribute) (st : Style) (items : List Item)
    (manifestDir : Option String) (pathOk : String → Bool)
    (hpre : NoGraphql pre) (wf : WfItems items) (nk : NotKey "skip_serializing_none" items) :
    derive manifestDir pathOk (mkInput pre st items post) =
      match specDerive manifestDir pathOk items, manifestDir, lookupKv "schema_path" items with
      | .ok d, some dir, some s => .ok { d with schemaPath := pathJoin dir.toList s.toList }
      | r, _, _ => r := by
  have hE : ∀ k, extractAttr (mkInput pre st items post) k = resOfOpt (lookupKv k items) :=
    fun k => extractAttr_spec pre post st items k hpre (noFlagThenKv_of_wf k items wf)
  have hL := extractAttrList_spec pre post st items "extern_enums" hpre
  have hI := identExists_spec pre post st items "skip_serializing_none" hpre
  rw [hasFlag_eq_head _ _ nk] at hI
  cases manifestDir with
  | none => simp [derive, buildPaths, specDerive]
  | some dir =>
    simp only [derive, buildPaths, buildOptions, fov_eq _ _ (hE _), skip_eq _ _ hI, depr_eq _ _ (hE _),
      norm_eq _ _ (hE _), hE, hL, specDerive, toOption_resOfOpt]
    cases hq : lookupKv "query_path" items with
    | none => simp
    | some q =>
      cases hs : lookupKv "schema_path" items with
      | none => simp
      | some s =>
        simp only [resOfOpt_some]
        cases hc : lookupKv "custom_scalars_module" items with
        | none => simp [specOptions, Options.new, pathFormat, resolveAgainst, hc]
        | some m => cases hp : pathOk m <;> simp [specOptions, Options.new, pathFormat, resolveAgainst, hc, hp]

theorem derive_eq_spec (pre post : List Attribute) (st : Style) (items : List Item)
    (manifestDir : Option String) (pathOk : String → Bool)
    (hpre : NoGraphql pre) (wf : WfItems items) (nk : NotKey "skip_serializing_none" items)
    (hdir : ∀ d, manifestDir = some d → DirOk d)
    (hrel : ∀ s, Item.kv "schema_path" s ∈ items → Relative s) :
    derive manifestDir pathOk (mkInput pre st items post) = specDerive manifestDir pathOk items := by
  rw [derive_core pre post st items manifestDir pathOk hpre wf nk]
  cases manifestDir with
  | none => simp [specDerive]
  | some dir =>
    cases hs : lookupKv "schema_path" items with
    | none => cases specDerive (some dir) pathOk items <;> rfl
    | some s =>
      have hj : pathJoin dir.toList s.toList = resolveAgainst dir s :=
        pathJoin_relative _ _ (hdir dir rfl).1 (hdir dir rfl).2 (hrel s (lookupKv_mem _ _ _ hs))
      simp only [specDerive, hs]
      cases lookupKv "query_path" items with
      | none => rfl
      | some q =>
        cases lookupKv "custom_scalars_module" items with
        | none => simp [hj]
        | some m => cases hp : pathOk m <;> simp [hj, hp]

example : derive (some "/home/u/proj") (fun _ => true) (mkInput derivesAround trailingCommas fullAttr []) =
    specDerive (some "/home/u/proj") (fun _ => true) fullAttr :=
  derive_eq_spec _ _ _ _ _ _ (by decide) (by decide) (by decide)
    (by intro d h; cases h; decide) (by intro s h; simp [fullAttr] at h; subst h; decide)

/-- what the full attribute denotes (values unchanged; ` DeNy ` is the `deny` strategy, `Rust` is `rust`) -/
example : specDerive (some "/p") (fun _ => true) fullAttr =
    .ok { options :=
            { queryFile := "/p/src/q.graphql".toList, variablesDerives := some "deprecated = \"deny\"",
              responseDerives := some "Debug,PartialEq", deprecation := some .deny, normalization := .rust,
              customScalarsModule := some "crate::scalars", externEnums := ["Direction", "query_path"],
              fragmentsOtherVariant := true, skipSerializingNone := true },
          schemaPath := "/p/schema.graphql".toList } := by
  decide

/-- **`options_of_attrs`**: the options record the derive builds is the one the attribute denotes —
each recognised key's value unchanged, documented defaults otherwise; no hypothesis on the paths. -/
theorem options_of_attrs (pre post : List Attribute) (st : Style) (items : List Item)
    (manifestDir : Option String) (pathOk : String → Bool)
    (hpre : NoGraphql pre) (wf : WfItems items) (nk : NotKey "skip_serializing_none" items) :
    (derive manifestDir pathOk (mkInput pre st items post)).map (·.options) =
      (specDerive manifestDir pathOk items).map (·.options) := by
  rw [derive_core pre post st items manifestDir pathOk hpre wf nk]
  cases specDerive manifestDir pathOk items with
  | error e => cases manifestDir <;> cases lookupKv "schema_path" items <;> rfl
  | ok d => cases manifestDir <;> cases lookupKv "schema_path" items <;> rfl

/-- **`options_defaults`**: when the four optional keys are absent the documented defaults apply
(deprecated = warn, normalization = none, other-variant off, skip-none off) — whatever else the
attribute contains, in whatever order; no well-formedness needed. -/
theorem options_defaults (pre post : List Attribute) (st : Style) (items : List Item)
    (manifestDir : Option String) (pathOk : String → Bool) (d : Derived) (hpre : NoGraphql pre)
    (hd : ∀ v, Item.kv "deprecated" v ∉ items) (hn : ∀ v, Item.kv "normalization" v ∉ items)
    (hf : ∀ v, Item.kv "fragments_other_variant" v ∉ items)
    (hs : "skip_serializing_none" ∉ items.map Item.head)
    (h : derive manifestDir pathOk (mkInput pre st items post) = .ok d) :
    d.options.effectiveDeprecation = .warn ∧ d.options.normalization = .none ∧
    d.options.fragmentsOtherVariant = false ∧ d.options.skipSerializingNone = false := by
  have e1 := extractAttr_absent pre post st items _ hpre hd
  have e2 := extractAttr_absent pre post st items _ hpre hn
  have e3 := extractAttr_absent pre post st items _ hpre hf
  have e4 : identExists (mkInput pre st items post) "skip_serializing_none" = .error .notFound := by
    rw [identExists_spec pre post st items _ hpre]; simp [hs]
  unfold derive at h
  cases hp : buildPaths manifestDir (mkInput pre st items post) with
  | error e => simp [hp] at h
  | ok p =>
    cases ho : buildOptions pathOk (mkInput pre st items post) p.query with
    | error e => simp [hp, ho] at h
    | ok o =>
      simp only [hp, ho, Except.ok.injEq] at h
      subst h
      exact buildOptions_defaults pathOk _ _ o e1 e2 e3 e4 ho

/-- an unparsable value is swallowed (`.ok()` / `if let Ok`): the default stays -/
theorem invalid_value_keeps_default (pre post : List Attribute) (st : Style) (items : List Item)
    (manifestDir : Option String) (pathOk : String → Bool) (d : Derived) (v : String)
    (hpre : NoGraphql pre) (wf : WfItems items) (nk : NotKey "skip_serializing_none" items)
    (hv : Item.kv "deprecated" v ∈ items) (hbad : specDeprecation v = none)
    (h : derive manifestDir pathOk (mkInput pre st items post) = .ok d) :
    d.options.effectiveDeprecation = .warn := by
  have := options_of_attrs pre post st items manifestDir pathOk hpre wf nk
  rw [h] at this
  cases hs : specDerive manifestDir pathOk items with
  | error e => simp [hs, Except.map] at this
  | ok d' =>
    simp only [hs, Except.map, Except.ok.injEq] at this
    have hopt : d'.options.deprecation = none := by
      unfold specDerive at hs
      repeat' split at hs
      all_goals first | (simp at hs; done) | (simp at hs; subst hs; simp [specOptions, lookupKv_of_mem _ _ _ wf hv, hbad])
    simp [Options.effectiveDeprecation, this, hopt]

/-! ## 3. invariance: order, layout, surroundings -/

theorem lookupKv_perm (k : String) (a b : List Item) (wf : WfItems a) (hp : a.Perm b) :
    lookupKv k a = lookupKv k b := by
  have wfb : WfItems b := (List.Perm.nodup_iff (hp.map Item.head)).mp wf
  apply Option.ext; intro v
  constructor
  · intro h; exact lookupKv_of_mem k v b wfb (hp.mem_iff.mp (lookupKv_mem k v a h))
  · intro h; exact lookupKv_of_mem k v a wf (hp.mem_iff.mpr (lookupKv_mem k v b h))

theorem lookupList_perm (k : String) (a b : List Item) (wf : WfItems a) (hp : a.Perm b) :
    lookupList k a = lookupList k b := by
  have wfb : WfItems b := (List.Perm.nodup_iff (hp.map Item.head)).mp wf
  apply Option.ext; intro v
  constructor
  · intro h; exact lookupList_of_mem k v b wfb (hp.mem_iff.mp (lookupList_mem k v a h))
  · intro h; exact lookupList_of_mem k v a wf (hp.mem_iff.mpr (lookupList_mem k v b h))

/-- **permutation, layout and surroundings invariance**: two attributes with the same items in any
order, any comma/delimiter style and any other attributes around them give the same result (value or
error) — for the complete derive, hence for every single option. -/
theorem derive_perm (pre post pre' post' : List Attribute) (st st' : Style) (items items' : List Item)
    (manifestDir : Option String) (pathOk : String → Bool)
    (hpre : NoGraphql pre) (hpre' : NoGraphql pre') (wf : WfItems items) (hp : items.Perm items') :
    derive manifestDir pathOk (mkInput pre st items post) = derive manifestDir pathOk (mkInput pre' st' items' post') := by
  have wf' : WfItems items' := (List.Perm.nodup_iff (hp.map Item.head)).mp wf
  apply derive_congr
  · intro k
    rw [extractAttr_spec pre post st items k hpre (noFlagThenKv_of_wf k items wf),
      extractAttr_spec pre' post' st' items' k hpre' (noFlagThenKv_of_wf k items' wf'), lookupKv_perm k _ _ wf hp]
  · intro f
    rw [identExists_spec pre post st items f hpre, identExists_spec pre' post' st' items' f hpre']
    have : (items.map Item.head).contains f = (items'.map Item.head).contains f := by
      rw [Bool.eq_iff_iff]; simp only [List.contains_iff_mem]; exact (hp.map Item.head).mem_iff
    rw [this]
  · intro k
    rw [extractAttrList_spec pre post st items k hpre, extractAttrList_spec pre' post' st' items' k hpre',
      lookupList_perm k _ _ wf hp]

example : derive (some "/p") (fun _ => true) (mkInput derivesAround trailingCommas fullAttr []) =
    derive (some "/p") (fun _ => true) (mkInput [] plain fullAttr.reverse derivesAround) :=
  derive_perm _ _ _ _ _ _ _ _ _ _ (by decide) (by decide) (by decide) (List.reverse_perm _).symm

/-- **trailing comma / list style / surrounding attributes do not matter** (corollary) -/
theorem derive_layout (pre post pre' post' : List Attribute) (st st' : Style) (items : List Item)
    (manifestDir : Option String) (pathOk : String → Bool) (hpre : NoGraphql pre) (hpre' : NoGraphql pre')
    (wf : WfItems items) :
    derive manifestDir pathOk (mkInput pre st items post) = derive manifestDir pathOk (mkInput pre' st' items post') :=
  derive_perm pre post pre' post' st st' items items manifestDir pathOk hpre hpre' wf (List.Perm.refl _)

/-- a second `#[graphql(...)]` attribute is never read: only the first one counts -/
theorem second_graphql_attribute_ignored (pre post post' : List Attribute) (st : Style) (items : List Item)
    (manifestDir : Option String) (pathOk : String → Bool) (hpre : NoGraphql pre) :
    derive manifestDir pathOk (mkInput pre st items post) = derive manifestDir pathOk (mkInput pre st items post') := by
  have hf : ∀ q, findGraphql (mkInput pre st items q) = some { path := "graphql", tokens := some (render st items) } :=
    fun q => findGraphql_mkInput pre q st items hpre
  apply derive_congr <;> intro k <;> simp [extractAttr, identExists, extractAttrList, hf]

/-! ## 4. paths -/

/-- for a relative schema path and a manifest directory without trailing `/`, both paths are
`<manifest dir>/<path>` (the two different constructions in `build_query_and_schema_path` agree) -/
theorem paths_relative (dir q s : String) (input : Input) (hd : DirOk dir) (hs : Relative s)
    (hq : extractAttr input "query_path" = .ok q) (hsp : extractAttr input "schema_path" = .ok s) :
    buildPaths (some dir) input = .ok { query := resolveAgainst dir q, schema := resolveAgainst dir s } := by
  simp [buildPaths, hq, hsp, pathFormat, resolveAgainst, pathJoin_relative _ _ hd.1 hd.2 hs]

/-- **negative fact**: the two paths are *not* built the same way.  An absolute `schema_path`
replaces the manifest directory (`Path::join`), an absolute `query_path` is appended to it
(`format!("{}/{}")`). -/
theorem paths_absolute_differ (dir q s : String) (input : Input)
    (hq : extractAttr input "query_path" = .ok ("/" ++ q)) (hsp : extractAttr input "schema_path" = .ok ("/" ++ s)) :
    buildPaths (some dir) input =
      .ok { query := dir.toList ++ '/' :: '/' :: q.toList, schema := '/' :: s.toList } := by
  have e : ∀ x : String, ("/" ++ x).toList = '/' :: x.toList := by
    intro x; rw [String.toList_append]; rfl
  simp [buildPaths, hq, hsp, pathFormat, pathJoin, e]

/-- a manifest directory ending in `/` gets a doubled separator on the query side only -/
theorem paths_trailing_slash (dir q s : String) (input : Input) (hs : Relative s)
    (hq : extractAttr input "query_path" = .ok q) (hsp : extractAttr input "schema_path" = .ok s) :
    buildPaths (some (dir ++ "/")) input =
      .ok { query := dir.toList ++ '/' :: '/' :: q.toList, schema := dir.toList ++ '/' :: s.toList } := by
  have e : (dir ++ "/").toList = dir.toList ++ ['/'] := by rw [String.toList_append]; rfl
  have hj : pathJoin (dir.toList ++ ['/']) s.toList = dir.toList ++ '/' :: s.toList := by
    unfold pathJoin
    split
    · rename_i h; unfold Relative at hs; simp [h] at hs
    · simp
  simp [buildPaths, hq, hsp, pathFormat, e, hj]

/-! ## 5. negative facts the proofs force -/

/-- **the positional scanner can be confused, but only outside `WfItems`**: a flag named `k`
immediately followed by `k = "v"` hides the value (the scanner skips the comma and *consumes* the
second `k`).  This is why `extractAttr_iff` needs the leading identifiers to be distinct. -/
theorem flag_then_kv_hides_value (pre post : List Attribute) (st : Style) (k v : String) (rest : List Item)
    (hpre : NoGraphql pre) (hr : ∀ w, Item.kv k w ∉ rest) :
    extractAttr (mkInput pre st (.flag k :: .kv k v :: rest) post) k = .error .notFound ∧
    lookupKv k (.flag k :: .kv k v :: rest) = some v := by
  constructor
  · have e : render st (Item.flag k :: Item.kv k v :: rest) =
        .ident k :: .punct ',' :: .ident k :: .punct '=' :: .lit v :: (sep st rest ++ render st rest) := by
      simp [render, renderItem, Item.head, Item.body, sep, comma]
    simp only [extractAttr, findGraphql_mkInput pre post st _ hpre, e, scanAttr_key_ident, scanAttr_punct,
      scanAttr_lit, scanAttr_sep, scanAttr_render st k rest (noFlagThenKv_of_absent k rest hr),
      lookupKv_none_of_absent k rest hr, resOfOpt_none]
  · simp [lookupKv]

/-- **a flag written as `key = "false"` is ON**: `ident_exists` only looks for the identifier, so
`skip_serializing_none = "false"` enables the option (unlike `fragments_other_variant = "false"`). -/
theorem flag_written_as_kv_is_on (pre post : List Attribute) (st : Style) (items : List Item) (v : String)
    (hpre : NoGraphql pre) (h : Item.kv "skip_serializing_none" v ∈ items) :
    extractSkipSerializingNone (mkInput pre st items post) = true := by
  have : identExists (mkInput pre st items post) "skip_serializing_none" = .ok () :=
    (identExists_iff_head pre post st items _ hpre).mpr (mem_head _ _ h)
  simp [extractSkipSerializingNone, this]

/-- **an empty list is accepted**: `key()` yields `Ok([])`; the "not found or empty" error of
`extract_attr_list` is only ever raised for "not found". -/
theorem empty_list_is_ok (pre post : List Attribute) (st : Style) (items : List Item) (k : String)
    (hpre : NoGraphql pre) (wf : WfItems items) (h : Item.listAttr k [] ∈ items) :
    extractAttrList (mkInput pre st items post) k = .ok [] :=
  (extractAttrList_iff pre post st items k [] hpre wf).mpr h

/-- a non-string literal as a value is an error (not "absent"): `syn::parse_str::<LitStr>` fails -/
theorem non_string_value_is_error (pre post : List Attribute) (k text : String) (T : List Tok)
    (hpre : NoGraphql pre) :
    extractAttr (pre ++ { path := "graphql", tokens := some (.ident k :: .punct '=' :: .litOther text :: T) } :: post) k
      = .error .badLiteral := by
  have hf := findGraphql_first pre post
    { path := "graphql", tokens := some (.ident k :: .punct '=' :: .litOther text :: T) } rfl hpre
  simp [extractAttr, hf]

/-- string-literal values can never be mistaken for keys (a value equal to a key name, containing
commas or `=`): instance of `extractAttr_iff` on an attribute whose values are key names -/
example (st : Style) :
    extractAttr (mkInput [] st [.kv "response_derives" "deprecated", .kv "variables_derives" "deprecated = \"deny\", x",
      .kv "deprecated" "allow"] []) "deprecated" = .ok "allow" :=
  (extractAttr_iff _ _ _ _ _ _ (by decide) (by decide)).mpr (by decide)


/-! ## the keys of `#[graphql(...)]`: model vs source (regenerated table) -/

/-- every look-up the model's option extraction makes (`Model/Attr.lean`: `deriveOptions` and its helpers),
    with the scanner used: kv = `extractAttr`, list = `extractAttrList`, flag = `identExists` -/
def modelKeys : List (String × String) :=
  [("custom_scalars_module", "kv"), ("deprecated", "kv"), ("extern_enums", "list"),
   ("fragments_other_variant", "kv"), ("normalization", "kv"), ("query_path", "kv"),
   ("response_derives", "kv"), ("schema_path", "kv"), ("skip_serializing_none", "flag"),
   ("variables_derives", "kv")]

/-- the derive macro of the *current* source looks up exactly these keys with exactly these scanners
    (`Gen.deriveKeys` is regenerated from `graphql_query_derive/src/{lib,attributes}.rs` on every run):
    a key added, renamed or read with another scanner breaks this obligation -/
theorem derive_keys_match_source : modelKeys = Gen.deriveKeys := by decide

/-- the option values the model's parsers recognise are the arms of the two `FromStr` impls of the current source
    (after `trim`), and the default strategy is the `#[default]` variant: a spelling added or removed there breaks
    this obligation (guards by evaluation, like the one above) -/
theorem option_spellings_match_source :
    Gen.deprecationFromStr = ("s.trim()", [("allow", "Allow"), ("deny", "Deny"), ("warn", "Warn")]) ∧
    Gen.normalizationFromStr = ("s.trim()", [("none", "None"), ("rust", "Rust")]) ∧
    Gen.deprecationDefault = "Warn" := ⟨rfl, rfl, rfl⟩

end C18
end GqlVerif
