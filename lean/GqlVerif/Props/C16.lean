import GqlVerif.Props.C03
/-!
# C16 — ID fields accept strings and integers, canonically, wherever ID appears

* `id_int`, `id_str`, `id_reject` — the integer-or-string helper: every 64-bit signed integer becomes
  its decimal string, every string is taken verbatim, everything else (larger integers, floats,
  booleans, arrays, objects, null) is rejected;
* `nested_id_iff` — the helper used under lists reads exactly the JSON admitted by the ID type
  expression, for **every** nesting of lists and `!` (and in the Rust type `rustOf "ID" t` it is
  applied to, i.e. it type-checks in the model's sense: it only ever meets `Option` / `Vec` / leaf);
* `id_field_iff` — the field emitted for an ID position of type `t` (helper chosen by
  `renderField`, `#[serde(default)]` when nullable) accepts exactly `Spec.accepts idOk t`;
* `attach_iff_ID` — `renderField` attaches a helper iff the field's type name is `ID`;
* `absent_nullable_id_is_none` — a nullable ID whose key is absent reads as `None`
  (the `default` attribute; without it `deserialize_with` makes the key mandatory);
* `absent_non_null_id_rejected`.
-/
namespace GqlVerif
namespace C16
open Serde Spec C13 C03

/-- every 64-bit signed integer is accepted and becomes its decimal string -/
theorem id_int (n : Int) (h : i64Ok n = true) : deIntOrString (.int n) = .ok (.str (toString n)) := by
  have : inI64 n = true := by
    simp only [inI64, i64Ok, i64Min, i64Max] at h ⊢; exact h
  simp [deIntOrString, this, pure, Except.pure]

/-- every string is taken verbatim -/
theorem id_str (s : String) : deIntOrString (.str s) = .ok (.str s) := rfl

/-- everything else is rejected: integers outside i64, floats, booleans, arrays, objects, null -/
theorem id_reject (j : Json) (h : idOk j = false) : okB (deIntOrString j) = false := by
  cases j with
  | int n =>
    have : inI64 n = false := by
      simp only [idOk, inI64, i64Ok, i64Min, i64Max] at h ⊢; exact h
    simp [deIntOrString, this, okB, bad]
  | str s => simp [idOk] at h
  | null => rfl
  | bool b => rfl
  | num t => rfl
  | arr xs => rfl
  | obj kvs => rfl

theorem okB_intOrString (j : Json) : okB (deIntOrString j) = idOk j := by
  cases hj : idOk j
  · exact id_reject j hj
  · cases j with
    | int n => rw [id_int n (by simpa [idOk] using hj)]; rfl
    | str s => rfl
    | null => simp [idOk] at hj
    | bool b => simp [idOk] at hj
    | num t => simp [idOk] at hj
    | arr xs => simp [idOk] at hj
    | obj kvs => simp [idOk] at hj

theorem okB_nested_opt (t : RTy) (j : Json) :
    okB (deNestedId (.opt t) j) = (j.isNull || okB (deNestedId t j)) := by
  rw [show deNestedId (RTy.opt t) j = (if j.isNull then pure .unit else Val.some <$> deNestedId t j) from rfl]
  cases hj : j.isNull
  · simp [okB_map]
  · simp [okB, pure, Except.pure]

theorem okB_nested_vec (t : RTy) (j : Json) :
    okB (deNestedId (.vec t) j) = (match j with | .arr xs => xs.all (fun x => okB (deNestedId t x)) | _ => false) := by
  cases j with
  | arr xs =>
    rw [show deNestedId (RTy.vec t) (.arr xs) = Val.list <$> xs.mapM (deNestedId t) from rfl]
    simp only [okB_map, okB_mapM]
  | null => rfl
  | bool b => rfl
  | int n => rfl
  | num s => rfl
  | str s => rfl
  | obj kvs => rfl

/-- **the nested helper reads exactly the admitted values**, at every list depth and `!` placement -/
theorem nested_id_iff : ∀ t : GTy, wf t = true →
    (∀ j, okB (deNestedId (rustOfNN (.path "ID") t) j) = acceptsNN idOk t j) ∧
    (∀ j, okB (deNestedId (rustOf (.path "ID") t) j) = accepts idOk t j) := by
  intro t
  induction t with
  | named n =>
    intro _
    have hnn : ∀ j, okB (deNestedId (rustOfNN (.path "ID") (.named n)) j) = acceptsNN idOk (.named n) j := by
      intro j; simp [rustOfNN, deNestedId, acceptsNN, okB_intOrString]
    exact ⟨hnn, fun j => by simp only [rustOf, accepts, okB_nested_opt, hnn]⟩
  | list t ih =>
    intro hw
    obtain ⟨_, ih2⟩ := ih (by simpa [wf] using hw)
    have hnn : ∀ j, okB (deNestedId (rustOfNN (.path "ID") (.list t)) j) = acceptsNN idOk (.list t) j := by
      intro j
      simp only [rustOfNN, okB_nested_vec, acceptsNN]
      cases j <;> simp [ih2, acceptsNN]
    exact ⟨hnn, fun j => by simp only [rustOf, accepts, okB_nested_opt, hnn]⟩
  | nonNull t ih =>
    intro hw
    obtain ⟨ih1, _⟩ := ih (by cases t <;> simp_all [wf])
    have hnn : ∀ j, okB (deNestedId (rustOfNN (.path "ID") (.nonNull t)) j) = acceptsNN idOk (.nonNull t) j := by
      intro j; simp only [rustOfNN, acceptsNN]; exact ih1 j
    exact ⟨hnn, fun j => by simp only [rustOf, accepts]; exact ih1 j⟩

/-! ## the field the generator emits for an ID position -/

/-- what `renderField` returns when it returns a field -/
theorem renderField_fields (c : Codegen.Ctx) (g : Option String) (r ft : String) (quals : List Qual) (fl bx : Bool)
    (dep : Option (Option String)) (f : RField)
    (h : Codegen.renderField c g r ft quals fl bx dep = .ok (some f)) :
    f.deserWith =
      (if !(ft == "ID") then none
       else if quals.contains .list then some "graphql_client::serde_with::deserialize_nested_id"
       else if quals.contains .required then some "graphql_client::serde_with::deserialize_id"
       else some "graphql_client::serde_with::deserialize_option_id") ∧
    f.default = (ft == "ID" && (match quals with | q :: _ => q != .required | [] => true)) ∧
    f.rust = r ∧ f.flatten = fl := by
  unfold Codegen.renderField at h
  cases hd : Codegen.decorateType (.path ft) quals with
  | error e => simp [hd, bind, Except.bind] at h
  | ok ty =>
    simp only [hd, bind, Except.bind] at h
    split at h
    · simp [pure, Except.pure] at h
    · simp only [pure, Except.pure, Except.ok.injEq, Option.some.injEq] at h
      subst h
      exact ⟨rfl, by cases quals <;> rfl, rfl, rfl⟩

theorem attach_iff_ID (c : Codegen.Ctx) (g : Option String) (r ft : String) (quals : List Qual) (fl bx : Bool)
    (dep : Option (Option String)) (f : RField)
    (h : Codegen.renderField c g r ft quals fl bx dep = .ok (some f)) :
    f.deserWith.isSome = (ft == "ID") := by
  rw [(renderField_fields c g r ft quals fl bx dep f h).1]
  by_cases hid : ft = "ID"
  · subst hid
    simp only [beq_self_eq_true, Bool.not_true, Bool.false_eq_true, ↓reduceIte]
    split
    · rfl
    · split <;> rfl
  · simp [hid]

/-- the helper `renderField` chooses for an ID position whose qualifiers are `quals t` -/
def idHelperFor (t : GTy) : String :=
  if (GTy.quals t).contains .list then "graphql_client::serde_with::deserialize_nested_id"
  else if (GTy.quals t).contains .required then "graphql_client::serde_with::deserialize_id"
  else "graphql_client::serde_with::deserialize_option_id"

theorem quals_no_list_no_req {t : GTy} (hw : wf t = true) (hl : (GTy.quals t).contains .list = false)
    (hr : (GTy.quals t).contains .required = false) : ∃ n, t = .named n := by
  cases t with
  | named n => exact ⟨n, rfl⟩
  | list t => simp [GTy.quals] at hl
  | nonNull t => simp [GTy.quals] at hr

theorem quals_no_list_req {t : GTy} (hw : wf t = true) (hl : (GTy.quals t).contains .list = false)
    (hr : (GTy.quals t).contains .required = true) : ∃ n, t = .nonNull (.named n) := by
  cases t with
  | named n => simp [GTy.quals] at hr
  | list t => simp [GTy.quals] at hl
  | nonNull t =>
    cases t with
    | named n => exact ⟨n, rfl⟩
    | list t => simp [GTy.quals] at hl
    | nonNull t => simp [wf] at hw

/-- **the emitted ID field accepts exactly the values of its GraphQL type**: helper and Rust type
    agree for every list / non-null nesting -/
theorem id_field_iff (t : GTy) (hw : wf t = true) (j : Json) :
    okB (deHelper (idHelperFor t) (rustOf (.path "ID") t) j) = accepts idOk t j := by
  unfold idHelperFor
  cases hl : (GTy.quals t).contains .list
  · cases hr : (GTy.quals t).contains .required
    · obtain ⟨n, rfl⟩ := quals_no_list_no_req hw hl hr
      simp only [Bool.false_eq_true, ↓reduceIte, deHelper, beq_self_eq_true]
      simp only [accepts, acceptsNN]
      cases hj : j.isNull
      · simp [okB_map, okB_intOrString, show ("graphql_client::serde_with::deserialize_option_id" == "graphql_client::serde_with::deserialize_id") = false by decide]
      · simp [okB, pure, Except.pure, show ("graphql_client::serde_with::deserialize_option_id" == "graphql_client::serde_with::deserialize_id") = false by decide]
    · obtain ⟨n, rfl⟩ := quals_no_list_req hw hl hr
      simp [deHelper, accepts, acceptsNN, okB_intOrString]
  · simp only [↓reduceIte, deHelper,
      show ("graphql_client::serde_with::deserialize_nested_id" == "graphql_client::serde_with::deserialize_id") = false by decide,
      show ("graphql_client::serde_with::deserialize_nested_id" == "graphql_client::serde_with::deserialize_option_id") = false by decide,
      Bool.false_eq_true, beq_self_eq_true]
    exact (nested_id_iff t hw).2 j

/-- a nullable ID whose key is absent reads as `None` -/
theorem absent_nullable_id_is_none (f : RField) (hd : f.default = true) : missingField f = .ok .unit := by
  simp [missingField, hd, pure, Except.pure]

/-- without `#[serde(default)]` a helper makes the key mandatory (the pinned tree's behaviour for
    nullable IDs; still the behaviour, rightly, for non-null IDs) -/
theorem absent_id_without_default_rejected (f : RField) (hd : f.default = false) (hh : f.deserWith.isSome = true) :
    okB (missingField f) = false := by
  simp [missingField, hd, hh, okB, bad]

/-- `renderField` puts `default` on exactly the ID fields whose outermost level is nullable -/
theorem default_iff_nullable_id (c : Codegen.Ctx) (g : Option String) (r ft : String) (quals : List Qual)
    (fl bx : Bool) (dep : Option (Option String)) (f : RField)
    (h : Codegen.renderField c g r ft quals fl bx dep = .ok (some f)) :
    f.default = (ft == "ID" && (match quals with | q :: _ => q != .required | [] => true)) :=
  (renderField_fields c g r ft quals fl bx dep f h).2.1

example : wf (.nonNull (.list (.nonNull (.named "ID")))) = true ∧
    idHelperFor (.nonNull (.list (.nonNull (.named "ID")))) = "graphql_client::serde_with::deserialize_nested_id" := by decide

end C16
end GqlVerif
