import GqlVerif.Proofs.C08
/-!
# C08 — codegen is a pure function of its inputs across calls, threads and processes

Specification (`Cache.spec`, written from the property statement): a call returns
`generate (query value) (schema value) options`, where the two values are what the loaders return for
the call's paths on the (fixed) file system — nothing else.  A fresh process starts from the empty
cache, so "the call alone in a fresh process" is `step init call`, and `alone_eq_spec` shows it is `spec`.

Theorems (for **every** history, **every** number of threads and **every** schedule):

* `inv_step`, `inv_reachable`, `inv_reachable_interleaving`: every entry of either cache is the loader's
  value for its key, in every reachable state of every history and of every interleaving;
* `pure_history`: the i-th call of any history returns what it returns alone from the empty cache;
* `failed_call_no_effect`, `failed_load_state_unchanged`: a failed call changes no later outcome;
* `pure_interleaving`, `pure_interleaving_finished`: whatever the schedule, every completed call of every
  thread returned what it returns alone;
* `schedule_completes`: no action ever blocks (a measure decreases with every action of an unfinished thread);
* `no_stale_alias`, `same_basename_distinct`: results depend on content only; keys are full paths;
* negative witnesses, so that the record shows the theorems depend on the repaired code:
  `poisoning_breaks_purity` (old lock discipline) and `trailing_slash_alias` (old `PathBuf` keying).

The generic theorems carry one hypothesis, `Faithful S`: a loader cannot tell apart two paths with the
same key.  For the system `lib.rs` implements now (`rustSys`: key = the path as written) it holds
trivially (`rustSys_faithful`) and the `rust_*` corollaries have no hypothesis at all.
-/
namespace GqlVerif
namespace C08
open Cache

section generic
variable {P K QV SV O R : Type} [DecidableEq K]

/-- the loaders cannot tell apart two paths with the same cache key -/
def Faithful (S : Sys P K QV SV O R) : Prop :=
  KeyFaithful S.key S.loadQ ∧ KeyFaithful S.key S.loadS

/-- the cache invariant: every entry is what the loader returns for (every path with) its key -/
def Inv (S : Sys P K QV SV O R) (c : CacheState K QV SV) : Prop :=
  MInv S.key S.loadQ c.q ∧ MInv S.key S.loadS c.s

theorem inv_init (S : Sys P K QV SV O R) : Inv S .init := ⟨MInv_nil _ _, MInv_nil _ _⟩

/-! ### sequential histories -/

theorem stepSchema_result {S : Sys P K QV SV O R} (hF : Faithful S) {c : CacheState K QV SV}
    (hc : Inv S c) (qv : QV) (sp : P) (o : O) :
    (stepSchema S c qv sp o).2 = (S.loadS sp >>= fun sv => S.gen qv sv o) := by
  have h := getSet_result hF.2 hc.2 sp
  simp only [stepSchema, h]
  cases S.loadS sp <;> rfl

theorem stepSchema_inv {S : Sys P K QV SV O R} (hF : Faithful S) {c : CacheState K QV SV}
    (hc : Inv S c) (qv : QV) (sp : P) (o : O) : Inv S (stepSchema S c qv sp o).1 := by
  have h := getSet_inv hF.2 hc.2 sp
  simp only [stepSchema]
  split <;> exact ⟨hc.1, h⟩

/-- **a call returns its specification in every state satisfying the invariant** -/
theorem step_result {S : Sys P K QV SV O R} (hF : Faithful S) {c : CacheState K QV SV}
    (hc : Inv S c) (call : Call P O) : (step S c call).2 = spec S call := by
  cases call with
  | fromFile qp sp o =>
    have h := getSet_result hF.1 hc.1 qp
    have hi := getSet_inv hF.1 hc.1 qp
    cases hl : S.loadQ qp with
    | error e =>
      rw [hl] at h
      simp [step, h, hl, spec, queryVal, bind, Except.bind]
    | ok qv =>
      rw [hl] at h hi
      simp only [step, h, hl]
      rw [stepSchema_result hF (c := { c with q := (getSet c.q (S.key qp) (.ok qv)).1 }) ⟨hi, hc.2⟩]
      simp [spec, queryVal, hl, bind, Except.bind, Call.spath, Call.opts]
  | fromString t sp o =>
    simp only [step]
    cases hl : S.parseQ t with
    | error e => simp [spec, queryVal, hl, bind, Except.bind]
    | ok qv =>
      simp only
      rw [stepSchema_result hF hc]
      simp [spec, queryVal, hl, bind, Except.bind, Call.spath, Call.opts]

/-- **the invariant is preserved by every call** (successful or not) -/
theorem inv_step {S : Sys P K QV SV O R} (hF : Faithful S) {c : CacheState K QV SV}
    (hc : Inv S c) (call : Call P O) : Inv S (step S c call).1 := by
  cases call with
  | fromFile qp sp o =>
    have hi := getSet_inv hF.1 hc.1 qp
    simp only [step]
    split
    · exact ⟨hi, hc.2⟩
    · exact stepSchema_inv hF (c := { c with q := (getSet c.q (S.key qp) (S.loadQ qp)).1 }) ⟨hi, hc.2⟩ _ sp o
  | fromString t sp o =>
    simp only [step]
    split
    · exact hc
    · exact stepSchema_inv hF hc _ sp o

/-- **the invariant holds in every reachable state of every history** -/
theorem inv_reachable {S : Sys P K QV SV O R} (hF : Faithful S) (calls : List (Call P O))
    {c : CacheState K QV SV} (hc : Inv S c) : Inv S (run S c calls).1 := by
  induction calls generalizing c with
  | nil => exact hc
  | cons call rest ih => exact ih (inv_step hF hc call)

theorem outcomes_eq_spec {S : Sys P K QV SV O R} (hF : Faithful S) (calls : List (Call P O))
    {c : CacheState K QV SV} (hc : Inv S c) : outcomes S c calls = calls.map (spec S) := by
  induction calls generalizing c with
  | nil => rfl
  | cons call rest ih =>
    have h1 := step_result hF hc call
    have h2 := ih (inv_step hF hc call)
    simp only [outcomes, run, List.map_cons] at h2 ⊢
    rw [h1, h2]

/-- the call alone, from the empty cache of a fresh process, returns its specification -/
theorem alone_eq_spec {S : Sys P K QV SV O R} (hF : Faithful S) (call : Call P O) :
    outcomes S .init [call] = [spec S call] := outcomes_eq_spec hF [call] (inv_init S)

/-- **every call of every finite history returns what it returns alone from an empty cache**
(also after failed calls: no hypothesis on the earlier calls) -/
theorem pure_history {S : Sys P K QV SV O R} (hF : Faithful S) (calls : List (Call P O)) (i : Nat)
    (h : i < calls.length) :
    (outcomes S .init calls)[i]? = (outcomes S .init [calls[i]])[0]? := by
  rw [outcomes_eq_spec hF calls (inv_init S), alone_eq_spec hF]
  simp [h]

/-- a call whose *first* failing stage is a load leaves that cache exactly as it was: in particular a
failing query load changes nothing at all -/
theorem failed_load_state_unchanged (S : Sys P K QV SV O R) (c : CacheState K QV SV) (qp sp : P) (o : O)
    (e : Err) (h : (getSet c.q (S.key qp) (S.loadQ qp)).2 = .error e) :
    (step S c (.fromFile qp sp o)).1 = c := by
  have hu := getSet_error_unchanged h
  simp only [step, h, hu]

/-- **a failure for one input never changes the outcome for another input**: after any call (in
particular a failed one) every later history returns exactly what it returns without that call -/
theorem failed_call_no_effect {S : Sys P K QV SV O R} (hF : Faithful S) {c : CacheState K QV SV}
    (hc : Inv S c) (call : Call P O) (rest : List (Call P O)) :
    outcomes S (step S c call).1 rest = outcomes S c rest := by
  rw [outcomes_eq_spec hF rest (inv_step hF hc call), outcomes_eq_spec hF rest hc]

/-! ### interleavings -/

/-- what the thread-local data of a program counter must satisfy -/
def PcOk (S : Sys P K QV SV O R) : Pc P QV SV O → Prop
  | .start _ => True
  | .computeQ _ => True
  | .insertQ call v => queryVal S call = .ok v
  | .lookupS call qv => queryVal S call = .ok qv
  | .computeS call qv => queryVal S call = .ok qv
  | .insertS call qv v => queryVal S call = .ok qv ∧ S.loadS call.spath = .ok v
  | .generate call qv sv => queryVal S call = .ok qv ∧ S.loadS call.spath = .ok sv

/-- thread invariant w.r.t. its program: the completed calls are a prefix of the program, each with
its specified result; the local data of the call in progress are loader values -/
def TInv (S : Sys P K QV SV O R) (prog : List (Call P O)) (t : Thread P QV SV O R) : Prop :=
  (∀ pc, t.cur = some pc → PcOk S pc) ∧ (t.cur = none → t.todo = []) ∧
  ∃ pre, prog = pre ++ t.pending ∧ t.done = pre.map (spec S)

omit [DecidableEq K] in
theorem TInv_ofProg (S : Sys P K QV SV O R) (prog : List (Call P O)) : TInv S prog (Thread.ofProg prog) := by
  cases prog with
  | nil => exact ⟨by intro pc h; simp [Thread.ofProg] at h, fun _ => rfl, [], rfl, rfl⟩
  | cons c cs =>
    refine ⟨?_, by intro h; simp [Thread.ofProg] at h, [], rfl, rfl⟩
    intro pc h
    simp [Thread.ofProg] at h
    subst h
    trivial

omit [DecidableEq K] in
/-- completing the current call with its specified result keeps the thread invariant -/
theorem TInv_finish {S : Sys P K QV SV O R} {prog : List (Call P O)} {t : Thread P QV SV O R} {pc : Pc P QV SV O}
    (ht : TInv S prog t) (hcur : t.cur = some pc) {r : Outcome R} (hr : r = spec S pc.call) :
    TInv S prog (t.finish r) := by
  obtain ⟨_, _, pre, hpre, hdone⟩ := ht
  unfold Thread.finish
  cases htodo : t.todo with
  | nil =>
    refine ⟨by intro pc' h; simp at h, fun _ => rfl, pre ++ [pc.call], ?_, ?_⟩
    · simp [Thread.pending, hpre, hcur, htodo]
    · simp [hdone, hr]
  | cons c cs =>
    refine ⟨?_, by intro h; simp at h, pre ++ [pc.call], ?_, ?_⟩
    · intro pc' h; simp at h; subst h; trivial
    · simp [Thread.pending, hpre, hcur, htodo, Pc.call]
    · simp [hdone, hr]

omit [DecidableEq K] in
/-- moving to another program counter of the same call keeps the thread invariant -/
theorem TInv_goto {S : Sys P K QV SV O R} {prog : List (Call P O)} {t : Thread P QV SV O R} {pc pc' : Pc P QV SV O}
    (ht : TInv S prog t) (hcur : t.cur = some pc) (hcall : pc'.call = pc.call) (hok : PcOk S pc') :
    TInv S prog (t.goto pc') := by
  obtain ⟨_, _, pre, hpre, hdone⟩ := ht
  refine ⟨?_, by intro h; simp [Thread.goto] at h, pre, ?_, hdone⟩
  · intro pc'' h; simp [Thread.goto] at h; subst h; exact hok
  · simpa [Thread.pending, Thread.goto, hcur, hcall] using hpre

omit [DecidableEq K] in
theorem spec_of_queryVal_error {S : Sys P K QV SV O R} {call : Call P O} {e : Err}
    (h : queryVal S call = .error e) : (.error e : Outcome R) = spec S call := by
  simp [spec, h, bind, Except.bind]

omit [DecidableEq K] in
theorem spec_of_loadS_error {S : Sys P K QV SV O R} {call : Call P O} {qv : QV} {e : Err}
    (hq : queryVal S call = .ok qv) (h : S.loadS call.spath = .error e) : (.error e : Outcome R) = spec S call := by
  simp [spec, hq, h, bind, Except.bind]

omit [DecidableEq K] in
theorem spec_of_ok {S : Sys P K QV SV O R} {call : Call P O} {qv : QV} {sv : SV}
    (hq : queryVal S call = .ok qv) (h : S.loadS call.spath = .ok sv) : S.gen qv sv call.opts = spec S call := by
  simp [spec, hq, h, bind, Except.bind]

/-- **one atomic action of any thread preserves the cache invariant and the thread invariant** -/
theorem act_inv {S : Sys P K QV SV O R} (hF : Faithful S) {c : CacheState K QV SV} (hc : Inv S c)
    {prog : List (Call P O)} {t : Thread P QV SV O R} (ht : TInv S prog t) :
    Inv S (act S c t).1 ∧ TInv S prog (act S c t).2 := by
  unfold act
  cases hcur : t.cur with
  | none => exact ⟨hc, ht⟩
  | some pc =>
    have hpc : PcOk S pc := ht.1 pc hcur
    cases pc with
    | start call =>
      cases call with
      | fromFile qp sp o =>
        simp only
        cases hf : find c.q (S.key qp) with
        | some v => exact ⟨hc, TInv_goto ht hcur rfl (hc.1 qp v hf)⟩
        | none => exact ⟨hc, TInv_goto ht hcur rfl trivial⟩
      | fromString txt sp o =>
        simp only
        cases hp : S.parseQ txt with
        | error e => exact ⟨hc, TInv_finish ht hcur (spec_of_queryVal_error (call := .fromString txt sp o) hp)⟩
        | ok qv => exact ⟨hc, TInv_goto ht hcur rfl hp⟩
    | computeQ call =>
      cases call with
      | fromFile qp sp o =>
        simp only
        cases hl : S.loadQ qp with
        | error e => exact ⟨hc, TInv_finish ht hcur (spec_of_queryVal_error (call := .fromFile qp sp o) hl)⟩
        | ok v => exact ⟨hc, TInv_goto ht hcur rfl hl⟩
      | fromString txt sp o => simp only; exact ⟨hc, by rw [← hcur] at *; exact ht⟩
    | insertQ call v =>
      cases call with
      | fromFile qp sp o =>
        simp only
        have hi := insertGet_inv hF.1 hc.1 (p := qp) (v := v) hpc
        exact ⟨⟨hi.1, hc.2⟩, TInv_goto ht hcur rfl hi.2⟩
      | fromString txt sp o => simp only; exact ⟨hc, by rw [← hcur] at *; exact ht⟩
    | lookupS call qv =>
      simp only
      cases hf : find c.s (S.key call.spath) with
      | some sv => exact ⟨hc, TInv_goto ht hcur rfl ⟨hpc, hc.2 call.spath sv hf⟩⟩
      | none => exact ⟨hc, TInv_goto ht hcur rfl hpc⟩
    | computeS call qv =>
      simp only
      cases hl : S.loadS call.spath with
      | error e => exact ⟨hc, TInv_finish ht hcur (spec_of_loadS_error hpc hl)⟩
      | ok v => exact ⟨hc, TInv_goto ht hcur rfl ⟨hpc, hl⟩⟩
    | insertS call qv v =>
      simp only
      have hi := insertGet_inv hF.2 hc.2 (p := call.spath) (v := v) hpc.2
      exact ⟨⟨hc.1, hi.1⟩, TInv_goto ht hcur rfl ⟨hpc.1, hi.2⟩⟩
    | generate call qv sv =>
      simp only
      exact ⟨hc, TInv_finish ht hcur (spec_of_ok hpc.1 hpc.2)⟩

/-- the global invariant of a configuration running the programs `progs` -/
def GInv (S : Sys P K QV SV O R) (progs : List (List (Call P O))) (cfg : Config P K QV SV O R) : Prop :=
  Inv S cfg.cache ∧ Forall₂ (TInv S) progs cfg.threads

theorem ginv_start (S : Sys P K QV SV O R) (progs : List (List (Call P O))) :
    GInv S progs (Config.start progs) := by
  refine ⟨inv_init S, ?_⟩
  simp only [Config.start]
  induction progs with
  | nil => exact .nil
  | cons p ps ih => exact .cons (TInv_ofProg S p) ih

theorem ginv_stepAt {S : Sys P K QV SV O R} (hF : Faithful S) {progs : List (List (Call P O))}
    {cfg : Config P K QV SV O R} (h : GInv S progs cfg) (i : Nat) : GInv S progs (cfg.stepAt S i) := by
  unfold Config.stepAt
  cases ht : cfg.threads[i]? with
  | none => exact h
  | some t =>
    obtain ⟨prog, hprog, htinv⟩ := h.2.get i t ht
    have := act_inv hF h.1 htinv
    simp only
    refine ⟨this.1, h.2.set i _ ?_⟩
    intro a ha
    rw [hprog] at ha
    cases ha
    exact this.2

theorem ginv_exec {S : Sys P K QV SV O R} (hF : Faithful S) {progs : List (List (Call P O))}
    (sched : List Nat) {cfg : Config P K QV SV O R} (h : GInv S progs cfg) : GInv S progs (cfg.exec S sched) := by
  induction sched generalizing cfg with
  | nil => exact h
  | cons i rest ih => exact ih (ginv_stepAt hF h i)

/-- **the cache invariant holds in every reachable state of every interleaving** -/
theorem inv_reachable_interleaving {S : Sys P K QV SV O R} (hF : Faithful S) (progs : List (List (Call P O)))
    (sched : List Nat) : Inv S ((Config.start progs).exec S sched).cache :=
  (ginv_exec hF sched (ginv_start S progs)).1

/-- **for every schedule of every family of call sequences on any number of threads: the calls each
thread has completed are a prefix of its program, and each returned what it returns alone** -/
theorem pure_interleaving {S : Sys P K QV SV O R} (hF : Faithful S) (progs : List (List (Call P O)))
    (sched : List Nat) :
    Forall₂ (fun prog (t : Thread P QV SV O R) => ∃ pre, prog = pre ++ t.pending ∧ t.done = pre.map (spec S))
      progs ((Config.start progs).exec S sched).threads := by
  have h := (ginv_exec hF sched (ginv_start S progs)).2
  exact h.imp (fun _ _ hti => hti.2.2)

/-- … in particular a thread that has finished returned, for each of its calls, the call's result alone -/
theorem pure_interleaving_finished {S : Sys P K QV SV O R} (hF : Faithful S) (progs : List (List (Call P O)))
    (sched : List Nat) (i : Nat) (t : Thread P QV SV O R)
    (ht : ((Config.start progs).exec S sched).threads[i]? = some t) (hfin : t.finished = true) :
    ∃ prog, progs[i]? = some prog ∧ t.done = prog.map (spec S) := by
  obtain ⟨prog, hprog, pre, hpre, hdone⟩ := (pure_interleaving hF progs sched).get i t ht
  refine ⟨prog, hprog, ?_⟩
  have : t.pending = [] := by
    simp [Thread.finished] at hfin
    simp [Thread.pending, hfin]
  rw [this, List.append_nil] at hpre
  rw [hpre, hdone]

/-! ### no action ever blocks: a measure that strictly decreases -/

omit [DecidableEq K] in
theorem finish_measure (t : Thread P QV SV O R) (r : Outcome R) : (t.finish r).measure = 7 * t.todo.length := by
  unfold Thread.finish Thread.measure
  cases t.todo <;> simp [Pc.rank]; omega

/-- **every action of an unfinished (well-formed) thread makes progress**: so any schedule that gives
each thread `measure` turns completes it; nothing ever waits for another thread -/
theorem schedule_completes (S : Sys P K QV SV O R) (c : CacheState K QV SV) (t : Thread P QV SV O R)
    (pc : Pc P QV SV O) (hcur : t.cur = some pc) (hwf : pc.wf) :
    (act S c t).2.measure < t.measure ∧ (∀ pc', (act S c t).2.cur = some pc' → pc'.wf) := by
  have hm : t.measure = pc.rank + 7 * t.todo.length := by simp [Thread.measure, hcur]
  have hfin : ∀ r, (t.finish r).measure < t.measure ∧ (∀ pc', (t.finish r).cur = some pc' → pc'.wf) := by
    intro r
    refine ⟨by rw [finish_measure, hm]; cases pc <;> simp [Pc.rank], ?_⟩
    intro pc' h
    unfold Thread.finish at h
    cases htodo : t.todo with
    | nil => simp [htodo] at h
    | cons c cs => simp [htodo] at h; subst h; trivial
  have hgo : ∀ pc' : Pc P QV SV O, pc'.rank < pc.rank → pc'.wf →
      (t.goto pc').measure < t.measure ∧ (∀ pc'', (t.goto pc').cur = some pc'' → pc''.wf) := by
    intro pc' hr hw
    refine ⟨by simp only [Thread.goto, Thread.measure, hcur]; omega, ?_⟩
    intro pc'' h; simp [Thread.goto] at h; subst h; exact hw
  unfold act
  rw [hcur]
  cases pc with
  | start call =>
    cases call with
    | fromFile qp sp o =>
      simp only
      cases find c.q (S.key qp) <;> exact hgo _ (by simp [Pc.rank]) trivial
    | fromString txt sp o =>
      simp only
      cases S.parseQ txt with
      | error e => exact hfin _
      | ok qv => exact hgo _ (by simp [Pc.rank]) trivial
  | computeQ call =>
    cases call with
    | fromFile qp sp o =>
      simp only
      cases S.loadQ qp with
      | error e => exact hfin _
      | ok v => exact hgo _ (by simp [Pc.rank]) trivial
    | fromString txt sp o => exact absurd hwf (by simp [Pc.wf])
  | insertQ call v =>
    cases call with
    | fromFile qp sp o =>
      simp only
      exact hgo _ (by simp [Pc.rank]) trivial
    | fromString txt sp o => exact absurd hwf (by simp [Pc.wf])
  | lookupS call qv =>
    simp only
    cases find c.s (S.key call.spath) <;> exact hgo _ (by simp [Pc.rank]) trivial
  | computeS call qv =>
    simp only
    cases S.loadS call.spath with
    | error e => exact hfin _
    | ok v => exact hgo _ (by simp [Pc.rank]) trivial
  | insertS call qv v =>
    simp only
    exact hgo _ (by simp [Pc.rank]) trivial
  | generate call qv sv => exact hfin _

end generic

/-! ## the system `lib.rs` implements: no hypothesis left -/

section rust
variable {QDoc SV O R : Type}

/-- keyed by the path as written, the loaders trivially cannot tell apart two paths with equal keys -/
theorem rustSys_faithful (E : Ext QDoc SV O R) (fs : Fs) : Faithful (rustSys E fs) :=
  ⟨fun _ _ h => by simp [rustSys] at h; rw [h], fun _ _ h => by simp [rustSys] at h; rw [h]⟩

theorem rust_inv_reachable (E : Ext QDoc SV O R) (fs : Fs) (calls : List (Call Path O)) :
    Inv (rustSys E fs) (run (rustSys E fs) .init calls).1 :=
  inv_reachable (rustSys_faithful E fs) calls (inv_init _)

theorem rust_pure_history (E : Ext QDoc SV O R) (fs : Fs) (calls : List (Call Path O)) (i : Nat)
    (h : i < calls.length) :
    (outcomes (rustSys E fs) .init calls)[i]? = (outcomes (rustSys E fs) .init [calls[i]])[0]? :=
  pure_history (rustSys_faithful E fs) calls i h

theorem rust_pure_interleaving (E : Ext QDoc SV O R) (fs : Fs) (progs : List (List (Call Path O)))
    (sched : List Nat) (i : Nat) (t : Thread Path (String × QDoc) SV O R)
    (ht : ((Config.start progs).exec (rustSys E fs) sched).threads[i]? = some t) (hfin : t.finished = true) :
    ∃ prog, progs[i]? = some prog ∧ t.done = prog.map (spec (rustSys E fs)) :=
  pure_interleaving_finished (rustSys_faithful E fs) progs sched i t ht hfin

/-- **results depend on content only**: two calls whose query paths hold the same text and whose schema
paths hold the same text in the same format return the same result, in any two reachable states
(no entry is ever served for a path whose file has other content) -/
theorem no_stale_alias (E : Ext QDoc SV O R) (fs : Fs) (qp qp' sp sp' : Path) (o : O)
    (hq : fs qp = fs qp') (hs : fs sp = fs sp') (hfmt : schemaFormat sp = schemaFormat sp')
    {c c' : CacheState Path (String × QDoc) SV} (hc : Inv (rustSys E fs) c) (hc' : Inv (rustSys E fs) c') :
    (step (rustSys E fs) c (.fromFile qp sp o)).2 = (step (rustSys E fs) c' (.fromFile qp' sp' o)).2 := by
  rw [step_result (rustSys_faithful E fs) hc, step_result (rustSys_faithful E fs) hc']
  simp [spec, queryVal, Call.spath, Call.opts, rustSys, rustLoadQ, rustLoadS, readFile, hq, hs, hfmt]

/-- **keys are full paths**: two files with the same base name in different directories have different
keys, so by the invariant (`rust_inv_reachable`) neither is ever served the other's entry -/
theorem same_basename_distinct (E : Ext QDoc SV O R) (fs : Fs) (d1 d2 n : Path) (h : d1 ≠ d2) :
    (rustSys E fs).key (d1 ++ '/' :: n) ≠ (rustSys E fs).key (d2 ++ '/' :: n) := by
  intro hk
  simp [rustSys] at hk
  exact h hk

/-- … and whatever ran before (same base name elsewhere, aliases, failures), a call is served the
generator's result on the content of *its own* paths -/
theorem rust_call_after_history (E : Ext QDoc SV O R) (fs : Fs) (calls : List (Call Path O)) (call : Call Path O) :
    (step (rustSys E fs) (run (rustSys E fs) .init calls).1 call).2 = spec (rustSys E fs) call :=
  step_result (rustSys_faithful E fs) (rust_inv_reachable E fs calls) call

/-- the same statement for the component comparison `Path` uses (holds for both keyings): equal base
names never make two directories' files share a key -/
theorem same_basename_distinct_components (d1 d2 n : Path) (h1 : d1 ≠ []) (h2 : d2 ≠ [])
    (h : components d1 ≠ components d2) : components (d1 ++ '/' :: n) ≠ components (d2 ++ '/' :: n) := by
  rw [components_join d1 n h1, components_join d2 n h2]
  intro he
  exact h (List.append_cancel_right he)

end rust

/-! ## concrete instances (non-vacuity) and the negative witnesses -/

namespace Witness

/-- a toy external world: every text except `bad` parses; the generator pairs the two texts -/
def E : Ext Unit String Unit (String × String) where
  parseQuery t := if t = "bad" then .error "parse" else .ok ()
  loadSdl t := if t = "bad" then panic' "Parser error" else .ok t
  loadJson t := if t = "bad" then panic' "serde" else .ok t
  generate q s _ := .ok (q.1, s)

def qPath : Path := "d/q.graphql".toList
def qSlash : Path := "d/q.graphql/".toList
def sPath : Path := "d/s.graphql".toList
def missing : Path := "d/nope.graphql".toList

def fs : Fs := fun p =>
  if p = qPath then some "q1" else if p = sPath then some "s1" else none

def qDot : Path := "d/./q.graphql".toList
def sGql : Path := "e/../d/s.gql".toList

/-- the same two files, each also reachable under a second spelling -/
def fs2 : Fs := fun p =>
  if p = qPath ∨ p = qDot then some "q1" else if p = sPath ∨ p = sGql then some "s1" else none

def okCall : Call Path Unit := .fromFile qPath sPath ()
def missingCall : Call Path Unit := .fromFile missing sPath ()
def slashCall : Call Path Unit := .fromFile qSlash sPath ()

def isOk {α} : Outcome α → Bool | .ok _ => true | .error _ => false
def isPanic {α} : Outcome α → Bool | .error (.panic _) => true | _ => false

/-- the repaired code on `[ok-call, missing-file call, ok-call]`: ok, panic, ok -/
theorem repaired_history_ok :
    (outcomes (rustSys E fs) .init [okCall, missingCall, okCall]).map isOk = [true, false, true] := by
  decide

/-- **old lock discipline** (load inside the critical section, panic poisons the mutex): the same
history makes the third call fail although alone it succeeds -/
theorem poisoning_breaks_purity :
    (Old.outcomes (rustSys E fs) {} [okCall, missingCall, okCall]).map isPanic = [false, true, true] ∧
    (Old.outcomes (rustSys E fs) {} [okCall]).map isPanic = [false] := by
  decide

/-- **old keying** (`PathBuf`, compared by components): `d/q.graphql/` has the key of `d/q.graphql` but
cannot be opened; after the good call it is served from the cache, alone it panics -/
theorem trailing_slash_alias :
    components qSlash = components qPath ∧ fs qSlash ≠ fs qPath ∧
    (outcomes (componentKeyedSys E fs) .init [okCall, slashCall]).map isOk = [true, true] ∧
    (outcomes (componentKeyedSys E fs) .init [slashCall]).map isOk = [false] ∧
    (outcomes (rustSys E fs) .init [okCall, slashCall]).map isOk = [true, false] := by
  decide

/-- the hypothesis of the generic theorems holds for the current keying … -/
example : Faithful (rustSys E fs) := rustSys_faithful E fs

/-- … and fails for the old one, on exactly the trailing-slash pair -/
theorem old_keying_not_faithful : ¬ Faithful (componentKeyedSys E fs) := by
  intro h
  have h1 := h.1 qSlash qPath (by decide)
  have h2 := congrArg isOk h1
  revert h2
  decide

/-- the `Inv` hypotheses are met by every reachable state, e.g. the non-empty cache after a good call -/
example : Inv (rustSys E fs) (run (rustSys E fs) .init [okCall, missingCall]).1 ∧
    (run (rustSys E fs) .init [okCall, missingCall]).1.q.length = 1 :=
  ⟨rust_inv_reachable E fs _, by decide⟩

/-- `schedule_completes`: the program counters a thread starts from are well-formed -/
example : (Pc.start okCall : Pc Path (String × Unit) String Unit).wf := trivial

/-- the hypotheses of `no_stale_alias` are satisfiable by genuinely different paths -/
example : qDot ≠ qPath ∧ sGql ≠ sPath ∧ fs2 qDot = fs2 qPath ∧ fs2 sGql = fs2 sPath ∧
    schemaFormat sGql = schemaFormat sPath := by decide

/-- `same_basename_distinct`: `d/q.graphql` and `e/q.graphql` -/
example : ("d".toList ++ '/' :: "q.graphql".toList) ≠ ("e".toList ++ '/' :: "q.graphql".toList) := by decide

example : schemaFormat sPath = .sdl ∧ schemaFormat "x/s.json".toList = .json ∧
    schemaFormat "x/s.txt".toList = .unsupported ∧ schemaFormat "x/.graphql".toList = .unsupported ∧
    schemaFormat "x/s.graphql/".toList = .sdl ∧ schemaFormat "x/s".toList = .unsupported := by decide

/-- two threads racing on the same cold keys, one of them also issuing the failing call: an actual
schedule in which both compute the query before either inserts -/
theorem race_example :
    (((Config.start [[okCall, missingCall], [okCall]]).exec (rustSys E fs)
        [0, 1, 0, 1, 0, 1, 0, 0, 0, 0, 1, 1, 1, 1, 0, 0, 1]).threads.map
      fun t => (t.finished, t.done.map isOk)) = [(true, [true, false]), (true, [true])] := by
  decide

end Witness

end C08
end GqlVerif
