import GqlVerif.Model.EnumSpec
import GqlVerif.Model.Codegen
import GqlVerif.Model.Serde
/-!
# C10 — generated enums are open-world string bijections

The generated `impl Serialize` / `impl Deserialize` of a GraphQL enum are two `match` tables plus the
`Other(String)` fallback.  The harness extracts both tables from the *emitted* impls on every run and
evaluates `EnumSpec.tablesWf` on them; the theorems below say what follows from `tablesWf`, for
**every** table and **every** string:

* `roundtrip_all_strings` — `serialize (deserialize s) = s` for all strings `s`;
* `schema_value_own_variant` — each wire name maps to its own variant and that variant back to
  exactly that name;
* `distinct_values_distinct_variants` — two different wire names never share a variant;
* `unknown_string_is_other` — any string that is not a wire name becomes `Other(s)`, never an error;
* `codegen_tables_wf` — the tables `Codegen.enumItem` emits satisfy `tablesWf` whenever the schema's
  value names are pairwise distinct and their Rust identifiers are pairwise distinct (the case
  function and keyword escaping are arbitrary: parameters of the theorem);
* `wire_is_schema_name` — whatever the case function and normalization, the wire strings are exactly
  the schema's value names;
* `serde_model_enum` — the serde model used by the wire-level checks reads a string enum exactly as
  `EnumSpec.deE`.
-/
namespace GqlVerif
namespace C10
open EnumSpec

theorem nodup_iff {l : List String} : nodup l = true ↔ l.Nodup := by
  induction l with
  | nil => simp [nodup]
  | cons x xs ih => simp [nodup, ih, List.contains_iff_mem]

theorem find_fst_of_nodup {l : List (String × String)} (h : (l.map (·.1)).Nodup) {p : String × String}
    (hp : p ∈ l) : l.find? (·.1 == p.1) = some p := by
  induction l with
  | nil => simp at hp
  | cons a l ih =>
    simp only [List.map_cons, List.nodup_cons] at h
    simp only [List.mem_cons] at hp
    rcases hp with rfl | hp
    · simp
    · have hne : a.1 ≠ p.1 := by
        intro heq
        exact h.1 (heq ▸ List.mem_map_of_mem hp)
      simp [List.find?_cons, hne, ih h.2 hp]

theorem find_none_of_not_mem {l : List (String × String)} {s : String} (h : s ∉ l.map (·.1)) :
    l.find? (·.1 == s) = none := by
  rw [List.find?_eq_none]
  intro x hx
  simp only [beq_iff_eq]
  intro heq
  exact h (heq ▸ List.mem_map_of_mem hx)

theorem wf_parts {vs : List String} {ser de : List (String × String)} (h : tablesWf vs ser de = true) :
    (de.map (·.1)).Nodup ∧ (de.map (·.2)).Nodup ∧ vs = de.map (·.2) ∧ ser = de.map (fun p => (p.2, p.1)) := by
  simp only [tablesWf, Bool.and_eq_true, beq_iff_eq] at h
  exact ⟨nodup_iff.mp h.1.1.1, nodup_iff.mp h.1.1.2, h.1.2, h.2⟩

/-- each wire name selects its own variant, and that variant serializes to exactly that name -/
theorem schema_value_own_variant {vs ser de} (h : tablesWf vs ser de = true) {w ident : String}
    (hm : (w, ident) ∈ de) :
    deE de w = .variant ident ∧ serE ser (.variant ident) = some w := by
  obtain ⟨h1, h2, -, hser⟩ := wf_parts h
  constructor
  · simp [deE, find_fst_of_nodup h1 hm]
  · subst hser
    have hm' : (ident, w) ∈ de.map (fun p => (p.2, p.1)) := List.mem_map.mpr ⟨(w, ident), hm, rfl⟩
    have hnd : ((de.map (fun p => (p.2, p.1))).map (·.1)).Nodup := by simpa [List.map_map, Function.comp_def] using h2
    simp [serE, find_fst_of_nodup hnd hm']

/-- any string that is not a wire name becomes `Other(s)` -/
theorem unknown_string_is_other (de : List (String × String)) (s : String) (h : s ∉ de.map (·.1)) :
    deE de s = .other s := by
  simp [deE, find_none_of_not_mem h]

/-- **serialize ∘ deserialize = id on all strings** -/
theorem roundtrip_all_strings {vs ser de} (h : tablesWf vs ser de = true) (s : String) :
    serE ser (deE de s) = some s := by
  by_cases hs : s ∈ de.map (·.1)
  · obtain ⟨p, hp, rfl⟩ := List.mem_map.mp hs
    have := schema_value_own_variant h (w := p.1) (ident := p.2) hp
    rw [this.1, this.2]
  · rw [unknown_string_is_other de s hs]; rfl

/-- two different wire names never share a variant -/
theorem distinct_values_distinct_variants {vs ser de} (h : tablesWf vs ser de = true)
    {w1 w2 : String} (hne : w1 ≠ w2) :
    deE de w1 ≠ deE de w2 := by
  intro heq
  have r1 := roundtrip_all_strings h w1
  have r2 := roundtrip_all_strings h w2
  rw [heq, r2] at r1
  exact hne (Option.some.inj r1).symm

/-- deserialization is total on strings (never an error): it is a function into `EVal` -/
theorem deserialize_total (de : List (String × String)) (s : String) :
    (∃ ident, deE de s = .variant ident) ∨ deE de s = .other s := by
  unfold deE
  cases de.find? (·.1 == s) with
  | none => right; rfl
  | some p => left; exact ⟨p.2, rfl⟩

example : tablesWf ["where_", "self_", "Red"] [("where_", "where"), ("self_", "self"), ("Red", "red")]
    [("where", "where_"), ("self", "self_"), ("red", "Red")] = true := by decide

/-! ## the tables the generator emits -/

/-- the wire strings are exactly the schema's value names, for any case function, normalization
    and keyword table -/
theorem wire_is_schema_name (c : Codegen.Ctx) (e : StoredEnum) :
    ∃ name derives path idents ser de, Codegen.enumItem c e = .gqlEnum name derives path idents ser de ∧
      de.map (·.1) = e.variants ∧ ser.map (·.2) = e.variants := by
  refine ⟨_, _, _, _, _, _, rfl, ?_, ?_⟩ <;> simp [List.map_map, Function.comp_def]

/-- the emitted tables are well-formed whenever value names and their identifiers are distinct -/
theorem codegen_tables_wf (c : Codegen.Ctx) (e : StoredEnum) (hv : e.variants.Nodup)
    (hi : (e.variants.map (fun v => enumVariantIdent c.o.normalization c.cs v)).Nodup) :
    ∃ name derives path idents ser de, Codegen.enumItem c e = .gqlEnum name derives path idents ser de ∧
      tablesWf idents ser de = true := by
  refine ⟨_, _, _, _, _, _, rfl, ?_⟩
  simp only [tablesWf, Bool.and_eq_true, beq_iff_eq]
  refine ⟨⟨⟨?_, ?_⟩, ?_⟩, ?_⟩
  · apply nodup_iff.mpr; simpa [List.map_map, Function.comp_def] using hv
  · apply nodup_iff.mpr; simpa [List.map_map, Function.comp_def] using hi
  · simp [List.map_map, Function.comp_def]
  · simp [List.map_map, Function.comp_def]

/-- no schema value gets the identifier of the catch-all variant `Other(String)`: for ANY value name, case
    function and normalization (a value that would be called `Other` — `Other` itself, `OTHER` / `other` under
    `normalization = rust` — is escaped to `Other_`) -/
theorem ident_ne_other (n : Normalization) (cs : CaseFns) (v : String) : enumVariantIdent n cs v ≠ "Other" := by
  unfold enumVariantIdent
  simp only
  split
  · decide
  · rename_i h; simpa using h

/-- so the identifiers the generated enum declares — the schema values' and `Other` — are pairwise distinct
    exactly when the schema values' identifiers are -/
theorem declared_idents_nodup (c : Codegen.Ctx) (e : StoredEnum)
    (hi : (e.variants.map (fun v => enumVariantIdent c.o.normalization c.cs v)).Nodup) :
    ∃ name derives path idents ser de, Codegen.enumItem c e = .gqlEnum name derives path idents ser de ∧
      (idents ++ ["Other"]).Nodup := by
  refine ⟨_, _, _, _, _, _, rfl, ?_⟩
  rw [List.nodup_append]
  refine ⟨hi, by simp, ?_⟩
  intro a ha b hb
  simp only [List.mem_singleton] at hb
  subst hb
  obtain ⟨v, -, rfl⟩ := List.mem_map.mp ha
  exact ident_ne_other _ _ v

/-- the escape is the only change: any other identifier is `keyword_replace (normalization value)` -/
theorem ident_eq_unless_other (n : Normalization) (cs : CaseFns) (v : String)
    (h : keywordReplace (n.enumVariant cs v) ≠ "Other") :
    enumVariantIdent n cs v = keywordReplace (n.enumVariant cs v) := by
  unfold enumVariantIdent
  simp [h]

/-- the serde model reads a string enum exactly as `deE` -/
theorem serde_model_enum (env : Env) (b : Bool) (fuel : Nat) (p name : String) (d : List String) (sp : String)
    (vs : List String) (ser de : List (String × String)) (s : String)
    (hp : p ≠ "String" ∧ p ≠ "i64" ∧ p ≠ "f64" ∧ p ≠ "bool")
    (hfind : env.find p = some (.gqlEnum name d sp vs ser de)) :
    Serde.dePath env b (fuel + 1) p (.str s) =
      .ok (match deE de s with | .variant i => Val.variant i none | .other o => Val.enumOther o) := by
  unfold Serde.dePath
  have hprim : Serde.dePrim p (.str s) = none := by
    simp [Serde.dePrim, hp.1, hp.2.1, hp.2.2.1, hp.2.2.2]
  simp only [hprim, hfind]
  unfold deE
  cases de.find? (·.1 == s) with
  | none => rfl
  | some q => rfl

end C10
end GqlVerif
