import GqlVerif.Model.Codegen
import GqlVerif.Model.Intro
import GqlVerif.Model.Gen.Consts
/-!
# C13 — one exact rule maps GraphQL type modifiers to Option / Vec nesting

Specification (`rustOf`): non-null removes one `Option`, a list becomes `Vec`, at every level.
Theorems: the code's `decorate_type` (a right-to-left fold over the flat qualifier list with a
one-bit state) computes exactly `rustOf` for **every** well-formed type expression, of any depth;
it panics exactly on `!!` (which neither parser produces); both schema front-ends extract the same
qualifier list; the built-in scalar aliases are the documented ones.
-/
namespace GqlVerif
namespace C13

/-! ## the specification -/
mutual
  /-- Rust type of a type expression in non-null context -/
  def rustOfNN (b : RTy) : GTy → RTy
    | .named _ => b
    | .list t => .vec (rustOf b t)
    | .nonNull t => rustOfNN b t
  /-- Rust type of a type expression -/
  def rustOf (b : RTy) : GTy → RTy
    | .nonNull t => rustOfNN b t
    | .named n => .opt (rustOfNN b (.named n))
    | .list t => .opt (rustOfNN b (.list t))
end

/-- well-formed: no `!!` (the GraphQL grammar has no such type; see `parser_wf` in the tie) -/
def wf : GTy → Bool
  | .named _ => true
  | .list t => wf t
  | .nonNull (.nonNull _) => false
  | .nonNull t => wf t

example : rustOf (.path "i64") (.nonNull (.list (.list (.nonNull (.named "Int"))))) =
    .vec (.opt (.vec (.path "i64"))) := by simp [rustOf, rustOfNN]   -- `[[Int!]]!` is `Vec<Option<Vec<i64>>>`

/-! ## helper: the fold state after reading the qualifiers of `t` -/

def isNN : GTy → Bool
  | .nonNull _ => true
  | _ => false

def final (st : RTy × Bool) : RTy := if st.2 then st.1 else .opt st.1

theorem rustOf_eq (b : RTy) (t : GTy) : rustOf b t = final (rustOfNN b t, isNN t) := by
  cases t <;> simp [rustOf, rustOfNN, final, isNN]

theorem foldlM_snoc (f : RTy × Bool → Qual → Outcome (RTy × Bool)) (init : RTy × Bool) (qs : List Qual) (q : Qual) :
    (qs ++ [q]).foldlM f init = (qs.foldlM f init >>= fun st => f st q) := by
  simp [List.foldlM_append]

/-- the fold over the reversed qualifier list reaches `(rustOfNN t, isNN t)` -/
theorem fold_state (b : RTy) (t : GTy) (h : wf t = true) :
    (GTy.quals t).reverse.foldlM Codegen.decorateStep (b, false) = .ok (rustOfNN b t, isNN t) := by
  induction t with
  | named n => simp [GTy.quals, rustOfNN, isNN]; rfl
  | list t ih =>
    have h' : wf t = true := by simpa [wf] using h
    simp only [GTy.quals, List.reverse_cons, foldlM_snoc, ih h']
    show Codegen.decorateStep (rustOfNN b t, isNN t) Qual.list = _
    rw [rustOfNN, rustOf_eq]
    cases hnn : isNN t <;> simp [Codegen.decorateStep, final, isNN] <;> rfl
  | nonNull t ih =>
    have h' : wf t = true := by
      cases t <;> simp_all [wf]
    have hnn : isNN t = false := by
      cases t <;> simp_all [wf, isNN]
    simp only [GTy.quals, List.reverse_cons, foldlM_snoc, ih h']
    show Codegen.decorateStep (rustOfNN b t, isNN t) Qual.required = _
    rw [hnn]
    simp [Codegen.decorateStep, rustOfNN, isNN]; rfl

/-! ## property theorems -/

/-- **C13 main theorem.** For every well-formed type expression (any list depth, any placement of
`!`) and every base type, `decorate_type` returns exactly the Rust type the documented rule gives. -/
theorem decorate_spec (b : RTy) (t : GTy) (h : wf t = true) :
    Codegen.decorateType b (GTy.quals t) = .ok (rustOf b t) := by
  unfold Codegen.decorateType
  rw [fold_state b t h, rustOf_eq]
  simp [final]
  cases isNN t <;> rfl

/-- `!!` makes `decorate_type` panic instead of silently producing a type -/
theorem decorate_double_required_panics (b : RTy) (t : GTy) (h : wf t = true) :
    Codegen.decorateType b (GTy.quals (.nonNull (.nonNull t))) = .error (.panic "double required annotation") := by
  unfold Codegen.decorateType
  have hq : (GTy.quals (.nonNull (.nonNull t))).reverse = ((GTy.quals t).reverse ++ [Qual.required]) ++ [Qual.required] := by
    simp [GTy.quals]
  rw [hq, foldlM_snoc, foldlM_snoc, fold_state b t h]
  cases hnn : isNN t
  · simp [Codegen.decorateStep, hnn, bind, Except.bind, panic', pure, Except.pure]
  · simp [Codegen.decorateStep, hnn, bind, Except.bind, panic', pure, Except.pure]

/-- the introspection rendering of a type expression (`__Type` with `ofType` chain) -/
def toTypeRef (kind : String) : GTy → TypeRef
  | .named n => .mk (some kind) (some n) none
  | .list t => .mk (some "LIST") none (some (toTypeRef kind t))
  | .nonNull t => .mk (some "NON_NULL") none (some (toTypeRef kind t))

/-- **both front-ends read the same qualifiers**: the JSON path applied to the introspection
rendering of `t` yields exactly `quals t` (and the named type's id), for every `t`. -/
theorem quals_json_eq_sdl (s : Schema) (kind : String) (t : GTy) (id : TypeId)
    (hk : kind ≠ "NON_NULL" ∧ kind ≠ "LIST") (hid : namesGet t.base s.names = some id) :
    Intro.fromJsonType s (toTypeRef kind t) = .ok { id := id, quals := GTy.quals t } ∧
    resolveFieldType s t = .ok { id := id, quals := GTy.quals t } := by
  constructor
  · induction t with
    | named n =>
      simp only [toTypeRef, GTy.base] at *
      unfold Intro.fromJsonType
      split <;> simp_all [GTy.quals] <;> rfl
    | list t ih =>
      have := ih (by simpa [GTy.base] using hid)
      simp [toTypeRef, Intro.fromJsonType, this, GTy.quals, bind, Except.bind, pure, Except.pure]
    | nonNull t ih =>
      have := ih (by simpa [GTy.base] using hid)
      simp [toTypeRef, Intro.fromJsonType, this, GTy.quals, bind, Except.bind, pure, Except.pure]
  · simp [resolveFieldType, Schema.findTypeId, Schema.findType, hid, bind, Except.bind, pure, Except.pure]

/-- the built-in scalars map to the documented Rust types (aliases emitted in every module) -/
theorem builtin_alias_map :
    Codegen.builtinAliases =
      [.alias "Boolean" false (.path "bool"), .alias "Float" false (.path "f64"),
       .alias "Int" false (.path "i64"), .alias "ID" false (.path "String")] := rfl

/-- the model's aliases are the ones the *current source* emits (table regenerated by the translator
on every run: a change to the aliases in `codegen.rs` breaks this obligation) -/
theorem builtin_alias_source :
    Codegen.builtinAliases = Gen.builtinAliases.map (fun ab => Item.alias ab.1 false (.path ab.2)) := by
  simp [Codegen.builtinAliases, Gen.builtinAliases]

/-- the rule is the same at every position: response fields, variables and input fields all go
through `decorate_type` on the schema's qualifier list (response side, stated on `renderField`). -/
theorem response_field_type (c : Codegen.Ctx) (g : Option String) (r ft : String) (t : GTy)
    (h : wf t = true) (f : RField)
    (hr : Codegen.renderField c g r ft (GTy.quals t) false false none = .ok (some f)) :
    f.ty = rustOf (.path ft) t := by
  unfold Codegen.renderField at hr
  rw [decorate_spec _ _ h] at hr
  simp [bind, Except.bind, pure, Except.pure] at hr
  rw [← hr]

end C13
end GqlVerif
