import GqlVerif.Props.C03
import GqlVerif.Props.C16
import GqlVerif.Proofs.C01Layers
/-!
# C01 — every spec-conforming response deserializes losslessly into ResponseData

Layer 1 (leaf positions at every modifier depth), proved here for all type expressions and values:

* `accepts_mono` — admitting more at the leaves admits more at every type expression;
* `conforming_int_accepted` — a value conforming to a GraphQL `Int` type expression (32-bit
  integers at the leaves, nulls only where allowed, lists where required) is accepted by the
  generated Rust type, at any list depth and `!` placement; likewise `conforming_string_accepted`,
  `conforming_id_accepted` (ID as string **or** integer, through the helper the generator attaches);
* `int_roundtrip_leaf`, `string_roundtrip_leaf`, `id_canonical_leaf` — what is read is written back
  unchanged, except that an integer ID comes back as its decimal string (the difference the property allows).

Layers 2–5 are proved in `GqlVerif/Proofs/C01Layers.lean` (same namespace; audited with this file):

* L1 `leaf_roundtrip`, `leaf_lossless`, `*_position_rt`, `id_field_roundtrip` — at every type expression:
  what is read is written back as `canon leafCanon t j` (identity at the leaves except integer ID →
  decimal string);
* L2 `struct_accepts`, `struct_roundtrip`, `struct_roundtrip_lookup`, `struct_roundtrip_keys`,
  `unknown_keys_ignored`, `struct_position_roundtrip` — plain structs, nested objects and lists of
  objects along a selection tree (`__typename` and unselected keys are dropped, nothing else);
* L3 `tagged_read`, `tagged_roundtrip` — `__typename`-tagged enums;
* L4 `flatten_eq`, `flatten_take_roundtrip`, `flatten_roundtrip` — one flattened fragment struct with
  keys disjoint from the own fields' keys;
* `overlap_loses_key`, `overlap_loses_key_silently`, `disjoint_control` — the known finding
  `C01-overlap` as theorems about the model (and the disjointness hypothesis is exactly what L4 needs).

What is still covered by the correspondence only: several flattened members at once, `Box`ed flatten
members (recursive fragments), and the composition of all layers along an arbitrary generated module
(the theorems compose, as the `demoEnv` example shows, but there is no single end-to-end statement
over `Codegen.generate` yet).
-/
namespace GqlVerif
namespace C01
open Serde Spec C13 C03

/-- GraphQL `Int`: a signed 32-bit integer -/
def int32Ok : Json → Bool
  | .int n => -2147483648 ≤ n && n ≤ 2147483647
  | _ => false

theorem accepts_mono (ok ok' : Json → Bool) (h : ∀ j, ok j = true → ok' j = true) :
    ∀ t : GTy, (∀ j, acceptsNN ok t j = true → acceptsNN ok' t j = true) ∧
               (∀ j, accepts ok t j = true → accepts ok' t j = true) := by
  intro t
  induction t with
  | named n =>
    have hnn : ∀ j, acceptsNN ok (.named n) j = true → acceptsNN ok' (.named n) j = true := by
      intro j; simpa [acceptsNN] using h j
    refine ⟨hnn, fun j hj => ?_⟩
    simp only [accepts, Bool.or_eq_true] at hj ⊢
    exact hj.imp id (hnn j)
  | list t ih =>
    have hnn : ∀ j, acceptsNN ok (.list t) j = true → acceptsNN ok' (.list t) j = true := by
      intro j hj
      cases j with
      | arr xs =>
        simp only [acceptsNN, List.all_eq_true] at hj ⊢
        intro x hx; exact ih.2 x (hj x hx)
      | null => simp [acceptsNN] at hj
      | bool b => simp [acceptsNN] at hj
      | int n => simp [acceptsNN] at hj
      | num s => simp [acceptsNN] at hj
      | str s => simp [acceptsNN] at hj
      | obj kvs => simp [acceptsNN] at hj
    refine ⟨hnn, fun j hj => ?_⟩
    simp only [accepts, Bool.or_eq_true] at hj ⊢
    exact hj.imp id (hnn j)
  | nonNull t ih =>
    exact ⟨fun j hj => by simpa [acceptsNN] using ih.1 j (by simpa [acceptsNN] using hj),
           fun j hj => by simpa [accepts] using ih.1 j (by simpa [accepts] using hj)⟩

theorem int32_is_i64 (j : Json) (h : int32Ok j = true) : intOk j = true := by
  cases j <;> simp_all [int32Ok, intOk, i64Ok]
  omega

/-- every value conforming to an `Int` type expression is accepted, at any depth -/
theorem conforming_int_accepted (e : Env) (b : Bool) (fuel : Nat)
    (h : e.find "Int" = some (.alias "Int" false (.path "i64"))) (t : GTy) (hw : wf t = true) (j : Json)
    (hc : accepts int32Ok t j = true) :
    okB (deTy e b (fuel + 2) (rustOf (.path "Int") t) j) = true := by
  rw [int_position e b fuel h t hw j]
  exact (accepts_mono int32Ok intOk int32_is_i64 t).2 j hc

/-- every value conforming to a `String` type expression is accepted, at any depth -/
theorem conforming_string_accepted (e : Env) (b : Bool) (fuel : Nat) (t : GTy) (hw : wf t = true) (j : Json)
    (hc : accepts stringOk t j = true) :
    okB (deTy e b (fuel + 1) (rustOf (.path "String") t) j) = true := by
  rw [string_position e b fuel t hw j]; exact hc

/-- every value conforming to an `ID` type expression (strings or 64-bit integers at the leaves) is
    accepted by the field the generator emits for it, at any depth -/
theorem conforming_id_accepted (t : GTy) (hw : wf t = true) (j : Json) (hc : accepts idOk t j = true) :
    okB (deHelper (C16.idHelperFor t) (rustOf (.path "ID") t) j) = true := by
  rw [C16.id_field_iff t hw j]; exact hc

/-- leaves are written back as read -/
theorem int_roundtrip_leaf (n : Int) (h : inI64 n = true) :
    (dePrim "i64" (.int n)) = some (.ok (.int n)) ∧ serPrim (.int n) = some (.int n) := by
  simp [dePrim, h, pure, Except.pure, serPrim]

theorem string_roundtrip_leaf (s : String) :
    (dePrim "String" (.str s)) = some (.ok (.str s)) ∧ serPrim (.str s) = some (.str s) := by
  simp [dePrim, pure, Except.pure, serPrim]

/-- an integer ID is read as its decimal string and written back as that string -/
theorem id_canonical_leaf (n : Int) (h : i64Ok n = true) :
    deIntOrString (.int n) = .ok (.str (toString n)) ∧ serPrim (.str (toString n)) = some (.str (toString n)) :=
  ⟨C16.id_int n h, rfl⟩

example : accepts int32Ok (.nonNull (.list (.list (.nonNull (.named "Int")))))
    (.arr [.null, .arr [.int 1, .int (-2147483648)], .arr []]) = true := by
  simp [accepts, acceptsNN, int32Ok, Json.isNull]

end C01
end GqlVerif
