import GqlVerif.Model.Sdl
import GqlVerif.Model.Intro
import GqlVerif.Props.C13
/-!
# C07 — SDL and introspection JSON of the same schema generate identical code

Both front-ends produce a value of the same type `Schema`, and everything after them
(`Resolve.resolve`, `Codegen.generate`) is a function of that value only.  So "identical code" follows
from "identical `Schema`".  This file proves the per-construct agreement facts, for all inputs:

* `wrapped_equal` — a full introspection response `{"data": X}` denotes the same schema as the bare `X`;
* `absent_eq_null` — an absent JSON member and an explicit `null` are read identically (every optional
  member of the introspection shape);
* `field_type_agree` (from C13's `quals_json_eq_sdl`) — a type expression and its `ofType` chain give the
  same qualifier list and the same named type, at every nesting depth;
* `deprecation_agree` — `@deprecated` / `@deprecated(reason: r)` / nothing, and
  `isDeprecated` + `deprecationReason`, give the same deprecation status;
* `one_of_agree` — `@oneOf` on an input object and `isOneOf: true` give the same flag, for inputs with
  the same fields;
* `roots_agree` — an explicit `schema { query: Q … }` block and `queryType: {name: Q}` designate the
  same root objects under the same name table; and default root names are what the SDL path falls
  back to.

Whole-schema equality for arbitrary abstract schemas (`frontends_equal`, `frontends_equal_json`) is proved in
`Proofs/C07Frontends.lean`, the permutation statement (`codegen_iso_perm`) in `Proofs/C07PermCodegenE.lean`; this file
keeps the component theorems. The correspondence run checks the same on the implementation (every rendering of every
generated schema must give the same token string, and the Lean front-ends must reproduce it).
-/
namespace GqlVerif
namespace C07

/-- `{"data": X}` and `X` denote the same schema, for every JSON object `X` that is an
    introspection container (no `data` member of its own). -/
theorem wrapped_equal (readOneOf : Bool) (kvs : List (String × Json))
    (hnodata : Json.lookup "data" kvs = none)
    (hparses : Intro.decContainer readOneOf (.obj kvs) ≠ none) :
    Intro.parseIntro readOneOf (.obj [("data", .obj kvs)]) = Intro.parseIntro readOneOf (.obj kvs) := by
  unfold Intro.parseIntro
  cases h : Intro.decContainer readOneOf (.obj kvs) with
  | none => exact absurd h hparses
  | some r => simp [Intro.asObj, Intro.reqMember, Json.lookup, hnodata, h, bind, Option.bind]

/-- an absent member and an explicit `null` are read identically -/
theorem absent_eq_null {α} (kvs : List (String × Json)) (k : String) (dec : Json → Option α)
    (habsent : Json.lookup k kvs = none) :
    Intro.optMember kvs k dec = Intro.optMember ((k, Json.null) :: kvs) k dec := by
  simp [Intro.optMember, habsent, Json.lookup]

/-- field types agree at every depth (re-export of the C13 theorem, in C07's terms) -/
theorem field_type_agree (s : Schema) (kind : String) (t : GTy) (id : TypeId)
    (hk : kind ≠ "NON_NULL" ∧ kind ≠ "LIST") (hid : namesGet t.base s.names = some id) :
    Intro.fromJsonType s (C13.toTypeRef kind t) = resolveFieldType s t :=
  let h := C13.quals_json_eq_sdl s kind t id hk hid
  h.1.trans h.2.symm

/-- the SDL rendering of a deprecation status -/
def depDirectives : Option (Option String) → List Directive
  | none => []
  | some none => [{ name := "deprecated", args := [] }]
  | some (some r) => [{ name := "deprecated", args := [("reason", .str r)] }]

/-- the JSON rendering of a deprecation status -/
def depJson (d : Option (Option String)) : Option Bool × Option String :=
  (some d.isSome, d.bind id)

/-- both renderings of every deprecation status are read back to that status -/
theorem deprecation_agree (d : Option (Option String)) :
    Sdl.findDeprecation (depDirectives d) = d ∧
    (if (depJson d).1 == some true then some (depJson d).2 else none) = d := by
  rcases d with _ | _ | r <;> simp [depDirectives, depJson, Sdl.findDeprecation, List.find?]

/-- other directives around `@deprecated` do not matter, nor do other arguments -/
theorem deprecation_first_directive (pre : List Directive) (d : Directive) (post : List Directive)
    (hpre : ∀ x ∈ pre, x.name ≠ "deprecated") (hd : d.name = "deprecated") :
    Sdl.findDeprecation (pre ++ d :: post) = Sdl.findDeprecation [d] := by
  unfold Sdl.findDeprecation
  have : (pre ++ d :: post).find? (·.name == "deprecated") = some d := by
    rw [List.find?_append]
    have hnone : pre.find? (·.name == "deprecated") = none := by
      rw [List.find?_eq_none]; intro x hx; simpa using hpre x hx
    simp [hnone, hd]
  simp [this, hd]

/-- the `__Type` entry of an input object -/
def inputFullType (name : String) (ifs : List IntroInputValue) (flag : Bool) : FullType :=
  { kind := some "INPUT_OBJECT", name := some name, fields := none, inputFields := some ifs,
    interfaces := none, enumValues := none, possibleTypes := none, isOneOf := some flag }

/-- `@oneOf` and `isOneOf: true` give the same flag (the JSON path reads it since the repair) -/
theorem one_of_agree (s : Schema) (name : String) (fs : List (String × GTy)) (flag : Bool)
    (ifs : List IntroInputValue)
    (hfields : fs.mapM (fun (p : String × GTy) => do let ty ← resolveFieldType s p.2; pure (p.1, ty)) =
               ifs.mapM (fun f => do let ty ← Intro.fromJsonType s f.ty; pure (f.name, ty))) :
    (Sdl.ingestDef 6 s (.input name (if flag then ["oneOf"] else []) fs)).map (·.inputs) =
    (Intro.ingestInput true s (inputFullType name ifs flag)).map (·.inputs) := by
  unfold inputFullType
  simp only [Sdl.ingestDef, Intro.ingestInput, Intro.expectName, bind, Except.bind, pure, Except.pure] at hfields ⊢
  rw [hfields]
  split
  · rfl
  · cases flag <;> simp [Except.map]

/-- explicit root designation: `schema { query: Q }` and `queryType: {name: Q}` pick the same object -/
theorem roots_agree (s : Schema) (q : Option String) :
    Sdl.rootOf s q = Intro.rootOf s (q.map some) := by
  cases q <;> simp [Sdl.rootOf, Intro.rootOf, Option.bind]

end C07
end GqlVerif
