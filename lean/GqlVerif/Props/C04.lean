import GqlVerif.Props.C11
import GqlVerif.Props.C13
import GqlVerif.Model.Serde
import GqlVerif.Proofs.C01Layers
/-!
# C04 — variables serialize to exactly the operation's declared variables, validly typed

* `variables_fields_are_declared` — the `Variables` struct has one field per declared variable, in
  order, whose wire name is the variable's GraphQL name (any case function, any keyword table);
* `variable_type_rule` — each field's Rust type is `rustOf` of the declared type expression (C13), so a
  non-null position has no `Option` (that it is never written as `null` is part of `C04S.ser_valid`);
* `skip_none_step` / `no_skip_step` — one step of struct serialization: with
  `skip_serializing_if` a member that is `None` is omitted, and **only** such a member; without it
  every member is written (explicit `null` for `None`);
* `oneof_single_key` — a `@oneOf` value serializes to an object with exactly one key, the selected
  member's GraphQL name;
* `unit_variables_null` — an operation without variables sends `null`.

Whole-struct statements, proved in `GqlVerif/Proofs/C01Layers.lean` (namespace `C01`, audited with this file):
`ser_fields_iff`, `ser_keys_exact` (keys = wire names of the non-skipped members, in order),
`ser_keys_nodup`, `ser_keys_all`, `oneof_keys`. (`non_null_never_null` below and `C01.ser_conforms` carry a leaf
hypothesis the model's own serializer cannot meet — a unit struct is written as `null` — and are NOT part of the
claim: see `Proofs/C04SurjectiveSerValid.lean`, `ser_valid` / `variables_ser_valid`.)
-/
namespace GqlVerif
namespace C04
open Codegen Serde

/-- one `Variables` field per declared variable, in order, with the GraphQL name on the wire -/
theorem variables_fields_are_declared (c : Ctx) (op : Nat) (fs : List RField) (d : List String) (sc : Option String)
    (rest : List Item) (hne : (c.q.opVariables op) ≠ [])
    (h : variablesItems c op = .ok (.struct "Variables" d sc fs :: rest)) :
    fs.map (·.wire) = (c.q.opVariables op).map (·.name) := by
  unfold variablesItems at h
  have hemp : (c.q.opVariables op).isEmpty = false := by
    cases hv : c.q.opVariables op with
    | nil => exact absurd hv hne
    | cons a b => rfl
  simp only [hemp, Bool.false_eq_true, ↓reduceIte, bind, Except.bind] at h
  split at h
  · simp at h
  · rename_i fs' hfs
    split at h
    · simp at h
    · simp only [pure, Except.pure, Except.ok.injEq, List.cons.injEq, Item.struct.injEq] at h
      obtain ⟨⟨-, -, -, rfl⟩, -⟩ := h
      clear hemp hne
      generalize c.q.opVariables op = vars at hfs
      induction vars generalizing fs' with
      | nil => simp [List.mapM_nil, pure, Except.pure] at hfs; subst hfs; rfl
      | cons v vs ih =>
        rw [List.mapM_cons] at hfs
        simp only [bind, Except.bind] at hfs
        cases hvt : variableType c v with
        | error e => simp [hvt] at hfs
        | ok t =>
          simp only [hvt, pure, Except.pure] at hfs
          split at hfs
          · simp at hfs
          · rename_i tl htl
            simp only [Except.ok.injEq] at hfs
            subst hfs
            simp only [List.map_cons, List.cons.injEq]
            exact ⟨C11.input_wire_is_graphql_name _ _ _ _, ih tl htl⟩

/-- the Rust type of a variable follows the single rule of C13 -/
theorem variable_type_rule (c : Ctx) (v : RVariable) (t : GTy) (tn : String)
    (hq : v.ty.quals = GTy.quals t) (hw : C13.wf t = true) (hn : c.s.typeName v.ty.id = .ok tn) :
    variableType c v = .ok (C13.rustOf (.path (keywordReplace (c.o.normalization.fieldType c.cs tn))) t) := by
  unfold variableType
  simp only [hn, bind, Except.bind, hq]
  exact C13.decorate_spec _ t hw

/-- a value of a non-null Rust type (`rustOfNN`, no outer `Option`) never serializes as `null`
    when the named type does not (leaf types and structs never do) -/
theorem non_null_never_null (path : String → Val → D Json) (b : RTy) (t : GTy) (v : Val) (j : Json)
    (hleaf : ∀ p v j, path p v = .ok j → j ≠ .null)
    (hb : ∃ p, b = .path p)
    (h : serTyWith path (C13.rustOfNN b t) v = .ok j) : j ≠ .null := by
  induction t generalizing v j with
  | named n =>
    obtain ⟨p, rfl⟩ := hb
    simp only [C13.rustOfNN, serTyWith] at h
    exact hleaf p v j h
  | list t _ =>
    simp only [C13.rustOfNN, serTyWith] at h
    cases v <;> simp [unmodelled] at h
    rename_i vs
    cases hm : vs.mapM (serTyWith path (C13.rustOf b t)) with
    | error e => simp [hm, Functor.map, Except.map] at h
    | ok xs => simp [hm, Functor.map, Except.map] at h; subst h; simp
  | nonNull t ih =>
    simp only [C13.rustOfNN] at h
    exact ih v j h

/-- serialization of one member with `skip_serializing_if = "Option::is_none"`: omitted iff `None` -/
theorem skip_none_step (path : String → Val → D Json) (f : RField) (fs : List RField) (vals : List (String × Val))
    (v : Val) (rest : List (String × Json)) (hf : f.flatten = false) (hs : f.skipNone = true)
    (hv : vals.find? (·.1 == f.rust) = some (f.rust, v)) (hrest : serFieldsWith path fs vals = .ok rest) :
    serFieldsWith path (f :: fs) vals =
      (if v.isUnit then .ok rest else (fun j => (f.wire, j) :: rest) <$> serTyWith path f.ty v) := by
  simp only [serFieldsWith, hrest, hv, hf, hs, bind, Except.bind, Bool.false_eq_true, ↓reduceIte, Bool.true_and]
  cases v.isUnit
  · simp only [Bool.false_eq_true, ↓reduceIte]
    cases serTyWith path f.ty v <;> rfl
  · rfl

/-- without the attribute every member is written, `None` as explicit `null` -/
theorem no_skip_step (path : String → Val → D Json) (f : RField) (fs : List RField) (vals : List (String × Val))
    (v : Val) (rest : List (String × Json)) (hf : f.flatten = false) (hs : f.skipNone = false)
    (hv : vals.find? (·.1 == f.rust) = some (f.rust, v)) (hrest : serFieldsWith path fs vals = .ok rest) :
    serFieldsWith path (f :: fs) vals = (fun j => (f.wire, j) :: rest) <$> serTyWith path f.ty v := by
  simp only [serFieldsWith, hrest, hv, hf, hs, bind, Except.bind, Bool.false_eq_true, ↓reduceIte, Bool.false_and]
  cases serTyWith path f.ty v <;> rfl

theorem none_is_null (path : String → Val → D Json) (t : RTy) : serTyWith path (.opt t) .unit = .ok .null := rfl

/-- a `@oneOf` value serializes to exactly one key: the selected member's wire name -/
theorem oneof_single_key (e : Env) (fuel : Nat) (p name : String) (d : List String) (sc : Option String)
    (vs : List RVariant) (var : RVariant) (t : RTy) (pv : Val) (j : Json)
    (hfind : e.find p = some (.oneOf name d sc vs))
    (hvar : vs.find? (·.name == var.name) = some var) (hpay : var.payload = some t)
    (h : serPath e (fuel + 1) p (.variant var.name (some pv)) = .ok j) :
    ∃ inner, j = .obj [(var.wire, inner)] := by
  unfold serPath at h
  simp only [serPrim, hfind, hvar, hpay, bind, Except.bind] at h
  cases hs : serTyWith (serPath e fuel) t pv with
  | error err => simp [hs] at h
  | ok inner => simp [hs, pure, Except.pure] at h; exact ⟨inner, h.symm⟩

/-- an operation without variables: `struct Variables;`, serialized as `null` -/
theorem unit_variables_null (c : Ctx) (op : Nat) (h : c.q.opVariables op = []) :
    variablesItems c op = .ok [.unitStruct "Variables" (allVariableDerives c.o) c.serdeCrate] := by
  simp [variablesItems, h, pure, Except.pure]

theorem unit_struct_is_null (e : Env) (fuel : Nat) (p n : String) (d : List String) (sc : Option String)
    (h : e.find p = some (.unitStruct n d sc)) : serPath e (fuel + 1) p .unit = .ok .null := by
  simp [serPath, serPrim, h, pure, Except.pure]

end C04
end GqlVerif
