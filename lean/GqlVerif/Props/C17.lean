import GqlVerif.Model.Resolve
/-!
# C17 — code generation terminates cleanly on every input, cyclic ones included

Every walk of the model is a *total* Lean function: Lean only accepts a definition together with a
termination proof, so the existence of `Resolve.resolve`, `Codegen.generate` and their helpers is
itself the obligation "the walk terminates on every input" (the kernel checked it).  Walks that
follow fragment spreads (which may be cyclic) are written with explicit fuel; what remains to be
shown for them is that the fuel **never runs out**, i.e. that the guard in the code (a visited set)
really bounds the recursion.  This file proves that for the `__typename` search — the walk that had
no guard in the pinned tree and overflowed the stack — and proves that *without* the guard the same
search does not terminate on a one-fragment cycle.

* `search_guarded_eq` / `search_guarded_total` — with the visited set, fuel `#fragments + 1` is always
  enough: for every query, every type and every selection set the instrumented search returns a
  verdict, and that verdict is the value of `Resolve.containsTypename` (the model function the
  harness compares with the implementation).
* `search_unguarded_diverges` — without the visited set the search runs out of any amount of fuel on
  `fragment F on I { ...F __typename }` (the stack overflow of the pinned tree).
-/
namespace GqlVerif
namespace C17
open Resolve

/-- the guarded search, instrumented: `none` = out of fuel -/
def searchG (q : Query) (parent : TypeId) : Nat → List Nat → List Sel → Option Bool
  | 0, _, _ => none
  | fuel+1, visited, sels =>
    sels.foldl (fun (acc : Option Bool) sel =>
      match acc with
      | none => none
      | some true => some true
      | some false =>
        match sel with
        | .typename => some true
        | .spread fid =>
          if visited.contains fid then some false else
          match q.fragments[fid]? with
          | none => some false
          | some f => if f.on == parent then searchG q f.on fuel (fid :: visited) f.sels else some false
        | _ => some false) (some false)

/-- the search as the pinned tree had it: no visited set -/
def searchU (q : Query) (parent : TypeId) : Nat → List Sel → Option Bool
  | 0, _ => none
  | fuel+1, sels =>
    sels.foldl (fun (acc : Option Bool) sel =>
      match acc with
      | none => none
      | some true => some true
      | some false =>
        match sel with
        | .typename => some true
        | .spread fid =>
          match q.fragments[fid]? with
          | none => some false
          | some f => if f.on == parent then searchU q f.on fuel f.sels else some false
        | _ => some false) (some false)

/-- fragments not yet visited -/
def remaining (q : Query) (visited : List Nat) : List Nat :=
  (List.range q.fragments.length).filter (fun i => !visited.contains i)

theorem countP_le {α} (p p' : α → Bool) (himp : ∀ y, p' y = true → p y = true) (l : List α) :
    l.countP p' ≤ l.countP p := by
  induction l with
  | nil => simp
  | cons a l ih =>
    simp only [List.countP_cons]
    cases hb : p' a
    · simp; omega
    · simp [himp a hb]; omega

theorem countP_lt {α} (p p' : α → Bool) (l : List α) (x : α) (hx : x ∈ l) (hp : p x = true)
    (hp' : p' x = false) (himp : ∀ y, p' y = true → p y = true) :
    l.countP p' < l.countP p := by
  induction l with
  | nil => simp at hx
  | cons a l ih =>
    simp only [List.countP_cons]
    simp only [List.mem_cons] at hx
    rcases hx with rfl | hx
    · have := countP_le p p' himp l
      simp [hp, hp']; omega
    · have := ih hx
      cases hb : p' a
      · simp; omega
      · simp [himp a hb]; omega

theorem remaining_decreases (q : Query) (visited : List Nat) (fid : Nat) (f : RFragment)
    (hf : q.fragments[fid]? = some f) (hv : visited.contains fid = false) :
    (remaining q (fid :: visited)).length < (remaining q visited).length := by
  unfold remaining
  rw [← List.countP_eq_length_filter, ← List.countP_eq_length_filter]
  have hv' : fid ∉ visited := by simpa using hv
  apply countP_lt _ _ _ fid
  · have := (List.getElem?_eq_some_iff.mp hf).1
    simpa using this
  · simpa using hv'
  · simp
  · intro y hy
    simp only [List.contains_cons, Bool.not_eq_true', Bool.or_eq_false_iff] at hy
    simpa using hy.2

theorem remaining_nil (q : Query) : (remaining q []).length = q.fragments.length := by
  unfold remaining
  rw [List.filter_eq_self.mpr (by simp)]
  simp

theorem any_eq_foldl (f : Sel → Bool) (g : Sel → Option Bool) (l : List Sel)
    (hfg : ∀ x ∈ l, g x = some (f x)) :
    ∀ b, l.foldl (fun (acc : Option Bool) sel => match acc with
        | none => none | some true => some true | some false => g sel) (some b) = some (b || l.any f) := by
  induction l with
  | nil => intro b; simp
  | cons a l ih =>
    intro b
    have ha := hfg a (by simp)
    have ih' := ih (fun x hx => hfg x (by simp [hx]))
    simp only [List.foldl_cons, List.any_cons]
    cases b with
    | true => simp only [Bool.true_or]; rw [ih' true]; simp
    | false => simp only [Bool.false_or, ha]; rw [ih' (f a)]

/-- **the guard bounds the recursion**: whenever the fuel exceeds the number of unvisited
    fragments, the guarded search never runs out of fuel, and its verdict is the value of the
    model's `containsTypenameAux` (the function the harness ties to the implementation) -/
theorem search_guarded_eq (q : Query) :
    ∀ (fuel : Nat) (parent : TypeId) (visited : List Nat) (sels : List Sel),
      (remaining q visited).length < fuel →
      searchG q parent fuel visited sels = some (containsTypenameAux q parent fuel visited sels) := by
  intro fuel
  induction fuel with
  | zero => intro _ _ _ h; omega
  | succ n ih =>
    intro parent visited sels hfuel
    unfold searchG containsTypenameAux
    have := any_eq_foldl
      (fun sel => match sel with
        | .typename => true
        | .spread fid =>
          if visited.contains fid then false else
          match q.fragments[fid]? with
          | none => false
          | some f => f.on == parent && containsTypenameAux q f.on n (fid :: visited) f.sels
        | _ => false)
      (fun sel => match sel with
        | .typename => some true
        | .spread fid =>
          if visited.contains fid then some false else
          match q.fragments[fid]? with
          | none => some false
          | some f => if f.on == parent then searchG q f.on n (fid :: visited) f.sels else some false
        | _ => some false)
      sels ?_ false
    · rw [Bool.false_or] at this; exact this
    · intro sel _
      cases sel with
      | typename => rfl
      | field a b c => rfl
      | inline a b => rfl
      | spread fid =>
        simp only
        cases hv : visited.contains fid
        · simp only [Bool.false_eq_true, ↓reduceIte]
          cases hf : q.fragments[fid]? with
          | none => rfl
          | some f =>
            simp only
            have hdec := remaining_decreases q visited fid f hf hv
            split
            · rename_i hon
              rw [ih f.on (fid :: visited) f.sels (by omega)]
              simp [hon]
            · rename_i hon
              simp [hon]
        · simp

/-- fuel `#fragments + 1`, as used by `Resolve.containsTypename`, is always enough -/
theorem search_guarded_total (q : Query) (parent : TypeId) (sels : List Sel) :
    searchG q parent (q.fragments.length + 1) [] sels = some (containsTypename q parent sels) :=
  search_guarded_eq q _ parent [] sels (by rw [remaining_nil]; omega)

/-! ## without the guard: divergence on a one-fragment cycle -/

/-- `fragment F on I { ...F __typename }` (fragment 0 on interface 0) -/
def cyclicQuery : Query :=
  { fragments := [{ name := "F", on := .interface 0, sels := [.spread 0, .typename] }] }

/-- **the pinned tree's search does not terminate** on the cyclic fragment: it exhausts every
    amount of fuel (in Rust: unbounded recursion, i.e. a stack overflow) -/
theorem search_unguarded_diverges :
    ∀ n, searchU cyclicQuery (.interface 0) n [.spread 0, .typename] = none := by
  intro n
  induction n with
  | zero => rfl
  | succ n ih =>
    unfold searchU
    simp only [List.foldl_cons, List.foldl_nil]
    have : cyclicQuery.fragments[0]? = some { name := "F", on := .interface 0, sels := [.spread 0, .typename] } := rfl
    simp only [this]
    simp [ih]

/-- … while the guarded search answers `true` on the same input -/
theorem search_guarded_on_cycle :
    containsTypename cyclicQuery (.interface 0) [.spread 0, .typename] = true := by decide

end C17
end GqlVerif
