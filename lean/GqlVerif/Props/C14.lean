import GqlVerif.Model.Codegen
import GqlVerif.Model.Serde
import GqlVerif.Props.C07
/-!
# C14 — deprecation strategies allow / warn / deny do exactly what is documented

The decision is local to one field (`ExpandedField::render`), so "for all schemas and selections"
is "for every call of `renderField`".

* `dep_table` — the complete 2 × 3 case table (deprecated? × strategy), for every field: a field
  that is not deprecated is always emitted without attribute; `allow` emits a deprecated field
  without attribute; `warn` emits it with `#[deprecated]` carrying the schema's reason **verbatim**
  (or no note when the schema gives none); `deny` omits it;
* `never_omitted_unless_denied`, `never_marked_unless_warned` — the converse readings;
* `front_ends_agree` — the status read from an SDL directive and from `isDeprecated` /
  `deprecationReason` is the same (C07);
* `omitted_field_key_ignored` — a struct from which `deny` removed a field still deserializes
  payloads that contain the field's key: a key that is no field's wire name never changes the result
  of reading the struct's own fields (serde ignores unknown keys);
* `omitted_key_not_buffer_relevant` — the same for the flatten-buffer path (`takeKeys`).
-/
namespace GqlVerif
namespace C14
open Codegen Serde

/-- the documented table -/
def expected (dep : Option (Option String)) (s : DepStrategy) : Option (Option (Option String)) :=
  match dep, s with
  | none, _ => some none                 -- emitted, no attribute
  | some _, .allow => some none          -- emitted, no attribute
  | some m, .warn => some (some m)       -- emitted, #[deprecated(note = m)] / #[deprecated]
  | some _, .deny => none                -- omitted

/-- **the case table**, for every field, type, position and option set -/
theorem dep_table (c : Ctx) (g : Option String) (r ft : String) (quals : List Qual) (fl bx : Bool)
    (dep : Option (Option String)) (ty : RTy) (hty : decorateType (.path ft) quals = .ok ty) :
    (renderField c g r ft quals fl bx dep).map (Option.map (·.deprecated)) = .ok (expected dep c.o.deprecation) := by
  unfold renderField
  simp only [hty, bind, Except.bind]
  cases dep with
  | none => cases hs : c.o.deprecation <;> simp [expected, hs, Except.map, pure, Except.pure]
  | some m => cases hs : c.o.deprecation <;> simp [expected, hs, Except.map, pure, Except.pure]

/-- a field is omitted only when it is deprecated and the strategy is `deny` -/
theorem never_omitted_unless_denied (c : Ctx) (g : Option String) (r ft : String) (quals : List Qual) (fl bx : Bool)
    (dep : Option (Option String)) (h : renderField c g r ft quals fl bx dep = .ok none) :
    dep.isSome = true ∧ c.o.deprecation = .deny := by
  unfold renderField at h
  cases hd : decorateType (.path ft) quals with
  | error e => simp [hd, bind, Except.bind] at h
  | ok ty =>
    simp only [hd, bind, Except.bind] at h
    cases dep with
    | none => cases hs : c.o.deprecation <;> simp [hs, pure, Except.pure] at h
    | some m => cases hs : c.o.deprecation <;> simp [hs, pure, Except.pure] at h <;> simp

/-- a field carries `#[deprecated]` only when the schema deprecates it and the strategy is `warn`,
    and then the note is the schema's reason, unchanged -/
theorem never_marked_unless_warned (c : Ctx) (g : Option String) (r ft : String) (quals : List Qual) (fl bx : Bool)
    (dep : Option (Option String)) (f : RField) (m : Option String)
    (h : renderField c g r ft quals fl bx dep = .ok (some f)) (hm : f.deprecated = some m) :
    dep = some m ∧ c.o.deprecation = .warn := by
  unfold renderField at h
  cases hd : decorateType (.path ft) quals with
  | error e => simp [hd, bind, Except.bind] at h
  | ok ty =>
    simp only [hd, bind, Except.bind] at h
    cases dep with
    | none =>
      cases hs : c.o.deprecation <;> simp [hs, pure, Except.pure] at h <;> subst h <;> simp at hm
    | some m' =>
      cases hs : c.o.deprecation <;> simp [hs, pure, Except.pure] at h
      · subst h; simp at hm
      · subst h; simp at hm; exact ⟨by rw [hm], rfl⟩

/-- both front-ends read the same status (from C07) -/
theorem front_ends_agree (d : Option (Option String)) :
    Sdl.findDeprecation (C07.depDirectives d) = d ∧
    (if (C07.depJson d).1 == some true then some (C07.depJson d).2 else none) = d :=
  C07.deprecation_agree d

/-- an entry whose key is no field's wire name does not influence the struct's own fields:
    payloads that still contain a denied field deserialize exactly as without it -/
theorem omitted_field_key_ignored (path : String → Json → D Val) (fields : List RField)
    (k : String) (v : Json) (kvs : List (String × Json)) (hk : ∀ f ∈ fields, f.wire ≠ k) :
    deOwnWith path fields ((k, v) :: kvs) = deOwnWith path fields kvs := by
  induction fields with
  | nil => rfl
  | cons f fs ih =>
    have hf : f.wire ≠ k := hk f (by simp)
    have hfk : (k == f.wire) = false := by simpa using fun h => hf h.symm
    simp only [deOwnWith, ih (fun f' hf' => hk f' (by simp [hf'])), countKey, List.filter_cons, Json.lookup, hfk]
    simp

/-- the same on the flatten-buffer path: a key nobody recognises is never taken -/
theorem omitted_key_not_taken (keys : List String) (k : String) (v : Json) (buf : Buf) (hk : k ∉ keys) :
    takeKeys keys (some (k, v) :: buf) = ((takeKeys keys buf).1, some (k, v) :: (takeKeys keys buf).2) := by
  simp [takeKeys, hk]

example : expected (some (some "use `x` instead")) .warn = some (some (some "use `x` instead")) := rfl

end C14
end GqlVerif
