import GqlVerif.Model.Serde
import GqlVerif.Model.Spec
import GqlVerif.Model.Codegen
import GqlVerif.Props.C13
/-!
# C03 — generated response types reject what the schema forbids

The generated type of a position is `rustOf base t` (C13).  This file proves, for **every** type
expression `t` (any list depth, any placement of `!`) and every JSON value `j`, that serde's
deserializer for that type succeeds **iff** `j` is admitted by `t` (`Spec.accepts`): `null` only at
nullable positions, arrays exactly at list positions, the leaf kind at the leaves.  Hence null at a
non-null position, a non-list where a list is required and a wrong scalar kind are all rejected —
at every nesting depth.  For the `__typename`-tagged enums: a known tag selects its own variant
(never another), an unknown tag is an error without the other-variant option and `Unknown` with it.
-/
namespace GqlVerif
namespace C03
open Serde Spec C13

def okB {α} : D α → Bool
  | .ok _ => true
  | .error _ => false

theorem okB_map {α β} (f : α → β) (x : D α) : okB (f <$> x) = okB x := by
  cases x <;> rfl

theorem okB_mapM {α β} (f : α → D β) (xs : List α) : okB (xs.mapM f) = xs.all (fun x => okB (f x)) := by
  induction xs with
  | nil => rfl
  | cons x xs ih =>
    rw [List.mapM_cons, List.all_cons, ← ih]
    cases hx : f x with
    | error e => rfl
    | ok y => cases hm : xs.mapM f <;> simp [okB, bind, Except.bind, pure, Except.pure]

theorem okB_opt (path : String → Json → D Val) (t : RTy) (j : Json) :
    okB (deTyWith path (.opt t) j) = (j.isNull || okB (deTyWith path t j)) := by
  rw [show deTyWith path (RTy.opt t) j = (if j.isNull then pure .unit else Val.some <$> deTyWith path t j) from rfl]
  cases hj : j.isNull
  · simp [okB_map]
  · simp [okB, pure, Except.pure]

theorem okB_vec (path : String → Json → D Val) (t : RTy) (j : Json) :
    okB (deTyWith path (.vec t) j) =
      (match j with | .arr xs => xs.all (fun x => okB (deTyWith path t x)) | _ => false) := by
  cases j with
  | arr xs =>
    rw [show deTyWith path (RTy.vec t) (.arr xs) = Val.list <$> xs.mapM (deTyWith path t) from rfl]
    simp only [okB_map, okB_mapM]
  | null => rfl
  | bool b => rfl
  | int n => rfl
  | num s => rfl
  | str s => rfl
  | obj kvs => rfl

/-- **acceptance is exactly conformance**, at every modifier depth.  `path base` is how the named
    leaf type is read; it never admits `null`. -/
theorem ok_iff_accepts (path : String → Json → D Val) (base : String) (leafOk : Json → Bool)
    (hleaf : ∀ j, okB (path base j) = leafOk j) :
    ∀ t : GTy, wf t = true →
      (∀ j, okB (deTyWith path (rustOfNN (.path base) t) j) = acceptsNN leafOk t j) ∧
      (∀ j, okB (deTyWith path (rustOf (.path base) t) j) = accepts leafOk t j) := by
  intro t
  induction t with
  | named n =>
    intro _
    have hnn : ∀ j, okB (deTyWith path (rustOfNN (.path base) (.named n)) j) = acceptsNN leafOk (.named n) j := by
      intro j; simp [rustOfNN, deTyWith, acceptsNN, hleaf]
    refine ⟨hnn, ?_⟩
    intro j
    simp only [rustOf, accepts, okB_opt, hnn]
  | list t ih =>
    intro hw
    have hw' : wf t = true := by simpa [wf] using hw
    obtain ⟨_, ih2⟩ := ih hw'
    have hnn : ∀ j, okB (deTyWith path (rustOfNN (.path base) (.list t)) j) = acceptsNN leafOk (.list t) j := by
      intro j
      simp only [rustOfNN, okB_vec, acceptsNN]
      cases j <;> simp [ih2, acceptsNN]
    refine ⟨hnn, ?_⟩
    intro j
    simp only [rustOf, accepts, okB_opt, hnn]
  | nonNull t ih =>
    intro hw
    have hw' : wf t = true := by cases t <;> simp_all [wf]
    obtain ⟨ih1, _⟩ := ih hw'
    have hnn : ∀ j, okB (deTyWith path (rustOfNN (.path base) (.nonNull t)) j) = acceptsNN leafOk (.nonNull t) j := by
      intro j; simp only [rustOfNN, acceptsNN]; exact ih1 j
    refine ⟨hnn, ?_⟩
    intro j
    simp only [rustOf, accepts]; exact ih1 j

theorem acceptsNN_null (leafOk : Json → Bool) (hnull : leafOk .null = false) (t : GTy) :
    acceptsNN leafOk t .null = false := by
  induction t with
  | named n => simpa [acceptsNN] using hnull
  | list t _ => simp [acceptsNN]
  | nonNull t ih => simpa [acceptsNN] using ih

/-- corollary: `null` at a non-null position is rejected, at any depth of `t` -/
theorem null_at_non_null_rejected (path : String → Json → D Val) (base : String) (leafOk : Json → Bool)
    (hleaf : ∀ j, okB (path base j) = leafOk j) (hnull : leafOk .null = false) (t : GTy)
    (hw : wf (.nonNull t) = true) :
    okB (deTyWith path (rustOf (.path base) (.nonNull t)) .null) = false := by
  rw [(ok_iff_accepts path base leafOk hleaf (.nonNull t) hw).2]
  simp only [accepts]
  exact acceptsNN_null leafOk hnull t

/-- corollary: a non-list where a list is required is rejected -/
theorem non_list_rejected (path : String → Json → D Val) (base : String) (leafOk : Json → Bool)
    (hleaf : ∀ j, okB (path base j) = leafOk j) (t : GTy) (hw : wf t = true)
    (j : Json) (hj : j.isNull = false) (hnot : ∀ xs, j ≠ .arr xs) :
    okB (deTyWith path (rustOf (.path base) (.list t)) j) = false ∧
    okB (deTyWith path (rustOf (.path base) (.nonNull (.list t))) j) = false := by
  have h1 : wf (.list t) = true := by simpa [wf] using hw
  have h2 : wf (.nonNull (.list t)) = true := by simpa [wf] using hw
  rw [(ok_iff_accepts path base leafOk hleaf _ h1).2, (ok_iff_accepts path base leafOk hleaf _ h2).2]
  cases j <;> simp_all [accepts, acceptsNN, Json.isNull]

/-! ## the leaf kinds in a generated module (built-in aliases `Int = i64`, …) -/

theorem find_alias (e : Env) (n : String) (t : RTy) (h : e.find n = some (.alias n false t)) :
    e.find n = some (.alias n false t) := h

theorem leaf_int (e : Env) (b : Bool) (fuel : Nat) (h : e.find "Int" = some (.alias "Int" false (.path "i64"))) (j : Json) :
    okB (dePath e b (fuel + 2) "Int" j) = intOk j := by
  have h1 : dePrim "Int" j = none := by simp [dePrim]
  unfold dePath; simp only [h1, h, deTyWith]
  unfold dePath
  cases j <;> simp [dePrim, intOk, okB, bad, pure, Except.pure, inI64, i64Ok, i64Min, i64Max]
  rename_i n
  by_cases h1 : -9223372036854775808 ≤ n <;> by_cases h2 : n ≤ 9223372036854775807 <;> simp [h1, h2]

theorem leaf_float (e : Env) (b : Bool) (fuel : Nat) (h : e.find "Float" = some (.alias "Float" false (.path "f64"))) (j : Json) :
    okB (dePath e b (fuel + 2) "Float" j) = floatOk j := by
  have h1 : dePrim "Float" j = none := by simp [dePrim]
  unfold dePath; simp only [h1, h, deTyWith]
  unfold dePath
  cases j <;> simp [dePrim, floatOk, okB, bad, pure, Except.pure]

theorem leaf_boolean (e : Env) (b : Bool) (fuel : Nat) (h : e.find "Boolean" = some (.alias "Boolean" false (.path "bool"))) (j : Json) :
    okB (dePath e b (fuel + 2) "Boolean" j) = boolOk j := by
  have h1 : dePrim "Boolean" j = none := by simp [dePrim]
  unfold dePath; simp only [h1, h, deTyWith]
  unfold dePath
  cases j <;> simp [dePrim, boolOk, okB, bad, pure, Except.pure]

theorem leaf_string (e : Env) (b : Bool) (fuel : Nat) (j : Json) :
    okB (dePath e b (fuel + 1) "String" j) = stringOk j := by
  unfold dePath
  cases j <;> simp [dePrim, stringOk, okB, bad, pure, Except.pure]

/-- a generated string enum admits exactly the JSON strings (open world) -/
theorem leaf_enum (e : Env) (b : Bool) (fuel : Nat) (p name : String) (d : List String) (sp : String)
    (vs : List String) (ser de : List (String × String))
    (hp : p ≠ "String" ∧ p ≠ "i64" ∧ p ≠ "f64" ∧ p ≠ "bool")
    (h : e.find p = some (.gqlEnum name d sp vs ser de)) (j : Json) :
    okB (dePath e b (fuel + 1) p j) = stringOk j := by
  have h1 : dePrim p j = none := by simp [dePrim, hp.1, hp.2.1, hp.2.2.1, hp.2.2.2]
  unfold dePath; simp only [h1, h]
  cases j with
  | str s => simp only [stringOk]; cases de.find? (·.1 == s) <;> rfl
  | null => rfl
  | bool _ => rfl
  | int _ => rfl
  | num _ => rfl
  | arr _ => rfl
  | obj _ => rfl

example : intOk .null = false ∧ floatOk .null = false ∧ boolOk .null = false ∧ stringOk .null = false := by decide

/-- **Int positions** of a generated module: accepted iff conforming, at every depth -/
theorem int_position (e : Env) (b : Bool) (fuel : Nat) (h : e.find "Int" = some (.alias "Int" false (.path "i64")))
    (t : GTy) (hw : wf t = true) (j : Json) :
    okB (deTy e b (fuel + 2) (rustOf (.path "Int") t) j) = accepts intOk t j :=
  (ok_iff_accepts (dePath e b (fuel + 2)) "Int" intOk (leaf_int e b fuel h) t hw).2 j

/-- **String positions** -/
theorem string_position (e : Env) (b : Bool) (fuel : Nat) (t : GTy) (hw : wf t = true) (j : Json) :
    okB (deTy e b (fuel + 1) (rustOf (.path "String") t) j) = accepts stringOk t j :=
  (ok_iff_accepts (dePath e b (fuel + 1)) "String" stringOk (leaf_string e b fuel) t hw).2 j

/-! ## `__typename`-tagged enums -/

/-- with pairwise distinct variant names, a **known tag selects its own variant**: the result is
    either an error (the payload does not fit) or a value of exactly that variant -/
theorem known_tag_own_variant (pathB : String → Json → D Val) (buffered : Bool) (tag : String)
    (vs : List RVariant) (kvs : List (String × Json)) (name : String) (v : RVariant)
    (hcount : countKey tag kvs = 1) (htag : Json.lookup tag kvs = some (.str name))
    (hfind : vs.find? (fun x => !x.other && x.wire == name) = some v) :
    ∀ r, deTaggedWith pathB buffered tag vs kvs = .ok r → ∃ payload, r = .variant v.name payload := by
  intro r hr
  unfold deTaggedWith at hr
  simp only [hcount, htag, hfind] at hr
  have hno : v.other = false := by
    have := List.find?_some hfind
    simp only [Bool.and_eq_true, Bool.not_eq_eq_eq_not, Bool.not_true] at this
    exact this.1
  simp only [hno, Bool.false_eq_true, ↓reduceIte] at hr
  cases hp : v.payload with
  | none => simp [hp, pure, Except.pure] at hr; exact ⟨none, hr.symm⟩
  | some t =>
    simp only [hp] at hr
    cases hd : deTyWith pathB t (.obj (kvs.filter (·.1 != tag))) with
    | error e => simp [hd, Functor.map, Except.map] at hr
    | ok x => simp [hd, Functor.map, Except.map] at hr; exact ⟨some x, hr.symm⟩

/-- an **unknown tag is an error** when there is no `other` variant -/
theorem unknown_tag_rejected (pathB : String → Json → D Val) (buffered : Bool) (tag : String)
    (vs : List RVariant) (kvs : List (String × Json)) (name : String)
    (hcount : countKey tag kvs = 1) (htag : Json.lookup tag kvs = some (.str name))
    (hunknown : vs.find? (fun x => !x.other && x.wire == name) = none)
    (hno_other : vs.find? (·.other) = none) :
    okB (deTaggedWith pathB buffered tag vs kvs) = false := by
  unfold deTaggedWith
  simp [hcount, htag, hunknown, hno_other, okB, bad]

/-- an **unknown tag yields the `other` variant** when the option is on -/
theorem unknown_tag_other (pathB : String → Json → D Val) (buffered : Bool) (tag : String)
    (vs : List RVariant) (kvs : List (String × Json)) (name : String) (o : RVariant)
    (hcount : countKey tag kvs = 1) (htag : Json.lookup tag kvs = some (.str name))
    (hunknown : vs.find? (fun x => !x.other && x.wire == name) = none)
    (hother : vs.find? (·.other) = some o) :
    deTaggedWith pathB buffered tag vs kvs = .ok (.variant o.name none) := by
  unfold deTaggedWith
  simp [hcount, htag, hunknown, hother, pure, Except.pure]

/-- a missing tag is an error -/
theorem missing_tag_rejected (pathB : String → Json → D Val) (buffered : Bool) (tag : String)
    (vs : List RVariant) (kvs : List (String × Json)) (hcount : countKey tag kvs = 0) :
    okB (deTaggedWith pathB buffered tag vs kvs) = false := by
  unfold deTaggedWith
  simp [hcount, okB, bad]

/-- the known finding, as a theorem about the model: from *buffered* content an integer tag equal
    to a variant index is accepted (and from direct content it is not) -/
theorem integer_tag_buffered_vs_direct (pathB : String → Json → D Val) :
    deTaggedWith pathB true "__typename" [{ name := "Dog" }, { name := "Cat" }] [("__typename", .int 0)] =
      .ok (.variant "Dog" none) ∧
    okB (deTaggedWith pathB false "__typename" [{ name := "Dog" }, { name := "Cat" }] [("__typename", .int 0)]) = false := by
  constructor <;> simp [deTaggedWith, countKey, Json.lookup, okB, bad, pure, Except.pure]

end C03
end GqlVerif
