import GqlVerif.Proofs.C12Graph
/-!
# C12 — recursive input types and fragments get finite-size Rust types

Property theorems (proofs and helper lemmas in `GqlVerif/Proofs/C12Graph.lean`).  For **every** schema
(any number of input types, any edges) and every query:

* `dfs_sound`, `dfs_complete` — the generator's DFS (`contains_type_without_indirection`, visited set
  keyed by name, fuel-free in Rust) answers `true` exactly for the input types that lie on a cycle of
  fields that are not behind a list (`OnDirectCycle`); completeness needs input type names to be
  pairwise distinct (a decidable predicate; `name_hypothesis_needed` shows it cannot be dropped);
* `boxed_acyclic` — after boxing every field whose *target* is such a type, no cycle of by-value
  containment remains: all generated input types have finite size;
* `box_iff_target_recursive` — `Box` is emitted exactly on those fields;
* `fragment_dfs_sound`, `fragment_dfs_complete`, `fragment_boxed_acyclic` — the same for named
  fragments and spreads (any depth, under fields and inline fragments; transitive cycles included),
  with no hypothesis; `walkFuel` is shown sufficient;
* `box_transparent` — `Box` is invisible to (de)serialization.
-/
namespace GqlVerif
namespace C12
open C12Graph Codegen

theorem dfs_sound (s : Schema) (t : Nat) : inputIsRecursive s t = true → OnDirectCycle s t :=
  inputIsRecursive_sound s t

theorem dfs_complete (s : Schema) (t : Nat) : InputsWf s → OnDirectCycle s t → inputIsRecursive s t = true :=
  inputIsRecursive_complete s t

theorem boxed_acyclic (s : Schema) : InputsWf s → ¬ ∃ t, Relation.TransGen (byValue s) t t :=
  C12Graph.boxed_acyclic s

theorem box_iff_target_recursive (c : Ctx) (ty : FieldType) (quals : List Qual) (r : RTy) :
    inputFieldType c ty quals = .ok r →
      ((∃ t, r = .box t) ↔ ∃ iid, ty.id = .input iid ∧ inputIsRecursive c.s iid = true) :=
  C12Graph.box_iff_target_recursive c ty quals r

theorem fragment_dfs_sound (q : Query) (f : Nat) : fragmentIsRecursive q f = true → OnSpreadCycle q f :=
  fragmentIsRecursive_sound q f

theorem fragment_dfs_complete (q : Query) (f : Nat) : OnSpreadCycle q f → fragmentIsRecursive q f = true :=
  fragmentIsRecursive_complete q f

theorem fragment_boxed_acyclic (q : Query) : ¬ ∃ t, Relation.TransGen (byValueF q) t t :=
  C12Graph.fragment_boxed_acyclic' q

theorem box_transparent_de (path : String → Json → Serde.D Val) (t : RTy) (j : Json) :
    Serde.deTyWith path (.box t) j = Serde.deTyWith path t j := C12Graph.box_transparent_de path t j

theorem box_transparent_ser (path : String → Val → Serde.D Json) (t : RTy) (v : Val) :
    Serde.serTyWith path (.box t) v = Serde.serTyWith path t v := C12Graph.box_transparent_ser path t v

end C12
end GqlVerif
