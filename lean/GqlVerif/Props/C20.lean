import GqlVerif.Model.Cli
import GqlVerif.Proofs.CliChars
/-!
# C20 — `introspect-schema` sends the right request and never corrupts its output

* `header_spec` / `header_rejects`: `Header::from_str` accepts exactly the strings `a:b` (split at the
  **first** colon) whose trimmed name is non-empty and free of (Unicode) whitespace, and returns the
  trimmed halves — for **all** strings.
* `doc_select`: the 2×2 flag table picks the document whose operation name is sent; facts about the
  document texts are evaluated on the texts regenerated from `graphql_client_cli/src/graphql/`.
* `out_file_safe` / `out_file_written` / `stdout_untouched`: for every server behaviour and every
  initial state of the `--output` file.
-/
namespace GqlVerif
namespace C20
open Cli

deriving instance DecidableEq for Except

/-! ## lemmas about the string primitives -/

theorem mem_takeWhile_imp (p : Char → Bool) (l : List Char) (c : Char) (h : c ∈ l.takeWhile p) : p c = true := by
  induction l with
  | nil => simp at h
  | cons x xs ih =>
    by_cases hp : p x
    · simp [List.takeWhile, hp] at h
      cases h with
      | inl h => rw [h]; exact hp
      | inr h => exact ih h
    · simp [List.takeWhile, hp] at h

theorem dropWhile_eq_nil (p : Char → Bool) (l : List Char) (h : ∀ c ∈ l, p c = true) : l.dropWhile p = [] := by
  induction l with
  | nil => rfl
  | cons x xs ih =>
    have hx : p x = true := h x (by simp)
    simp [List.dropWhile, hx]
    exact ih (fun c hc => h c (by simp [hc]))

theorem splitFirstColon_none (s : List Char) : splitFirstColon s = none ↔ ':' ∉ s := by
  induction s with
  | nil => simp [splitFirstColon]
  | cons c cs ih =>
    unfold splitFirstColon
    by_cases hc : c = ':'
    · simp [hc]
    · have hc' : ¬ ':' = c := fun h => hc h.symm
      cases h : splitFirstColon cs with
      | none => simp [hc, hc', ih.mp h]
      | some ab =>
        have : ¬ ':' ∉ cs := fun hn => by rw [ih.mpr hn] at h; cases h
        simp [hc, hc']
        simpa using this

/-- the split is at the *first* colon, and it is the only decomposition with a colon-free left part -/
theorem splitFirstColon_some (s a b : List Char) :
    splitFirstColon s = some (a, b) ↔ s = a ++ ':' :: b ∧ ':' ∉ a := by
  induction s generalizing a with
  | nil => simp [splitFirstColon]
  | cons c cs ih =>
    unfold splitFirstColon
    by_cases hc : c = ':'
    · subst hc
      simp only [↓reduceIte, Option.some.injEq, Prod.mk.injEq]
      constructor
      · rintro ⟨rfl, rfl⟩; simp
      · rintro ⟨h, hn⟩
        cases a with
        | nil => simpa using h
        | cons x xs => simp at h hn; exact absurd h.1 hn.1
    · simp only [hc, ↓reduceIte]
      cases h : splitFirstColon cs with
      | none =>
        have hno := (splitFirstColon_none cs).mp h
        simp only [reduceCtorEq, false_iff]
        rintro ⟨heq, hn⟩
        cases a with
        | nil => simp at heq; exact hc heq.1
        | cons x xs =>
          simp at heq
          apply hno
          rw [heq.2]; simp
      | some ab =>
        obtain ⟨a0, b0⟩ := ab
        simp only [Option.some.injEq, Prod.mk.injEq]
        constructor
        · rintro ⟨rfl, rfl⟩
          have h0 := (ih a0).mp h
          refine ⟨by simp [h0.1], ?_⟩
          simp [h0.2]; exact fun h => hc h.symm
        · rintro ⟨heq, hn⟩
          cases a with
          | nil => simp at heq; exact absurd heq.1 hc
          | cons x xs =>
            simp at heq hn
            have := (ih xs).mpr ⟨heq.2, hn.2⟩
            rw [h] at this
            simp at this
            simp [heq.1, this.1, this.2]

/-- a list is *trimmed* when it neither starts nor ends with whitespace -/
def Trimmed (t : List Char) : Prop :=
  (∀ x, t.head? = some x → isWhitespace x = false) ∧ (∀ x, t.getLast? = some x → isWhitespace x = false)

theorem head_dropWhile (p : Char → Bool) (l : List Char) : ∀ x, (l.dropWhile p).head? = some x → p x = false := by
  induction l with
  | nil => simp
  | cons c cs ih =>
    intro x
    by_cases hp : p c
    · simpa [List.dropWhile, hp] using ih x
    · simp [List.dropWhile, hp]; rintro rfl; simpa using hp

theorem trimEnd_prefix (u : List Char) : ∃ r, u = trimEnd u ++ r ∧ ∀ c ∈ r, isWhitespace c = true := by
  refine ⟨(u.reverse.takeWhile isWhitespace).reverse, ?_, ?_⟩
  · have := List.takeWhile_append_dropWhile (p := isWhitespace) (l := u.reverse)
    have h2 := congrArg List.reverse this
    simp only [List.reverse_append, List.reverse_reverse] at h2
    exact h2.symm
  · intro c hc
    have hc' : c ∈ u.reverse.takeWhile isWhitespace := by simpa using hc
    exact mem_takeWhile_imp _ _ _ hc'

theorem trim_trimmed (s : List Char) : Trimmed (trim s) := by
  constructor
  · intro x hx
    obtain ⟨r, hr, _⟩ := trimEnd_prefix (trimStart s)
    have hu := head_dropWhile isWhitespace s
    unfold trim at hx
    cases ht : trimEnd (trimStart s) with
    | nil => rw [ht] at hx; simp at hx
    | cons y ys =>
      rw [ht] at hx hr
      simp at hx; subst hx
      apply hu
      show (trimStart s).head? = some y
      rw [hr]; simp
  · intro x hx
    unfold trim trimEnd at hx
    rw [List.getLast?_reverse] at hx
    exact head_dropWhile isWhitespace _ x hx

/-- `trim` removes an all-whitespace prefix and an all-whitespace suffix, and what is left is trimmed -/
theorem trim_spec (a : List Char) :
    ∃ l r, a = l ++ trim a ++ r ∧ (∀ c ∈ l, isWhitespace c = true) ∧ (∀ c ∈ r, isWhitespace c = true) ∧
      Trimmed (trim a) := by
  obtain ⟨r, hr, hrw⟩ := trimEnd_prefix (trimStart a)
  refine ⟨a.takeWhile isWhitespace, r, ?_, ?_, hrw, trim_trimmed a⟩
  · have := List.takeWhile_append_dropWhile (p := isWhitespace) (l := a)
    unfold trim
    rw [List.append_assoc, ← hr]
    exact this.symm
  · intro c hc; exact mem_takeWhile_imp _ _ _ hc

theorem trim_eq_nil (a : List Char) : trim a = [] ↔ ∀ c ∈ a, isWhitespace c = true := by
  obtain ⟨l, r, h, hl, hr, _⟩ := trim_spec a
  constructor
  · intro ht
    rw [ht] at h
    intro c hc
    rw [h] at hc
    simp at hc
    cases hc with
    | inl h1 => exact hl c h1
    | inr h1 => exact hr c h1
  · intro hall
    have : trimStart a = [] := by
      unfold trimStart
      exact dropWhile_eq_nil _ _ hall
    unfold trim
    rw [this]; rfl

/-- counting words: with no whitespace at all there is at most one word -/
theorem wordsFrom_noWs (cs : List Char) (h : ∀ c ∈ cs, isWhitespace c = false) :
    wordsFrom cs true = 0 ∧ wordsFrom cs false = (if cs = [] then 0 else 1) := by
  induction cs with
  | nil => simp [wordsFrom]
  | cons c cs ih =>
    have hc : isWhitespace c = false := h c (by simp)
    have ih' := ih (fun x hx => h x (by simp [hx]))
    simp [wordsFrom, hc, ih'.1]

/-- a list whose last character is not whitespace: a new word starts after every whitespace -/
theorem wordsFrom_lastNonWs (cs : List Char) (h : ∀ x, cs.getLast? = some x → isWhitespace x = false) :
    (1 ≤ wordsFrom cs false ↔ cs ≠ []) ∧ (1 ≤ wordsFrom cs true ↔ ∃ c ∈ cs, isWhitespace c = true) := by
  induction cs with
  | nil => simp [wordsFrom]
  | cons c cs ih =>
    by_cases hne : cs = []
    · subst hne
      have hc : isWhitespace c = false := h c (by simp)
      simp [wordsFrom, hc]
    · have hlast : ∀ x, cs.getLast? = some x → isWhitespace x = false := by
        intro x hx
        apply h x
        cases cs with
        | nil => exact absurd rfl hne
        | cons y ys => rw [List.getLast?_cons_cons]; exact hx
      have ih' := ih hlast
      by_cases hc : isWhitespace c = true
      · simp only [wordsFrom, hc, ↓reduceIte]
        have h1 : 1 ≤ wordsFrom cs false := ih'.1.mpr hne
        simp [h1]
        exact Or.inl hc
      · have hc' : isWhitespace c = false := by simpa using hc
        simp only [wordsFrom, hc', Bool.false_eq_true, ↓reduceIte]
        constructor
        · simp
        · simp only [Nat.zero_add]
          rw [ih'.2]
          constructor
          · rintro ⟨x, hx, hw⟩; exact ⟨x, by simp [hx], hw⟩
          · rintro ⟨x, hx, hw⟩
            simp at hx
            cases hx with
            | inl h1 => subst h1; rw [hc'] at hw; cases hw
            | inr h1 => exact ⟨x, h1, hw⟩

/-- for a trimmed, non-empty name: more than one word ⇔ some whitespace character inside -/
theorem wordCount_trimmed (n : List Char) (ht : Trimmed n) (hne : n ≠ []) :
    wordCount n > 1 ↔ ∃ c ∈ n, isWhitespace c = true := by
  cases n with
  | nil => exact absurd rfl hne
  | cons a rest =>
    have ha : isWhitespace a = false := ht.1 a (by simp)
    unfold wordCount
    simp only [wordsFrom, ha, Bool.false_eq_true, ↓reduceIte]
    by_cases hr : rest = []
    · subst hr; simp [wordsFrom, ha]
    · have hlast : ∀ x, rest.getLast? = some x → isWhitespace x = false := by
        intro x hx
        apply ht.2 x
        cases rest with
        | nil => exact absurd rfl hr
        | cons y ys => rw [List.getLast?_cons_cons]; exact hx
      have := (wordsFrom_lastNonWs rest hlast).2
      constructor
      · intro h
        have h1 : 1 ≤ wordsFrom rest true := by omega
        obtain ⟨c, hc, hw⟩ := this.mp h1
        exact ⟨c, by simp [hc], hw⟩
      · rintro ⟨c, hc, hw⟩
        simp at hc
        cases hc with
        | inl h1 => subst h1; rw [ha] at hw; cases hw
        | inr h1 =>
          have := this.mpr ⟨c, h1, hw⟩
          omega

/-! ## property theorems: the header parser -/

/-- **`Header::from_str` accepts exactly `a:b` split at the first colon**, returns both halves trimmed,
and requires the trimmed name to be non-empty and free of whitespace.  All strings. -/
theorem header_spec (s n v : List Char) :
    parseHeaderChars s = .ok (n, v) ↔
      ∃ a b, s = a ++ ':' :: b ∧ ':' ∉ a ∧ n = trim a ∧ v = trim b ∧ n ≠ [] ∧
        ∀ c ∈ n, isWhitespace c = false := by
  unfold parseHeaderChars
  cases h : splitFirstColon s with
  | none =>
    simp only [reduceCtorEq, false_iff]
    rintro ⟨a, b, hs, ha, _⟩
    rw [(splitFirstColon_some s a b).mpr ⟨hs, ha⟩] at h
    cases h
  | some ab =>
    obtain ⟨a0, b0⟩ := ab
    have h0 := (splitFirstColon_some s a0 b0).mp h
    have key : wordCount (trim a0) > 1 ↔ ∃ c ∈ trim a0, isWhitespace c = true := by
      by_cases hne : trim a0 = []
      · simp [hne, wordCount, wordsFrom]
      · exact wordCount_trimmed _ (trim_trimmed a0) hne
    simp only []
    by_cases hne : trim a0 = []
    · simp only [hne, ↓reduceIte, reduceCtorEq, false_iff]
      rintro ⟨a, b, hs, ha, hn, _, hnn, _⟩
      have := (splitFirstColon_some s a b).mpr ⟨hs, ha⟩
      rw [h] at this
      simp at this
      rw [hn, ← this.1] at hnn
      exact hnn hne
    · simp only [hne, ↓reduceIte]
      by_cases hw : wordCount (trim a0) > 1
      · simp only [hw, ↓reduceIte, reduceCtorEq, false_iff]
        rintro ⟨a, b, hs, ha, hn, _, _, hall⟩
        have := (splitFirstColon_some s a b).mpr ⟨hs, ha⟩
        rw [h] at this
        simp at this
        obtain ⟨c, hc, hcw⟩ := key.mp hw
        rw [hn, ← this.1] at hall
        rw [hall c hc] at hcw
        cases hcw
      · simp only [hw, ↓reduceIte, Except.ok.injEq, Prod.mk.injEq]
        constructor
        · rintro ⟨rfl, rfl⟩
          refine ⟨a0, b0, h0.1, h0.2, rfl, rfl, hne, ?_⟩
          intro c hc
          cases hcw : isWhitespace c with
          | false => rfl
          | true => exact absurd (key.mpr ⟨c, hc, hcw⟩) hw
        · rintro ⟨a, b, hs, ha, hn, hv, _, _⟩
          have := (splitFirstColon_some s a b).mpr ⟨hs, ha⟩
          rw [h] at this
          simp at this
          rw [hn, hv, this.1, this.2]
          exact ⟨rfl, rfl⟩

example : parseHeaderChars " X-Name :\tVal:ue ".toList = .ok ("X-Name".toList, "Val:ue".toList) := by decide +kernel

/-- the same on the function clap calls (`Result<Header, String>`) -/
theorem header_spec_str (s : List Char) (n v : String) :
    parseHeader s = .ok (n, v) ↔
      ∃ a b, s = a ++ ':' :: b ∧ ':' ∉ a ∧ n = String.ofList (trim a) ∧ v = String.ofList (trim b) ∧
        trim a ≠ [] ∧ ∀ c ∈ trim a, isWhitespace c = false := by
  unfold parseHeader
  cases h : parseHeaderChars s with
  | error e =>
    simp only [reduceCtorEq, false_iff]
    rintro ⟨a, b, hs, ha, _, _, hne, hall⟩
    rw [(header_spec s (trim a) (trim b)).mpr ⟨a, b, hs, ha, rfl, rfl, hne, hall⟩] at h
    cases h
  | ok nv =>
    obtain ⟨n0, v0⟩ := nv
    obtain ⟨a, b, hs, ha, hn, hv, hne, hall⟩ := (header_spec s n0 v0).mp h
    simp only [Except.ok.injEq, Prod.mk.injEq]
    constructor
    · rintro ⟨rfl, rfl⟩
      exact ⟨a, b, hs, ha, by rw [hn], by rw [hv], by rw [← hn]; exact hne, by rw [← hn]; exact hall⟩
    · rintro ⟨a', b', hs', ha', hn', hv', _, _⟩
      have h1 := (splitFirstColon_some s a b).mpr ⟨hs, ha⟩
      have h2 := (splitFirstColon_some s a' b').mpr ⟨hs', ha'⟩
      rw [h1] at h2
      simp at h2
      rw [hn', hv', ← h2.1, ← h2.2, ← hn, ← hv]
      exact ⟨rfl, rfl⟩

/-- **what is refused, and why**: no colon; nothing but whitespace before the first colon; whitespace
inside the (trimmed) name.  Together with `header_spec` this classifies every string. -/
theorem header_rejects (s : List Char) :
    (':' ∉ s → parseHeaderChars s = .error .noColon) ∧
    (∀ a b, s = a ++ ':' :: b → ':' ∉ a → (∀ c ∈ a, isWhitespace c = true) →
        parseHeaderChars s = .error .emptyName) ∧
    (∀ a b, s = a ++ ':' :: b → ':' ∉ a → trim a ≠ [] → (∃ c ∈ trim a, isWhitespace c = true) →
        parseHeaderChars s = .error .whitespaceInName) := by
  refine ⟨?_, ?_, ?_⟩
  · intro h
    unfold parseHeaderChars
    rw [(splitFirstColon_none s).mpr h]
  · intro a b hs ha hall
    unfold parseHeaderChars
    rw [(splitFirstColon_some s a b).mpr ⟨hs, ha⟩]
    simp [(trim_eq_nil a).mpr hall]
  · intro a b hs ha hne hw
    unfold parseHeaderChars
    rw [(splitFirstColon_some s a b).mpr ⟨hs, ha⟩]
    have := (wordCount_trimmed _ (trim_trimmed a) hne).mpr hw
    simp [hne, this]

example : ':' ∉ "X-Name Value".toList := by decide +kernel
example : parseHeaderChars ": Value".toList = .error .emptyName := by decide +kernel
example : parseHeaderChars "X Name: Value".toList = .error .whitespaceInName := by decide +kernel

/-- a refused `--header` stops the program in clap: exit status 2, no request is ever built -/
theorem refused_header_no_request (hs : List String) (h : String) (m : String)
    (hbad : parseHeader h.toList = .error m) (hin : h ∈ hs) :
    ∃ m', parseHeaderArgs hs = .error (.usage m') := by
  induction hs with
  | nil => cases hin
  | cons x xs ih =>
    unfold parseHeaderArgs
    cases hx : parseHeader x.toList with
    | error e => exact ⟨e, rfl⟩
    | ok nv =>
      simp only []
      have hin' : h ∈ xs := by
        cases hin with
        | head => rw [hbad] at hx; cases hx
        | tail _ h' => exact h'
      obtain ⟨m', hm'⟩ := ih hin'
      exact ⟨m', by rw [hm']⟩

/-! ## property theorems: which document is sent -/

def containsSub : List Char → List Char → Bool
  | [], [] => true
  | _ :: _, [] => false
  | pat, c :: cs => pat.isPrefixOf (c :: cs) || containsSub pat cs

def splitLines : List Char → List Char → List (List Char)
  | [], cur => [cur.reverse]
  | c :: cs, cur => if c = '\n' then cur.reverse :: splitLines cs [] else splitLines cs (c :: cur)

def identChar (c : Char) : Bool := c.isAlphanum || c = '_'

/-- the operation a line starts, if any (the documents define operations at the beginning of a line;
`{` alone would be an anonymous query) -/
def opNameOfLine (l : List Char) : Option (List Char) :=
  let kws : List (List Char) := [['q','u','e','r','y',' '], ['m','u','t','a','t','i','o','n',' '],
    ['s','u','b','s','c','r','i','p','t','i','o','n',' ']]
  match kws.find? (fun k => k.isPrefixOf l) with
  | some k => some ((l.drop k.length).takeWhile identChar)
  | none => if ['{'].isPrefixOf l then some [] else none

/-- names of the operations a document text defines -/
def operationNames (text : List Char) : List String :=
  ((splitLines text []).filterMap opNameOfLine).map String.ofList

def isOneOfWord : List Char := ['i','s','O','n','e','O','f']
def specifiedByWord : List Char := ['s','p','e','c','i','f','i','e','d','B','y','U','R','L']

/-- the `OPERATION_NAME` / `QUERY` constants that reach the body -/
def opOf (o u : Bool) : String := match selectDoc o u with | some (op, _, _) => op | none => ""
def textOf (o u : Bool) : String := match selectDoc o u with | some (_, _, t) => t | none => ""

/-- the documented table: flags ↦ operation -/
def specOp : Bool → Bool → String
  | false, false => "IntrospectionQuery"
  | true, false => "IntrospectionQueryWithIsOneOf"
  | false, true => "IntrospectionQueryWithSpecifiedBy"
  | true, true => "IntrospectionQueryWithIsOneOfSpecifiedByURL"

/-- **flags ↦ document** on the texts regenerated from the source: every flag pair selects a
document; the operation name sent is the documented one and is the name of the *only* operation the
selected text defines; the text asks for `isOneOf` iff `--is-one-of` and for `specifiedByURL` iff
`--specify-by-url`. -/
theorem doc_select (o u : Bool) :
    (selectDoc o u).isSome = true ∧ opOf o u = specOp o u ∧
    operationNames (textOf o u).toList = [opOf o u] ∧
    containsSub isOneOfWord (textOf o u).toList = o ∧
    containsSub specifiedByWord (textOf o u).toList = u := by
  cases o <;> cases u
  · have h := str_chars_eq% (textOf false false)
    rw [h]; decide +kernel
  · have h := str_chars_eq% (textOf false true)
    rw [h]; decide +kernel
  · have h := str_chars_eq% (textOf true false)
    rw [h]; decide +kernel
  · have h := str_chars_eq% (textOf true true)
    rw [h]; decide +kernel

/-- the body has exactly the members `variables`, `query`, `operationName`, carrying the selected
document verbatim; the request is a POST with the trimmed headers (names lower-cased by `http`) in
order and `authorization: Bearer <token>` last -/
theorem request_shape (loc : String) (hs : List (String × String)) (auth : Option String) (o u : Bool) (r : Request)
    (h : buildRequest loc hs auth o u = .ok r) :
    r.method = "POST" ∧ r.url = loc ∧
    r.body = .obj [("variables", .null), ("query", .str (textOf o u)), ("operationName", .str (opOf o u))] ∧
    r.headers = [("content-type", "application/json"), ("accept", "application/json")] ++
      hs.map (fun nv => (String.ofList (lowerAscii nv.1.toList), nv.2)) ++
      (match auth with | some t => [("authorization", "Bearer " ++ t)] | none => []) := by
  unfold buildRequest at h
  unfold opOf textOf
  cases hd : selectDoc o u with
  | none => rw [hd] at h; cases h
  | some d =>
    obtain ⟨op, file, text⟩ := d
    rw [hd] at h
    simp only [] at h
    split at h
    · cases h
    · cases auth with
      | none => simp only [Except.ok.injEq] at h; subst h; simp [requestBody]
      | some t =>
        simp only [] at h
        split at h
        · simp only [Except.ok.injEq] at h; subst h; simp [requestBody]
        · cases h

/-! ## property theorems: the output file -/

/-- **failure ⇒ nothing is touched**: whatever the server does and whatever the file contained (or
whether it existed), an unsuccessful run leaves the `--output` file and stdout exactly as they were -/
theorem out_file_safe (beh : ServerBehaviour) (output creatable : Bool) (w : World) :
    (introspect beh output creatable w).1 ≠ .success → (introspect beh output creatable w).2 = w := by
  intro h
  unfold introspect at h ⊢
  cases beh with
  | ok200Json j =>
    cases output <;> cases creatable <;> simp_all
  | cutMidReply b => cases b <;> rfl
  | _ => rfl

/-- only a 2xx reply with a JSON body succeeds (given the file can be created) -/
theorem success_iff (beh : ServerBehaviour) (output creatable : Bool) (w : World) :
    (introspect beh output creatable w).1 = .success ↔
      (∃ j, beh = .ok200Json j) ∧ (output = true → creatable = true) := by
  unfold introspect
  cases beh with
  | ok200Json j => cases output <;> cases creatable <;> simp
  | cutMidReply b => cases b <;> simp
  | _ => simp

/-- **success ⇒ the file holds exactly the pretty-printed JSON that was served** (whatever it held before) -/
theorem out_file_written (j : Json) (w : World) :
    introspect (.ok200Json j) true true w = (.success, { file := some (pretty j), stdout := w.stdout }) := by
  simp [introspect]

/-- with `--output`, stdout is never written, in any outcome -/
theorem stdout_untouched (beh : ServerBehaviour) (creatable : Bool) (w : World) :
    (introspect beh true creatable w).2.stdout = w.stdout := by
  unfold introspect
  cases beh with
  | ok200Json j => cases creatable <;> simp
  | cutMidReply b => cases b <;> rfl
  | _ => rfl

/-- without `--output` no file is touched, and on success stdout receives exactly the pretty JSON -/
theorem stdout_written (beh : ServerBehaviour) (creatable : Bool) (w : World) :
    (introspect beh false creatable w).2.file = w.file ∧
    (∀ j, beh = .ok200Json j → (introspect beh false creatable w).2.stdout = w.stdout ++ pretty j) := by
  unfold introspect
  cases beh with
  | ok200Json j => simp
  | cutMidReply b => cases b <;> simp
  | _ => simp

example : (introspect (.status5xx "boom") true true { file := some "old", stdout := "" }).1 ≠ .success := by decide +kernel

end C20
end GqlVerif
