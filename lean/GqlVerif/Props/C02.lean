import GqlVerif.Model.Scope
import GqlVerif.Proofs.C02Closure
/-!
# C02 — supported inputs are accepted and the generated code type-checks

What is proved (all schemas, queries, operations, options and case functions; no bound on sizes):

* the executable scope check the correspondence harness evaluates on the IR extracted from the real
  token stream means what it says (`wellScoped_iff`);
* the closure computed by `allUsedTypes` contains everything the emitted module can mention:
  the types of all reachable selections, all spread fragments, all inline type conditions
  (`selected_types_used`), the types of all variables (`variable_types_used`), and it is closed under
  input-object fields (`used_inputs_closed`);
* every type name mentioned by the emitted input structs / `@oneOf` enums and by the `Variables`
  struct and its `default_*` functions is resolved inside the module the generator emits for the
  operation (`inputs_resolved_in_module`, `variables_resolved_in_module`): it is one of the module's own
  items, a Rust prelude type, or an extern enum the consumer supplies;
* the walks never run out of fuel (`responseForQuery_fuel`, shared with C17).

Partial: the same statement for the *response* items (nested selection structs, fragment structs,
variant enums) is not yet a theorem; for those the property is decided by the correspondence (the
scope check on the extracted IR of every generated case, and rustc on the compiled consumer crates in
all delivery forms).  rustc's type checker is exercised, not modelled.
-/
namespace GqlVerif
namespace C02
open Codegen

/-! ## the executable scope check is the stated discipline -/

theorem dups_eq_nil_iff (l : List String) : Scope.dups l = [] ↔ l.Nodup := by
  induction l with
  | nil => simp [Scope.dups]
  | cons x xs ih =>
    unfold Scope.dups
    by_cases h : xs.contains x = true
    · rw [if_pos h, List.nodup_cons]
      constructor
      · intro h'; cases h'
      · intro h'; exact absurd (by simpa using h) h'.1
    · rw [if_neg h, List.nodup_cons, ih]
      constructor
      · intro h'; exact ⟨by simpa using h, h'⟩
      · intro h'; exact h'.2

theorem flatMap_eq_nil {α β} (l : List α) (f : α → List β) : l.flatMap f = [] ↔ ∀ x ∈ l, f x = [] := by
  induction l with
  | nil => simp
  | cons a l ih => simp [List.flatMap_cons, ih]

/-- the member identifiers of an item (struct fields, enum variants, `default_*` functions) -/
def memberIdents : Item → List String
  | .struct _ _ _ fs => fs.map (·.rust)
  | .tagged _ _ _ _ vs => vs.map (·.name)
  | .oneOf _ _ _ vs => vs.map (·.name)
  | .gqlEnum _ _ _ vs _ _ => vs ++ ["Other"]
  | .defaults fns => fns.map (·.1)
  | _ => []

theorem itemMemberDups_nil_iff (it : Item) : Scope.itemMemberDups it = [] ↔ (memberIdents it).Nodup := by
  cases it <;> simp [Scope.itemMemberDups, memberIdents, dups_eq_nil_iff]

/-- **the scope check, spelled out**: `wellScoped` holds exactly when every mention is resolved
    (own item, Rust prelude type, or supplied by the consumer), no type name is defined twice, no item
    has two members of the same identifier, and every item with a serde derive names the serde crate -/
theorem wellScoped_iff (items : List Item) (supplied : List String) :
    Scope.wellScoped items supplied = true ↔
      (∀ n ∈ Scope.mentions items,
          n ∈ Scope.defines items ∨ n ∈ Scope.rustBuiltins ∨ n ∈ supplied) ∧
      (Scope.defines items).Nodup ∧
      (∀ it ∈ items, (memberIdents it).Nodup) ∧
      (∀ it ∈ items, Scope.missingSerdeCrate it = false) := by
  unfold Scope.wellScoped Scope.report
  rw [beq_iff_eq]
  simp only [Scope.Report.mk.injEq]
  rw [dups_eq_nil_iff, flatMap_eq_nil]
  have h1 : Scope.undefinedMentions items supplied = [] ↔
      ∀ n ∈ Scope.mentions items, n ∈ Scope.defines items ∨ n ∈ Scope.rustBuiltins ∨ n ∈ supplied := by
    unfold Scope.undefinedMentions Scope.resolved
    rw [List.filter_eq_nil_iff]
    constructor
    · intro h n hn
      have := h n hn
      simp only [Bool.not_eq_true, Bool.not_eq_false', Bool.or_eq_true, List.contains_iff_mem] at this
      rcases this with (h | h) | h
      · exact .inl h
      · exact .inr (.inl h)
      · exact .inr (.inr h)
    · intro h n hn
      simp only [Bool.not_eq_true, Bool.not_eq_false', Bool.or_eq_true, List.contains_iff_mem]
      rcases h n hn with h | h | h
      · exact .inl (.inl h)
      · exact .inl (.inr h)
      · exact .inr h
  have h2 : List.map Item.name (List.filter Scope.missingSerdeCrate items) = [] ↔
      ∀ it ∈ items, Scope.missingSerdeCrate it = false := by
    rw [List.map_eq_nil_iff, List.filter_eq_nil_iff]
    constructor
    · intro h it hit; simpa using h it hit
    · intro h it hit; simp [h it hit]
  rw [h1, h2]
  constructor
  · rintro ⟨a, b, c, d⟩
    exact ⟨a, b, fun it hit => (itemMemberDups_nil_iff it).1 (c it hit), d⟩
  · rintro ⟨a, b, c, d⟩
    exact ⟨a, b, fun it hit => (itemMemberDups_nil_iff it).2 (c it hit), d⟩

/-- non-vacuity: a module shaped like the generator's output for `query Q($v: In) { dog { name } }` -/
example : Scope.wellScoped
    [.alias "Int" false (.path "i64"), .alias "ID" false (.path "String"),
     .alias "Date" false (.path "super::Date"),
     .struct "In" ["Serialize"] (some "::serde") [{ rust := "when", ty := .opt (.path "Date") }, { rust := "dir", ty := .path "Direction" }],
     .struct "Variables" ["Serialize"] (some "::serde") [{ rust := "v", ty := .opt (.box (.path "In")) }],
     .struct "QDog" ["Deserialize"] (some "::serde") [{ rust := "name", ty := .opt (.path "String") }],
     .struct "ResponseData" ["Deserialize"] (some "::serde") [{ rust := "dog", ty := .opt (.path "QDog") }]]
    ["super::Date", "Direction"] = true := by decide

/-- … and the check is not vacuous the other way: a mention without an item is reported -/
example : (Scope.report
    [.struct "ResponseData" ["Deserialize"] none [{ rust := "dog", ty := .opt (.path "QDog") }, { rust := "dog", ty := .path "Int" }]]
    []) = { undefined := ["QDog", "Int"], duplicateDefs := [], duplicateMembers := ["dog"], serdeless := ["ResponseData"] } := by
  decide

/-! ## the proofs of `Proofs/C02Closure.lean` speak about the same `mentions` -/

theorem leaf_eq : ∀ t : RTy, C02.leaf t = Scope.leaf t
  | .path _ => rfl
  | .opt t => by simp [C02.leaf, Scope.leaf, leaf_eq t]
  | .vec t => by simp [C02.leaf, Scope.leaf, leaf_eq t]
  | .box t => by simp [C02.leaf, Scope.leaf, leaf_eq t]

theorem itemMentions_eq (it : Item) : C02.itemMentions it = Scope.itemMentions it := by
  have hl : C02.leaf = Scope.leaf := funext leaf_eq
  cases it <;> simp [C02.itemMentions, Scope.itemMentions, hl]

/-! ## mentions of the input items and of `Variables` are resolved inside the emitted module -/

theorem bind_ok' {α β} {x : Outcome α} {f : α → Outcome β} {b : β} (h : x >>= f = .ok b) :
    ∃ a, x = .ok a ∧ f a = .ok b := C02.bind_ok h

/-- the items `responseForQuery` emits, decomposed -/
theorem responseForQuery_ok {c : Ctx} {op : Nat} {items : List Item} (h : responseForQuery c op = .ok items) :
    ∃ u S E F I V R, allUsedTypes c.s c.q op = .ok u ∧ scalarItems c u = .ok S ∧ enumItems c u = .ok E ∧
      inputItems c u = .ok I ∧ variablesItems c op = .ok V ∧
      items = builtinAliases ++ S ++ E ++ I ++ V ++ F ++ R := by
  unfold responseForQuery at h
  obtain ⟨u, hu, h⟩ := bind_ok' h
  obtain ⟨S, hS, h⟩ := bind_ok' h
  obtain ⟨E, hE, h⟩ := bind_ok' h
  obtain ⟨F, _, h⟩ := bind_ok' h
  obtain ⟨I, hI, h⟩ := bind_ok' h
  obtain ⟨V, hV, h⟩ := bind_ok' h
  obtain ⟨o, _, h⟩ := bind_ok' h
  obtain ⟨R, _, h⟩ := bind_ok' h
  simp only [pure, Except.pure, Except.ok.injEq] at h
  exact ⟨u, S, E, F.flatten, I, V, R, hu, hS, hE, hI, hV, h.symm⟩

theorem scalarItems_itemDefines {c : Ctx} {u : UsedTypes} {S : List Item} (h : scalarItems c u = .ok S) :
    ∀ it ∈ S, Scope.itemDefines it = some it.name := by
  unfold scalarItems at h
  obtain ⟨ns, _, h⟩ := bind_ok' h
  simp only [pure, Except.pure, Except.ok.injEq] at h
  subst h
  intro it hit
  simp only [List.mem_map] at hit
  obtain ⟨n, _, rfl⟩ := hit
  rfl

theorem enumItems_itemDefines {c : Ctx} {u : UsedTypes} {E : List Item} (h : enumItems c u = .ok E) :
    ∀ it ∈ E, Scope.itemDefines it = some it.name := by
  unfold enumItems at h
  obtain ⟨es, _, h⟩ := bind_ok' h
  simp only [pure, Except.pure, Except.ok.injEq] at h
  subst h
  intro it hit
  simp only [List.mem_map] at hit
  obtain ⟨e, _, rfl⟩ := hit
  rfl

theorem inputItem_itemDefines {c : Ctx} {i : StoredInput} {it : Item} (h : inputItem c i = .ok it) :
    Scope.itemDefines it = some it.name := by
  unfold inputItem at h
  split at h
  · obtain ⟨vs, _, h⟩ := bind_ok' h
    simp only [pure, Except.pure, Except.ok.injEq] at h
    subst h; rfl
  · obtain ⟨fs, _, h⟩ := bind_ok' h
    simp only [pure, Except.pure, Except.ok.injEq] at h
    subst h; rfl

theorem inputItems_itemDefines {c : Ctx} {u : UsedTypes} {I : List Item} (h : inputItems c u = .ok I) :
    ∀ it ∈ I, Scope.itemDefines it = some it.name := by
  intro it hit
  unfold inputItems at h
  obtain ⟨x, _, hx⟩ := C02.mapM_ok_mem h it hit
  exact inputItem_itemDefines hx

/-- `Defined` (the notion of `Proofs/C02Closure.lean`) implies `resolved` in the emitted module -/
theorem defined_resolved {c : Ctx} {u : UsedTypes} {S E I : List Item} (rest1 rest2 : List Item)
    (hS : scalarItems c u = .ok S) (hE : enumItems c u = .ok E) (hI : inputItems c u = .ok I)
    (n : String) (h : Defined c S E I n) :
    Scope.resolved (builtinAliases ++ S ++ E ++ I ++ rest1 ++ rest2) c.o.externEnums n = true := by
  unfold Scope.resolved
  simp only [Bool.or_eq_true, List.contains_iff_mem]
  rcases h with h | h | ⟨it, hit, rfl⟩
  · -- a default scalar: `String` is a prelude type, the others are the built-in aliases
    simp only [Schema.defaultScalars, List.mem_cons, List.not_mem_nil, or_false] at h
    rcases h with rfl | rfl | rfl | rfl | rfl
    · exact .inl (.inl (by simp [Scope.defines, builtinAliases, Scope.itemDefines, Item.name]))
    · exact .inl (.inr (by simp [Scope.rustBuiltins]))
    · exact .inl (.inl (by simp [Scope.defines, builtinAliases, Scope.itemDefines, Item.name]))
    · exact .inl (.inl (by simp [Scope.defines, builtinAliases, Scope.itemDefines, Item.name]))
    · exact .inl (.inl (by simp [Scope.defines, builtinAliases, Scope.itemDefines, Item.name]))
  · exact .inr h
  · refine .inl (.inl ?_)
    have hd : Scope.itemDefines it = some it.name := by
      simp only [List.mem_append] at hit
      rcases hit with (hit | hit) | hit
      · exact scalarItems_itemDefines hS it hit
      · exact enumItems_itemDefines hE it hit
      · exact inputItems_itemDefines hI it hit
    unfold Scope.defines
    rw [List.mem_filterMap]
    refine ⟨it, ?_, hd⟩
    simp only [List.mem_append] at hit ⊢
    rcases hit with (hit | hit) | hit
    · exact .inl (.inl (.inl (.inl (.inr hit))))
    · exact .inl (.inl (.inl (.inr hit)))
    · exact .inl (.inl (.inr hit))

/-- **input items are resolved in the emitted module.**  For every operation for which
    `responseForQuery` succeeds (normalization `none`; no input type named like a Rust keyword;
    `OutputOnly` / `InputFieldsRelevant`: the schema and query are GraphQL-valid in the sense that input
    types only occur in input positions), every type name mentioned by an emitted input struct or
    `@oneOf` enum is an item of the same module, a prelude type or an extern enum. -/
theorem inputs_resolved_in_module (c : Ctx) (op : Nat) (items : List Item)
    (hnorm : c.o.normalization = .none)
    (hkw : ∀ i ∈ c.s.inputs, keywordReplace i.name = i.name)
    (hwf : OutputOnly c.s c.q = true) (hrel : InputFieldsRelevant c.s = true)
    (h : responseForQuery c op = .ok items) :
    ∃ u I, allUsedTypes c.s c.q op = .ok u ∧ inputItems c u = .ok I ∧ (∀ it ∈ I, it ∈ items) ∧
      ∀ it ∈ I, ∀ n ∈ Scope.itemMentions it, Scope.resolved items c.o.externEnums n = true := by
  obtain ⟨u, S, E, F, I, V, R, hu, hS, hE, hI, hV, rfl⟩ := responseForQuery_ok h
  refine ⟨u, I, hu, hI, fun it hit => by simp [hit], ?_⟩
  intro it hit n hn
  rw [← itemMentions_eq] at hn
  have hd := inputItems_mentions_defined c op u S E I hnorm hkw hwf hrel hu hS hE hI it hit n hn
  have := defined_resolved (V ++ F) R hS hE hI n hd
  simpa [List.append_assoc] using this

/-- **the `Variables` struct and its `default_*` functions are resolved in the emitted module.** -/
theorem variables_resolved_in_module (c : Ctx) (op : Nat) (items : List Item)
    (hnorm : c.o.normalization = .none)
    (hkwS : ∀ n ∈ c.s.scalars, keywordReplace n = n)
    (hkwE : ∀ e ∈ c.s.enums, keywordReplace e.name = e.name)
    (hvars : ∀ v ∈ c.q.opVariables op, Relevant v.ty.id)
    (h : responseForQuery c op = .ok items) :
    ∃ V, variablesItems c op = .ok V ∧ (∀ it ∈ V, it ∈ items) ∧
      ∀ it ∈ V, ∀ n ∈ Scope.itemMentions it, Scope.resolved items c.o.externEnums n = true := by
  obtain ⟨u, S, E, F, I, V, R, hu, hS, hE, hI, hV, rfl⟩ := responseForQuery_ok h
  refine ⟨V, hV, fun it hit => by simp [hit], ?_⟩
  intro it hit n hn
  rw [← itemMentions_eq] at hn
  have hd := variables_mentions_defined c op u S E I V hnorm hkwS hkwE hvars hu hS hE hI hV it hit n hn
  have := defined_resolved (V ++ F) R hS hE hI n hd
  simpa [List.append_assoc] using this

/-- non-vacuity of the hypotheses: the schema / query pair of `Proofs/C02Closure.lean`
    (`input In { e: E, next: In2 } input In2 { back: [In], s: Date }`, `query Q($v: In) { x { y } ...F }`)
    satisfies them and generation succeeds on it -/
example : OutputOnly goodSchema goodQuery = true ∧ InputFieldsRelevant goodSchema = true ∧
    (responseForQuery { s := goodSchema, q := goodQuery, o := {}, cs := ⟨id, id⟩ } 0).toOption.isSome = true := by
  decide

end C02
end GqlVerif
