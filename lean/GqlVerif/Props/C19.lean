import GqlVerif.Model.Cli
/-!
# C19 — `graphql-client generate` writes exactly the library's output to the right file

* `cli_options_map`: every flag reaches the library option it documents, unchanged, for all flag
  values; an unparsable deprecation strategy is the default; the visibility table.
* `dest_path`, `dest_path_beside`, `dest_path_trailing`, `stem_spec`, `dest_file_name`: the
  destination is `<output dir or directory of the query file>/<stem of the query file name>.rs`,
  over all path strings of the modelled grammar (`/`-separated, any number of dots, hidden files, no
  extension, `..ext`, trailing `/` and `/.`).
* `output_is_header_then_lib`: the file holds the warning-suppression line, a newline and the
  library's tokens (through rustfmt unless `--no-formatting`); nothing else is written.
* `gen_error_no_file`: whenever the command does not succeed — generation error, library panic,
  rustfmt failure, bad flag value — the file system is unchanged and the exit status is non-zero.
-/
namespace GqlVerif
namespace C19
open Cli

/-! ## flags → options -/

/-- documented meaning of `--deprecation-strategy`: one of the three words (surrounding whitespace
ignored), anything else — or no flag — is the default `warn` -/
def specDeprecation : Option String → DepStrategy
  | none => .warn
  | some s =>
    if trim s.toList = allowWord then .allow
    else if trim s.toList = denyWord then .deny
    else .warn

/-- the flag value is one of the three visibility words (case-insensitive) -/
def VisWord (v : String) : Prop :=
  lowerAscii v.toList = pubWord ∨ lowerAscii v.toList = inheritedWord ∨ lowerAscii v.toList = privateWord

/-- documented meaning of `--module-visibility`: `pub`; `private` (or `inherited`) = no visibility
keyword; any other value is a path `p`, giving `pub(p)`; no flag = `pub` -/
def specVisibility : Option String → Vis
  | none => .pub
  | some v =>
    if lowerAscii v.toList = pubWord then .pub
    else if lowerAscii v.toList = inheritedWord then .inherited
    else if lowerAscii v.toList = privateWord then .inherited
    else .restricted v

theorem parseVisibility_spec (ok : String → Bool) (vis : Option String)
    (hv : ∀ v, vis = some v → ¬ VisWord v → ok v = true) :
    parseVisibility ok vis = some (specVisibility vis) := by
  cases vis with
  | none => rfl
  | some v =>
    simp only [parseVisibility, specVisibility]
    by_cases h1 : lowerAscii v.toList = pubWord
    · rw [if_pos h1, if_pos h1]
    · rw [if_neg h1, if_neg h1]
      by_cases h2 : lowerAscii v.toList = inheritedWord
      · rw [if_pos h2, if_pos h2]
      · rw [if_neg h2, if_neg h2]
        by_cases h3 : lowerAscii v.toList = privateWord
        · rw [if_pos h3, if_pos h3]
        · rw [if_neg h3, if_neg h3]
          have : ok v = true := hv v rfl (fun h => by
            cases h with
            | inl h => exact h1 h
            | inr h => cases h with
              | inl h => exact h2 h
              | inr h => exact h3 h)
          rw [if_pos this]

theorem parseDeprecation_spec (dep : Option String) :
    (match dep.bind parseDeprecation with | some d => d | none => DepStrategy.warn) = specDeprecation dep := by
  cases dep with
  | none => rfl
  | some s =>
    simp only [Option.bind, parseDeprecation, specDeprecation]
    by_cases h1 : trim s.toList = allowWord
    · rw [if_pos h1, if_pos h1]
    · rw [if_neg h1, if_neg h1]
      by_cases h2 : trim s.toList = denyWord
      · rw [if_pos h2, if_pos h2]
      · rw [if_neg h2, if_neg h2]
        by_cases h3 : trim s.toList = warnWord
        · rw [if_pos h3]
        · rw [if_neg h3]

/-- **every flag has the effect of the corresponding library option.**  For all flag values whose
paths `syn` accepts: the options handed to the library are the CLI-mode defaults with exactly the
given flags applied, each value unchanged. -/
theorem cli_options_map (ok : String → Bool) (f : GenFlags)
    (hv : ∀ v, f.moduleVisibility = some v → ¬ VisWord v → ok v = true)
    (hs : ∀ m, f.customScalarsModule = some m → ok m = true) :
    ∃ o, cliOptions ok f = .ok o ∧
      o.mode = .cli ∧
      o.operationName = f.selectedOperation ∧
      o.variablesDerives = f.variablesDerives ∧
      o.responseDerives = f.responseDerives ∧
      o.deprecation = specDeprecation f.deprecationStrategy ∧
      o.visibility = (specVisibility f.moduleVisibility).tokens ∧
      o.scalarsModule = f.customScalarsModule ∧
      o.otherVariant = f.fragmentsOtherVariant ∧
      o.externEnums = f.externalEnums.getD [] ∧
      -- nothing else is set
      o.structIdent = none ∧ o.normalization = .none ∧ o.skipNone = false ∧
      o.serdePath = "::serde" ∧ o.queryFile = none := by
  obtain ⟨qp, sp, sel, vd, rd, dep, nofmt, vis, outdir, scalars, other, enums⟩ := f
  simp only at hv hs
  have hvis := parseVisibility_spec ok vis hv
  have hdep := parseDeprecation_spec dep
  unfold cliOptions
  simp only [hvis]
  generalize dep.bind parseDeprecation = d at hdep ⊢
  cases scalars with
  | none =>
    cases sel <;> cases vd <;> cases rd <;> cases enums <;> cases d
    all_goals exact ⟨_, rfl, rfl, rfl, rfl, rfl, hdep, rfl, rfl, rfl, rfl, rfl, rfl, rfl, rfl, rfl⟩
  | some m =>
    have hm : ok m = true := hs m rfl
    simp only [hm, ↓reduceIte]
    cases sel <;> cases vd <;> cases rd <;> cases enums <;> cases d
    all_goals exact ⟨_, rfl, rfl, rfl, rfl, rfl, hdep, rfl, rfl, rfl, rfl, rfl, rfl, rfl, rfl, rfl⟩

example : specDeprecation (some " deny ") = .deny := by decide +kernel
example : specDeprecation (some "Deny") = .warn := by decide +kernel
example : (specVisibility (some "Private")).tokens = "" := by decide +kernel
example : (specVisibility (some "crate")).tokens = "pub(crate)" := by decide +kernel
example : ¬ VisWord "crate" := by unfold VisWord; decide +kernel

/-- flag values `syn` refuses end the run before the library is called: a panic for the visibility
path, the error "Invalid custom scalar module path" for the scalars module -/
theorem cli_options_refused (ok : String → Bool) (f : GenFlags) :
    (∀ v, f.moduleVisibility = some v → ¬ VisWord v → ok v = false →
        ∃ m, cliOptions ok f = .error (.panic m)) ∧
    (∀ m, f.customScalarsModule = some m → ok m = false →
        (∀ v, f.moduleVisibility = some v → ¬ VisWord v → ok v = true) →
        cliOptions ok f = .error (.failure "Invalid custom scalar module path")) := by
  constructor
  · intro v hv hw hok
    have h1 : ¬ lowerAscii v.toList = pubWord := fun h => hw (Or.inl h)
    have h2 : ¬ lowerAscii v.toList = inheritedWord := fun h => hw (Or.inr (Or.inl h))
    have h3 : ¬ lowerAscii v.toList = privateWord := fun h => hw (Or.inr (Or.inr h))
    unfold cliOptions parseVisibility
    rw [hv]
    simp only [if_neg h1, if_neg h2, if_neg h3, hok]
    exact ⟨_, rfl⟩
  · intro m hm hok hv
    unfold cliOptions
    rw [parseVisibility_spec ok f.moduleVisibility hv]
    simp [hm, hok]

/-! ## destination path -/

/-- a normal path component: non-empty, no separator, neither `.` nor `..` -/
def Normal (n : List Char) : Prop := n ≠ [] ∧ '/' ∉ n ∧ n ≠ ['.'] ∧ n ≠ ['.', '.']

/-- text that can precede the file name: nothing, or something ending in the separator -/
def DirPrefix (p : List Char) : Prop := p = [] ∨ p.getLast? = some '/'

/-- `d/` — the directory `d` as a prefix of the names inside it (`""` stays `""`) -/
def dirSlash (d : List Char) : List Char :=
  match d.getLast? with
  | none => []
  | some c => if c = '/' then d else d ++ ['/']

/-- a directory written without anything `Path` would drop at its end (`/`, `/.`) -/
def CleanDir (d : List Char) : Prop := d ≠ [] ∧ d.getLast? ≠ some '/' ∧ skipTrail d.reverse = d.reverse

theorem takeWhile_append_stop (p : Char → Bool) (l r : List Char) (hl : ∀ c ∈ l, p c = true)
    (hr : ∀ x, r.head? = some x → p x = false) :
    (l ++ r).takeWhile p = l ∧ (l ++ r).dropWhile p = r := by
  induction l with
  | nil =>
    cases r with
    | nil => simp
    | cons x xs => have := hr x rfl; simp [this]
  | cons c cs ih =>
    have hc : p c = true := hl c (by simp)
    have := ih (fun x hx => hl x (by simp [hx]))
    simp [hc, this.1, this.2]

theorem skipTrail_slash (r : List Char) : skipTrail ('/' :: r) = skipTrail r := by
  conv => lhs; unfold skipTrail
  simp

theorem skipTrail_dotSlash (r : List Char) : skipTrail ('.' :: '/' :: r) = skipTrail r := by
  conv => lhs; unfold skipTrail
  simp

theorem skipTrail_normal (name rest : List Char) (hn : Normal name) :
    skipTrail (name.reverse ++ rest) = name.reverse ++ rest := by
  obtain ⟨hne, hslash, hdot, _⟩ := hn
  cases hrev : name.reverse with
  | nil => simp at hrev; exact absurd hrev hne
  | cons c r =>
    have hmem : ∀ x ∈ c :: r, x ≠ '/' := by
      intro x hx h
      apply hslash
      have : x ∈ name.reverse := by rw [hrev]; exact hx
      rw [← h]; simpa using this
    have hc : c ≠ '/' := hmem c (by simp)
    simp only [List.cons_append]
    unfold skipTrail
    simp only [hc, ↓reduceIte]
    by_cases hd : c = '.'
    · simp only [hd, ↓reduceIte]
      cases r with
      | nil =>
        exfalso; apply hdot
        have := congrArg List.reverse hrev
        simpa [hd] using this
      | cons d r' =>
        have : d ≠ '/' := hmem d (by simp)
        simp [this]
    · simp [hd]

theorem lastComponentRev_normal (pre name : List Char) (hp : DirPrefix pre) (hn : Normal name) :
    lastComponentRev (pre ++ name) = (name.reverse, pre.reverse) := by
  have hhead : ∀ x, pre.reverse.head? = some x → x = '/' := by
    intro x hx
    rw [List.head?_reverse] at hx
    cases hp with
    | inl h => rw [h] at hx; cases hx
    | inr h => rw [h] at hx; cases hx; rfl
  unfold lastComponentRev
  simp only [List.reverse_append]
  rw [skipTrail_normal name pre.reverse hn]
  have hall : ∀ c ∈ name.reverse, (fun x : Char => decide (x ≠ '/')) c = true := by
    intro c hc
    have : c ∈ name := by simpa using hc
    have : c ≠ '/' := fun h => hn.2.1 (h ▸ this)
    simpa using this
  have hstop : ∀ x, pre.reverse.head? = some x → (fun x : Char => decide (x ≠ '/')) x = false := by
    intro x hx; simp [hhead x hx]
  have := takeWhile_append_stop _ name.reverse pre.reverse hall hstop
  rw [this.1, this.2]

theorem fileName_normal (pre name : List Char) (hp : DirPrefix pre) (hn : Normal name) :
    fileName (pre ++ name) = some name := by
  unfold fileName
  rw [lastComponentRev_normal pre name hp hn]
  simp [hn.1, hn.2.2.1, hn.2.2.2]

theorem pathJoin_dirSlash (d name : List Char) : pathJoin d name = dirSlash d ++ name ∧ DirPrefix (dirSlash d) := by
  unfold pathJoin dirSlash DirPrefix
  cases h : d.getLast? with
  | none => simp
  | some c =>
    by_cases hc : c = '/'
    · simp [hc, h]
    · simp [hc]

/-- **the stem**: a name without a dot, or whose only dot is the first character, is its own stem;
otherwise the stem is what precedes the **last** dot (`a.b.graphql` ↦ `a.b`, `q.` ↦ `q`, `..graphql` ↦ `.`). -/
theorem stem_spec (n : List Char) (hn : n ≠ ['.', '.']) :
    ('.' ∉ n → fileStem n = n) ∧
    (∀ before after, n = before ++ '.' :: after → '.' ∉ after →
        fileStem n = if before = [] then n else before) := by
  constructor
  · intro h; simp [fileStem, hn, h]
  · intro before after heq hafter
    have hmem : '.' ∈ n := by rw [heq]; simp
    unfold fileStem
    simp only [hn, ↓reduceIte, hmem]
    have hrev : n.reverse = after.reverse ++ ('.' :: before.reverse) := by rw [heq]; simp
    have hall : ∀ c ∈ after.reverse, (fun x : Char => decide (x ≠ '.')) c = true := by
      intro c hc
      have : c ∈ after := by simpa using hc
      have : c ≠ '.' := fun h => hafter (h ▸ this)
      simpa using this
    have := (takeWhile_append_stop _ after.reverse ('.' :: before.reverse) hall (by simp)).2
    rw [hrev, this]
    simp

example : fileStem "a.b.graphql".toList = "a.b".toList := by decide +kernel
example : fileStem ".graphql".toList = ".graphql".toList := by decide +kernel
example : fileStem "noext".toList = "noext".toList := by decide +kernel
example : fileStem "q.".toList = "q".toList := by decide +kernel
example : fileStem "..graphql".toList = ".".toList := by decide +kernel

/-- every split of a name at a dot that is followed by no further dot is the split at the last dot:
the two clauses of `stem_spec` cover every name -/
theorem exists_last_dot (n : List Char) (h : '.' ∈ n) :
    ∃ before after, n = before ++ '.' :: after ∧ '.' ∉ after := by
  induction n with
  | nil => cases h
  | cons c cs ih =>
    by_cases hcs : '.' ∈ cs
    · obtain ⟨b, a, heq, ha⟩ := ih hcs
      exact ⟨c :: b, a, by simp [heq], ha⟩
    · have hc : c = '.' := by
        cases h with
        | head => rfl
        | tail _ h' => exact absurd h' hcs
      exact ⟨[], cs, by simp [hc], hcs⟩

theorem parentOf_normal (pre name : List Char) (hp : DirPrefix pre) (hn : Normal name) :
    parentOf (pre ++ name) =
      if skipTrail pre.reverse = [] ∧ pre.reverse.getLast? = some '/' then ['/'] else (skipTrail pre.reverse).reverse := by
  unfold parentOf
  rw [lastComponentRev_normal pre name hp hn]

/-- **destination path.**  For every query path `pre ++ name` (`name` a normal file name, `pre` empty
or ending in `/`): the query's file name is `name`; the code goes to the file `stem(name).rs` inside
the query file's parent directory, or inside `d` with `-o d`. -/
theorem dest_path (pre name : List Char) (hp : DirPrefix pre) (hn : Normal name) :
    fileName (pre ++ name) = some name ∧
    destPath none (pre ++ name) = some (dirSlash (parentOf (pre ++ name)) ++ fileStem name ++ rsExt) ∧
    ∀ d, destPath (some d) (pre ++ name) = some (dirSlash d ++ fileStem name ++ rsExt) := by
  refine ⟨fileName_normal pre name hp hn, ?_, ?_⟩
  · unfold destPath withFileName
    rw [fileName_normal pre name hp hn]
    simp only []
    rw [(pathJoin_dirSlash _ _).1, List.append_assoc]
  · intro d
    unfold destPath
    rw [fileName_normal pre name hp hn]
    simp only []
    rw [(pathJoin_dirSlash _ _).1, List.append_assoc]

/-- **beside the query file**, as strings: `name` ↦ `stem.rs`, `/name` ↦ `/stem.rs`,
`dir/name` ↦ `dir/stem.rs` for every directory text `dir` that does not end in `/` or `/.` -/
theorem dest_path_beside (name : List Char) (hn : Normal name) :
    destPath none name = some (fileStem name ++ rsExt) ∧
    destPath none ('/' :: name) = some ('/' :: (fileStem name ++ rsExt)) ∧
    ∀ dir, CleanDir dir → destPath none (dir ++ '/' :: name) = some (dir ++ '/' :: (fileStem name ++ rsExt)) := by
  refine ⟨?_, ?_, ?_⟩
  · have h := (dest_path [] name (Or.inl rfl) hn).2.1
    have hpar := parentOf_normal [] name (Or.inl rfl) hn
    simp only [List.nil_append] at h hpar
    rw [h, hpar]
    simp [skipTrail, dirSlash]
  · have hp : DirPrefix ['/'] := Or.inr rfl
    have h := (dest_path ['/'] name hp hn).2.1
    have hpar := parentOf_normal ['/'] name hp hn
    simp only [List.cons_append, List.nil_append] at h hpar
    rw [h, hpar]
    simp [skipTrail_slash, skipTrail, dirSlash]
  · intro dir ⟨hne, hlast, hclean⟩
    have hp : DirPrefix (dir ++ ['/']) := Or.inr (by simp)
    have h := (dest_path (dir ++ ['/']) name hp hn).2.1
    have hpar := parentOf_normal (dir ++ ['/']) name hp hn
    simp only [List.append_assoc, List.cons_append, List.nil_append] at h hpar
    rw [h, hpar]
    simp only [List.reverse_append, List.reverse_cons, List.reverse_nil, List.nil_append, List.cons_append,
      skipTrail_slash, hclean]
    have hrne : dir.reverse ≠ [] := by simpa using hne
    simp only [hrne, false_and, ↓reduceIte, List.reverse_reverse]
    unfold dirSlash
    cases hl : dir.getLast? with
    | none => simp at hl; exact absurd hl hne
    | some c =>
      have hc : c ≠ '/' := fun hcs => hlast (by rw [hl, hcs])
      simp [hc]

example : Normal "a.b.graphql".toList := by unfold Normal; decide +kernel
example : DirPrefix "q/sub/".toList := by unfold DirPrefix; decide +kernel
example : CleanDir "./q/sub dir".toList := by unfold CleanDir; decide +kernel
example : destPath (some "out".toList) "q/a.b.graphql".toList = some "out/a.b.rs".toList := by decide +kernel
example : destPath none "q/.graphql".toList = some "q/.graphql.rs".toList := by decide +kernel
example : destPath none "q//..graphql".toList = some "q/..rs".toList := by decide +kernel

/-- without a file name (``""``, `/`, `.`, a path ending in `..`) there is no destination -/
theorem dest_path_none (d : Option (List Char)) (q : List Char) : destPath d q = none ↔ fileName q = none := by
  unfold destPath
  cases fileName q with
  | none => simp
  | some n => cases d <;> simp

/-- what `Path` ignores at the end of a path: any sequence of `/` and `/.` -/
inductive Trail : List Char → Prop where
  | nil : Trail []
  | slash {t} : Trail t → Trail (t ++ ['/'])
  | slashDot {t} : Trail t → Trail (t ++ ['/', '.'])

/-- trailing separators and `.` components change neither the file name nor the destination -/
theorem dest_path_trailing (p t : List Char) (ht : Trail t) :
    fileName (p ++ t) = fileName p ∧ ∀ d, destPath d (p ++ t) = destPath d p := by
  have hskip : skipTrail (p ++ t).reverse = skipTrail p.reverse := by
    induction ht with
    | nil => simp
    | slash _ ih =>
      rw [← List.append_assoc, List.reverse_append]
      simp only [List.reverse_cons, List.reverse_nil, List.nil_append, List.cons_append]
      rw [skipTrail_slash]; exact ih
    | slashDot _ ih =>
      rw [← List.append_assoc, List.reverse_append]
      simp only [List.reverse_cons, List.reverse_nil, List.nil_append, List.cons_append]
      rw [skipTrail_dotSlash]; exact ih
  have hlc : lastComponentRev (p ++ t) = lastComponentRev p := by
    unfold lastComponentRev; rw [hskip]
  have hfn : fileName (p ++ t) = fileName p := by unfold fileName; rw [hlc]
  refine ⟨hfn, ?_⟩
  intro d
  unfold destPath withFileName parentOf
  rw [hfn, hlc]

example : Trail "/.//".toList :=
  Trail.slash (t := "/./".toList) (Trail.slash (t := "/.".toList) (Trail.slashDot (t := []) Trail.nil))

theorem mem_fileStem (n : List Char) (c : Char) (h : c ∈ fileStem n) : c ∈ n := by
  unfold fileStem at h
  split at h
  · exact h
  · split at h
    · simp only [] at h
      split at h
      · exact h
      · have h1 : c ∈ (n.reverse.dropWhile (· ≠ '.')).drop 1 := by simpa using h
        have h2 := List.mem_of_mem_drop h1
        have h3 := (List.dropWhile_sublist (fun x : Char => decide (x ≠ '.'))).subset h2
        simpa using h3
    · exact h

/-- the file that is written is itself named `<stem>.rs` (round trip through `file_name`) -/
theorem dest_file_name (pre name : List Char) (hp : DirPrefix pre) (hn : Normal name) (d : Option (List Char)) :
    ∃ p, destPath d (pre ++ name) = some p ∧ fileName p = some (fileStem name ++ rsExt) := by
  have hn' : Normal (fileStem name ++ rsExt) := by
    refine ⟨by simp [rsExt], ?_, ?_, ?_⟩
    · intro h
      simp only [List.mem_append] at h
      cases h with
      | inl h => exact hn.2.1 (mem_fileStem _ _ h)
      | inr h => simp [rsExt] at h
    · intro h; have := congrArg List.length h; simp [rsExt] at this
    · intro h; have := congrArg List.length h; simp [rsExt] at this
  obtain ⟨_, h1, h2⟩ := dest_path pre name hp hn
  cases d with
  | none => exact ⟨_, h1, by rw [List.append_assoc]; exact fileName_normal _ _ (pathJoin_dirSlash _ name).2 hn'⟩
  | some dir =>
    exact ⟨_, h2 dir, by rw [List.append_assoc]; exact fileName_normal _ _ (pathJoin_dirSlash dir name).2 hn'⟩

/-! ### for the record: the former rule, `Path::with_extension("rs")`

Until the repair `generate derives the output file name from the query file's stem` the destination
was `query_path.with_extension("rs")` (resp. `dir.join(name).with_extension("rs")`).  std implements
`with_extension` by copying the path *without the bytes of the old extension* (the dot stays) and
then calling `set_extension`; for a file name `..ext` the copy is `..`, which has no file name, and
the result is the directory `..`.  The harness stream `dotdot-name` replays these names on the binary. -/

def extensionOf (n : List Char) : Option (List Char) :=
  if n = ['.', '.'] then none
  else if '.' ∈ n then
    let before := ((n.reverse.dropWhile (· ≠ '.')).drop 1).reverse
    if before = [] then none else some (n.reverse.takeWhile (· ≠ '.')).reverse
  else none

def setExtensionRs (p : List Char) : List Char :=
  match fileName p with
  | none => p
  | some n => (lastComponentRev p).2.reverse ++ fileStem n ++ rsExt

def withExtensionRs (p : List Char) : List Char :=
  match (fileName p).bind extensionOf with
  | none => setExtensionRs p
  | some ext => setExtensionRs (p.take (p.length - ext.length))

/-- the former rule sent `q/..graphql` to the directory `q/..`; the present one to `q/..rs`;
on ordinary names the two agree -/
theorem old_with_extension_quirk :
    withExtensionRs ['q', '/', '.', '.', 'g', 'r', 'a', 'p', 'h', 'q', 'l'] = ['q', '/', '.', '.'] ∧
    destPath none ['q', '/', '.', '.', 'g', 'r', 'a', 'p', 'h', 'q', 'l'] = some ['q', '/', '.', '.', 'r', 's'] ∧
    withExtensionRs ['q', '/', 'a', '.', 'b', '.', 'g', 'q', 'l'] = ['q', '/', 'a', '.', 'b', '.', 'r', 's'] ∧
    destPath none ['q', '/', 'a', '.', 'b', '.', 'g', 'q', 'l'] = some ['q', '/', 'a', '.', 'b', '.', 'r', 's'] := by
  decide +kernel

/-! ## what is written, and when nothing is -/

/-- **the file is the header line, a newline, and the library's tokens** — verbatim with
`--no-formatting`, through rustfmt otherwise — written to the destination and nowhere else. -/
theorem output_is_header_then_lib (env : GenEnv) (f : GenFlags) (fs : Fs) (o : Options) (t : String)
    (dest : List Char)
    (ho : cliOptions env.synPathOk f = .ok o) (hl : env.lib o = .tokens t)
    (hd : destPath (f.outputDirectory.map String.toList) f.queryPath.toList = some dest)
    (hc : env.creatable (String.ofList dest) = true) :
    (f.noFormatting = true →
      generateCode env f fs = (.success, fs.write (String.ofList dest) (Gen.warningSuppression ++ "\n" ++ t))) ∧
    (f.noFormatting = false → ∀ out, env.rustfmt (Gen.warningSuppression ++ "\n" ++ t) = some out →
      generateCode env f fs = (.success, fs.write (String.ofList dest) out)) ∧
    (∀ q, q ≠ String.ofList dest → (generateCode env f fs).2 q = fs q) := by
  refine ⟨?_, ?_, ?_⟩
  · intro hnf
    simp [generateCode, ho, hl, hd, hc, hnf, generatedCode]
  · intro hnf out hout
    simp [generateCode, ho, hl, hd, hc, hnf, generatedCode, hout]
  · intro q hq
    unfold generateCode
    simp only [ho, hl, hd, hc]
    split
    · rfl
    · simp [Fs.write, hq]

/-- **no success ⇒ no file**: in every run that does not end with exit status 0 — generation error,
library panic, rustfmt failure, refused flag value, no file name, destination not creatable — the file
system is exactly what it was. -/
theorem gen_error_no_file (env : GenEnv) (f : GenFlags) (fs : Fs) :
    (generateCode env f fs).1 ≠ .success →
      (generateCode env f fs).2 = fs ∧ (generateCode env f fs).1.code ≠ 0 := by
  intro h
  constructor
  · have key : (generateCode env f fs).2 = fs ∨ (generateCode env f fs).1 = .success := by
      unfold generateCode
      cases cliOptions env.synPathOk f with
      | error e => exact Or.inl rfl
      | ok o =>
        simp only []
        cases env.lib o with
        | err m => exact Or.inl rfl
        | panic m => exact Or.inl rfl
        | tokens t =>
          simp only []
          cases (if f.noFormatting = true then some (generatedCode t) else env.rustfmt (generatedCode t)) with
          | none => exact Or.inl rfl
          | some text =>
            simp only []
            cases destPath (Option.map String.toList f.outputDirectory) f.queryPath.toList with
            | none => exact Or.inl rfl
            | some dest =>
              simp only []
              by_cases hc : env.creatable (String.ofList dest) = true
              · rw [if_pos hc]; exact Or.inr rfl
              · rw [if_neg hc]; exact Or.inl rfl
    cases key with
    | inl k => exact k
    | inr k => exact absurd k h
  · cases hx : (generateCode env f fs).1 with
    | success => exact absurd hx h
    | _ => simp [Exit.code]

/-- a generation error is reported as such, before any file is created -/
theorem gen_error_reported (env : GenEnv) (f : GenFlags) (fs : Fs) (o : Options) (m : String)
    (ho : cliOptions env.synPathOk f = .ok o) (hl : env.lib o = .err m) :
    generateCode env f fs = (.failure ("Error generating module code: " ++ m), fs) := by
  simp [generateCode, ho, hl]

end C19
end GqlVerif
