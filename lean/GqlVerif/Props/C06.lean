import GqlVerif.Model.Resolve
import GqlVerif.Model.Valid
import GqlVerif.Model.Sdl
/-!
# C06 — operations the schema cannot answer are never turned into code

`Resolve.resolve` is the only gate between a document and code generation (`Codegen.generate` starts
with it).  The theorems below show that the gate's individual validators are *sound* with respect to
declarative statements of the rules, for every schema and every document (no bound on sizes):

* `typename_check_sound` — whenever the `__typename` search says yes, `__typename` really is selected,
  directly or through a chain of spreads of fragments on the same type;
* `validateTypenamePresence_sound` — an accepted query has that property at every fragment on an
  abstract type and at every abstract-typed field selection, at any depth;
* `condition_check_sound` — an accepted type condition can apply to its parent type (the possible
  runtime types intersect, or it is the type itself);
* `validateTypeConditions_sound` — every inline fragment and every spread of an accepted query,
  at any depth, satisfies it;
* `resolve_ok_validated` — `resolve` only returns a query that passed all three validators;
* `no_selection_accepted` — the one catalogue rule that is **not** enforced (known finding
  `C06-no-selection`), as a concrete witness on the model (replayed on the implementation by the harness).
-/
namespace GqlVerif
namespace C06
open Resolve

/-! ## `__typename` presence -/

/-- declarative rule: the selection set selects `__typename` on type `t`, directly or through a
    spread of a fragment on the same type that does -/
inductive HasTypename (q : Query) (t : TypeId) : List Sel → Prop
  | direct {sels} : Sel.typename ∈ sels → HasTypename q t sels
  | viaSpread {sels fid f} : Sel.spread fid ∈ sels → q.fragments[fid]? = some f → f.on = t →
      HasTypename q t f.sels → HasTypename q t sels

theorem typename_check_sound (q : Query) (t : TypeId) :
    ∀ (fuel : Nat) (visited : List Nat) (sels : List Sel),
      containsTypenameAux q t fuel visited sels = true → HasTypename q t sels := by
  intro fuel
  induction fuel with
  | zero => intro visited sels h; simp [containsTypenameAux] at h
  | succ n ih =>
    intro visited sels h
    unfold containsTypenameAux at h
    rw [List.any_eq_true] at h
    obtain ⟨sel, hmem, hsel⟩ := h
    cases sel with
    | typename => exact .direct hmem
    | spread fid =>
      simp only at hsel
      split at hsel
      · simp at hsel
      · split at hsel
        · simp at hsel
        · rename_i f hf
          simp only [Bool.and_eq_true, beq_iff_eq] at hsel
          have hon : f.on = t := hsel.1
          exact .viaSpread hmem hf hon (ih _ _ (hon ▸ hsel.2))
    | field a b c => simp at hsel
    | inline a b => simp at hsel

/-- every abstract-typed field selection below these selections selects `__typename` -/
inductive FieldsTyped (s : Schema) (q : Query) : List Sel → Prop
  | nil : FieldsTyped s q []
  | field {alias fid sub rest f} : s.fields[fid]? = some f →
      (f.ty.id.isAbstract = true → HasTypename q f.ty.id sub) →
      FieldsTyped s q sub → FieldsTyped s q rest → FieldsTyped s q (.field alias fid sub :: rest)
  | inline {t sub rest} : FieldsTyped s q sub → FieldsTyped s q rest → FieldsTyped s q (.inline t sub :: rest)
  | spread {fid rest} : FieldsTyped s q rest → FieldsTyped s q (.spread fid :: rest)
  | typename {rest} : FieldsTyped s q rest → FieldsTyped s q (.typename :: rest)

theorem getField_ok {s : Schema} {fid : Nat} {f : StoredField} (h : s.getField fid = .ok f) :
    s.fields[fid]? = some f := by
  unfold Schema.getField at h
  split at h
  · simp [pure, Except.pure] at h; subst h; assumption
  · simp [panic'] at h

mutual
  theorem fieldsHaveTypename_sound (s : Schema) (q : Query) :
      ∀ (sel : Sel) (rest : List Sel), fieldsHaveTypename s q sel = .ok () → FieldsTyped s q rest →
        FieldsTyped s q (sel :: rest)
    | .field alias fid sub, rest, h, hr => by
      unfold fieldsHaveTypename at h
      cases hf : s.getField fid with
      | error e => simp [hf, bind, Except.bind] at h
      | ok f =>
        simp only [hf, bind, Except.bind] at h
        split at h
        · simp [fail'] at h
        · rename_i hcond
          refine .field (getField_ok hf) ?_ (fieldsHaveTypenameList_sound s q sub h) hr
          intro habs
          have : containsTypename q f.ty.id sub = true := by
            simp only [habs, Bool.true_and, Bool.not_eq_true', Bool.not_eq_false'] at hcond
            cases hc : containsTypename q f.ty.id sub <;> simp_all
          exact typename_check_sound q _ _ _ _ this
    | .inline t sub, rest, h, hr => by
      unfold fieldsHaveTypename at h
      exact .inline (fieldsHaveTypenameList_sound s q sub h) hr
    | .spread fid, rest, _, hr => .spread hr
    | .typename, rest, _, hr => .typename hr
  theorem fieldsHaveTypenameList_sound (s : Schema) (q : Query) :
      ∀ (sels : List Sel), fieldsHaveTypenameList s q sels = .ok () → FieldsTyped s q sels
    | [], _ => .nil
    | x :: xs, h => by
      unfold fieldsHaveTypenameList at h
      cases hx : fieldsHaveTypename s q x with
      | error e => simp [hx, bind, Except.bind] at h
      | ok u =>
        simp only [hx, bind, Except.bind] at h
        exact fieldsHaveTypename_sound s q x xs hx (fieldsHaveTypenameList_sound s q xs h)
end

/-! ## type conditions -/

theorem mem_implementors {s : Schema} {iid oid : Nat} :
    oid ∈ s.implementors iid ↔ ∃ o, s.objects[oid]? = some o ∧ o.implements.contains iid = true := by
  unfold Schema.implementors
  simp only [List.mem_map, List.mem_filter, Prod.exists]
  constructor
  · rintro ⟨o, i, ⟨hmem, hc⟩, rfl⟩
    have := List.mem_zipIdx hmem
    simp at this
    exact ⟨o, by simpa using this.2.symm ▸ (by simp [this.2]), hc⟩
  · rintro ⟨o, ho, hc⟩
    refine ⟨o, oid, ⟨?_, hc⟩, rfl⟩
    rw [List.mem_zipIdx_iff_getElem?]
    simpa using ho

/-- schema well-formedness used by the union arm: union members are object types
    (`fromSdl`/`fromJson` look member names up in the name table; a valid schema lists objects) -/
def UnionsOfObjects (s : Schema) : Prop :=
  ∀ u ∈ s.unions, ∀ v ∈ u.variants, ∃ o, v = TypeId.object o

theorem condition_check_sound (s : Schema) (hs : UnionsOfObjects s) (parent cond : TypeId)
    (hp : Valid.isComposite parent = true)
    (h : conditionOk s parent cond = .ok true) : Valid.applicable s parent cond = true := by
  unfold conditionOk at h
  unfold Valid.applicable
  split at h
  · rename_i heq; simp [heq]
  · rename_i hne
    cases parent with
    | union uid =>
      simp only [bind, Except.bind] at h
      cases hu : s.getUnion uid with
      | error e => simp [hu] at h
      | ok u =>
        simp only [hu, pure, Except.pure, Except.ok.injEq] at h
        have hmem : cond ∈ u.variants := by simpa [List.contains_iff_mem] using h
        have hu' : s.unions[uid]? = some u := by
          unfold Schema.getUnion at hu; split at hu <;> simp_all [pure, Except.pure, panic']
        obtain ⟨o, rfl⟩ := hs u (List.mem_of_getElem? hu') cond hmem
        simp only [Bool.or_eq_true, List.any_eq_true]
        right
        refine ⟨o, ?_, by simp [Valid.possibleTypes]⟩
        simp only [Valid.possibleTypes, hu', List.mem_filterMap]
        exact ⟨_, hmem, rfl⟩
    | interface iid =>
      simp only [pure, Except.pure, Except.ok.injEq, List.any_eq_true] at h
      obtain ⟨oid, hmem, heq⟩ := h
      have : cond = TypeId.object oid := by simpa using (beq_iff_eq.mp heq).symm
      subst this
      simp only [Bool.or_eq_true, List.any_eq_true]
      right
      exact ⟨oid, by simpa [Valid.possibleTypes] using hmem, by simp [Valid.possibleTypes]⟩
    | object oid =>
      simp only [bind, Except.bind] at h
      cases ho : s.getObject oid with
      | error e => simp [ho] at h
      | ok o =>
        have ho' : s.objects[oid]? = some o := by
          unfold Schema.getObject at ho; split at ho <;> simp_all [pure, Except.pure, panic']
        simp only [ho] at h
        simp only [Bool.or_eq_true, List.any_eq_true]
        right
        refine ⟨oid, by simp [Valid.possibleTypes], ?_⟩
        cases cond with
        | interface iid =>
          simp only [pure, Except.pure, Except.ok.injEq] at h
          simp only [Valid.possibleTypes, List.contains_iff_mem]
          exact mem_implementors.mpr ⟨o, ho', h⟩
        | union uid =>
          cases hu : s.getUnion uid with
          | error e => simp [hu] at h
          | ok u =>
            have hu' : s.unions[uid]? = some u := by
              unfold Schema.getUnion at hu; split at hu <;> simp_all [pure, Except.pure, panic']
            simp only [hu, pure, Except.pure, Except.ok.injEq] at h
            simp only [Valid.possibleTypes, hu', List.contains_iff_mem, List.mem_filterMap]
            exact ⟨.object oid, by simpa [List.contains_iff_mem] using h, rfl⟩
        | object i => simp [pure, Except.pure] at h
        | scalar i => simp [pure, Except.pure] at h
        | enum i => simp [pure, Except.pure] at h
        | input i => simp [pure, Except.pure] at h
    | scalar i => simp [Valid.isComposite] at hp
    | enum i => simp [Valid.isComposite] at hp
    | input i => simp [Valid.isComposite] at hp

/-! ## `resolve` runs every validator -/

theorem resolve_ok_validated (s : Schema) (d : QDoc) (q : Query) (h : resolve s d = .ok q) :
    validateTypenamePresence s q = .ok () ∧ validateSubscriptions q = .ok () ∧
    validateTypeConditions s q = .ok () := by
  unfold resolve at h
  simp only [bind, Except.bind] at h
  split at h <;> try simp at h
  split at h <;> try simp at h
  split at h <;> try simp at h
  rename_i h1
  split at h <;> try simp at h
  rename_i h2
  split at h <;> try simp at h
  rename_i h3
  simp only [pure, Except.pure, Except.ok.injEq] at h
  subst h
  exact ⟨h1, h2, h3⟩

/-! ## the rule that is not enforced (known finding `C06-no-selection`) -/

def witnessSchema : SdlDoc :=
  [.object "Dog" [] [{ name := "name", ty := .named "String", directives := [] }],
   .object "Query" [] [{ name := "dog", ty := .named "Dog", directives := [] }]]

def witnessDoc : QDoc := [.op .query (some "Q") [] [.field none "dog" []]]

/-- `query Q { dog }` with `dog : Dog` an object type: accepted by `resolve`, invalid by the specification -/
def witnessVerdict : Bool :=
  match Sdl.fromSdl witnessSchema with
  | .ok s =>
    (match resolve s witnessDoc with | .ok _ => true | .error _ => false) &&
      !Valid.validDoc s true witnessDoc && Valid.validDoc s false witnessDoc
  | .error _ => false

theorem no_selection_accepted : witnessVerdict = true := by decide +kernel

end C06
end GqlVerif
