import GqlVerif.Model.Sdl
import GqlVerif.Model.Intro
import GqlVerif.Model.Codegen
/-! Decoders for the harness's request language. -/
namespace GqlVerif
namespace Decode
open Sexp

def optStr : Sexp → Option (Option String)
  | .list [] => some none
  | .list [.str s] => some (some s)
  | _ => none

def strList : Sexp → Option (List String)
  | .list xs => xs.mapM fun | .str s => some s | _ => none
  | _ => none

partial def gty : Sexp → Option GTy
  | .list [.atom "named", .str n] => some (.named n)
  | .list [.atom "list", t] => (gty t).map GTy.list
  | .list [.atom "nonnull", t] => (gty t).map GTy.nonNull
  | _ => none

def directive : Sexp → Option Directive
  | .list [.atom "dir", .str n, .list args] => do
    let args ← args.mapM fun
      | .list [.str k, .list [.atom "s", .str v]] => some (k, DirVal.str v)
      | .list [.str k, .list [.atom "other"]] => some (k, DirVal.other)
      | _ => none
    pure { name := n, args := args }
  | _ => none

def sdlField : Sexp → Option SdlField
  | .list [.atom "field", .str n, t, .list ds] => do
    pure { name := n, ty := ← gty t, directives := ← ds.mapM directive }
  | _ => none

def sdlDef : Sexp → Option SdlDef
  | .list [.atom "schemadef", q, m, s] => do pure (.schemaDef (← optStr q) (← optStr m) (← optStr s))
  | .list [.atom "scalar", .str n] => some (.scalar n)
  | .list [.atom "enum", .str n, vs] => do pure (.enum n (← strList vs))
  | .list [.atom "union", .str n, ts] => do pure (.union n (← strList ts))
  | .list [.atom "interface", .str n, .list fs] => do pure (.interface n (← fs.mapM sdlField))
  | .list [.atom "object", .str n, impls, .list fs] => do pure (.object n (← strList impls) (← fs.mapM sdlField))
  | .list [.atom "extobject", .str n, impls, .list fs] => do pure (.extObject n (← strList impls) (← fs.mapM sdlField))
  | .list [.atom "input", .str n, dirs, .list fs] => do
    let fs ← fs.mapM fun | .list [.str fname, t] => (gty t).map (fun t => (fname, t)) | _ => none
    pure (.input n (← strList dirs) fs)
  | .list [.atom "other"] => some .other
  | _ => none

def sdlDoc : Sexp → Option SdlDoc
  | .list (.atom "sdl" :: defs) => defs.mapM sdlDef
  | _ => none

mutual
  partial def value : Sexp → Option Value
    | .list [.atom "var", .str n] => some (.var n)
    | .list [.atom "int", n] => n.asInt?.map .int
    | .list [.atom "float", .str t] => some (.float t)
    | .list [.atom "str", .str s] => some (.str s)
    | .list [.atom "bool", b] => b.asBool?.map .bool
    | .list [.atom "null"] => some .null
    | .list [.atom "enum", .str e] => some (.enum e)
    | .list (.atom "list" :: xs) => (xs.mapM value).map Value.list
    | .list (.atom "obj" :: kvs) =>
      (kvs.mapM (fun (x : Sexp) => match x with
        | Sexp.list [Sexp.str k, v] => (value v).map (fun v => (k, v))
        | _ => none)).map Value.obj
    | _ => none
end

mutual
  partial def qsel : Sexp → Option QSel
    | .list [.atom "field", al, .str n, .list sub] => do pure (.field (← optStr al) n (← sub.mapM qsel))
    | .list [.atom "spread", .str n] => some (.spread n)
    | .list [.atom "inline", on, .list sub] => do pure (.inline (← optStr on) (← sub.mapM qsel))
    | _ => none
end

def varDef : Sexp → Option VarDef
  | .list [.atom "var", .str n, t, d] => do
    let dv ← match d with
      | .list [] => some none
      | .list [v] => (value v).map some
      | _ => none
    pure { name := n, ty := ← gty t, default := dv }
  | _ => none

def opKind : Sexp → Option OpKind
  | .atom "query" => some .query
  | .atom "mutation" => some .mutation
  | .atom "subscription" => some .subscription
  | _ => none

def qdef : Sexp → Option QDef
  | .list [.atom "frag", .str n, .str on, .list sels] => do pure (.frag n on (← sels.mapM qsel))
  | .list [.atom "selset", .list sels] => do pure (.selset (← sels.mapM qsel))
  | .list [.atom "op", k, name, .list vars, .list sels] => do
    pure (.op (← opKind k) (← optStr name) (← vars.mapM varDef) (← sels.mapM qsel))
  | _ => none

def qdoc : Sexp → Option QDoc
  | .list (.atom "qdoc" :: defs) => defs.mapM qdef
  | _ => none

/-- `(cases ((in snake camel) ...))`; a name missing from the table maps to a marker the harness rejects -/
def caseFns : Sexp → Option CaseFns
  | .list [.atom "cases", .list rows] => do
    let rows ← rows.mapM fun
      | .list [.str i, .str s, .str c] => some (i, s, c)
      | _ => none
    let find (pick : String × String × String → String) (x : String) : String :=
      match rows.find? (·.1 == x) with
      | some r => pick r
      | none => "‹missing-case:" ++ x ++ "›"
    pure { snake := find (·.2.1), camel := find (·.2.2) }
  | _ => none

def options : Sexp → Option Options
  | .list [.atom "opts", mode, opn, sid, norm, dep, other, skip, rd, vd, sm, ee, .str sp, .str vis, qf] => do
    let mode ← match mode with | .atom "cli" => some Mode.cli | .atom "derive" => some Mode.derive | _ => none
    let norm ← match norm with | .atom "none" => some Normalization.none | .atom "rust" => some Normalization.rust | _ => none
    let dep ← match dep with
      | .atom "allow" => some DepStrategy.allow | .atom "deny" => some DepStrategy.deny
      | .atom "warn" => some DepStrategy.warn | _ => none
    pure { mode := mode, operationName := ← optStr opn, structIdent := ← optStr sid, normalization := norm,
           deprecation := dep, otherVariant := ← other.asBool?, skipNone := ← skip.asBool?,
           responseDerives := ← optStr rd, variablesDerives := ← optStr vd, scalarsModule := ← optStr sm,
           externEnums := ← strList ee, serdePath := sp, visibility := vis, queryFile := ← optStr qf }
  | _ => none

/-- schema source: `(sdl ...)` or `(json <Json>)` -/
def schemaSrc (x : Sexp) : Option (Outcome Schema) :=
  match x with
  | .list (.atom "sdl" :: _) => (sdlDoc x).map Sdl.fromSdl
  | .list [.atom "json", j] => (Json.ofSexp j).map (Intro.fromJson true)
  | _ => none

end Decode
end GqlVerif
