import GqlVerif.Driver.Loop
import GqlVerif.Model.EnvelopeSpec
/-!
Model driver of C15.  Requests (`<Json>` is `GqlVerif.Json.toSexp` syntax, `<Dump>` is the value dump below):

  (de-response <Json>)        → (ok <Dump of Response>) | (err)
  (de-error <Json>)           → (ok <Dump of Error>) | (err)
  (ser-response <Dump>)       → (ok <Json>)
  (ser-error <Dump>)          → (ok <Json>)
  (wf-response <Dump>)        → (true) | (false)          -- hypothesis of the round-trip theorems
  (display-error <Dump>)      → (ok "text")
  (querybody <Json> "q" "op") → (ok <Json>)
  (spec-body <Json>)          → (true) | (false)          -- the grammar `Spec.specBody`

Value dump (a JSON encoding that is *not* the serde one, so that `None` and absent cannot be confused):
`Option` = `[]` / `[x]`; `Location` = `{"line","column"}`; `PathFragment` = `{"key": s}` / `{"index": n}`;
maps = the object itself; `Error` / `Response` = objects with all members.
-/
open GqlVerif GqlVerif.Envelope

namespace C15Driver

def dumpOpt (f : α → Json) : Option α → Json
  | none => .arr []
  | some a => .arr [f a]

def dumpLocation (l : Location) : Json := .obj [("line", .int l.line), ("column", .int l.column)]

def dumpFragment : PathFragment → Json
  | .key s => .obj [("key", .str s)]
  | .index n => .obj [("index", .int n)]

def dumpError (e : Error) : Json :=
  .obj [("message", .str e.message),
        ("locations", dumpOpt (fun ls => .arr (ls.map dumpLocation)) e.locations),
        ("path", dumpOpt (fun fs => .arr (fs.map dumpFragment)) e.path),
        ("extensions", dumpOpt .obj e.extensions)]

def dumpResponse (r : Response JMap) : Json :=
  .obj [("data", dumpOpt .obj r.data),
        ("errors", dumpOpt (fun es => .arr (es.map dumpError)) r.errors),
        ("extensions", dumpOpt .obj r.extensions)]

def undumpOpt (f : Json → Option α) : Json → Option (Option α)
  | .arr [] => some none
  | .arr [x] => (f x).map some
  | _ => none

def get (k : String) : Json → Option Json
  | .obj kvs => Json.lookup k kvs
  | _ => none

def undumpInt : Json → Option Int
  | .int n => some n
  | _ => none

def undumpStr : Json → Option String
  | .str s => some s
  | _ => none

def undumpList (f : Json → Option α) : Json → Option (List α)
  | .arr xs => xs.mapM f
  | _ => none

def undumpMap : Json → Option JMap
  | .obj m => some m
  | _ => none

def undumpLocation (j : Json) : Option Location := do
  pure { line := ← (get "line" j) >>= undumpInt, column := ← (get "column" j) >>= undumpInt }

def undumpFragment (j : Json) : Option PathFragment :=
  match get "key" j, get "index" j with
  | some (.str s), none => some (.key s)
  | none, some (.int n) => some (.index n)
  | _, _ => none

def undumpError (j : Json) : Option Error := do
  pure { message := ← (get "message" j) >>= undumpStr,
         locations := ← (get "locations" j) >>= undumpOpt (undumpList undumpLocation),
         path := ← (get "path" j) >>= undumpOpt (undumpList undumpFragment),
         extensions := ← (get "extensions" j) >>= undumpOpt undumpMap }

def undumpResponse (j : Json) : Option (Response JMap) := do
  pure { data := ← (get "data" j) >>= undumpOpt undumpMap,
         errors := ← (get "errors" j) >>= undumpOpt (undumpList undumpError),
         extensions := ← (get "extensions" j) >>= undumpOpt undumpMap }

def ok (j : Json) : Sexp := .list [.atom "ok", j.toSexp]
def err : Sexp := .list [.atom "err"]
def bool (b : Bool) : Sexp := .list [Sexp.mkBool b]
def bad (msg : String) : Sexp := .list [.atom "bad-request", .str msg]

def handle (req : Sexp) : Sexp :=
  match req with
  | .list [.atom "de-response", j] =>
    match Json.ofSexp j with
    | none => bad "json"
    | some j => match deResponseObj j with
      | some r => ok (dumpResponse r)
      | none => err
  | .list [.atom "de-error", j] =>
    match Json.ofSexp j with
    | none => bad "json"
    | some j => match deError j with
      | some e => ok (dumpError e)
      | none => err
  | .list [.atom "ser-response", d] =>
    match (Json.ofSexp d) >>= undumpResponse with
    | none => bad "dump"
    | some r => ok (serResponseObj r)
  | .list [.atom "ser-error", d] =>
    match (Json.ofSexp d) >>= undumpError with
    | none => bad "dump"
    | some e => ok (serError e)
  | .list [.atom "wf-response", d] =>
    match (Json.ofSexp d) >>= undumpResponse with
    | none => bad "dump"
    | some r => bool (r.wf distinctKeys)
  | .list [.atom "display-error", d] =>
    match (Json.ofSexp d) >>= undumpError with
    | none => bad "dump"
    | some e => .list [.atom "ok", .str e.display]
  | .list [.atom "querybody", v, .str q, .str op] =>
    match Json.ofSexp v with
    | none => bad "json"
    | some v => ok (serQueryBody { variables := v, query := q, operationName := op })
  | .list [.atom "spec-body", j] =>
    match Json.ofSexp j with
    | none => bad "json"
    | some j => bool (Spec.specBody j)
  | .list (.atom "echo" :: xs) => .list (.atom "echo" :: xs)
  | _ => bad "unknown request"

end C15Driver

def main : IO Unit := runLoop C15Driver.handle
