import GqlVerif.Model.Sexp
/-! The request loop shared by every model driver: one S-expression per line in, one per line out. -/
namespace GqlVerif

partial def runLoop (handle : Sexp → Sexp) : IO Unit := do
  let hin ← IO.getStdin
  let hout ← IO.getStdout
  let rec go : IO Unit := do
    let line ← hin.getLine
    if line.isEmpty then return ()
    match Sexp.parse line with
    | some req => hout.putStrLn (toString (handle req))
    | none => hout.putStrLn "(bad-request \"parse\")"
    hout.flush
    go
  go

/-- the same loop with driver state (e.g. loaded modules) -/
partial def runLoopS {σ : Type} (init : σ) (handle : σ → Sexp → σ × Sexp) : IO Unit := do
  let hin ← IO.getStdin
  let hout ← IO.getStdout
  let rec go (st : σ) : IO Unit := do
    let line ← hin.getLine
    if line.isEmpty then return ()
    match Sexp.parse line with
    | some req =>
      let (st', reply) := handle st req
      hout.putStrLn (toString reply)
      hout.flush
      go st'
    | none =>
      hout.putStrLn "(bad-request \"parse\")"
      hout.flush
      go st
  go init

end GqlVerif
