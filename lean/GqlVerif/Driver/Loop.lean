import GqlVerif.Model.Sexp
/-! The request loop shared by every model driver: one S-expression per line in, one per line out. -/
namespace GqlVerif

partial def runLoop (handle : Sexp → Sexp) : IO Unit := do
  let hin ← IO.getStdin
  let hout ← IO.getStdout
  let rec go : IO Unit := do
    let line ← hin.getLine
    if line.isEmpty then return ()
    match Sexp.parse line with
    | some req => hout.putStrLn (toString (handle req))
    | none => hout.putStrLn "(bad-request \"parse\")"
    hout.flush
    go
  go

end GqlVerif
