import GqlVerif.Driver.Decode
import GqlVerif.Driver.Loop
import GqlVerif.Model.Cli
/-! Model driver for C19 / C20 (the command line tool). -/
open GqlVerif GqlVerif.Cli

def bad (what : String) : Sexp := .list [.atom "bad-request", .str what]

def optS : Option String → Sexp
  | none => .list []
  | some s => .list [.str s]

def exitSexp : Exit → Sexp
  | .success => .list [.atom "success"]
  | .failure m => .list [.atom "failure", .str m]
  | .usage m => .list [.atom "usage", .str m]
  | .panic m => .list [.atom "panic", .str m]

def headerErrAtom : HeaderErr → String
  | .noColon => "no-colon" | .emptyName => "empty-name" | .whitespaceInName => "ws-name"

/-- same layout as `vcore::common::Opts::to_sexp` -/
def optionsSexp (o : Options) : Sexp :=
  .list [.atom "opts",
    .atom (match o.mode with | .cli => "cli" | .derive => "derive"),
    optS o.operationName, optS o.structIdent,
    .atom (match o.normalization with | .none => "none" | .rust => "rust"),
    .atom (match o.deprecation with | .allow => "allow" | .deny => "deny" | .warn => "warn"),
    Sexp.mkBool o.otherVariant, Sexp.mkBool o.skipNone,
    optS o.responseDerives, optS o.variablesDerives, optS o.scalarsModule,
    .list (o.externEnums.map .str), .str o.serdePath, .str o.visibility, optS o.queryFile]

def decodeBehaviour : Sexp → Option ServerBehaviour
  | .list [.atom "ok200json", j] => (Json.ofSexp j).map .ok200Json
  | .list [.atom "ok200garbage"] => some .ok200Garbage
  | .list [.atom "status4xx", .str b] => some (.status4xx b)
  | .list [.atom "status5xx", .str b] => some (.status5xx b)
  | .list [.atom "refused"] => some .refused
  | .list [.atom "cut", b] => b.asBool?.map .cutMidReply
  | _ => none

def decodeEnums : Sexp → Option (Option (List String))
  | .list [.atom "none"] => some none
  | .list [.atom "some", xs] => (Decode.strList xs).map some
  | _ => none

/-- `(flags "query" "schema" sel vd rd dep vis outdir scalars noFormatting other enums)` -/
def decodeFlags : Sexp → Option GenFlags
  | .list [.atom "flags", .str q, .str s, sel, vd, rd, dep, vis, outdir, scalars, nofmt, other, enums] => do
    pure { queryPath := q, schemaPath := s, selectedOperation := ← Decode.optStr sel,
           variablesDerives := ← Decode.optStr vd, responseDerives := ← Decode.optStr rd,
           deprecationStrategy := ← Decode.optStr dep, moduleVisibility := ← Decode.optStr vis,
           outputDirectory := ← Decode.optStr outdir, customScalarsModule := ← Decode.optStr scalars,
           noFormatting := ← nofmt.asBool?, fragmentsOtherVariant := ← other.asBool?,
           externalEnums := ← decodeEnums enums }
  | _ => none

/-- `(paths-ok "p" ...)`: the strings `syn::parse_str::<syn::Path>` accepts (observed by the harness) -/
def decodePathOk : Sexp → Option (String → Bool)
  | .list (.atom "paths-ok" :: xs) => (Decode.strList (.list xs)).map fun ok => fun s => ok.contains s
  | _ => none

def decodeLib : Sexp → Option LibResult
  | .list [.atom "tokens", .str t] => some (.tokens t)
  | .list [.atom "err", .str m] => some (.err m)
  | .list [.atom "panic", .str m] => some (.panic m)
  | _ => none

def decodeFmt : Sexp → Option (String → Option String)
  | .list [.atom "fmt", .str out] => some fun _ => some out
  | .list [.atom "fmtfail"] => some fun _ => none
  | _ => none

def handle (req : Sexp) : Sexp :=
  match req with
  | .list (.atom "echo" :: xs) => .list (.atom "echo" :: xs)
  | .list [.atom "parse-header", .str s] =>
    match parseHeaderChars s.toList, parseHeader s.toList with
    | .ok _, .ok (n, v) => .list [.atom "ok", .str n, .str v]
    | .error e, .error m => .list [.atom "err", .atom (headerErrAtom e), .str m]
    | _, _ => bad "parse-header"
  | .list [.atom "select-doc", o, u] =>
    match o.asBool?, u.asBool? with
    | some o, some u =>
      match selectDoc o u with
      | some (op, file, text) => .list [.atom "doc", .str op, .str file, .str text]
      | none => .list [.atom "none"]
    | _, _ => bad "select-doc"
  | .list [.atom "request", .str loc, hs, auth, o, u] =>
    match Decode.strList hs, Decode.optStr auth, o.asBool?, u.asBool? with
    | some hs, some auth, some o, some u =>
      match parseHeaderArgs hs with
      | .error e => exitSexp e
      | .ok parsed =>
        match buildRequest loc parsed auth o u with
        | .error e => exitSexp e
        | .ok r => .list [.atom "request", .str r.method, .str r.url,
                          .list (r.headers.map fun nv => .list [.str nv.1, .str nv.2]), r.body.toSexp]
    | _, _, _, _ => bad "request"
  | .list [.atom "introspect", beh, output, creatable, file, .str out] =>
    match decodeBehaviour beh, output.asBool?, creatable.asBool?, Decode.optStr file with
    | some beh, some output, some creatable, some file =>
      let (e, w) := introspect beh output creatable { file := file, stdout := out }
      .list [.atom "result", Sexp.mkNat e.code, optS w.file, .str w.stdout]
    | _, _, _, _ => bad "introspect"
  | .list [.atom "introspect-main", .str loc, hs, auth, o, u, beh, output, creatable, file, .str out] =>
    match Decode.strList hs, Decode.optStr auth, o.asBool?, u.asBool?, decodeBehaviour beh, output.asBool?, creatable.asBool?, Decode.optStr file with
    | some hs, some auth, some o, some u, some beh, some output, some creatable, some file =>
      let run := introspectMain { location := loc, output := output, authorization := auth, headers := hs, isOneOf := o, specifyByUrl := u }
        beh creatable { file := file, stdout := out }
      .list [.atom "run", exitSexp run.exit, Sexp.mkNat run.exit.code,
        (match run.request with
         | none => .list [.atom "none"]
         | some r => .list [.atom "request", .str r.method, .str r.url, .list (r.headers.map fun nv => .list [.str nv.1, .str nv.2]), r.body.toSexp]),
        optS run.world.file, .str run.world.stdout]
    | _, _, _, _, _, _, _, _ => bad "introspect-main"
  | .list [.atom "pretty", j] =>
    match Json.ofSexp j with
    | some j => .list [.atom "ok", .str (pretty j)]
    | none => bad "pretty"
  | .list [.atom "file-name", .str p] => optS ((fileName p.toList).map String.ofList)
  | .list [.atom "file-stem", .str n] => .str (String.ofList (fileStem n.toList))
  | .list [.atom "parent", .str p] => .str (String.ofList (parentOf p.toList))
  | .list [.atom "with-file-name", .str p, .str n] => .str (String.ofList (withFileName p.toList n.toList))
  | .list [.atom "path-join", .str d, .str n] => .str (String.ofList (pathJoin d.toList n.toList))
  | .list [.atom "dest-path", dir, .str q] =>
    match Decode.optStr dir with
    | some dir => optS ((destPath (dir.map String.toList) q.toList).map String.ofList)
    | none => bad "dest-path"
  | .list [.atom "cli-options", flags, ok] =>
    match decodeFlags flags, decodePathOk ok with
    | some f, some ok =>
      match cliOptions ok f with
      | .ok o => .list [.atom "ok", optionsSexp o]
      | .error e => exitSexp e
    | _, _ => bad "cli-options"
  | .list [.atom "generate", flags, ok, lib, fmt, creatable, old] =>
    match decodeFlags flags, decodePathOk ok, decodeLib lib, decodeFmt fmt, creatable.asBool?, Decode.optStr old with
    | some f, some ok, some lib, some fmt, some creatable, some old =>
      let env : GenEnv := { synPathOk := ok, lib := fun _ => lib, rustfmt := fmt, creatable := fun _ => creatable }
      let dest := (destPath (f.outputDirectory.map String.toList) f.queryPath.toList).map String.ofList
      let (e, fs) := generateCode env f (fun _ => old)
      .list [.atom "result", Sexp.mkNat e.code, optS dest,
             optS (match dest with | some d => fs d | none => old)]
    | _, _, _, _, _, _ => bad "generate"
  | _ => bad "unknown request"

def main : IO Unit := runLoop handle
