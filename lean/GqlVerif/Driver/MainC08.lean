import GqlVerif.Model.Cache
import GqlVerif.Driver.Loop
/-!
Model driver for C08.  Requests:

```
(cache-run        (fs F*) (parse X*) (init (q "path"*) (s "path"*)) (calls C*))
(cache-interleave (fs F*) (parse X*) (init (q "path"*) (s "path"*)) (threads (C*)*) <seed>)
(path-info "path")
  F = (file "path" "cid")                      -- every path not listed does not exist
  X = ("cid" <parses as query> <loads as SDL> <loads as introspection JSON>)   -- true | false
  C = (file "query path" "schema path" "opt") | (string "cid" "schema path" "opt")
```

File contents travel as content ids; what the external parsers say about a content is the `parse`
table (the parsers are parameters of the model).  `init` lists the keys the process-wide caches
already hold from earlier histories of the same process (the model state is rebuilt by looking them
up, i.e. by the model's own `getSet`).  The pure generator is left symbolic: the reply says *which*
(query content, schema content, schema format, options) the result is the generator's value of.

Replies: `(outcomes O*) (state (q "path"*) (s "path"*))` resp. `(threads (O*)*) (steps n) (lost-races n)`,
`O = (gen "qcid" "scid" sdl|json "opt") | (panic "msg") | (err "msg") | (other "msg")`.
-/
open GqlVerif GqlVerif.Cache

abbrev DR := String × String × String × String      -- (query cid, schema cid, format, options)
abbrev DSys := Sys Path Path (String × Unit) (String × String) String DR

structure World where
  files : List (String × String)
  flags : List (String × Bool × Bool × Bool)

def World.flagsOf (w : World) (cid : String) : Bool × Bool × Bool :=
  (w.flags.lookup cid).getD (false, false, false)

def World.ext (w : World) : Ext Unit (String × String) String DR where
  parseQuery t := if (w.flagsOf t).1 then .ok () else .error "parse error"
  loadSdl t := if (w.flagsOf t).2.1 then .ok (t, "sdl") else panic' "called `Result::unwrap()` on an `Err` value: Parser error"
  loadJson t := if (w.flagsOf t).2.2 then .ok (t, "json") else panic' "called `Result::unwrap()` on an `Err` value: serde_json"
  generate q s o := .ok (q.1, s.1, s.2, o)

def World.fs (w : World) : Fs := fun p => w.files.lookup (String.ofList p)

def World.sys (w : World) : DSys := rustSys w.ext w.fs

def decodeBool : Sexp → Option Bool
  | .atom "true" => some true
  | .atom "false" => some false
  | _ => none

def decodeWorld (fs parse : List Sexp) : Option World := do
  let files ← fs.mapM fun
    | .list [.atom "file", .str p, .str cid] => some (p, cid)
    | _ => none
  let flags ← parse.mapM fun
    | .list [.str cid, a, b, c] => do pure (cid, ← decodeBool a, ← decodeBool b, ← decodeBool c)
    | _ => none
  pure { files, flags }

def decodeCall : Sexp → Option (Call Path String)
  | .list [.atom "file", .str q, .str s, .str o] => some (.fromFile q.toList s.toList o)
  | .list [.atom "string", .str t, .str s, .str o] => some (.fromString t s.toList o)
  | _ => none

def decodePaths : Sexp → Option (List Path)
  | .list (.atom _ :: ps) => ps.mapM fun | .str p => some p.toList | _ => none
  | _ => none

/-- the cache state of a process that has already (successfully or not) looked these paths up -/
def warm (S : DSys) (qs ss : List Path) : CacheState Path (String × Unit) (String × String) :=
  let q := qs.foldl (fun m p => (getSet m (S.key p) (S.loadQ p)).1) []
  let s := ss.foldl (fun m p => (getSet m (S.key p) (S.loadS p)).1) []
  { q, s }

def outcomeSexp : Outcome DR → Sexp
  | .ok (q, s, f, o) => .list [.atom "gen", .str q, .str s, .atom f, .str o]
  | .error (.panic m) => .list [.atom "panic", .str m]
  | .error (.error m) => .list [.atom "err", .str m]
  | .error (.diverge m) => .list [.atom "other", .str m]
  | .error (.unmodelled m) => .list [.atom "other", .str m]

def stateSexp (c : CacheState Path (String × Unit) (String × String)) : Sexp :=
  .list [.atom "state",
    .list (.atom "q" :: c.q.reverse.map fun (k, _) => .str (String.ofList k)),
    .list (.atom "s" :: c.s.reverse.map fun (k, _) => .str (String.ofList k))]

def lcg (x : Nat) : Nat := (x * 6364136223846793005 + 1442695040888963407) % 18446744073709551616

/-- is thread `t` about to lose an insertion race (its key was inserted by someone else meanwhile)? -/
def losesRace (S : DSys) (c : CacheState Path (String × Unit) (String × String))
    (t : Thread Path (String × Unit) (String × String) String DR) : Bool :=
  match t.cur with
  | some (.insertQ (.fromFile qp _ _) _) => (find c.q (S.key qp)).isSome
  | some (.insertS call _ _) => (find c.s (S.key call.spath)).isSome
  | _ => false

/-- a pseudo-random schedule: at each step one of the unfinished threads, until all have finished -/
def randomExec (S : DSys) : Nat → Nat → Config Path Path (String × Unit) (String × String) String DR → Nat → Nat →
    Config Path Path (String × Unit) (String × String) String DR × Nat × Nat
  | 0, _, cfg, steps, lost => (cfg, steps, lost)
  | fuel + 1, rnd, cfg, steps, lost =>
    let live := (List.range cfg.threads.length).filter fun i =>
      match cfg.threads[i]? with | some t => !t.finished | none => false
    match live with
    | [] => (cfg, steps, lost)
    | _ =>
      let rnd' := lcg rnd
      let i := live[(rnd' / 65536) % live.length]!
      let lose := match cfg.threads[i]? with | some t => losesRace S cfg.cache t | none => false
      randomExec S fuel rnd' (cfg.stepAt S i) (steps + 1) (if lose then lost + 1 else lost)

def bad (what : String) : Sexp := .list [.atom "bad-request", .str what]

def handle (req : Sexp) : Sexp :=
  match req with
  | .list (.atom "echo" :: xs) => .list (.atom "echo" :: xs)
  | .list [.atom "path-info", .str p] =>
    .list [.atom "path-info",
      .list ((components p.toList).map fun c => .str (String.ofList c)),
      (match extension p.toList with | some e => .list [.str (String.ofList e)] | none => .list []),
      .atom (match schemaFormat p.toList with | .sdl => "sdl" | .json => "json" | .unsupported => "unsupported")]
  | .list [.atom "cache-run", .list (.atom "fs" :: fs), .list (.atom "parse" :: parse),
           .list [.atom "init", iq, is], .list (.atom "calls" :: calls)] =>
    match decodeWorld fs parse, decodePaths iq, decodePaths is, calls.mapM decodeCall with
    | some w, some iq, some is, some calls =>
      let S := w.sys
      let r := run S (warm S iq is) calls
      .list [.list (.atom "outcomes" :: r.2.map outcomeSexp), stateSexp r.1]
    | _, _, _, _ => bad "cache-run"
  | .list [.atom "cache-interleave", .list (.atom "fs" :: fs), .list (.atom "parse" :: parse),
           .list [.atom "init", iq, is], .list (.atom "threads" :: threads), seed] =>
    match decodeWorld fs parse, decodePaths iq, decodePaths is,
          threads.mapM (fun t => match t with | .list cs => cs.mapM decodeCall | _ => none), seed.asNat? with
    | some w, some iq, some is, some progs, some seed =>
      let S := w.sys
      let cfg0 : Config Path Path (String × Unit) (String × String) String DR :=
        { cache := warm S iq is, threads := progs.map Thread.ofProg }
      let total := (progs.map List.length).foldl (· + ·) 0
      let (cfg, steps, lost) := randomExec S (8 * total + 8) seed cfg0 0 0
      .list [.list (.atom "threads" :: cfg.threads.map fun t => .list (t.done.map outcomeSexp)),
             .list [.atom "finished", Sexp.mkBool (cfg.threads.all (·.finished))],
             .list [.atom "steps", Sexp.mkNat steps], .list [.atom "lost-races", Sexp.mkNat lost],
             stateSexp cfg.cache]
    | _, _, _, _, _ => bad "cache-interleave"
  | _ => bad "unknown request"

def main : IO Unit := runLoop handle
