import GqlVerif.Driver.Loop
open GqlVerif

def handle (req : Sexp) : Sexp :=
  match req with
  | .list (.atom "echo" :: xs) => .list (.atom "echo" :: xs)
  | _ => .list [.atom "bad-request", .str "unknown request"]

def main : IO Unit := runLoop handle
