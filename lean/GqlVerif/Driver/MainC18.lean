import GqlVerif.Driver.Loop
import GqlVerif.Model.Attr
/-!
Model driver of C18.

Token trees `<tok>`:  `(i "name")` ident · `(p ",")` punct · `(s "value")` string literal (its *value*)
· `(o "text")` any other literal · `(g paren|bracket|brace|none <tok>*)` group.
`<input>` = `(input <attr>*)`, `<attr>` = `(attr "path" (list <tok>*))` | `(attr "path" nolist)`.
`<items>` = `(items <item>*)`, `<item>` = `(kv "k" "v")` | `(flag "f")` | `(list "k" "v"*)`.
`<style>` = `(style <trailing> <listTrailing> <delim>)`.  `<dir>` = `()` | `("dir")`.  `<paths>` = `(("text" true|false)*)`:
the result of `syn::parse_str::<syn::Path>` for every string in the attribute (parameter of the model).

  (extract-attr <input> "key")        → (ok "value") | (err <kind>)
  (ident-exists <input> "name")       → (ok) | (err <kind>)
  (extract-attr-list <input> "key")   → (ok "v"*) | (err <kind>)
  (scan-all <input> ("key"*))         → (all (attr <r>*) (ident <r>*) (list <r>*))   -- the three functions for every key
  (options <input> <dir> <paths>)     → (ok <dump>) | (err <kind>)          -- `Attr.derive`
  (spec-options <items> <dir> <paths>)→ (ok <dump>) | (err <kind>)          -- `Attr.specDerive`
  (render <style> <items>)            → (toks <tok>*)
  (wf <items>)                        → (true) | (false)                    -- `WfItems`

`<dump>` = (query "p") (schema "p") (variables_derives <opt>) (response_derives <opt>) (deprecation allow|deny|warn)
 (deprecation_set true|false) (normalization none|rust) (custom_scalars_module <opt>) (extern_enums "v"*)
 (fragments_other_variant b) (skip_serializing_none b)
-/
open GqlVerif GqlVerif.Attr

namespace C18Driver

def decDelim : Sexp → Option Delim
  | .atom "paren" => some .paren
  | .atom "bracket" => some .bracket
  | .atom "brace" => some .brace
  | .atom "none" => some .none
  | _ => none

def encDelim : Delim → Sexp
  | .paren => .atom "paren"
  | .bracket => .atom "bracket"
  | .brace => .atom "brace"
  | .none => .atom "none"

mutual
  partial def decTok : Sexp → Option Tok
    | .list [.atom "i", .str s] => some (.ident s)
    | .list [.atom "p", .str s] => match s.toList with
      | [c] => some (.punct c)
      | _ => none
    | .list [.atom "s", .str s] => some (.lit s)
    | .list [.atom "o", .str s] => some (.litOther s)
    | .list (.atom "g" :: d :: ts) => do
      let d ← decDelim d
      let ts ← decToks ts
      pure (.group d ts)
    | _ => none
  partial def decToks : List Sexp → Option (List Tok)
    | [] => some []
    | t :: ts => do
      let t ← decTok t
      let ts ← decToks ts
      pure (t :: ts)
end

mutual
  partial def encTok : Tok → Sexp
    | .ident s => .list [.atom "i", .str s]
    | .punct c => .list [.atom "p", .str (String.singleton c)]
    | .lit s => .list [.atom "s", .str s]
    | .litOther s => .list [.atom "o", .str s]
    | .group d ts => .list (.atom "g" :: encDelim d :: encToks ts)
  partial def encToks : List Tok → List Sexp
    | [] => []
    | t :: ts => encTok t :: encToks ts
end

def decAttr : Sexp → Option Attribute
  | .list [.atom "attr", .str p, .atom "nolist"] => some { path := p, tokens := none }
  | .list [.atom "attr", .str p, .list (.atom "list" :: ts)] => do
    let ts ← decToks ts
    pure { path := p, tokens := some ts }
  | _ => none

def decInput : Sexp → Option Input
  | .list (.atom "input" :: as) => as.mapM decAttr
  | _ => none

def decStrs : List Sexp → Option (List String)
  | [] => some []
  | .str s :: rest => (decStrs rest).map (s :: ·)
  | _ => none

def decItem : Sexp → Option Item
  | .list [.atom "kv", .str k, .str v] => some (.kv k v)
  | .list [.atom "flag", .str f] => some (.flag f)
  | .list (.atom "list" :: .str k :: vs) => (decStrs vs).map (.listAttr k)
  | _ => none

def decItems : Sexp → Option (List Item)
  | .list (.atom "items" :: is) => is.mapM decItem
  | _ => none

def decStyle : Sexp → Option Style
  | .list [.atom "style", t, lt, d] => do
    let t ← t.asBool?
    let lt ← lt.asBool?
    let d ← decDelim d
    pure { trailing := t, listTrailing := lt, delim := d }
  | _ => none

def decDir : Sexp → Option (Option String)
  | .list [] => some none
  | .list [.str d] => some (some d)
  | _ => none

def decPaths : Sexp → Option (List (String × Bool))
  | .list es => es.mapM (fun
      | .list [.str s, b] => b.asBool?.map (fun b => (s, b))
      | _ => none)
  | _ => none

def pathOkOf (table : List (String × Bool)) (s : String) : Bool := (table.lookup s).getD false

def encErr : Err → Sexp
  | .missingAttribute => .atom "missing-attribute"
  | .notFound => .atom "not-found"
  | .badLiteral => .atom "bad-literal"
  | .badValue => .atom "bad-value"
  | .envMissing => .atom "env-missing"
  | .badPath => .atom "bad-path"

def encRes {α : Type} (f : α → List Sexp) : Res α → Sexp
  | .ok a => .list (.atom "ok" :: f a)
  | .error e => .list [.atom "err", encErr e]

def encOpt : Option String → List Sexp
  | none => []
  | some s => [.str s]

def encDep : Deprecation → Sexp
  | .allow => .atom "allow"
  | .deny => .atom "deny"
  | .warn => .atom "warn"

def encNorm : Normalization → Sexp
  | .none => .atom "none"
  | .rust => .atom "rust"

def dump (d : Derived) : List Sexp :=
  let o := d.options
  [ .list [.atom "query", .str (String.ofList o.queryFile)],
    .list [.atom "schema", .str (String.ofList d.schemaPath)],
    .list (.atom "variables_derives" :: encOpt o.variablesDerives),
    .list (.atom "response_derives" :: encOpt o.responseDerives),
    .list [.atom "deprecation", encDep o.effectiveDeprecation],
    .list [.atom "deprecation_set", Sexp.mkBool o.deprecation.isSome],
    .list [.atom "normalization", encNorm o.normalization],
    .list (.atom "custom_scalars_module" :: encOpt o.customScalarsModule),
    .list (.atom "extern_enums" :: o.externEnums.map .str),
    .list [.atom "fragments_other_variant", Sexp.mkBool o.fragmentsOtherVariant],
    .list [.atom "skip_serializing_none", Sexp.mkBool o.skipSerializingNone] ]

def bad (msg : String) : Sexp := .list [.atom "bad-request", .str msg]

def handle (req : Sexp) : Sexp :=
  match req with
  | .list [.atom "extract-attr", inp, .str k] =>
    match decInput inp with
    | some i => encRes (fun v => [.str v]) (extractAttr i k)
    | none => bad "input"
  | .list [.atom "ident-exists", inp, .str k] =>
    match decInput inp with
    | some i => encRes (fun _ => []) (identExists i k)
    | none => bad "input"
  | .list [.atom "extract-attr-list", inp, .str k] =>
    match decInput inp with
    | some i => encRes (fun vs => vs.map .str) (extractAttrList i k)
    | none => bad "input"
  | .list [.atom "scan-all", inp, .list keys] =>
    match decInput inp, decStrs keys with
    | some i, some ks =>
      .list [.atom "all",
        .list (.atom "attr" :: ks.map (fun k => encRes (fun v => [.str v]) (extractAttr i k))),
        .list (.atom "ident" :: ks.map (fun k => encRes (fun _ => []) (identExists i k))),
        .list (.atom "list" :: ks.map (fun k => encRes (fun vs => vs.map .str) (extractAttrList i k)))]
    | _, _ => bad "scan-all"
  | .list [.atom "options", inp, dir, paths] =>
    match decInput inp, decDir dir, decPaths paths with
    | some i, some d, some t => encRes dump (derive d (pathOkOf t) i)
    | _, _, _ => bad "options"
  | .list [.atom "spec-options", items, dir, paths] =>
    match decItems items, decDir dir, decPaths paths with
    | some i, some d, some t => encRes dump (specDerive d (pathOkOf t) i)
    | _, _, _ => bad "spec-options"
  | .list [.atom "render", st, items] =>
    match decStyle st, decItems items with
    | some s, some i => .list (.atom "toks" :: encToks (render s i))
    | _, _ => bad "render"
  | .list [.atom "wf", items] =>
    match decItems items with
    | some i => .list [Sexp.mkBool (decide (WfItems i))]
    | none => bad "items"
  | .list (.atom "echo" :: xs) => .list (.atom "echo" :: xs)
  | _ => bad "unknown request"

end C18Driver

def main : IO Unit := runLoop C18Driver.handle
