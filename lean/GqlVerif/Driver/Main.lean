import GqlVerif.Driver.Decode
import GqlVerif.Driver.Loop
import GqlVerif.Model.Valid
import GqlVerif.Model.Serde
import GqlVerif.Model.EnumSpec
import GqlVerif.Model.Scope
import GqlVerif.Model.DefaultLit
import GqlVerif.Model.StrLit
open GqlVerif

def errSexp : Err → Sexp
  | .panic m => .list [.atom "panic", .str m]
  | .error m => .list [.atom "err", .str m]
  | .diverge m => .list [.atom "diverge", .str m]
  | .unmodelled m => .list [.atom "unmodelled", .str m]

def outcomeSexp {α} (f : α → Sexp) : Outcome α → Sexp
  | .ok a => .list [.atom "ok", f a]
  | .error e => errSexp e

def qualSexp : Qual → Sexp | .required => .atom "req" | .list => .atom "list"

def typeIdSexp : TypeId → Sexp
  | .object i => .list [.atom "object", Sexp.mkNat i]
  | .scalar i => .list [.atom "scalar", Sexp.mkNat i]
  | .interface i => .list [.atom "interface", Sexp.mkNat i]
  | .union i => .list [.atom "union", Sexp.mkNat i]
  | .enum i => .list [.atom "enum", Sexp.mkNat i]
  | .input i => .list [.atom "input", Sexp.mkNat i]

def fieldTypeSexp (t : FieldType) : Sexp := .list [typeIdSexp t.id, .list (t.quals.map qualSexp)]

/-- canonical dump of a `Schema` (used for diagnostics and for the C07 front-end comparison) -/
def schemaSexp (s : Schema) : Sexp :=
  .list [.atom "schema",
    .list (.atom "objects" :: s.objects.map fun o => .list [.str o.name, .list (o.fields.map Sexp.mkNat), .list (o.implements.map Sexp.mkNat)]),
    .list (.atom "fields" :: s.fields.map fun f => .list [.str f.name, fieldTypeSexp f.ty,
        (match f.parent with | .object i => .list [.atom "o", Sexp.mkNat i] | .interface i => .list [.atom "i", Sexp.mkNat i]),
        depSexp f.deprecation]),
    .list (.atom "interfaces" :: s.interfaces.map fun o => .list [.str o.name, .list (o.fields.map Sexp.mkNat)]),
    .list (.atom "unions" :: s.unions.map fun u => .list [.str u.name, .list (u.variants.map typeIdSexp)]),
    .list (.atom "scalars" :: s.scalars.map .str),
    .list (.atom "enums" :: s.enums.map fun e => .list [.str e.name, strsSexp e.variants]),
    .list (.atom "inputs" :: s.inputs.map fun i => .list [.str i.name, Sexp.mkBool i.isOneOf,
        .list (i.fields.map fun (n, t) => .list [.str n, fieldTypeSexp t])]),
    .list (.atom "names" :: s.names.map fun (n, t) => .list [.str n, typeIdSexp t]),
    .list [.atom "roots", .list (s.queryType.toList.map Sexp.mkNat), .list (s.mutationType.toList.map Sexp.mkNat),
           .list (s.subscriptionType.toList.map Sexp.mkNat)]]

def dSexp : Serde.D Json → Sexp
  | .ok j => .list [.atom "ok", j.toSexp]
  | .error (.mismatch w) => .list [.atom "err", .str w]
  | .error (.unmodelled w) => .list [.atom "unmodelled", .str w]


def bad (what : String) : Sexp := .list [.atom "bad-request", .str what]

def handle (req : Sexp) : Sexp :=
  match req with
  | .list (.atom "echo" :: xs) => .list (.atom "echo" :: xs)
  | .list [.atom "schema", src] =>
    match Decode.schemaSrc src with
    | some r => outcomeSexp schemaSexp r
    | none => bad "schema"
  | .list [.atom "resolve", src, doc] =>
    match Decode.schemaSrc src, Decode.qdoc doc with
    | some s, some d => outcomeSexp (fun (q : Query) => Sexp.mkNat q.operations.length) (do Resolve.resolve (← s) d)
    | _, _ => bad "resolve"
  | .list [.atom "c06", src, doc] =>
    -- resolve outcome kind + the specification's verdicts (strict / without the no-selection rule)
    match Decode.schemaSrc src, Decode.qdoc doc with
    | some (.ok s), some d =>
      let kind := match Resolve.resolve s d with
        | .ok _ => "ok" | .error (.error _) => "err" | .error (.panic _) => "panic"
        | .error (.diverge _) => "diverge" | .error (.unmodelled _) => "unmodelled"
      .list [.atom "c06", .atom kind, Sexp.mkBool (Valid.validDoc s true d), Sexp.mkBool (Valid.validDoc s false d)]
    | some (.error e), some _ => .list [.atom "schema-failed", errSexp e]
    | _, _ => bad "c06"
  | .list [.atom "id-helper", .str h, ty, j] =>
    -- the three ID helpers of serde_with.rs at a given target type
    match RTy.ofSexp ty, Json.ofSexp j with
    | some ty, some j =>
      let ser (v : Val) : Serde.D Json := Serde.serTyWith (fun _ v => match Serde.serPrim v with
        | some j => pure j | none => Serde.unmodelled "non-leaf") ty v
      dSexp (do ser (← Serde.deHelper h ty j))
    | _, _ => bad "id-helper"
  | .list [.atom "enum-wf", item] =>
    match Item.ofSexp item with
    | some (.gqlEnum _ _ _ vs ser de) => .list [.atom "ok", Sexp.mkBool (EnumSpec.tablesWf vs ser de)]
    | _ => bad "enum-wf"
  | .list [.atom "scope-header", .str modName, structDecl] =>
    match optStrOfSexp structDecl with
    | some sd => .list [.atom "scope-header", Sexp.mkBool (Scope.headerClash modName sd)]
    | none => bad "scope-header"
  | .list [.atom "scope", .list items, supplied] =>
    -- C02: the scope discipline evaluated on an (extracted) item list
    match items.mapM Item.ofSexp, strsOfSexp supplied with
    | some items, some supplied =>
      let r := Scope.report items supplied
      .list [.atom "scope", Sexp.mkBool (Scope.wellScoped items supplied), strsSexp r.undefined,
             strsSexp r.duplicateDefs, strsSexp r.duplicateMembers, strsSexp r.serdeless]
    | _, _ => bad "scope"
  | .list [.atom "gen", src, doc, .str text, opts, cases] =>
    match Decode.schemaSrc src, Decode.qdoc doc, Decode.options opts, Decode.caseFns cases with
    | some s, some d, some o, some cs =>
      outcomeSexp (fun (ms : List Module) => .list (ms.map Module.toSexp)) (do Codegen.generate (← s) cs o text d)
    | _, _, _, _ => bad "gen"
  | .list [.atom "defaults", src, doc, .str text, opts, cases] =>
    -- the bodies of the `default_*` functions of the modules `gen` emits (all modules, in order); errors as `gen`
    match Decode.schemaSrc src, Decode.qdoc doc, Decode.options opts, Decode.caseFns cases with
    | some s, some d, some o, some cs =>
      match (do Codegen.generateDefaults (← s) cs o text d) with
      | .ok bodies => .list (.atom "defaults" :: Codegen.defaultsSexp bodies.flatten)
      | .error e => errSexp e
    | _, _, _, _ => bad "defaults"
  | .list [.atom "strlit", .str tok, .str src] =>
    -- C05: the string-literal token actually emitted for QUERY against the source text (Model/StrLit.lean):
    -- `(ok)` iff rustc's value of the token is `src` and the token is a raw string or spells `src` (`IsEscapeOf`)
    match StrLit.check tok.toList src.toList with
    | .ok => .list [.atom "ok"]
    | .value v => .list [.atom "mismatch", .list [.atom "value", .str (String.ofList v)]]
    | .rejected why => .list [.atom "mismatch", .list [.atom "rejected", .str why]]
    | .spelling => .list [.atom "mismatch", .list [.atom "spelling", .str "right value, but not a character-by-character spelling (line continuation or raw CRLF in the literal)"]]
  | .list [.atom "strlit-print", .str src, .str us] =>
    -- the token text the model of proc_macro2's fallback printer (`StrLit.stringToken`) emits for `src` when
    -- `char::escape_debug` writes exactly the characters of `us` as `\u{…}` (the Unicode tables, supplied by the caller)
    .list [.atom "token", .str (String.ofList (StrLit.stringToken (fun c => us.toList.contains c) src.toList))]
  | _ => bad "unknown request"

/-- loaded module environments for the wire-level requests -/
abbrev St := List (Nat × Env)

def handleS (st : St) (req : Sexp) : St × Sexp :=
  match req with
  | .list [.atom "env-set", id, .list items, .list externs] =>
    match id.asNat?, items.mapM Item.ofSexp,
          externs.mapM (fun x => match x with
            | Sexp.list [Sexp.str p, t] => (RTy.ofSexp t).map (fun t => (p, t))
            | _ => none) with
    | some id, some items, some externs =>
      ((id, { items := items, externs := externs }) :: st.filter (·.1 != id), .list [.atom "ok"])
    | _, _, _ => (st, bad "env-set")
  | .list [.atom "env-drop", id] =>
    match id.asNat? with
    | some id => (st.filter (·.1 != id), .list [.atom "ok"])
    | none => (st, bad "env-drop")
  | .list [.atom "rt", id, ty, j] =>
    match id.asNat?.bind (fun id => st.find? (·.1 == id)), RTy.ofSexp ty, Json.ofSexp j with
    | some (_, env), some ty, some j => (st, dSexp (Serde.roundtrip env ty j))
    | _, _, _ => (st, bad "rt")
  | other => (st, handle other)

def main : IO Unit := runLoopS ([] : St) handleS
