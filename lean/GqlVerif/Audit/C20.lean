import GqlVerif.Props.C20
import GqlVerif.Proofs.C20Composed
open GqlVerif.C20
#print axioms header_spec
#print axioms header_spec_str
#print axioms header_rejects
#print axioms trim_spec
#print axioms refused_header_no_request
#print axioms doc_select
#print axioms request_shape
#print axioms out_file_safe
#print axioms success_iff
#print axioms out_file_written
#print axioms stdout_untouched
#print axioms stdout_written
-- the whole run composed: argv-level headers -> request -> reply -> file / stdout (Proofs/C20Composed.lean)
#print axioms GqlVerif.C20C.isWhitespace_iff
#print axioms GqlVerif.C20C.strip_iff_trim
#print axioms GqlVerif.C20C.parseHeader_iff
#print axioms GqlVerif.C20C.refused_iff
#print axioms GqlVerif.C20C.parseHeaderArgs_ok_iff
#print axioms GqlVerif.C20C.parseHeaderArgs_error_iff
#print axioms GqlVerif.C20C.buildRequest_ok_iff
#print axioms GqlVerif.C20C.buildRequest_error
#print axioms GqlVerif.C20C.introspect_request_shape
#print axioms GqlVerif.C20C.accepted_headers_request
#print axioms GqlVerif.C20C.introspect_sends_iff
#print axioms GqlVerif.C20C.refused_header_sends_nothing
#print axioms GqlVerif.C20C.http_refused_sends_nothing
#print axioms GqlVerif.C20C.no_request_no_effect
#print axioms GqlVerif.C20C.main_failure_touches_nothing
#print axioms GqlVerif.C20C.main_success_iff
#print axioms GqlVerif.C20C.main_output_written
#print axioms GqlVerif.C20C.output_file_reads_back
-- the pretty printer is read back by an RFC 8259 reader as the same JSON
#print axioms GqlVerif.JsonText.parse_prettyAt
#print axioms GqlVerif.JsonText.pretty_parse_roundtrip
