import GqlVerif.Props.C20
open GqlVerif.C20
#print axioms header_spec
#print axioms header_spec_str
#print axioms header_rejects
#print axioms trim_spec
#print axioms refused_header_no_request
#print axioms doc_select
#print axioms request_shape
#print axioms out_file_safe
#print axioms success_iff
#print axioms out_file_written
#print axioms stdout_untouched
#print axioms stdout_written
