import GqlVerif.Props.C12
import GqlVerif.Proofs.C12Items
import GqlVerif.Proofs.C12FrontEnds
open GqlVerif.C12
#print axioms dfs_sound
#print axioms dfs_complete
#print axioms boxed_acyclic
#print axioms box_iff_target_recursive
#print axioms fragment_dfs_sound
#print axioms fragment_dfs_complete
#print axioms fragment_boxed_acyclic
#print axioms box_transparent_de
#print axioms box_transparent_ser
-- by-value containment on the EMITTED items (`T` and `Option<T>` by value; `Vec`, `Box` indirections) is acyclic
-- (Proofs/C12Items.lean)
#print axioms GqlVerif.C12I.acyclic_iff
#print axioms GqlVerif.C12I.input_items_acyclic
#print axioms GqlVerif.C12I.responseForQuery_input_items_acyclic
#print axioms GqlVerif.C12I.response_items_acyclic
#print axioms GqlVerif.C12I.module_response_items_acyclic
#print axioms GqlVerif.C12I.module_response_items_acyclic_of_check
#print axioms GqlVerif.C12I.responseForQuery_response_items_acyclic
#print axioms GqlVerif.C12I.mentionsFaithful_needed
#print axioms GqlVerif.C12I.distinct_names_needed
#print axioms GqlVerif.C12I.closure_needed
#print axioms GqlVerif.C12I.fragment_named_String_cyclic
-- InputsWf and MentionsFaithful from the front-ends: hypotheses about the schema document only (Proofs/C12FrontEnds.lean)
#print axioms GqlVerif.C12FE.fromSdl_facts
#print axioms GqlVerif.C12FE.fromSdl_inputsWf
#print axioms GqlVerif.C12FE.fromSdl_inputsWf_iff
#print axioms GqlVerif.C12FE.fromIntro_inputsWf
#print axioms GqlVerif.C12FE.fromIntro_inputsWf_iff
#print axioms GqlVerif.C12FE.fromJson_inputsWf
#print axioms GqlVerif.C12FE.inputsWf_toSchema
#print axioms GqlVerif.C12FE.mentionsFaithful_of_noCollision
#print axioms GqlVerif.C12FE.input_items_acyclic_of_sdl
#print axioms GqlVerif.C12FE.module_input_items_acyclic_of_sdl
#print axioms GqlVerif.C12FE.input_items_acyclic_of_intro
#print axioms GqlVerif.C12FE.input_items_acyclic_of_json
#print axioms GqlVerif.C12FE.dup_input_not_wf
#print axioms GqlVerif.C12FE.dup_input_intro_not_wf
#print axioms GqlVerif.C12FE.kw_collision
