import GqlVerif.Props.C12
open GqlVerif.C12
#print axioms dfs_sound
#print axioms dfs_complete
#print axioms boxed_acyclic
#print axioms box_iff_target_recursive
#print axioms fragment_dfs_sound
#print axioms fragment_dfs_complete
#print axioms fragment_boxed_acyclic
#print axioms box_transparent_de
#print axioms box_transparent_ser
