import GqlVerif.Props.C12
import GqlVerif.Proofs.C12Items
open GqlVerif.C12
#print axioms dfs_sound
#print axioms dfs_complete
#print axioms boxed_acyclic
#print axioms box_iff_target_recursive
#print axioms fragment_dfs_sound
#print axioms fragment_dfs_complete
#print axioms fragment_boxed_acyclic
#print axioms box_transparent_de
#print axioms box_transparent_ser
-- by-value containment on the EMITTED items (`T` and `Option<T>` by value; `Vec`, `Box` indirections) is acyclic
-- (Proofs/C12Items.lean)
#print axioms GqlVerif.C12I.acyclic_iff
#print axioms GqlVerif.C12I.input_items_acyclic
#print axioms GqlVerif.C12I.responseForQuery_input_items_acyclic
#print axioms GqlVerif.C12I.response_items_acyclic
#print axioms GqlVerif.C12I.module_response_items_acyclic
#print axioms GqlVerif.C12I.module_response_items_acyclic_of_check
#print axioms GqlVerif.C12I.responseForQuery_response_items_acyclic
#print axioms GqlVerif.C12I.mentionsFaithful_needed
#print axioms GqlVerif.C12I.distinct_names_needed
#print axioms GqlVerif.C12I.closure_needed
#print axioms GqlVerif.C12I.fragment_named_String_cyclic
