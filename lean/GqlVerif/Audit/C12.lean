import GqlVerif.Props.C12
import GqlVerif.Proofs.C12Items
import GqlVerif.Proofs.C12FrontEnds
import GqlVerif.Proofs.C12ModuleWitness
import GqlVerif.Proofs.C12ModuleFrontEnds
open GqlVerif.C12
#print axioms dfs_sound
#print axioms dfs_complete
#print axioms boxed_acyclic
#print axioms box_iff_target_recursive
#print axioms fragment_dfs_sound
#print axioms fragment_dfs_complete
#print axioms fragment_boxed_acyclic
#print axioms box_transparent_de
#print axioms box_transparent_ser
-- by-value containment on the EMITTED items (`T` and `Option<T>` by value; `Vec`, `Box` indirections) is acyclic
-- (Proofs/C12Items.lean)
#print axioms GqlVerif.C12I.acyclic_iff
#print axioms GqlVerif.C12I.input_items_acyclic
#print axioms GqlVerif.C12I.responseForQuery_input_items_acyclic
#print axioms GqlVerif.C12I.response_items_acyclic
#print axioms GqlVerif.C12I.module_response_items_acyclic
#print axioms GqlVerif.C12I.module_response_items_acyclic_of_check
#print axioms GqlVerif.C12I.responseForQuery_response_items_acyclic
#print axioms GqlVerif.C12I.mentionsFaithful_needed
#print axioms GqlVerif.C12I.distinct_names_needed
#print axioms GqlVerif.C12I.closure_needed
#print axioms GqlVerif.C12I.fragment_named_String_cyclic
-- InputsWf and MentionsFaithful from the front-ends: hypotheses about the schema document only (Proofs/C12FrontEnds.lean)
#print axioms GqlVerif.C12FE.fromSdl_facts
#print axioms GqlVerif.C12FE.fromSdl_inputsWf
#print axioms GqlVerif.C12FE.fromSdl_inputsWf_iff
#print axioms GqlVerif.C12FE.fromIntro_inputsWf
#print axioms GqlVerif.C12FE.fromIntro_inputsWf_iff
#print axioms GqlVerif.C12FE.fromJson_inputsWf
#print axioms GqlVerif.C12FE.inputsWf_toSchema
#print axioms GqlVerif.C12FE.mentionsFaithful_of_noCollision
#print axioms GqlVerif.C12FE.input_items_acyclic_of_sdl
#print axioms GqlVerif.C12FE.module_input_items_acyclic_of_sdl
#print axioms GqlVerif.C12FE.input_items_acyclic_of_intro
#print axioms GqlVerif.C12FE.input_items_acyclic_of_json
#print axioms GqlVerif.C12FE.dup_input_not_wf
#print axioms GqlVerif.C12FE.dup_input_intro_not_wf
#print axioms GqlVerif.C12FE.kw_collision
-- by-value acyclicity of the WHOLE emitted module, Variables included (docs/REVIEW_3.md finding 5; Proofs/C12Module*.lean, P44)
#print axioms GqlVerif.C12Mod.acyclic_append
#print axioms GqlVerif.C12Mod.leaf_items_acyclic
#print axioms GqlVerif.C12Mod.leaf_refs
#print axioms GqlVerif.C12Mod.inputItems_refs
#print axioms GqlVerif.C12Mod.variablesItems_refs
#print axioms GqlVerif.C12Mod.module_items_acyclic
#print axioms GqlVerif.C12Mod.respNamesOk_of_noClash
#print axioms GqlVerif.C12Mod.module_items_acyclic_of_noClash
#print axioms GqlVerif.C12Mod.variables_self_loop
#print axioms GqlVerif.C12Mod.input_named_Variables_cyclic
#print axioms GqlVerif.C12Mod.extern_enum_Variables_cyclic
#print axioms GqlVerif.C12Mod.input_field_Variables_cyclic
#print axioms GqlVerif.C12Mod.input_named_bool_cyclic
#print axioms GqlVerif.C12Mod.recursive_input_and_fragment_acyclic
#print axioms GqlVerif.C12Mod.rich_hyps
#print axioms GqlVerif.C12Mod.module_items_acyclic_of_sdl
#print axioms GqlVerif.C12Mod.module_items_acyclic_of_intro
#print axioms GqlVerif.C12Mod.module_items_acyclic_of_json
#print axioms GqlVerif.C12Mod.fixedNamesFree_of_namesFree
#print axioms GqlVerif.C12Mod.module_items_acyclic_of_sdl_names
