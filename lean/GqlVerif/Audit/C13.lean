import GqlVerif.Props.C13
import GqlVerif.Proofs.ComposedC13
import GqlVerif.Proofs.C13Inj
open GqlVerif.C13
#print axioms decorate_spec
#print axioms decorate_double_required_panics
#print axioms quals_json_eq_sdl
#print axioms builtin_alias_map
#print axioms response_field_type
#print axioms builtin_alias_source
-- one rule at every position, on the generator's own functions (Proofs/ComposedC13.lean)
#print axioms GqlVerif.Composed.renderField_type_rule
#print axioms GqlVerif.Composed.calcFields_field_type
#print axioms GqlVerif.Composed.variable_member_type
#print axioms GqlVerif.Composed.variable_member_rule
#print axioms GqlVerif.Composed.default_fn_type
#print axioms GqlVerif.Composed.inputFieldType_rule
#print axioms GqlVerif.Composed.inputBoxed_iff
#print axioms GqlVerif.Composed.inputBoxed_iff_cycle
#print axioms GqlVerif.Composed.input_member_type
#print axioms GqlVerif.Composed.input_member_rule
#print axioms GqlVerif.Composed.oneOf_member_type
#print axioms GqlVerif.Composed.oneOf_member_rule
#print axioms GqlVerif.Composed.oneOf_member_nonnull_panics
-- the rule loses no modifier: equal Rust types => equal modifier shapes (Proofs/C13Inj.lean)
#print axioms rustOf_shape_inj
#print axioms rustOf_distinct
#print axioms rustOf_not_inj_without_wf
#print axioms rustOf_not_inj_without_plainBase
#print axioms decorateType_shape_inj
