import GqlVerif.Props.C13
open GqlVerif.C13
#print axioms decorate_spec
#print axioms decorate_double_required_panics
#print axioms quals_json_eq_sdl
#print axioms builtin_alias_map
#print axioms response_field_type
#print axioms builtin_alias_source
