import GqlVerif.Props.C16
import GqlVerif.Proofs.ComposedC16
open GqlVerif.C16
#print axioms id_int
#print axioms id_str
#print axioms id_reject
#print axioms nested_id_iff
#print axioms id_field_iff
#print axioms renderField_fields
#print axioms attach_iff_ID
#print axioms default_iff_nullable_id
#print axioms absent_nullable_id_is_none
#print axioms absent_id_without_default_rejected
-- composed: what renderField attaches and what the serde model reads through it (Proofs/ComposedC16.lean)
#print axioms GqlVerif.Composed.renderField_helper
#print axioms GqlVerif.Composed.helper_iff_ID
#print axioms GqlVerif.Composed.id_field_value
#print axioms GqlVerif.Composed.id_field_composed
#print axioms GqlVerif.Composed.id_field_int_required
#print axioms GqlVerif.Composed.id_field_int_nullable
#print axioms GqlVerif.Composed.id_field_int_list
#print axioms GqlVerif.Composed.deNestedId_canon
#print axioms GqlVerif.Composed.id_read_canonical
#print axioms GqlVerif.Composed.non_id_field_plain
#print axioms GqlVerif.Composed.calcFields_scalar_helper_iff
#print axioms GqlVerif.Composed.calcFields_id_field
#print axioms GqlVerif.Composed.id_struct_reads_int
#print axioms GqlVerif.Composed.helper_on_renamed_scalar
#print axioms GqlVerif.Composed.helper_on_struct_named_ID
