import GqlVerif.Props.C16
open GqlVerif.C16
#print axioms id_int
#print axioms id_str
#print axioms id_reject
#print axioms nested_id_iff
#print axioms id_field_iff
#print axioms renderField_fields
#print axioms attach_iff_ID
#print axioms default_iff_nullable_id
#print axioms absent_nullable_id_is_none
#print axioms absent_id_without_default_rejected
