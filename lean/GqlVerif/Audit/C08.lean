import GqlVerif.Props.C08
open GqlVerif.C08
#print axioms inv_step
#print axioms inv_reachable
#print axioms inv_reachable_interleaving
#print axioms step_result
#print axioms pure_history
#print axioms failed_call_no_effect
#print axioms failed_load_state_unchanged
#print axioms pure_interleaving
#print axioms pure_interleaving_finished
#print axioms schedule_completes
#print axioms rustSys_faithful
#print axioms rust_inv_reachable
#print axioms rust_pure_history
#print axioms rust_pure_interleaving
#print axioms rust_call_after_history
#print axioms no_stale_alias
#print axioms same_basename_distinct
#print axioms same_basename_distinct_components
#print axioms Witness.repaired_history_ok
#print axioms Witness.poisoning_breaks_purity
#print axioms Witness.trailing_slash_alias
#print axioms Witness.old_keying_not_faithful
#print axioms Witness.race_example
