import GqlVerif.Props.C05
open GqlVerif.C05
#print axioms module_shape
#print axioms module_constants
#print axioms module_types_from_same_operation
#print axioms selectOperation_spec
#print axioms derive_no_fallback
#print axioms derive_selects_named
#print axioms cli_explicit_selects
#print axioms mapM_spec
#print axioms cli_none_gives_all
