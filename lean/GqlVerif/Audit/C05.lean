import GqlVerif.Props.C05
import GqlVerif.Proofs.C05Body
import GqlVerif.Proofs.ComposedC05
import GqlVerif.Proofs.C05BodyModel
import GqlVerif.Proofs.C05StrLit
open GqlVerif.C05
#print axioms module_shape
#print axioms module_constants
#print axioms module_types_from_same_operation
#print axioms selectOperation_spec
#print axioms derive_no_fallback
#print axioms derive_selects_named
#print axioms cli_explicit_selects
#print axioms mapM_spec
#print axioms cli_none_gives_all
-- the request body and its link to the generator (Proofs/C05Body.lean)
#print axioms GqlVerif.C05Body.body_members
#print axioms GqlVerif.C05Body.body_keys
#print axioms GqlVerif.C05Body.body_of_generate
#print axioms GqlVerif.C05Body.items_of_named_operation
#print axioms GqlVerif.C05Body.named_operation_is_written
#print axioms GqlVerif.C05Body.request_body_of_generate
#print axioms GqlVerif.C05Body.clash_witness
-- operation selection on Codegen.generate, in terms of the struct name (Proofs/ComposedC05.lean)
#print axioms GqlVerif.Composed.selectOperation_none_iff
#print axioms GqlVerif.Composed.generatedModule_fields
#print axioms GqlVerif.Composed.cli_unmatched_name_generates_all_eq
#print axioms GqlVerif.Composed.cli_unmatched_name_generates_all
#print axioms GqlVerif.Composed.derive_unmatched_is_error
#print axioms GqlVerif.Composed.cli_unmatched_witness
#print axioms GqlVerif.Composed.derive_uses_struct_ident
#print axioms GqlVerif.Composed.derive_struct_no_fallback
#print axioms GqlVerif.Composed.derive_struct_selects_first
-- build_query through an IR of the emitted impl block (Proofs/C05BodyModel.lean)
#print axioms GqlVerif.C05BodyModel.buildQuery_of_module
#print axioms GqlVerif.C05BodyModel.body_members
#print axioms GqlVerif.C05BodyModel.body_keys
#print axioms GqlVerif.C05BodyModel.generatedModule_fields
#print axioms GqlVerif.C05BodyModel.impl_of_generatedModule
#print axioms GqlVerif.C05BodyModel.body_of_generatedModule
#print axioms GqlVerif.C05BodyModel.request_body_of_generate
#print axioms GqlVerif.C05BodyModel.wire_body_of_generate
#print axioms GqlVerif.C05BodyModel.buildQuery_needs_consts
#print axioms GqlVerif.C05BodyModel.buildQuery_needs_member
-- the QUERY constant through string-literal escaping and rustc's lexer (Model/StrLit.lean, Proofs/C05StrLit.lean, P40)
#print axioms GqlVerif.C05L.unescape_escapeWith
#print axioms GqlVerif.C05L.isEscapeOf_escapeWith
#print axioms GqlVerif.C05L.unescape_of_isEscapeOf
#print axioms GqlVerif.C05L.litValue_string_token
#print axioms GqlVerif.C05L.litValue_stringToken
#print axioms GqlVerif.C05L.isEscapeOf_escapeRustcWith
#print axioms GqlVerif.C05L.unescape_escapeRustcWith
#print axioms GqlVerif.C05L.litValue_stringTokenRustc
#print axioms GqlVerif.C05L.run_append_of_isEscapeOf
#print axioms GqlVerif.C05L.bare_cr_rejected
#print axioms GqlVerif.C05L.check_ok_iff
#print axioms GqlVerif.C05L.check_stringToken
#print axioms GqlVerif.C05L.check_stringTokenRustc
#print axioms GqlVerif.C05L.query_constant_roundtrip
#print axioms GqlVerif.C05L.query_constant_roundtrip_rustc
#print axioms GqlVerif.C05L.demo_token
#print axioms GqlVerif.C05L.demo_token_rustc
#print axioms GqlVerif.C05L.demo_unescape
#print axioms GqlVerif.C05L.demo_isEscapeOf
#print axioms GqlVerif.C05L.demo_litValue
#print axioms GqlVerif.C05L.demo_check
#print axioms GqlVerif.C05L.demo_litValue_rustc
#print axioms GqlVerif.C05L.demo_litValue_noTables
#print axioms GqlVerif.C05L.demo_litValue_allTables
#print axioms GqlVerif.C05L.other_spellings
#print axioms GqlVerif.C05L.rejected_literals
#print axioms GqlVerif.C05L.continuation_and_crlf
#print axioms GqlVerif.C05L.nul_before_digit
#print axioms GqlVerif.C05L.bare_cr_witness
