import GqlVerif.Props.C04
import GqlVerif.Proofs.C05Body
import GqlVerif.Proofs.C04SurjectiveExamples
import GqlVerif.Proofs.C04SurjectiveSerValid
import GqlVerif.Proofs.C04RustExamples
import GqlVerif.Proofs.C04RustCoercionWitness
import GqlVerif.Proofs.C04DefaultsLit
import GqlVerif.Proofs.C04DefaultsWitness
import GqlVerif.Proofs.C04DefaultsRustWitness
open GqlVerif.C04
#print axioms GqlVerif.C01.ser_fields_iff
#print axioms variables_fields_are_declared
#print axioms variable_type_rule
#print axioms skip_none_step
#print axioms no_skip_step
#print axioms none_is_null
#print axioms oneof_single_key
#print axioms unit_variables_null
#print axioms unit_struct_is_null
#print axioms GqlVerif.C01.ser_keys_exact
#print axioms GqlVerif.C01.ser_keys_nodup
#print axioms GqlVerif.C01.ser_keys_all
#print axioms GqlVerif.C01.oneof_keys
-- key set of the serialized Variables struct, from the generator (Proofs/C05Body.lean)
#print axioms GqlVerif.C04Keys.variablesItems_inv
#print axioms GqlVerif.C04Keys.variables_keys
#print axioms GqlVerif.C04Keys.variables_keys_exact
#print axioms GqlVerif.C04Keys.variables_keys_all_iff
#print axioms GqlVerif.C04Keys.variables_keys_any_value
#print axioms GqlVerif.C04Keys.variables_unit
#print axioms GqlVerif.C04Keys.variables_keys_of_assignment
#print axioms GqlVerif.C04Keys.distinct_names_needed
#print axioms GqlVerif.C04Keys.distinct_members_needed
-- every valid assignment is expressible; every value serializes to a valid assignment (Proofs/C04Surjective*.lean)
#print axioms GqlVerif.C04S.express_core
#print axioms GqlVerif.C04S.inputEnv_of_module
#print axioms GqlVerif.C04S.input_expressible
#print axioms GqlVerif.C04S.variables_expressible
#print axioms GqlVerif.C04S.no_variables_expressible
#print axioms GqlVerif.C04S.ser_valid
#print axioms GqlVerif.C04S.variables_ser_valid
#print axioms GqlVerif.C04S.int64_not_graphql_int
#print axioms GqlVerif.C04S.enum_other_not_declared
#print axioms GqlVerif.C04S.id_written_as_string
-- variables under normalization rust; GraphQL's single-value-to-list coercion (Proofs/C04Rust*.lean)
#print axioms GqlVerif.C04R.hasTy_rename
#print axioms GqlVerif.C04R.hasTy_rename_ser
#print axioms GqlVerif.C04R.hasTy_rename_back
#print axioms GqlVerif.C04R.variables_expressible_rust
#print axioms GqlVerif.C04R.variables_ser_valid_rust
#print axioms GqlVerif.C04R.no_variables_expressible_rust
#print axioms GqlVerif.C04R.variables_expressible_rust'
#print axioms GqlVerif.C04R.variables_ser_valid_rust'
#print axioms GqlVerif.C04R.rx_expressible
#print axioms GqlVerif.C04R.rx_differ
#print axioms GqlVerif.C04R.valid_validC
#print axioms GqlVerif.C04R.validC_coerce
#print axioms GqlVerif.C04R.coerce_of_valid
#print axioms GqlVerif.C04R.varsValid_coerce
#print axioms GqlVerif.C04R.valid_mod_coercion_expressible
#print axioms GqlVerif.C04R.valid_mod_coercion_expressible_rust
#print axioms GqlVerif.C04R.ser_list_is_list
#print axioms GqlVerif.C04R.ser_listTy_null_or_list
#print axioms GqlVerif.C04R.valid_list_shape
#print axioms GqlVerif.C04R.bare_value_not_expressible
#print axioms GqlVerif.C04R.bare_value_not_expressible_rust
#print axioms GqlVerif.C04R.coerced_not_expressible
#print axioms GqlVerif.C04R.cx_expressible
#print axioms GqlVerif.C04R.cx_expressible_rust
-- the literal expressions of the default_* constructors (Model/DefaultLit.lean; compared with the emitted code on every run)
#print axioms GqlVerif.C04D.valueToLiteral_literalOk
#print axioms GqlVerif.C04D.valueToLiteral_ok_iff_literalOk
#print axioms GqlVerif.C04D.valueToLiteral_error_iff_literalOk
#print axioms GqlVerif.C04D.defaultBodies_names
#print axioms GqlVerif.C04D.defaultBodies_names_of_ok
-- the literal denotes the declared default at the declared type (Proofs/C04Defaults{Eval,Core,Module,Witness}.lean)
#print axioms GqlVerif.C04D.literal_core
#print axioms GqlVerif.C04D.default_typechecks
#print axioms GqlVerif.C04D.default_value_correct
#print axioms GqlVerif.C04D.default_body_mem
#print axioms GqlVerif.C04D.dx_typechecks
#print axioms GqlVerif.C04D.dx_value_correct
#print axioms GqlVerif.C04D.dx_run
#print axioms GqlVerif.C04D.nx_wrong_kind
#print axioms GqlVerif.C04D.nx_object_at_scalar
#print axioms GqlVerif.C04D.nx_enum
#print axioms GqlVerif.C04D.nx_missing_required
#print axioms GqlVerif.C04D.nx_oneOf
#print axioms GqlVerif.C04D.nx_unknown_field_dropped
#print axioms GqlVerif.C04D.null_default_panics
-- default literals under normalization rust (Proofs/C04DefaultsRust*.lean, P39)
#print axioms GqlVerif.C04DR.default_typechecks_rust
#print axioms GqlVerif.C04DR.default_value_correct_rust
#print axioms GqlVerif.C04DR.default_typechecks_rust'
#print axioms GqlVerif.C04DR.default_value_correct_rust'
#print axioms GqlVerif.C04DR.default_good_rust
#print axioms GqlVerif.C04DR.valueToLiteral_rename
#print axioms GqlVerif.C04DR.valueToLiteral_fail_alike
#print axioms GqlVerif.C04DR.evalLit_rename
#print axioms GqlVerif.C04DR.resolveTy_ren
#print axioms GqlVerif.C04DR.hasCompileError_rel
#print axioms GqlVerif.C04DR.enumOk_of_validC
#print axioms GqlVerif.C04DR.name_facts
#print axioms GqlVerif.C04DR.enum_facts
#print axioms GqlVerif.C04DR.variableType_tyRen
#print axioms GqlVerif.C04DR.dr_side
#print axioms GqlVerif.C04DR.dr_hyps
#print axioms GqlVerif.C04DR.dr_valid
#print axioms GqlVerif.C04DR.dr_bodies
#print axioms GqlVerif.C04DR.dr_typechecks
#print axioms GqlVerif.C04DR.dr_value_correct
#print axioms GqlVerif.C04DR.dr_run
#print axioms GqlVerif.C04DR.dr_expected
#print axioms GqlVerif.C04DR.dr_raw_names_fail
#print axioms GqlVerif.C04DR.wx_enum_idents
#print axioms GqlVerif.C04DR.wx_hyps
#print axioms GqlVerif.C04DR.wx_names
#print axioms GqlVerif.C04DR.wn_hyps
#print axioms GqlVerif.C04DR.nx_keyword_variant
