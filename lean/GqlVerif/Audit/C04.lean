import GqlVerif.Props.C04
open GqlVerif.C04
#print axioms GqlVerif.C01.ser_fields_iff
#print axioms variables_fields_are_declared
#print axioms variable_type_rule
#print axioms non_null_never_null
#print axioms skip_none_step
#print axioms no_skip_step
#print axioms none_is_null
#print axioms oneof_single_key
#print axioms unit_variables_null
#print axioms unit_struct_is_null
#print axioms GqlVerif.C01.ser_keys_exact
#print axioms GqlVerif.C01.ser_keys_nodup
#print axioms GqlVerif.C01.ser_keys_all
#print axioms GqlVerif.C01.oneof_keys
#print axioms GqlVerif.C01.ser_conforms
