import GqlVerif.Props.C01
import GqlVerif.Proofs.C01EndToEnd
import GqlVerif.Proofs.C01AbstractI
import GqlVerif.Proofs.C01RecursiveE
import GqlVerif.Proofs.C01RecursiveV
import GqlVerif.Proofs.C01Rust
import GqlVerif.Proofs.C01VariantSpread
import GqlVerif.Proofs.C01VariantSpreadE
import GqlVerif.Proofs.C01VariantSpreadG
import GqlVerif.Proofs.C01RustSpread
import GqlVerif.Proofs.C01DenyTreeClass
import GqlVerif.Proofs.C01DenyFragWitness
import GqlVerif.Proofs.C01MixedE
import GqlVerif.Proofs.C01MixedF
import GqlVerif.Proofs.C01MixedG
import GqlVerif.Proofs.ModuleOkInputsMore
import GqlVerif.Proofs.ModuleOkInputsClasses
import GqlVerif.Proofs.C01MixedContentW
import GqlVerif.Proofs.C01MixedContentSkip
import GqlVerif.Proofs.C01NestedW
import GqlVerif.Proofs.C01NestedL
import GqlVerif.Proofs.C01NestedAbsW
import GqlVerif.Proofs.C01NestedAbsJ
import GqlVerif.Proofs.C01AliasFragW
import GqlVerif.Proofs.C01AliasFragJ
import GqlVerif.Proofs.C01NestedGenW
import GqlVerif.Proofs.C01NestedGenJ
import GqlVerif.Proofs.C01NestedGenXW
import GqlVerif.Proofs.C01NestedGenXJ
import GqlVerif.Proofs.C01NestedRich
import GqlVerif.Proofs.C01NestedBW
import GqlVerif.Proofs.C01NestedBJ
open GqlVerif.C01
#print axioms accepts_mono
#print axioms conforming_int_accepted
#print axioms conforming_string_accepted
#print axioms conforming_id_accepted
#print axioms int_roundtrip_leaf
#print axioms string_roundtrip_leaf
#print axioms id_canonical_leaf
#print axioms leaf_roundtrip
#print axioms leaf_lossless
#print axioms int_position_rt
#print axioms string_position_rt
#print axioms enum_position_rt
#print axioms id_field_roundtrip
#print axioms struct_accepts
#print axioms struct_roundtrip
#print axioms struct_roundtrip_lookup
#print axioms struct_roundtrip_keys
#print axioms unknown_keys_ignored
#print axioms struct_roundtrip_path
#print axioms struct_position_roundtrip
#print axioms tagged_read
#print axioms tagged_roundtrip
#print axioms flatten_eq
#print axioms flatten_take_roundtrip
#print axioms flatten_roundtrip
#print axioms overlap_loses_key
#print axioms overlap_loses_key_silently
#print axioms disjoint_control
-- end to end from the code generator, for tree-shaped operations (Proofs/C01EndToEnd*.lean)
#print axioms GqlVerif.C01.E2E.tree_items_shape
#print axioms GqlVerif.C01.E2E.tree_module_shape
#print axioms GqlVerif.C01.E2E.fieldOf_shape
#print axioms GqlVerif.C01.E2E.tree_accepts
#print axioms GqlVerif.C01.E2E.tree_lossless
#print axioms GqlVerif.C01.E2E.tree_roundtrip
-- abstract positions (interfaces / unions with inline fragments) and named fragments (Proofs/C01Abstract*.lean)
#print axioms GqlVerif.C01.E2E.variant_items_shape
#print axioms GqlVerif.C01.E2E.variant_accepts
#print axioms GqlVerif.C01.E2E.variant_lossless
#print axioms GqlVerif.C01.E2E.variant_roundtrip
#print axioms GqlVerif.C01.E2E.fragment_items_shape
#print axioms GqlVerif.C01.E2E.fragment_struct_shape
#print axioms GqlVerif.C01.E2E.fragment_accepts
#print axioms GqlVerif.C01.E2E.fragment_lossless
#print axioms GqlVerif.C01.E2E.fragment_roundtrip
#print axioms GqlVerif.C01.E2E.fragment_overlap_loses_key
#print axioms GqlVerif.C01.E2E.variantOp_of_treeOp
#print axioms GqlVerif.C01.E2E.fragmentOp_of_variantOp
-- recursive fragments (Box) and spreads inside fragment bodies (Proofs/C01Recursive*.lean)
#print axioms GqlVerif.C01.E2E.recfragment_items_shape
#print axioms GqlVerif.C01.E2E.recfragment_struct_shape
#print axioms GqlVerif.C01.E2E.recfragment_accepts
#print axioms GqlVerif.C01.E2E.recfragment_lossless
#print axioms GqlVerif.C01.E2E.recfragment_roundtrip
#print axioms GqlVerif.C01.E2E.canonR_stable
-- the same end-to-end statements for a context with `normalization = rust`, by transfer (Proofs/C01Rust.lean)
#print axioms GqlVerif.C01.E2E.transfer_accepts
#print axioms GqlVerif.C01.E2E.transfer_roundtrip
#print axioms GqlVerif.C01.E2E.tree_accepts_rust
#print axioms GqlVerif.C01.E2E.tree_lossless_rust
#print axioms GqlVerif.C01.E2E.variant_accepts_rust
#print axioms GqlVerif.C01.E2E.variant_lossless_rust
#print axioms GqlVerif.C01.E2E.fragment_accepts_rust
#print axioms GqlVerif.C01.E2E.fragment_lossless_rust
#print axioms GqlVerif.C01.E2E.recfragment_accepts_rust
#print axioms GqlVerif.C01.E2E.recfragment_lossless_rust
-- the defect repaired by 78c01b5, as a positive statement on the repaired model (Proofs/C01RecursiveV.lean)
#print axioms GqlVerif.C01.E2E.variantspread_alias_keeps_sibling
-- named fragment spreads at abstract positions (Proofs/C01VariantSpread*.lean)
#print axioms GqlVerif.C01.E2E.variantSpreadOp_of_variantOp
#print axioms GqlVerif.C01.E2E.variantspread_items_shape
#print axioms GqlVerif.C01.E2E.variantspread_module_shape
#print axioms GqlVerif.C01.E2E.variantspread_accepts
#print axioms GqlVerif.C01.E2E.variantspread_lossless_partial
#print axioms GqlVerif.C01.E2E.variantspread_roundtrip_partial
#print axioms GqlVerif.C01.E2E.variantspread_b_roundtrip
#print axioms GqlVerif.C01.E2E.variantspread_overlap_interface_loses_key
#print axioms GqlVerif.C01.E2E.variantspread_overlap_variant_loses_key
#print axioms GqlVerif.C01.E2E.variantspread_b_overlap_loses_key
#print axioms GqlVerif.C01.E2E.ws_items_shape
#print axioms GqlVerif.C01.E2E.ws_roundtripH
#print axioms GqlVerif.C01.E2E.bs_items_shape
-- lossless for the whole class VariantSpreadOp, (a) and (b) spreads (Proofs/C01VariantSpreadD.lean, E.lean)
#print axioms GqlVerif.C01.E2E.variantspread_lossless
#print axioms GqlVerif.C01.E2E.variantspread_roundtrip
#print axioms GqlVerif.C01.E2E.variantspread_roundtrip_noB
#print axioms GqlVerif.C01.E2E.canonSelD_noB
#print axioms GqlVerif.C01.E2E.deStruct_borrow_finds
#print axioms GqlVerif.C01.E2E.rtAbsV_w
#print axioms GqlVerif.C01.E2E.rtAbsD
#print axioms GqlVerif.C01.E2E.bs_roundtripH
#print axioms GqlVerif.C01.E2E.variantspread_b_rust_names_needed
-- class tightened after the independent review (no key with two readers at an abstract position), content theorem, class extensions (Proofs/C01VariantSpread{E,F,G,H}.lean)
#print axioms GqlVerif.C01.E2E.absOkS_disjoint
#print axioms GqlVerif.C01.E2E.variantspread_b_merge_loses_fields
#print axioms GqlVerif.C01.E2E.variantspread_b_inline_merge_loses_fields
#print axioms GqlVerif.C01.E2E.variantspread_content
#print axioms GqlVerif.C01.E2E.variantspread_roundtrip_content
#print axioms GqlVerif.C01.E2E.merge_loss_not_sameContent
#print axioms GqlVerif.C01.E2E.mi_items_shape
#print axioms GqlVerif.C01.E2E.mi_roundtrip
#print axioms GqlVerif.C01.E2E.variantspread_two_inline_overlap_dup_field
#print axioms GqlVerif.C01.E2E.ls_items_shape
#print axioms GqlVerif.C01.E2E.ls_roundtrip
#print axioms GqlVerif.C01.E2E.variantspread_lone_possible_type_rejects
#print axioms GqlVerif.C01.E2E.variantSpreadOp2_of_variantSpreadOp
#print axioms GqlVerif.C01.E2E.variantspread2_items_shape
#print axioms GqlVerif.C01.E2E.conformsV_norm
#print axioms GqlVerif.C01.E2E.variantspread2_accepts
#print axioms GqlVerif.C01.E2E.variantspread2_lossless
#print axioms GqlVerif.C01.E2E.variantspread2_roundtrip
#print axioms GqlVerif.C01.E2E.variantspread2_content
#print axioms GqlVerif.C01.E2E.variantspread2_roundtrip_content
#print axioms GqlVerif.C01.E2E.a2_items_shape
#print axioms GqlVerif.C01.E2E.a2_roundtripH
#print axioms GqlVerif.C01.E2E.variantspread2_alias_keeps_sibling
#print axioms GqlVerif.C01.E2E.variantspread2_alias_type_needed
#print axioms GqlVerif.C01.E2E.variantspread2_edge_needed
-- VariantSpreadOp / VariantSpreadOp2 under normalization rust, by transfer (Proofs/C01RustSpread.lean)
#print axioms GqlVerif.C01.E2E.variantspread_accepts_rust
#print axioms GqlVerif.C01.E2E.variantspread_roundtrip_rust
#print axioms GqlVerif.C01.E2E.variantspread_lossless_rust
#print axioms GqlVerif.C01.E2E.variantspread_content_rust
#print axioms GqlVerif.C01.E2E.variantspread_roundtrip_noB_rust
#print axioms GqlVerif.C01.E2E.variantspread2_accepts_rust
#print axioms GqlVerif.C01.E2E.variantspread2_roundtrip_rust
#print axioms GqlVerif.C01.E2E.variantspread2_lossless_rust
#print axioms GqlVerif.C01.E2E.variantspread2_content_rust
#print axioms GqlVerif.C01.E2E.ns_roundtrip_rust
#print axioms GqlVerif.C01.E2E.ns2_roundtrip_rust
#print axioms GqlVerif.C01.E2E.ns_items_differ
-- the end-to-end theorems under deny: a denied field is omitted from the types while the server still sends it (Proofs/C01Deny*.lean)
#print axioms GqlVerif.C01.Deny.topEnvD_of_module
#print axioms GqlVerif.C01.Deny.treeD_accepts
#print axioms GqlVerif.C01.Deny.treeD_lossless
#print axioms GqlVerif.C01.Deny.treeD_roundtrip
#print axioms GqlVerif.C01.Deny.treeD_roundtrip_of_erased
#print axioms GqlVerif.C01.Deny.treeOpR_unfold
#print axioms GqlVerif.C01.Deny.treeOpR_of_treeOp
#print axioms GqlVerif.C01.Deny.treeR_accepts
#print axioms GqlVerif.C01.Deny.treeR_lossless
#print axioms GqlVerif.C01.Deny.treeR_roundtrip
#print axioms GqlVerif.C01.Deny.fragD_accepts
#print axioms GqlVerif.C01.Deny.fragD_lossless
#print axioms GqlVerif.C01.Deny.fragD_roundtrip
#print axioms GqlVerif.C01.Deny.fragOpD_envOK
#print axioms GqlVerif.C01.Deny.wd_roundtrip
#print axioms GqlVerif.C01.Deny.wd_roundtrip_dirty
#print axioms GqlVerif.C01.Deny.fd_roundtrip
#print axioms GqlVerif.C01.Deny.lone_spread_matters
#print axioms GqlVerif.C01.Deny.sibling_key_covered
#print axioms GqlVerif.C01.Deny.tn_condition_artifact
-- MixedOp / MixedOp2: spreads at object positions AND at abstract positions of one operation (Proofs/C01Mixed*.lean, P38)
#print axioms GqlVerif.C01M.mixed_items_shape
#print axioms GqlVerif.C01M.mixed_accepts
#print axioms GqlVerif.C01M.mixed_lossless
#print axioms GqlVerif.C01M.mixed_roundtrip
#print axioms GqlVerif.C01M.mixedOp_of_fragmentOp
#print axioms GqlVerif.C01M.mixedOp_of_variantSpreadOp
#print axioms GqlVerif.C01M.mixedKeysOk_of_fragKeysOk
#print axioms GqlVerif.C01M.mixedKeysOk_of_variantSpreadOp
#print axioms GqlVerif.C01M.mixedRustOk_of_fragRustOk
#print axioms GqlVerif.C01M.mixedRustOk_of_spreadRustOkD
#print axioms GqlVerif.C01M.conformsOpM_eq_F
#print axioms GqlVerif.C01M.conformsOpM_eq_S
#print axioms GqlVerif.C01M.bodyItemsM_eq_F
#print axioms GqlVerif.C01M.bodyItemsM_eq_S
#print axioms GqlVerif.C01M.canonSelM_eq_F
#print axioms GqlVerif.C01M.canonSelM_eq_D
#print axioms GqlVerif.C01M.mixed_roundtrip_on_S
#print axioms GqlVerif.C01M.mixed_roundtrip_on_F'
#print axioms GqlVerif.C01M.mx_not_F
#print axioms GqlVerif.C01M.mx_not_S
#print axioms GqlVerif.C01M.mx_class
#print axioms GqlVerif.C01M.mx_items_shape
#print axioms GqlVerif.C01M.mx_acceptsCat
#print axioms GqlVerif.C01M.mx_roundtrip
#print axioms GqlVerif.C01M.mx2_roundtrip
#print axioms GqlVerif.C01M.mixed2_items_shape
#print axioms GqlVerif.C01M.mixed2_accepts
#print axioms GqlVerif.C01M.mixed2_lossless
#print axioms GqlVerif.C01M.mixed2_roundtrip
#print axioms GqlVerif.C01M.mixedOp2_of_mixedOp
#print axioms GqlVerif.C01M.mixedOp2_of_variantSpreadOp2
#print axioms GqlVerif.C01M.ex_not_F
#print axioms GqlVerif.C01M.ex_not_S
#print axioms GqlVerif.C01M.ex_not_S2
#print axioms GqlVerif.C01M.ex_not_M
#print axioms GqlVerif.C01M.ex_roundtrip
#print axioms GqlVerif.C01M.mixed_keys_needed
#print axioms GqlVerif.C01M.mixed_rust_needed
#print axioms GqlVerif.C01M.mixed2_oi_needed
-- moduleOk, the side condition of every end-to-end theorem, as a decidable predicate on the INPUT (Proofs/ModuleOkInputs*.lean, P42)
#print axioms GqlVerif.MOK.enumItem_tablesWf_iff
#print axioms GqlVerif.MOK.module_item_names
#print axioms GqlVerif.MOK.moduleOk_iff_inputs
#print axioms GqlVerif.MOK.moduleOk_of_inputs
#print axioms GqlVerif.MOK.moduleOk_eq_inputs
#print axioms GqlVerif.MOK.moduleOkIn_iff
#print axioms GqlVerif.MOK.moduleOkIn_noClash
#print axioms GqlVerif.MOK.with_inputs
#print axioms GqlVerif.MOK.reviewer_counterexample
#print axioms GqlVerif.MOK.reviewer_counterexample_output
#print axioms GqlVerif.MOK.ex_in
#print axioms GqlVerif.MOK.px_class
#print axioms GqlVerif.MOK.px_in
#print axioms GqlVerif.MOK.px_roundtrip
#print axioms GqlVerif.MOK.tree_roundtrip_inputs
#print axioms GqlVerif.MOK.tree_accepts_inputs
#print axioms GqlVerif.MOK.variant_roundtrip_inputs
#print axioms GqlVerif.MOK.fragment_roundtrip_inputs
#print axioms GqlVerif.MOK.mixed_roundtrip_inputs
#print axioms GqlVerif.MOK.variantspread_roundtrip_inputs
#print axioms GqlVerif.MOK.variantspread_roundtrip_content_inputs
#print axioms GqlVerif.MOK.mixed_roundtrip_on_F_inputs
#print axioms GqlVerif.MOK.recfragment_roundtrip_inputs
#print axioms GqlVerif.MOK.variantspread2_roundtrip_inputs
#print axioms GqlVerif.MOK.treeD_roundtrip_inputs
#print axioms GqlVerif.MOK.treeD_roundtrip_of_erased_inputs
#print axioms GqlVerif.MOK.treeR_roundtrip_inputs
#print axioms GqlVerif.MOK.fragD_roundtrip_inputs
#print axioms GqlVerif.MOK.tree_roundtrip_rust_inputs
#print axioms GqlVerif.MOK.variant_roundtrip_rust_inputs
#print axioms GqlVerif.MOK.fragment_roundtrip_rust_inputs
#print axioms GqlVerif.MOK.recfragment_roundtrip_rust_inputs
#print axioms GqlVerif.MOK.variantspread_roundtrip_rust_inputs
#print axioms GqlVerif.MOK.variantspread2_roundtrip_rust_inputs
-- content theorem for MixedOp / MixedOp2 / FragmentOp (Proofs/C01MixedContent*.lean, P43)
#print axioms GqlVerif.C01M.bodyM_content
#print axioms GqlVerif.C01M.mixed_content
#print axioms GqlVerif.C01M.mixed_roundtrip_content
#print axioms GqlVerif.C01M.mixed2_content
#print axioms GqlVerif.C01M.mixed2_roundtrip_content
#print axioms GqlVerif.C01M.mixed_content_on_S
#print axioms GqlVerif.C01M.mixed_content_on_F
#print axioms GqlVerif.C01M.fragment_roundtrip_content
#print axioms GqlVerif.C01M.mx_roundtrip_content
#print axioms GqlVerif.C01M.mx_content
#print axioms GqlVerif.C01M.mx2_roundtrip_content
#print axioms GqlVerif.C01M.ex_roundtrip_content
#print axioms GqlVerif.C01M.ex_content
#print axioms GqlVerif.C01M.sameContent_mx_barks
#print axioms GqlVerif.C01M.mx_barks_survives
#print axioms GqlVerif.C01M.keys_loss_not_sameContent
#print axioms GqlVerif.C01M.k_roundtrip
#print axioms GqlVerif.C01M.mixed_keys_needed_content
#print axioms GqlVerif.C01M.oi_loss_not_sameContent
#print axioms GqlVerif.C01M.mixed2_oi_needed_content
#print axioms GqlVerif.C01M.sk_roundtrip_content
#print axioms GqlVerif.C01M.sk_roundtrip
#print axioms GqlVerif.C01M.sk_content
#print axioms GqlVerif.C01M.sk_not_content_noskip
-- NestedOp: fragment bodies that spread further fragments, to any depth, at object positions (Proofs/C01Nested*.lean, P45)
#print axioms GqlVerif.C01N.nested_items_shape
#print axioms GqlVerif.C01N.nested_fragment_shape
#print axioms GqlVerif.C01N.nestedOp_of_mixedOp
#print axioms GqlVerif.C01N.nested_accepts
#print axioms GqlVerif.C01N.nested_lossless
#print axioms GqlVerif.C01N.nested_roundtrip
#print axioms GqlVerif.C01N.canonSelN_eq_M
#print axioms GqlVerif.C01N.conformsOpN_eq_M
#print axioms GqlVerif.C01N.conformsLooseN_eq_M
#print axioms GqlVerif.C01N.nestedKeysOk_of_mixed
#print axioms GqlVerif.C01N.nestedRustOk_of_mixed
#print axioms GqlVerif.C01N.nested_roundtrip_on_M
#print axioms GqlVerif.C01N.okB_deStructMapN
#print axioms GqlVerif.C01N.deStructN_finds
#print axioms GqlVerif.C01N.nx_roundtrip
#print axioms GqlVerif.C01N.nx2_roundtrip
#print axioms GqlVerif.C01N.n3_roundtrip
#print axioms GqlVerif.C01N.nx2_accepts
#print axioms GqlVerif.C01N.nx2_items_shape
#print axioms GqlVerif.C01N.n3_items_shape
#print axioms GqlVerif.C01N.nested_keys_needed
#print axioms GqlVerif.C01N.nested_rust_needed
-- NestedAbsOp: nested fragments spread at abstract positions (Proofs/C01NestedAbs*.lean, P46)
#print axioms GqlVerif.C01NA.nestedabs_items_shape
#print axioms GqlVerif.C01NA.nestedabs_accepts
#print axioms GqlVerif.C01NA.nestedabs_lossless
#print axioms GqlVerif.C01NA.nestedabs_roundtrip
#print axioms GqlVerif.C01NA.nestedAbsOp_of_nestedOp
#print axioms GqlVerif.C01NA.bodyItemsA_eq_M
#print axioms GqlVerif.C01NA.conformsLooseA_eq_N
#print axioms GqlVerif.C01NA.canonSelA_eq_N
#print axioms GqlVerif.C01NA.nestedAbsKeysOk_eq_N
#print axioms GqlVerif.C01NA.nestedAbsSideOk_eq_N
#print axioms GqlVerif.C01NA.absTagOk_of_nestedOp
#print axioms GqlVerif.C01NA.nestedabs_roundtrip_on_nestedOp
#print axioms GqlVerif.C01NA.na_class
#print axioms GqlVerif.C01NA.na_not_N
#print axioms GqlVerif.C01NA.na_items_shape
#print axioms GqlVerif.C01NA.na_roundtrip
#print axioms GqlVerif.C01NA.na_roundtrip_eval
#print axioms GqlVerif.C01NA.na_roundtrip_cat
#print axioms GqlVerif.C01NA.na_accepts
#print axioms GqlVerif.C01NA.nc_items_shape
#print axioms GqlVerif.C01NA.nc_roundtrip
#print axioms GqlVerif.C01NA.nestedabs_tag_needed
#print axioms GqlVerif.C01NA.nestedabs_variant_keys_needed
-- AliasFragOp: fragments whose whole body is one spread (type aliases), themselves spread (Proofs/C01AliasFrag*.lean, P48)
#print axioms GqlVerif.C01AF.deFlat_chain
#print axioms GqlVerif.C01AF.dePath_chain
#print axioms GqlVerif.C01AF.serPath_chain
#print axioms GqlVerif.C01AF.memSpec_struct
#print axioms GqlVerif.C01AF.memSpec_chain
#print axioms GqlVerif.C01AF.okB_deStructMapA
#print axioms GqlVerif.C01AF.deStructA_finds
#print axioms GqlVerif.C01AF.aliasfrag_items_shape
#print axioms GqlVerif.C01AF.aliasfrag_fragment_shape
#print axioms GqlVerif.C01AF.aliasFragOp_of_nestedOp
#print axioms GqlVerif.C01AF.aliasfrag_accepts
#print axioms GqlVerif.C01AF.aliasfrag_lossless
#print axioms GqlVerif.C01AF.aliasfrag_roundtrip
#print axioms GqlVerif.C01AF.aliasKeysOk_eq_N
#print axioms GqlVerif.C01AF.aliasRustOk_eq_N
#print axioms GqlVerif.C01AF.aliasfrag_roundtrip_on_N
#print axioms GqlVerif.C01AF.alias_cycle_not_in_class
#print axioms GqlVerif.C01AF.af_class
#print axioms GqlVerif.C01AF.af_not_N
#print axioms GqlVerif.C01AF.af_items_shape
#print axioms GqlVerif.C01AF.af_accepts
#print axioms GqlVerif.C01AF.af_roundtrip
#print axioms GqlVerif.C01AF.aliasfrag_keys_needed
#print axioms GqlVerif.C01AF.aliasfrag_rust_needed
-- NestedGenOp / NestedGen2Op: nested fragments at abstract positions that also have interface-level fields / inline fragments with fields of their own (Proofs/C01NestedGen*.lean, P47)
#print axioms GqlVerif.C01NG.nestedgen_items_shape
#print axioms GqlVerif.C01NG.nestedgen_accepts
#print axioms GqlVerif.C01NG.nestedgen_lossless
#print axioms GqlVerif.C01NG.nestedgen_roundtrip
#print axioms GqlVerif.C01NG.nestedGenOp_of_nestedAbsOp
#print axioms GqlVerif.C01NG.bodyItemsA_eq_A
#print axioms GqlVerif.C01NG.conformsLooseA_eq_A
#print axioms GqlVerif.C01NG.canonSelA_eq_A
#print axioms GqlVerif.C01NG.nestedGenKeysOk_eq_A
#print axioms GqlVerif.C01NG.nestedGenSideOk_eq_A
#print axioms GqlVerif.C01NG.absTagOk_eq_A
#print axioms GqlVerif.C01NG.nestedgen_roundtrip_on_nestedAbsOp
#print axioms GqlVerif.C01NG.ng_class
#print axioms GqlVerif.C01NG.ng_not_A
#print axioms GqlVerif.C01NG.ng_items_shape
#print axioms GqlVerif.C01NG.ng_accepts
#print axioms GqlVerif.C01NG.ng_roundtrip_canon
#print axioms GqlVerif.C01NG.ng_roundtrip_eval
#print axioms GqlVerif.C01NG.ng_canon_value
#print axioms GqlVerif.C01NG.nestedgen_poskeys_needed
#print axioms GqlVerif.C01NX.nestedgen2_items_shape
#print axioms GqlVerif.C01NX.nestedgen2_accepts
#print axioms GqlVerif.C01NX.nestedgen2_lossless
#print axioms GqlVerif.C01NX.nestedgen2_roundtrip
#print axioms GqlVerif.C01NX.nestedGen2Op_of_nestedGenOp
#print axioms GqlVerif.C01NX.nestedGen2Op_of_nestedAbsOp
#print axioms GqlVerif.C01NX.bodyItemsA_eq_G
#print axioms GqlVerif.C01NX.conformsLooseA_eq_G
#print axioms GqlVerif.C01NX.canonSelA_eq_G
#print axioms GqlVerif.C01NX.nestedGen2KeysOk_eq_G
#print axioms GqlVerif.C01NX.nestedGen2SideOk_eq_G
#print axioms GqlVerif.C01NX.absTagOk_eq_G
#print axioms GqlVerif.C01NX.nestedgen2_roundtrip_on_nestedGenOp
#print axioms GqlVerif.C01NX.nestedgen2_roundtrip_on_nestedAbsOp
#print axioms GqlVerif.C01NX.nx_class
#print axioms GqlVerif.C01NX.nx_not_G
#print axioms GqlVerif.C01NX.nx_not_A
#print axioms GqlVerif.C01NX.nx_items_shape
#print axioms GqlVerif.C01NX.nx_accepts
#print axioms GqlVerif.C01NX.nx_roundtrip_canon
#print axioms GqlVerif.C01NX.nx_roundtrip_eval
#print axioms GqlVerif.C01NX.nx_canon_value
#print axioms GqlVerif.C01NX.nestedgen2_overlap_needed
-- instances cited in the text (docs/REVIEW_5.md findings 2, 3)
#print axioms GqlVerif.C01NA.nb_class
#print axioms GqlVerif.C01NA.nb_not_N
#print axioms GqlVerif.C01NA.nb_roundtrip
#print axioms GqlVerif.C01AF.af2_class
#print axioms GqlVerif.C01AF.af2_not_N
#print axioms GqlVerif.C01AF.af2_roundtrip
#print axioms GqlVerif.C01AF.af3_class
#print axioms GqlVerif.C01AF.af3_not_N
#print axioms GqlVerif.C01AF.af3_roundtrip
#print axioms GqlVerif.C01N.Rich.rich1_hyps
#print axioms GqlVerif.C01N.Rich.rich2_hyps
-- NestedBOp: spreads of fragments on the abstract type itself next to nested spreads (Proofs/C01NestedB*.lean, P49)
#print axioms GqlVerif.C01NB.nestedb_items_shape
#print axioms GqlVerif.C01NB.nestedb_accepts
#print axioms GqlVerif.C01NB.nestedb_lossless
#print axioms GqlVerif.C01NB.nestedb_roundtrip
#print axioms GqlVerif.C01NB.nestedBOp_of_nestedGen2Op
#print axioms GqlVerif.C01NB.bodyItemsA_eq_X
#print axioms GqlVerif.C01NB.conformsLooseA_eq_X_op
#print axioms GqlVerif.C01NB.canonSelA_eq_X
#print axioms GqlVerif.C01NB.nestedBKeysOk_eq_X
#print axioms GqlVerif.C01NB.nestedBSideOk_eq_X
#print axioms GqlVerif.C01NB.absTagOk_eq_X
#print axioms GqlVerif.C01NB.nestedb_roundtrip_on_nestedGen2Op
#print axioms GqlVerif.C01NB.nb_class
#print axioms GqlVerif.C01NB.nb_not_X
#print axioms GqlVerif.C01NB.nb_not_S
#print axioms GqlVerif.C01NB.nb_items_shape
#print axioms GqlVerif.C01NB.nb_accepts
#print axioms GqlVerif.C01NB.nb_roundtrip_eval
#print axioms GqlVerif.C01NB.nb_roundtrip_canon
#print axioms GqlVerif.C01NB.nb_canon_value
#print axioms GqlVerif.C01NB.nb_roundtrip_eval_cat
#print axioms GqlVerif.C01NB.nb_disj
#print axioms GqlVerif.C01NB.nestedb_b_overlap_needed
#print axioms GqlVerif.C01NB.nestedb_rust_names_needed
#print axioms GqlVerif.C01NB.nestedb_disj_not_needed
