import GqlVerif.Props.C01
open GqlVerif.C01
#print axioms accepts_mono
#print axioms conforming_int_accepted
#print axioms conforming_string_accepted
#print axioms conforming_id_accepted
#print axioms int_roundtrip_leaf
#print axioms string_roundtrip_leaf
#print axioms id_canonical_leaf
