import GqlVerif.Props.C02
import GqlVerif.Proofs.C02Response
import GqlVerif.Proofs.C02CompleteAll
import GqlVerif.Proofs.C02CompleteFrontends
import GqlVerif.Proofs.C02MembersModule
open GqlVerif
#print axioms C02.wellScoped_iff
#print axioms C02.selected_types_used
#print axioms C02.selected_field_types_used
#print axioms C02.spread_fragments_used
#print axioms C02.inline_conditions_used
#print axioms C02.variable_types_used
#print axioms C02.used_inputs_closed
#print axioms C02.used_inputs_closed_varPhase
#print axioms C02.outputOnly_needed
#print axioms C02.inputItems_mentions_defined
#print axioms C02.variables_mentions_defined
#print axioms C02.keyword_input_name_mismatch
#print axioms C02.inputs_resolved_in_module
#print axioms C02.variables_resolved_in_module
#print axioms C02.responseItems_fuel_sufficient
#print axioms C02.fragmentItems_fuel_sufficient
#print axioms C02.responseForQuery_fuel
-- the response items and the whole module (Proofs/C02Response.lean)
#print axioms C02.response_mentions_resolved
#print axioms C02.response_mentions_resolved_mapped
#print axioms C02.module_well_scoped_partial
#print axioms C02.module_no_undefined_mentions
#print axioms C02.module_defines_eq
#print axioms C02.defines_nodup_iff
#print axioms C02.defines_nodup
#print axioms C02.module_serde_crate
#print axioms C02.module_well_scoped_iff
#print axioms C02.normalization_needed
#print axioms C02.nameMap_needed
#print axioms C02.defines_dup_witness
#print axioms C02.member_dup_witness
#print axioms C02.keyword_enum_variable_mismatch
#print axioms C02.object_variable_unresolved
-- "supported inputs are accepted" (Proofs/C02Complete*.lean)
#print axioms GqlVerif.C02Complete.resolve_complete
#print axioms GqlVerif.C02Complete.resolve_complete_unrestricted_false
#print axioms GqlVerif.C02Complete.schemaWf_needed
#print axioms GqlVerif.C02Complete.condition_complete
#print axioms GqlVerif.C02Complete.w_inline_untyped
#print axioms GqlVerif.C02Complete.w_unknown_var_type
#print axioms GqlVerif.C02Complete.w_iface_in_iface
#print axioms GqlVerif.C02Complete.w_sub_two_same
#print axioms GqlVerif.C02Complete.w_iface_in_union
#print axioms GqlVerif.C02Complete.w_union_in_iface
#print axioms GqlVerif.C02Complete.w_frag_on_scalar
#print axioms GqlVerif.C02Complete.w_sub_spread_two_same
#print axioms GqlVerif.C02Gen.codegen_succeeds
#print axioms GqlVerif.C02Gen.generate_succeeds
#print axioms GqlVerif.C02Gen.resolve_queryWf
#print axioms GqlVerif.C02Gen.varsGenOk_of_doc
#print axioms GqlVerif.C02Gen.w_default_null
#print axioms GqlVerif.C02Gen.w_default_null_nested
#print axioms GqlVerif.C02Gen.w_default_var
#print axioms GqlVerif.C02Gen.w_oneof_nonnull
#print axioms GqlVerif.C02All.supported_input_accepted_and_scoped
#print axioms GqlVerif.C02Frontends.schemaWf_toSchema
#print axioms GqlVerif.C02Frontends.schemaWfGen_toSchema
#print axioms GqlVerif.C02Frontends.schemaWf_fromSdl
#print axioms GqlVerif.C02Frontends.schemaWf_fromIntro
-- member distinctness as a predicate on schema, query and options (Proofs/C02Members*.lean)
#print axioms GqlVerif.C02M.calc_members
#print axioms GqlVerif.C02M.module_members_eq
#print axioms GqlVerif.C02M.members_iff
#print axioms GqlVerif.C02M.members_nodup
#print axioms GqlVerif.C02M.module_well_scoped_iff_inputs
#print axioms GqlVerif.C02M.duplicateMembers_nil_iff
#print axioms GqlVerif.C02M.enumMemberIdents_nodup_iff
#print axioms GqlVerif.C02M.membersOK_iff
#print axioms GqlVerif.C02M.snake_collision_witness
#print axioms GqlVerif.C02M.on_witness
#print axioms GqlVerif.C02M.enum_collision_witness
#print axioms GqlVerif.C02M.two_inline_witness
#print axioms GqlVerif.C02M.fragment_field_witness
#print axioms GqlVerif.C02M.unknown_variant_witness
