import GqlVerif.Props.C02
import GqlVerif.Proofs.C02Response
open GqlVerif
#print axioms C02.wellScoped_iff
#print axioms C02.selected_types_used
#print axioms C02.selected_field_types_used
#print axioms C02.spread_fragments_used
#print axioms C02.inline_conditions_used
#print axioms C02.variable_types_used
#print axioms C02.used_inputs_closed
#print axioms C02.used_inputs_closed_varPhase
#print axioms C02.outputOnly_needed
#print axioms C02.inputItems_mentions_defined
#print axioms C02.variables_mentions_defined
#print axioms C02.keyword_input_name_mismatch
#print axioms C02.inputs_resolved_in_module
#print axioms C02.variables_resolved_in_module
#print axioms C02.responseItems_fuel_sufficient
#print axioms C02.fragmentItems_fuel_sufficient
#print axioms C02.responseForQuery_fuel
-- the response items and the whole module (Proofs/C02Response.lean)
#print axioms C02.response_mentions_resolved
#print axioms C02.response_mentions_resolved_mapped
#print axioms C02.module_well_scoped_partial
#print axioms C02.module_no_undefined_mentions
#print axioms C02.module_defines_eq
#print axioms C02.defines_nodup_iff
#print axioms C02.defines_nodup
#print axioms C02.module_serde_crate
#print axioms C02.module_well_scoped_iff
#print axioms C02.normalization_needed
#print axioms C02.nameMap_needed
#print axioms C02.defines_dup_witness
#print axioms C02.member_dup_witness
#print axioms C02.keyword_enum_variable_mismatch
#print axioms C02.object_variable_unresolved
