import GqlVerif.Props.C02
open GqlVerif
#print axioms C02.wellScoped_iff
#print axioms C02.selected_types_used
#print axioms C02.selected_field_types_used
#print axioms C02.spread_fragments_used
#print axioms C02.inline_conditions_used
#print axioms C02.variable_types_used
#print axioms C02.used_inputs_closed
#print axioms C02.used_inputs_closed_varPhase
#print axioms C02.outputOnly_needed
#print axioms C02.inputItems_mentions_defined
#print axioms C02.variables_mentions_defined
#print axioms C02.keyword_input_name_mismatch
#print axioms C02.inputs_resolved_in_module
#print axioms C02.variables_resolved_in_module
#print axioms C02.responseItems_fuel_sufficient
#print axioms C02.fragmentItems_fuel_sufficient
#print axioms C02.responseForQuery_fuel
