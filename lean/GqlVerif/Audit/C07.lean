import GqlVerif.Props.C07
import GqlVerif.Proofs.C07Frontends
import GqlVerif.Proofs.C07ExtensionsCodegen
import GqlVerif.Proofs.C07Permutations
import GqlVerif.Proofs.C07PermCodegen
open GqlVerif.C07
#print axioms wrapped_equal
#print axioms absent_eq_null
#print axioms field_type_agree
#print axioms deprecation_agree
#print axioms deprecation_first_directive
#print axioms one_of_agree
#print axioms roots_agree
-- whole-schema agreement of the two front-ends (Proofs/C07Frontends.lean)
#print axioms sdl_spec
#print axioms intro_spec
#print axioms frontends_equal_of_renderings
#print axioms frontends_equal
#print axioms parseIntro_json
#print axioms frontends_equal_json
-- `extend type` blocks and type-order permutations (Proofs/C07Extensions*.lean, C07Permutations.lean)
#print axioms sdl_spec_ext
#print axioms frontends_iso_ext_of_renderings
#print axioms frontends_iso_ext_json
#print axioms frontends_equal_ext_iff
#print axioms frontends_equal_ext
#print axioms resolve_iso
#print axioms codegen_respects_field_renumbering
#print axioms codegen_equal_ext_of_renderings
#print axioms codegen_equal_ext_json
#print axioms toSchema_perm
#print axioms frontends_iso_perm
#print axioms codegen_perm_eq_mapTypes
#print axioms GqlVerif.C07.idxOf_bijection
-- type-order permutations: generated modules equal up to the order of items and variants - the statement formerly only stated (Proofs/C07PermCodegen*.lean)
#print axioms GqlVerif.C07P.codegen_iso_perm
#print axioms GqlVerif.C07P.codegen_iso_perm_iff
#print axioms GqlVerif.C07P.codegen_iso_perm_frontends
#print axioms GqlVerif.C07P.codegen_iso_perm_wire
#print axioms GqlVerif.C07P.codegen_perm_not_equal
#print axioms GqlVerif.C07P.resolve_tiso
#print axioms GqlVerif.C07P.codegen_tiso
#print axioms GqlVerif.C07P.itemsPerm_iff_itemsEqv
#print axioms GqlVerif.C07P.calc_rel
#print axioms GqlVerif.C07P.allUsedTypes_tiso
#print axioms GqlVerif.C07P.typeIso_mapTypes
#print axioms GqlVerif.C07P.closed_toSchema
#print axioms GqlVerif.C07P.itemsPerm_ser_eq
#print axioms GqlVerif.C07P.itemsPerm_de_eq
#print axioms GqlVerif.C07P.itemsPerm_roundtrip_eq
#print axioms GqlVerif.C07P.de_every_json_false
#print axioms GqlVerif.C07P.de_int_tag_differs
#print axioms GqlVerif.C07P.envOK_names_needed
#print axioms GqlVerif.C07P.envOK_variant_names_needed
#print axioms GqlVerif.C07P.envOK_wires_needed
#print axioms GqlVerif.C07P.envOK_other_needed
