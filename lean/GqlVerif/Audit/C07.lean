import GqlVerif.Props.C07
open GqlVerif.C07
#print axioms wrapped_equal
#print axioms absent_eq_null
#print axioms field_type_agree
#print axioms deprecation_agree
#print axioms deprecation_first_directive
#print axioms one_of_agree
#print axioms roots_agree
