import GqlVerif.Props.C07
import GqlVerif.Proofs.C07Frontends
open GqlVerif.C07
#print axioms wrapped_equal
#print axioms absent_eq_null
#print axioms field_type_agree
#print axioms deprecation_agree
#print axioms deprecation_first_directive
#print axioms one_of_agree
#print axioms roots_agree
-- whole-schema agreement of the two front-ends (Proofs/C07Frontends.lean)
#print axioms sdl_spec
#print axioms intro_spec
#print axioms frontends_equal_of_renderings
#print axioms frontends_equal
#print axioms parseIntro_json
#print axioms frontends_equal_json
