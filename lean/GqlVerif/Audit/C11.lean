import GqlVerif.Props.C11
open GqlVerif.C11
#print axioms bsearch_sound
#print axioms bsearch_complete
#print axioms binsearch_iff_mem
#print axioms table_sorted
#print axioms table_covers_reference
#print axioms escaped_not_keyword
#print axioms keywordReplace_spec
#print axioms reference_keyword_escaped
#print axioms wire_is_graphql_name
#print axioms input_wire_is_graphql_name
#print axioms oneof_wire_is_graphql_name
