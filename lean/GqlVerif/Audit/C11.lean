import GqlVerif.Props.C11
import GqlVerif.Proofs.ComposedC11
open GqlVerif.C11
#print axioms bsearch_sound
#print axioms bsearch_complete
#print axioms binsearch_iff_mem
#print axioms table_sorted
#print axioms table_covers_reference
#print axioms escaped_not_keyword
#print axioms keywordReplace_spec
#print axioms reference_keyword_escaped
#print axioms wire_is_graphql_name
#print axioms input_wire_is_graphql_name
#print axioms oneof_wire_is_graphql_name
-- composed, on the generator's own functions (Proofs/ComposedC11.lean)
#print axioms GqlVerif.Composed.inputItem_struct_wires
#print axioms GqlVerif.Composed.inputItem_oneOf_wires
#print axioms GqlVerif.Composed.inputItem_wires
#print axioms GqlVerif.Composed.inputItems_wires
#print axioms GqlVerif.Composed.variablesItems_wires
#print axioms GqlVerif.Composed.variablesItems_shape
#print axioms GqlVerif.Composed.variablesItems_default_names
#print axioms GqlVerif.Composed.renderField_ok
#print axioms GqlVerif.Composed.calcFields_wires
#print axioms GqlVerif.Composed.calcSelection_root_wires
#print axioms GqlVerif.Composed.responseData_wires
#print axioms GqlVerif.Composed.responseData_alias
#print axioms GqlVerif.Composed.fragment_struct_wires
#print axioms GqlVerif.Composed.calc_wires_mem
#print axioms GqlVerif.Composed.responseItems_wires_mem
#print axioms GqlVerif.Composed.fragmentItems_wires_mem
#print axioms GqlVerif.Composed.calcVariantSels_wires
#print axioms GqlVerif.Composed.calcVariants_step_wires
#print axioms GqlVerif.Composed.calcVariants_variant_wires
