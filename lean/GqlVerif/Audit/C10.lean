import GqlVerif.Props.C10
import GqlVerif.Proofs.C10Bij
open GqlVerif.C10
#print axioms roundtrip_all_strings
#print axioms schema_value_own_variant
#print axioms distinct_values_distinct_variants
#print axioms unknown_string_is_other
#print axioms deserialize_total
#print axioms wire_is_schema_name
#print axioms codegen_tables_wf
#print axioms serde_model_enum
#print axioms ident_ne_other
#print axioms declared_idents_nodup
#print axioms ident_eq_unless_other
-- the converse direction: deserialize ∘ serialize on the values of the type (Proofs/C10Bij.lean)
#print axioms serialize_total
#print axioms variant_roundtrip
#print axioms other_roundtrip
#print axioms deserialize_canonical
#print axioms canonical_iff_image
#print axioms string_value_bijection
#print axioms handmade_other_collapses
