import GqlVerif.Props.C10
open GqlVerif.C10
#print axioms roundtrip_all_strings
#print axioms schema_value_own_variant
#print axioms distinct_values_distinct_variants
#print axioms unknown_string_is_other
#print axioms deserialize_total
#print axioms wire_is_schema_name
#print axioms codegen_tables_wf
#print axioms serde_model_enum
#print axioms ident_ne_other
#print axioms declared_idents_nodup
#print axioms ident_eq_unless_other
