import GqlVerif.Props.C09
open GqlVerif.C09
#print axioms field_wire_indep
#print axioms enum_wire_indep
#print axioms variable_wire_indep
#print axioms oneof_wire_indep
