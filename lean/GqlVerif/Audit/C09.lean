import GqlVerif.Props.C09
import GqlVerif.Proofs.C09Options
open GqlVerif.C09
#print axioms field_wire_indep
#print axioms enum_wire_indep
#print axioms variable_wire_indep
#print axioms oneof_wire_indep
-- option-neutrality of codegen and serde (Proofs/C09Options.lean)
#print axioms serde_ignores_derives
#print axioms codegen_neutral_options
#print axioms codegen_neutral_same_error
#print axioms generatedModule_neutral
#print axioms wire_invariant_derives_serde_visibility
#print axioms scalars_module_only_changes_alias_target
#print axioms scalars_module_wire_invariant
#print axioms extern_enums_only_drops_enum_items
#print axioms enum_wire_strings_invariant
#print axioms renderField_wire_invariant
#print axioms input_wire_strings_invariant
#print axioms variables_wire_strings_invariant
