import GqlVerif.Props.C09
import GqlVerif.Proofs.C09Options
import GqlVerif.Proofs.C09Normalization
import GqlVerif.Proofs.ComposedC09
import GqlVerif.Proofs.C09SchemaExamples
open GqlVerif.C09
#print axioms field_wire_indep
#print axioms enum_wire_indep
#print axioms variable_wire_indep
#print axioms oneof_wire_indep
-- option-neutrality of codegen and serde (Proofs/C09Options.lean)
#print axioms serde_ignores_derives
#print axioms codegen_neutral_options
#print axioms codegen_neutral_same_error
#print axioms generatedModule_neutral
#print axioms wire_invariant_derives_serde_visibility
#print axioms scalars_module_only_changes_alias_target
#print axioms scalars_module_wire_invariant
#print axioms extern_enums_only_drops_enum_items
#print axioms enum_wire_strings_invariant
#print axioms renderField_wire_invariant
#print axioms input_wire_strings_invariant
#print axioms variables_wire_strings_invariant
-- module-level wire equality under `normalization` (Proofs/C09Norm*.lean)
#print axioms GqlVerif.C09N.de_rename
#print axioms GqlVerif.C09N.ser_rename
#print axioms GqlVerif.C09N.roundtrip_rename
#print axioms GqlVerif.C09N.normalization_only_renames
#print axioms GqlVerif.C09N.normalization_same_error
#print axioms GqlVerif.C09N.normalization_wire_invariant
#print axioms GqlVerif.C09N.normalization_wire_invariant_of_names
#print axioms GqlVerif.C09N.witness_variant_identifiers
#print axioms GqlVerif.C09N.witness_type_name_injectivity
#print axioms GqlVerif.C09N.witness_prelude_name
#print axioms GqlVerif.C09N.witness_idStable
#print axioms GqlVerif.C09N.witness_raw_reference
#print axioms GqlVerif.C09N.witness_fieldsWF
-- the instance of scalars_module_wire_invariant is generated; FieldsWF of generated modules (Proofs/ComposedC09.lean)
#print axioms GqlVerif.Composed.moduleParts_exParts
#print axioms GqlVerif.Composed.scalars_module_wire_invariant_generated
#print axioms GqlVerif.Composed.fieldsWF_of_members_nodup
#print axioms GqlVerif.Composed.fieldsWF_of_wellScoped
#print axioms GqlVerif.Composed.fieldsWF_of_generated
#print axioms GqlVerif.Composed.fieldsWF_fails_on_generated
-- the injectivity side conditions as a predicate on schema, query and case functions (Proofs/C09Schema*.lean)
#print axioms GqlVerif.C09S.calc_pairs
#print axioms GqlVerif.C09S.module_pairs
#print axioms GqlVerif.C09S.namesInjective_of_schema
#print axioms GqlVerif.C09S.idStable_of_schema
#print axioms GqlVerif.C09S.enumIdentsInjective_of_schema
#print axioms GqlVerif.C09S.variantIdentsOK_of_injective
#print axioms GqlVerif.C09S.normalization_wire_invariant_schema
#print axioms GqlVerif.C09S.normalization_wire_invariant_schema_ok
#print axioms GqlVerif.C09S.normalization_wire_invariant_schema''
#print axioms GqlVerif.C09S.schemaNamesOK_eq_clauses
#print axioms GqlVerif.C09S.okSchema_hyps
#print axioms GqlVerif.C09S.w1_clauses
#print axioms GqlVerif.C09S.w2_clauses
#print axioms GqlVerif.C09S.w3_clauses
#print axioms GqlVerif.C09S.w4_clauses
#print axioms GqlVerif.C09S.w5_clauses
#print axioms GqlVerif.C09S.witness_keyword
#print axioms GqlVerif.C09S.witness_scalar_path
#print axioms GqlVerif.C09S.witness_struct_name
