import GqlVerif.Props.C19
import GqlVerif.Proofs.C19Composed
import GqlVerif.Proofs.C19Tables
open GqlVerif.C19
#print axioms cli_options_map
#print axioms cli_options_refused
#print axioms dest_path
#print axioms dest_path_beside
#print axioms dest_path_none
#print axioms dest_path_trailing
#print axioms stem_spec
#print axioms dest_file_name
#print axioms output_is_header_then_lib
#print axioms gen_error_no_file
#print axioms gen_error_reported
#print axioms old_with_extension_quirk
-- the library call instantiated with the Codegen model through the cache model (Proofs/C19Composed.lean)
#print axioms GqlVerif.C19C.libCall_eq_spec
#print axioms GqlVerif.C19C.libCall_of_loaded
#print axioms GqlVerif.C19C.genEnv_lib_fixed
#print axioms GqlVerif.C19C.cliOptions_eq
#print axioms GqlVerif.C19C.cliOptions_ok
#print axioms GqlVerif.C19C.output_is_header_then_modules
#print axioms GqlVerif.C19C.output_is_header_then_lib_fixed
#print axioms GqlVerif.C19C.gen_error_reported
#print axioms GqlVerif.C19C.gen_error_reported_fixed
#print axioms GqlVerif.C19C.invalid_document_reported
#print axioms GqlVerif.C19C.missing_query_file_panics
#print axioms GqlVerif.C19C.main_error_no_file
#print axioms GqlVerif.C19C.main_success_inv
#print axioms GqlVerif.C19C.generate_cli_modules
#print axioms GqlVerif.C19C.modules_per_operation
#print axioms GqlVerif.C19C.cli_modules_per_operation
#print axioms GqlVerif.C19C.selected_unknown_generates_all
#print axioms GqlVerif.C19C.selected_known_generates_one
#print axioms GqlVerif.C19C.parseDeprecation_table
#print axioms GqlVerif.C19C.parseVisibility_table
#print axioms GqlVerif.C19C.spells_pub
#print axioms GqlVerif.C19C.cli_flag_tables
-- the CLI model's strategy parser is the table regenerated from deprecation.rs (docs/REVIEW_4.md finding 2)
#print axioms GqlVerif.C19T.cli_parseDeprecation_is_table
