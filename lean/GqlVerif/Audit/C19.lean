import GqlVerif.Props.C19
open GqlVerif.C19
#print axioms cli_options_map
#print axioms cli_options_refused
#print axioms dest_path
#print axioms dest_path_beside
#print axioms dest_path_none
#print axioms dest_path_trailing
#print axioms stem_spec
#print axioms dest_file_name
#print axioms output_is_header_then_lib
#print axioms gen_error_no_file
#print axioms gen_error_reported
#print axioms old_with_extension_quirk
