import GqlVerif.Props.C06
import GqlVerif.Proofs.C06Sound
open GqlVerif.C06
#print axioms typename_check_sound
#print axioms fieldsHaveTypenameList_sound
#print axioms condition_check_sound
#print axioms resolve_ok_validated
#print axioms no_selection_accepted
-- the assembled soundness theorem (Proofs/C06Sound.lean)
open GqlVerif.C06Sound in
#print axioms resolve_sound_partial
open GqlVerif.C06Sound in
#print axioms invalid_rejected
open GqlVerif.C06Sound in
#print axioms resolve_struct_sound
open GqlVerif.C06Sound in
#print axioms schemaOk_needed
