import GqlVerif.Props.C06
open GqlVerif.C06
#print axioms typename_check_sound
#print axioms fieldsHaveTypenameList_sound
#print axioms condition_check_sound
#print axioms resolve_ok_validated
#print axioms no_selection_accepted
