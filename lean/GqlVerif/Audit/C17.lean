import GqlVerif.Props.C17
import GqlVerif.Proofs.C02Closure
import GqlVerif.Proofs.C17Fuel
import GqlVerif.Proofs.C17FuelSpec
import GqlVerif.Proofs.SerdeFuelWitness
import GqlVerif.Proofs.SerdeFuelCodegen
import GqlVerif.Proofs.AcyclicModulesClasses
import GqlVerif.Proofs.ModuleOkInputsClasses
import GqlVerif.Proofs.C01NestedK
import GqlVerif.Proofs.C01NestedAbsE
import GqlVerif.Proofs.C01AliasFragK
import GqlVerif.Proofs.C01NestedGenE
import GqlVerif.Proofs.C01NestedGenXE
import GqlVerif.Proofs.C01NestedBE
open GqlVerif.C17
#print axioms search_guarded_eq
#print axioms search_guarded_total
#print axioms search_unguarded_diverges
#print axioms search_guarded_on_cycle
-- the fuel the model hands to the code-generation walks is never exhausted (Proofs/C02Closure.lean)
#print axioms GqlVerif.C02.walkFuel_sufficient
#print axioms GqlVerif.C02.responseItems_fuel_sufficient
#print axioms GqlVerif.C02.fragmentItems_fuel_sufficient
#print axioms GqlVerif.C02.responseForQuery_fuel
-- fuel independence, on the model's own functions: above the fuel the model passes the result no longer depends on the
-- fuel, so the fuel-0 defaults of these walks are never what a caller sees (Proofs/C17Fuel.lean, C17FuelSpec.lean)
#print axioms GqlVerif.C17F.containsTypenameAux_fuel_indep
#print axioms GqlVerif.C17F.depthFuel_eq_walkFuel
#print axioms GqlVerif.C17F.rootFieldCount_fuel_indep
#print axioms GqlVerif.C17F.rootFieldCount_fuel_indep_op
#print axioms GqlVerif.C17F.reachesFragment_fuel_indep
#print axioms GqlVerif.C17F.reachesFragment_fuel_indep_frag
#print axioms GqlVerif.C17F.fragmentIsRecursive_fuel_indep
#print axioms GqlVerif.C17F.collectSel_fuel_eq
#print axioms GqlVerif.C17F.collectSel_fuel_indep
#print axioms GqlVerif.C17F.collectSels_fuel_indep
#print axioms GqlVerif.C17F.allUsedTypes_fuel_indep
#print axioms GqlVerif.C17F.usedInputIds_fuel_indep
#print axioms GqlVerif.C17F.collectVar_fuel_indep
#print axioms GqlVerif.C17F.containsWithoutIndirection_fuel_indep
#print axioms GqlVerif.C17F.inputIsRecursive_fuel_indep
#print axioms GqlVerif.C17F.depth_hypothesis_needed
#print axioms GqlVerif.C17F.hasTypename_fuel_indep
#print axioms GqlVerif.C17F.rootKeys_mem_fuel_indep
#print axioms GqlVerif.C17F.subscription_rule_fuel_indep
#print axioms GqlVerif.C17F.validDef_subscription_fuel_indep
#print axioms GqlVerif.C17F.rootKeys_not_fuel_indep
-- the serde model's fuel: monotone, and never exhausted / irrelevant above what `de` / `ser` pass on acyclic environments with at most one Box per member (Proofs/SerdeFuel*.lean)
#print axioms GqlVerif.SerdeFuel.dePath_mono
#print axioms GqlVerif.SerdeFuel.deFlat_mono
#print axioms GqlVerif.SerdeFuel.deTy_mono
#print axioms GqlVerif.SerdeFuel.serPath_mono
#print axioms GqlVerif.SerdeFuel.serTy_mono
#print axioms GqlVerif.SerdeFuel.dePath_fuel_eq
#print axioms GqlVerif.SerdeFuel.deFlat_fuel_eq
#print axioms GqlVerif.SerdeFuel.deTy_fuel_eq
#print axioms GqlVerif.SerdeFuel.serPath_fuel_eq
#print axioms GqlVerif.SerdeFuel.serTy_fuel_eq
#print axioms GqlVerif.SerdeFuel.deTy_fuel_indep
#print axioms GqlVerif.SerdeFuel.dePath_fuel_indep
#print axioms GqlVerif.SerdeFuel.deFlat_fuel_indep
#print axioms GqlVerif.SerdeFuel.de_fuel_indep
#print axioms GqlVerif.SerdeFuel.de_never_out_of_fuel
#print axioms GqlVerif.SerdeFuel.serTy_fuel_indep
#print axioms GqlVerif.SerdeFuel.ser_fuel_indep
#print axioms GqlVerif.SerdeFuel.ser_never_out_of_fuel
#print axioms GqlVerif.SerdeFuel.roundtrip_fuel_indep
#print axioms GqlVerif.SerdeFuel.roundtrip_never_out_of_fuel
#print axioms GqlVerif.SerdeFuel.de_stable
#print axioms GqlVerif.SerdeFuel.ser_stable
#print axioms GqlVerif.SerdeFuel.envOK_of_check
#print axioms GqlVerif.SerdeFuel.envOK_of_acyclic
#print axioms GqlVerif.SerdeFuel.envOKS_of_acyclic
#print axioms GqlVerif.SerdeFuel.responseForQuery_boxBound
#print axioms GqlVerif.SerdeFuel.module_boxBound
#print axioms GqlVerif.SerdeFuel.module_envOK_of_acyclic
#print axioms GqlVerif.SerdeFuel.module_envOK_of_check
#print axioms GqlVerif.SerdeFuel.generated_module_fuel_exhausted
#print axioms GqlVerif.SerdeFuel.generated_module_read
#print axioms GqlVerif.SerdeFuel.generated_module_never_out_of_fuel
#print axioms GqlVerif.SerdeFuel.box_fuel_matters
#print axioms GqlVerif.SerdeFuel.alias_cycle_always_out_of_fuel
#print axioms GqlVerif.SerdeFuel.spread_cycle_module_not_acyclic
#print axioms GqlVerif.SerdeFuel.e2e_example_modules_ok
#print axioms GqlVerif.SerdeFuel.e2e_example_modules_acyclic
-- Acyclic (moduleEnv …) from the document: same-level spread graph acyclic; no per-module check for the end-to-end classes (Proofs/AcyclicModules*.lean)
#print axioms GqlVerif.AcyclicM.calc_jumps
#print axioms GqlVerif.AcyclicM.used_fragments_reachable
#print axioms GqlVerif.AcyclicM.modFacts
#print axioms GqlVerif.AcyclicM.acyclic_of_facts
#print axioms GqlVerif.AcyclicM.module_acyclic_of_reachRanked
#print axioms GqlVerif.AcyclicM.graphCheck_iff
#print axioms GqlVerif.AcyclicM.sameLevelCheck_iff
#print axioms GqlVerif.AcyclicM.spreadCheck_iff
#print axioms GqlVerif.AcyclicM.module_acyclic
#print axioms GqlVerif.AcyclicM.module_acyclic'
#print axioms GqlVerif.AcyclicM.module_envOK
#print axioms GqlVerif.AcyclicM.module_de_never_out_of_fuel
#print axioms GqlVerif.AcyclicM.module_de_fuel_indep
#print axioms GqlVerif.AcyclicM.module_ser_never_out_of_fuel
#print axioms GqlVerif.AcyclicM.module_roundtrip_never_out_of_fuel
#print axioms GqlVerif.AcyclicM.module_denied_key_ignored
#print axioms GqlVerif.AcyclicM.treeOp_reachRanked
#print axioms GqlVerif.AcyclicM.variantOp_reachRanked
#print axioms GqlVerif.AcyclicM.fragmentOp_reachRanked
#print axioms GqlVerif.AcyclicM.recFragmentOp_reachRanked
#print axioms GqlVerif.AcyclicM.class_module_acyclic
#print axioms GqlVerif.AcyclicM.class_module_envOK
#print axioms GqlVerif.AcyclicM.class_de_never_out_of_fuel
#print axioms GqlVerif.AcyclicM.class_de_fuel_indep
#print axioms GqlVerif.AcyclicM.class_roundtrip_never_out_of_fuel
#print axioms GqlVerif.AcyclicM.spread_cycle_not_sameLevelAcyclic
#print axioms GqlVerif.AcyclicM.gCtx_sameLevelRanked
#print axioms GqlVerif.AcyclicM.mix_spreadAcyclic_only
-- the class theorems with the remaining hypothesis on the INPUT (docs/REVIEW_3.md finding 3; Proofs/ModuleOkInputsClasses.lean, P42)
#print axioms GqlVerif.MOK.moduleOk_iff_inputs
#print axioms GqlVerif.MOK.reviewer_counterexample
#print axioms GqlVerif.MOK.class_module_envOK_inputs
#print axioms GqlVerif.MOK.class_de_never_out_of_fuel_inputs
#print axioms GqlVerif.MOK.class_de_fuel_indep_inputs
#print axioms GqlVerif.MOK.class_roundtrip_never_out_of_fuel_inputs
-- NestedOp: the module environment is acyclic, from the class alone (P45)
#print axioms GqlVerif.C01N.nested_reachRanked
#print axioms GqlVerif.C01N.nested_module_envOK
-- NestedAbsOp (P46)
#print axioms GqlVerif.C01NA.nestedabs_module_envOK
-- AliasFragOp (P48)
#print axioms GqlVerif.C01AF.aliasfrag_module_envOK
-- NestedGenOp / NestedGen2Op (P47)
#print axioms GqlVerif.C01NG.nestedgen_module_envOK
#print axioms GqlVerif.C01NX.nestedgen2_module_envOK
-- NestedBOp (P49)
#print axioms GqlVerif.C01NB.nestedb_module_envOK
