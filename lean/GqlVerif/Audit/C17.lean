import GqlVerif.Props.C17
open GqlVerif.C17
#print axioms search_guarded_eq
#print axioms search_guarded_total
#print axioms search_unguarded_diverges
#print axioms search_guarded_on_cycle
