import GqlVerif.Props.C17
import GqlVerif.Proofs.C02Closure
import GqlVerif.Proofs.C17Fuel
import GqlVerif.Proofs.C17FuelSpec
open GqlVerif.C17
#print axioms search_guarded_eq
#print axioms search_guarded_total
#print axioms search_unguarded_diverges
#print axioms search_guarded_on_cycle
-- the fuel the model hands to the code-generation walks is never exhausted (Proofs/C02Closure.lean)
#print axioms GqlVerif.C02.walkFuel_sufficient
#print axioms GqlVerif.C02.responseItems_fuel_sufficient
#print axioms GqlVerif.C02.fragmentItems_fuel_sufficient
#print axioms GqlVerif.C02.responseForQuery_fuel
-- fuel independence, on the model's own functions: above the fuel the model passes the result no longer depends on the
-- fuel, so the fuel-0 defaults of these walks are never what a caller sees (Proofs/C17Fuel.lean, C17FuelSpec.lean)
#print axioms GqlVerif.C17F.containsTypenameAux_fuel_indep
#print axioms GqlVerif.C17F.depthFuel_eq_walkFuel
#print axioms GqlVerif.C17F.rootFieldCount_fuel_indep
#print axioms GqlVerif.C17F.rootFieldCount_fuel_indep_op
#print axioms GqlVerif.C17F.reachesFragment_fuel_indep
#print axioms GqlVerif.C17F.reachesFragment_fuel_indep_frag
#print axioms GqlVerif.C17F.fragmentIsRecursive_fuel_indep
#print axioms GqlVerif.C17F.collectSel_fuel_eq
#print axioms GqlVerif.C17F.collectSel_fuel_indep
#print axioms GqlVerif.C17F.collectSels_fuel_indep
#print axioms GqlVerif.C17F.allUsedTypes_fuel_indep
#print axioms GqlVerif.C17F.usedInputIds_fuel_indep
#print axioms GqlVerif.C17F.collectVar_fuel_indep
#print axioms GqlVerif.C17F.containsWithoutIndirection_fuel_indep
#print axioms GqlVerif.C17F.inputIsRecursive_fuel_indep
#print axioms GqlVerif.C17F.depth_hypothesis_needed
#print axioms GqlVerif.C17F.hasTypename_fuel_indep
#print axioms GqlVerif.C17F.rootKeys_mem_fuel_indep
#print axioms GqlVerif.C17F.subscription_rule_fuel_indep
#print axioms GqlVerif.C17F.validDef_subscription_fuel_indep
#print axioms GqlVerif.C17F.rootKeys_not_fuel_indep
