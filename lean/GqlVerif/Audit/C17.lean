import GqlVerif.Props.C17
import GqlVerif.Proofs.C02Closure
open GqlVerif.C17
#print axioms search_guarded_eq
#print axioms search_guarded_total
#print axioms search_unguarded_diverges
#print axioms search_guarded_on_cycle
-- the fuel the model hands to the code-generation walks is never exhausted (Proofs/C02Closure.lean)
#print axioms GqlVerif.C02.walkFuel_sufficient
#print axioms GqlVerif.C02.responseItems_fuel_sufficient
#print axioms GqlVerif.C02.fragmentItems_fuel_sufficient
#print axioms GqlVerif.C02.responseForQuery_fuel
