import GqlVerif.Props.C15
import GqlVerif.Proofs.C15Ext
open GqlVerif.C15
#print axioms path_untagged
#print axioms path_untagged_exact
#print axioms location_roundtrip
#print axioms error_roundtrip
#print axioms response_roundtrip_generic
#print axioms response_roundtrip
#print axioms null_data_counterexample
#print axioms accepts_spec_body
#print axioms accepts_spec_error
#print axioms ser_is_spec_body
#print axioms unknown_member_ignored_error
#print axioms unknown_member_ignored_response
#print axioms message_required
#print axioms decimal_spec
#print axioms decimal_reads_back
#print axioms display_spec
#print axioms display_keeps_trailing_segments
#print axioms querybody_members
#print axioms envelope_shape_matches_source
-- presence is information: empty containers are preserved; serialization is injective (Proofs/C15Ext.lean)
#print axioms serError_injective
#print axioms serResponse_injective
#print axioms empty_error_extensions_preserved
#print axioms empty_error_lists_preserved
#print axioms empty_response_members_preserved
