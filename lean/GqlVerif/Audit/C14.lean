import GqlVerif.Props.C14
import GqlVerif.Proofs.ComposedC14
import GqlVerif.Proofs.SerdeFuelWitness
open GqlVerif.C14
#print axioms dep_table
#print axioms never_omitted_unless_denied
#print axioms never_marked_unless_warned
#print axioms front_ends_agree
#print axioms omitted_field_key_ignored
#print axioms omitted_key_not_taken
-- a key no member names is ignored: plain structs at any key position, and through flatten under KeyFree (Proofs/ComposedC14.lean)
#print axioms GqlVerif.Composed.deOwnWith_erase
#print axioms GqlVerif.Composed.denied_key_ignored_struct
#print axioms GqlVerif.Composed.denied_key_ignored_struct_insert
#print axioms GqlVerif.Composed.denied_key_ignored_dePath
#print axioms GqlVerif.Composed.denied_key_ignored_flatten
#print axioms GqlVerif.Composed.denied_key_ignored_flatten_insert
#print axioms GqlVerif.Composed.denied_key_ignored_deTy
#print axioms GqlVerif.Composed.deFlat_erase
#print axioms GqlVerif.Composed.keyFree_of_all
#print axioms GqlVerif.Composed.denied_key_ignored_de_of_fuel
#print axioms GqlVerif.Composed.flattened_member_key_matters
#print axioms GqlVerif.Composed.tag_key_matters
#print axioms GqlVerif.Composed.oneOf_key_matters
-- the top-level Serde.de form, unconditional in the fuel (Proofs/SerdeFuel.lean)
#print axioms GqlVerif.SerdeFuel.denied_key_ignored_de
#print axioms GqlVerif.SerdeFuel.denied_key_ignored_de_ty
#print axioms GqlVerif.SerdeFuel.denied_key_ignored_de_of_nf
#print axioms GqlVerif.SerdeFuel.denied_key_not_ignored_without_rank
#print axioms GqlVerif.SerdeFuel.denyEnv_denied_key_ignored
