import GqlVerif.Props.C14
import GqlVerif.Proofs.ComposedC14
import GqlVerif.Proofs.SerdeFuelWitness
import GqlVerif.Proofs.C14GeneratedWitness
import GqlVerif.Proofs.C14GeneratedFragWitness
import GqlVerif.Proofs.C01DenyFragWitness
import GqlVerif.Proofs.CalcVariantsPushedClasses
import GqlVerif.Proofs.ModuleOkInputsClasses
open GqlVerif.C14
#print axioms dep_table
#print axioms never_omitted_unless_denied
#print axioms never_marked_unless_warned
#print axioms front_ends_agree
#print axioms omitted_field_key_ignored
#print axioms omitted_key_not_taken
-- a key no member names is ignored: plain structs at any key position, and through flatten under KeyFree (Proofs/ComposedC14.lean)
#print axioms GqlVerif.Composed.deOwnWith_erase
#print axioms GqlVerif.Composed.denied_key_ignored_struct
#print axioms GqlVerif.Composed.denied_key_ignored_struct_insert
#print axioms GqlVerif.Composed.denied_key_ignored_dePath
#print axioms GqlVerif.Composed.denied_key_ignored_flatten
#print axioms GqlVerif.Composed.denied_key_ignored_flatten_insert
#print axioms GqlVerif.Composed.denied_key_ignored_deTy
#print axioms GqlVerif.Composed.deFlat_erase
#print axioms GqlVerif.Composed.keyFree_of_all
#print axioms GqlVerif.Composed.denied_key_ignored_de_of_fuel
#print axioms GqlVerif.Composed.flattened_member_key_matters
#print axioms GqlVerif.Composed.tag_key_matters
#print axioms GqlVerif.Composed.oneOf_key_matters
-- the top-level Serde.de form, unconditional in the fuel (Proofs/SerdeFuel.lean)
#print axioms GqlVerif.SerdeFuel.denied_key_ignored_de
#print axioms GqlVerif.SerdeFuel.denied_key_ignored_de_ty
#print axioms GqlVerif.SerdeFuel.denied_key_ignored_de_of_nf
#print axioms GqlVerif.SerdeFuel.denied_key_not_ignored_without_rank
#print axioms GqlVerif.SerdeFuel.denyEnv_denied_key_ignored
-- a denied field's key is ignored, for every emitted module of the classes and at every depth (Proofs/C14Generated*.lean)
#print axioms GqlVerif.C14G.keyFreeCheck_sound
#print axioms GqlVerif.C14G.keyFreeCheck_complete
#print axioms GqlVerif.C14G.keyFreeCheck_iff
#print axioms GqlVerif.C14G.mem_reachSet_iff
#print axioms GqlVerif.C14G.swap_dePath
#print axioms GqlVerif.C14G.sim_sound
#print axioms GqlVerif.C14G.sim_de
#print axioms GqlVerif.C14G.sim_de_of_nf
#print axioms GqlVerif.C14G.treeOpD_of_treeOp
#print axioms GqlVerif.C14G.tree_items_shapeD
#print axioms GqlVerif.C14G.fieldsOfD_wires
#print axioms GqlVerif.C14G.denied_field_keyFree
#print axioms GqlVerif.C14G.unselected_key_keyFree
#print axioms GqlVerif.C14G.kept_key_not_keyFree
#print axioms GqlVerif.C14G.not_kept_of_nodup_respKeys
#print axioms GqlVerif.C14G.denied_field_payload_same'
#print axioms GqlVerif.C14G.denied_field_payload_same
#print axioms GqlVerif.C14G.denied_field_payload_same_dePath
#print axioms GqlVerif.C14G.tree_module_acyclic
#print axioms GqlVerif.C14G.tree_module_envOK
#print axioms GqlVerif.C14G.tree_de_never_out_of_fuel
#print axioms GqlVerif.C14G.frag_items_shapeD
#print axioms GqlVerif.C14G.frag_struct_shapeD
#print axioms GqlVerif.C14G.fragOpD_of_treeOpD
#print axioms GqlVerif.C14G.fragnode_keyFree
#print axioms GqlVerif.C14G.denied_field_keyFree_frag
#print axioms GqlVerif.C14G.collected_key_not_keyFree
#print axioms GqlVerif.C14G.denied_field_payload_same_frag
-- instances and necessity witnesses
#print axioms GqlVerif.C14G.Witness.w_instance
#print axioms GqlVerif.C14G.Witness.sibling_key_matters
#print axioms GqlVerif.C14G.Witness.dead_struct_emitted
#print axioms GqlVerif.C14G.FragWitness.f_instance
-- with the fuel condition discharged for the fragment class (Proofs/C01DenyFrag.lean)
#print axioms GqlVerif.C01.Deny.denied_field_payload_same_frag'
#print axioms GqlVerif.C01.Deny.fragOpD_envOK
-- the alias-or-struct decision of a variant struct follows `has_fields` (pushed, not rendered fields): docs/REVIEW_3.md finding 1, P41
#print axioms GqlVerif.Pushed.pushedAny_false_fields
#print axioms GqlVerif.Pushed.fields_nil_pushedAny_false
#print axioms GqlVerif.Pushed.pushedAny_eq_of_noDenied
#print axioms GqlVerif.Pushed.decision_eq_old
#print axioms GqlVerif.Pushed.fields_nil_iff
#print axioms GqlVerif.Pushed.noDeniedV_of_not_deny
#print axioms GqlVerif.Pushed.deny_variant_struct_keeps_flatten
#print axioms GqlVerif.Pushed.allow_variant_struct_two_members
#print axioms GqlVerif.Pushed.old_decision_alias
#print axioms GqlVerif.Pushed.variantOp_decision
#print axioms GqlVerif.Pushed.variantSpreadOp_decision
#print axioms GqlVerif.Pushed.variantSpreadOp2_decision
-- (P42)
#print axioms GqlVerif.MOK.denied_field_payload_same_inputs
