import GqlVerif.Props.C14
open GqlVerif.C14
#print axioms dep_table
#print axioms never_omitted_unless_denied
#print axioms never_marked_unless_warned
#print axioms front_ends_agree
#print axioms omitted_field_key_ignored
#print axioms omitted_key_not_taken
