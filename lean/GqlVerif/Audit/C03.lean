import GqlVerif.Props.C03
import GqlVerif.Proofs.C01EndToEnd
import GqlVerif.Proofs.C01AbstractI
import GqlVerif.Proofs.C01RecursiveE
import GqlVerif.Proofs.C01RecursiveV
import GqlVerif.Proofs.C01Rust
import GqlVerif.Proofs.C01VariantSpread
import GqlVerif.Proofs.C01VariantSpreadG
import GqlVerif.Proofs.C01RustSpread
import GqlVerif.Proofs.C01DenyTreeClass
import GqlVerif.Proofs.C01DenyFragWitness
import GqlVerif.Proofs.C01MixedE
import GqlVerif.Proofs.C01MixedF
import GqlVerif.Proofs.C01MixedG
import GqlVerif.Proofs.ModuleOkInputsMore
import GqlVerif.Proofs.ModuleOkInputsClasses
import GqlVerif.Proofs.C01NestedW
import GqlVerif.Proofs.C01NestedAbsW
import GqlVerif.Proofs.C01AliasFragW
import GqlVerif.Proofs.C01NestedGenW
import GqlVerif.Proofs.C01NestedGenXW
import GqlVerif.Proofs.C01NestedBW
open GqlVerif.C03
#print axioms ok_iff_accepts
#print axioms null_at_non_null_rejected
#print axioms non_list_rejected
#print axioms leaf_int
#print axioms leaf_float
#print axioms leaf_boolean
#print axioms leaf_string
#print axioms leaf_enum
#print axioms int_position
#print axioms string_position
#print axioms known_tag_own_variant
#print axioms unknown_tag_rejected
#print axioms unknown_tag_other
#print axioms missing_tag_rejected
#print axioms integer_tag_buffered_vs_direct
-- exact acceptance of the generated ResponseData for tree-shaped operations (Proofs/C01EndToEnd*.lean)
#print axioms GqlVerif.C01.E2E.tree_precise_iff
#print axioms GqlVerif.C01.E2E.tree_precise
#print axioms GqlVerif.C01.E2E.struct_accepts_iff
#print axioms GqlVerif.C01.E2E.array_at_object_position_accepted
#print axioms GqlVerif.C01.E2E.absent_nullable_key_accepted
-- exact acceptance at abstract positions and with fragments (Proofs/C01Abstract*.lean)
#print axioms GqlVerif.C01.E2E.variant_precise_iff
#print axioms GqlVerif.C01.E2E.variant_precise
#print axioms GqlVerif.C01.E2E.abs_tag_count
#print axioms GqlVerif.C01.E2E.abs_tag_kind
#print axioms GqlVerif.C01.E2E.abs_tag_unknown
#print axioms GqlVerif.C01.E2E.abs_tag_known
#print axioms GqlVerif.C01.E2E.abs_tag_selects
#print axioms GqlVerif.C01.E2E.abs_tag_int
#print axioms GqlVerif.C01.E2E.abs_tag_int_direct_rejected
#print axioms GqlVerif.C01.E2E.fragment_precise_iff
#print axioms GqlVerif.C01.E2E.fragment_precise
-- recursive fragments (Proofs/C01Recursive*.lean)
#print axioms GqlVerif.C01.E2E.recfragment_precise_iff
#print axioms GqlVerif.C01.E2E.recfragment_precise
#print axioms GqlVerif.C01.E2E.conformsLooseR_stable
-- under `normalization = rust` (Proofs/C01Rust.lean)
#print axioms GqlVerif.C01.E2E.transfer_okB
#print axioms GqlVerif.C01.E2E.tree_precise_iff_rust
#print axioms GqlVerif.C01.E2E.variant_precise_iff_rust
#print axioms GqlVerif.C01.E2E.fragment_precise_iff_rust
#print axioms GqlVerif.C01.E2E.recfragment_precise_iff_rust
-- named fragment spreads at abstract positions (Proofs/C01VariantSpread*.lean)
#print axioms GqlVerif.C01.E2E.variantspread_precise_iff
#print axioms GqlVerif.C01.E2E.variantspread_precise
#print axioms GqlVerif.C01.E2E.ws_precise
#print axioms GqlVerif.C01.E2E.bs_precise
#print axioms GqlVerif.C01.E2E.variantspread_alias_rejects_wrong_kind
-- exact acceptance for the extended classes (Proofs/C01VariantSpread{F,G}.lean)
#print axioms GqlVerif.C01.E2E.variantspread2_precise_iff
#print axioms GqlVerif.C01.E2E.variantspread2_precise
#print axioms GqlVerif.C01.E2E.mi_precise
#print axioms GqlVerif.C01.E2E.ls_precise
#print axioms GqlVerif.C01.E2E.a2_precise
-- under normalization rust (Proofs/C01RustSpread.lean)
#print axioms GqlVerif.C01.E2E.variantspread_precise_iff_rust
#print axioms GqlVerif.C01.E2E.variantspread2_precise_iff_rust
-- exact acceptance under deny (Proofs/C01Deny*.lean)
#print axioms GqlVerif.C01.Deny.treeD_precise_iff
#print axioms GqlVerif.C01.Deny.treeD_precise_iff_erased
#print axioms GqlVerif.C01.Deny.treeR_precise_iff
#print axioms GqlVerif.C01.Deny.fragD_precise_iff
#print axioms GqlVerif.C01.Deny.wd_precise
#print axioms GqlVerif.C01.Deny.fd_precise
-- MixedOp / MixedOp2 (Proofs/C01Mixed*.lean, P38): exact acceptance
#print axioms GqlVerif.C01M.mixed_precise_iff
#print axioms GqlVerif.C01M.mixed_precise
#print axioms GqlVerif.C01M.mixed2_precise_iff
#print axioms GqlVerif.C01M.mx_precise
-- exact acceptance with the side condition on the INPUT (Proofs/ModuleOkInputs*.lean, P42)
#print axioms GqlVerif.MOK.moduleOk_iff_inputs
#print axioms GqlVerif.MOK.tree_precise_iff_inputs
#print axioms GqlVerif.MOK.variant_precise_iff_inputs
#print axioms GqlVerif.MOK.fragment_precise_iff_inputs
#print axioms GqlVerif.MOK.mixed_precise_iff_inputs
#print axioms GqlVerif.MOK.variantspread_precise_iff_inputs
#print axioms GqlVerif.MOK.recfragment_precise_iff_inputs
#print axioms GqlVerif.MOK.variantspread2_precise_iff_inputs
-- NestedOp (P45)
#print axioms GqlVerif.C01N.nested_precise_iff
#print axioms GqlVerif.C01N.nx_precise
#print axioms GqlVerif.C01N.nx2_precise
-- NestedAbsOp (P46)
#print axioms GqlVerif.C01NA.nestedabs_precise_iff
#print axioms GqlVerif.C01NA.na_precise
-- AliasFragOp (P48)
#print axioms GqlVerif.C01AF.aliasfrag_precise_iff
#print axioms GqlVerif.C01AF.af_precise
-- NestedGenOp / NestedGen2Op (P47)
#print axioms GqlVerif.C01NG.nestedgen_precise_iff
#print axioms GqlVerif.C01NG.ng_precise
#print axioms GqlVerif.C01NX.nestedgen2_precise_iff
-- NestedBOp (P49)
#print axioms GqlVerif.C01NB.nestedb_precise_iff
#print axioms GqlVerif.C01NB.nestedb_precise
#print axioms GqlVerif.C01NB.nb_precise
