import GqlVerif.Props.C03
open GqlVerif.C03
#print axioms ok_iff_accepts
#print axioms null_at_non_null_rejected
#print axioms non_list_rejected
#print axioms leaf_int
#print axioms leaf_float
#print axioms leaf_boolean
#print axioms leaf_string
#print axioms leaf_enum
#print axioms int_position
#print axioms string_position
#print axioms known_tag_own_variant
#print axioms unknown_tag_rejected
#print axioms unknown_tag_other
#print axioms missing_tag_rejected
#print axioms integer_tag_buffered_vs_direct
