import GqlVerif.Props.C18
import GqlVerif.Proofs.C18Tables
open GqlVerif.C18
#print axioms extractAttr_spec
#print axioms extractAttr_iff
#print axioms extractAttr_absent
#print axioms identExists_spec
#print axioms identExists_iff_head
#print axioms identExists_iff_flag
#print axioms extractAttrList_spec
#print axioms extractAttrList_iff
#print axioms missing_attribute
#print axioms derive_core
#print axioms derive_eq_spec
#print axioms options_of_attrs
#print axioms options_defaults
#print axioms invalid_value_keeps_default
#print axioms derive_perm
#print axioms derive_layout
#print axioms second_graphql_attribute_ignored
#print axioms paths_relative
#print axioms paths_absolute_differ
#print axioms paths_trailing_slash
#print axioms flag_then_kv_hides_value
#print axioms flag_written_as_kv_is_on
#print axioms empty_list_is_ok
#print axioms non_string_value_is_error
#print axioms derive_keys_match_source
#print axioms option_spellings_match_source
-- the model's option parsers are the tables regenerated from the source (docs/REVIEW_3.md finding 13)
#print axioms GqlVerif.C18T.parseDeprecation_is_table
#print axioms GqlVerif.C18T.parseNormalization_is_table
#print axioms GqlVerif.C18T.default_deprecation_is_source_default
#print axioms GqlVerif.C18T.every_source_arm_is_parsed
