import GqlVerif.Proofs.C04SurjectiveSerValid
/-!
# C04 — canonical form made explicit, executable checker, a concrete instance, witnesses

* `assemble_keys`, `assemble_lookup`: the canonical object has the declared names in declaration order (minus the
  `null`s under `skip_serializing_none`) and agrees with the given object on every declared member ("absent" = `null`).
* `validB` / `varsValidB` with `validB_sound` / `varsValidB_sound`: a fuel-indexed executable checker for `Valid`.
* `exSchema` / `exQuery`: custom scalar, enum, list, a directly recursive (boxed) input type, a `@oneOf` input;
  `ex_hyps`: every hypothesis of the theorems holds on it; the theorems instantiated; the model's own
  `Serde.de` / `Serde.ser` evaluated on it.
* `id_written_as_string`, `int64_not_graphql_int`, `enum_other_not_declared`, `Deserialize` rejecting an integer ID:
  why `canon` maps integer IDs to strings, and why `ser_valid` is stated for 64-bit `Int` and open-world enums.
-/
namespace GqlVerif
namespace C04S
open Codegen Serde C13

/-! ## 17. what `canon` changes, made explicit -/

theorem assemble_cons (skip : Bool) (q : String × FieldType) (qs : List (String × FieldType)) (kvs : List (String × Json)) :
    assemble skip (q :: qs) kvs =
      if skip && ((Json.lookup q.1 kvs).getD .null).isNull then assemble skip qs kvs
      else (q.1, (Json.lookup q.1 kvs).getD .null) :: assemble skip qs kvs := by
  simp only [assemble, List.filterMap_cons]
  cases (skip && ((Json.lookup q.1 kvs).getD .null).isNull) <;> simp

/-- keys of the canonical object: the declared names in declaration order; with `skip` those holding `null` (or
    absent) are left out — and only those -/
theorem assemble_keys (skip : Bool) (kvs : List (String × Json)) : ∀ (fields : List (String × FieldType)),
    keys (assemble skip fields kvs) =
      (fields.filter fun p => !(skip && ((Json.lookup p.1 kvs).getD .null).isNull)).map (·.1)
  | [] => rfl
  | p :: ps => by
    rw [assemble_cons, List.filter_cons]
    cases h : (skip && ((Json.lookup p.1 kvs).getD .null).isNull)
    · simp only [Bool.false_eq_true, ↓reduceIte, Bool.not_false, keys, List.map_cons]
      rw [← assemble_keys skip kvs ps]
    · simp only [↓reduceIte, Bool.not_true, Bool.false_eq_true]
      exact assemble_keys skip kvs ps

theorem lookup_assemble_none (skip : Bool) (kvs : List (String × Json)) (k : String)
    (fields : List (String × FieldType)) (hk : k ∉ fields.map (·.1)) :
    Json.lookup k (assemble skip fields kvs) = none := by
  apply C01.lookup_none_of_not_mem
  have := assemble_keys skip kvs fields
  unfold keys at this
  rw [this]
  intro hmem
  obtain ⟨p, hp, rfl⟩ := List.mem_map.mp hmem
  exact hk (List.mem_map_of_mem (List.mem_filter.mp hp).1)

/-- the canonical object agrees with the given one on every declared member, reading "absent" as `null`:
    `assemble` only reorders, and adds or drops `null` members -/
theorem assemble_lookup (skip : Bool) (kvs : List (String × Json)) :
    ∀ (fields : List (String × FieldType)), (fields.map (·.1)).Nodup → ∀ p ∈ fields,
      (Json.lookup p.1 (assemble skip fields kvs)).getD .null = (Json.lookup p.1 kvs).getD .null
  | [], _, p, hp => by simp at hp
  | q :: qs, hnd, p, hp => by
    simp only [List.map_cons, List.nodup_cons] at hnd
    rw [assemble_cons]
    by_cases hq : q.1 = p.1
    · cases hsk : (skip && ((Json.lookup q.1 kvs).getD .null).isNull)
      · simp [Json.lookup, hq]
      · simp only [↓reduceIte]
        rw [lookup_assemble_none skip kvs p.1 qs (hq ▸ hnd.1)]
        simp only [Bool.and_eq_true] at hsk
        rw [← hq, C01.isNull_eq _ hsk.2]
        rfl
    · have hp' : p ∈ qs := by
        rcases List.mem_cons.mp hp with h | h
        · exact absurd (by rw [h]) hq
        · exact h
      have hne : (q.1 == p.1) = false := by simpa using hq
      cases hsk : (skip && ((Json.lookup q.1 kvs).getD .null).isNull)
      · simp only [Bool.false_eq_true, ↓reduceIte, Json.lookup, hne]
        exact assemble_lookup skip kvs qs hnd.2 p hp'
      · simp only [↓reduceIte]
        exact assemble_lookup skip kvs qs hnd.2 p hp'

/-! ## 18. the two leaf conventions -/

theorem int32_sub_i64 (n : Int) (h : int32Ok n = true) : inI64 n = true := by
  simp only [int32Ok, Bool.and_eq_true, decide_eq_true_eq] at h
  unfold inI64 i64Min i64Max
  simp only [Bool.and_eq_true, decide_eq_true_eq]
  omega

/-- the GraphQL specification's leaves with IDs given as strings (what `Deserialize` can read back) -/
def Leaves.graphqlStrIds : Leaves := { intOk := int32Ok, idInt := fun _ => false, enumOpen := false }

/-- **`variables_expressible` for the GraphQL specification's leaves** (pure existence form): every assignment that is
    valid by the specification (32-bit `Int`, closed enums, `ID` from a string or an integer) is — in canonical form —
    the serialization of a `Variables` value -/
theorem variables_expressible_graphql (c : Ctx) (op : Nat) (items : List Item)
    (hnorm : c.o.normalization = .none)
    (hkwI : ∀ i ∈ c.s.inputs, keywordReplace i.name = i.name)
    (hkwS : ∀ n ∈ c.s.scalars, keywordReplace n = n)
    (hkwE : ∀ e ∈ c.s.enums, keywordReplace e.name = e.name)
    (hwf : C02.OutputOnly c.s c.q = true) (hrel : C02.InputFieldsRelevant c.s = true)
    (hvars : ∀ v ∈ c.q.opVariables op, C02.Relevant v.ty.id)
    (hdef : (Scope.defines items).Nodup) (hmem : ∀ it ∈ items, (C02.memberIdents it).Nodup)
    (hprim : ∀ it ∈ items, C01.notPrim it.name) (hfree : ExternsFree c items)
    (h : responseForQuery c op = .ok items) (hne : c.q.opVariables op ≠ []) (kvs : List (String × Json))
    (hvalid : VarsValid Leaves.graphql c op kvs) :
    ∃ x, HasTy (moduleEnv c items) (.path "Variables") x ∧
      Serde.ser (moduleEnv c items) (.path "Variables") x = .ok (canonVars c op kvs) := by
  obtain ⟨x, hx, hs, _⟩ := variables_expressible Leaves.graphql c op items hnorm hkwI hkwS hkwE hwf hrel hvars hdef hmem
    hprim hfree int32_sub_i64 h hne kvs hvalid
  exact ⟨x, hx, hs⟩

/-- **the `Deserialize` form** (IDs given as strings): `from_value` reads the assignment as a `Variables` value and
    `to_value` writes that value as the canonical form of the assignment -/
theorem variables_roundtrip_graphql (c : Ctx) (op : Nat) (items : List Item)
    (hnorm : c.o.normalization = .none)
    (hkwI : ∀ i ∈ c.s.inputs, keywordReplace i.name = i.name)
    (hkwS : ∀ n ∈ c.s.scalars, keywordReplace n = n)
    (hkwE : ∀ e ∈ c.s.enums, keywordReplace e.name = e.name)
    (hwf : C02.OutputOnly c.s c.q = true) (hrel : C02.InputFieldsRelevant c.s = true)
    (hvars : ∀ v ∈ c.q.opVariables op, C02.Relevant v.ty.id)
    (hdef : (Scope.defines items).Nodup) (hmem : ∀ it ∈ items, (C02.memberIdents it).Nodup)
    (hprim : ∀ it ∈ items, C01.notPrim it.name) (hfree : ExternsFree c items)
    (h : responseForQuery c op = .ok items) (hne : c.q.opVariables op ≠ []) (kvs : List (String × Json))
    (hvalid : VarsValid Leaves.graphqlStrIds c op kvs) :
    ∃ x, Serde.de (moduleEnv c items) (.path "Variables") (.obj kvs) = .ok x ∧
      Serde.ser (moduleEnv c items) (.path "Variables") x = .ok (canonVars c op kvs) := by
  obtain ⟨x, _, hs, hd⟩ := variables_expressible Leaves.graphqlStrIds c op items hnorm hkwI hkwS hkwE hwf hrel hvars hdef
    hmem hprim hfree int32_sub_i64 h hne kvs hvalid
  exact ⟨x, hd (fun _ => rfl), hs⟩

/-- **`variables_ser_valid` for the wire leaves** (64-bit `Int`, open-world enums, `ID` as string) -/
theorem variables_ser_valid_wire (c : Ctx) (op : Nat) (items : List Item)
    (hnorm : c.o.normalization = .none)
    (hkwI : ∀ i ∈ c.s.inputs, keywordReplace i.name = i.name)
    (hkwS : ∀ n ∈ c.s.scalars, keywordReplace n = n)
    (hkwE : ∀ e ∈ c.s.enums, keywordReplace e.name = e.name)
    (hwf : C02.OutputOnly c.s c.q = true) (hrel : C02.InputFieldsRelevant c.s = true)
    (hvars : ∀ v ∈ c.q.opVariables op, C02.Relevant v.ty.id)
    (hdef : (Scope.defines items).Nodup) (hmem : ∀ it ∈ items, (C02.memberIdents it).Nodup)
    (hprim : ∀ it ∈ items, C01.notPrim it.name) (hfree : ExternsFree c items)
    (h : responseForQuery c op = .ok items) (hne : c.q.opVariables op ≠ [])
    (x : Val) (hx : HasTy (moduleEnv c items) (.path "Variables") x) (j : Json)
    (hs : Serde.ser (moduleEnv c items) (.path "Variables") x = .ok j) :
    ∃ kvs, j = .obj kvs ∧ VarsValid Leaves.wire c op kvs :=
  variables_ser_valid Leaves.wire c op items hnorm hkwI hkwS hkwE hwf hrel hvars hdef hmem hprim hfree (fun _ h => h) rfl
    h hne x hx j hs

/-! ## 19. an executable checker for `Valid` (sound; used for the examples) -/

def namedB (L : Leaves) (s : Schema) (rec : TypeId → Bool → GTy → Json → Bool) (id : TypeId) (j : Json) : Bool :=
  match id with
  | .scalar k => (match s.scalars[k]? with
    | some n => scalarOk L n j
    | none => false)
  | .enum k => (match s.enums[k]?, j with
    | some en, .str v => L.enumOpen || en.variants.contains v
    | _, _ => false)
  | .input k => (match s.inputs[k]?, j with
    | some i, .obj kvs =>
      if i.isOneOf then
        (match kvs with
         | [(key, v)] => (match i.fields.find? (·.1 == key) with
           | some p => rec p.2.id false (.nonNull (gty p.2)) v
           | none => false)
         | _ => false)
      else
        EnumSpec.nodup (keys kvs) && (keys kvs).all (fun key => (i.fields.map (·.1)).contains key) &&
        i.fields.all (fun p => match Json.lookup p.1 kvs with
          | none => !isNN (gty p.2)
          | some v => rec p.2.id false (gty p.2) v)
    | _, _ => false)
  | _ => false

def validB (L : Leaves) (s : Schema) : Nat → TypeId → Bool → GTy → Json → Bool
  | 0, _, _, _, _ => false
  | f + 1, id, b, t, j =>
    match t with
    | .nonNull t' => validB L s f id true t' j
    | .list t' =>
      (!b && j.isNull) || (match j with
        | .arr xs => xs.all (validB L s f id false t')
        | _ => false)
    | .named _ => (!b && j.isNull) || namedB L s (validB L s f) id j

theorem validB_sound (L : Leaves) (s : Schema) : ∀ (f : Nat) (id : TypeId) (b : Bool) (t : GTy) (j : Json),
    validB L s f id b t j = true → Valid L s id b t j := by
  intro f
  induction f with
  | zero => intro id b t j h; simp [validB] at h
  | succ f ih =>
    intro id b t j h
    unfold validB at h
    cases t with
    | nonNull t' => exact .bang (ih id true t' j h)
    | list t' =>
      simp only [Bool.or_eq_true, Bool.and_eq_true, Bool.not_eq_true'] at h
      have harr : ∀ xs, xs.all (validB L s f id false t') = true → Valid L s id true (.list t') (.arr xs) := by
        intro xs hxs
        refine .list (fun x hx => ih id false t' x ?_)
        exact List.all_eq_true.mp hxs x hx
      rcases h with ⟨hb, hn⟩ | h
      · subst hb; rw [C01.isNull_eq j hn]; exact .null rfl
      · cases j <;> simp only [Bool.false_eq_true] at h
        rename_i xs
        cases b
        · exact .some rfl (harr xs h)
        · exact harr xs h
    | named nm =>
      simp only [Bool.or_eq_true, Bool.and_eq_true, Bool.not_eq_true'] at h
      have hnamed : namedB L s (validB L s f) id j = true → Valid L s id true (.named nm) j := by
        intro hn
        unfold namedB at hn
        cases id with
        | scalar k =>
          simp only at hn
          cases hk : s.scalars[k]? with
          | none => simp [hk] at hn
          | some n => simp only [hk] at hn; exact .scalar hk hn
        | «enum» k =>
          simp only at hn
          cases hk : s.enums[k]? with
          | none => simp [hk] at hn
          | some en =>
            cases j <;> simp only [hk, Bool.false_eq_true] at hn
            simp only [Bool.or_eq_true, List.contains_iff_mem] at hn
            exact .enum hk hn
        | input k =>
          simp only at hn
          cases hk : s.inputs[k]? with
          | none => simp [hk] at hn
          | some i =>
            cases j <;> simp only [hk, Bool.false_eq_true] at hn
            rename_i kvs
            cases hone : i.isOneOf
            · simp only [hone, Bool.false_eq_true, ↓reduceIte, Bool.and_eq_true, List.all_eq_true,
                List.contains_iff_mem] at hn
              obtain ⟨⟨h1, h2⟩, h3⟩ := hn
              refine .object hk hone (C01.nodup_iff'.mp h1) h2 ?_ ?_
              · intro p hp hl
                have := h3 p hp
                simp only [hl, Bool.not_eq_true'] at this
                exact this
              · intro p hp v hl
                have := h3 p hp
                simp only [hl] at this
                exact ih _ _ _ _ this
            · simp only [hone, ↓reduceIte] at hn
              match kvs, hn with
              | [(key, v)], hn =>
                simp only at hn
                cases hf : i.fields.find? (·.1 == key) with
                | none => simp [hf] at hn
                | some p =>
                  simp only [hf] at hn
                  have hpk : p.1 = key := by simpa using List.find?_some hf
                  subst hpk
                  exact .oneOf hk hone (List.mem_of_find?_eq_some hf) (ih _ _ _ _ hn)
        | object k => simp at hn
        | interface k => simp at hn
        | union k => simp at hn
      rcases h with ⟨hb, hn⟩ | h
      · subst hb; rw [C01.isNull_eq j hn]; exact .null rfl
      · cases b
        · exact .some rfl (hnamed h)
        · exact hnamed h


def varsValidB (L : Leaves) (c : Ctx) (op : Nat) (fuel : Nat) (kvs : List (String × Json)) : Bool :=
  EnumSpec.nodup (keys kvs) && (keys kvs).all (fun key => ((varFields c op).map (·.1)).contains key) &&
  (varFields c op).all (fun p => match Json.lookup p.1 kvs with
    | none => !isNN (gty p.2)
    | some v => validB L c.s fuel p.2.id false (gty p.2) v)

theorem varsValidB_sound (L : Leaves) (c : Ctx) (op : Nat) (fuel : Nat) (kvs : List (String × Json))
    (h : varsValidB L c op fuel kvs = true) : VarsValid L c op kvs := by
  simp only [varsValidB, Bool.and_eq_true, List.all_eq_true, List.contains_iff_mem] at h
  obtain ⟨⟨h1, h2⟩, h3⟩ := h
  refine ⟨C01.nodup_iff'.mp h1, h2, ?_, ?_⟩
  · intro p hp hl
    have := h3 p hp
    simp only [hl, Bool.not_eq_true'] at this
    exact this
  · intro p hp v hl
    have := h3 p hp
    simp only [hl] at this
    exact validB_sound L c.s _ _ _ _ _ this

/-! ## 20. a concrete instance: all hypotheses hold, and what the theorems say on it

```graphql
scalar Date
enum Dir { UP DOWN }
input Filter { name: String!, when: Date, dir: Dir, tags: [String!], next: Filter, sel: Sel }
input Sel @oneOf { byId: ID, byName: String }
type Query { x: String }

query Q($f: Filter!, $n: Int) { x }
```
`Filter.next` is a direct cycle: the member is `Option<Box<Filter>>`. -/

def exSchema : Schema :=
  { objects := [{ name := "Query", fields := [0], implements := [] }],
    fields := [{ name := "x", ty := { id := .scalar 1, quals := [] }, parent := .object 0, deprecation := none }],
    scalars := Schema.defaultScalars ++ ["Date"],
    enums := [{ name := "Dir", variants := ["UP", "DOWN"] }],
    inputs := [{ name := "Filter", isOneOf := false,
                 fields := [("name", { id := .scalar 1, quals := [.required] }),
                            ("when", { id := .scalar 5, quals := [] }),
                            ("dir", { id := .enum 0, quals := [] }),
                            ("tags", { id := .scalar 1, quals := [.list, .required] }),
                            ("next", { id := .input 0, quals := [] }),
                            ("sel", { id := .input 1, quals := [] })] },
               { name := "Sel", isOneOf := true,
                 fields := [("byId", { id := .scalar 0, quals := [] }), ("byName", { id := .scalar 1, quals := [] })] }] }

def exQuery : Query :=
  { operations := [{ name := "Q", kind := .query, objectId := 0, sels := [.field none 0 []] }],
    variables := [{ opIdx := 0, name := "f", default := none, ty := { id := .input 0, quals := [.required] } },
                  { opIdx := 0, name := "n", default := none, ty := { id := .scalar 2, quals := [] } }] }

def exCtx (skip : Bool) : Ctx := { s := exSchema, q := exQuery, o := { skipNone := skip }, cs := ⟨id, id⟩ }

def exItems (skip : Bool) : List Item := ((responseForQuery (exCtx skip) 0).toOption).getD []

theorem exItems_ok (skip : Bool) : responseForQuery (exCtx skip) 0 = .ok (exItems skip) := by
  have h : ((responseForQuery (exCtx skip) 0).toOption).isSome = true := by cases skip <;> decide +kernel
  unfold exItems
  cases hr : responseForQuery (exCtx skip) 0 with
  | ok items => rfl
  | error e => simp [hr, Except.toOption] at h


/-- **all hypotheses of `input_expressible` / `variables_expressible` / `ser_valid` hold on the instance** (with and
    without `skip_serializing_none`) -/
theorem ex_hyps (skip : Bool) :
    (exCtx skip).o.normalization = .none ∧
    (∀ i ∈ (exCtx skip).s.inputs, keywordReplace i.name = i.name) ∧
    (∀ n ∈ (exCtx skip).s.scalars, keywordReplace n = n) ∧
    (∀ e ∈ (exCtx skip).s.enums, keywordReplace e.name = e.name) ∧
    C02.OutputOnly (exCtx skip).s (exCtx skip).q = true ∧ C02.InputFieldsRelevant (exCtx skip).s = true ∧
    (∀ v ∈ (exCtx skip).q.opVariables 0, C02.Relevant v.ty.id) ∧
    (Scope.defines (exItems skip)).Nodup ∧ (∀ it ∈ exItems skip, (C02.memberIdents it).Nodup) ∧
    (∀ it ∈ exItems skip, C01.notPrim it.name) ∧ ExternsFree (exCtx skip) (exItems skip) := by
  refine ⟨rfl, C02.hkw_of_not_keyword _ (by decide +kernel : ∀ i ∈ exSchema.inputs, i.name ∉ Gen.keywordTable), ?_, ?_,
    (by decide : C02.OutputOnly exSchema exQuery = true), (by decide : C02.InputFieldsRelevant exSchema = true),
    ?_, ?_, ?_, ?_, ?_⟩
  · intro n hn
    rw [C11.keywordReplace_spec, if_neg]
    exact (by decide +kernel : ∀ n ∈ exSchema.scalars, n ∉ Gen.keywordTable) n hn
  · intro e he
    rw [C11.keywordReplace_spec, if_neg]
    exact (by decide +kernel : ∀ e ∈ exSchema.enums, e.name ∉ Gen.keywordTable) e he
  · intro v hv
    have : v.ty.id = .input 0 ∨ v.ty.id = .scalar 2 := by
      simp only [exCtx, exQuery, Query.opVariables, List.filter_cons, List.filter_nil] at hv
      simp at hv
      rcases hv with rfl | rfl <;> simp
    rcases this with h | h <;> rw [h] <;> trivial
  · cases skip <;> decide +kernel
  · cases skip <;> decide +kernel
  · cases skip <;> decide +kernel
  · unfold ExternsFree
    cases skip <;> decide +kernel

/-- `{"f": {"sel": {"byId": 7}, "name": "a", "next": {"name": "b"}, "tags": ["t"], "dir": "UP"}}` — members out of
    order, nullable ones missing, `n` missing, an integer ID, a nested value of the recursive type -/
def exKvs : List (String × Json) :=
  [("f", .obj [("sel", .obj [("byId", .int 7)]), ("name", .str "a"), ("next", .obj [("name", .str "b")]),
               ("tags", .arr [.str "t"]), ("dir", .str "UP")])]

/-- the assignment is valid by the GraphQL specification's leaves (32-bit `Int`, closed enums, integer IDs) -/
theorem exKvs_valid (skip : Bool) : VarsValid Leaves.graphql (exCtx skip) 0 exKvs :=
  varsValidB_sound _ _ _ 20 _ (by cases skip <;> decide +kernel)

/-- without `skip_serializing_none`: declaration order, every absent nullable member an explicit `null`, ID as string -/
example : canonVars (exCtx false) 0 exKvs =
    .obj [("f", .obj [("name", .str "a"), ("when", .null), ("dir", .str "UP"), ("tags", .arr [.str "t"]),
                      ("next", .obj [("name", .str "b"), ("when", .null), ("dir", .null), ("tags", .null),
                                     ("next", .null), ("sel", .null)]),
                      ("sel", .obj [("byId", .str "7")])]),
          ("n", .null)] := by rfl

/-- with it: the `null` members are gone, at every depth -/
example : canonVars (exCtx true) 0 exKvs =
    .obj [("f", .obj [("name", .str "a"), ("dir", .str "UP"), ("tags", .arr [.str "t"]),
                      ("next", .obj [("name", .str "b")]), ("sel", .obj [("byId", .str "7")])])] := by
  rfl

/-- **the theorem on the instance**: some `Variables` value is written as that canonical object -/
example (skip : Bool) : ∃ x, HasTy (moduleEnv (exCtx skip) (exItems skip)) (.path "Variables") x ∧
    Serde.ser (moduleEnv (exCtx skip) (exItems skip)) (.path "Variables") x = .ok (canonVars (exCtx skip) 0 exKvs) := by
  obtain ⟨h1, h2, h3, h4, h5, h6, h7, h8, h9, h10, h11⟩ := ex_hyps skip
  obtain ⟨x, hx, hs, _⟩ := variables_expressible Leaves.graphql (exCtx skip) 0 (exItems skip) h1 h2 h3 h4 h5 h6 h7 h8 h9
    h10 h11 int32_sub_i64 (exItems_ok skip) (by cases skip <;> decide) exKvs (exKvs_valid skip)
  exact ⟨x, hx, hs⟩

mutual
  /-- structural equality test on `Json` (the derived `BEq` does not reduce in the kernel) -/
  def jsonEqB : Json → Json → Bool
    | .null, .null => true
    | .bool a, .bool b => a == b
    | .int a, .int b => a == b
    | .num a, .num b => a == b
    | .str a, .str b => a == b
    | .arr xs, .arr ys => jsonsEqB xs ys
    | .obj xs, .obj ys => kvsEqB xs ys
    | _, _ => false
  def jsonsEqB : List Json → List Json → Bool
    | [], [] => true
    | x :: xs, y :: ys => jsonEqB x y && jsonsEqB xs ys
    | _, _ => false
  def kvsEqB : List (String × Json) → List (String × Json) → Bool
    | [], [] => true
    | (k, x) :: xs, (l, y) :: ys => k == l && jsonEqB x y && kvsEqB xs ys
    | _, _ => false
end

/-- … and the model's own `from_value` / `to_value` agree (IDs as strings): reading the assignment and writing the
    value back gives the canonical object -/
example : (match Serde.de (moduleEnv (exCtx true) (exItems true)) (.path "Variables")
      (.obj [("f", .obj [("sel", .obj [("byId", .str "7")]), ("name", .str "a"), ("next", .obj [("name", .str "b")]),
                         ("tags", .arr [.str "t"]), ("dir", .str "UP")])]) with
    | .ok x => (match Serde.ser (moduleEnv (exCtx true) (exItems true)) (.path "Variables") x with
      | .ok j => jsonEqB j (canonVars (exCtx true) 0 exKvs)
      | .error _ => false)
    | .error _ => false) = true := by decide +kernel

/-! ## 21. what cannot be strengthened -/

/-- the module of the instance satisfies `InputEnv` -/
theorem ex_env (skip : Bool) : ∃ u, allUsedTypes (exCtx skip).s (exCtx skip).q 0 = .ok u ∧
    InputEnv (exCtx skip) (moduleEnv (exCtx skip) (exItems skip)) (· ∈ u.types) := by
  obtain ⟨h1, h2, _, _, h5, h6, _, h8, h9, h10, h11⟩ := ex_hyps skip
  exact inputEnv_of_module (exCtx skip) 0 (exItems skip) h1 h2 h5 h6 h8 h9 h10 h11 (exItems_ok skip)

/-- **an `ID` member is always written as a string**: the assignment `{"id": 7}`, valid by the specification, is
    expressible only up to `canon` (`7 ↦ "7"`), never literally -/
theorem id_written_as_string {c : Ctx} {e : Env} {U : TypeId → Prop} (env : InputEnv c e U) (x : Val) (fuel : Nat)
    (j : Json) (hx : HasTy e (.path "ID") x) (hs : serPath e fuel "ID" x = .ok j) : ∃ v, j = .str v := by
  obtain ⟨v, rfl⟩ := hasTy_string rfl (hasTy_alias (by decide) env.id hx)
  cases fuel with
  | zero => exact absurd hs (serPath_zero e _ _ _)
  | succ f => exact ⟨v, serPath_prim_inv e f _ _ _ j rfl hs⟩

/-- … and `Deserialize` for `Variables` rejects an integer ID (the input side has no `deserialize_with` helper):
    the `de` half of `input_expressible` needs IDs given as strings -/
example : (match Serde.de (moduleEnv (exCtx false) (exItems false)) (.path "ID") (.int 7) with
    | .ok _ => false
    | .error _ => true) = true := by decide +kernel

/-- **`ser_valid` is false for the specification's 32-bit `Int`**: `n = Some(2^40)` is a value of the member's type
    `Option<Int>`, `Int = i64`; it is written as the JSON number `1099511627776`, which is not a GraphQL `Int` -/
theorem int64_not_graphql_int :
    ∃ x, HasTy (moduleEnv (exCtx false) (exItems false)) (.opt (.path "Int")) x ∧
      (match Serde.ser (moduleEnv (exCtx false) (exItems false)) (.opt (.path "Int")) x with
       | .ok j => jsonEqB j (.int 1099511627776)
       | .error _ => false) = true ∧
      ¬ Valid Leaves.graphql exSchema (.scalar 2) false (.named "") (.int 1099511627776) := by
  obtain ⟨u, _, env⟩ := ex_env false
  refine ⟨.some (.int 1099511627776), .some (.alias (by decide) env.int (.i64 (by decide))), by decide +kernel, ?_⟩
  intro h
  cases h with
  | some _ h' =>
    cases h' with
    | scalar hn hok =>
      simp [exSchema, Schema.defaultScalars] at hn
      subst hn
      revert hok
      decide

/-- **`ser_valid` is false for closed enums**: `Dir::Other("SIDEWAYS")` is a value of the generated enum and is
    written as a string that is not one of the schema's value names -/
theorem enum_other_not_declared :
    ∃ x, HasTy (moduleEnv (exCtx false) (exItems false)) (.path "Dir") x ∧
      (match Serde.ser (moduleEnv (exCtx false) (exItems false)) (.path "Dir") x with
       | .ok j => jsonEqB j (.str "SIDEWAYS")
       | .error _ => false) = true ∧
      ¬ Valid Leaves.graphql exSchema (.enum 0) true (.named "") (.str "SIDEWAYS") := by
  obtain ⟨u, hu, env⟩ := ex_env false
  have hU : TypeId.enum 0 ∈ u.types := by
    have : (allUsedTypes exSchema exQuery 0).toOption.map (fun u => decide (TypeId.enum 0 ∈ u.types)) = some true := by
      decide +kernel
    change allUsedTypes exSchema exQuery 0 = .ok u at hu
    rw [hu] at this
    simpa [Except.toOption] using this
  obtain ⟨hp, hcase⟩ := env.enums 0 ⟨"Dir", ["UP", "DOWN"]⟩ hU rfl
  rcases hcase with ⟨hitem, _⟩ | ⟨_, hext⟩
  · rw [enumItem_eq] at hitem
    refine ⟨.enumOther "SIDEWAYS", .enumOther hp hitem, by decide +kernel, ?_⟩
    intro h
    cases h with
    | «enum» hen hv =>
      simp [exSchema] at hen
      subst hen
      rcases hv with hv | hv
      · exact absurd hv (by decide)
      · exact absurd hv (by decide)
  · exfalso
    revert hext
    decide +kernel

end C04S
end GqlVerif
