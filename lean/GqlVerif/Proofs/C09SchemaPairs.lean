import GqlVerif.Proofs.C09Normalization
import GqlVerif.Proofs.C02Response
/-!
# C09 — the correspondence of names between two generated modules, in closed form (core of `C09Schema`)

`C09Normalization.envPairs` reads the correspondence of type names off two generated modules, position by
position.  This file computes it from the schema, the query and the case functions:

* `calc_pairs` — relational induction over the four mutual `calc*` functions (two contexts that agree on everything
  `calc*` reads except `normalization`): every pair of names at corresponding positions of the response items is
  allowed by `P` (`POK`: the field-position spellings of a *used* enum / scalar, the name of a *used* fragment) or is
  the same name on both sides, defined by an item of the same list;
* `module_pairs` — the module level: every pair of `envPairs` (externs apart) belongs to `modulePairs`, a list
  computed from `allUsedTypes`, the schema and the selection trees (`C02.moduleNames` machinery).
-/
namespace GqlVerif
namespace C09S
open Serde Codegen C09 C09N

theorem tyLeaf_eq_leaf : ∀ t : RTy, tyLeaf t = Scope.leaf t
  | .path _ => rfl
  | .opt t => by simp only [tyLeaf, Scope.leaf, tyLeaf_eq_leaf t]
  | .vec t => by simp only [tyLeaf, Scope.leaf, tyLeaf_eq_leaf t]
  | .box t => by simp only [tyLeaf, Scope.leaf, tyLeaf_eq_leaf t]

/-! ## list vocabulary -/

theorem All2.forall_zip {α β} {R : α → β → Prop} : ∀ {l : List α} {l' : List β}, All2 R l l' → ∀ x ∈ l.zip l', R x.1 x.2
  | _, _, .nil, x, hx => by cases hx
  | _, _, .cons h t, x, hx => by
    simp only [List.zip_cons_cons, List.mem_cons] at hx
    rcases hx with rfl | hx
    · exact h
    · exact All2.forall_zip t x hx

theorem mem_zip_self {α} : ∀ {l : List α} {y : α × α}, y ∈ l.zip l → y.1 = y.2 ∧ y.1 ∈ l
  | [], _, h => by cases h
  | a :: l, y, h => by
    simp only [List.zip_cons_cons, List.mem_cons] at h
    rcases h with rfl | h
    · exact ⟨rfl, List.mem_cons_self⟩
    · exact ⟨(mem_zip_self h).1, List.mem_cons_of_mem _ (mem_zip_self h).2⟩

theorem All2.of_forall_zip {α β} {R : α → β → Prop} : ∀ {l : List α} {l' : List β}, l.length = l'.length →
    (∀ x ∈ l.zip l', R x.1 x.2) → All2 R l l'
  | [], [], _, _ => .nil
  | [], _ :: _, h, _ => by simp at h
  | _ :: _, [], h, _ => by simp at h
  | a :: l, b :: l', h, hr =>
    .cons (hr (a, b) (by simp)) (All2.of_forall_zip (by simpa using h) (fun x hx => hr x (by simp [List.zip_cons_cons, hx])))

/-! ## names at corresponding positions -/

section Core
variable (P : String → String → Prop)

/-- the pair `(a, b)` of names at corresponding positions is accounted for: allowed by `P`, or the same name on both
    sides, defined by an item of `ctx` -/
def NameOK (ctx : List Item) (a b : String) : Prop := P a b ∨ (a = b ∧ a ∈ Scope.defines ctx)

/-- every pair of names at corresponding positions of the two items is accounted for -/
def ItemOK (ctx : List Item) (it it' : Item) : Prop := ∀ y ∈ itemPairs it it', NameOK P ctx y.1 y.2

def FieldOK (ctx : List Item) (f f' : RField) : Prop := NameOK P ctx (tyLeaf f.ty) (tyLeaf f'.ty)

variable {P}

theorem NameOK.mono {a b : List Item} {x y : String} (h : ∀ m ∈ Scope.defines a, m ∈ Scope.defines b)
    (hr : NameOK P a x y) : NameOK P b x y :=
  hr.elim .inl (fun ⟨e, hm⟩ => .inr ⟨e, h _ hm⟩)

theorem ItemOK.mono {a b : List Item} {it it' : Item} (h : ∀ m ∈ Scope.defines a, m ∈ Scope.defines b)
    (hr : ItemOK P a it it') : ItemOK P b it it' := fun y hy => (hr y hy).mono h

theorem itemsOK_mono {a b l l' : List Item} (h : ∀ m ∈ Scope.defines a, m ∈ Scope.defines b)
    (hr : All2 (ItemOK P a) l l') : All2 (ItemOK P b) l l' := All2.mono (fun _ _ hi => hi.mono h) hr

theorem fieldsOK_mono {a b : List Item} {l l' : List RField} (h : ∀ m ∈ Scope.defines a, m ∈ Scope.defines b)
    (hr : All2 (FieldOK P a) l l') : All2 (FieldOK P b) l l' := All2.mono (fun _ _ hi => NameOK.mono h hi) hr

theorem NameOK.self {ctx : List Item} {a : String} (h : a ∈ Scope.defines ctx) : NameOK P ctx a a := .inr ⟨rfl, h⟩

/-- a struct against a struct of the same name -/
theorem itemOK_struct {ctx : List Item} {n : String} {d d' : List String} {s s' : Option String} {fs fs' : List RField}
    (hn : n ∈ Scope.defines ctx) (hf : All2 (FieldOK P ctx) fs fs') :
    ItemOK P ctx (.struct n d s fs) (.struct n d' s' fs') := by
  intro y hy
  simp only [itemPairs, itemTys, Item.name, List.mem_cons] at hy
  rcases hy with rfl | hy
  · exact .self hn
  · rw [List.map_map, List.map_map, List.zip_map] at hy
    obtain ⟨x, hx, rfl⟩ := List.mem_map.mp hy
    exact All2.forall_zip hf x hx

theorem itemOK_tagged {ctx : List Item} {n tag : String} {d d' : List String} {s s' : Option String} {vs : List RVariant}
    (hn : n ∈ Scope.defines ctx) (hv : ∀ v ∈ vs, ∀ t, v.payload = some t → tyLeaf t ∈ Scope.defines ctx) :
    ItemOK P ctx (.tagged n d s tag vs) (.tagged n d' s' tag vs) := by
  intro y hy
  simp only [itemPairs, itemTys, Item.name, List.mem_cons] at hy
  rcases hy with rfl | hy
  · exact .self hn
  · obtain ⟨e, hm⟩ := mem_zip_self hy
    obtain ⟨t, ht, hty⟩ := List.mem_map.mp hm
    obtain ⟨v, hv', hvt⟩ := List.mem_filterMap.mp ht
    refine .inr ⟨e, ?_⟩
    rw [← hty]
    exact hv v hv' t hvt

theorem itemOK_alias {ctx : List Item} {n t : String} {b : Bool} (hn : n ∈ Scope.defines ctx) (ht : NameOK P ctx t t) :
    ItemOK P ctx (aliasItem n t b) (aliasItem n t b) := by
  intro y hy
  cases b <;>
  · simp only [aliasItem, itemPairs, itemTys, Item.name, List.map_cons, List.map_nil, List.zip_cons_cons, List.zip_nil_right,
      List.mem_cons, List.not_mem_nil, or_false, Bool.false_eq_true, if_false, if_true, tyLeaf] at hy
    rcases hy with rfl | rfl
    · exact .self hn
    · exact ht


/-- the items `renderType` emits for one expanded type, on both sides -/
theorem renderType_ok {c c' : Ctx} {ctx : List Item} (name : String) {fs fs' : List RField} (vs : List RVariant)
    (hd : ∀ m ∈ Scope.defines (renderType c name fs vs), m ∈ Scope.defines ctx)
    (hf : All2 (FieldOK P ctx) fs fs')
    (hv : ∀ v ∈ vs, ∀ t, v.payload = some t → tyLeaf t ∈ Scope.defines ctx) :
    All2 (ItemOK P ctx) (renderType c name fs vs) (renderType c' name fs' vs) := by
  have he : fs'.isEmpty = fs.isEmpty := by
    have := All2.length_eq hf
    cases fs <;> cases fs' <;> simp_all
  rw [C02.defines_renderType] at hd
  unfold renderType
  rw [he]
  cases hfe : fs.isEmpty <;> cases hve : vs.isEmpty <;>
    simp only [hfe, hve, C02.headNames, Bool.not_true, Bool.not_false, Bool.and_true, Bool.and_false, Bool.and_self,
      Bool.false_eq_true, if_true, if_false, List.mem_cons, List.not_mem_nil, or_false, forall_eq_or_imp, forall_eq] at hd ⊢
  · refine .cons (itemOK_struct hd.1 (All2.append hf (.cons ?_ .nil))) (.cons (itemOK_tagged hd.2 hv) .nil)
    exact .self hd.2
  · exact .cons (itemOK_struct hd hf) .nil
  · exact .cons (itemOK_tagged hd hv) .nil
  · exact .cons (itemOK_struct hd hf) .nil

theorem mem_defines_left {a b : List Item} : ∀ m ∈ Scope.defines a, m ∈ Scope.defines (a ++ b) := C02.mem_defines_left
theorem mem_defines_right {a b : List Item} : ∀ m ∈ Scope.defines b, m ∈ Scope.defines (a ++ b) := C02.mem_defines_right

/-- the items of one `calcSelection` call, assembled -/
theorem assemble_ok {c c' : Ctx} (name : String) {fs fs' : List RField} {vs : List RVariant} {vi vi' fi fi' : List Item}
    (hf : All2 (FieldOK P fi) fs fs') (hfi : All2 (ItemOK P fi) fi fi')
    (hv : ∀ v ∈ vs, ∀ t, v.payload = some t → tyLeaf t ∈ Scope.defines vi) (hvi : All2 (ItemOK P vi) vi vi') :
    All2 (ItemOK P (renderType c name fs vs ++ vi ++ fi)) (renderType c name fs vs ++ vi ++ fi)
      (renderType c' name fs' vs ++ vi' ++ fi') := by
  refine All2.append (All2.append (renderType_ok name vs (fun m hm => mem_defines_left _ (mem_defines_left _ hm))
    (fieldsOK_mono mem_defines_right hf) (fun v hv' t ht => mem_defines_left _ (mem_defines_right _ (hv v hv' t ht)))) ?_) ?_
  · exact itemsOK_mono (fun m hm => mem_defines_left _ (mem_defines_right _ hm)) hvi
  · exact itemsOK_mono mem_defines_right hfi

/-! ## `renderField` on both sides -/

/-- both omitted, or both rendered with the given leaves -/
def FldRel (ft ft' : String) (a b : Option RField) : Prop :=
  (a = none ∧ b = none) ∨ ∃ f f', a = some f ∧ b = some f' ∧ tyLeaf f.ty = ft ∧ tyLeaf f'.ty = ft'

theorem decorateType_tyLeaf {base : RTy} {quals : List Qual} {t : RTy} (h : decorateType base quals = .ok t) :
    tyLeaf t = tyLeaf base := by
  have := C02.decorateType_leaf h
  rwa [C02.leaf_eq, C02.leaf_eq, ← tyLeaf_eq_leaf, ← tyLeaf_eq_leaf] at this

theorem renderField_rel {c c' : Ctx} (h1 : c'.o.skipNone = c.o.skipNone) (h2 : c'.o.deprecation = c.o.deprecation)
    (g : Option String) (r ft ft' : String) (quals : List Qual) (fl bx : Bool) (dep : Option (Option String)) :
    ORel (FldRel ft ft') (renderField c g r ft quals fl bx dep) (renderField c' g r ft' quals fl bx dep) := by
  unfold renderField
  rw [h1, h2]
  apply ORel.bind' (decorateType_erase_path ft ft' quals); intro t t' ht ht' _
  have hl := decorateType_tyLeaf ht
  have hl' := decorateType_tyLeaf ht'
  simp only [tyLeaf] at hl hl'
  simp only
  split
  · exact ORel.pure (.inl ⟨rfl, rfl⟩)
  · apply ORel.pure
    refine .inr ⟨_, _, rfl, rfl, ?_, ?_⟩
    · cases bx <;> simp only [Bool.false_eq_true, if_false, if_true, tyLeaf, hl]
    · cases bx <;> simp only [Bool.false_eq_true, if_false, if_true, tyLeaf, hl']

theorem fldRel_fieldsOK {ctx : List Item} {ft ft' : String} {a b : Option RField} (h : FldRel ft ft' a b)
    (hn : NameOK P ctx ft ft') : All2 (FieldOK P ctx) a.toList b.toList := by
  rcases h with ⟨rfl, rfl⟩ | ⟨f, f', rfl, rfl, h1, h2⟩
  · exact .nil
  · refine .cons ?_ .nil
    unfold FieldOK
    rw [h1, h2]
    exact hn

/-- the same fields on both sides, every leaf allowed by `P` -/
theorem fieldsOK_self {ctx : List Item} : ∀ {fs : List RField}, (∀ f ∈ fs, P (tyLeaf f.ty) (tyLeaf f.ty)) →
    All2 (FieldOK P ctx) fs fs
  | [], _ => .nil
  | f :: _, h => .cons (.inl (h f List.mem_cons_self)) (fieldsOK_self (fun g hg => h g (List.mem_cons_of_mem _ hg)))


/-! ## the `calc*` block -/

/-- what `P` has to allow: the field-position spellings of the used enums and scalars, the names of the used fragments -/
structure POK (c c' : Ctx) (u : UsedTypes) (P : String → String → Prop) : Prop where
  enum : ∀ k en, TypeId.enum k ∈ u.types → c.s.enums[k]? = some en →
    P (c.o.normalization.fieldType c.cs en.name) (c'.o.normalization.fieldType c'.cs en.name)
  scalar : ∀ k sn, TypeId.scalar k ∈ u.types → c.s.scalars[k]? = some sn →
    P (c.o.normalization.fieldType c.cs sn) (c'.o.normalization.fieldType c'.cs sn)
  frag : ∀ g fr, g ∈ u.fragments → c.q.fragments[g]? = some fr → P fr.name fr.name

variable (P)
abbrev Q1 (a b : List Item) : Prop := All2 (ItemOK P a) a b
abbrev Q2 (a b : List RVariant × List Item) : Prop :=
  a.1 = b.1 ∧ (∀ v ∈ a.1, ∀ t, v.payload = some t → tyLeaf t ∈ Scope.defines a.2) ∧ All2 (ItemOK P a.2) a.2 b.2
abbrev Q3 (sname : String) (a b : List RField × List Item × List Item) : Prop :=
  All2 (FieldOK P a.2.1) a.1 b.1 ∧ All2 (ItemOK P a.2.1) a.2.1 b.2.1 ∧ a.2.2 = b.2.2 ∧
  ∀ x ∈ a.2.2, ∃ tgt bx, x = aliasItem sname tgt bx ∧ P tgt tgt
abbrev Q4 (a b : List RField × List Item) : Prop := All2 (FieldOK P a.2) a.1 b.1 ∧ All2 (ItemOK P a.2) a.2 b.2
variable {P}

theorem lone_spread_eq {sels : List Sel} {fid : Nat}
    (h : (match sels with | [.spread fid] => some fid | _ => none) = some fid) : sels = [.spread fid] := by
  split at h
  · simp only [Option.some.injEq] at h; subst h; rfl
  · cases h

theorem lone_vspread_eq {mine : List VariantSel} {fid : Nat} {f : RFragment}
    (h : (match mine with | [.spread fid f] => some (fid, f) | _ => none) = some (fid, f)) : mine = [.spread fid f] := by
  split at h
  · simp only [Option.some.injEq, Prod.mk.injEq] at h
    obtain ⟨rfl, rfl⟩ := h; rfl
  · cases h

theorem calc_pairs {c c' : Ctx} {u : UsedTypes} (H : CalcNorm c c') (hP : POK c c' u P) : ∀ fuel,
    (∀ name pfx t sels, C02.Cov c u sels →
      ORel (Q1 P) (calcSelection c fuel name pfx t sels) (calcSelection c' fuel name pfx t sels)) ∧
    (∀ name pfx vsels vts, C02.VOK c u vsels →
      ORel (Q2 P) (calcVariants c fuel name pfx vsels vts) (calcVariants c' fuel name pfx vsels vts)) ∧
    (∀ sname pfx vt vsels, C02.VOK c u vsels →
      ORel (Q3 P sname) (calcVariantSels c fuel sname pfx vt vsels) (calcVariantSels c' fuel sname pfx vt vsels)) ∧
    (∀ pfx t sels, C02.Cov c u sels →
      ORel (Q4 P) (calcFields c fuel pfx t sels) (calcFields c' fuel pfx t sels)) := by
  have hrf := renderField_congr H.skipNone H.deprecation
  have ham := aliasMember_congr hrf H.cs
  intro fuel
  induction fuel with
  | zero =>
    refine ⟨?_, ?_, ?_, ?_⟩
    · intros; unfold calcSelection; exact rfl
    · intros; unfold calcVariants; exact rfl
    · intros; unfold calcVariantSels; exact rfl
    · intros; unfold calcFields; exact rfl
  | succ n ih =>
    obtain ⟨ihS, ihV, ihVS, ihF⟩ := ih
    refine ⟨?_, ?_, ?_, ?_⟩
    · intro name pfx t sels hcov
      unfold calcSelection
      simp only [H.s, H.q, H.otherVariant]
      split
      · rename_i fid hfid
        have hsels := lone_spread_eq hfid
        subst hsels
        apply ORel.bind_same'; intro f hf
        apply ORel.pure
        refine .cons (itemOK_alias ?_ (.inl (hP.frag fid f (hcov.spread List.mem_cons_self) (C02.getFragment_ok hf)))) .nil
        rw [C02.defines_cons, C02.aliasItem_defines]
        exact List.mem_cons_self
      · apply ORel.bind_same'; intro variants hvar
        cases variants with
        | none =>
          simp only [pure_bind]
          apply ORel.bind (ihF pfx t sels hcov); intro a b hab
          apply ORel.pure
          exact assemble_ok name hab.1 hab.2 (fun v hv => by cases hv) .nil
        | some vts =>
          simp only [pure_bind]
          apply ORel.bind_same'; intro vsels hvsels
          apply ORel.bind (ihV name pfx vsels vts (hcov.vok hvsels)); intro r r' hr
          apply ORel.bind (ihF pfx t sels hcov); intro a b hab
          apply ORel.pure
          obtain ⟨h1, h2, h3⟩ := hr
          rw [← h1]
          refine assemble_ok name hab.1 hab.2 (fun v hv t' ht => ?_) h3
          rcases List.mem_append.mp hv with hv | hv
          · exact h2 v hv t' ht
          · split at hv
            · simp only [List.mem_singleton] at hv
              subst hv; cases ht
            · cases hv
    · intro name pfx vsels vts hvok
      cases vts with
      | nil => unfold calcVariants; exact ORel.pure ⟨rfl, fun v hv => (by cases hv), .nil⟩
      | cons vt rest =>
        unfold calcVariants
        simp only [H.s, H.q, ham]
        apply ORel.bind_same; intro vname
        have hrest : ∀ (v : RVariant) (i i' : List Item), (∀ t, v.payload = some t → tyLeaf t ∈ Scope.defines i) →
            All2 (ItemOK P i) i i' →
            ORel (Q2 P)
              (do let __x ← (Pure.pure (v, i) : Outcome _)
                  let __x_1 ← calcVariants c n name pfx vsels rest
                  Pure.pure (__x.fst :: __x_1.fst, __x.snd ++ __x_1.snd))
              (do let __x ← (Pure.pure (v, i') : Outcome _)
                  let __x_1 ← calcVariants c' n name pfx vsels rest
                  Pure.pure (__x.fst :: __x_1.fst, __x.snd ++ __x_1.snd)) := by
          intro v i i' hv hi
          simp only [pure_bind]
          apply ORel.bind (ihV name pfx vsels rest hvok); intro a b hab
          refine ORel.pure ⟨by rw [hab.1], fun w hw t ht => ?_,
            All2.append (itemsOK_mono mem_defines_left hi) (itemsOK_mono mem_defines_right hab.2.2)⟩
          rcases List.mem_cons.mp hw with rfl | hw
          · exact mem_defines_left _ (hv t ht)
          · exact mem_defines_right _ (hab.2.1 w hw t ht)
        have hmine : C02.VOK c u (vsels.filter (fun v => v.typeId == vt)) := hvok.filter _
        generalize List.filter (fun v => v.typeId == vt) vsels = mine at hmine
        split
        · exact hrest _ _ _ (fun t ht => by cases ht) .nil
        · split
          · rename_i first tl single fid f hsingle
            have hm := lone_vspread_eq hsingle
            rw [hm] at hmine
            have ⟨hg, hfr⟩ := hmine.spr fid f List.mem_cons_self
            have hdef : pfx ++ "On" ++ vname ∈
                Scope.defines [aliasItem (pfx ++ "On" ++ vname) f.name (fragmentIsRecursive c.q fid)] := by
              rw [C02.defines_cons, C02.aliasItem_defines]
              exact List.mem_cons_self
            refine hrest _ _ _ (fun t ht => ?_) (.cons (itemOK_alias hdef (.inl (hP.frag fid f hg hfr))) .nil)
            simp only [Option.some.injEq] at ht
            subst ht
            exact hdef
          · apply ORel.bind (ihVS _ pfx vt _ hmine); intro r r' hr
            obtain ⟨r1, r2, r3⟩ := r
            obtain ⟨r1', r2', r3'⟩ := r'
            obtain ⟨h1, h2, h3, h4⟩ := hr
            simp only at h1 h2 h3 h4
            subst h3
            have hpay : ∀ (i : List Item), pfx ++ "On" ++ vname ∈ Scope.defines i → ∀ t,
                ({ name := vname, payload := some (RTy.path (pfx ++ "On" ++ vname)) } : RVariant).payload = some t →
                tyLeaf t ∈ Scope.defines i := by
              intro i hi t ht
              simp only [Option.some.injEq] at ht
              subst ht
              exact hi
            have hbig : ∀ (fs fs' : List RField), All2 (FieldOK P r2) fs fs' →
                ORel (Q2 P)
                  (do let extra ← List.mapM (aliasMember c) r3
                      let __x ← (Pure.pure (({ name := vname, payload := some (RTy.path (pfx ++ "On" ++ vname)) } : RVariant),
                                  renderType c (pfx ++ "On" ++ vname) (fs ++ extra.flatten) [] ++ r2) : Outcome _)
                      let __x_1 ← calcVariants c n name pfx vsels rest
                      Pure.pure (__x.fst :: __x_1.fst, __x.snd ++ __x_1.snd))
                  (do let extra ← List.mapM (aliasMember c) r3
                      let __x ← (Pure.pure (({ name := vname, payload := some (RTy.path (pfx ++ "On" ++ vname)) } : RVariant),
                                  renderType c' (pfx ++ "On" ++ vname) (fs' ++ extra.flatten) [] ++ r2') : Outcome _)
                      let __x_1 ← calcVariants c' n name pfx vsels rest
                      Pure.pure (__x.fst :: __x_1.fst, __x.snd ++ __x_1.snd)) := by
              intro fs fs' hfs
              apply ORel.bind_same'; intro extra hex
              have hextra : ∀ f ∈ extra.flatten, P (tyLeaf f.ty) (tyLeaf f.ty) := by
                intro f hf
                have := C02.aliasMembers_leaf hex (P := fun n => P n n) h4 f hf
                rwa [← tyLeaf_eq_leaf] at this
              refine hrest _ _ _ (hpay _ (mem_defines_left _ (C02.renderType_defines c _ _ _))) ?_
              refine All2.append (renderType_ok _ [] (fun m hm => mem_defines_left _ hm)
                (All2.append (fieldsOK_mono mem_defines_right hfs) (fieldsOK_self hextra)) (fun v hv => by cases hv))
                (itemsOK_mono mem_defines_right h2)
            -- (P41) the decision (`pushedAny c.q vt mine`, the aliases) is the same on both sides
            simp only []
            split
            · rename_i a _
              obtain ⟨tgt, bx, rfl, htgt⟩ := h4 a List.mem_cons_self
              have hdef : pfx ++ "On" ++ vname ∈ Scope.defines (aliasItem (pfx ++ "On" ++ vname) tgt bx :: r2) := by
                rw [C02.defines_cons, C02.aliasItem_defines]
                exact List.mem_cons_self
              refine hrest _ _ _ (hpay _ hdef) (.cons (itemOK_alias hdef (.inl htgt)) ?_)
              exact itemsOK_mono (fun m hm => by rw [C02.defines_cons]; exact List.mem_append_right _ hm) h2
            · exact hbig _ _ h1
    · intro sname pfx vt vsels hvok
      cases vsels with
      | nil => unfold calcVariantSels; exact ORel.pure ⟨.nil, .nil, rfl, fun x hx => (by cases hx)⟩
      | cons v rest =>
        cases v with
        | inline t sub =>
          have hcov : C02.Cov c u sub := hvok.inl t sub List.mem_cons_self
          unfold calcVariantSels
          simp only [H.s, H.q, H.cs]
          apply ORel.bind_same; intro tn
          split
          · rename_i fid hfid
            have hsub := lone_spread_eq hfid
            subst hsub
            apply ORel.bind_same'; intro fr hfr
            simp only [pure_bind]
            apply ORel.bind (ihVS sname pfx vt rest hvok.tail); intro a b hab
            refine ORel.pure ⟨hab.1, hab.2.1, by rw [hab.2.2.1], fun x hx => ?_⟩
            rcases List.mem_append.mp hx with hx | hx
            · simp only [List.mem_singleton] at hx
              exact ⟨fr.name, _, hx, hP.frag fid fr (hcov.spread List.mem_cons_self) (C02.getFragment_ok hfr)⟩
            · exact hab.2.2.2 x hx
          · apply ORel.bind (ihF _ vt sub hcov); intro x y hxy
            simp only [pure_bind]
            apply ORel.bind (ihVS sname pfx vt rest hvok.tail); intro a b hab
            exact ORel.pure ⟨All2.append (fieldsOK_mono mem_defines_left hxy.1) (fieldsOK_mono mem_defines_right hab.1),
              All2.append (itemsOK_mono mem_defines_left hxy.2) (itemsOK_mono mem_defines_right hab.2.1),
              by rw [hab.2.2.1], hab.2.2.2⟩
        | spread fid fr =>
          have ⟨hg, hfr⟩ := hvok.spr fid fr List.mem_cons_self
          unfold calcVariantSels
          simp only [H.q, H.cs, hrf]
          apply ORel.bind_same'; intro fld hfld
          apply ORel.bind (ihVS sname pfx vt rest hvok.tail); intro a b hab
          refine ORel.pure ⟨All2.append (fieldsOK_self (fun f hf => ?_)) hab.1, hab.2.1, hab.2.2.1, hab.2.2.2⟩
          rw [tyLeaf_eq_leaf, C02.renderField_leaf hfld f hf]
          exact hP.frag fid fr hg hfr
    · intro pfx t sels hcov
      cases sels with
      | nil => unfold calcFields; exact ORel.pure ⟨.nil, .nil⟩
      | cons sel rest =>
        have hcons : ∀ (fl fl' : Option RField) (i i' : List Item), All2 (FieldOK P i) fl.toList fl'.toList →
            All2 (ItemOK P i) i i' →
            ORel (Q4 P)
              (do let __x ← (Pure.pure (fl, i) : Outcome _)
                  let __x_1 ← calcFields c n pfx t rest
                  Pure.pure (__x.fst.toList ++ __x_1.fst, __x.snd ++ __x_1.snd))
              (do let __x ← (Pure.pure (fl', i') : Outcome _)
                  let __x_1 ← calcFields c' n pfx t rest
                  Pure.pure (__x.fst.toList ++ __x_1.fst, __x.snd ++ __x_1.snd)) := by
          intro fl fl' i i' hfl hi
          simp only [pure_bind]
          apply ORel.bind (ihF pfx t rest hcov.tail); intro a b hab
          exact ORel.pure ⟨All2.append (fieldsOK_mono mem_defines_left hfl) (fieldsOK_mono mem_defines_right hab.1),
            All2.append (itemsOK_mono mem_defines_left hi) (itemsOK_mono mem_defines_right hab.2)⟩
        cases sel with
        | field al fid sub =>
          unfold calcFields
          simp only [H.s, H.cs]
          apply ORel.bind_same'; intro sf hsf
          have hused := hcov.fieldType List.mem_cons_self (C02.getField_ok hsf)
          split
          · rename_i e he
            apply ORel.bind_same'; intro en hen
            have := hP.enum e en (he ▸ hused) (C02.getEnum_ok hen)
            rw [H.cs] at this
            apply ORel.bind (renderField_rel H.skipNone H.deprecation _ _ _ _ _ _ _ _); intro fl fl' hfl
            exact hcons _ _ _ _ (fldRel_fieldsOK hfl (.inl this)) .nil
          · rename_i k hk
            apply ORel.bind_same'; intro sn hsn
            have := hP.scalar k sn (hk ▸ hused) (C02.getScalar_ok hsn)
            rw [H.cs] at this
            apply ORel.bind (renderField_rel H.skipNone H.deprecation _ _ _ _ _ _ _ _); intro fl fl' hfl
            exact hcons _ _ _ _ (fldRel_fieldsOK hfl (.inl this)) .nil
          · exact rfl
          · apply ORel.bind (renderField_rel H.skipNone H.deprecation _ _ _ _ _ _ _ _); intro fl fl' hfl
            apply ORel.bind' (ihS _ _ _ sub (hcov.field List.mem_cons_self)); intro i i' hi _ hii
            exact hcons _ _ _ _ (fldRel_fieldsOK hfl (.self (C02.calcSelection_defines_name hi))) hii
        | spread fid =>
          unfold calcFields
          simp only [H.q, H.cs, hrf]
          apply ORel.bind_same'; intro fr hfr
          apply ORel.bind (ihF pfx t rest hcov.tail); intro a b hab
          split
          · exact ORel.pure ⟨hab.1, hab.2⟩
          · apply ORel.bind_same'; intro fl hfl
            refine ORel.pure ⟨All2.append (fieldsOK_self (fun f hf => ?_)) hab.1, hab.2⟩
            rw [tyLeaf_eq_leaf, C02.renderField_leaf hfl f hf]
            exact hP.frag fid fr (hcov.spread List.mem_cons_self) (C02.getFragment_ok hfr)
        | inline t' sub =>
          unfold calcFields
          exact ihF pfx t rest hcov.tail
        | typename =>
          unfold calcFields
          exact ihF pfx t rest hcov.tail

end Core

/-! ## the module level -/

/-- every pair of names at corresponding positions of the two items belongs to `L` -/
def PairsIn (L : List (String × String)) (it it' : Item) : Prop := ∀ y ∈ itemPairs it it', y ∈ L

theorem PairsIn.mono {L L' : List (String × String)} (h : ∀ y ∈ L, y ∈ L') {it it' : Item} (hp : PairsIn L it it') :
    PairsIn L' it it' := fun y hy => h y (hp y hy)

theorem pairsIn_mono {L L' : List (String × String)} (h : ∀ y ∈ L, y ∈ L') {l l' : List Item}
    (hp : All2 (PairsIn L) l l') : All2 (PairsIn L') l l' := All2.mono (fun _ _ hi => hi.mono h) hp

theorem mapM_all2 {α β β' : Type} {R : β → β' → Prop} {f : α → Outcome β} {f' : α → Outcome β'} :
    ∀ {l : List α} {r : List β} {r' : List β'}, (∀ a ∈ l, ∀ x x', f a = .ok x → f' a = .ok x' → R x x') →
      l.mapM f = .ok r → l.mapM f' = .ok r' → All2 R r r'
  | [], r, r', _, h, h' => by
    simp only [List.mapM_nil, pure, Except.pure, Except.ok.injEq] at h h'
    subst h; subst h'; exact .nil
  | a :: l, r, r', hR, h, h' => by
    rw [List.mapM_cons] at h h'
    obtain ⟨b, hb, h⟩ := C02.bind_ok h
    obtain ⟨bs, hbs, h⟩ := C02.bind_ok h
    obtain ⟨b', hb', h'⟩ := C02.bind_ok h'
    obtain ⟨bs', hbs', h'⟩ := C02.bind_ok h'
    simp only [pure, Except.pure, Except.ok.injEq] at h h'
    subst h; subst h'
    exact .cons (hR a List.mem_cons_self b b' hb hb')
      (mapM_all2 (fun x hx => hR x (List.mem_cons_of_mem _ hx)) hbs hbs')

theorem all2_flatten {α β} {R : α → β → Prop} : ∀ {F : List (List α)} {F' : List (List β)},
    All2 (All2 R) F F' → All2 R F.flatten F'.flatten
  | _, _, .nil => .nil
  | _, _, .cons h t => by
    rw [List.flatten_cons, List.flatten_cons]
    exact All2.append h (all2_flatten t)

/-- the names of two structs, then the leaves of the fields at the same positions -/
theorem pairsIn_struct {L : List (String × String)} {n n' : String} {d d' : List String} {s s' : Option String}
    {fs fs' : List RField} (hn : (n, n') ∈ L) (hf : All2 (fun f f' => (tyLeaf f.ty, tyLeaf f'.ty) ∈ L) fs fs') :
    PairsIn L (.struct n d s fs) (.struct n' d' s' fs') := by
  intro y hy
  simp only [itemPairs, itemTys, Item.name, List.mem_cons] at hy
  rcases hy with rfl | hy
  · exact hn
  · rw [List.map_map, List.map_map, List.zip_map] at hy
    obtain ⟨x, hx, rfl⟩ := List.mem_map.mp hy
    exact All2.forall_zip hf x hx

theorem payload_zip {L : List (String × String)} : ∀ {vs vs' : List RVariant},
    All2 (fun v v' => ∃ t t', v.payload = some t ∧ v'.payload = some t' ∧ (tyLeaf t, tyLeaf t') ∈ L) vs vs' →
    ∀ y ∈ ((vs.filterMap (·.payload)).map tyLeaf).zip ((vs'.filterMap (·.payload)).map tyLeaf), y ∈ L
  | _, _, .nil, y, hy => by cases hy
  | _, _, .cons ⟨t, t', h1, h2, h3⟩ tl, y, hy => by
    simp only [List.filterMap_cons, h1, h2, List.map_cons, List.zip_cons_cons, List.mem_cons] at hy
    rcases hy with rfl | hy
    · exact h3
    · exact payload_zip tl y hy

theorem pairsIn_oneOf {L : List (String × String)} {n n' : String} {d d' : List String} {s s' : Option String}
    {vs vs' : List RVariant} (hn : (n, n') ∈ L)
    (hv : All2 (fun v v' => ∃ t t', v.payload = some t ∧ v'.payload = some t' ∧ (tyLeaf t, tyLeaf t') ∈ L) vs vs') :
    PairsIn L (.oneOf n d s vs) (.oneOf n' d' s' vs') := by
  intro y hy
  simp only [itemPairs, itemTys, Item.name, List.mem_cons] at hy
  rcases hy with rfl | hy
  · exact hn
  · exact payload_zip hv y hy

/-! ### the closed form -/

/-- the enums / scalars / input types the operation uses (`allUsedTypes`) -/
def usedEnumsOf (c : Ctx) (u : UsedTypes) : List StoredEnum :=
  (u.types.filterMap TypeId.asEnum?).filterMap (fun k => c.s.enums[k]?)
def usedScalarsOf (c : Ctx) (u : UsedTypes) : List String :=
  (u.types.filterMap TypeId.asScalar?).filterMap (fun k => c.s.scalars[k]?)
def usedInputsOf (c : Ctx) (u : UsedTypes) : List StoredInput :=
  (c.s.inputs.zipIdx.filter (fun (x : StoredInput × Nat) => u.types.contains (.input x.2))).map (·.1)

/-- the used scalars that get an alias -/
def customScalarsOf (c : Ctx) (u : UsedTypes) : List String :=
  (usedScalarsOf c u).filter (fun n => !Schema.defaultScalars.contains n)

/-- the used enums that get an item -/
def ownEnumsOf (c : Ctx) (u : UsedTypes) : List StoredEnum :=
  (usedEnumsOf c u).filter (fun e => !c.o.externEnums.contains e.name)

/-- the built-in aliases and their targets -/
def builtinPairs : List (String × String) :=
  [("Boolean", "Boolean"), ("bool", "bool"), ("Float", "Float"), ("f64", "f64"), ("Int", "Int"), ("i64", "i64"),
   ("ID", "ID"), ("String", "String")]

/-- alias and alias target of a custom scalar -/
def scalarPairs (c c' : Ctx) (u : UsedTypes) : List (String × String) :=
  (customScalarsOf c u).flatMap fun n =>
    [(c.o.normalization.scalarName c.cs n, c'.o.normalization.scalarName c'.cs n),
     ((c.o.scalarsModule.getD "super") ++ "::" ++ c.o.normalization.scalarName c.cs n,
      (c'.o.scalarsModule.getD "super") ++ "::" ++ c'.o.normalization.scalarName c'.cs n)]

def enumPairs (c c' : Ctx) (u : UsedTypes) : List (String × String) :=
  (ownEnumsOf c u).map fun e => (c.o.normalization.enumName c.cs e.name, c'.o.normalization.enumName c'.cs e.name)

/-- the types of the fields of an input type, in field position -/
def inputFieldPairs (c c' : Ctx) (i : StoredInput) : List (String × String) :=
  i.fields.filterMap fun p =>
    match c.s.typeName p.2.id with
    | .ok tn => some (c.o.normalization.fieldType c.cs tn, c'.o.normalization.fieldType c'.cs tn)
    | .error _ => none

def inputPairs (c c' : Ctx) (u : UsedTypes) : List (String × String) :=
  (usedInputsOf c u).flatMap fun i =>
    (keywordReplace (c.o.normalization.inputName c.cs i.name), keywordReplace (c'.o.normalization.inputName c'.cs i.name)) ::
      inputFieldPairs c c' i

def varPairs (c c' : Ctx) (op : Nat) : List (String × String) :=
  [("Variables", "Variables"), ("<impl Variables>", "<impl Variables>")] ++
  (c.q.opVariables op).filterMap fun v =>
    match c.s.typeName v.ty.id with
    | .ok tn => some (keywordReplace (c.o.normalization.fieldType c.cs tn), keywordReplace (c'.o.normalization.fieldType c'.cs tn))
    | .error _ => none

/-- the used enums and scalars in field position (response structs) -/
def leafPairs (c c' : Ctx) (u : UsedTypes) : List (String × String) :=
  (usedEnumsOf c u).map (fun e => (c.o.normalization.fieldType c.cs e.name, c'.o.normalization.fieldType c'.cs e.name)) ++
  (usedScalarsOf c u).map (fun n => (c.o.normalization.fieldType c.cs n, c'.o.normalization.fieldType c'.cs n))

/-- the names of the fragment items and of the response items (`C02.moduleNames`, last two parts): fragment
    names and path-concatenated struct names -/
def structNames (c : Ctx) (u : UsedTypes) (o : ROperation) : List String :=
  (sortNat u.fragments).flatMap (C02.fragmentNames c) ++
  C02.selectionNames c "ResponseData" (c.cs.camel o.name) (.object o.objectId) o.sels

/-- **the correspondence of names between the modules generated under `c` and `c'`, in closed form** -/
def modulePairs (c c' : Ctx) (u : UsedTypes) (o : ROperation) (op : Nat) : List (String × String) :=
  builtinPairs ++ scalarPairs c c' u ++ enumPairs c c' u ++ inputPairs c c' u ++ varPairs c c' op ++
  leafPairs c c' u ++ (structNames c u o).map (fun a => (a, a))

/-! ### the chunks of the module -/

theorem builtin_pairs : All2 (PairsIn builtinPairs) builtinAliases builtinAliases := by
  refine .cons ?_ (.cons ?_ (.cons ?_ (.cons ?_ .nil))) <;>
  · intro y hy
    simp only [itemPairs, itemTys, Item.name, tyLeaf, List.map_cons, List.map_nil, List.zip_cons_cons, List.zip_nil_right,
      List.mem_cons, List.not_mem_nil, or_false] at hy
    rcases hy with rfl | rfl <;> simp [builtinPairs]

theorem mem_usedScalarsOf {c : Ctx} {u : UsedTypes} {ns : List String}
    (h : (sortNat (u.types.filterMap TypeId.asScalar?)).mapM c.s.getScalar = .ok ns) : ∀ n ∈ ns, n ∈ usedScalarsOf c u := by
  intro n hn
  obtain ⟨k, hk, hkn⟩ := C02.mapM_ok_mem h n hn
  exact List.mem_filterMap.mpr ⟨k, (C02.mem_sortNat _ _).mp hk, C02.getScalar_ok hkn⟩

theorem mem_usedEnumsOf {c : Ctx} {u : UsedTypes} {es : List StoredEnum}
    (h : (sortNat (u.types.filterMap TypeId.asEnum?)).mapM c.s.getEnum = .ok es) : ∀ e ∈ es, e ∈ usedEnumsOf c u := by
  intro e he
  obtain ⟨k, hk, hke⟩ := C02.mapM_ok_mem h e he
  exact List.mem_filterMap.mpr ⟨k, (C02.mem_sortNat _ _).mp hk, C02.getEnum_ok hke⟩

theorem scalar_pairs {c c' : Ctx} (hs : c'.s = c.s) {u : UsedTypes} {S S' : List Item}
    (h : scalarItems c u = .ok S) (h' : scalarItems c' u = .ok S') : All2 (PairsIn (scalarPairs c c' u)) S S' := by
  unfold scalarItems at h h'
  rw [hs] at h'
  obtain ⟨ns, hns, h⟩ := C02.bind_ok h
  obtain ⟨ns', hns', h'⟩ := C02.bind_ok h'
  rw [hns] at hns'; cases hns'
  simp only [pure, Except.pure, Except.ok.injEq] at h h'
  subst h; subst h'
  refine All2.map_of _ _ _ (fun n hn => ?_)
  have hn' : n ∈ customScalarsOf c u :=
    List.mem_filter.mpr ⟨mem_usedScalarsOf hns n (List.mem_filter.mp hn).1, (List.mem_filter.mp hn).2⟩
  intro y hy
  simp only [itemPairs, itemTys, Item.name, tyLeaf, List.map_cons, List.map_nil, List.zip_cons_cons, List.zip_nil_right,
    List.mem_cons, List.not_mem_nil, or_false] at hy
  refine List.mem_flatMap.mpr ⟨n, hn', ?_⟩
  rcases hy with rfl | rfl <;> simp

theorem enum_pairs {c c' : Ctx} (hs : c'.s = c.s) (hx : c'.o.externEnums = c.o.externEnums) {u : UsedTypes} {E E' : List Item}
    (h : enumItems c u = .ok E) (h' : enumItems c' u = .ok E') : All2 (PairsIn (enumPairs c c' u)) E E' := by
  unfold enumItems at h h'
  rw [hs, hx] at h'
  obtain ⟨es, hes, h⟩ := C02.bind_ok h
  obtain ⟨es', hes', h'⟩ := C02.bind_ok h'
  rw [hes] at hes'; cases hes'
  simp only [pure, Except.pure, Except.ok.injEq] at h h'
  subst h; subst h'
  refine All2.map_of _ _ _ (fun e he => ?_)
  have he' : e ∈ ownEnumsOf c u :=
    List.mem_filter.mpr ⟨mem_usedEnumsOf hes e (List.mem_filter.mp he).1, (List.mem_filter.mp he).2⟩
  intro y hy
  simp only [enumItem, itemPairs, itemTys, Item.name, List.map_nil, List.zip_nil_right, List.mem_cons, List.not_mem_nil,
    or_false] at hy
  subst hy
  exact List.mem_map.mpr ⟨e, he', rfl⟩

theorem inputFieldType_pair {c c' : Ctx} (hs : c'.s = c.s) {p : String × FieldType} {q q' : List Qual} {t t' : RTy}
    (h : inputFieldType c p.2 q = .ok t) (h' : inputFieldType c' p.2 q' = .ok t') {i : StoredInput} (hp : p ∈ i.fields) :
    (tyLeaf t, tyLeaf t') ∈ inputFieldPairs c c' i := by
  obtain ⟨tn, htn, hl⟩ := C02.inputFieldType_leaf h
  obtain ⟨tn', htn', hl'⟩ := C02.inputFieldType_leaf h'
  rw [hs, htn] at htn'; cases htn'
  rw [C02.leaf_eq, ← tyLeaf_eq_leaf] at hl hl'
  refine List.mem_filterMap.mpr ⟨p, hp, ?_⟩
  simp only [htn, hl, hl']

theorem inputItem_pairs {c c' : Ctx} (H : NormAgree c c') {i : StoredInput} {it it' : Item}
    (h : inputItem c i = .ok it) (h' : inputItem c' i = .ok it') :
    PairsIn ((keywordReplace (c.o.normalization.inputName c.cs i.name),
      keywordReplace (c'.o.normalization.inputName c'.cs i.name)) :: inputFieldPairs c c' i) it it' := by
  unfold inputItem at h h'
  simp only [] at h h'
  split at h
  · rename_i hone
    rw [if_pos hone] at h'
    obtain ⟨vs, hvs, h⟩ := C02.bind_ok h
    obtain ⟨vs', hvs', h'⟩ := C02.bind_ok h'
    simp only [pure, Except.pure, Except.ok.injEq] at h h'
    subst h; subst h'
    refine pairsIn_oneOf List.mem_cons_self (mapM_all2 (fun p hp v v' hv hv' => ?_) hvs hvs')
    obtain ⟨t, ht, hv⟩ := C02.bind_ok hv
    obtain ⟨t', ht', hv'⟩ := C02.bind_ok hv'
    simp only [pure, Except.pure, Except.ok.injEq] at hv hv'
    subst hv; subst hv'
    exact ⟨t, t', rfl, rfl, List.mem_cons_of_mem _ (inputFieldType_pair H.s ht ht' hp)⟩
  · rename_i hone
    rw [if_neg hone] at h'
    obtain ⟨fs, hfs, h⟩ := C02.bind_ok h
    obtain ⟨fs', hfs', h'⟩ := C02.bind_ok h'
    simp only [pure, Except.pure, Except.ok.injEq] at h h'
    subst h; subst h'
    refine pairsIn_struct List.mem_cons_self (mapM_all2 (fun p hp f f' hf hf' => ?_) hfs hfs')
    obtain ⟨t, ht, hf⟩ := C02.bind_ok hf
    obtain ⟨t', ht', hf'⟩ := C02.bind_ok hf'
    simp only [pure, Except.pure, Except.ok.injEq] at hf hf'
    subst hf; subst hf'
    exact List.mem_cons_of_mem _ (inputFieldType_pair H.s ht ht' hp)

theorem input_pairs {c c' : Ctx} (H : NormAgree c c') {u : UsedTypes} {I I' : List Item}
    (h : inputItems c u = .ok I) (h' : inputItems c' u = .ok I') : All2 (PairsIn (inputPairs c c' u)) I I' := by
  unfold inputItems at h h'
  rw [H.s] at h'
  refine mapM_all2 (fun x hx it it' hit hit' => ?_) h h'
  refine (inputItem_pairs H hit hit').mono (fun y hy => ?_)
  exact List.mem_flatMap.mpr ⟨x.1, List.mem_map.mpr ⟨x, hx, rfl⟩, hy⟩

theorem variableType_pair {c c' : Ctx} (hs : c'.s = c.s) {v : RVariable} {t t' : RTy}
    (h : variableType c v = .ok t) (h' : variableType c' v = .ok t') {op : Nat} (hv : v ∈ c.q.opVariables op) :
    (tyLeaf t, tyLeaf t') ∈ varPairs c c' op := by
  unfold variableType at h h'
  rw [hs] at h'
  obtain ⟨tn, htn, h⟩ := C02.bind_ok h
  obtain ⟨tn', htn', h'⟩ := C02.bind_ok h'
  rw [htn] at htn'; cases htn'
  have hl := decorateType_tyLeaf h
  have hl' := decorateType_tyLeaf h'
  simp only [tyLeaf] at hl hl'
  refine List.mem_append_right _ (List.mem_filterMap.mpr ⟨v, hv, ?_⟩)
  simp only [htn, hl, hl']

theorem variables_pairs {c c' : Ctx} (H : NormAgree c c') {op : Nat} {V V' : List Item}
    (h : variablesItems c op = .ok V) (h' : variablesItems c' op = .ok V') : All2 (PairsIn (varPairs c c' op)) V V' := by
  unfold variablesItems at h h'
  rw [H.q] at h'
  simp only [] at h h'
  split at h
  · rename_i hemp
    rw [if_pos hemp] at h'
    simp only [pure, Except.pure, Except.ok.injEq] at h h'
    subst h; subst h'
    refine .cons (fun y hy => ?_) .nil
    simp only [itemPairs, itemTys, Item.name, List.map_nil, List.zip_nil_right, List.mem_cons, List.not_mem_nil, or_false] at hy
    subst hy; simp [varPairs]
  · rename_i hemp
    rw [if_neg hemp] at h'
    obtain ⟨fs, hfs, h⟩ := C02.bind_ok h
    obtain ⟨dfl, _, h⟩ := C02.bind_ok h
    obtain ⟨fs', hfs', h'⟩ := C02.bind_ok h'
    obtain ⟨dfl', _, h'⟩ := C02.bind_ok h'
    simp only [pure, Except.pure, Except.ok.injEq] at h h'
    subst h; subst h'
    refine .cons (pairsIn_struct (by simp [varPairs]) (mapM_all2 (fun v hv f f' hf hf' => ?_) hfs hfs')) (.cons (fun y hy => ?_) .nil)
    · obtain ⟨t, ht, hf⟩ := C02.bind_ok hf
      obtain ⟨t', ht', hf'⟩ := C02.bind_ok hf'
      simp only [pure, Except.pure, Except.ok.injEq] at hf hf'
      subst hf; subst hf'
      exact variableType_pair H.s ht ht' hv
    · simp only [itemPairs, itemTys, Item.name, List.map_nil, List.zip_nil_right, List.mem_cons, List.not_mem_nil, or_false] at hy
      subst hy; simp [varPairs]


/-! ### fragments and response -/

theorem name_mem_selectionNames (c : Ctx) (name pfx : String) (ty : TypeId) (sels : List Sel) :
    name ∈ C02.selectionNames c name pfx ty sels := by
  unfold C02.selectionNames
  split
  · exact List.mem_cons_self
  · refine List.mem_append_left _ (List.mem_append_left _ ?_)
    unfold C02.headNames
    split <;> exact List.mem_cons_self

/-- the pairs the response items may carry: used enums / scalars in field position, the struct and fragment names -/
def respPairs (c c' : Ctx) (u : UsedTypes) (o : ROperation) : List (String × String) :=
  leafPairs c c' u ++ (structNames c u o).map (fun a => (a, a))

theorem pok_respPairs (c c' : Ctx) (u : UsedTypes) (o : ROperation) :
    POK c c' u (fun a b => (a, b) ∈ respPairs c c' u o) := by
  refine ⟨fun k en hk hen => ?_, fun k sn hk hsn => ?_, fun g fr hg hfr => ?_⟩
  · refine List.mem_append_left _ (List.mem_append_left _ (List.mem_map.mpr ⟨en, ?_, rfl⟩))
    exact List.mem_filterMap.mpr ⟨k, List.mem_filterMap.mpr ⟨_, hk, rfl⟩, hen⟩
  · refine List.mem_append_left _ (List.mem_append_right _ (List.mem_map.mpr ⟨sn, ?_, rfl⟩))
    exact List.mem_filterMap.mpr ⟨k, List.mem_filterMap.mpr ⟨_, hk, rfl⟩, hsn⟩
  · refine List.mem_append_right _ (List.mem_map.mpr ⟨fr.name, List.mem_append_left _ ?_, rfl⟩)
    refine List.mem_flatMap.mpr ⟨g, (C02.mem_sortNat _ _).mpr hg, ?_⟩
    simp only [C02.fragmentNames, hfr]
    exact name_mem_selectionNames _ _ _ _ _

theorem itemsOK_pairsIn {c c' : Ctx} {u : UsedTypes} {o : ROperation} {l l' : List Item}
    (hd : ∀ m ∈ Scope.defines l, m ∈ structNames c u o)
    (h : All2 (ItemOK (fun a b => (a, b) ∈ respPairs c c' u o) l) l l') : All2 (PairsIn (respPairs c c' u o)) l l' := by
  refine All2.mono (fun it it' hi y hy => ?_) h
  rcases hi y hy with hp | ⟨he, hm⟩
  · exact hp
  · refine List.mem_append_right _ (List.mem_map.mpr ⟨y.1, hd _ hm, ?_⟩)
    exact Prod.ext rfl he

theorem calcSelection_pairs {c c' : Ctx} (H : CalcNorm c c') {u : UsedTypes} (o : ROperation) {fuel : Nat} {name pfx : String}
    {ty : TypeId} {sels : List Sel} (hcov : C02.Cov c u sels) {l l' : List Item}
    (h : calcSelection c fuel name pfx ty sels = .ok l) (h' : calcSelection c' fuel name pfx ty sels = .ok l')
    (hd : ∀ m ∈ C02.selectionNames c name pfx ty sels, m ∈ structNames c u o) :
    All2 (PairsIn (respPairs c c' u o)) l l' := by
  have := (calc_pairs H (pok_respPairs c c' u o) fuel).1 name pfx ty sels hcov
  rw [h, h'] at this
  refine itemsOK_pairsIn (fun m hm => hd m ?_) this
  rwa [(C02.calc_names fuel).1 _ _ _ _ _ h] at hm

/-- **the correspondence of names between two generated modules is contained in `modulePairs`**: let `c`, `c'`
    agree on everything except `normalization` (and the neutral options) and let both generate a module for the
    operation `op`; then at every position the two items carry names (item names, leaves of member types) that are
    paired in `modulePairs c c' u o op`, a list computed from the used types, the schema, the query and the case
    functions -/
theorem module_pairs {c c' : Ctx} (H : NormAgree c c') (op : Nat) {items items' : List Item}
    (h : responseForQuery c op = .ok items) (h' : responseForQuery c' op = .ok items') :
    ∃ u o, allUsedTypes c.s c.q op = .ok u ∧ c.q.operations[op]? = some o ∧
      All2 (PairsIn (modulePairs c c' u o op)) items items' := by
  obtain ⟨u, S, E, F, I, V, o, R, hu, hS, hE, hF, hI, hV, ho, hR, rfl⟩ := C02.responseForQuery_ok_full h
  obtain ⟨u', S', E', F', I', V', o', R', hu', hS', hE', hF', hI', hV', ho', hR', rfl⟩ := C02.responseForQuery_ok_full h'
  rw [H.s, H.q, hu] at hu'; cases hu'
  rw [H.q, ho] at ho'; cases ho'
  refine ⟨u, o, hu, ho, ?_⟩
  have ⟨hroot, hfrs⟩ := C02.used_covered hu ho
  have hsub : ∀ {A B : List (String × String)} {l l' : List Item}, (∀ y ∈ A, y ∈ B) → All2 (PairsIn A) l l' →
      All2 (PairsIn B) l l' := fun hAB hl => pairsIn_mono hAB hl
  have hresp : ∀ y ∈ respPairs c c' u o, y ∈ modulePairs c c' u o op := by
    intro y hy
    unfold modulePairs
    rcases List.mem_append.mp hy with hy | hy
    · exact List.mem_append_left _ (List.mem_append_right _ hy)
    · exact List.mem_append_right _ hy
  have hR1 : All2 (PairsIn (respPairs c c' u o)) R R' := by
    unfold responseItems at hR hR'
    rw [H.s, H.q, H.cs] at hR'
    exact calcSelection_pairs H.toCalcNorm o hroot hR hR' (fun m hm => List.mem_append_right _ hm)
  have hF1 : All2 (PairsIn (respPairs c c' u o)) F.flatten F'.flatten := by
    refine all2_flatten (mapM_all2 (fun g hg its its' hi hi' => ?_) hF hF')
    obtain ⟨fr, hfr, hcalc⟩ := C02.fragmentItems_ok hi
    obtain ⟨fr', hfr', hcalc'⟩ := C02.fragmentItems_ok hi'
    rw [H.q, hfr] at hfr'; cases hfr'
    rw [H.s, H.q, H.cs] at hcalc'
    have hcov : C02.Cov c u fr.sels := hfrs g ((C02.mem_sortNat _ _).mp hg) fr hfr
    refine calcSelection_pairs H.toCalcNorm o hcov hcalc hcalc' (fun m hm => List.mem_append_left _ ?_)
    refine List.mem_flatMap.mpr ⟨g, hg, ?_⟩
    simp only [C02.fragmentNames, hfr]
    exact hm
  unfold modulePairs
  refine All2.append (All2.append (All2.append (All2.append (All2.append (All2.append ?_ ?_) ?_) ?_) ?_) ?_) ?_
  · exact hsub (fun y hy => by simp only [List.mem_append]; exact .inl (.inl (.inl (.inl (.inl (.inl hy)))))) builtin_pairs
  · exact hsub (fun y hy => by simp only [List.mem_append]; exact .inl (.inl (.inl (.inl (.inl (.inr hy))))))
      (scalar_pairs H.s hS hS')
  · exact hsub (fun y hy => by simp only [List.mem_append]; exact .inl (.inl (.inl (.inl (.inr hy)))))
      (enum_pairs H.s H.externEnums hE hE')
  · exact hsub (fun y hy => by simp only [List.mem_append]; exact .inl (.inl (.inl (.inr hy)))) (input_pairs H hI hI')
  · exact hsub (fun y hy => by simp only [List.mem_append]; exact .inl (.inl (.inr hy))) (variables_pairs H hV hV')
  · exact hsub hresp hF1
  · exact hsub hresp hR1

end C09S
end GqlVerif
