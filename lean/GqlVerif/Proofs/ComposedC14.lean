import GqlVerif.Props.C14
import GqlVerif.Model.Scope
import GqlVerif.Proofs.ComposedC11
/-!
# Composed C14 — a payload key that no member names is ignored, end to end (reviewer finding 8)

`C14.omitted_field_key_ignored` / `omitted_key_not_taken` are about `deOwnWith` / `takeKeys` with the extra entry at
the head.  Here, on the serde model's own struct / named-type readers, for the extra key at ANY position (and any
number of occurrences: `eraseKey k` removes every entry whose key is `k`):

* `deOwnWith_erase`, **`denied_key_ignored_struct`** (`deStructWith`, struct without flatten members),
  `denied_key_ignored_struct_insert` (insertion form: `pre ++ (k, v) :: post` vs `pre ++ post`),
  `denied_key_ignored_dePath` (`dePath` at a named struct type) — hypothesis: `k` is not the wire name of a
  non-flatten member;
* **`denied_key_ignored_flatten`** — the flatten-buffer path.  For every environment, fuel, named type `p` and
  payload object: if `KeyFree e k p` — no struct *reachable from `p` at the same JSON object level* (through
  flattened members, newtype-variant payloads of tagged enums, aliases, extern aliases: `Reach`) has a non-flatten
  member with wire name `k`, no reachable tagged enum uses `k` as its tag, and no `@oneOf` enum is reachable — then
  `dePath e b fuel p (.obj kvs) = dePath e b fuel p (.obj (eraseKey k kvs))`: the extra entry stays in the flatten buffer,
  is seen by every borrowing member (tagged `on`, nested flatten structs), and changes nothing.  Also for `deFlat`
  (`deFlat_erase`: same value, the buffer handed on differs only by the extra entries) and `deTyWith`
  (`denied_key_ignored_deTy`);
* `denied_key_ignored_de_of_fuel` — the top-level `Serde.de`, *conditional* on fuel-independence of the smaller
  payload (`de` computes its fuel from the payload, so the two sides run with different fuel; fuel-independence of
  `dePath` is task P23 — not proved here);
* necessity: `tag_key_matters` (`k` = the tag of a flattened tagged enum: duplicate tag ⇒ error),
  `flattened_member_key_matters` (`k` = wire name of a member of a flattened fragment struct: it is captured),
  `oneOf_key_matters`.
-/
namespace GqlVerif
namespace Composed
open Serde

/-! ## removing a key -/

/-- the payload entries without the entries of key `k` -/
def eraseKey (k : String) (kvs : List (String × Json)) : List (String × Json) := kvs.filter (fun kv => kv.1 != k)

theorem eraseKey_insert (k : String) (v : Json) (pre post : List (String × Json)) :
    eraseKey k (pre ++ (k, v) :: post) = eraseKey k (pre ++ post) := by
  simp [eraseKey, List.filter_append, List.filter_cons]

theorem eraseKey_of_absent (k : String) (kvs : List (String × Json)) (h : ∀ kv ∈ kvs, kv.1 ≠ k) : eraseKey k kvs = kvs := by
  unfold eraseKey
  rw [List.filter_eq_self]
  intro kv hkv
  simpa using h kv hkv

theorem countKey_erase (k w : String) (kvs : List (String × Json)) (h : w ≠ k) :
    countKey w (eraseKey k kvs) = countKey w kvs := by
  unfold countKey eraseKey
  rw [List.filter_filter]
  congr 1
  apply List.filter_congr
  intro kv _
  by_cases hw : kv.1 = w
  · subst hw; simp [h]
  · simp [hw]

theorem lookup_erase (k w : String) (kvs : List (String × Json)) (h : w ≠ k) :
    Json.lookup w (eraseKey k kvs) = Json.lookup w kvs := by
  induction kvs with
  | nil => rfl
  | cons kv rest ih =>
    obtain ⟨k', v⟩ := kv
    unfold eraseKey at *
    by_cases hk : k' = k
    · subst hk
      have : (k' == w) = false := by simpa using fun e => h e.symm
      simp [List.filter_cons, Json.lookup, this, ih]
    · simp only [List.filter_cons, bne_iff_ne, ne_eq, hk, not_false_eq_true, decide_true, ↓reduceIte, Json.lookup, ih]

theorem eraseKey_filter (k : String) (q : String × Json → Bool) (kvs : List (String × Json)) :
    eraseKey k (kvs.filter q) = (eraseKey k kvs).filter q := by
  unfold eraseKey
  rw [List.filter_filter, List.filter_filter]
  apply List.filter_congr
  intro x _
  exact Bool.and_comm _ _

/-! ## the plain-struct path -/

/-- the own members never see an entry whose key is not one of their wire names — wherever it is in the payload -/
theorem deOwnWith_erase (path : String → Json → D Val) (fields : List RField) (k : String) (kvs : List (String × Json))
    (hk : ∀ f ∈ fields, f.flatten = false → f.wire ≠ k) :
    deOwnWith path fields (eraseKey k kvs) = deOwnWith path fields kvs := by
  induction fields with
  | nil => rfl
  | cons f fs ih =>
    have ih' := ih (fun f' hf' => hk f' (List.mem_cons_of_mem _ hf'))
    cases hfl : f.flatten
    · have hf : f.wire ≠ k := hk f List.mem_cons_self hfl
      simp only [deOwnWith, ih', hfl, countKey_erase k f.wire kvs hf, lookup_erase k f.wire kvs hf]
    · simp only [deOwnWith, ih', hfl, ↓reduceIte]

/-- **plain struct, any position**: for a struct without flatten members, a payload object deserializes to the same
    `Val` (or the same error) with and without the entries of a key `k` that is no member's wire name -/
theorem denied_key_ignored_struct (path : String → Json → D Val) (flat : RTy → Buf → D (Val × Buf))
    (fields : List RField) (k : String) (kvs : List (String × Json))
    (hnf : fields.any (·.flatten) = false) (hk : ∀ f ∈ fields, f.wire ≠ k) :
    deStructWith path flat fields (.obj kvs) = deStructWith path flat fields (.obj (eraseKey k kvs)) := by
  simp only [deStructWith, deStructMapWith, hnf, deOwnWith_erase path fields k kvs (fun f hf _ => hk f hf),
    Bool.false_eq_true, ↓reduceIte]

/-- insertion form: an additional entry `(k, v)` at any position -/
theorem denied_key_ignored_struct_insert (path : String → Json → D Val) (flat : RTy → Buf → D (Val × Buf))
    (fields : List RField) (k : String) (v : Json) (pre post : List (String × Json))
    (hnf : fields.any (·.flatten) = false) (hk : ∀ f ∈ fields, f.wire ≠ k) :
    deStructWith path flat fields (.obj (pre ++ (k, v) :: post)) = deStructWith path flat fields (.obj (pre ++ post)) := by
  rw [denied_key_ignored_struct path flat fields k (pre ++ (k, v) :: post) hnf hk,
      denied_key_ignored_struct path flat fields k (pre ++ post) hnf hk, eraseKey_insert]

theorem dePrim_obj (p : String) (kvs kvs' : List (String × Json)) : dePrim p (.obj kvs) = dePrim p (.obj kvs') := by
  unfold dePrim
  split
  · rfl
  · split
    · rfl
    · split
      · rfl
      · split <;> rfl

/-- the same through the named-type reader `dePath` (any fuel, buffered or not) -/
theorem denied_key_ignored_dePath (e : Env) (b : Bool) (fuel : Nat) (p n : String) (d : List String) (sc : Option String)
    (fields : List RField) (k : String) (v : Json) (pre post : List (String × Json))
    (hfind : e.find p = some (.struct n d sc fields))
    (hnf : fields.any (·.flatten) = false) (hk : ∀ f ∈ fields, f.wire ≠ k) :
    dePath e b fuel p (.obj (pre ++ (k, v) :: post)) = dePath e b fuel p (.obj (pre ++ post)) := by
  cases fuel with
  | zero => rw [dePath, dePath]
  | succ f =>
    rw [dePath, dePath, dePrim_obj p (pre ++ (k, v) :: post) (pre ++ post)]
    split
    · rfl
    · simp only [hfind]
      exact denied_key_ignored_struct_insert _ _ fields k v pre post hnf hk

/-! ## the flatten-buffer path: building blocks -/

/-- the buffer without the (untaken) entries of key `k` -/
def eraseBuf (k : String) (buf : Buf) : Buf :=
  buf.filter (fun | some kv => kv.1 != k | none => true)

theorem present_eraseBuf (k : String) (buf : Buf) : present (eraseBuf k buf) = eraseKey k (present buf) := by
  induction buf with
  | nil => rfl
  | cons x rest ih =>
    unfold present eraseBuf eraseKey at *
    cases x with
    | none => simpa [List.filter_cons] using ih
    | some kv =>
      by_cases hk : kv.1 = k
      · simpa [List.filter_cons, hk] using ih
      · simp only [List.filter_cons, bne_iff_ne, ne_eq, hk, not_false_eq_true, decide_true, ↓reduceIte,
          List.filterMap_cons, id_eq, List.cons.injEq, true_and]
        exact ih

theorem eraseBuf_map_some (k : String) (kvs : List (String × Json)) :
    eraseBuf k (kvs.map some) = (eraseKey k kvs).map some := by
  induction kvs with
  | nil => rfl
  | cons kv rest ih =>
    unfold eraseBuf eraseKey at *
    by_cases hk : kv.1 = k
    · simpa [List.filter_cons, hk] using ih
    · simp only [List.map_cons, List.filter_cons, bne_iff_ne, ne_eq, hk, not_false_eq_true, decide_true, ↓reduceIte,
        List.cons.injEq, true_and]
      exact ih

/-- a key nobody recognises is never taken, wherever it is in the buffer -/
theorem takeKeys_erase (keys : List String) (k : String) (hk : k ∉ keys) (buf : Buf) :
    takeKeys keys (eraseBuf k buf) = ((takeKeys keys buf).1, eraseBuf k (takeKeys keys buf).2) := by
  induction buf with
  | nil => rfl
  | cons x rest ih =>
    cases x with
    | none =>
      have : eraseBuf k (none :: rest) = none :: eraseBuf k rest := by simp [eraseBuf, List.filter_cons]
      rw [this]
      simp only [takeKeys, ih]
      simp [eraseBuf, List.filter_cons]
    | some kv =>
      obtain ⟨k', v⟩ := kv
      by_cases hkk : k' = k
      · subst hkk
        have h1 : eraseBuf k' (some (k', v) :: rest) = eraseBuf k' rest := by simp [eraseBuf, List.filter_cons]
        have h2 : keys.contains k' = false := by simpa using hk
        rw [h1, ih]
        simp only [takeKeys, h2, Bool.false_eq_true, ↓reduceIte]
        simp [eraseBuf, List.filter_cons]
      · have h1 : eraseBuf k (some (k', v) :: rest) = some (k', v) :: eraseBuf k rest := by
          simp [eraseBuf, List.filter_cons, hkk]
        rw [h1]
        simp only [takeKeys, ih]
        split <;> simp [eraseBuf, List.filter_cons, hkk]

/-- flattened members, each insensitive to the extra entries (and handing on a buffer that differs only by them) -/
theorem deFlatsWith_erase (flat : RTy → Buf → D (Val × Buf)) (k : String) (fields : List RField)
    (hF : ∀ f ∈ fields, f.flatten = true → ∀ buf,
      flat f.ty (eraseBuf k buf) = (fun r => (r.1, eraseBuf k r.2)) <$> flat f.ty buf) :
    ∀ buf, deFlatsWith flat fields (eraseBuf k buf) = deFlatsWith flat fields buf := by
  induction fields with
  | nil => intro buf; rfl
  | cons f fs ih =>
    intro buf
    have ih' := ih (fun f' hf' => hF f' (List.mem_cons_of_mem _ hf'))
    cases hfl : f.flatten
    · simp only [deFlatsWith, hfl, Bool.not_false, ↓reduceIte, ih']
    · simp only [deFlatsWith, hfl, Bool.not_true, Bool.false_eq_true, ↓reduceIte, hF f List.mem_cons_self hfl buf]
      cases hr : flat f.ty buf with
      | error err => rfl
      | ok r =>
        obtain ⟨v, buf'⟩ := r
        simp only [Functor.map, Except.map, bind, Except.bind, ih' buf']

/-- a struct read from a map (`deStructMapWith`): own members by `deOwnWith_erase`, the buffer by `deFlatsWith_erase` -/
theorem deStructMapWith_erase (path : String → Json → D Val) (flat : RTy → Buf → D (Val × Buf)) (k : String)
    (fields : List RField) (hk : ∀ f ∈ fields, f.flatten = false → f.wire ≠ k)
    (hF : ∀ f ∈ fields, f.flatten = true → ∀ buf,
      flat f.ty (eraseBuf k buf) = (fun r => (r.1, eraseBuf k r.2)) <$> flat f.ty buf)
    (kvs : List (String × Json)) :
    deStructMapWith path flat fields (eraseKey k kvs) = deStructMapWith path flat fields kvs := by
  unfold deStructMapWith
  rw [deOwnWith_erase path fields k kvs hk]
  have hb : ∀ q : String × Json → Bool, ((eraseKey k kvs).filter q).map some = eraseBuf k ((kvs.filter q).map some) := by
    intro q; rw [eraseBuf_map_some, eraseKey_filter]
  simp only [hb, deFlatsWith_erase flat k fields hF]

/-- internally tagged enum: the tag entry is found as before; a newtype variant hands the remaining entries —
    including the extra ones — to its payload type, which must be insensitive to them -/
theorem deTaggedWith_erase (pathB : String → Json → D Val) (b : Bool) (tag : String) (vs : List RVariant) (k : String)
    (htag : tag ≠ k)
    (hP : ∀ v ∈ vs, ∀ t, v.payload = some t → ∀ kvs, deTyWith pathB t (.obj (eraseKey k kvs)) = deTyWith pathB t (.obj kvs))
    (kvs : List (String × Json)) :
    deTaggedWith pathB b tag vs (eraseKey k kvs) = deTaggedWith pathB b tag vs kvs := by
  unfold deTaggedWith
  rw [countKey_erase k tag kvs htag, lookup_erase k tag kvs htag]
  have hrest : (eraseKey k kvs).filter (fun kv => kv.1 != tag) = eraseKey k (kvs.filter (fun kv => kv.1 != tag)) :=
    (eraseKey_filter k _ kvs).symm
  have hpick : ∀ v ∈ vs,
      (if v.other then (pure (.variant v.name none) : D Val) else
        match v.payload with
        | none => pure (.variant v.name none)
        | some t => (fun x => Val.variant v.name (some x)) <$> deTyWith pathB t (.obj ((eraseKey k kvs).filter (fun kv => kv.1 != tag)))) =
      (if v.other then (pure (.variant v.name none) : D Val) else
        match v.payload with
        | none => pure (.variant v.name none)
        | some t => (fun x => Val.variant v.name (some x)) <$> deTyWith pathB t (.obj (kvs.filter (fun kv => kv.1 != tag)))) := by
    intro v hv
    cases hp : v.payload with
    | none => rfl
    | some t => simp only [hrest, hP v hv t hp]
  split
  · rfl
  · simp only []
    split
    · rename_i name _
      cases hf : vs.find? (fun v => !v.other && v.wire == name) with
      | none => rfl
      | some v => exact hpick v (List.mem_of_find?_eq_some hf)
    · rename_i n _
      split
      · rfl
      · split
        · rfl
        · cases hg : vs[n.toNat]? with
          | none => rfl
          | some v => exact hpick v (List.mem_of_getElem? hg)
    · rfl
  · rfl

theorem deTyWith_obj_erase (path : String → Json → D Val) (k : String) :
    ∀ (t : RTy), (∀ kvs, path (Scope.leaf t) (.obj (eraseKey k kvs)) = path (Scope.leaf t) (.obj kvs)) →
      ∀ kvs, deTyWith path t (.obj (eraseKey k kvs)) = deTyWith path t (.obj kvs) := by
  intro t
  induction t with
  | path p => intro h kvs; simp only [deTyWith]; exact h kvs
  | opt t ih => intro h kvs; simp only [deTyWith, Json.isNull, Bool.false_eq_true, ↓reduceIte, ih h kvs]
  | vec t _ => intro _ kvs; simp only [deTyWith]
  | box t ih => intro h kvs; simp only [deTyWith]; exact ih h kvs

/-! ## reachability at the same JSON object level -/

/-- the named types an item reads from the *same* JSON object as itself: flattened members, newtype-variant payloads,
    alias targets (leaf through `Option` / `Box`; `Vec` over-approximates) -/
def sameLevel : Item → List String
  | .struct _ _ _ fs => (fs.filter (·.flatten)).map (fun f => Scope.leaf f.ty)
  | .tagged _ _ _ _ vs => vs.filterMap (fun v => v.payload.map Scope.leaf)
  | .alias _ _ t => [Scope.leaf t]
  | _ => []

/-- the item does not name `k`: no non-flatten member with wire name `k`, tag different from `k`; an `@oneOf` enum
    (externally tagged, exactly one key) is sensitive to every key -/
def itemOK (k : String) : Item → Bool
  | .struct _ _ _ fs => fs.all (fun f => f.flatten || f.wire != k)
  | .tagged _ _ _ tag _ => tag != k
  | .oneOf .. => false
  | _ => true

/-- `q` is read from the same JSON object as `p` -/
inductive Reach (e : Env) : String → String → Prop
  | refl (p : String) : Reach e p p
  | item {p q r : String} {it : Item} : e.find p = some it → q ∈ sameLevel it → Reach e q r → Reach e p r
  | extern {p r : String} {x : String × RTy} : e.find p = none → e.externs.find? (·.1 == p) = some x →
      Reach e (Scope.leaf x.2) r → Reach e p r

/-- **the reachability predicate**: nothing that reads the JSON object of `p` names the key `k` -/
def KeyFree (e : Env) (k : String) (p : String) : Prop :=
  ∀ q, Reach e p q → ∀ it, e.find q = some it → itemOK k it = true

theorem KeyFree.item {e : Env} {k p q : String} {it : Item} (h : KeyFree e k p) (hf : e.find p = some it)
    (hq : q ∈ sameLevel it) : KeyFree e k q :=
  fun r hr => h r (.item hf hq hr)

theorem KeyFree.extern {e : Env} {k p : String} {x : String × RTy} (h : KeyFree e k p) (hf : e.find p = none)
    (hx : e.externs.find? (·.1 == p) = some x) : KeyFree e k (Scope.leaf x.2) :=
  fun r hr => h r (.extern hf hx hr)

theorem KeyFree.ok {e : Env} {k p : String} {it : Item} (h : KeyFree e k p) (hf : e.find p = some it) :
    itemOK k it = true := h p (.refl p) it hf

/-! ## the flatten-path theorem -/

section Main
variable (e : Env) (k : String)

def EStmt1 (fuel : Nat) : Prop := ∀ p b kvs, KeyFree e k p →
  dePath e b fuel p (.obj (eraseKey k kvs)) = dePath e b fuel p (.obj kvs)
def EStmt2 (fuel : Nat) : Prop := ∀ t buf, KeyFree e k (Scope.leaf t) →
  deFlat e fuel t (eraseBuf k buf) = (fun r => (r.1, eraseBuf k r.2)) <$> deFlat e fuel t buf

variable {e k}

theorem struct_hyps {fields : List RField} {n : String} {d : List String} {sc : Option String} {p : String}
    (hkf : KeyFree e k p) (hfind : e.find p = some (.struct n d sc fields)) :
    (∀ f ∈ fields, f.flatten = false → f.wire ≠ k) ∧
    (∀ f ∈ fields, f.flatten = true → KeyFree e k (Scope.leaf f.ty)) := by
  have hok := hkf.ok hfind
  simp only [itemOK, List.all_eq_true, Bool.or_eq_true, bne_iff_ne, ne_eq] at hok
  refine ⟨fun f hf hfl => ?_, fun f hf hfl => ?_⟩
  · rcases hok f hf with h | h
    · rw [hfl] at h; cases h
    · exact h
  · exact hkf.item hfind (by
      simp only [sameLevel, List.mem_map, List.mem_filter]
      exact ⟨f, ⟨hf, hfl⟩, rfl⟩)

theorem tagged_hyps {vs : List RVariant} {n tag : String} {d : List String} {sc : Option String} {p : String}
    (hkf : KeyFree e k p) (hfind : e.find p = some (.tagged n d sc tag vs)) :
    tag ≠ k ∧ ∀ v ∈ vs, ∀ t, v.payload = some t → KeyFree e k (Scope.leaf t) := by
  have hok := hkf.ok hfind
  simp only [itemOK, bne_iff_ne, ne_eq] at hok
  refine ⟨hok, fun v hv t ht => hkf.item hfind ?_⟩
  simp only [sameLevel, List.mem_filterMap]
  exact ⟨v, hv, by simp [ht]⟩

theorem erase_main : ∀ fuel, EStmt1 e k fuel ∧ EStmt2 e k fuel := by
  intro fuel
  induction fuel with
  | zero =>
    refine ⟨?_, ?_⟩
    · intro p b kvs _; rw [dePath, dePath]
    · intro t buf _; rw [deFlat, deFlat]; rfl
  | succ f ih =>
    obtain ⟨H1, H2⟩ := ih
    have hTy : ∀ b t, KeyFree e k (Scope.leaf t) → ∀ kvs,
        deTyWith (dePath e b f) t (.obj (eraseKey k kvs)) = deTyWith (dePath e b f) t (.obj kvs) :=
      fun b t hkf => deTyWith_obj_erase _ k t (fun kvs => H1 _ b kvs hkf)
    have hStruct : ∀ b p n d sc fields, KeyFree e k p → e.find p = some (.struct n d sc fields) → ∀ kvs,
        deStructMapWith (dePath e b f) (deFlat e f) fields (eraseKey k kvs) =
        deStructMapWith (dePath e b f) (deFlat e f) fields kvs := by
      intro b p n d sc fields hkf hfind kvs
      obtain ⟨h1, h2⟩ := struct_hyps hkf hfind
      exact deStructMapWith_erase _ _ k fields h1 (fun f' hf' hfl buf => H2 f'.ty buf (h2 f' hf' hfl)) kvs
    have hTagged : ∀ b p n d sc tag vs, KeyFree e k p → e.find p = some (.tagged n d sc tag vs) → ∀ kvs,
        deTaggedWith (dePath e true f) b tag vs (eraseKey k kvs) = deTaggedWith (dePath e true f) b tag vs kvs := by
      intro b p n d sc tag vs hkf hfind kvs
      obtain ⟨h1, h2⟩ := tagged_hyps hkf hfind
      exact deTaggedWith_erase _ b tag vs k h1 (fun v hv t ht => hTy true t (h2 v hv t ht)) kvs
    refine ⟨?_, ?_⟩
    · intro p b kvs hkf
      rw [dePath, dePath, dePrim_obj p (eraseKey k kvs) kvs]
      split
      · rfl
      · cases hfind : e.find p with
        | none =>
          simp only []
          cases hx : e.externs.find? (·.1 == p) with
          | none => rfl
          | some x =>
            obtain ⟨x1, t⟩ := x
            exact hTy b t (hkf.extern hfind hx) kvs
        | some it =>
          cases it with
          | alias n pub t =>
            simp only []
            exact hTy b t (hkf.item hfind (by simp [sameLevel])) kvs
          | struct n d sc fields =>
            simp only [deStructWith]
            exact hStruct b p n d sc fields hkf hfind kvs
          | unitStruct n d sc => rfl
          | tagged n d sc tag vs =>
            simp only []
            exact hTagged b p n d sc tag vs hkf hfind kvs
          | gqlEnum n d sp vs ser de => rfl
          | oneOf n d sc vs =>
            have := hkf.ok hfind
            simp [itemOK] at this
          | defaults fns => rfl
    · intro t buf hkf
      cases t with
      | box t => rw [deFlat, deFlat]; exact H2 t buf hkf
      | opt t => simp only [deFlat]; rfl
      | vec t => simp only [deFlat]; rfl
      | path p =>
        rw [deFlat, deFlat]
        have hkf' : KeyFree e k p := hkf
        cases hfind : e.find p with
        | none => rfl
        | some it =>
          cases it with
          | alias n pub t => simp only []; exact H2 t buf (hkf'.item hfind (by simp [sameLevel]))
          | struct n d sc fields =>
            simp only []
            cases hany : fields.any (·.flatten)
            · obtain ⟨h1, _⟩ := struct_hyps hkf' hfind
              have hnot : k ∉ fields.map (·.wire) := by
                intro hm
                obtain ⟨f', hf', hw⟩ := List.mem_map.mp hm
                have hfl : f'.flatten = false := by
                  have := List.any_eq_false.mp hany f' hf'
                  simpa using this
                exact h1 f' hf' hfl hw
              simp only [Bool.false_eq_true, ↓reduceIte, takeKeys_erase _ k hnot buf]
              cases deOwnWith (dePath e true f) fields (takeKeys (fields.map (·.wire)) buf).1 <;> rfl
            · simp only [↓reduceIte, present_eraseBuf, hStruct true p n d sc fields hkf' hfind]
              cases deStructMapWith (dePath e true f) (deFlat e f) fields (present buf) <;> rfl
          | tagged n d sc tag vs =>
            simp only [present_eraseBuf, hTagged true p n d sc tag vs hkf' hfind]
            cases deTaggedWith (dePath e true f) true tag vs (present buf) <;> rfl
          | unitStruct n d sc => rfl
          | gqlEnum n d sp vs ser de => rfl
          | oneOf n d sc vs => rfl
          | defaults fns => rfl

end Main

/-- **the flatten-buffer path** (and every other shape of named type): a payload object read at the named type `p`
    gives the same `Val` — or the same error — with and without the entries of a key `k` that nothing reading this
    JSON object names (`KeyFree`): the extra entries stay in the flatten buffer, every borrowing member (tagged `on`,
    nested flatten struct) sees them, none is affected.  Any environment, fuel, `buffered` flag, key position and
    multiplicity. -/
theorem denied_key_ignored_flatten (e : Env) (k : String) (b : Bool) (fuel : Nat) (p : String)
    (kvs : List (String × Json)) (hkf : KeyFree e k p) :
    dePath e b fuel p (.obj kvs) = dePath e b fuel p (.obj (eraseKey k kvs)) :=
  ((erase_main (e := e) (k := k) fuel).1 p b kvs hkf).symm

/-- insertion form -/
theorem denied_key_ignored_flatten_insert (e : Env) (k : String) (v : Json) (b : Bool) (fuel : Nat) (p : String)
    (pre post : List (String × Json)) (hkf : KeyFree e k p) :
    dePath e b fuel p (.obj (pre ++ (k, v) :: post)) = dePath e b fuel p (.obj (pre ++ post)) := by
  rw [denied_key_ignored_flatten e k b fuel p _ hkf, denied_key_ignored_flatten e k b fuel p (pre ++ post) hkf,
    eraseKey_insert]

/-- one flattened member read from a buffer: same value, and the buffer it hands on differs only by the extra entries -/
theorem deFlat_erase (e : Env) (k : String) (fuel : Nat) (t : RTy) (buf : Buf) (hkf : KeyFree e k (Scope.leaf t)) :
    deFlat e fuel t (eraseBuf k buf) = (fun r => (r.1, eraseBuf k r.2)) <$> deFlat e fuel t buf :=
  (erase_main (e := e) (k := k) fuel).2 t buf hkf

/-- at a type expression (`Option` / `Box` around the named type) -/
theorem denied_key_ignored_deTy (e : Env) (k : String) (b : Bool) (fuel : Nat) (t : RTy)
    (kvs : List (String × Json)) (hkf : KeyFree e k (Scope.leaf t)) :
    deTy e b fuel t (.obj kvs) = deTy e b fuel t (.obj (eraseKey k kvs)) :=
  (deTyWith_obj_erase _ k t (fun kvs => (erase_main (e := e) (k := k) fuel).1 _ b kvs hkf) kvs).symm

/-- top level (`Serde.de` computes its fuel from the payload): equal results *provided* the smaller payload is read
    alike with the fuel of the larger one — fuel-independence of `dePath` above `deFuel` (task P23) gives exactly this -/
theorem denied_key_ignored_de_of_fuel (e : Env) (k : String) (t : RTy) (kvs : List (String × Json))
    (hkf : KeyFree e k (Scope.leaf t))
    (hfuel : deTy e false (deFuel e (.obj kvs)) t (.obj (eraseKey k kvs)) =
             deTy e false (deFuel e (.obj (eraseKey k kvs))) t (.obj (eraseKey k kvs))) :
    de e t (.obj kvs) = de e t (.obj (eraseKey k kvs)) := by
  unfold de
  rw [denied_key_ignored_deTy e k false _ t kvs hkf, hfuel]

/-- `KeyFree` from a decidable global condition: no item of the environment names `k` (and there is no `@oneOf` enum) -/
theorem keyFree_of_all (e : Env) (k p : String) (h : e.items.all (itemOK k) = true) : KeyFree e k p := by
  intro q _ it hf
  have hm : it ∈ e.items := List.mem_of_find?_eq_some hf
  exact List.all_eq_true.mp h it hm

/-! ## non-vacuity: a generated module with flatten members, the key of a denied field -/

/-- the module the generator emits for the rich query of `C02Response` under `deny` (25 items; `when: Date @deprecated`
    is selected and omitted) -/
def denyItems : List Item := (Codegen.responseForQuery denyCtx 0).toOption.getD []

def denyEnv : Env := { items := denyItems, externs := [("Ext", .path "String"), ("super::Date", .path "String")] }

/-- the module has structs with flatten members (fragment spreads, `on`), tagged enums with newtype variants, aliases;
    `when` is nobody's key there, while in the module generated under `warn` it is a member of `ResponseData` -/
example : denyItems.length = 25 ∧
    denyItems.filterMap (fun | .struct n _ _ fs => if fs.any (·.flatten) then some n else none | _ => none) =
      ["AnimalF", "ResponseData", "Qanimal", "QanimalOnDog"] ∧
    denyItems.all (itemOK "when") = true ∧
    ((Codegen.responseForQuery C02.richCtx 0).toOption.getD []).all (itemOK "when") = false := by decide +kernel

theorem denyEnv_keyFree (p : String) : KeyFree denyEnv "when" p :=
  keyFree_of_all _ _ _ (by decide +kernel)

/-- `denied_key_ignored_flatten` applied on the generated module: `Qanimal` (own member `name`, flattened tagged `on`
    whose `Dog` variant is a struct with a flattened fragment struct) reads a payload with the denied key `when` in the
    middle exactly as without it — and successfully -/
example :
    dePath denyEnv false 6 "Qanimal" (.obj [("__typename", .str "Dog"), ("when", .str "2020"), ("name", .str "Rex"), ("barks", .bool true)]) =
    dePath denyEnv false 6 "Qanimal" (.obj [("__typename", .str "Dog"), ("name", .str "Rex"), ("barks", .bool true)]) ∧
    (dePath denyEnv false 6 "Qanimal" (.obj [("__typename", .str "Dog"), ("name", .str "Rex"), ("barks", .bool true)])).toOption.isSome = true :=
  ⟨denied_key_ignored_flatten_insert denyEnv "when" (.str "2020") false 6 "Qanimal" [("__typename", .str "Dog")]
      [("name", .str "Rex"), ("barks", .bool true)] (denyEnv_keyFree _), by decide +kernel⟩

/-! ## the hypotheses are needed -/

/-- a struct with an own member, a flattened fragment struct and a flattened tagged enum -/
def wEnv : Env :=
  { items := [.struct "A" [] none [{ rust := "x", ty := .path "String" }, { rust := "frag", ty := .path "F", flatten := true },
                                   { rust := "on", ty := .path "AOn", flatten := true }],
              .struct "F" [] none [{ rust := "w", ty := .opt (.path "String") }],
              .tagged "AOn" [] none "__typename" [{ name := "Dog" }, { name := "Cat", payload := some (.path "F") }],
              .oneOf "O" [] none [{ name := "A", payload := some (.path "String") }]] }

/-- `k` = wire name of a member of a *flattened* struct (not a member of the struct itself): the entry is captured by
    the flattened member — "no own member is called `k`" is not enough on the flatten path -/
theorem flattened_member_key_matters :
    (∀ f ∈ ([{ rust := "x", ty := .path "String" }, { rust := "frag", ty := .path "F", flatten := true },
              { rust := "on", ty := .path "AOn", flatten := true }] : List RField), f.flatten = false → f.wire ≠ "w") ∧
    dePath wEnv false 3 "A" (.obj [("x", .str "1"), ("__typename", .str "Dog")]) =
      .ok (.record [("x", .str "1"), ("frag", .record [("w", .unit)]), ("on", .variant "Dog" none)]) ∧
    dePath wEnv false 3 "A" (.obj [("x", .str "1"), ("w", .str "v"), ("__typename", .str "Dog")]) =
      .ok (.record [("x", .str "1"), ("frag", .record [("w", .some (.str "v"))]), ("on", .variant "Dog" none)]) ∧
    ¬ KeyFree wEnv "w" "A" := by
  refine ⟨by decide, rfl, rfl, fun h => ?_⟩
  have := h "F" (.item (p := "A") (q := "F") rfl (by decide) (.refl _)) _ rfl
  exact absurd this (by decide)

/-- `k` = the tag of a flattened tagged enum: a second tag entry is a duplicate field -/
theorem tag_key_matters :
    dePath wEnv false 3 "A" (.obj [("x", .str "1"), ("__typename", .str "Dog"), ("__typename", .str "Dog")]) =
      .error (.mismatch "duplicate field __typename") ∧
    ¬ KeyFree wEnv "__typename" "A" := by
  refine ⟨rfl, fun h => ?_⟩
  have := h "AOn" (.item (p := "A") (q := "AOn") rfl (by decide) (.refl _)) _ rfl
  exact absurd this (by decide)

/-- an `@oneOf` enum (externally tagged: exactly one key) is sensitive to every additional key -/
theorem oneOf_key_matters :
    dePath wEnv false 3 "O" (.obj [("A", .str "1")]) = .ok (.variant "A" (some (.str "1"))) ∧
    dePath wEnv false 3 "O" (.obj [("A", .str "1"), ("zzz", .null)]) = .error (.mismatch "expected a map with a single key") :=
  ⟨rfl, rfl⟩

end Composed
end GqlVerif
