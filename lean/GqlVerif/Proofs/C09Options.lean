import GqlVerif.Model.Codegen
import GqlVerif.Model.Serde
import GqlVerif.Props.C11
/-!
# C09 — options that only affect Rust naming, traits or placement never change the wire
-/
namespace GqlVerif
namespace C09
open Serde Codegen

/-! ## 1. serde's behaviour does not depend on derives, serde path, alias visibility -/

/-- erase everything the wire behaviour must not depend on: `derives`, `serdeCrate` / `serdePath`, the
    `pub` flag of aliases.  Names, fields, variants, tags and match tables are kept. -/
def stripItem : Item → Item
  | .struct n _ _ fs => .struct n [] none fs
  | .unitStruct n _ _ => .unitStruct n [] none
  | .tagged n _ _ tag vs => .tagged n [] none tag vs
  | .alias n _ t => .alias n false t
  | .gqlEnum n _ _ vs ser de => .gqlEnum n [] "" vs ser de
  | .oneOf n _ _ vs => .oneOf n [] none vs
  | .defaults fns => .defaults fns

def stripEnv (e : Env) : Env := { e with items := e.items.map stripItem }

theorem stripItem_name (i : Item) : (stripItem i).name = i.name := by cases i <;> rfl

theorem stripItem_idem (i : Item) : stripItem (stripItem i) = stripItem i := by cases i <;> rfl

@[simp] theorem stripEnv_externs (e : Env) : (stripEnv e).externs = e.externs := rfl

/-- `Env.find` commutes with stripping (because `Item.name` is preserved) -/
theorem find_strip (e : Env) (p : String) : (stripEnv e).find p = (e.find p).map stripItem := by
  unfold Env.find stripEnv
  simp only [List.find?_map]
  have : ((fun x : Item => x.name == p) ∘ stripItem) = (fun x : Item => x.name == p) := by
    funext x; simp [Function.comp, stripItem_name]
  rw [this]

theorem de_strip (e : Env) : ∀ fuel,
    (∀ b p j, dePath (stripEnv e) b fuel p j = dePath e b fuel p j) ∧
    (∀ t buf, deFlat (stripEnv e) fuel t buf = deFlat e fuel t buf) := by
  intro fuel
  induction fuel with
  | zero =>
    constructor
    · intro b p j; unfold dePath; rfl
    · intro t buf; unfold deFlat; rfl
  | succ n ih =>
    obtain ⟨ihP, ihF⟩ := ih
    have hP : ∀ b, dePath (stripEnv e) b n = dePath e b n := fun b => funext fun p => funext fun j => ihP b p j
    have hF : deFlat (stripEnv e) n = deFlat e n := funext fun t => funext fun buf => ihF t buf
    constructor
    · intro b p j
      unfold dePath
      simp only [find_strip, hP, hF, stripEnv_externs]
      cases dePrim p j with
      | some r => rfl
      | none =>
        cases e.find p with
        | none => rfl
        | some it => cases it <;> rfl
    · intro t buf
      unfold deFlat
      cases t with
      | path p =>
        simp only [find_strip, hP, hF]
        cases e.find p with
        | none => rfl
        | some it => cases it <;> rfl
      | box t => simp only [hF]
      | opt t => rfl
      | vec t => rfl

theorem ser_strip (e : Env) : ∀ fuel p v, serPath (stripEnv e) fuel p v = serPath e fuel p v := by
  intro fuel
  induction fuel with
  | zero => intro p v; unfold serPath; rfl
  | succ n ih =>
    have hS : serPath (stripEnv e) n = serPath e n := funext fun p => funext fun v => ih p v
    intro p v
    unfold serPath
    simp only [find_strip, hS, stripEnv_externs]
    cases serPrim v with
    | some r => rfl
    | none =>
      cases e.find p with
      | none => rfl
      | some it => cases it <;> rfl

theorem stripEnv_length (e : Env) : (stripEnv e).items.length = e.items.length := by
  simp [stripEnv]

/-- **serde ignores derives, the serde path and alias visibility**: reading and writing with the
    stripped items is the same function, for every fuel, type name, JSON value / Rust value -/
theorem serde_ignores_derives (e : Env) :
    (∀ b fuel p j, dePath (stripEnv e) b fuel p j = dePath e b fuel p j) ∧
    (∀ fuel t buf, deFlat (stripEnv e) fuel t buf = deFlat e fuel t buf) ∧
    (∀ fuel p v, serPath (stripEnv e) fuel p v = serPath e fuel p v) :=
  ⟨fun b fuel p j => (de_strip e fuel).1 b p j, fun fuel t buf => (de_strip e fuel).2 t buf, ser_strip e⟩

theorem deTy_strip (e : Env) (b : Bool) (fuel : Nat) (t : RTy) (j : Json) :
    deTy (stripEnv e) b fuel t j = deTy e b fuel t j := by
  unfold deTy
  rw [show dePath (stripEnv e) b fuel = dePath e b fuel from
    funext fun p => funext fun j => (de_strip e fuel).1 b p j]

theorem serTy_strip (e : Env) (fuel : Nat) (t : RTy) (v : Val) :
    serTy (stripEnv e) fuel t v = serTy e fuel t v := by
  unfold serTy
  rw [show serPath (stripEnv e) fuel = serPath e fuel from funext fun p => funext fun v => ser_strip e fuel p v]

theorem de_stripEnv (e : Env) (t : RTy) (j : Json) : Serde.de (stripEnv e) t j = Serde.de e t j := by
  unfold Serde.de deFuel
  rw [deTy_strip, stripEnv_length, stripEnv_externs]

theorem ser_stripEnv (e : Env) (t : RTy) (v : Val) : Serde.ser (stripEnv e) t v = Serde.ser e t v := by
  unfold Serde.ser
  rw [serTy_strip, stripEnv_length, stripEnv_externs]

theorem roundtrip_stripEnv (e : Env) (t : RTy) (j : Json) :
    Serde.roundtrip (stripEnv e) t j = Serde.roundtrip e t j := by
  unfold Serde.roundtrip
  simp only [de_stripEnv, ser_stripEnv]

/-- two environments with the same stripped items and the same externs behave identically -/
theorem serde_eq_of_strip_eq (e e' : Env) (hi : e.items.map stripItem = e'.items.map stripItem)
    (hx : e.externs = e'.externs) :
    (∀ b fuel p j, dePath e b fuel p j = dePath e' b fuel p j) ∧
    (∀ fuel t buf, deFlat e fuel t buf = deFlat e' fuel t buf) ∧
    (∀ fuel p v, serPath e fuel p v = serPath e' fuel p v) ∧
    (∀ t j, Serde.de e t j = Serde.de e' t j) ∧
    (∀ t v, Serde.ser e t v = Serde.ser e' t v) ∧
    (∀ t j, Serde.roundtrip e t j = Serde.roundtrip e' t j) := by
  have he : stripEnv e = stripEnv e' := by
    cases e; cases e'; simp only [stripEnv] at *; simp [hi, hx]
  refine ⟨fun b fuel p j => ?_, fun fuel t buf => ?_, fun fuel p v => ?_, fun t j => ?_, fun t v => ?_, fun t j => ?_⟩
  · rw [← (de_strip e fuel).1, he, (de_strip e' fuel).1]
  · rw [← (de_strip e fuel).2, he, (de_strip e' fuel).2]
  · rw [← ser_strip e, he, ser_strip e']
  · rw [← de_stripEnv e, he, de_stripEnv e']
  · rw [← ser_stripEnv e, he, ser_stripEnv e']
  · rw [← roundtrip_stripEnv e, he, roundtrip_stripEnv e']

/-! ## 2. options that only feed derives / serde path / placement leave the stripped items unchanged -/

/-- both fail with the same error, or both succeed with related results -/
def ORel {α} (R : α → α → Prop) : Outcome α → Outcome α → Prop
  | .ok a, .ok b => R a b
  | .error e, .error e' => e = e'
  | _, _ => False

theorem ORel.pure {α} {R : α → α → Prop} {a b : α} (h : R a b) : ORel R (Pure.pure a) (Pure.pure b) := h

theorem ORel.bind {α β} {R : α → α → Prop} {S : β → β → Prop} {x y : Outcome α} {f g : α → Outcome β}
    (hxy : ORel R x y) (hfg : ∀ a b, R a b → ORel S (f a) (g b)) : ORel S (x >>= f) (y >>= g) := by
  cases x <;> cases y <;> simp only [ORel] at hxy
  · subst hxy; exact rfl
  · exact hfg _ _ hxy

theorem ORel.bind_same {α β} {S : β → β → Prop} {x : Outcome α} {f g : α → Outcome β}
    (hfg : ∀ a, ORel S (f a) (g a)) : ORel S (x >>= f) (x >>= g) := by
  cases x
  · exact rfl
  · exact hfg _

theorem ORel.refl {α} {R : α → α → Prop} (h : ∀ a, R a a) (x : Outcome α) : ORel R x x := by
  cases x
  · exact rfl
  · exact h _

theorem ORel.eq_iff {α} (x y : Outcome α) : ORel Eq x y ↔ x = y := by
  cases x <;> cases y <;> simp [ORel]

theorem ORel.map_iff {α β} (f : α → β) (x y : Outcome α) :
    ORel (fun a b => f a = f b) x y ↔ x.map f = y.map f := by
  cases x <;> cases y <;> simp [ORel, Except.map]

theorem ORel.mono {α} {R S : α → α → Prop} (h : ∀ a b, R a b → S a b) {x y : Outcome α} (hxy : ORel R x y) :
    ORel S x y := by
  cases x <;> cases y <;> simp only [ORel] at hxy ⊢
  · exact hxy
  · exact h _ _ hxy

/-- the two contexts agree on everything `calc*` reads, except what goes into `renderType`, whose
    results agree up to the view `f` -/
structure CalcAgree (f : Item → Item) (c c' : Ctx) : Prop where
  s : c'.s = c.s
  q : c'.q = c.q
  cs : c'.cs = c.cs
  otherVariant : c'.o.otherVariant = c.o.otherVariant
  skipNone : c'.o.skipNone = c.o.skipNone
  deprecation : c'.o.deprecation = c.o.deprecation
  normalization : c'.o.normalization = c.o.normalization
  render : ∀ n fs vs, (renderType c n fs vs).map f = (renderType c' n fs vs).map f

theorem renderField_congr {c c' : Ctx} (h1 : c'.o.skipNone = c.o.skipNone) (h2 : c'.o.deprecation = c.o.deprecation) :
    renderField c' = renderField c := by
  funext g r ft quals fl bx dep
  unfold renderField
  rw [h1, h2]

section calcCongr
variable (f : Item → Item)

abbrev RI (a b : List Item) : Prop := a.map f = b.map f
abbrev RP {α} (a b : α × List Item) : Prop := a.1 = b.1 ∧ a.2.map f = b.2.map f
abbrev RT {α} (a b : α × List Item × List Item) : Prop :=
  a.1 = b.1 ∧ a.2.1.map f = b.2.1.map f ∧ a.2.2.map f = b.2.2.map f

theorem calc_congr {c c' : Ctx} (H : CalcAgree f c c') : ∀ fuel,
    (∀ name pfx t sels, ORel (RI f) (calcSelection c fuel name pfx t sels) (calcSelection c' fuel name pfx t sels)) ∧
    (∀ name pfx vsels vts, ORel (RP f) (calcVariants c fuel name pfx vsels vts) (calcVariants c' fuel name pfx vsels vts)) ∧
    (∀ sname pfx vt vsels, ORel (RT f) (calcVariantSels c fuel sname pfx vt vsels) (calcVariantSels c' fuel sname pfx vt vsels)) ∧
    (∀ pfx t sels, ORel (RP f) (calcFields c fuel pfx t sels) (calcFields c' fuel pfx t sels)) := by
  have hrf := renderField_congr H.skipNone H.deprecation
  intro fuel
  induction fuel with
  | zero =>
    refine ⟨?_, ?_, ?_, ?_⟩
    · intros; unfold calcSelection; exact rfl
    · intros; unfold calcVariants; exact rfl
    · intros; unfold calcVariantSels; exact rfl
    · intros; unfold calcFields; exact rfl
  | succ n ih =>
    obtain ⟨ihS, ihV, ihVS, ihF⟩ := ih
    refine ⟨?_, ?_, ?_, ?_⟩
    · intro name pfx t sels
      unfold calcSelection
      simp only [H.s, H.q, H.otherVariant]
      split
      · exact ORel.refl (R := RI f) (fun _ => rfl) _
      · apply ORel.bind_same; intro variants
        cases variants with
        | none =>
          simp only [pure_bind]
          apply ORel.bind (ihF pfx t sels); intro a b hab
          apply ORel.pure
          simp only [RI, List.map_append, hab.1, hab.2, H.render]
        | some vts =>
          simp only [pure_bind]
          apply ORel.bind_same; intro vsels
          apply ORel.bind (ihV name pfx vsels vts); intro r r' hr
          apply ORel.bind (ihF pfx t sels); intro a b hab
          apply ORel.pure
          simp only [RI, List.map_append, hab.1, hab.2, hr.1, hr.2, H.render]
    · intro name pfx vsels vts
      cases vts with
      | nil => unfold calcVariants; exact ORel.pure ⟨rfl, rfl⟩
      | cons vt rest =>
        unfold calcVariants
        simp only [H.s, H.q]
        apply ORel.bind_same; intro vname
        have hrest : ∀ (v : RVariant) (i i' : List Item), i.map f = i'.map f →
            ORel (RP f)
              (do let __x ← (Pure.pure (v, i) : Outcome _)
                  let __x_1 ← calcVariants c n name pfx vsels rest
                  Pure.pure (__x.fst :: __x_1.fst, __x.snd ++ __x_1.snd))
              (do let __x ← (Pure.pure (v, i') : Outcome _)
                  let __x_1 ← calcVariants c' n name pfx vsels rest
                  Pure.pure (__x.fst :: __x_1.fst, __x.snd ++ __x_1.snd)) := by
          intro v i i' hi
          simp only [pure_bind]
          apply ORel.bind (ihV name pfx vsels rest); intro a b hab
          exact ORel.pure ⟨by rw [hab.1], by simp only [List.map_append, hab.2, hi]⟩
        generalize List.filter (fun v => v.typeId == vt) vsels = mine
        split
        · exact hrest _ _ _ rfl
        · split
          · exact hrest _ _ _ rfl
          · apply ORel.bind (ihVS _ pfx vt _); intro r r' hr
            obtain ⟨r1, r2, r3⟩ := r
            obtain ⟨r1', r2', r3'⟩ := r'
            obtain ⟨h1, h2, h3⟩ := hr
            simp only at h1 h2 h3
            subst h1
            cases r3 with
            | nil =>
              cases r3' with
              | nil => exact hrest _ _ _ (by simp only [List.map_append, H.render, h2])
              | cons y ys => simp at h3
            | cons x xs =>
              cases r3' with
              | nil => simp at h3
              | cons y ys =>
                simp only [List.map_cons, List.cons.injEq] at h3
                exact hrest _ _ _ (by simp only [List.map_cons, h3.1, h2])
    · intro sname pfx vt vsels
      cases vsels with
      | nil => unfold calcVariantSels; exact ORel.pure ⟨rfl, rfl, rfl⟩
      | cons v rest =>
        cases v with
        | inline t sub =>
          unfold calcVariantSels
          simp only [H.s, H.q, H.cs]
          apply ORel.bind_same; intro tn
          split
          · apply ORel.bind_same; intro fr
            simp only [pure_bind]
            apply ORel.bind (ihVS sname pfx vt rest); intro a b hab
            exact ORel.pure ⟨by rw [hab.1], by simp only [List.map_append, hab.2.1], by simp only [List.map_append, hab.2.2]⟩
          · apply ORel.bind (ihF _ vt sub); intro x y hxy
            simp only [pure_bind]
            apply ORel.bind (ihVS sname pfx vt rest); intro a b hab
            exact ORel.pure ⟨by rw [hab.1, hxy.1], by simp only [List.map_append, hab.2.1, hxy.2],
              by simp only [List.map_append, hab.2.2]⟩
        | spread fid fr =>
          unfold calcVariantSels
          simp only [H.q, H.cs, hrf]
          apply ORel.bind_same; intro fld
          apply ORel.bind (ihVS sname pfx vt rest); intro a b hab
          exact ORel.pure ⟨by rw [hab.1], hab.2.1, hab.2.2⟩
    · intro pfx t sels
      cases sels with
      | nil => unfold calcFields; exact ORel.pure ⟨rfl, rfl⟩
      | cons sel rest =>
        have hcons : ∀ (fl : Option RField) (i i' : List Item), i.map f = i'.map f →
            ORel (RP f)
              (do let __x ← (Pure.pure (fl, i) : Outcome _)
                  let __x_1 ← calcFields c n pfx t rest
                  Pure.pure (__x.fst.toList ++ __x_1.fst, __x.snd ++ __x_1.snd))
              (do let __x ← (Pure.pure (fl, i') : Outcome _)
                  let __x_1 ← calcFields c' n pfx t rest
                  Pure.pure (__x.fst.toList ++ __x_1.fst, __x.snd ++ __x_1.snd)) := by
          intro fl i i' hi
          simp only [pure_bind]
          apply ORel.bind (ihF pfx t rest); intro a b hab
          exact ORel.pure ⟨by rw [hab.1], by simp only [List.map_append, hab.2, hi]⟩
        cases sel with
        | field al fid sub =>
          unfold calcFields
          simp only [H.s, H.cs, H.normalization, hrf]
          apply ORel.bind_same; intro sf
          split
          · apply ORel.bind_same; intro en
            apply ORel.bind_same; intro fl
            exact hcons _ _ _ rfl
          · apply ORel.bind_same; intro sn
            apply ORel.bind_same; intro fl
            exact hcons _ _ _ rfl
          · exact ORel.refl (R := RP f) (fun _ => ⟨rfl, rfl⟩) _
          · apply ORel.bind_same; intro fl
            apply ORel.bind (ihS _ _ _ sub); intro i i' hi
            exact hcons _ _ _ hi
        | spread fid =>
          unfold calcFields
          simp only [H.q, H.cs, hrf]
          apply ORel.bind_same; intro fr
          apply ORel.bind (ihF pfx t rest); intro a b hab
          split
          · exact ORel.pure ⟨hab.1, hab.2⟩
          · apply ORel.bind_same; intro fl
            exact ORel.pure ⟨by rw [hab.1], hab.2⟩
        | inline t' sub =>
          unfold calcFields
          exact ihF pfx t rest
        | typename =>
          unfold calcFields
          exact ihF pfx t rest
end calcCongr

/-! ### the module level -/

theorem ORel.mapM {α β γ} (φ : β → γ) {g g' : α → Outcome β}
    (h : ∀ x, ORel (fun a b => φ a = φ b) (g x) (g' x)) :
    ∀ xs : List α, ORel (fun a b => a.map φ = b.map φ) (xs.mapM g) (xs.mapM g')
  | [] => by simp only [List.mapM_nil]; exact ORel.pure rfl
  | x :: xs => by
    simp only [List.mapM_cons]
    apply ORel.bind (h x); intro a b hab
    apply ORel.bind (ORel.mapM φ h xs); intro as bs habs
    exact ORel.pure (by simp only [List.map_cons, hab, habs])

/-- everything of the module except the built-in aliases and the custom-scalar aliases -/
def restItems (c : Ctx) (u : UsedTypes) (op : Nat) : Outcome (List Item) := do
  let enums ← enumItems c u
  let frags ← (sortNat u.fragments).mapM (fragmentItems c)
  let inputs ← inputItems c u
  let vars ← variablesItems c op
  let o ← c.q.getOperation op
  let resp ← responseItems c o
  pure (enums ++ inputs ++ vars ++ frags.flatten ++ resp)

theorem responseForQuery_split (c : Ctx) (op : Nat) :
    responseForQuery c op = (do
      let u ← allUsedTypes c.s c.q op
      let scalars ← scalarItems c u
      let rest ← restItems c u op
      pure (builtinAliases ++ scalars ++ rest)) := by
  unfold responseForQuery restItems
  simp only [bind_assoc, pure_bind, List.append_assoc]

/-- agreement, up to the view `f`, of the item builders other than `scalarItems` -/
structure ItemsAgree (f : Item → Item) (c c' : Ctx) : Prop extends CalcAgree f c c' where
  externEnums : c'.o.externEnums = c.o.externEnums
  enum : ∀ e, f (enumItem c e) = f (enumItem c' e)
  input : ∀ i, ORel (fun a b => f a = f b) (inputItem c i) (inputItem c' i)
  vars : ∀ op, ORel (RI f) (variablesItems c op) (variablesItems c' op)

theorem restItems_congr (f : Item → Item) {c c' : Ctx} (H : ItemsAgree f c c') (u : UsedTypes) (op : Nat) :
    ORel (RI f) (restItems c u op) (restItems c' u op) := by
  have hC := calc_congr f H.toCalcAgree
  unfold restItems
  have henum : ORel (RI f) (enumItems c u) (enumItems c' u) := by
    unfold enumItems
    simp only [H.s, H.externEnums]
    apply ORel.bind_same; intro es
    apply ORel.pure
    simp only [RI, List.map_map]
    apply List.map_congr_left
    intro e _
    exact H.enum e
  have hfrag : ∀ fid, ORel (fun a b : List Item => a.map f = b.map f) (fragmentItems c fid) (fragmentItems c' fid) := by
    intro fid
    unfold fragmentItems
    simp only [H.s, H.q, H.cs]
    apply ORel.bind_same; intro fr
    exact (hC _).1 _ _ _ _
  have hinput : ORel (RI f) (inputItems c u) (inputItems c' u) := by
    unfold inputItems
    simp only [H.s]
    exact ORel.mapM f (fun (x : StoredInput × Nat) => H.input x.1) _
  have hresp : ∀ o, ORel (RI f) (responseItems c o) (responseItems c' o) := by
    intro o
    unfold responseItems
    simp only [H.s, H.q, H.cs]
    exact (hC _).1 _ _ _ _
  apply ORel.bind henum; intro en en' hen
  apply ORel.bind (ORel.mapM (List.map f) hfrag _); intro fr fr' hfr
  apply ORel.bind hinput; intro inp inp' hinp
  apply ORel.bind (H.vars op); intro vs vs' hvs
  simp only [H.q]
  apply ORel.bind_same; intro o
  apply ORel.bind (hresp o); intro r r' hr
  apply ORel.pure
  simp only [RI, List.map_append, List.map_flatten, hen, hfr, hinp, hvs, hr]

/-! ### the neutral options -/

/-- `c` and `c'` have the same schema, query and case functions and agree on **every option except**
    `responseDerives`, `variablesDerives`, `serdePath`, `visibility`, `queryFile`, `mode`,
    `operationName`, `structIdent` -/
structure NeutralAgree (c c' : Ctx) : Prop where
  s : c'.s = c.s
  q : c'.q = c.q
  cs : c'.cs = c.cs
  normalization : c'.o.normalization = c.o.normalization
  deprecation : c'.o.deprecation = c.o.deprecation
  otherVariant : c'.o.otherVariant = c.o.otherVariant
  skipNone : c'.o.skipNone = c.o.skipNone
  scalarsModule : c'.o.scalarsModule = c.o.scalarsModule
  externEnums : c'.o.externEnums = c.o.externEnums

theorem NeutralAgree.symm {c c' : Ctx} (H : NeutralAgree c c') : NeutralAgree c' c :=
  ⟨H.s.symm, H.q.symm, H.cs.symm, H.normalization.symm, H.deprecation.symm, H.otherVariant.symm,
   H.skipNone.symm, H.scalarsModule.symm, H.externEnums.symm⟩

/-- the hypotheses are satisfiable with *every* one of the eight free options changed -/
example (c : Ctx) (rd vd : Option String) (sp vis : String) (qf : Option String) (m : Mode) (on si : Option String) :
    NeutralAgree c { c with o := { c.o with responseDerives := rd, variablesDerives := vd, serdePath := sp,
                                            visibility := vis, queryFile := qf, mode := m, operationName := on,
                                            structIdent := si } } :=
  ⟨rfl, rfl, rfl, rfl, rfl, rfl, rfl, rfl, rfl⟩

theorem renderType_strip (c c' : Ctx) (n : String) (fs : List RField) (vs : List RVariant) :
    (renderType c n fs vs).map stripItem = (renderType c' n fs vs).map stripItem := by
  unfold renderType
  split
  · rfl
  · split <;> rfl

theorem inputFieldType_congr {c c' : Ctx} (hs : c'.s = c.s) (hcs : c'.cs = c.cs)
    (hn : c'.o.normalization = c.o.normalization) : inputFieldType c' = inputFieldType c := by
  funext ty quals
  unfold inputFieldType
  rw [hs, hcs, hn]

theorem variableType_congr {c c' : Ctx} (hs : c'.s = c.s) (hcs : c'.cs = c.cs)
    (hn : c'.o.normalization = c.o.normalization) : variableType c' = variableType c := by
  funext v
  unfold variableType
  rw [hs, hcs, hn]

theorem scalarItems_congr {c c' : Ctx} (hs : c'.s = c.s) (hcs : c'.cs = c.cs)
    (hn : c'.o.normalization = c.o.normalization) (hm : c'.o.scalarsModule = c.o.scalarsModule) :
    scalarItems c' = scalarItems c := by
  funext u
  unfold scalarItems
  rw [hs, hcs, hn, hm]

theorem NeutralAgree.itemsAgree {c c' : Ctx} (H : NeutralAgree c c') : ItemsAgree stripItem c c' where
  s := H.s
  q := H.q
  cs := H.cs
  otherVariant := H.otherVariant
  skipNone := H.skipNone
  deprecation := H.deprecation
  normalization := H.normalization
  render := renderType_strip c c'
  externEnums := H.externEnums
  enum := by
    intro e
    unfold enumItem
    simp only [H.cs, H.normalization, stripItem]
  input := by
    intro i
    unfold inputItem
    simp only [H.cs, H.normalization, H.skipNone, inputFieldType_congr H.s H.cs H.normalization]
    split
    · apply ORel.bind_same; intro vs; exact ORel.pure rfl
    · apply ORel.bind_same; intro fs; exact ORel.pure rfl
  vars := by
    intro op
    unfold variablesItems
    simp only [H.s, H.q, H.cs, H.skipNone, variableType_congr H.s H.cs H.normalization]
    split
    · exact ORel.pure rfl
    · apply ORel.bind_same; intro fs
      apply ORel.bind_same; intro dfl
      exact ORel.pure rfl

/-- **2.** the neutral options change nothing but derives, serde path and alias visibility of the items -/
theorem codegen_neutral_options {c c' : Ctx} (H : NeutralAgree c c') (op : Nat) :
    (responseForQuery c op).map (List.map stripItem) = (responseForQuery c' op).map (List.map stripItem) := by
  rw [← ORel.map_iff, responseForQuery_split, responseForQuery_split]
  simp only [H.s, H.q, scalarItems_congr H.s H.cs H.normalization H.scalarsModule]
  apply ORel.bind_same; intro u
  apply ORel.bind_same; intro sc
  apply ORel.bind (restItems_congr stripItem H.itemsAgree u op); intro r r' hr
  apply ORel.pure
  simp only [List.map_append, hr]

/-- … and generation fails under `c` exactly when it fails under `c'`, with the same error -/
theorem codegen_neutral_same_error {c c' : Ctx} (H : NeutralAgree c c') (op : Nat) (err : Err) :
    responseForQuery c op = .error err ↔ responseForQuery c' op = .error err := by
  have h := codegen_neutral_options H op
  cases h1 : responseForQuery c op <;> cases h2 : responseForQuery c' op <;>
    simp [h1, h2, Except.map] at h ⊢
  exact h ▸ Iff.rfl

/-- the same at the level of the emitted module: only `vis`, `structDecl`, `queryInclude`, `useSerde`
    (and the derives / serde path / alias visibility inside the items) can differ -/
theorem generatedModule_neutral {c c' : Ctx} (H : NeutralAgree c c') (query operation : String) :
    ORel (fun m m' => m.modName = m'.modName ∧ m.operationName = m'.operationName ∧ m.query = m'.query ∧
            m.implFor = m'.implFor ∧ m.items.map stripItem = m'.items.map stripItem)
      (generatedModule c query operation) (generatedModule c' query operation) := by
  unfold generatedModule selectOperation
  simp only [H.q, H.cs, H.normalization]
  split
  · simp only [pure_bind]
    apply ORel.bind ((ORel.map_iff _ _ _).mpr (codegen_neutral_options H _)); intro a b hab
    exact ORel.pure ⟨rfl, rfl, rfl, rfl, hab⟩
  · exact rfl

/-! ## 3. hence the wire behaviour is the same -/

/-- reading and writing agree on two environments: for every named type / type expression, fuel,
    JSON value and Rust value -/
structure WireSame (e e' : Env) : Prop where
  dePath : ∀ b fuel p j, Serde.dePath e b fuel p j = Serde.dePath e' b fuel p j
  deFlat : ∀ fuel t buf, Serde.deFlat e fuel t buf = Serde.deFlat e' fuel t buf
  serPath : ∀ fuel p v, Serde.serPath e fuel p v = Serde.serPath e' fuel p v
  de : ∀ t j, Serde.de e t j = Serde.de e' t j
  ser : ∀ t v, Serde.ser e t v = Serde.ser e' t v
  roundtrip : ∀ t j, Serde.roundtrip e t j = Serde.roundtrip e' t j

theorem wireSame_of_strip_eq (e e' : Env) (hi : e.items.map stripItem = e'.items.map stripItem)
    (hx : e.externs = e'.externs) : WireSame e e' :=
  let h := serde_eq_of_strip_eq e e' hi hx
  ⟨h.1, h.2.1, h.2.2.1, h.2.2.2.1, h.2.2.2.2.1, h.2.2.2.2.2⟩

/-- **3.** under the hypotheses of 2: the modules generated under `c` and `c'` (completed by the same
    consumer-supplied `externs`) read and write identically; and one is generated iff the other is -/
theorem wire_invariant_derives_serde_visibility {c c' : Ctx} (H : NeutralAgree c c') (op : Nat) :
    ORel (fun items items' => ∀ externs : List (String × RTy),
            WireSame { items := items, externs := externs } { items := items', externs := externs })
      (responseForQuery c op) (responseForQuery c' op) :=
  ORel.mono (R := fun a b => List.map stripItem a = List.map stripItem b)
    (fun items items' hab externs =>
      wireSame_of_strip_eq { items := items, externs := externs } { items := items', externs := externs } hab rfl)
    ((ORel.map_iff _ _ _).mpr (codegen_neutral_options H op))

/-- the same, spelled out for a successful generation -/
theorem wire_invariant_derives_serde_visibility' {c c' : Ctx} (H : NeutralAgree c c') (op : Nat)
    (items : List Item) (hi : responseForQuery c op = .ok items) :
    ∃ items', responseForQuery c' op = .ok items' ∧
      ∀ (externs : List (String × RTy)) (b : Bool) (fuel : Nat) (p : String) (t : RTy) (j : Json) (v : Val),
        let e : Env := { items := items, externs := externs }
        let e' : Env := { items := items', externs := externs }
        Serde.dePath e b fuel p j = Serde.dePath e' b fuel p j ∧
        Serde.serPath e fuel p v = Serde.serPath e' fuel p v ∧
        Serde.de e t j = Serde.de e' t j ∧ Serde.ser e t v = Serde.ser e' t v ∧
        Serde.roundtrip e t j = Serde.roundtrip e' t j := by
  have h := wire_invariant_derives_serde_visibility H op
  rw [hi] at h
  cases h' : responseForQuery c' op with
  | error err => rw [h'] at h; exact h.elim
  | ok items' =>
    rw [h'] at h
    refine ⟨items', rfl, fun externs b fuel p t j v => ?_⟩
    have w := h externs
    exact ⟨w.dePath b fuel p j, w.serPath fuel p v, w.de t j, w.ser t v, w.roundtrip t j⟩

/-! ## 4. `custom_scalars_module` only moves the target of the custom-scalar aliases -/

/-- the same context with another `custom_scalars_module` (every `c'` that differs from `c` only in
    this option is of this form) -/
def withScalarsModule (c : Ctx) (m : Option String) : Ctx := { c with o := { c.o with scalarsModule := m } }

/-- the alias emitted for the custom scalar with Rust identifier `ident` -/
def scalarAlias (m : Option String) (ident : String) : Item :=
  .alias ident false (.path (m.getD "super" ++ "::" ++ ident))

/-- the identifiers of the custom scalars that are used (does not read `scalarsModule`) -/
def scalarIdents (c : Ctx) (u : UsedTypes) : Outcome (List String) := do
  let ids := sortNat (u.types.filterMap TypeId.asScalar?)
  let names ← ids.mapM c.s.getScalar
  pure ((names.filter (fun n => !Schema.defaultScalars.contains n)).map (c.o.normalization.scalarName c.cs))

theorem scalarItems_eq (c : Ctx) (u : UsedTypes) :
    scalarItems c u = (scalarIdents c u).map (List.map (scalarAlias c.o.scalarsModule)) := by
  unfold scalarItems scalarIdents
  simp only []
  generalize (sortNat (u.types.filterMap TypeId.asScalar?)).mapM c.s.getScalar = r
  cases r with
  | error e => rfl
  | ok names =>
    simp only [bind, Except.bind, pure, Except.pure, Except.map, List.map_map]
    rfl

theorem withScalarsModule_itemsAgree (c : Ctx) (m : Option String) : ItemsAgree id c (withScalarsModule c m) where
  s := rfl
  q := rfl
  cs := rfl
  otherVariant := rfl
  skipNone := rfl
  deprecation := rfl
  normalization := rfl
  render := fun _ _ _ => rfl
  externEnums := rfl
  enum := fun _ => rfl
  input := fun i => ORel.refl (fun _ => rfl) (inputItem c i)
  vars := fun op => ORel.refl (R := RI id) (fun _ => rfl) (variablesItems c op)

theorem restItems_withScalarsModule (c : Ctx) (m : Option String) (u : UsedTypes) (op : Nat) :
    restItems (withScalarsModule c m) u op = restItems c u op := by
  have h := restItems_congr id (withScalarsModule_itemsAgree c m) u op
  have h' : ORel Eq (restItems c u op) (restItems (withScalarsModule c m) u op) :=
    ORel.mono (fun a b hab => by simpa only [RI, List.map_id] using hab) h
  exact ((ORel.eq_iff _ _).mp h').symm

/-- **4.** (IR statement) changing `custom_scalars_module` from its value in `c` to `m`: generation fails
    with the same error, or both modules are `builtinAliases ++ (aliases of the custom scalars) ++ rest`
    with the *same* `rest`, the same alias names, and the alias of `ident` pointing to
    `<module>::ident` — nothing else differs -/
theorem scalars_module_only_changes_alias_target (c : Ctx) (m : Option String) (op : Nat) :
    (∃ err, responseForQuery c op = .error err ∧ responseForQuery (withScalarsModule c m) op = .error err) ∨
    (∃ (idents : List String) (rest : List Item),
      responseForQuery c op = .ok (builtinAliases ++ idents.map (scalarAlias c.o.scalarsModule) ++ rest) ∧
      responseForQuery (withScalarsModule c m) op = .ok (builtinAliases ++ idents.map (scalarAlias m) ++ rest)) := by
  rw [responseForQuery_split, responseForQuery_split]
  have hs : (withScalarsModule c m).s = c.s := rfl
  have hq : (withScalarsModule c m).q = c.q := rfl
  have hm : (withScalarsModule c m).o.scalarsModule = m := rfl
  have hid : ∀ u, scalarIdents (withScalarsModule c m) u = scalarIdents c u := fun _ => rfl
  simp only [hs, hq, hm, hid, restItems_withScalarsModule, scalarItems_eq]
  generalize allUsedTypes c.s c.q op = U
  cases U with
  | error err => exact Or.inl ⟨err, rfl, rfl⟩
  | ok u =>
    show (∃ err, (Except.map _ (scalarIdents c u) >>= _) = _ ∧ (Except.map _ (scalarIdents c u) >>= _) = _) ∨
      ∃ (idents : List String) (rest : List Item),
        (Except.map _ (scalarIdents c u) >>= _) = _ ∧ (Except.map _ (scalarIdents c u) >>= _) = _
    generalize scalarIdents c u = I
    cases I with
    | error err => exact Or.inl ⟨err, rfl, rfl⟩
    | ok idents =>
      show (∃ err, (restItems c u op >>= _) = _ ∧ (restItems c u op >>= _) = _) ∨
        ∃ (idents : List String) (rest : List Item), (restItems c u op >>= _) = _ ∧ (restItems c u op >>= _) = _
      generalize restItems c u op = R
      cases R with
      | error err => exact Or.inl ⟨err, rfl, rfl⟩
      | ok rest => exact Or.inr ⟨idents, rest, rfl, rfl⟩

/-! ## 5. normalization changes Rust names, never wire strings -/

/-- the strings an item puts on / expects from the wire: field keys, variant tags, enum strings -/
def itemWires : Item → List String
  | .struct _ _ _ fs => fs.map RField.wire
  | .oneOf _ _ _ vs => vs.map RVariant.wire
  | .tagged _ _ _ _ vs => vs.map RVariant.wire
  | .gqlEnum _ _ _ _ ser _ => ser.map (·.2)
  | _ => []

/-- the strings the `Deserialize` impl of a hand-written enum recognises -/
def enumDeKeys : Item → List String
  | .gqlEnum _ _ _ _ _ de => de.map (·.1)
  | _ => []

/-- for **every** context (normalization, case functions, …): the `Serialize` table writes exactly the
    GraphQL variant names, the `Deserialize` table recognises exactly them, in schema order, and the two
    tables are inverse to each other -/
theorem enumItem_wire (c : Ctx) (e : StoredEnum) :
    itemWires (enumItem c e) = e.variants ∧ enumDeKeys (enumItem c e) = e.variants ∧
    ∃ n d sp ids ser de, enumItem c e = .gqlEnum n d sp ids ser de ∧ ser = de.map Prod.swap ∧ ids = de.map (·.2) := by
  refine ⟨?_, ?_, ?_⟩
  · simp [enumItem, itemWires, List.map_map, Function.comp_def]
  · simp [enumItem, enumDeKeys, List.map_map, Function.comp_def]
  · exact ⟨_, _, _, _, _, _, rfl, by simp [List.map_map, Function.comp_def], by simp [List.map_map, Function.comp_def]⟩

/-- **5a.** enum wire strings are the same under any two contexts (in particular both normalizations) -/
theorem enum_wire_strings_invariant (c c' : Ctx) (e : StoredEnum) :
    itemWires (enumItem c e) = itemWires (enumItem c' e) ∧ enumDeKeys (enumItem c e) = enumDeKeys (enumItem c' e) :=
  ⟨(enumItem_wire c e).1.trans (enumItem_wire c' e).1.symm, (enumItem_wire c e).2.1.trans (enumItem_wire c' e).2.1.symm⟩

/-- **5b.** response fields: whatever the contexts, Rust identifiers and (normalized) type names, two
    renderings of the field with GraphQL name / alias `g` have the same wire name, namely `g` -/
theorem renderField_wire_invariant (c c' : Ctx) (g r r' ft ft' : String) (quals quals' : List Qual)
    (fl fl' bx bx' : Bool) (dep dep' : Option (Option String)) (f f' : RField)
    (h : renderField c (some g) r ft quals fl bx dep = .ok (some f))
    (h' : renderField c' (some g) r' ft' quals' fl' bx' dep' = .ok (some f')) : f.wire = f'.wire :=
  (C11.wire_is_graphql_name c g r ft quals fl bx dep f h).trans
    (C11.wire_is_graphql_name c' g r' ft' quals' fl' bx' dep' f' h').symm

/-- flattened fragment members carry no rename: their (unused) wire name is the Rust identifier, which
    does not depend on the normalization -/
theorem renderField_flatten_wire (c : Ctx) (r ft : String) (quals : List Qual) (fl bx : Bool)
    (dep : Option (Option String)) (f : RField)
    (h : renderField c none r ft quals fl bx dep = .ok (some f)) : f.wire = r ∧ f.rust = r := by
  unfold renderField at h
  cases hd : decorateType (.path ft) quals with
  | error e => simp [hd, bind, Except.bind] at h
  | ok ty =>
    simp only [hd, bind, Except.bind] at h
    split at h
    · simp [pure, Except.pure] at h
    · simp only [pure, Except.pure, Except.ok.injEq, Option.some.injEq] at h
      subst h
      exact ⟨rfl, rfl⟩

theorem mapM_ok_map {α β γ} {g : α → Outcome β} (φ : β → γ) (ψ : α → γ) (h : ∀ x y, g x = .ok y → φ y = ψ x) :
    ∀ (xs : List α) (ys : List β), xs.mapM g = .ok ys → ys.map φ = xs.map ψ
  | [], ys, hm => by
    simp only [List.mapM_nil, pure, Except.pure, Except.ok.injEq] at hm
    subst hm; rfl
  | x :: xs, ys, hm => by
    rw [List.mapM_cons] at hm
    cases hx : g x with
    | error e => simp [hx, bind, Except.bind] at hm
    | ok y =>
      cases hxs : xs.mapM g with
      | error e => simp [hx, hxs, bind, Except.bind] at hm
      | ok ys' =>
        simp only [hx, hxs, bind, Except.bind, pure, Except.pure, Except.ok.injEq] at hm
        subst hm
        simp only [List.map_cons, h x y hx, mapM_ok_map φ ψ h xs ys' hxs]

theorem bind_ok {α β} {x : Outcome α} {f : α → Outcome β} {b : β} (h : x >>= f = .ok b) :
    ∃ a, x = .ok a ∧ f a = .ok b := by
  cases x with
  | error e => cases h
  | ok a => exact ⟨a, rfl, h⟩

/-- input objects (plain and `@oneOf`): the wire names are the GraphQL field names, for every context -/
theorem inputItem_wire (c : Ctx) (i : StoredInput) (it : Item) (h : inputItem c i = .ok it) :
    itemWires it = i.fields.map (·.1) := by
  unfold inputItem at h
  split at h
  · obtain ⟨vs, hm, hp⟩ := bind_ok h
    cases hp
    refine mapM_ok_map RVariant.wire (·.1) ?_ _ _ hm
    intro ⟨fname, ty⟩ y hxy
    obtain ⟨t, _, hp⟩ := bind_ok hxy
    cases hp
    exact C11.oneof_wire_is_graphql_name _ _ _
  · obtain ⟨fs, hm, hp⟩ := bind_ok h
    cases hp
    refine mapM_ok_map RField.wire (·.1) ?_ _ _ hm
    intro ⟨fname, ty⟩ y hxy
    obtain ⟨t, _, hp⟩ := bind_ok hxy
    cases hp
    exact C11.input_wire_is_graphql_name _ _ _ _

/-- **5c.** input-object wire names are the same under any two contexts (in particular both normalizations) -/
theorem input_wire_strings_invariant (c c' : Ctx) (i : StoredInput) (it it' : Item)
    (h : inputItem c i = .ok it) (h' : inputItem c' i = .ok it') : itemWires it = itemWires it' :=
  (inputItem_wire c i it h).trans (inputItem_wire c' i it' h').symm

/-- variables: the keys of the `Variables` struct are the GraphQL variable names, for every context -/
theorem variablesItems_wire (c : Ctx) (op : Nat) (items : List Item) (h : variablesItems c op = .ok items) :
    items.flatMap itemWires = (c.q.opVariables op).map (·.name) := by
  unfold variablesItems at h
  simp only at h
  split at h
  · rename_i he
    cases h
    simp only [List.isEmpty_iff] at he
    simp [he, itemWires]
  · obtain ⟨fs, hm, h⟩ := bind_ok h
    obtain ⟨dfl, _, hp⟩ := bind_ok h
    cases hp
    have : fs.map RField.wire = (c.q.opVariables op).map (·.name) := by
      refine mapM_ok_map RField.wire (·.name) ?_ _ _ hm
      intro v y hxy
      obtain ⟨t, _, hp⟩ := bind_ok hxy
      cases hp
      exact C11.input_wire_is_graphql_name _ _ _ _
    simp [itemWires, this]

/-- **5d.** variable wire names are the same under any two contexts with the same query -/
theorem variables_wire_strings_invariant (c c' : Ctx) (hq : c'.q = c.q) (op : Nat) (items items' : List Item)
    (h : variablesItems c op = .ok items) (h' : variablesItems c' op = .ok items') :
    items.flatMap itemWires = items'.flatMap itemWires := by
  rw [variablesItems_wire c op items h, variablesItems_wire c' op items' h', hq]

/-- the variants of the internally tagged enums carry the GraphQL type name unrenamed; `calcVariants`
    does not read the normalization at all: `renderType` with the same fields / variants has the same
    wire strings whatever the context -/
theorem renderType_wire (c c' : Ctx) (n : String) (fs : List RField) (vs : List RVariant) :
    (renderType c n fs vs).map itemWires = (renderType c' n fs vs).map itemWires := by
  unfold renderType
  split
  · rfl
  · split <;> rfl

end C09
end GqlVerif
