import GqlVerif.Model.Codegen
import GqlVerif.Model.Serde
import GqlVerif.Props.C11
/-!
# C09 — options that only affect Rust naming, traits or placement never change the wire

All theorems are about the model's own functions (`Serde.dePath / deFlat / serPath / de / ser / roundtrip`,
`Codegen.responseForQuery / generatedModule / calc* / enumItem / inputItem / variablesItems / scalarItems /
renderField / renderType`), for all inputs.

1. `serde_ignores_derives` (+ `de_stripEnv`, `ser_stripEnv`, `roundtrip_stripEnv`, `serde_eq_of_strip_eq`):
   `stripItem` erases `derives`, `serdeCrate` / `serdePath` and the `pub` flag of aliases; reading and
   writing with the stripped environment is the same function.
2. `codegen_neutral_options` (+ `codegen_neutral_same_error`, `generatedModule_neutral`): contexts that agree
   on schema, query, case functions and on every option except `responseDerives`, `variablesDerives`,
   `serdePath`, `visibility`, `queryFile`, `mode`, `operationName`, `structIdent` (`NeutralAgree`) generate
   the same items up to `stripItem`.  Core: `calc_congr`, a congruence of the four mutual `calc*` functions,
   parametric in a view `f` of the items (used with `stripItem` here and with `id` in 4).
3. `wire_invariant_derives_serde_visibility` (+ the spelled-out `…'`): hence both modules read and write
   identically (`WireSame`), with any consumer-supplied `externs`; one is generated iff the other is.
4. `scalars_module_only_changes_alias_target`, `responseForQuery_withScalarsModule` (IR statement): with
   `custom_scalars_module` changed the module is assembled from the same parts; only the target path of the
   custom-scalar aliases moves.  `scalars_module_wire_invariant` (wire statement, from `retarget_wire`): if the
   consumer supplies the same type at both paths and no flattened member leads to a custom-scalar alias, the
   two modules read and write identically.  The side conditions are shown satisfiable on a concrete module,
   and the statement without the flatten side condition is refuted on the same module (the *text* of an
   `unmodelled` error differs).
4′. `extern_enums_only_drops_enum_items`: changing `extern_enums` only changes which used enums get a
   definition; everything else is identical.
5. wire strings do not depend on the context at all, hence not on the normalization:
   `enumItem_wire` / `enum_wire_strings_invariant`, `renderField_wire_invariant`, `renderField_flatten_wire`,
   `inputItem_wire` / `input_wire_strings_invariant`, `variablesItems_wire` /
   `variables_wire_strings_invariant`, `renderType_wire`.

(Like the other `Props` / `Proofs` files that unfold `dePath`, this module realises `dePath.eq_def` etc.;
it imports only `Model.*` and `Props.C11`.)
-/
namespace GqlVerif
namespace C09
open Serde Codegen

/-! ## 1. serde's behaviour does not depend on derives, serde path, alias visibility -/

/-- erase everything the wire behaviour must not depend on: `derives`, `serdeCrate` / `serdePath`, the
    `pub` flag of aliases.  Names, fields, variants, tags and match tables are kept. -/
def stripItem : Item → Item
  | .struct n _ _ fs => .struct n [] none fs
  | .unitStruct n _ _ => .unitStruct n [] none
  | .tagged n _ _ tag vs => .tagged n [] none tag vs
  | .alias n _ t => .alias n false t
  | .gqlEnum n _ _ vs ser de => .gqlEnum n [] "" vs ser de
  | .oneOf n _ _ vs => .oneOf n [] none vs
  | .defaults fns => .defaults fns

def stripEnv (e : Env) : Env := { e with items := e.items.map stripItem }

theorem stripItem_name (i : Item) : (stripItem i).name = i.name := by cases i <;> rfl

theorem stripItem_idem (i : Item) : stripItem (stripItem i) = stripItem i := by cases i <;> rfl

@[simp] theorem stripEnv_externs (e : Env) : (stripEnv e).externs = e.externs := rfl

/-- `Env.find` commutes with stripping (because `Item.name` is preserved) -/
theorem find_strip (e : Env) (p : String) : (stripEnv e).find p = (e.find p).map stripItem := by
  unfold Env.find stripEnv
  simp only [List.find?_map]
  have : ((fun x : Item => x.name == p) ∘ stripItem) = (fun x : Item => x.name == p) := by
    funext x; simp [Function.comp, stripItem_name]
  rw [this]

theorem de_strip (e : Env) : ∀ fuel,
    (∀ b p j, dePath (stripEnv e) b fuel p j = dePath e b fuel p j) ∧
    (∀ t buf, deFlat (stripEnv e) fuel t buf = deFlat e fuel t buf) := by
  intro fuel
  induction fuel with
  | zero =>
    constructor
    · intro b p j; unfold dePath; rfl
    · intro t buf; unfold deFlat; rfl
  | succ n ih =>
    obtain ⟨ihP, ihF⟩ := ih
    have hP : ∀ b, dePath (stripEnv e) b n = dePath e b n := fun b => funext fun p => funext fun j => ihP b p j
    have hF : deFlat (stripEnv e) n = deFlat e n := funext fun t => funext fun buf => ihF t buf
    constructor
    · intro b p j
      unfold dePath
      simp only [find_strip, hP, hF, stripEnv_externs]
      cases dePrim p j with
      | some r => rfl
      | none =>
        cases e.find p with
        | none => rfl
        | some it => cases it <;> rfl
    · intro t buf
      unfold deFlat
      cases t with
      | path p =>
        simp only [find_strip, hP, hF]
        cases e.find p with
        | none => rfl
        | some it => cases it <;> rfl
      | box t => simp only [hF]
      | opt t => rfl
      | vec t => rfl

theorem ser_strip (e : Env) : ∀ fuel p v, serPath (stripEnv e) fuel p v = serPath e fuel p v := by
  intro fuel
  induction fuel with
  | zero => intro p v; unfold serPath; rfl
  | succ n ih =>
    have hS : serPath (stripEnv e) n = serPath e n := funext fun p => funext fun v => ih p v
    intro p v
    unfold serPath
    simp only [find_strip, hS, stripEnv_externs]
    cases serPrim v with
    | some r => rfl
    | none =>
      cases e.find p with
      | none => rfl
      | some it => cases it <;> rfl

theorem stripEnv_length (e : Env) : (stripEnv e).items.length = e.items.length := by
  simp [stripEnv]

/-- **serde ignores derives, the serde path and alias visibility**: reading and writing with the
    stripped items is the same function, for every fuel, type name, JSON value / Rust value -/
theorem serde_ignores_derives (e : Env) :
    (∀ b fuel p j, dePath (stripEnv e) b fuel p j = dePath e b fuel p j) ∧
    (∀ fuel t buf, deFlat (stripEnv e) fuel t buf = deFlat e fuel t buf) ∧
    (∀ fuel p v, serPath (stripEnv e) fuel p v = serPath e fuel p v) :=
  ⟨fun b fuel p j => (de_strip e fuel).1 b p j, fun fuel t buf => (de_strip e fuel).2 t buf, ser_strip e⟩

theorem deTy_strip (e : Env) (b : Bool) (fuel : Nat) (t : RTy) (j : Json) :
    deTy (stripEnv e) b fuel t j = deTy e b fuel t j := by
  unfold deTy
  rw [show dePath (stripEnv e) b fuel = dePath e b fuel from
    funext fun p => funext fun j => (de_strip e fuel).1 b p j]

theorem serTy_strip (e : Env) (fuel : Nat) (t : RTy) (v : Val) :
    serTy (stripEnv e) fuel t v = serTy e fuel t v := by
  unfold serTy
  rw [show serPath (stripEnv e) fuel = serPath e fuel from funext fun p => funext fun v => ser_strip e fuel p v]

theorem de_stripEnv (e : Env) (t : RTy) (j : Json) : Serde.de (stripEnv e) t j = Serde.de e t j := by
  unfold Serde.de deFuel
  rw [deTy_strip, stripEnv_length, stripEnv_externs]

theorem ser_stripEnv (e : Env) (t : RTy) (v : Val) : Serde.ser (stripEnv e) t v = Serde.ser e t v := by
  unfold Serde.ser
  rw [serTy_strip, stripEnv_length, stripEnv_externs]

theorem roundtrip_stripEnv (e : Env) (t : RTy) (j : Json) :
    Serde.roundtrip (stripEnv e) t j = Serde.roundtrip e t j := by
  unfold Serde.roundtrip
  simp only [de_stripEnv, ser_stripEnv]

/-- two environments with the same stripped items and the same externs behave identically -/
theorem serde_eq_of_strip_eq (e e' : Env) (hi : e.items.map stripItem = e'.items.map stripItem)
    (hx : e.externs = e'.externs) :
    (∀ b fuel p j, dePath e b fuel p j = dePath e' b fuel p j) ∧
    (∀ fuel t buf, deFlat e fuel t buf = deFlat e' fuel t buf) ∧
    (∀ fuel p v, serPath e fuel p v = serPath e' fuel p v) ∧
    (∀ t j, Serde.de e t j = Serde.de e' t j) ∧
    (∀ t v, Serde.ser e t v = Serde.ser e' t v) ∧
    (∀ t j, Serde.roundtrip e t j = Serde.roundtrip e' t j) := by
  have he : stripEnv e = stripEnv e' := by
    cases e; cases e'; simp only [stripEnv] at *; simp [hi, hx]
  refine ⟨fun b fuel p j => ?_, fun fuel t buf => ?_, fun fuel p v => ?_, fun t j => ?_, fun t v => ?_, fun t j => ?_⟩
  · rw [← (de_strip e fuel).1, he, (de_strip e' fuel).1]
  · rw [← (de_strip e fuel).2, he, (de_strip e' fuel).2]
  · rw [← ser_strip e, he, ser_strip e']
  · rw [← de_stripEnv e, he, de_stripEnv e']
  · rw [← ser_stripEnv e, he, ser_stripEnv e']
  · rw [← roundtrip_stripEnv e, he, roundtrip_stripEnv e']

/-! ## 2. options that only feed derives / serde path / placement leave the stripped items unchanged -/

/-- both fail with the same error, or both succeed with related results -/
def ORel {α} (R : α → α → Prop) : Outcome α → Outcome α → Prop
  | .ok a, .ok b => R a b
  | .error e, .error e' => e = e'
  | _, _ => False

theorem ORel.pure {α} {R : α → α → Prop} {a b : α} (h : R a b) : ORel R (Pure.pure a) (Pure.pure b) := h

theorem ORel.bind {α β} {R : α → α → Prop} {S : β → β → Prop} {x y : Outcome α} {f g : α → Outcome β}
    (hxy : ORel R x y) (hfg : ∀ a b, R a b → ORel S (f a) (g b)) : ORel S (x >>= f) (y >>= g) := by
  cases x <;> cases y <;> simp only [ORel] at hxy
  · subst hxy; exact rfl
  · exact hfg _ _ hxy

theorem ORel.bind_same {α β} {S : β → β → Prop} {x : Outcome α} {f g : α → Outcome β}
    (hfg : ∀ a, ORel S (f a) (g a)) : ORel S (x >>= f) (x >>= g) := by
  cases x
  · exact rfl
  · exact hfg _

theorem ORel.refl {α} {R : α → α → Prop} (h : ∀ a, R a a) (x : Outcome α) : ORel R x x := by
  cases x
  · exact rfl
  · exact h _

theorem ORel.eq_iff {α} (x y : Outcome α) : ORel Eq x y ↔ x = y := by
  cases x <;> cases y <;> simp [ORel]

theorem ORel.map_iff {α β} (f : α → β) (x y : Outcome α) :
    ORel (fun a b => f a = f b) x y ↔ x.map f = y.map f := by
  cases x <;> cases y <;> simp [ORel, Except.map]

theorem ORel.mono {α} {R S : α → α → Prop} (h : ∀ a b, R a b → S a b) {x y : Outcome α} (hxy : ORel R x y) :
    ORel S x y := by
  cases x <;> cases y <;> simp only [ORel] at hxy ⊢
  · exact hxy
  · exact h _ _ hxy

/-- the two contexts agree on everything `calc*` reads, except what goes into `renderType`, whose
    results agree up to the view `f` -/
structure CalcAgree (f : Item → Item) (c c' : Ctx) : Prop where
  s : c'.s = c.s
  q : c'.q = c.q
  cs : c'.cs = c.cs
  otherVariant : c'.o.otherVariant = c.o.otherVariant
  skipNone : c'.o.skipNone = c.o.skipNone
  deprecation : c'.o.deprecation = c.o.deprecation
  normalization : c'.o.normalization = c.o.normalization
  render : ∀ n fs vs, (renderType c n fs vs).map f = (renderType c' n fs vs).map f

theorem renderField_congr {c c' : Ctx} (h1 : c'.o.skipNone = c.o.skipNone) (h2 : c'.o.deprecation = c.o.deprecation) :
    renderField c' = renderField c := by
  funext g r ft quals fl bx dep
  unfold renderField
  rw [h1, h2]

section calcCongr
variable (f : Item → Item)

abbrev RI (a b : List Item) : Prop := a.map f = b.map f
abbrev RP {α} (a b : α × List Item) : Prop := a.1 = b.1 ∧ a.2.map f = b.2.map f
abbrev RT {α} (a b : α × List Item × List Item) : Prop :=
  a.1 = b.1 ∧ a.2.1.map f = b.2.1.map f ∧ a.2.2.map f = b.2.2.map f
/-- as `RT`, with the aliased fragments (third component) equal: `aliasMember` reads them -/
abbrev RT' {α} (a b : α × List Item × List Item) : Prop :=
  a.1 = b.1 ∧ a.2.1.map f = b.2.1.map f ∧ a.2.2 = b.2.2

theorem aliasMember_congr {c c' : Ctx} (h : renderField c' = renderField c) (hcs : c'.cs = c.cs) :
    aliasMember c' = aliasMember c := by
  funext a
  unfold aliasMember
  rw [h, hcs]

theorem calc_congr_strong {c c' : Ctx} (H : CalcAgree f c c') : ∀ fuel,
    (∀ name pfx t sels, ORel (RI f) (calcSelection c fuel name pfx t sels) (calcSelection c' fuel name pfx t sels)) ∧
    (∀ name pfx vsels vts, ORel (RP f) (calcVariants c fuel name pfx vsels vts) (calcVariants c' fuel name pfx vsels vts)) ∧
    (∀ sname pfx vt vsels, ORel (RT' f) (calcVariantSels c fuel sname pfx vt vsels) (calcVariantSels c' fuel sname pfx vt vsels)) ∧
    (∀ pfx t sels, ORel (RP f) (calcFields c fuel pfx t sels) (calcFields c' fuel pfx t sels)) := by
  have hrf := renderField_congr H.skipNone H.deprecation
  have ham := aliasMember_congr hrf H.cs
  intro fuel
  induction fuel with
  | zero =>
    refine ⟨?_, ?_, ?_, ?_⟩
    · intros; unfold calcSelection; exact rfl
    · intros; unfold calcVariants; exact rfl
    · intros; unfold calcVariantSels; exact rfl
    · intros; unfold calcFields; exact rfl
  | succ n ih =>
    obtain ⟨ihS, ihV, ihVS, ihF⟩ := ih
    refine ⟨?_, ?_, ?_, ?_⟩
    · intro name pfx t sels
      unfold calcSelection
      simp only [H.s, H.q, H.otherVariant]
      split
      · exact ORel.refl (R := RI f) (fun _ => rfl) _
      · apply ORel.bind_same; intro variants
        cases variants with
        | none =>
          simp only [pure_bind]
          apply ORel.bind (ihF pfx t sels); intro a b hab
          apply ORel.pure
          simp only [RI, List.map_append, hab.1, hab.2, H.render]
        | some vts =>
          simp only [pure_bind]
          apply ORel.bind_same; intro vsels
          apply ORel.bind (ihV name pfx vsels vts); intro r r' hr
          apply ORel.bind (ihF pfx t sels); intro a b hab
          apply ORel.pure
          simp only [RI, List.map_append, hab.1, hab.2, hr.1, hr.2, H.render]
    · intro name pfx vsels vts
      cases vts with
      | nil => unfold calcVariants; exact ORel.pure ⟨rfl, rfl⟩
      | cons vt rest =>
        unfold calcVariants
        simp only [H.s, H.q, ham]
        apply ORel.bind_same; intro vname
        have hrest : ∀ (v : RVariant) (i i' : List Item), i.map f = i'.map f →
            ORel (RP f)
              (do let __x ← (Pure.pure (v, i) : Outcome _)
                  let __x_1 ← calcVariants c n name pfx vsels rest
                  Pure.pure (__x.fst :: __x_1.fst, __x.snd ++ __x_1.snd))
              (do let __x ← (Pure.pure (v, i') : Outcome _)
                  let __x_1 ← calcVariants c' n name pfx vsels rest
                  Pure.pure (__x.fst :: __x_1.fst, __x.snd ++ __x_1.snd)) := by
          intro v i i' hi
          simp only [pure_bind]
          apply ORel.bind (ihV name pfx vsels rest); intro a b hab
          exact ORel.pure ⟨by rw [hab.1], by simp only [List.map_append, hab.2, hi]⟩
        generalize List.filter (fun v => v.typeId == vt) vsels = mine
        split
        · exact hrest _ _ _ rfl
        · split
          · exact hrest _ _ _ rfl
          · apply ORel.bind (ihVS _ pfx vt _); intro r r' hr
            obtain ⟨r1, r2, r3⟩ := r
            obtain ⟨r1', r2', r3'⟩ := r'
            obtain ⟨h1, h2, h3⟩ := hr
            simp only at h1 h2 h3
            subst h1
            subst h3
            simp only []
            split
            · exact hrest _ _ _ (by simp only [List.map_cons, h2])
            · apply ORel.bind_same; intro extra
              exact hrest _ _ _ (by simp only [List.map_append, H.render, h2])
    · intro sname pfx vt vsels
      cases vsels with
      | nil => unfold calcVariantSels; exact ORel.pure ⟨rfl, rfl, rfl⟩
      | cons v rest =>
        cases v with
        | inline t sub =>
          unfold calcVariantSels
          simp only [H.s, H.q, H.cs]
          apply ORel.bind_same; intro tn
          split
          · apply ORel.bind_same; intro fr
            simp only [pure_bind]
            apply ORel.bind (ihVS sname pfx vt rest); intro a b hab
            exact ORel.pure ⟨by rw [hab.1], by simp only [List.map_append, hab.2.1], by rw [hab.2.2]⟩
          · apply ORel.bind (ihF _ vt sub); intro x y hxy
            simp only [pure_bind]
            apply ORel.bind (ihVS sname pfx vt rest); intro a b hab
            exact ORel.pure ⟨by rw [hab.1, hxy.1], by simp only [List.map_append, hab.2.1, hxy.2],
              by rw [hab.2.2]⟩
        | spread fid fr =>
          unfold calcVariantSels
          simp only [H.q, H.cs, hrf]
          apply ORel.bind_same; intro fld
          apply ORel.bind (ihVS sname pfx vt rest); intro a b hab
          exact ORel.pure ⟨by rw [hab.1], hab.2.1, hab.2.2⟩
    · intro pfx t sels
      cases sels with
      | nil => unfold calcFields; exact ORel.pure ⟨rfl, rfl⟩
      | cons sel rest =>
        have hcons : ∀ (fl : Option RField) (i i' : List Item), i.map f = i'.map f →
            ORel (RP f)
              (do let __x ← (Pure.pure (fl, i) : Outcome _)
                  let __x_1 ← calcFields c n pfx t rest
                  Pure.pure (__x.fst.toList ++ __x_1.fst, __x.snd ++ __x_1.snd))
              (do let __x ← (Pure.pure (fl, i') : Outcome _)
                  let __x_1 ← calcFields c' n pfx t rest
                  Pure.pure (__x.fst.toList ++ __x_1.fst, __x.snd ++ __x_1.snd)) := by
          intro fl i i' hi
          simp only [pure_bind]
          apply ORel.bind (ihF pfx t rest); intro a b hab
          exact ORel.pure ⟨by rw [hab.1], by simp only [List.map_append, hab.2, hi]⟩
        cases sel with
        | field al fid sub =>
          unfold calcFields
          simp only [H.s, H.cs, H.normalization, hrf]
          apply ORel.bind_same; intro sf
          split
          · apply ORel.bind_same; intro en
            apply ORel.bind_same; intro fl
            exact hcons _ _ _ rfl
          · apply ORel.bind_same; intro sn
            apply ORel.bind_same; intro fl
            exact hcons _ _ _ rfl
          · exact ORel.refl (R := RP f) (fun _ => ⟨rfl, rfl⟩) _
          · apply ORel.bind_same; intro fl
            apply ORel.bind (ihS _ _ _ sub); intro i i' hi
            exact hcons _ _ _ hi
        | spread fid =>
          unfold calcFields
          simp only [H.q, H.cs, hrf]
          apply ORel.bind_same; intro fr
          apply ORel.bind (ihF pfx t rest); intro a b hab
          split
          · exact ORel.pure ⟨hab.1, hab.2⟩
          · apply ORel.bind_same; intro fl
            exact ORel.pure ⟨by rw [hab.1], hab.2⟩
        | inline t' sub =>
          unfold calcFields
          exact ihF pfx t rest
        | typename =>
          unfold calcFields
          exact ihF pfx t rest

theorem calc_congr {c c' : Ctx} (H : CalcAgree f c c') : ∀ fuel,
    (∀ name pfx t sels, ORel (RI f) (calcSelection c fuel name pfx t sels) (calcSelection c' fuel name pfx t sels)) ∧
    (∀ name pfx vsels vts, ORel (RP f) (calcVariants c fuel name pfx vsels vts) (calcVariants c' fuel name pfx vsels vts)) ∧
    (∀ sname pfx vt vsels, ORel (RT f) (calcVariantSels c fuel sname pfx vt vsels) (calcVariantSels c' fuel sname pfx vt vsels)) ∧
    (∀ pfx t sels, ORel (RP f) (calcFields c fuel pfx t sels) (calcFields c' fuel pfx t sels)) := by
  intro fuel
  obtain ⟨h1, h2, h3, h4⟩ := calc_congr_strong f H fuel
  exact ⟨h1, h2, fun sname pfx vt vsels =>
    (h3 sname pfx vt vsels).mono (fun a b hab => ⟨hab.1, hab.2.1, by rw [hab.2.2]⟩), h4⟩
end calcCongr

/-! ### the module level -/

theorem ORel.mapM {α β γ} (φ : β → γ) {g g' : α → Outcome β}
    (h : ∀ x, ORel (fun a b => φ a = φ b) (g x) (g' x)) :
    ∀ xs : List α, ORel (fun a b => a.map φ = b.map φ) (xs.mapM g) (xs.mapM g')
  | [] => by simp only [List.mapM_nil]; exact ORel.pure rfl
  | x :: xs => by
    simp only [List.mapM_cons]
    apply ORel.bind (h x); intro a b hab
    apply ORel.bind (ORel.mapM φ h xs); intro as bs habs
    exact ORel.pure (by simp only [List.map_cons, hab, habs])

/-- the items of fragments, input objects, variables and the response -/
def otherItems (c : Ctx) (u : UsedTypes) (op : Nat) : Outcome (List Item) := do
  let frags ← (sortNat u.fragments).mapM (fragmentItems c)
  let inputs ← inputItems c u
  let vars ← variablesItems c op
  let o ← c.q.getOperation op
  let resp ← responseItems c o
  pure (inputs ++ vars ++ frags.flatten ++ resp)

/-- everything of the module except the built-in aliases and the custom-scalar aliases -/
def restItems (c : Ctx) (u : UsedTypes) (op : Nat) : Outcome (List Item) := do
  let enums ← enumItems c u
  let others ← otherItems c u op
  pure (enums ++ others)

theorem responseForQuery_split (c : Ctx) (op : Nat) :
    responseForQuery c op = (do
      let u ← allUsedTypes c.s c.q op
      let scalars ← scalarItems c u
      let rest ← restItems c u op
      pure (builtinAliases ++ scalars ++ rest)) := by
  unfold responseForQuery restItems otherItems
  simp only [bind_assoc, pure_bind, List.append_assoc]

/-- agreement, up to the view `f`, of the item builders other than `scalarItems` and `enumItems` -/
structure ItemsAgree (f : Item → Item) (c c' : Ctx) : Prop extends CalcAgree f c c' where
  input : ∀ i, ORel (fun a b => f a = f b) (inputItem c i) (inputItem c' i)
  vars : ∀ op, ORel (RI f) (variablesItems c op) (variablesItems c' op)

theorem otherItems_congr (f : Item → Item) {c c' : Ctx} (H : ItemsAgree f c c') (u : UsedTypes) (op : Nat) :
    ORel (RI f) (otherItems c u op) (otherItems c' u op) := by
  have hC := calc_congr f H.toCalcAgree
  unfold otherItems
  have hfrag : ∀ fid, ORel (fun a b : List Item => a.map f = b.map f) (fragmentItems c fid) (fragmentItems c' fid) := by
    intro fid
    unfold fragmentItems
    simp only [H.s, H.q, H.cs]
    apply ORel.bind_same; intro fr
    exact (hC _).1 _ _ _ _
  have hinput : ORel (RI f) (inputItems c u) (inputItems c' u) := by
    unfold inputItems
    simp only [H.s]
    exact ORel.mapM f (fun (x : StoredInput × Nat) => H.input x.1) _
  have hresp : ∀ o, ORel (RI f) (responseItems c o) (responseItems c' o) := by
    intro o
    unfold responseItems
    simp only [H.s, H.q, H.cs]
    exact (hC _).1 _ _ _ _
  apply ORel.bind (ORel.mapM (List.map f) hfrag _); intro fr fr' hfr
  apply ORel.bind hinput; intro inp inp' hinp
  apply ORel.bind (H.vars op); intro vs vs' hvs
  simp only [H.q]
  apply ORel.bind_same; intro o
  apply ORel.bind (hresp o); intro r r' hr
  apply ORel.pure
  simp only [RI, List.map_append, List.map_flatten, hfr, hinp, hvs, hr]

theorem restItems_congr (f : Item → Item) {c c' : Ctx} (H : ItemsAgree f c c')
    (hx : c'.o.externEnums = c.o.externEnums) (henum : ∀ e, f (enumItem c e) = f (enumItem c' e))
    (u : UsedTypes) (op : Nat) : ORel (RI f) (restItems c u op) (restItems c' u op) := by
  unfold restItems
  have henums : ORel (RI f) (enumItems c u) (enumItems c' u) := by
    unfold enumItems
    simp only [H.s, hx]
    apply ORel.bind_same; intro es
    apply ORel.pure
    simp only [RI, List.map_map]
    apply List.map_congr_left
    intro e _
    exact henum e
  apply ORel.bind henums; intro en en' hen
  apply ORel.bind (otherItems_congr f H u op); intro o o' ho
  apply ORel.pure
  simp only [RI, List.map_append, hen, ho]

/-! ### the neutral options -/

/-- `c` and `c'` have the same schema, query and case functions and agree on **every option except**
    `responseDerives`, `variablesDerives`, `serdePath`, `visibility`, `queryFile`, `mode`,
    `operationName`, `structIdent` -/
structure NeutralAgree (c c' : Ctx) : Prop where
  s : c'.s = c.s
  q : c'.q = c.q
  cs : c'.cs = c.cs
  normalization : c'.o.normalization = c.o.normalization
  deprecation : c'.o.deprecation = c.o.deprecation
  otherVariant : c'.o.otherVariant = c.o.otherVariant
  skipNone : c'.o.skipNone = c.o.skipNone
  scalarsModule : c'.o.scalarsModule = c.o.scalarsModule
  externEnums : c'.o.externEnums = c.o.externEnums

theorem NeutralAgree.symm {c c' : Ctx} (H : NeutralAgree c c') : NeutralAgree c' c :=
  ⟨H.s.symm, H.q.symm, H.cs.symm, H.normalization.symm, H.deprecation.symm, H.otherVariant.symm,
   H.skipNone.symm, H.scalarsModule.symm, H.externEnums.symm⟩

/-- the hypotheses are satisfiable with *every* one of the eight free options changed -/
example (c : Ctx) (rd vd : Option String) (sp vis : String) (qf : Option String) (m : Mode) (on si : Option String) :
    NeutralAgree c { c with o := { c.o with responseDerives := rd, variablesDerives := vd, serdePath := sp,
                                            visibility := vis, queryFile := qf, mode := m, operationName := on,
                                            structIdent := si } } :=
  ⟨rfl, rfl, rfl, rfl, rfl, rfl, rfl, rfl, rfl⟩

theorem renderType_strip (c c' : Ctx) (n : String) (fs : List RField) (vs : List RVariant) :
    (renderType c n fs vs).map stripItem = (renderType c' n fs vs).map stripItem := by
  unfold renderType
  split
  · rfl
  · split <;> rfl

theorem inputFieldType_congr {c c' : Ctx} (hs : c'.s = c.s) (hcs : c'.cs = c.cs)
    (hn : c'.o.normalization = c.o.normalization) : inputFieldType c' = inputFieldType c := by
  funext ty quals
  unfold inputFieldType
  rw [hs, hcs, hn]

theorem variableType_congr {c c' : Ctx} (hs : c'.s = c.s) (hcs : c'.cs = c.cs)
    (hn : c'.o.normalization = c.o.normalization) : variableType c' = variableType c := by
  funext v
  unfold variableType
  rw [hs, hcs, hn]

theorem scalarItems_congr {c c' : Ctx} (hs : c'.s = c.s) (hcs : c'.cs = c.cs)
    (hn : c'.o.normalization = c.o.normalization) (hm : c'.o.scalarsModule = c.o.scalarsModule) :
    scalarItems c' = scalarItems c := by
  funext u
  unfold scalarItems
  rw [hs, hcs, hn, hm]

theorem enumItem_strip {c c' : Ctx} (hcs : c'.cs = c.cs) (hn : c'.o.normalization = c.o.normalization)
    (e : StoredEnum) : stripItem (enumItem c e) = stripItem (enumItem c' e) := by
  unfold enumItem
  simp only [hcs, hn, stripItem]

theorem NeutralAgree.itemsAgree {c c' : Ctx} (H : NeutralAgree c c') : ItemsAgree stripItem c c' where
  s := H.s
  q := H.q
  cs := H.cs
  otherVariant := H.otherVariant
  skipNone := H.skipNone
  deprecation := H.deprecation
  normalization := H.normalization
  render := renderType_strip c c'
  input := by
    intro i
    unfold inputItem
    simp only [H.cs, H.normalization, H.skipNone, inputFieldType_congr H.s H.cs H.normalization]
    split
    · apply ORel.bind_same; intro vs; exact ORel.pure rfl
    · apply ORel.bind_same; intro fs; exact ORel.pure rfl
  vars := by
    intro op
    unfold variablesItems
    simp only [H.s, H.q, H.cs, H.skipNone, variableType_congr H.s H.cs H.normalization]
    split
    · exact ORel.pure rfl
    · apply ORel.bind_same; intro fs
      apply ORel.bind_same; intro dfl
      exact ORel.pure rfl

/-- **2.** the neutral options change nothing but derives, serde path and alias visibility of the items -/
theorem codegen_neutral_options {c c' : Ctx} (H : NeutralAgree c c') (op : Nat) :
    (responseForQuery c op).map (List.map stripItem) = (responseForQuery c' op).map (List.map stripItem) := by
  rw [← ORel.map_iff, responseForQuery_split, responseForQuery_split]
  simp only [H.s, H.q, scalarItems_congr H.s H.cs H.normalization H.scalarsModule]
  apply ORel.bind_same; intro u
  apply ORel.bind_same; intro sc
  apply ORel.bind (restItems_congr stripItem H.itemsAgree H.externEnums (enumItem_strip H.cs H.normalization) u op)
  intro r r' hr
  apply ORel.pure
  simp only [List.map_append, hr]

/-- … and generation fails under `c` exactly when it fails under `c'`, with the same error -/
theorem codegen_neutral_same_error {c c' : Ctx} (H : NeutralAgree c c') (op : Nat) (err : Err) :
    responseForQuery c op = .error err ↔ responseForQuery c' op = .error err := by
  have h := codegen_neutral_options H op
  cases h1 : responseForQuery c op <;> cases h2 : responseForQuery c' op <;>
    simp [h1, h2, Except.map] at h ⊢
  exact h ▸ Iff.rfl

/-- the same at the level of the emitted module: only `vis`, `structDecl`, `queryInclude`, `useSerde`
    (and the derives / serde path / alias visibility inside the items) can differ -/
theorem generatedModule_neutral {c c' : Ctx} (H : NeutralAgree c c') (query operation : String) :
    ORel (fun m m' => m.modName = m'.modName ∧ m.operationName = m'.operationName ∧ m.query = m'.query ∧
            m.implFor = m'.implFor ∧ m.items.map stripItem = m'.items.map stripItem)
      (generatedModule c query operation) (generatedModule c' query operation) := by
  unfold generatedModule selectOperation
  simp only [H.q, H.cs, H.normalization]
  split
  · simp only [pure_bind]
    apply ORel.bind ((ORel.map_iff _ _ _).mpr (codegen_neutral_options H _)); intro a b hab
    exact ORel.pure ⟨rfl, rfl, rfl, rfl, hab⟩
  · exact rfl

/-! ## 3. hence the wire behaviour is the same -/

/-- reading and writing agree on two environments: for every named type / type expression, fuel,
    JSON value and Rust value -/
structure WireSame (e e' : Env) : Prop where
  dePath : ∀ b fuel p j, Serde.dePath e b fuel p j = Serde.dePath e' b fuel p j
  deFlat : ∀ fuel t buf, Serde.deFlat e fuel t buf = Serde.deFlat e' fuel t buf
  serPath : ∀ fuel p v, Serde.serPath e fuel p v = Serde.serPath e' fuel p v
  de : ∀ t j, Serde.de e t j = Serde.de e' t j
  ser : ∀ t v, Serde.ser e t v = Serde.ser e' t v
  roundtrip : ∀ t j, Serde.roundtrip e t j = Serde.roundtrip e' t j

theorem wireSame_of_strip_eq (e e' : Env) (hi : e.items.map stripItem = e'.items.map stripItem)
    (hx : e.externs = e'.externs) : WireSame e e' :=
  let h := serde_eq_of_strip_eq e e' hi hx
  ⟨h.1, h.2.1, h.2.2.1, h.2.2.2.1, h.2.2.2.2.1, h.2.2.2.2.2⟩

/-- **3.** under the hypotheses of 2: the modules generated under `c` and `c'` (completed by the same
    consumer-supplied `externs`) read and write identically; and one is generated iff the other is -/
theorem wire_invariant_derives_serde_visibility {c c' : Ctx} (H : NeutralAgree c c') (op : Nat) :
    ORel (fun items items' => ∀ externs : List (String × RTy),
            WireSame { items := items, externs := externs } { items := items', externs := externs })
      (responseForQuery c op) (responseForQuery c' op) :=
  ORel.mono (R := fun a b => List.map stripItem a = List.map stripItem b)
    (fun items items' hab externs =>
      wireSame_of_strip_eq { items := items, externs := externs } { items := items', externs := externs } hab rfl)
    ((ORel.map_iff _ _ _).mpr (codegen_neutral_options H op))

/-- the same, spelled out for a successful generation -/
theorem wire_invariant_derives_serde_visibility' {c c' : Ctx} (H : NeutralAgree c c') (op : Nat)
    (items : List Item) (hi : responseForQuery c op = .ok items) :
    ∃ items', responseForQuery c' op = .ok items' ∧
      ∀ (externs : List (String × RTy)) (b : Bool) (fuel : Nat) (p : String) (t : RTy) (j : Json) (v : Val),
        let e : Env := { items := items, externs := externs }
        let e' : Env := { items := items', externs := externs }
        Serde.dePath e b fuel p j = Serde.dePath e' b fuel p j ∧
        Serde.serPath e fuel p v = Serde.serPath e' fuel p v ∧
        Serde.de e t j = Serde.de e' t j ∧ Serde.ser e t v = Serde.ser e' t v ∧
        Serde.roundtrip e t j = Serde.roundtrip e' t j := by
  have h := wire_invariant_derives_serde_visibility H op
  rw [hi] at h
  cases h' : responseForQuery c' op with
  | error err => rw [h'] at h; exact h.elim
  | ok items' =>
    rw [h'] at h
    refine ⟨items', rfl, fun externs b fuel p t j v => ?_⟩
    have w := h externs
    exact ⟨w.dePath b fuel p j, w.serPath fuel p v, w.de t j, w.ser t v, w.roundtrip t j⟩

/-! ## 4. `custom_scalars_module` only moves the target of the custom-scalar aliases -/

/-- the same context with another `custom_scalars_module` (every `c'` that differs from `c` only in
    this option is of this form) -/
def withScalarsModule (c : Ctx) (m : Option String) : Ctx := { c with o := { c.o with scalarsModule := m } }

/-- the alias emitted for the custom scalar with Rust identifier `ident` -/
def scalarAlias (m : Option String) (ident : String) : Item :=
  .alias ident false (.path (m.getD "super" ++ "::" ++ ident))

/-- the identifiers of the custom scalars that are used (does not read `scalarsModule`) -/
def scalarIdents (c : Ctx) (u : UsedTypes) : Outcome (List String) := do
  let ids := sortNat (u.types.filterMap TypeId.asScalar?)
  let names ← ids.mapM c.s.getScalar
  pure ((names.filter (fun n => !Schema.defaultScalars.contains n)).map (c.o.normalization.scalarName c.cs))

theorem scalarItems_eq (c : Ctx) (u : UsedTypes) :
    scalarItems c u = (scalarIdents c u).map (List.map (scalarAlias c.o.scalarsModule)) := by
  unfold scalarItems scalarIdents
  simp only []
  generalize (sortNat (u.types.filterMap TypeId.asScalar?)).mapM c.s.getScalar = r
  cases r with
  | error e => rfl
  | ok names =>
    simp only [bind, Except.bind, pure, Except.pure, Except.map, List.map_map]
    rfl

theorem withScalarsModule_itemsAgree (c : Ctx) (m : Option String) : ItemsAgree id c (withScalarsModule c m) where
  s := rfl
  q := rfl
  cs := rfl
  otherVariant := rfl
  skipNone := rfl
  deprecation := rfl
  normalization := rfl
  render := fun _ _ _ => rfl
  input := fun i => ORel.refl (fun _ => rfl) (inputItem c i)
  vars := fun op => ORel.refl (R := RI id) (fun _ => rfl) (variablesItems c op)

theorem restItems_withScalarsModule (c : Ctx) (m : Option String) (u : UsedTypes) (op : Nat) :
    restItems (withScalarsModule c m) u op = restItems c u op := by
  have h := restItems_congr id (withScalarsModule_itemsAgree c m) rfl (fun _ => rfl) u op
  have h' : ORel Eq (restItems c u op) (restItems (withScalarsModule c m) u op) :=
    ORel.mono (fun a b hab => by simpa only [RI, List.map_id] using hab) h
  exact ((ORel.eq_iff _ _).mp h').symm

/-- the two parts of a module that matter here: the identifiers of the custom scalars in use, and every
    item other than the built-in aliases and the custom-scalar aliases -/
def moduleParts (c : Ctx) (op : Nat) : Outcome (List String × List Item) := do
  let u ← allUsedTypes c.s c.q op
  let ids ← scalarIdents c u
  let rest ← restItems c u op
  pure (ids, rest)

/-- assemble the module from its parts, custom scalars living in module `m` -/
def assemble (m : Option String) (parts : List String × List Item) : List Item :=
  builtinAliases ++ parts.1.map (scalarAlias m) ++ parts.2

theorem responseForQuery_parts (c : Ctx) (op : Nat) :
    responseForQuery c op = (moduleParts c op).map (assemble c.o.scalarsModule) := by
  rw [responseForQuery_split]
  unfold moduleParts
  simp only [scalarItems_eq]
  generalize allUsedTypes c.s c.q op = U
  cases U with
  | error err => rfl
  | ok u =>
    show (Except.map _ (scalarIdents c u) >>= _) = Except.map _ (scalarIdents c u >>= _)
    generalize scalarIdents c u = I
    cases I with
    | error err => rfl
    | ok idents =>
      show (restItems c u op >>= _) = Except.map _ (restItems c u op >>= _)
      generalize restItems c u op = R
      cases R <;> rfl

/-- the parts do not depend on `custom_scalars_module` -/
theorem moduleParts_withScalarsModule (c : Ctx) (m : Option String) (op : Nat) :
    moduleParts (withScalarsModule c m) op = moduleParts c op := by
  unfold moduleParts
  have hid : ∀ u, scalarIdents (withScalarsModule c m) u = scalarIdents c u := fun _ => rfl
  simp only [restItems_withScalarsModule, hid]
  rfl

/-- **4.** (IR statement, functional form) the module generated with `custom_scalars_module = m` is
    assembled from the *same* parts: only the target `<module>::ident` of the custom-scalar aliases moves -/
theorem responseForQuery_withScalarsModule (c : Ctx) (m : Option String) (op : Nat) :
    responseForQuery (withScalarsModule c m) op = (moduleParts c op).map (assemble m) := by
  rw [responseForQuery_parts, moduleParts_withScalarsModule]
  rfl

/-- **4.** (IR statement) changing `custom_scalars_module` from its value in `c` to `m`: generation fails
    with the same error, or both modules are `builtinAliases ++ (aliases of the custom scalars) ++ rest`
    with the *same* `rest`, the same alias names, and the alias of `ident` pointing to
    `<module>::ident` — nothing else differs -/
theorem scalars_module_only_changes_alias_target (c : Ctx) (m : Option String) (op : Nat) :
    (∃ err, responseForQuery c op = .error err ∧ responseForQuery (withScalarsModule c m) op = .error err) ∨
    (∃ (idents : List String) (rest : List Item),
      responseForQuery c op = .ok (builtinAliases ++ idents.map (scalarAlias c.o.scalarsModule) ++ rest) ∧
      responseForQuery (withScalarsModule c m) op = .ok (builtinAliases ++ idents.map (scalarAlias m) ++ rest)) := by
  rw [responseForQuery_withScalarsModule, responseForQuery_parts]
  cases moduleParts c op with
  | error err => exact Or.inl ⟨err, rfl, rfl⟩
  | ok parts => exact Or.inr ⟨parts.1, parts.2, rfl, rfl⟩

/-! ### wire behaviour under re-targeted aliases -/

/-- pointwise relation of two lists -/
inductive All2 {α β} (R : α → β → Prop) : List α → List β → Prop
  | nil : All2 R [] []
  | cons {a b as bs} : R a b → All2 R as bs → All2 R (a :: as) (b :: bs)

theorem All2.refl {α} {R : α → α → Prop} (h : ∀ a, R a a) : ∀ l, All2 R l l
  | [] => .nil
  | a :: l => .cons (h a) (All2.refl h l)

theorem All2.append {α β} {R : α → β → Prop} : ∀ {l₁ l₁' l₂ l₂'}, All2 R l₁ l₁' → All2 R l₂ l₂' →
    All2 R (l₁ ++ l₂) (l₁' ++ l₂')
  | _, _, _, _, .nil, h => h
  | _, _, _, _, .cons hab t, h => .cons hab (All2.append t h)

theorem All2.length_eq {α β} {R : α → β → Prop} : ∀ {l l'}, All2 R l l' → l.length = l'.length
  | _, _, .nil => rfl
  | _, _, .cons _ t => by simp [All2.length_eq t]

theorem All2.map_of {α β γ} {R : β → γ → Prop} (f : α → β) (g : α → γ) :
    ∀ (l : List α), (∀ a ∈ l, R (f a) (g a)) → All2 R (l.map f) (l.map g)
  | [], _ => .nil
  | a :: l, h => .cons (h a (by simp)) (All2.map_of f g l (fun x hx => h x (by simp [hx])))

/-- `it'` is `it`, or both are the alias named `n ∈ N` whose targets are plain paths related by `P` -/
inductive ItemRetarget (N : List String) (P : String → String → Prop) : Item → Item → Prop
  | same (it) : ItemRetarget N P it it
  | alias (n pub p p') : n ∈ N → P p p' → ItemRetarget N P (.alias n pub (.path p)) (.alias n pub (.path p'))

theorem find_retarget {N : List String} {P : String → String → Prop} (q : String) :
    ∀ {l l' : List Item}, All2 (ItemRetarget N P) l l' →
      (l.find? (·.name == q) = l'.find? (·.name == q)) ∨
      (∃ pub p p', q ∈ N ∧ P p p' ∧ l.find? (·.name == q) = some (.alias q pub (.path p)) ∧
        l'.find? (·.name == q) = some (.alias q pub (.path p')))
  | _, _, .nil => Or.inl rfl
  | _, _, .cons (a := a) (b := b) hab t => by
    cases hab with
    | same =>
      cases hq : a.name == q
      · simp only [List.find?_cons, hq]
        exact find_retarget q t
      · simp [hq]
    | alias n pub p p' hn hp =>
      by_cases hq : n = q
      · subst hq
        exact Or.inr ⟨pub, p, p', hn, hp, by simp [Item.name], by simp [Item.name]⟩
      · have : ((Item.alias n pub (.path p)).name == q) = false := by simp [Item.name, hq]
        have h' : ((Item.alias n pub (.path p')).name == q) = false := by simp [Item.name, hq]
        simp only [List.find?_cons, this, h']
        exact find_retarget q t

def isPrimName (p : String) : Bool := p == "String" || p == "i64" || p == "f64" || p == "bool"

theorem dePrim_none_of_notPrim {p : String} (h : isPrimName p = false) (j : Json) : dePrim p j = none := by
  simp only [isPrimName, Bool.or_eq_false_iff] at h
  simp [dePrim, h.1.1.1, h.1.1.2, h.1.2, h.2]

/-- what the consumer supplies at path `p` -/
def externTy (xs : List (String × RTy)) (p : String) : Option RTy := (xs.find? (·.1 == p)).map (·.2)

/-- the paths `p` (in `e`) and `p'` (in `e'`) both lead outside the module, to the same consumer type -/
structure PathEquiv (e e' : Env) (p p' : String) : Prop where
  notPrim : isPrimName p = false
  notPrim' : isPrimName p' = false
  notItem : e.find p = none
  notItem' : e'.find p' = none
  sameExtern : ∃ t, externTy e.externs p = some t ∧ externTy e'.externs p' = some t

/-- `deFlat` never looks up a name of `N` when started at this type -/
def flatSafe (N : List String) : RTy → Bool
  | .box t => flatSafe N t
  | .path q => !N.contains q
  | _ => true

/-- no `#[serde(flatten)]` member and no other alias leads to a name of `N` -/
def flatSafeItem (N : List String) : Item → Bool
  | .struct _ _ _ fs => fs.all fun f => !f.flatten || flatSafe N f.ty
  | .alias n _ t => N.contains n || flatSafe N t
  | _ => true

theorem deFlatsWith_congr {flat flat' : RTy → Buf → D (Val × Buf)} :
    ∀ (fields : List RField), (∀ f ∈ fields, f.flatten = true → ∀ buf, flat f.ty buf = flat' f.ty buf) →
      ∀ buf, deFlatsWith flat fields buf = deFlatsWith flat' fields buf
  | [], _, _ => rfl
  | f :: fs, h, buf => by
    unfold deFlatsWith
    cases hf : f.flatten
    · simp only [Bool.not_false, ↓reduceIte]
      exact deFlatsWith_congr fs (fun g hg => h g (by simp [hg])) buf
    · simp only [Bool.not_true, Bool.false_eq_true, ↓reduceIte]
      rw [h f (by simp) hf buf]
      have := deFlatsWith_congr fs (fun g hg => h g (by simp [hg]))
      simp only [this]

theorem deStructMapWith_congr (path : String → Json → D Val) {flat flat' : RTy → Buf → D (Val × Buf)}
    (fields : List RField) (h : ∀ f ∈ fields, f.flatten = true → ∀ buf, flat f.ty buf = flat' f.ty buf)
    (kvs : List (String × Json)) :
    deStructMapWith path flat fields kvs = deStructMapWith path flat' fields kvs := by
  unfold deStructMapWith
  simp only [deFlatsWith_congr fields h]

theorem deStructWith_congr (path : String → Json → D Val) {flat flat' : RTy → Buf → D (Val × Buf)}
    (fields : List RField) (h : ∀ f ∈ fields, f.flatten = true → ∀ buf, flat f.ty buf = flat' f.ty buf)
    (j : Json) : deStructWith path flat fields j = deStructWith path flat' fields j := by
  unfold deStructWith
  cases j <;> simp only [deStructMapWith_congr path fields h]

/-- `e'` is `e` with the aliases named in `N` re-targeted to equivalent external paths -/
structure Retarget (N : List String) (e e' : Env) : Prop where
  items : All2 (ItemRetarget N (PathEquiv e e')) e.items e'.items
  externs : e'.externs = e.externs
  safe : e.items.all (flatSafeItem N) = true

theorem find_mem {e : Env} {q : String} {it : Item} (h : e.find q = some it) : it ∈ e.items ∧ it.name = q := by
  unfold Env.find at h
  exact ⟨List.mem_of_find?_eq_some h, by simpa using List.find?_some h⟩

theorem Retarget.struct_safe {N e e'} (H : Retarget N e e') {q n d s fs} (h : e.find q = some (.struct n d s fs)) :
    ∀ f ∈ fs, f.flatten = true → flatSafe N f.ty = true := by
  intro f hf hfl
  have := (List.all_eq_true.mp H.safe) _ (find_mem h).1
  simp only [flatSafeItem, List.all_eq_true] at this
  simpa [hfl] using this f hf

theorem Retarget.alias_safe {N e e'} (H : Retarget N e e') {q n pub t} (h : e.find q = some (.alias n pub t))
    (hq : N.contains q = false) : flatSafe N t = true := by
  have h1 := (List.all_eq_true.mp H.safe) _ (find_mem h).1
  have h2 : n = q := (find_mem h).2
  subst h2
  have hq' : n ∉ N := by simpa using hq
  simpa [flatSafeItem, hq'] using h1

theorem retarget_de {N : List String} {e e' : Env} (H : Retarget N e e') : ∀ fuel,
    (∀ b q j, dePath e b fuel q j = dePath e' b fuel q j) ∧
    (∀ p p', PathEquiv e e' p p' → ∀ b j, dePath e b fuel p j = dePath e' b fuel p' j) ∧
    (∀ t, flatSafe N t = true → ∀ buf, deFlat e fuel t buf = deFlat e' fuel t buf) := by
  intro fuel
  induction fuel with
  | zero =>
    refine ⟨?_, ?_, ?_⟩
    · intro b q j; unfold dePath; rfl
    · intro p p' _ b j; unfold dePath; rfl
    · intro t _ buf; unfold deFlat; rfl
  | succ n ih =>
    obtain ⟨ih1, ih2, ih3⟩ := ih
    have hP : ∀ b, dePath e' b n = dePath e b n := fun b => funext fun q => funext fun j => (ih1 b q j).symm
    refine ⟨?_, ?_, ?_⟩
    · intro b q j
      unfold dePath
      cases dePrim q j with
      | some r => rfl
      | none =>
        simp only
        rcases find_retarget q H.items with hsame | ⟨pub, p, p', _, hpp, h1, h2⟩
        · have hf : e'.find q = e.find q := hsame.symm
          simp only [hf, H.externs, hP]
          cases hfind : e.find q with
          | none => rfl
          | some it =>
            cases it with
            | struct nm d s fs =>
              exact deStructWith_congr _ fs (fun f hf hfl buf => ih3 f.ty (H.struct_safe hfind f hf hfl) buf) j
            | _ => rfl
        · have h1' : e.find q = some (.alias q pub (.path p)) := h1
          have h2' : e'.find q = some (.alias q pub (.path p')) := h2
          simp only [h1', h2', deTyWith]
          exact ih2 p p' hpp b j
    · intro p p' hpp b j
      unfold dePath
      obtain ⟨t, ht, ht'⟩ := hpp.sameExtern
      simp only [dePrim_none_of_notPrim hpp.notPrim, dePrim_none_of_notPrim hpp.notPrim', hpp.notItem, hpp.notItem']
      unfold externTy at ht ht'
      cases hx : e.externs.find? (·.1 == p) with
      | none => simp [hx] at ht
      | some kt =>
        cases hx' : e'.externs.find? (·.1 == p') with
        | none => simp [hx'] at ht'
        | some kt' =>
          simp only [hx, hx', Option.map_some, Option.some.injEq] at ht ht'
          obtain ⟨k, t1⟩ := kt
          obtain ⟨k', t2⟩ := kt'
          simp only at ht ht'
          subst ht; subst ht'
          simp only [hP]
    · intro t ht buf
      unfold deFlat
      cases t with
      | box t => exact ih3 t ht buf
      | opt t => rfl
      | vec t => rfl
      | path q =>
        have hq : N.contains q = false := by simpa [flatSafe] using ht
        simp only
        rcases find_retarget q H.items with hsame | ⟨pub, p, p', hmem, _, _, _⟩
        · have hf : e'.find q = e.find q := hsame.symm
          simp only [hf, hP]
          cases hfind : e.find q with
          | none => rfl
          | some it =>
            cases it with
            | struct nm d s fs =>
              simp only
              split
              · rw [deStructMapWith_congr _ fs (fun f hf hfl buf => ih3 f.ty (H.struct_safe hfind f hf hfl) buf)]
              · rfl
            | alias nm pub t => exact ih3 t (H.alias_safe hfind hq) buf
            | _ => rfl
        · simp [hmem] at hq

theorem retarget_ser {N : List String} {e e' : Env} (H : Retarget N e e') : ∀ fuel,
    (∀ q v, serPath e fuel q v = serPath e' fuel q v) ∧
    (∀ p p', PathEquiv e e' p p' → ∀ v, serPath e fuel p v = serPath e' fuel p' v) := by
  intro fuel
  induction fuel with
  | zero =>
    refine ⟨?_, ?_⟩
    · intro q v; unfold serPath; rfl
    · intro p p' _ v; unfold serPath; rfl
  | succ n ih =>
    obtain ⟨ih1, ih2⟩ := ih
    have hS : serPath e' n = serPath e n := funext fun q => funext fun v => (ih1 q v).symm
    refine ⟨?_, ?_⟩
    · intro q v
      unfold serPath
      cases serPrim v with
      | some r => rfl
      | none =>
        simp only
        rcases find_retarget q H.items with hsame | ⟨pub, p, p', _, hpp, h1, h2⟩
        · have hf : e'.find q = e.find q := hsame.symm
          simp only [hf, H.externs, hS]
        · have h1' : e.find q = some (.alias q pub (.path p)) := h1
          have h2' : e'.find q = some (.alias q pub (.path p')) := h2
          simp only [h1', h2', serTyWith]
          exact ih2 p p' hpp v
    · intro p p' hpp v
      unfold serPath
      obtain ⟨t, ht, ht'⟩ := hpp.sameExtern
      simp only [hpp.notItem, hpp.notItem']
      unfold externTy at ht ht'
      cases hx : e.externs.find? (·.1 == p) with
      | none => simp [hx] at ht
      | some kt =>
        cases hx' : e'.externs.find? (·.1 == p') with
        | none => simp [hx'] at ht'
        | some kt' =>
          simp only [hx, hx', Option.map_some, Option.some.injEq] at ht ht'
          obtain ⟨k, t1⟩ := kt
          obtain ⟨k', t2⟩ := kt'
          simp only at ht ht'
          subst ht; subst ht'
          simp only [hS]

/-- **re-targeting aliases to equivalent external paths does not change the wire behaviour** -/
theorem retarget_wire {N : List String} {e e' : Env} (H : Retarget N e e') :
    (∀ b fuel q j, dePath e b fuel q j = dePath e' b fuel q j) ∧
    (∀ fuel q v, serPath e fuel q v = serPath e' fuel q v) ∧
    (∀ t j, Serde.de e t j = Serde.de e' t j) ∧
    (∀ t v, Serde.ser e t v = Serde.ser e' t v) ∧
    (∀ t j, Serde.roundtrip e t j = Serde.roundtrip e' t j) := by
  have hd : ∀ b fuel, dePath e b fuel = dePath e' b fuel :=
    fun b fuel => funext fun q => funext fun j => (retarget_de H fuel).1 b q j
  have hs : ∀ fuel, serPath e fuel = serPath e' fuel :=
    fun fuel => funext fun q => funext fun v => (retarget_ser H fuel).1 q v
  have hlen : e'.items.length = e.items.length := (All2.length_eq H.items).symm
  have hde : ∀ t j, Serde.de e t j = Serde.de e' t j := by
    intro t j
    unfold Serde.de deFuel deTy
    rw [hlen, H.externs, hd]
  have hser : ∀ t v, Serde.ser e t v = Serde.ser e' t v := by
    intro t v
    unfold Serde.ser serTy
    rw [hlen, H.externs, hs]
  refine ⟨fun b fuel q j => congrFun (congrFun (hd b fuel) q) j, fun fuel q v => congrFun (congrFun (hs fuel) q) v,
    hde, hser, ?_⟩
  intro t j
  unfold Serde.roundtrip
  simp only [hde, hser]

/-- the two assemblies of a module are related by `Retarget`, provided each pair of target paths is equivalent -/
theorem assemble_retarget (m m' : Option String) (parts : List String × List Item) (externs : List (String × RTy))
    (hpath : ∀ i ∈ parts.1,
      PathEquiv { items := assemble m parts, externs := externs } { items := assemble m' parts, externs := externs }
        (m.getD "super" ++ "::" ++ i) (m'.getD "super" ++ "::" ++ i))
    (hsafe : (assemble m parts).all (flatSafeItem parts.1) = true) :
    Retarget parts.1 { items := assemble m parts, externs := externs }
      { items := assemble m' parts, externs := externs } where
  items :=
    All2.append (All2.append (All2.refl (fun it => .same it) _)
        (All2.map_of _ _ _ (fun i hi => .alias i false _ _ hi (hpath i hi))))
      (All2.refl (fun it => .same it) _)
  externs := rfl
  safe := hsafe

/-- **4.** (wire statement) let the module generated under `c` have the parts `(idents, rest)`.  With
    `custom_scalars_module` changed to `m`, and the same consumer-supplied `externs`: if for every custom
    scalar the two paths `<old>::ident` / `<m>::ident` are equivalent (not primitive names, not item names,
    `externs` supplies the same type at both) and no flattened member or other alias leads to a custom-scalar
    alias, the two modules read and write identically. -/
theorem scalars_module_wire_invariant (c : Ctx) (m : Option String) (op : Nat) (parts : List String × List Item)
    (hparts : moduleParts c op = .ok parts) (externs : List (String × RTy)) :
    let e : Env := { items := assemble c.o.scalarsModule parts, externs := externs }
    let e' : Env := { items := assemble m parts, externs := externs }
    responseForQuery c op = .ok e.items ∧ responseForQuery (withScalarsModule c m) op = .ok e'.items ∧
    ((∀ i ∈ parts.1, PathEquiv e e' (c.o.scalarsModule.getD "super" ++ "::" ++ i) (m.getD "super" ++ "::" ++ i)) →
     e.items.all (flatSafeItem parts.1) = true →
      (∀ b fuel q j, dePath e b fuel q j = dePath e' b fuel q j) ∧
      (∀ fuel q v, serPath e fuel q v = serPath e' fuel q v) ∧
      (∀ t j, Serde.de e t j = Serde.de e' t j) ∧
      (∀ t v, Serde.ser e t v = Serde.ser e' t v) ∧
      (∀ t j, Serde.roundtrip e t j = Serde.roundtrip e' t j)) := by
  intro e e'
  refine ⟨?_, ?_, fun hpath hsafe => retarget_wire (assemble_retarget _ _ parts externs hpath hsafe)⟩
  · rw [responseForQuery_parts, hparts]; rfl
  · rw [responseForQuery_withScalarsModule, hparts]; rfl

/-! ### the side conditions in a concrete instance -/

/-- the parts of the module for `query Q { at ...Frag } fragment Frag on Query { id }` over a schema with a
    custom scalar `DateTime` (`at : DateTime!`, `id : ID`), as computed by `moduleParts` -/
def exParts : List String × List Item :=
  (["DateTime"],
   [.unitStruct "Variables" ["Serialize"] (some "::serde"),
    .struct "Frag" ["Deserialize"] (some "::serde")
      [{ rust := "id", ty := .opt (.path "ID"),
         deserWith := some "graphql_client::serde_with::deserialize_option_id", default := true }],
    .struct "ResponseData" ["Deserialize"] (some "::serde")
      [{ rust := "at", ty := .path "DateTime" }, { rust := "Frag", ty := .path "Frag", flatten := true }]])

def exExterns : List (String × RTy) :=
  [("super::DateTime", .path "String"), ("crate::scalars::DateTime", .path "String")]

example :
    let e : Env := { items := assemble none exParts, externs := exExterns }
    let e' : Env := { items := assemble (some "crate::scalars") exParts, externs := exExterns }
    (∀ i ∈ exParts.1, PathEquiv e e' ((none : Option String).getD "super" ++ "::" ++ i)
        ((some "crate::scalars").getD "super" ++ "::" ++ i)) ∧
    e.items.all (flatSafeItem exParts.1) = true := by
  intro e e'
  refine ⟨?_, by decide⟩
  intro i hi
  have : i = "DateTime" := by simpa [exParts] using hi
  subst this
  exact ⟨by decide, by decide, by decide, by decide, ⟨.path "String", by decide, by decide⟩⟩

example : ∀ t j, Serde.de { items := assemble none exParts, externs := exExterns } t j =
    Serde.de { items := assemble (some "crate::scalars") exParts, externs := exExterns } t j :=
  (retarget_wire (assemble_retarget none (some "crate::scalars") exParts exExterns
    (by
      intro i hi
      have : i = "DateTime" := by simpa [exParts] using hi
      subst this
      exact ⟨by decide, by decide, by decide, by decide, ⟨.path "String", by decide, by decide⟩⟩)
    (by decide))).2.2.1

theorem deFlat_alias_extern (e : Env) (q p : String) (pub : Bool) (h1 : e.find q = some (.alias q pub (.path p)))
    (h2 : e.find p = none) (buf : Buf) : deFlat e 2 (.path q) buf = unmodelled ("flatten of " ++ p) := by
  unfold deFlat; simp only [h1]; unfold deFlat; simp only [h2]

/-- without the flatten-safety side condition the statement is false as written, though only in the *text* of
    an `unmodelled` error: flattening a custom-scalar alias (nothing the generator emits, nothing serde
    supports) reports the target path -/
example :
    deFlat { items := assemble none exParts, externs := exExterns } 2 (.path "DateTime") [] ≠
    deFlat { items := assemble (some "crate::scalars") exParts, externs := exExterns } 2 (.path "DateTime") [] := by
  rw [deFlat_alias_extern _ "DateTime" "super::DateTime" false (by rfl) (by decide),
      deFlat_alias_extern _ "DateTime" "crate::scalars::DateTime" false (by rfl) (by decide)]
  intro h
  simp only [unmodelled, Except.error.injEq, DErr.unmodelled.injEq] at h
  exact absurd h (by decide)

/-! ## 4′. `extern_enums` only drops the definitions of the listed enums -/

/-- the same context with another `extern_enums` list -/
def withExternEnums (c : Ctx) (xs : List String) : Ctx := { c with o := { c.o with externEnums := xs } }

/-- the enums in use (does not read `externEnums`) -/
def usedEnums (c : Ctx) (u : UsedTypes) : Outcome (List StoredEnum) :=
  (sortNat (u.types.filterMap TypeId.asEnum?)).mapM c.s.getEnum

/-- the enum definitions emitted when the enums named in `xs` are defined by the consumer -/
def enumItemsFor (c : Ctx) (xs : List String) (es : List StoredEnum) : List Item :=
  (es.filter (fun e => !xs.contains e.name)).map (enumItem c)

theorem map_bind' {α β γ} (f : β → γ) (x : Outcome α) (g : α → Outcome β) :
    Except.map f (x >>= g) = x >>= fun a => Except.map f (g a) := by cases x <;> rfl

theorem bind_map' {α β γ} (f : α → β) (x : Outcome α) (g : β → Outcome γ) :
    Except.map f x >>= g = x >>= fun a => g (f a) := by cases x <;> rfl

theorem map_pure' {α β} (f : α → β) (a : α) : Except.map f (pure a : Outcome α) = pure (f a) := rfl

theorem enumItems_eq (c : Ctx) (u : UsedTypes) :
    enumItems c u = (usedEnums c u).map (enumItemsFor c c.o.externEnums) := by
  unfold enumItems usedEnums enumItemsFor
  simp only []
  generalize (sortNat (u.types.filterMap TypeId.asEnum?)).mapM c.s.getEnum = r
  cases r <;> rfl

/-- (built-in and custom-scalar aliases, enums in use, all other items) -/
def moduleParts3 (c : Ctx) (op : Nat) : Outcome (List Item × List StoredEnum × List Item) := do
  let u ← allUsedTypes c.s c.q op
  let scalars ← scalarItems c u
  let es ← usedEnums c u
  let others ← otherItems c u op
  pure (builtinAliases ++ scalars, es, others)

theorem responseForQuery_parts3 (c : Ctx) (op : Nat) :
    responseForQuery c op =
      (moduleParts3 c op).map (fun p => p.1 ++ enumItemsFor c c.o.externEnums p.2.1 ++ p.2.2) := by
  rw [responseForQuery_split]
  unfold restItems moduleParts3
  simp only [enumItems_eq, map_bind', map_pure', bind_map', bind_assoc, pure_bind, List.append_assoc]

theorem withExternEnums_itemsAgree (c : Ctx) (xs : List String) : ItemsAgree id c (withExternEnums c xs) where
  s := rfl
  q := rfl
  cs := rfl
  otherVariant := rfl
  skipNone := rfl
  deprecation := rfl
  normalization := rfl
  render := fun _ _ _ => rfl
  input := fun i => ORel.refl (fun _ => rfl) (inputItem c i)
  vars := fun op => ORel.refl (R := RI id) (fun _ => rfl) (variablesItems c op)

theorem moduleParts3_withExternEnums (c : Ctx) (xs : List String) (op : Nat) :
    moduleParts3 (withExternEnums c xs) op = moduleParts3 c op := by
  have ho : ∀ u, otherItems (withExternEnums c xs) u op = otherItems c u op := by
    intro u
    have h := otherItems_congr id (withExternEnums_itemsAgree c xs) u op
    have h' : ORel Eq (otherItems c u op) (otherItems (withExternEnums c xs) u op) :=
      ORel.mono (fun a b hab => by simpa only [RI, List.map_id] using hab) h
    exact ((ORel.eq_iff _ _).mp h').symm
  unfold moduleParts3
  have hsc : ∀ u, scalarItems (withExternEnums c xs) u = scalarItems c u := fun _ => rfl
  have hue : ∀ u, usedEnums (withExternEnums c xs) u = usedEnums c u := fun _ => rfl
  simp only [ho, hsc, hue]
  rfl

/-- **`extern_enums`** (IR statement): with the list changed to `xs` the module is built from the *same*
    parts; the only difference is which of the used enums get a definition (`enumItemsFor`) — the
    definitions that remain, every struct that mentions an enum, and all other items are identical -/
theorem extern_enums_only_drops_enum_items (c : Ctx) (xs : List String) (op : Nat) :
    (∃ err, responseForQuery c op = .error err ∧ responseForQuery (withExternEnums c xs) op = .error err) ∨
    (∃ (pre : List Item) (es : List StoredEnum) (others : List Item),
      responseForQuery c op = .ok (pre ++ enumItemsFor c c.o.externEnums es ++ others) ∧
      responseForQuery (withExternEnums c xs) op = .ok (pre ++ enumItemsFor c xs es ++ others)) := by
  have h2 : responseForQuery (withExternEnums c xs) op =
      (moduleParts3 c op).map (fun p => p.1 ++ enumItemsFor c xs p.2.1 ++ p.2.2) := by
    rw [responseForQuery_parts3, moduleParts3_withExternEnums]; rfl
  rw [h2, responseForQuery_parts3]
  cases moduleParts3 c op with
  | error err => exact Or.inl ⟨err, rfl, rfl⟩
  | ok parts => exact Or.inr ⟨parts.1, parts.2.1, parts.2.2, rfl, rfl⟩

/-! ## 5. normalization changes Rust names, never wire strings -/

/-- the strings an item puts on / expects from the wire: field keys, variant tags, enum strings -/
def itemWires : Item → List String
  | .struct _ _ _ fs => fs.map RField.wire
  | .oneOf _ _ _ vs => vs.map RVariant.wire
  | .tagged _ _ _ _ vs => vs.map RVariant.wire
  | .gqlEnum _ _ _ _ ser _ => ser.map (·.2)
  | _ => []

/-- the strings the `Deserialize` impl of a hand-written enum recognises -/
def enumDeKeys : Item → List String
  | .gqlEnum _ _ _ _ _ de => de.map (·.1)
  | _ => []

/-- for **every** context (normalization, case functions, …): the `Serialize` table writes exactly the
    GraphQL variant names, the `Deserialize` table recognises exactly them, in schema order, and the two
    tables are inverse to each other -/
theorem enumItem_wire (c : Ctx) (e : StoredEnum) :
    itemWires (enumItem c e) = e.variants ∧ enumDeKeys (enumItem c e) = e.variants ∧
    ∃ n d sp ids ser de, enumItem c e = .gqlEnum n d sp ids ser de ∧ ser = de.map Prod.swap ∧ ids = de.map (·.2) := by
  refine ⟨?_, ?_, ?_⟩
  · simp [enumItem, itemWires, List.map_map, Function.comp_def]
  · simp [enumItem, enumDeKeys, List.map_map, Function.comp_def]
  · exact ⟨_, _, _, _, _, _, rfl, by simp [List.map_map, Function.comp_def], by simp [List.map_map, Function.comp_def]⟩

/-- **5a.** enum wire strings are the same under any two contexts (in particular both normalizations) -/
theorem enum_wire_strings_invariant (c c' : Ctx) (e : StoredEnum) :
    itemWires (enumItem c e) = itemWires (enumItem c' e) ∧ enumDeKeys (enumItem c e) = enumDeKeys (enumItem c' e) :=
  ⟨(enumItem_wire c e).1.trans (enumItem_wire c' e).1.symm, (enumItem_wire c e).2.1.trans (enumItem_wire c' e).2.1.symm⟩

/-- **5b.** response fields: whatever the contexts, Rust identifiers and (normalized) type names, two
    renderings of the field with GraphQL name / alias `g` have the same wire name, namely `g` -/
theorem renderField_wire_invariant (c c' : Ctx) (g r r' ft ft' : String) (quals quals' : List Qual)
    (fl fl' bx bx' : Bool) (dep dep' : Option (Option String)) (f f' : RField)
    (h : renderField c (some g) r ft quals fl bx dep = .ok (some f))
    (h' : renderField c' (some g) r' ft' quals' fl' bx' dep' = .ok (some f')) : f.wire = f'.wire :=
  (C11.wire_is_graphql_name c g r ft quals fl bx dep f h).trans
    (C11.wire_is_graphql_name c' g r' ft' quals' fl' bx' dep' f' h').symm

/-- flattened fragment members carry no rename: their (unused) wire name is the Rust identifier, which
    does not depend on the normalization -/
theorem renderField_flatten_wire (c : Ctx) (r ft : String) (quals : List Qual) (fl bx : Bool)
    (dep : Option (Option String)) (f : RField)
    (h : renderField c none r ft quals fl bx dep = .ok (some f)) : f.wire = r ∧ f.rust = r := by
  unfold renderField at h
  cases hd : decorateType (.path ft) quals with
  | error e => simp [hd, bind, Except.bind] at h
  | ok ty =>
    simp only [hd, bind, Except.bind] at h
    split at h
    · simp [pure, Except.pure] at h
    · simp only [pure, Except.pure, Except.ok.injEq, Option.some.injEq] at h
      subst h
      exact ⟨rfl, rfl⟩

theorem mapM_ok_map {α β γ} {g : α → Outcome β} (φ : β → γ) (ψ : α → γ) (h : ∀ x y, g x = .ok y → φ y = ψ x) :
    ∀ (xs : List α) (ys : List β), xs.mapM g = .ok ys → ys.map φ = xs.map ψ
  | [], ys, hm => by
    simp only [List.mapM_nil, pure, Except.pure, Except.ok.injEq] at hm
    subst hm; rfl
  | x :: xs, ys, hm => by
    rw [List.mapM_cons] at hm
    cases hx : g x with
    | error e => simp [hx, bind, Except.bind] at hm
    | ok y =>
      cases hxs : xs.mapM g with
      | error e => simp [hx, hxs, bind, Except.bind] at hm
      | ok ys' =>
        simp only [hx, hxs, bind, Except.bind, pure, Except.pure, Except.ok.injEq] at hm
        subst hm
        simp only [List.map_cons, h x y hx, mapM_ok_map φ ψ h xs ys' hxs]

theorem bind_ok {α β} {x : Outcome α} {f : α → Outcome β} {b : β} (h : x >>= f = .ok b) :
    ∃ a, x = .ok a ∧ f a = .ok b := by
  cases x with
  | error e => cases h
  | ok a => exact ⟨a, rfl, h⟩

/-- input objects (plain and `@oneOf`): the wire names are the GraphQL field names, for every context -/
theorem inputItem_wire (c : Ctx) (i : StoredInput) (it : Item) (h : inputItem c i = .ok it) :
    itemWires it = i.fields.map (·.1) := by
  unfold inputItem at h
  split at h
  · obtain ⟨vs, hm, hp⟩ := bind_ok h
    cases hp
    refine mapM_ok_map RVariant.wire (·.1) ?_ _ _ hm
    intro ⟨fname, ty⟩ y hxy
    obtain ⟨t, _, hp⟩ := bind_ok hxy
    cases hp
    exact C11.oneof_wire_is_graphql_name _ _ _
  · obtain ⟨fs, hm, hp⟩ := bind_ok h
    cases hp
    refine mapM_ok_map RField.wire (·.1) ?_ _ _ hm
    intro ⟨fname, ty⟩ y hxy
    obtain ⟨t, _, hp⟩ := bind_ok hxy
    cases hp
    exact C11.input_wire_is_graphql_name _ _ _ _

/-- **5c.** input-object wire names are the same under any two contexts (in particular both normalizations) -/
theorem input_wire_strings_invariant (c c' : Ctx) (i : StoredInput) (it it' : Item)
    (h : inputItem c i = .ok it) (h' : inputItem c' i = .ok it') : itemWires it = itemWires it' :=
  (inputItem_wire c i it h).trans (inputItem_wire c' i it' h').symm

/-- variables: the keys of the `Variables` struct are the GraphQL variable names, for every context -/
theorem variablesItems_wire (c : Ctx) (op : Nat) (items : List Item) (h : variablesItems c op = .ok items) :
    items.flatMap itemWires = (c.q.opVariables op).map (·.name) := by
  unfold variablesItems at h
  simp only at h
  split at h
  · rename_i he
    cases h
    simp only [List.isEmpty_iff] at he
    simp [he, itemWires]
  · obtain ⟨fs, hm, h⟩ := bind_ok h
    obtain ⟨dfl, _, hp⟩ := bind_ok h
    cases hp
    have : fs.map RField.wire = (c.q.opVariables op).map (·.name) := by
      refine mapM_ok_map RField.wire (·.name) ?_ _ _ hm
      intro v y hxy
      obtain ⟨t, _, hp⟩ := bind_ok hxy
      cases hp
      exact C11.input_wire_is_graphql_name _ _ _ _
    simp [itemWires, this]

/-- **5d.** variable wire names are the same under any two contexts with the same query -/
theorem variables_wire_strings_invariant (c c' : Ctx) (hq : c'.q = c.q) (op : Nat) (items items' : List Item)
    (h : variablesItems c op = .ok items) (h' : variablesItems c' op = .ok items') :
    items.flatMap itemWires = items'.flatMap itemWires := by
  rw [variablesItems_wire c op items h, variablesItems_wire c' op items' h', hq]

/-- the variants of the internally tagged enums carry the GraphQL type name unrenamed; `calcVariants`
    does not read the normalization at all: `renderType` with the same fields / variants has the same
    wire strings whatever the context -/
theorem renderType_wire (c c' : Ctx) (n : String) (fs : List RField) (vs : List RVariant) :
    (renderType c n fs vs).map itemWires = (renderType c' n fs vs).map itemWires := by
  unfold renderType
  split
  · rfl
  · split <;> rfl

end C09
end GqlVerif
