import GqlVerif.Proofs.C09SchemaPairs
import GqlVerif.Proofs.ComposedC09
/-!
# C09 — the injectivity side conditions of `normalization_wire_invariant`, as a predicate on schema / query / case functions

`Proofs/C09Normalization.lean` states its side conditions on the two *generated* modules (`NamesInjective`), on the
schema's enums (`EnumIdentsInjective`) and on the schema's names (`IdStable`).  This file gives one decidable predicate
**`SchemaNamesOK c₀ c₁ op : Bool`** that reads only the schema, the query, the case functions and the options other
than `normalization` (it never looks at a generated module), and proves

* **`namesInjective_of_schema`** — `SchemaNamesOK` ⇒ `NamesInjective` (of the two generated modules, completed by
  consumer-supplied externs satisfying `ExternsOK`) ∧ `EnumIdentsInjective` ∧ `IdStable`,
  for `c₀` with `normalization = none` and `c₁` with `normalization = rust`;
* **`normalization_wire_invariant_schema`** — the wire theorem with hypotheses on schema / query / case functions only
  (`SchemaNamesOK`, `ExternsOK`, and `Composed.GeneratedMembersDistinct` for `FieldsWF`).

The core is `C09SchemaPairs.module_pairs`: the correspondence of names between the two modules, in closed form.
-/
namespace GqlVerif
namespace C09S
open Serde Codegen C09 C09N

/-! ## the name lists -/

/-- the field-position spelling of a type name under `normalization = rust` (`ID` and `__…` are kept) -/
def rho (cs : CaseFns) (n : String) : String := Normalization.fieldType .rust cs n

/-- the prelude names, the built-in aliases, `Variables`, the fragment names and the path-concatenated struct names:
    the names that are the same in both modules -/
def fixedNames (c : Ctx) (u : UsedTypes) (o : ROperation) : List String :=
  ["Boolean", "bool", "Float", "f64", "Int", "i64", "ID", "String", "Variables", "<impl Variables>"] ++ structNames c u o

/-- the names of the types of the fields of the used input types -/
def inputFieldTypeNames (c : Ctx) (u : UsedTypes) : List String :=
  (usedInputsOf c u).flatMap fun i => i.fields.filterMap fun p => (c.s.typeName p.2.id).toOption

/-- the names of the types of the operation's variables -/
def varTypeNames (c : Ctx) (op : Nat) : List String :=
  (c.q.opVariables op).filterMap fun v => (c.s.typeName v.ty.id).toOption

/-- the type names that name an item of the module (renamed by `camel`): custom scalars, own enums, input types -/
def declNames (c : Ctx) (u : UsedTypes) : List String :=
  customScalarsOf c u ++ (ownEnumsOf c u).map (·.name) ++ (usedInputsOf c u).map (·.name)

/-- the type names that pass through `keyword_replace` -/
def kwNames (c : Ctx) (u : UsedTypes) (op : Nat) : List String :=
  (usedInputsOf c u).map (·.name) ++ varTypeNames c op

/-- every schema type name the module spells (in field position, renamed by `rho`) -/
def typeNames (c : Ctx) (u : UsedTypes) (op : Nat) : List String :=
  (usedEnumsOf c u).map (·.name) ++ usedScalarsOf c u ++ inputFieldTypeNames c u ++ varTypeNames c op ++ declNames c u

/-- the path a custom scalar's alias points to -/
def scalarsPath (c : Ctx) (ident : String) : String := (c.o.scalarsModule.getD "super") ++ "::" ++ ident

/-- the names of `structNames` are names the module defines (`C02.moduleNames`, the closed form of
    `C02.module_defines_eq`): its last two parts -/
theorem structNames_subset_moduleNames (c : Ctx) (u : UsedTypes) (o : ROperation) :
    ∀ n ∈ structNames c u o, n ∈ C02.moduleNames c u o := by
  intro n hn
  unfold C02.moduleNames
  rcases List.mem_append.mp hn with h | h
  · exact List.mem_append_left _ (List.mem_append_right _ h)
  · exact List.mem_append_right _ h

/-! ## the predicate -/

/-- the conditions on the names the operation `op` can emit (`u` the used types, `o` the operation) -/
structure UsedNamesOK (c c' : Ctx) (u : UsedTypes) (o : ROperation) (op : Nat) : Prop where
  /-- declaration and field position spell a type name the same way (no own type is called `ID` or `__…`, unless
      `camel` keeps it) -/
  decl : ∀ n ∈ declNames c u, rho c.cs n = c.cs.camel n
  /-- `keyword_replace` leaves the names of input types and of variable types alone, before and after renaming -/
  kw : ∀ n ∈ kwNames c u op, keywordReplace n = n ∧ keywordReplace (rho c.cs n) = rho c.cs n
  /-- the renaming is injective on the type names -/
  inj : ∀ a ∈ typeNames c u op, ∀ b ∈ typeNames c u op, rho c.cs a = rho c.cs b → a = b
  /-- no type name is renamed onto, or away from, a name that is the same in both modules (prelude names, built-in
      aliases — among them `ID` —, `Variables`, fragment names, struct names) -/
  fixed : ∀ n ∈ typeNames c u op, ∀ a ∈ fixedNames c u o, (n = a ↔ rho c.cs n = a)
  /-- the paths of the custom scalars are not names of the module -/
  paths : ∀ n ∈ customScalarsOf c u,
    scalarsPath c n ∉ typeNames c u op ∧ scalarsPath c n ∉ fixedNames c u o ∧
    scalarsPath c' (rho c.cs n) ∉ (typeNames c u op).map (rho c.cs) ∧ scalarsPath c' (rho c.cs n) ∉ fixedNames c u o

instance (c c' : Ctx) (u : UsedTypes) (o : ROperation) (op : Nat) : Decidable (UsedNamesOK c c' u o op) :=
  decidable_of_iff
    ((∀ n ∈ declNames c u, rho c.cs n = c.cs.camel n) ∧
     (∀ n ∈ kwNames c u op, keywordReplace n = n ∧ keywordReplace (rho c.cs n) = rho c.cs n) ∧
     (∀ a ∈ typeNames c u op, ∀ b ∈ typeNames c u op, rho c.cs a = rho c.cs b → a = b) ∧
     (∀ n ∈ typeNames c u op, ∀ a ∈ fixedNames c u o, (n = a ↔ rho c.cs n = a)) ∧
     (∀ n ∈ customScalarsOf c u,
        scalarsPath c n ∉ typeNames c u op ∧ scalarsPath c n ∉ fixedNames c u o ∧
        scalarsPath c' (rho c.cs n) ∉ (typeNames c u op).map (rho c.cs) ∧ scalarsPath c' (rho c.cs n) ∉ fixedNames c u o))
    ⟨fun ⟨a, b, c, d, e⟩ => ⟨a, b, c, d, e⟩, fun h => ⟨h.decl, h.kw, h.inj, h.fixed, h.paths⟩⟩

/-- no enum / scalar of the schema is renamed onto, or away from, `ID` (this is `IdStable`, which the generator's
    `deserialize_with` helpers need; it ranges over the whole schema) -/
def IdOK (s : Schema) (cs : CaseFns) : Prop :=
  ∀ n ∈ s.enums.map (·.name) ++ s.scalars, (rho cs n == "ID") = (n == "ID")

instance (s : Schema) (cs : CaseFns) : Decidable (IdOK s cs) := by unfold IdOK; infer_instance

/-- per enum: two values get the same variant identifier without normalization iff they do under `rust` -/
def VariantIdentsOK (s : Schema) (cs : CaseFns) : Prop :=
  ∀ e ∈ s.enums, ∀ a ∈ e.variants, ∀ b ∈ e.variants,
    (enumVariantIdent .none cs a = enumVariantIdent .none cs b ↔ enumVariantIdent .rust cs a = enumVariantIdent .rust cs b)

instance (s : Schema) (cs : CaseFns) : Decidable (VariantIdentsOK s cs) := by unfold VariantIdentsOK; infer_instance

/-- the readable sufficient condition: per enum, `enumVariantIdent` is injective on the values, with and without
    normalization -/
theorem variantIdentsOK_of_injective {s : Schema} {cs : CaseFns}
    (h : ∀ e ∈ s.enums, ∀ nz : Normalization, ∀ a ∈ e.variants, ∀ b ∈ e.variants,
      enumVariantIdent nz cs a = enumVariantIdent nz cs b → a = b) : VariantIdentsOK s cs := by
  intro e he a ha b hb
  exact ⟨fun h1 => by rw [h e he .none a ha b hb h1], fun h1 => by rw [h e he .rust a ha b hb h1]⟩

/-- the part of the predicate that depends on the operation -/
def OpNamesOK (c c' : Ctx) (op : Nat) : Prop :=
  match allUsedTypes c.s c.q op, c.q.operations[op]? with
  | .ok u, some o => UsedNamesOK c c' u o op
  | _, _ => True

instance (c c' : Ctx) (op : Nat) : Decidable (OpNamesOK c c' op) := by
  unfold OpNamesOK; split <;> infer_instance

/-- **the side conditions of the normalization wire theorem, on the schema / query / case functions.**
    Reads `c.s`, `c.q`, `c.cs`, the options `externEnums`, `deprecation`, `otherVariant`, `scalarsModule` of `c` and
    `scalarsModule` of `c'`; reads neither `normalization` nor any generated module. -/
def SchemaNamesOK (c c' : Ctx) (op : Nat) : Bool :=
  decide (OpNamesOK c c' op ∧ IdOK c.s c.cs ∧ VariantIdentsOK c.s c.cs)


/-! ## from the predicate to the kernel condition -/

/-- the three kinds of pairs of names: a renamed type name, a name that is the same in both modules, the path of a
    custom scalar -/
def PairClass (c c' : Ctx) (u : UsedTypes) (o : ROperation) (op : Nat) (y : String × String) : Prop :=
  (∃ n ∈ typeNames c u op, y = (n, rho c.cs n)) ∨ (∃ a ∈ fixedNames c u o, y = (a, a)) ∨
  (∃ n ∈ customScalarsOf c u, y = (scalarsPath c n, scalarsPath c' (rho c.cs n)))

theorem custom_mem_typeNames {c : Ctx} {u : UsedTypes} {op : Nat} {n : String} (h : n ∈ customScalarsOf c u) :
    n ∈ typeNames c u op :=
  List.mem_append_right _ (List.mem_append_left _ (List.mem_append_left _ h))

theorem scalarsPath_inj (c : Ctx) {a b : String} : scalarsPath c a = scalarsPath c b ↔ a = b :=
  String.append_right_inj _

section Kernel
variable {c c' : Ctx} {u : UsedTypes} {o : ROperation} {op : Nat}

theorem class_kernel (hok : UsedNamesOK c c' u o op) {x y : String × String}
    (hx : PairClass c c' u o op x) (hy : PairClass c c' u o op y) : x.1 = y.1 ↔ x.2 = y.2 := by
  rcases hx with ⟨n, hn, rfl⟩ | ⟨a, ha, rfl⟩ | ⟨k, hk, rfl⟩ <;>
    rcases hy with ⟨n', hn', rfl⟩ | ⟨a', ha', rfl⟩ | ⟨k', hk', rfl⟩ <;> simp only
  · exact ⟨fun e => by rw [e], hok.inj n hn n' hn'⟩
  · exact hok.fixed n hn a' ha'
  · constructor
    · intro e; exact absurd (e ▸ hn) (hok.paths k' hk').1
    · intro e; exact absurd (e ▸ List.mem_map.mpr ⟨n, hn, rfl⟩) (hok.paths k' hk').2.2.1
  · rw [eq_comm, hok.fixed n' hn' a ha, eq_comm]
  · constructor
    · intro e; exact absurd (e ▸ ha) (hok.paths k' hk').2.1
    · intro e; exact absurd (e ▸ ha) (hok.paths k' hk').2.2.2
  · constructor
    · intro e; exact absurd (e ▸ hn') (hok.paths k hk).1
    · intro e; exact absurd (e ▸ List.mem_map.mpr ⟨n', hn', rfl⟩) (hok.paths k hk).2.2.1
  · constructor
    · intro e; exact absurd (e ▸ ha') (hok.paths k hk).2.1
    · intro e; exact absurd (e ▸ ha') (hok.paths k hk).2.2.2
  · rw [scalarsPath_inj, scalarsPath_inj]
    exact ⟨fun e => by rw [e], hok.inj k (custom_mem_typeNames hk) k' (custom_mem_typeNames hk')⟩

theorem prim_mem_fixed {p : String} (h : isPrimName p = true) : p ∈ fixedNames c u o := by
  simp only [isPrimName, Bool.or_eq_true, beq_iff_eq] at h
  rcases h with ((rfl | rfl) | rfl) | rfl <;> simp [fixedNames]

theorem class_prim (hok : UsedNamesOK c c' u o op) {x : String × String} (hx : PairClass c c' u o op x)
    (hp : isPrimName x.1 = true ∨ isPrimName x.2 = true) : x.1 = x.2 := by
  rcases hx with ⟨n, hn, rfl⟩ | ⟨a, ha, rfl⟩ | ⟨k, hk, rfl⟩
  · rcases hp with hp | hp
    · exact ((hok.fixed n hn n (prim_mem_fixed hp)).mp rfl).symm
    · exact (hok.fixed n hn _ (prim_mem_fixed hp)).mpr rfl
  · rfl
  · rcases hp with hp | hp
    · exact absurd (prim_mem_fixed hp) (hok.paths k hk).2.1
    · exact absurd (prim_mem_fixed hp) (hok.paths k hk).2.2.2

end Kernel

/-! ## the pairs of `modulePairs` under `none` / `rust` -/

theorem toOption_ok {α} {x : Outcome α} {a : α} (h : x = .ok a) : x.toOption = some a := by subst h; rfl

section Classify
variable {c c' : Ctx} {u : UsedTypes} {o : ROperation} {op : Nat}

theorem ft_none (hn : c.o.normalization = .none) (n : String) : c.o.normalization.fieldType c.cs n = n := by
  rw [hn]; exact C02.fieldType_none _ _

theorem ft_rust (hcs : c'.cs = c.cs) (hn' : c'.o.normalization = .rust) (n : String) :
    c'.o.normalization.fieldType c'.cs n = rho c.cs n := by
  rw [hn', hcs]; rfl

theorem modulePairs_class (hcs : c'.cs = c.cs) (hn : c.o.normalization = .none) (hn' : c'.o.normalization = .rust)
    (hok : UsedNamesOK c c' u o op) : ∀ y ∈ modulePairs c c' u o op, PairClass c c' u o op y := by
  have hfix : ∀ a ∈ fixedNames c u o, PairClass c c' u o op (a, a) := fun a ha => .inr (.inl ⟨a, ha, rfl⟩)
  have hty : ∀ n ∈ typeNames c u op, PairClass c c' u o op (n, rho c.cs n) := fun n hn => .inl ⟨n, hn, rfl⟩
  have hdecl : ∀ n ∈ declNames c u, n ∈ typeNames c u op := fun n hn => List.mem_append_right _ hn
  intro y hy
  simp only [modulePairs, List.mem_append] at hy
  rcases hy with (((((hy | hy) | hy) | hy) | hy) | hy) | hy
  · refine (?_ : ∃ a, a ∈ fixedNames c u o ∧ y = (a, a)).elim (fun a h => h.2 ▸ hfix a h.1)
    simp only [builtinPairs, List.mem_cons, List.not_mem_nil, or_false] at hy
    rcases hy with rfl | rfl | rfl | rfl | rfl | rfl | rfl | rfl <;> exact ⟨_, by simp [fixedNames], rfl⟩
  · obtain ⟨n, hn1, hy⟩ := List.mem_flatMap.mp hy
    have hd : n ∈ declNames c u := List.mem_append_left _ (List.mem_append_left _ hn1)
    have hcam := hok.decl n hd
    simp only [hn, hn', hcs, Normalization.scalarName, Normalization.camelCase, List.mem_cons, List.not_mem_nil, or_false] at hy
    rcases hy with rfl | rfl
    · rw [← hcam]; exact hty n (hdecl n hd)
    · rw [← hcam]; exact .inr (.inr ⟨n, hn1, rfl⟩)
  · obtain ⟨e, he, rfl⟩ := List.mem_map.mp hy
    have hd : e.name ∈ declNames c u :=
      List.mem_append_left _ (List.mem_append_right _ (List.mem_map.mpr ⟨e, he, rfl⟩))
    simp only [hn, hn', hcs, Normalization.enumName, Normalization.camelCase]
    rw [← hok.decl _ hd]; exact hty _ (hdecl _ hd)
  · obtain ⟨i, hi, hy⟩ := List.mem_flatMap.mp hy
    rcases List.mem_cons.mp hy with rfl | hy
    · have hd : i.name ∈ declNames c u := List.mem_append_right _ (List.mem_map.mpr ⟨i, hi, rfl⟩)
      have hk := hok.kw i.name (List.mem_append_left _ (List.mem_map.mpr ⟨i, hi, rfl⟩))
      simp only [hn, hn', hcs, Normalization.inputName, Normalization.camelCase]
      rw [← hok.decl _ hd, hk.1, hk.2]; exact hty _ (hdecl _ hd)
    · obtain ⟨p, hp, hy⟩ := List.mem_filterMap.mp hy
      cases htn : c.s.typeName p.2.id with
      | error e => simp [htn] at hy
      | ok tn =>
        simp only [htn, Option.some.injEq] at hy
        subst hy
        rw [ft_none hn, ft_rust hcs hn']
        refine hty tn (List.mem_append_left _ (List.mem_append_left _ (List.mem_append_right _ ?_)))
        exact List.mem_flatMap.mpr ⟨i, hi, List.mem_filterMap.mpr ⟨p, hp, toOption_ok htn⟩⟩
  · simp only [varPairs, List.mem_append, List.mem_cons, List.not_mem_nil, or_false] at hy
    rcases hy with (rfl | rfl) | hy
    · exact hfix _ (by simp [fixedNames])
    · exact hfix _ (by simp [fixedNames])
    · obtain ⟨v, hv, hy⟩ := List.mem_filterMap.mp hy
      cases htn : c.s.typeName v.ty.id with
      | error e => simp [htn] at hy
      | ok tn =>
        simp only [htn, Option.some.injEq] at hy
        subst hy
        have hm : tn ∈ varTypeNames c op := List.mem_filterMap.mpr ⟨v, hv, toOption_ok htn⟩
        have hk := hok.kw tn (List.mem_append_right _ hm)
        rw [ft_none hn, ft_rust hcs hn', hk.1, hk.2]
        exact hty tn (List.mem_append_left _ (List.mem_append_right _ hm))
  · simp only [leafPairs, List.mem_append] at hy
    rcases hy with hy | hy
    · obtain ⟨e, he, rfl⟩ := List.mem_map.mp hy
      rw [ft_none hn, ft_rust hcs hn']
      exact hty _ (List.mem_append_left _ (List.mem_append_left _ (List.mem_append_left _ (List.mem_append_left _
        (List.mem_map.mpr ⟨e, he, rfl⟩)))))
    · obtain ⟨n, hn1, rfl⟩ := List.mem_map.mp hy
      rw [ft_none hn, ft_rust hcs hn']
      exact hty _ (List.mem_append_left _ (List.mem_append_left _ (List.mem_append_left _ (List.mem_append_right _ hn1))))
  · obtain ⟨a, ha, rfl⟩ := List.mem_map.mp hy
    exact hfix a (List.mem_append_right _ ha)

end Classify

/-! ## the consumer-supplied externs -/

/-- what the consumer supplies: at corresponding positions, the paths the aliases of one custom scalar point to in
    the two modules, with definitions whose leaf is the same prelude type -/
def ExternsOK (c c' : Ctx) (op : Nat) (x x' : List (String × RTy)) : Prop :=
  match allUsedTypes c.s c.q op with
  | .ok u => ∀ p ∈ x.zip x',
      (∃ n ∈ customScalarsOf c u, p.1.1 = scalarsPath c n ∧ p.2.1 = scalarsPath c' (c.cs.camel n)) ∧
      tyLeaf p.1.2 = tyLeaf p.2.2 ∧ isPrimName (tyLeaf p.1.2) = true
  | .error _ => True

instance (c c' : Ctx) (op : Nat) (x x' : List (String × RTy)) : Decidable (ExternsOK c c' op x x') := by
  unfold ExternsOK; split <;> infer_instance

/-! ## the theorems -/

theorem schemaNamesOK_iff {c c' : Ctx} {op : Nat} :
    SchemaNamesOK c c' op = true ↔ OpNamesOK c c' op ∧ IdOK c.s c.cs ∧ VariantIdentsOK c.s c.cs := by
  unfold SchemaNamesOK; exact decide_eq_true_iff

theorem mem_zip_map_self {α β γ} {f : α → β} {g : α → γ} {l : List α} {y : β × γ}
    (h : y ∈ (l.map f).zip (l.map g)) : ∃ a ∈ l, y = (f a, g a) := by
  rw [List.zip_map] at h
  obtain ⟨x, hx, rfl⟩ := List.mem_map.mp h
  obtain ⟨e, hm⟩ := mem_zip_self hx
  exact ⟨x.1, hm, by simp only [Prod.map, ← e]⟩

/-- `IdOK` is `IdStable` for `none` / `rust` -/
theorem idStable_of_schema {c₀ c₁ : Ctx} (hcs : c₁.cs = c₀.cs) (hn₀ : c₀.o.normalization = .none)
    (hn₁ : c₁.o.normalization = .rust) (hid : IdOK c₀.s c₀.cs) : IdStable c₀ c₁ := by
  intro n hn
  rw [ft_none hn₀, ft_rust hcs hn₁]
  exact hid n hn

/-- `VariantIdentsOK` is `EnumIdentsInjective` for `none` / `rust` -/
theorem enumIdentsInjective_of_schema {c₀ c₁ : Ctx} (hcs : c₁.cs = c₀.cs) (hn₀ : c₀.o.normalization = .none)
    (hn₁ : c₁.o.normalization = .rust) (hvar : VariantIdentsOK c₀.s c₀.cs) : EnumIdentsInjective c₀ c₁ := by
  intro e he x hx y hy
  obtain ⟨a, ha, rfl⟩ := mem_zip_map_self hx
  obtain ⟨b, hb, rfl⟩ := mem_zip_map_self hy
  simp only [hn₀, hn₁, hcs]
  exact hvar e he a ha b hb

/-- **`namesInjective_of_schema`**: for `c₀` (`normalization = none`) and `c₁` (`normalization = rust`) that agree on
    everything else the generator reads, the schema-level predicate `SchemaNamesOK` implies the three side conditions
    of `normalization_wire_invariant_of_names`: `NamesInjective` of the two generated modules (completed by externs
    that satisfy `ExternsOK`), `EnumIdentsInjective` and `IdStable` -/
theorem namesInjective_of_schema {c₀ c₁ : Ctx} (H : NormAgree c₀ c₁) (hn₀ : c₀.o.normalization = .none)
    (hn₁ : c₁.o.normalization = .rust) (op : Nat) (hok : SchemaNamesOK c₀ c₁ op = true)
    {items₀ items₁ : List Item} (h₀ : responseForQuery c₀ op = .ok items₀) (h₁ : responseForQuery c₁ op = .ok items₁)
    (x₀ x₁ : List (String × RTy)) (hext : ExternsOK c₀ c₁ op x₀ x₁) :
    NamesInjective { items := items₀, externs := x₀ } { items := items₁, externs := x₁ } ∧
    EnumIdentsInjective c₀ c₁ ∧ IdStable c₀ c₁ := by
  obtain ⟨hop, hid, hvar⟩ := schemaNamesOK_iff.mp hok
  obtain ⟨u, o, hu, ho, hall⟩ := module_pairs H op h₀ h₁
  have hused : UsedNamesOK c₀ c₁ u o op := by
    unfold OpNamesOK at hop
    rw [hu, ho] at hop
    exact hop
  refine ⟨?_, enumIdentsInjective_of_schema H.cs hn₀ hn₁ hvar, idStable_of_schema H.cs hn₀ hn₁ hid⟩
  have hclass : ∀ y ∈ envPairs { items := items₀, externs := x₀ } { items := items₁, externs := x₁ },
      PairClass c₀ c₁ u o op y := by
    intro y hy
    rcases List.mem_append.mp hy with hy | hy
    · obtain ⟨x, hx, hy⟩ := List.mem_flatMap.mp hy
      exact modulePairs_class H.cs hn₀ hn₁ hused y (All2.forall_zip hall x hx y hy)
    · obtain ⟨p, hp, hy⟩ := List.mem_flatMap.mp hy
      unfold ExternsOK at hext
      rw [hu] at hext
      obtain ⟨⟨n, hn, e1, e2⟩, e3, e4⟩ := hext p hp
      simp only [externPairs, List.mem_cons, List.not_mem_nil, or_false] at hy
      rcases hy with rfl | rfl
      · refine .inr (.inr ⟨n, hn, ?_⟩)
        rw [e1, e2, hused.decl n (List.mem_append_left _ (List.mem_append_left _ hn))]
      · exact .inr (.inl ⟨_, prim_mem_fixed e4, by rw [e3]⟩)
  exact ⟨fun x hx y hy => class_kernel hused (hclass x hx) (hclass y hy),
    fun x hx hp => class_prim hused (hclass x hx) hp⟩

/-- **`normalization_wire_invariant_schema`** — the wire theorem for `normalization = none` / `rust` with hypotheses on
    the schema, the query, the case functions (and the consumer's externs) only.  Let `c₀` (`none`) and `c₁` (`rust`)
    agree on everything else the generator reads, let both generate a module for `op`, let the consumer supply externs
    of the same shape at the paths of the custom scalars (`ExternsOK`).  If `SchemaNamesOK` holds and no emitted item has
    two members of one identifier (`GeneratedMembersDistinct`, the decidable class that gives `FieldsWF`), then the two
    modules are related by `EnvRen`, accept the same JSON at `ResponseData` with results equal up to variant
    identifiers, round-trip it to the same JSON, and serialize corresponding `Variables` to the same JSON. -/
theorem normalization_wire_invariant_schema {c₀ c₁ : Ctx} (H : NormAgree c₀ c₁) (hn₀ : c₀.o.normalization = .none)
    (hn₁ : c₁.o.normalization = .rust) (op : Nat)
    {items₀ items₁ : List Item} (h₀ : responseForQuery c₀ op = .ok items₀) (h₁ : responseForQuery c₁ op = .ok items₁)
    (x₀ x₁ : List (String × RTy)) (hx : x₀.map (fun x => eraseTy x.2) = x₁.map (fun x => eraseTy x.2))
    (hnames : SchemaNamesOK c₀ c₁ op = true) (hext : ExternsOK c₀ c₁ op x₀ x₁)
    (hmem : Composed.GeneratedMembersDistinct c₀ op = true) :
    let e₀ : Env := { items := items₀, externs := x₀ }
    let e₁ : Env := { items := items₁, externs := x₁ }
    EnvRen (Corr e₀ e₁) e₀ e₁ ∧
    (∀ j, DRel (VRel (Corr e₀ e₁) e₀ e₁ (.path "ResponseData"))
      (Serde.de e₀ (.path "ResponseData") j) (Serde.de e₁ (.path "ResponseData") j)) ∧
    (∀ j, DRel Eq (Serde.roundtrip e₀ (.path "ResponseData") j) (Serde.roundtrip e₁ (.path "ResponseData") j)) ∧
    (∀ v v', VRel (Corr e₀ e₁) e₀ e₁ (.path "Variables") v v' →
      DRel Eq (Serde.ser e₀ (.path "Variables") v) (Serde.ser e₁ (.path "Variables") v')) := by
  obtain ⟨hn, he, hid⟩ := namesInjective_of_schema H hn₀ hn₁ op hnames h₀ h₁ x₀ x₁ hext
  exact normalization_wire_invariant_of_names H hid op h₀ h₁ x₀ x₁ hx hn he
    (Composed.fieldsWF_of_generated c₀ op items₀ x₀ h₀ hmem)

/-- generation under `rust` need not be assumed: under `IdOK` it succeeds whenever generation under `none` does -/
theorem normalization_wire_invariant_schema_ok {c₀ c₁ : Ctx} (H : NormAgree c₀ c₁) (hn₀ : c₀.o.normalization = .none)
    (hn₁ : c₁.o.normalization = .rust) (op : Nat) {items₀ : List Item} (h₀ : responseForQuery c₀ op = .ok items₀)
    (x₀ x₁ : List (String × RTy)) (hx : x₀.map (fun x => eraseTy x.2) = x₁.map (fun x => eraseTy x.2))
    (hnames : SchemaNamesOK c₀ c₁ op = true) (hext : ExternsOK c₀ c₁ op x₀ x₁)
    (hmem : Composed.GeneratedMembersDistinct c₀ op = true) :
    ∃ items₁, responseForQuery c₁ op = .ok items₁ ∧
      (∀ j, (Serde.de { items := items₀, externs := x₀ } (.path "ResponseData") j).isOk =
        (Serde.de { items := items₁, externs := x₁ } (.path "ResponseData") j).isOk) ∧
      (∀ j, DRel Eq (Serde.roundtrip { items := items₀, externs := x₀ } (.path "ResponseData") j)
        (Serde.roundtrip { items := items₁, externs := x₁ } (.path "ResponseData") j)) ∧
      (∀ v v', VRel (Corr { items := items₀, externs := x₀ } { items := items₁, externs := x₁ })
          { items := items₀, externs := x₀ } { items := items₁, externs := x₁ } (.path "Variables") v v' →
        DRel Eq (Serde.ser { items := items₀, externs := x₀ } (.path "Variables") v)
          (Serde.ser { items := items₁, externs := x₁ } (.path "Variables") v')) := by
  have hid : IdStable c₀ c₁ := idStable_of_schema H.cs hn₀ hn₁ (schemaNamesOK_iff.mp hnames).2.1
  obtain ⟨items₁, h₁, _⟩ := normalization_only_renames_ok H hid op items₀ h₀
  obtain ⟨hn, he, _⟩ := namesInjective_of_schema H hn₀ hn₁ op hnames h₀ h₁ x₀ x₁ hext
  have hwf := Composed.fieldsWF_of_generated c₀ op items₀ x₀ h₀ hmem
  have hinj := renameInjective_of_generated H hid op h₀ h₁ x₀ x₁ hn he
  have hw := normalization_wire_invariant H hid op h₀ h₁ x₀ x₁ hx hinj hwf
  exact ⟨items₁, h₁, fun j => (normalization_wire_invariant' H hid op h₀ h₁ x₀ x₁ hx hinj hwf j).1, hw.2.2.1, hw.2.2.2⟩

/-! ## the predicate as a function of schema, query, case functions and options -/

/-- the context with `normalization` set -/
def ctxOf (s : Schema) (q : Query) (cs : CaseFns) (o : Options) (nz : Normalization) : Ctx :=
  { s, q, cs, o := { o with normalization := nz } }

/-- `SchemaNamesOK` for the two contexts built from one schema / query / case functions / options (`o.normalization`
    is overwritten, so this is a function of the other components only) -/
def SchemaNamesOK' (s : Schema) (q : Query) (cs : CaseFns) (o : Options) (op : Nat) : Bool :=
  SchemaNamesOK (ctxOf s q cs o .none) (ctxOf s q cs o .rust) op

theorem ctxOf_normAgree (s : Schema) (q : Query) (cs : CaseFns) (o : Options) :
    NormAgree (ctxOf s q cs o .none) (ctxOf s q cs o .rust) :=
  { s := rfl, q := rfl, cs := rfl, otherVariant := rfl, skipNone := rfl, deprecation := rfl, externEnums := rfl }

/-- **the wire theorem, all hypotheses on `s`, `q`, `cs`, `o` and the externs**: if generation without normalization
    succeeds, so does generation with `normalization = rust`, and the two modules accept the same replies, round-trip
    them to the same JSON and serialize corresponding `Variables` to the same JSON -/
theorem normalization_wire_invariant_schema'' (s : Schema) (q : Query) (cs : CaseFns) (o : Options) (op : Nat)
    {items₀ : List Item} (h₀ : responseForQuery (ctxOf s q cs o .none) op = .ok items₀)
    (x₀ x₁ : List (String × RTy)) (hx : x₀.map (fun x => eraseTy x.2) = x₁.map (fun x => eraseTy x.2))
    (hnames : SchemaNamesOK' s q cs o op = true)
    (hext : ExternsOK (ctxOf s q cs o .none) (ctxOf s q cs o .rust) op x₀ x₁)
    (hmem : Composed.GeneratedMembersDistinct (ctxOf s q cs o .none) op = true) :
    ∃ items₁, responseForQuery (ctxOf s q cs o .rust) op = .ok items₁ ∧
      (∀ j, (Serde.de { items := items₀, externs := x₀ } (.path "ResponseData") j).isOk =
        (Serde.de { items := items₁, externs := x₁ } (.path "ResponseData") j).isOk) ∧
      (∀ j, DRel Eq (Serde.roundtrip { items := items₀, externs := x₀ } (.path "ResponseData") j)
        (Serde.roundtrip { items := items₁, externs := x₁ } (.path "ResponseData") j)) ∧
      (∀ v v', VRel (Corr { items := items₀, externs := x₀ } { items := items₁, externs := x₁ })
          { items := items₀, externs := x₀ } { items := items₁, externs := x₁ } (.path "Variables") v v' →
        DRel Eq (Serde.ser { items := items₀, externs := x₀ } (.path "Variables") v)
          (Serde.ser { items := items₁, externs := x₁ } (.path "Variables") v')) :=
  normalization_wire_invariant_schema_ok (ctxOf_normAgree s q cs o) rfl rfl op h₀ x₀ x₁ hx hnames hext hmem

/-! ## the clauses, one by one (for the witnesses) -/

/-- the truth values of the seven clauses of `SchemaNamesOK`: `decl`, `kw`, `inj`, `fixed`, `paths` (of
    `UsedNamesOK`; `true` when generation fails before names matter), `IdOK`, `VariantIdentsOK` -/
def clauses (c c' : Ctx) (op : Nat) : List Bool :=
  (match allUsedTypes c.s c.q op, c.q.operations[op]? with
   | .ok u, some o =>
     [decide (∀ n ∈ declNames c u, rho c.cs n = c.cs.camel n),
      decide (∀ n ∈ kwNames c u op, keywordReplace n = n ∧ keywordReplace (rho c.cs n) = rho c.cs n),
      decide (∀ a ∈ typeNames c u op, ∀ b ∈ typeNames c u op, rho c.cs a = rho c.cs b → a = b),
      decide (∀ n ∈ typeNames c u op, ∀ a ∈ fixedNames c u o, (n = a ↔ rho c.cs n = a)),
      decide (∀ n ∈ customScalarsOf c u,
        scalarsPath c n ∉ typeNames c u op ∧ scalarsPath c n ∉ fixedNames c u o ∧
        scalarsPath c' (rho c.cs n) ∉ (typeNames c u op).map (rho c.cs) ∧ scalarsPath c' (rho c.cs n) ∉ fixedNames c u o)]
   | _, _ => [true, true, true, true, true]) ++
  [decide (IdOK c.s c.cs), decide (VariantIdentsOK c.s c.cs)]

/-- `SchemaNamesOK` is the conjunction of the seven clauses -/
theorem schemaNamesOK_eq_clauses (c c' : Ctx) (op : Nat) : SchemaNamesOK c c' op = (clauses c c' op).all id := by
  rw [Bool.eq_iff_iff, schemaNamesOK_iff]
  unfold clauses OpNamesOK
  split
  · simp only [List.all_append, List.all_cons, List.all_nil, id, Bool.and_true, Bool.and_eq_true, decide_eq_true_eq]
    constructor
    · rintro ⟨h, h1, h2⟩
      exact ⟨⟨h.decl, h.kw, h.inj, h.fixed, h.paths⟩, h1, h2⟩
    · rintro ⟨⟨a, b, c, d, e⟩, h1, h2⟩
      exact ⟨⟨a, b, c, d, e⟩, h1, h2⟩
  · simp only [List.all_append, List.all_cons, List.all_nil, id, Bool.and_true, Bool.and_eq_true, decide_eq_true_eq, true_and]

end C09S
end GqlVerif
