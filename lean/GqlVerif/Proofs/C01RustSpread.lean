import GqlVerif.Proofs.C01Rust
import GqlVerif.Proofs.C01VariantSpreadG
/-!
# C01 / C03 end to end for `VariantSpreadOp` / `VariantSpreadOp2` under `normalization = rust`, by transfer (P30)

The end-to-end theorems of the classes `VariantSpreadOp` (`C01VariantSpread{A,B,T,C,D,E,H,}`) and `VariantSpreadOp2`
(`C01VariantSpread{F,G}`) require `c.o.normalization = none` (through `moduleOk`).  `C01Rust.lean` composes the `none`
theorems of the older classes with C09's `normalization_wire_invariant_of_names` (`transfer_accepts`, `transfer_roundtrip`,
`transfer_lossless`, `transfer_okB`); this file does the same for the two spread classes.

For `c₀` (the `none` context, e.g. `noNorm c₁`), `c₁` (any context with `NormAgree c₀ c₁`, e.g. `normalization = rust`),
`items₀` / `items₁` the two generated modules and `W : RustSide c₀ c₁ opIdx items₀ items₁`:

* `variantspread_accepts_rust`, `variantspread_roundtrip_rust`, `variantspread_lossless_rust`,
  `variantspread_precise_iff_rust`, `variantspread_content_rust`, `variantspread_roundtrip_noB_rust` (`VariantSpreadOp`);
* `variantspread2_accepts_rust`, `variantspread2_roundtrip_rust`, `variantspread2_lossless_rust`,
  `variantspread2_precise_iff_rust`, `variantspread2_content_rust` (`VariantSpreadOp2`).

`c₁`'s module is read in `moduleEnvN c₁ items₁` (externs under the names the module's aliases refer to, see `C01Rust`).
The right-hand sides — `normJson (canonSelD c₀.s c₀.q c₀.o.skipNone … j)`, `conformsLooseS c₀.s c₀.q c₀.o …`,
`SameContent c₀.o.skipNone` — are functions of the schema, the query and of options that `NormAgree` keeps; they do not
mention Rust names.  With `c₀ := noNorm c₁` every `c₀.s`, `c₀.q`, `c₀.o.skipNone` is definitionally `c₁`'s, and
the `c₀.o` of the acceptance statements is `c₁.o` with `normalization := none` (as in `C01Rust.lean`).

Hypotheses (exactly; no new side condition, the union of those of the two theorems composed):
* of the `none` theorem, on `c₀` / `items₀`: `c₀.q.operations[opIdx]? = some op`, `VariantSpreadOp c₀ op` (resp.
  `VariantSpreadOp2 c₀ op`), `moduleOk c₀ items₀`, and for the round trip `spreadRustOkD c₀ op` (resp.
  `spreadRustOkD c₀ (normOp op)`), `conformsOpS c₀ op j`;
* of C09N, packed in `RustSide c₀ c₁ opIdx items₀ items₁` (`WireSide` at `customExterns c₀` / `customExternsN c₁`):
  `NormAgree c₀ c₁`, `IdStable c₀ c₁`, `responseForQuery c₀ opIdx = .ok items₀`, `responseForQuery c₁ opIdx = .ok items₁`,
  same-shape externs (automatic: `customExterns_sameShape`), `NamesInjective (moduleEnv c₀ items₀) (moduleEnvN c₁ items₁)`,
  `EnumIdentsInjective c₀ c₁`, `FieldsWF (moduleEnv c₀ items₀)`.  `RustSide.of_noNorm` builds it from the decidable parts.

Concrete instances (`nsQuery` / `ns2Query` on `nxSchema` of `C01Rust`: `scalar date_time`, `enum mood_kind { happy very_sad }`;
under `rust` the modules say `DateTime`, `MoodKind { Happy, VerySad }`): every hypothesis is evaluated, the two modules
differ, the theorems are applied to a payload.

Nothing is left unproved.
-/
set_option linter.unusedSimpArgs false
namespace GqlVerif
namespace C01
namespace E2E
open Serde Spec C13 C03 Codegen C09N

section SpreadClasses
variable {c₀ c₁ : Ctx} {opIdx : Nat} {op : ROperation} {items₀ items₁ : List Item}
  (W : RustSide c₀ c₁ opIdx items₀ items₁)
include W

/-! ## `VariantSpreadOp` -/

/-- **`variantspread_accepts_rust`**: every conforming response is accepted by `c₁`'s `ResponseData` -/
theorem variantspread_accepts_rust (hop : c₀.q.operations[opIdx]? = some op) (ht : VariantSpreadOp c₀ op = true)
    (hok : moduleOk c₀ items₀ = true) (j : Json) (hc : conformsOpS c₀ op j = true) :
    ∃ v, Serde.de (moduleEnvN c₁ items₁) (.path "ResponseData") j = .ok v :=
  transfer_accepts W j (variantspread_accepts c₀ opIdx op items₀ hop ht W.gen₀ hok j hc)

/-- **`variantspread_roundtrip_rust`**: … and its round trip is the canonical form of the `none` context -/
theorem variantspread_roundtrip_rust (hop : c₀.q.operations[opIdx]? = some op) (ht : VariantSpreadOp c₀ op = true)
    (hok : moduleOk c₀ items₀ = true) (hr : spreadRustOkD c₀ op = true) (j : Json) (hc : conformsOpS c₀ op j = true) :
    Serde.roundtrip (moduleEnvN c₁ items₁) (.path "ResponseData") j =
      .ok (normJson (canonSelD c₀.s c₀.q c₀.o.skipNone op.sels j)) :=
  (transfer_roundtrip W j _).mp (variantspread_roundtrip c₀ opIdx op items₀ hop ht W.gen₀ hok hr j hc)

/-- **`variantspread_lossless_rust`**: whatever `c₁`'s module read from a conforming response is written back as
    `normJson (canonSelD … j)` of the `none` context -/
theorem variantspread_lossless_rust (hop : c₀.q.operations[opIdx]? = some op) (ht : VariantSpreadOp c₀ op = true)
    (hok : moduleOk c₀ items₀ = true) (hr : spreadRustOkD c₀ op = true) (j : Json) (hc : conformsOpS c₀ op j = true)
    (v : Val) (hd : Serde.de (moduleEnvN c₁ items₁) (.path "ResponseData") j = .ok v) :
    Serde.ser (moduleEnvN c₁ items₁) (.path "ResponseData") v =
      .ok (normJson (canonSelD c₀.s c₀.q c₀.o.skipNone op.sels j)) :=
  transfer_lossless W j _ (variantspread_roundtrip c₀ opIdx op items₀ hop ht W.gen₀ hok hr j hc) v hd

/-- **`variantspread_roundtrip_noB_rust`**: for part (a) (`noBSpreads`) the closed form is `canonSelS … j` -/
theorem variantspread_roundtrip_noB_rust (hop : c₀.q.operations[opIdx]? = some op) (ht : VariantSpreadOp c₀ op = true)
    (hnb : noBSpreads c₀ op = true) (hok : moduleOk c₀ items₀ = true) (hr : spreadRustOkD c₀ op = true)
    (j : Json) (hc : conformsOpS c₀ op j = true) :
    Serde.roundtrip (moduleEnvN c₁ items₁) (.path "ResponseData") j =
      .ok (canonSelS c₀.s c₀.q c₀.o.skipNone op.sels j) :=
  (transfer_roundtrip W j _).mp (variantspread_roundtrip_noB c₀ opIdx op items₀ hop ht hnb W.gen₀ hok hr j hc)

/-- **`variantspread_precise_iff_rust`** (C03): `c₁`'s `ResponseData` accepts `j` iff `conformsLooseS … false … j` -/
theorem variantspread_precise_iff_rust (hop : c₀.q.operations[opIdx]? = some op) (ht : VariantSpreadOp c₀ op = true)
    (hok : moduleOk c₀ items₀ = true) (j : Json) :
    okB (Serde.de (moduleEnvN c₁ items₁) (.path "ResponseData") j) = conformsLooseS c₀.s c₀.q c₀.o false op.sels j :=
  (transfer_okB W j).trans (variantspread_precise_iff c₀ opIdx op items₀ hop ht W.gen₀ hok j)

/-- **`variantspread_content_rust`**: the round trip through `c₁`'s module returns a response with the same content -/
theorem variantspread_content_rust (hop : c₀.q.operations[opIdx]? = some op) (ht : VariantSpreadOp c₀ op = true)
    (hok : moduleOk c₀ items₀ = true) (hr : spreadRustOkD c₀ op = true) (j : Json) (hc : conformsOpS c₀ op j = true) :
    ∃ j', Serde.roundtrip (moduleEnvN c₁ items₁) (.path "ResponseData") j = .ok j' ∧ SameContent c₀.o.skipNone j j' :=
  let ⟨j', h, hs⟩ := variantspread_roundtrip_content c₀ opIdx op items₀ hop ht W.gen₀ hok hr j hc
  ⟨j', (transfer_roundtrip W j j').mp h, hs⟩

/-! ## `VariantSpreadOp2` -/

/-- **`variantspread2_accepts_rust`** -/
theorem variantspread2_accepts_rust (hop : c₀.q.operations[opIdx]? = some op) (ht : VariantSpreadOp2 c₀ op = true)
    (hok : moduleOk c₀ items₀ = true) (j : Json) (hc : conformsOpS c₀ op j = true) :
    ∃ v, Serde.de (moduleEnvN c₁ items₁) (.path "ResponseData") j = .ok v :=
  transfer_accepts W j (variantspread2_accepts c₀ opIdx op items₀ hop ht W.gen₀ hok j hc)

/-- **`variantspread2_roundtrip_rust`** -/
theorem variantspread2_roundtrip_rust (hop : c₀.q.operations[opIdx]? = some op) (ht : VariantSpreadOp2 c₀ op = true)
    (hok : moduleOk c₀ items₀ = true) (hr : spreadRustOkD c₀ (normOp op) = true) (j : Json)
    (hc : conformsOpS c₀ op j = true) :
    Serde.roundtrip (moduleEnvN c₁ items₁) (.path "ResponseData") j =
      .ok (normJson (canonSelD c₀.s c₀.q c₀.o.skipNone (normSels op.sels) j)) :=
  (transfer_roundtrip W j _).mp (variantspread2_roundtrip c₀ opIdx op items₀ hop ht W.gen₀ hok hr j hc)

/-- **`variantspread2_lossless_rust`** -/
theorem variantspread2_lossless_rust (hop : c₀.q.operations[opIdx]? = some op) (ht : VariantSpreadOp2 c₀ op = true)
    (hok : moduleOk c₀ items₀ = true) (hr : spreadRustOkD c₀ (normOp op) = true) (j : Json)
    (hc : conformsOpS c₀ op j = true) (v : Val)
    (hd : Serde.de (moduleEnvN c₁ items₁) (.path "ResponseData") j = .ok v) :
    Serde.ser (moduleEnvN c₁ items₁) (.path "ResponseData") v =
      .ok (normJson (canonSelD c₀.s c₀.q c₀.o.skipNone (normSels op.sels) j)) :=
  transfer_lossless W j _ (variantspread2_roundtrip c₀ opIdx op items₀ hop ht W.gen₀ hok hr j hc) v hd

/-- **`variantspread2_precise_iff_rust`** (C03) -/
theorem variantspread2_precise_iff_rust (hop : c₀.q.operations[opIdx]? = some op) (ht : VariantSpreadOp2 c₀ op = true)
    (hok : moduleOk c₀ items₀ = true) (j : Json) :
    okB (Serde.de (moduleEnvN c₁ items₁) (.path "ResponseData") j) =
      conformsLooseS c₀.s c₀.q c₀.o false (normSels op.sels) j :=
  (transfer_okB W j).trans (variantspread2_precise_iff c₀ opIdx op items₀ hop ht W.gen₀ hok j)

/-- **`variantspread2_content_rust`** -/
theorem variantspread2_content_rust (hop : c₀.q.operations[opIdx]? = some op) (ht : VariantSpreadOp2 c₀ op = true)
    (hok : moduleOk c₀ items₀ = true) (hr : spreadRustOkD c₀ (normOp op) = true) (j : Json)
    (hc : conformsOpS c₀ op j = true) :
    ∃ j', Serde.roundtrip (moduleEnvN c₁ items₁) (.path "ResponseData") j = .ok j' ∧ SameContent c₀.o.skipNone j j' :=
  let ⟨j', h, hs⟩ := variantspread2_roundtrip_content c₀ opIdx op items₀ hop ht W.gen₀ hok hr j hc
  ⟨j', (transfer_roundtrip W j j').mp h, hs⟩

end SpreadClasses

/-! ## concrete instances: every hypothesis holds, the two modules differ in names, the theorems apply

Schema `nxSchema` / contexts `nxCtx q` (`normalization = rust`) and `noNorm (nxCtx q)` of `C01Rust.lean`:
`interface Character { name: String! }`, `type Human implements Character { name born: date_time mood: mood_kind! friend }`,
`type Droid implements Character { name }`, `enum mood_kind { happy very_sad }`, `scalar date_time`,
`type Query { hero: Character, me: Human }`; under `rust`: `MoodKind { Happy, VerySad }`, `DateTime = super::DateTime`.
Fragments `HM on Human { born mood }`, `CN on Character { name __typename }`, `HN on Human { name }`.
Both modules are generated by the model (`C09N.itemsOf`); every hypothesis is evaluated (`decide +kernel`). -/

def nsFrags : List RFragment :=
  [{ name := "HM", on := .object 1, sels := [.field none 3 [], .field none 4 []] },
   { name := "CN", on := .interface 0, sels := [.field none 2 [], .typename] },
   { name := "HN", on := .object 1, sels := [.field none 2 []] }]

macro "ns_confS_eval" : tactic => `(tactic|
  simp [conformsOpS, noNorm, nxCtx, nsFrags, expandSels, expandSel, conformsV, confSelsV, confSelV,
    keysSelsV, keysSelV, fragApplies, rtName, nxSchema, Json.lookup, accepts, acceptsNN, gtyOf, scalarOk, floatOk, stringOk,
    Json.isNull, EnumSpec.nodup, List.range, List.range.loop, conformsAt])

macro "ns_canonD_eval" : tactic => `(tactic|
  simp [canonSelD, canonEntriesD, canonFieldD, loneG, canonEntriesBD, canonVarD, onNamed, absEntries, absRest, hasStruct,
    isBSpread, isFieldSel, canonAbsV, canonEntriesV, canonFieldV, canonInlV, tagName, nsFrags,
    nxSchema, objName, rtName, fieldKeys, fieldKey, Json.lookup, canon, canonNN, gtyOf, Json.isNull, skipQ,
    normJson, normKvs, normList, Json.normObj, Json.insert])

macro "ns_looseS_eval" : tactic => `(tactic|
  simp [conformsLooseS, looseSelsS, looseArrS, looseFieldS, loneG, loosePayS, looseMemS, looseMemB, absRest, hasStruct,
    isBSpread, conformsLooseAbs, loosePayV, looseSelsV, looseFieldV, tagOkV, noNorm, nxCtx, nsFrags, nxSchema,
    vtsOfTy, Schema.implementors, objName, rtName, isFieldSel, fieldKeys, fieldKey,
    Json.lookup, accepts, acceptsNN, gtyOf, scalarOk, floatOk, stringOk, Json.isNull, nullableQ, countKey,
    List.zipIdx])

/-! ### `VariantSpreadOp`, parts (a) and (b): `query Q { hero { __typename ...CN ... on Human { b2: born } ...HM } }` -/

def nsOp : ROperation :=
  { name := "Q", kind := .query, objectId := 0,
    sels := [.field none 0 [.typename, .spread 1, .inline (.object 1) [.field (some "b2") 3 []], .spread 0]] }
def nsQuery : Query := { operations := [nsOp], fragments := nsFrags }

set_option maxRecDepth 100000 in
/-- `RustSide` (i.e. `IdStable`, both generations, `NamesInjective`, `EnumIdentsInjective`, `FieldsWF`; `NormAgree` and the
    shape of the externs by construction), `moduleOk` of the `none` module, and the two modules differ -/
theorem ns_ok : NxOk nsQuery :=
  ⟨RustSide.of_noNorm (by decide +kernel) (itemsOf_ok (by decide +kernel)) (itemsOf_ok (by decide +kernel))
    (by decide +kernel) (by decide +kernel) (by decide +kernel), by decide +kernel, by decide +kernel⟩

set_option maxRecDepth 100000 in
/-- the operation is in the class, spreads a fragment on the abstract type itself (`...CN`: part (b)) and one on a possible
    type (`...HM`: part (a)) -/
theorem ns_class : VariantSpreadOp (noNorm (nxCtx nsQuery)) nsOp = true ∧
    spreadRustOkD (noNorm (nxCtx nsQuery)) nsOp = true ∧ noBSpreads (noNorm (nxCtx nsQuery)) nsOp = false :=
  ⟨by decide +kernel, by decide +kernel, by decide +kernel⟩

set_option maxRecDepth 100000 in
/-- **the two modules really differ in names**: the fragment struct `HM` refers to `date_time` / `mood_kind` in the `none`
    module and to `DateTime` / `MoodKind` in the `rust` module, whose alias `DateTime` points to the extern
    `super::DateTime` (`customExternsN`), not to `super::date_time` (`customExterns`) -/
theorem ns_items_differ :
    ((moduleEnv (noNorm (nxCtx nsQuery)) (itemsOf (noNorm (nxCtx nsQuery)))).find "HM" ==
      some (.struct "HM" ["Deserialize"] (some "::serde")
        [{ rust := "born", ty := .opt (.path "date_time") }, { rust := "mood", ty := .path "mood_kind" }])) = true ∧
    ((moduleEnvN (nxCtx nsQuery) (itemsOf (nxCtx nsQuery))).find "HM" ==
      some (.struct "HM" ["Deserialize"] (some "::serde")
        [{ rust := "born", ty := .opt (.path "DateTime") }, { rust := "mood", ty := .path "MoodKind" }])) = true ∧
    ((moduleEnvN (nxCtx nsQuery) (itemsOf (nxCtx nsQuery))).find "MoodKind" ==
      some (.gqlEnum "MoodKind" [] "::serde" ["Happy", "VerySad"] [("Happy", "happy"), ("VerySad", "very_sad")]
        [("happy", "Happy"), ("very_sad", "VerySad")])) = true ∧
    ((moduleEnvN (nxCtx nsQuery) (itemsOf (nxCtx nsQuery))).find "DateTime" ==
      some (.alias "DateTime" false (.path "super::DateTime"))) = true ∧
    customExternsN (nxCtx nsQuery) = [("super::DateTime", .path "String")] ∧
    customExterns (noNorm (nxCtx nsQuery)) = [("super::date_time", .path "String")] :=
  ⟨by decide +kernel, by decide +kernel, by decide +kernel, by decide +kernel, by decide +kernel, by decide +kernel⟩

def nsJson : Json :=
  .obj [("hero", .obj [("mood", .str "very_sad"), ("b2", .str "1977"), ("__typename", .str "Human"), ("born", .str "1977"),
                       ("name", .str "Luke")])]
def nsCanon : Json :=
  .obj [("hero", .obj [("name", .str "Luke"), ("__typename", .str "Human"), ("b2", .str "1977"), ("born", .str "1977"),
                       ("mood", .str "very_sad")])]

set_option maxRecDepth 8000 in
theorem ns_conforms : conformsOpS (noNorm (nxCtx nsQuery)) nsOp nsJson = true := by
  simp only [nsOp, nsQuery, nsJson]; ns_confS_eval

set_option maxRecDepth 8000 in
theorem ns_canon : normJson (canonSelD nxSchema nsQuery false nsOp.sels nsJson) = nsCanon := by
  simp only [nsOp, nsQuery, nsJson, nsCanon]; ns_canonD_eval

/-- the `rust` module (`MoodKind::VerySad` and `DateTime` inside the flattened fragment struct `HM` behind the `Human`
    variant; `CN` flattened at the interface level) reads the reply and writes the canonical form of the `none` context -/
theorem ns_roundtrip_rust :
    Serde.roundtrip (moduleEnvN (nxCtx nsQuery) (itemsOf (nxCtx nsQuery))) (.path "ResponseData") nsJson = .ok nsCanon := by
  rw [← ns_canon]
  exact variantspread_roundtrip_rust ns_ok.1 (op := nsOp) rfl ns_class.1 ns_ok.2.1 ns_class.2.1 nsJson ns_conforms

/-- `variantspread_accepts_rust` / `variantspread_lossless_rust` / `variantspread_content_rust` on the instance -/
example : ∃ v, Serde.de (moduleEnvN (nxCtx nsQuery) (itemsOf (nxCtx nsQuery))) (.path "ResponseData") nsJson = .ok v :=
  variantspread_accepts_rust ns_ok.1 (op := nsOp) rfl ns_class.1 ns_ok.2.1 nsJson ns_conforms

example (v : Val) (hd : Serde.de (moduleEnvN (nxCtx nsQuery) (itemsOf (nxCtx nsQuery))) (.path "ResponseData") nsJson = .ok v) :
    Serde.ser (moduleEnvN (nxCtx nsQuery) (itemsOf (nxCtx nsQuery))) (.path "ResponseData") v = .ok nsCanon := by
  rw [← ns_canon]
  exact variantspread_lossless_rust ns_ok.1 (op := nsOp) rfl ns_class.1 ns_ok.2.1 ns_class.2.1 nsJson ns_conforms v hd

example : ∃ j', Serde.roundtrip (moduleEnvN (nxCtx nsQuery) (itemsOf (nxCtx nsQuery))) (.path "ResponseData") nsJson = .ok j' ∧
    SameContent false nsJson j' :=
  variantspread_content_rust ns_ok.1 (op := nsOp) rfl ns_class.1 ns_ok.2.1 ns_class.2.1 nsJson ns_conforms

set_option maxRecDepth 8000 in
/-- … and rejects a wrong kind at the enum position selected through the spread `...HM` -/
example : okB (Serde.de (moduleEnvN (nxCtx nsQuery) (itemsOf (nxCtx nsQuery))) (.path "ResponseData")
    (.obj [("hero", .obj [("__typename", .str "Human"), ("name", .str "x"), ("mood", .int 3)])])) = false := by
  rw [variantspread_precise_iff_rust ns_ok.1 (op := nsOp) rfl ns_class.1 ns_ok.2.1]
  simp only [nsOp, nsQuery]; ns_looseS_eval

set_option maxRecDepth 8000 in
/-- … rejects a reply without the non-null `name` selected through `...CN` -/
example : okB (Serde.de (moduleEnvN (nxCtx nsQuery) (itemsOf (nxCtx nsQuery))) (.path "ResponseData")
    (.obj [("hero", .obj [("__typename", .str "Droid")])])) = false := by
  rw [variantspread_precise_iff_rust ns_ok.1 (op := nsOp) rfl ns_class.1 ns_ok.2.1]
  simp only [nsOp, nsQuery]; ns_looseS_eval

set_option maxRecDepth 8000 in
/-- … and accepts one in which the nullable keys of the variant are absent -/
example : okB (Serde.de (moduleEnvN (nxCtx nsQuery) (itemsOf (nxCtx nsQuery))) (.path "ResponseData")
    (.obj [("hero", .obj [("__typename", .str "Human"), ("name", .str "x"), ("mood", .str "happy")])])) = true := by
  rw [variantspread_precise_iff_rust ns_ok.1 (op := nsOp) rfl ns_class.1 ns_ok.2.1]
  simp only [nsOp, nsQuery]; ns_looseS_eval

/-! ### `VariantSpreadOp2`: `query Q { hero { __typename ... on Human { ...HN } ... on Human { b2: born } ...HM } }` -/

def ns2Op : ROperation :=
  { name := "Q", kind := .query, objectId := 0,
    sels := [.field none 0 [.typename, .inline (.object 1) [.spread 2], .inline (.object 1) [.field (some "b2") 3 []],
                            .spread 0]] }
def ns2Query : Query := { operations := [ns2Op], fragments := nsFrags }

set_option maxRecDepth 100000 in
theorem ns2_ok : NxOk ns2Query :=
  ⟨RustSide.of_noNorm (by decide +kernel) (itemsOf_ok (by decide +kernel)) (itemsOf_ok (by decide +kernel))
    (by decide +kernel) (by decide +kernel) (by decide +kernel), by decide +kernel, by decide +kernel⟩

set_option maxRecDepth 100000 in
/-- in `VariantSpreadOp2`, not in `VariantSpreadOp` -/
theorem ns2_class : VariantSpreadOp2 (noNorm (nxCtx ns2Query)) ns2Op = true ∧
    spreadRustOkD (noNorm (nxCtx ns2Query)) (normOp ns2Op) = true ∧
    VariantSpreadOp (noNorm (nxCtx ns2Query)) ns2Op = false :=
  ⟨by decide +kernel, by decide +kernel, by decide +kernel⟩

theorem ns2_norm : normSels ns2Op.sels =
    [.field none 0 [.typename, .inline (.object 1) [.field (some "b2") 3 []], .spread 0, .spread 2]] := by
  simp [normSels, keepN, movedN, normSel, aliasInl, ns2Op]

set_option maxRecDepth 100000 in
/-- the variant struct of `Human` in the `rust` module: `b2: Option<DateTime>`, then the members for `...HM` and — last — for
    `... on Human { ...HN }`; in the `none` module `b2: Option<date_time>` -/
theorem ns2_items_differ :
    ((moduleEnvN (nxCtx ns2Query) (itemsOf (nxCtx ns2Query))).find "QheroOnHuman" ==
      some (.struct "QheroOnHuman" ["Deserialize"] (some "::serde")
        [{ rust := "b2", ty := .opt (.path "DateTime") },
         { rust := "HM", ty := .path "HM", flatten := true },
         { rust := "HN", ty := .path "HN", flatten := true }])) = true ∧
    ((moduleEnv (noNorm (nxCtx ns2Query)) (itemsOf (noNorm (nxCtx ns2Query)))).find "QheroOnHuman" ==
      some (.struct "QheroOnHuman" ["Deserialize"] (some "::serde")
        [{ rust := "b2", ty := .opt (.path "date_time") },
         { rust := "HM", ty := .path "HM", flatten := true },
         { rust := "HN", ty := .path "HN", flatten := true }])) = true :=
  ⟨by decide +kernel, by decide +kernel⟩

def ns2Json : Json :=
  .obj [("hero", .obj [("mood", .str "very_sad"), ("name", .str "Luke"), ("__typename", .str "Human"), ("born", .null),
                       ("b2", .null)])]
def ns2Canon : Json :=
  .obj [("hero", .obj [("__typename", .str "Human"), ("b2", .null), ("born", .null), ("mood", .str "very_sad"),
                       ("name", .str "Luke")])]

set_option maxRecDepth 8000 in
theorem ns2_conforms : conformsOpS (noNorm (nxCtx ns2Query)) ns2Op ns2Json = true := by
  simp only [ns2Op, ns2Query, ns2Json]; ns_confS_eval

set_option maxRecDepth 8000 in
theorem ns2_canon : normJson (canonSelD nxSchema ns2Query false (normSels ns2Op.sels) ns2Json) = ns2Canon := by
  rw [ns2_norm]
  simp only [ns2Query, ns2Json, ns2Canon]; ns_canonD_eval

/-- the `rust` module reads the reply and writes the canonical form of the `none` context: the entries of
    `... on Human { ...HN }` last -/
theorem ns2_roundtrip_rust :
    Serde.roundtrip (moduleEnvN (nxCtx ns2Query) (itemsOf (nxCtx ns2Query))) (.path "ResponseData") ns2Json = .ok ns2Canon := by
  rw [← ns2_canon]
  exact variantspread2_roundtrip_rust ns2_ok.1 (op := ns2Op) rfl ns2_class.1 ns2_ok.2.1 ns2_class.2.1 ns2Json ns2_conforms

example : ∃ v, Serde.de (moduleEnvN (nxCtx ns2Query) (itemsOf (nxCtx ns2Query))) (.path "ResponseData") ns2Json = .ok v :=
  variantspread2_accepts_rust ns2_ok.1 (op := ns2Op) rfl ns2_class.1 ns2_ok.2.1 ns2Json ns2_conforms

example (v : Val)
    (hd : Serde.de (moduleEnvN (nxCtx ns2Query) (itemsOf (nxCtx ns2Query))) (.path "ResponseData") ns2Json = .ok v) :
    Serde.ser (moduleEnvN (nxCtx ns2Query) (itemsOf (nxCtx ns2Query))) (.path "ResponseData") v = .ok ns2Canon := by
  rw [← ns2_canon]
  exact variantspread2_lossless_rust ns2_ok.1 (op := ns2Op) rfl ns2_class.1 ns2_ok.2.1 ns2_class.2.1 ns2Json ns2_conforms v hd

example : ∃ j', Serde.roundtrip (moduleEnvN (nxCtx ns2Query) (itemsOf (nxCtx ns2Query))) (.path "ResponseData") ns2Json = .ok j' ∧
    SameContent false ns2Json j' :=
  variantspread2_content_rust ns2_ok.1 (op := ns2Op) rfl ns2_class.1 ns2_ok.2.1 ns2_class.2.1 ns2Json ns2_conforms

set_option maxRecDepth 8000 in
/-- … and rejects a reply that misses the non-null `name` selected through `... on Human { ...HN }` -/
example : okB (Serde.de (moduleEnvN (nxCtx ns2Query) (itemsOf (nxCtx ns2Query))) (.path "ResponseData")
    (.obj [("hero", .obj [("__typename", .str "Human"), ("mood", .str "happy")])])) = false := by
  rw [variantspread2_precise_iff_rust ns2_ok.1 (op := ns2Op) rfl ns2_class.1 ns2_ok.2.1, ns2_norm]
  simp only [ns2Query]; ns_looseS_eval

end E2E
end C01
end GqlVerif
