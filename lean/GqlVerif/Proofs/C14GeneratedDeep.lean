import GqlVerif.Proofs.C14GeneratedTree
/-!
# P26 (3/4, part 2) — C14 end to end: the denied keys, erased at every depth, change nothing — for EVERY payload

For an operation of the class `TreeOpD` (part 1) and the module `responseForQuery` emits for it:

* `dropKeys c sels` — the response keys of the selections of `sels` that are omitted (deprecated under `deny`) and are
  not also the key of a kept sibling;
* `eraseDenied c op j` — `j` with, in the object of every selection set reached through *kept* object-typed fields
  (through `null`, through lists exactly as deep as the field's list modifiers), every entry of a `dropKeys` key
  removed.  Defined on the schema / selection side only (`eraseObj`, `eraseInSel`, `eraseEntry`, `thruQuals`) — no
  reference to the generated items;
* **`denied_field_payload_same`** — `Serde.de (moduleEnv c items) ResponseData j =
  Serde.de (moduleEnv c items) ResponseData (eraseDenied c op j)` for **every** JSON value `j` (conforming or not:
  both sides are the same value or the same error), under: `TreeOpD`, `responseForQuery = .ok items`, item names
  pairwise distinct, `EnvOK (moduleEnv c items)` (decidable sufficient check `acyclicCheck` / `rankCheck`; proved
  for the class in `C14GeneratedAcyclic` if present);
  `denied_field_payload_same_dePath` — the same for `dePath` at any fuel, without `EnvOK`;
* `eraseObj_keys` — what the eraser does to the keys of an object: exactly the `dropKeys` entries go.
-/
set_option linter.unusedSimpArgs false
set_option linter.unusedSectionVars false

namespace GqlVerif
namespace C14G
open Serde Composed SerdeFuel Codegen C13 C01 C01.E2E

/-! ## the eraser (schema / selection side) -/

/-- apply `g` below the list modifiers of a field type: at the value itself, or at every element of the lists nested
    exactly as the type says (`null` and anything unexpected is left alone) -/
def thruQuals (g : Json → Json) : List Qual → Json → Json
  | [], j => g j
  | .required :: qs, j => thruQuals g qs j
  | .list :: qs, .arr xs => .arr (xs.map (thruQuals g qs))
  | .list :: _, j => j

/-- the keys to erase in the object of the selection set `sels`: keys of omitted selections that no kept selection uses -/
def dropKeys (c : Ctx) (sels : List Sel) : List String :=
  (deniedKeys c sels).filter (fun k => !(keptKeys c sels).contains k)

mutual
  /-- the value of the entry of the (kept) selection `x` -/
  def eraseInSel (c : Ctx) : Sel → Json → Json
    | .field _ fid sub, v =>
      match c.s.fields[fid]? with
      | some sf => (match sf.ty.id with
        | .object _ => thruQuals (fun j => match j with
            | .obj kvs => .obj ((eraseKeys (dropKeys c sub) kvs).map (fun kv => (kv.1, eraseEntry c sub kv.1 kv.2)))
            | j => j) sf.ty.quals v
        | _ => v)
      | none => v
    | _, v => v
  /-- the value of the entry with key `key` in the object of the selection set: that of the first kept selection with
      this response key -/
  def eraseEntry (c : Ctx) : List Sel → String → Json → Json
    | [], _, v => v
    | x :: xs, key, v => if keptKey c x = some key then eraseInSel c x v else eraseEntry c xs key v
end

/-- the object of the selection set `sels`: the `dropKeys` entries removed, the others erased inside -/
def eraseObj (c : Ctx) (sels : List Sel) : Json → Json
  | .obj kvs => .obj ((eraseKeys (dropKeys c sels) kvs).map (fun kv => (kv.1, eraseEntry c sels kv.1 kv.2)))
  | j => j

/-- **the payload with the denied keys erased at every depth** -/
def eraseDenied (c : Ctx) (op : ROperation) (j : Json) : Json := eraseObj c op.sels j

theorem eraseInSel_object {c : Ctx} {a : Option String} {fid : Nat} {sub : List Sel} {sf : StoredField} {i : Nat}
    (hsf : c.s.fields[fid]? = some sf) (hid : sf.ty.id = .object i) (v : Json) :
    eraseInSel c (.field a fid sub) v = thruQuals (eraseObj c sub) sf.ty.quals v := by
  rw [eraseInSel]
  simp only [hsf, hid]
  congr 1

theorem eraseInSel_leaf {c : Ctx} {a : Option String} {fid : Nat} {sub : List Sel} {sf : StoredField}
    (hsf : c.s.fields[fid]? = some sf) (hid : ∀ i, sf.ty.id ≠ .object i) (v : Json) :
    eraseInSel c (.field a fid sub) v = v := by
  cases h : sf.ty.id with
  | object i => exact absurd h (hid i)
  | _ => simp [eraseInSel, hsf, h]

/-- what the eraser does to the keys of an object: exactly the entries of the `dropKeys` go -/
theorem eraseObj_keys (c : Ctx) (sels : List Sel) (kvs : List (String × Json)) :
    (kvsOf (eraseObj c sels (.obj kvs))).map (·.1) = (kvs.map (·.1)).filter (fun k => !(dropKeys c sels).contains k) := by
  simp only [eraseObj, kvsOf, eraseKeys, List.map_map]
  rw [List.filter_map]
  rfl

/-! ## lifting a per-object `Sim` through the field's type -/

theorem sim_elems_map {e : Env} {t : RTy} {h : Json → Json} (hh : ∀ x, Sim e (.ty t) x (h x)) :
    ∀ xs : List Json, Sim e (.elems t) (.arr xs) (.arr (xs.map h))
  | [] => .refl _ _
  | x :: xs => .cons (hh x) (sim_elems_map hh xs)

theorem sim_thruQuals {e : Env} {n : String} {g : Json → Json} (hg : ∀ j, Sim e (.named n) j (g j)) :
    ∀ (qs : List Qual) (j : Json), Sim e (.ty (rustOf (.path n) (gtyOf qs))) j (thruQuals g qs j) ∧
      Sim e (.ty (rustOfNN (.path n) (gtyOf qs))) j (thruQuals g qs j)
  | [], j => by
    simp only [gtyOf, rustOf, rustOfNN, thruQuals]
    exact ⟨.opt (.path (hg j)), .path (hg j)⟩
  | .required :: qs, j => by
    simp only [gtyOf, rustOf, rustOfNN, thruQuals]
    exact ⟨(sim_thruQuals hg qs j).2, (sim_thruQuals hg qs j).2⟩
  | .list :: qs, j => by
    simp only [gtyOf, rustOf, rustOfNN]
    cases j with
    | arr xs =>
      simp only [thruQuals]
      have := sim_elems_map (fun x => (sim_thruQuals hg qs x).1) xs
      exact ⟨.opt (.vec this), .vec this⟩
    | null => exact ⟨.refl _ _, .refl _ _⟩
    | bool _ => exact ⟨.refl _ _, .refl _ _⟩
    | int _ => exact ⟨.refl _ _, .refl _ _⟩
    | num _ => exact ⟨.refl _ _, .refl _ _⟩
    | str _ => exact ⟨.refl _ _, .refl _ _⟩
    | obj _ => exact ⟨.refl _ _, .refl _ _⟩

/-! ## one object -/

theorem eq_of_wire_eq : ∀ {fs : List RField}, (fs.map (·.wire)).Nodup → ∀ {f g : RField}, f ∈ fs → g ∈ fs →
    g.wire = f.wire → g = f
  | [], _, _, _, hf, _, _ => by simp at hf
  | a :: rest, hnd, f, g, hf, hg, hw => by
    simp only [List.map_cons, List.nodup_cons] at hnd
    rcases List.mem_cons.mp hf with rfl | hf' <;> rcases List.mem_cons.mp hg with rfl | hg'
    · rfl
    · exact absurd (List.mem_map.mpr ⟨g, hg', hw⟩) hnd.1
    · exact absurd (List.mem_map.mpr ⟨f, hf', hw.symm⟩) hnd.1
    · exact eq_of_wire_eq hnd.2 hf' hg' hw

/-- what the descent needs to know about an entry: left alone, or read by a member at whose type the two values are related -/
def EntryOK (e : Env) (c : Ctx) (pfx : String) (sels : List Sel) : Prop :=
  ∀ key v, eraseEntry c sels key v = v ∨
    ∃ f ∈ fieldsOfD c pfx sels, f.wire = key ∧ f.deserWith = none ∧ Sim e (.ty f.ty) v (eraseEntry c sels key v)

theorem sim_entries {e : Env} {c : Ctx} {pfx : String} {sels : List Sel} (ht : treeSelsD c sels = true)
    (hnd : EnumSpec.nodup (keptKeys c sels) = true) (H : EntryOK e c pfx sels) :
    ∀ kvs : List (String × Json), Sim e (.entries (fieldsOfD c pfx sels)) (.obj kvs)
      (.obj (kvs.map (fun kv => (kv.1, eraseEntry c sels kv.1 kv.2))))
  | [] => .refl _ _
  | (key, v) :: rest => by
    have ih := sim_entries ht hnd H rest
    simp only [List.map_cons]
    rcases H key v with h | ⟨f, hf, hw, hdw, hs⟩
    · rw [h]; exact .keep ih
    · subst hw
      have hwires : ((fieldsOfD c pfx sels).map (·.wire)).Nodup := by
        rw [fieldsOfD_wires c pfx sels ht]; exact nodup_iff'.mp hnd
      exact .field hf (wire_mem_keptKeys hf).2 hdw (fun g hg _ hgw => eq_of_wire_eq hwires hf hg hgw) hs ih

/-- **one selection set**: the object read at its struct, with the `dropKeys` entries removed and the other entries
    erased inside, is `Sim`-related to the original -/
theorem sim_eraseObj {e : Env} {c : Ctx} {name pfx : String} {d : List String} {sc : Option String} {sels : List Sel}
    (hfind : e.find name = some (.struct name d sc (fieldsOfD c pfx sels))) (ht : treeSelsD c sels = true)
    (hnd : EnumSpec.nodup (keptKeys c sels) = true) (H : EntryOK e c pfx sels) :
    ∀ j, Sim e (.named name) j (eraseObj c sels j) := by
  intro j
  cases j with
  | obj kvs =>
    rw [eraseObj]
    refine .trans (Sim.eraseKeys (dropKeys c sels) kvs ?_) (.struct hfind (sim_entries ht hnd H _))
    intro k hk
    have hk' : k ∉ keptKeys c sels := by
      simp only [dropKeys, List.mem_filter, Bool.not_eq_true', List.contains_eq_mem, decide_eq_false_iff_not] at hk
      exact hk.2
    exact keyFree_of_struct hfind (fun f hf => (wire_mem_keptKeys hf).2)
      (fun f hf hw => hk' (hw ▸ (wire_mem_keptKeys hf).1))
  | null => exact .refl _ _
  | bool _ => exact .refl _ _
  | int _ => exact .refl _ _
  | num _ => exact .refl _ _
  | str _ => exact .refl _ _
  | arr _ => exact .refl _ _

/-! ## the whole tree -/

mutual
  /-- the structs of the sub-selections are what their names resolve to (and none is called `ID`) -/
  def envSelD (e : Env) (c : Ctx) (pfx : String) : Sel → Prop
    | .field a fid sub =>
      match c.s.fields[fid]? with
      | none => True
      | some sf =>
        match sf.ty.id with
        | .object _ =>
          (∃ d sc, e.find (pfx ++ c.cs.camel (a.getD sf.name)) =
              some (.struct (pfx ++ c.cs.camel (a.getD sf.name)) d sc (fieldsOfD c (pfx ++ c.cs.camel (a.getD sf.name)) sub))) ∧
          pfx ++ c.cs.camel (a.getD sf.name) ≠ "ID" ∧
          envSelsD e c (pfx ++ c.cs.camel (a.getD sf.name)) sub
        | _ => True
    | _ => True
  def envSelsD (e : Env) (c : Ctx) (pfx : String) : List Sel → Prop
    | [] => True
    | x :: xs => envSelD e c pfx x ∧ envSelsD e c pfx xs
end

mutual
  theorem simSel {e : Env} {c : Ctx} : ∀ (x : Sel) (pfx : String), treeSelD c x = true → envSelD e c pfx x →
      ∀ f, fieldOfSelD c pfx x = some f → ∀ v, Sim e (.ty f.ty) v (eraseInSel c x v)
    | .field a fid sub, pfx => by
      intro ht henv f hf v
      have IH := simSels (e := e) (c := c) sub
      rw [treeSelD] at ht
      rw [envSelD] at henv
      simp only [fieldOfSelD] at hf
      cases hsf : c.s.fields[fid]? with
      | none => simp [hsf] at ht
      | some sf =>
        simp only [hsf, Bool.and_eq_true] at ht henv hf
        by_cases hd : isDenied c sf = true
        · simp [hd] at hf
        · simp only [hd, Bool.false_eq_true, ↓reduceIte] at hf
          cases hid : sf.ty.id with
          | object i =>
            simp only [hid, Bool.and_eq_true] at ht henv
            simp only [hid, leafName, Option.some.injEq] at hf
            subst hf
            obtain ⟨⟨d, sc, hfind⟩, _, hsub⟩ := henv
            rw [eraseInSel_object hsf hid]
            exact (sim_thruQuals (sim_eraseObj hfind ht.2.1.2 ht.2.2 (IH _ ht.2.1.2 hsub)) sf.ty.quals v).1
          | scalar k => rw [eraseInSel_leaf hsf (by simp [hid])]; exact .refl _ _
          | enum k => rw [eraseInSel_leaf hsf (by simp [hid])]; exact .refl _ _
          | interface k => simp [hid] at ht
          | union k => simp [hid] at ht
          | input k => simp [hid] at ht
    | .spread _, _ => by intro ht; simp [treeSelD] at ht
    | .inline _ _, _ => by intro ht; simp [treeSelD] at ht
    | .typename, _ => by intro _ _ f hf; simp [fieldOfSelD] at hf
  theorem simSels {e : Env} {c : Ctx} : ∀ (xs : List Sel) (pfx : String), treeSelsD c xs = true → envSelsD e c pfx xs →
      EntryOK e c pfx xs
    | [], _ => by intro _ _ key v; exact .inl (by rw [eraseEntry])
    | x :: xs, pfx => by
      intro ht henv key v
      obtain ⟨hx, hxs⟩ := treeSelsD_cons ht
      rw [envSelsD] at henv
      rw [eraseEntry]
      by_cases hk : keptKey c x = some key
      · rw [if_pos hk]
        -- `x` is a kept field selection with response key `key`
        cases x with
        | field a fid sub =>
          have hx' := hx
          rw [treeSelD] at hx'
          simp only [keptKey] at hk
          cases hsf : c.s.fields[fid]? with
          | none => simp [hsf] at hx'
          | some sf =>
            simp only [hsf, Bool.and_eq_true] at hx' hk
            by_cases hd : isDenied c sf = true
            · simp [hd] at hk
            · simp only [hd, Bool.false_eq_true, ↓reduceIte, Option.some.injEq] at hk
              cases hid : sf.ty.id with
              | object i =>
                right
                have hfx : fieldOfSelD c pfx (.field a fid sub) =
                    some (fieldOf c (a.getD sf.name) (pfx ++ c.cs.camel (a.getD sf.name)) sf.ty.quals sf.deprecation) := by
                  simp [fieldOfSelD, hsf, hd, hid, leafName]
                have hne : pfx ++ c.cs.camel (a.getD sf.name) ≠ "ID" := by
                  have := henv.1
                  rw [envSelD] at this
                  simp only [hsf, hid] at this
                  exact this.2.1
                refine ⟨_, ?_, ?_, ?_, simSel _ pfx hx henv.1 _ hfx v⟩
                · simp only [fieldsOfD, List.filterMap_cons, hfx, List.mem_cons, true_or]
                · rw [fieldOf_wire]; exact hk
                · simp [fieldOf, hne]
              | scalar k => left; exact eraseInSel_leaf hsf (by simp [hid]) v
              | enum k => left; exact eraseInSel_leaf hsf (by simp [hid]) v
              | interface k => simp [hid] at hx'
              | union k => simp [hid] at hx'
              | input k => simp [hid] at hx'
        | spread g => simp [keptKey] at hk
        | inline t sub => simp [keptKey] at hk
        | typename => simp [keptKey] at hk
      · rw [if_neg hk]
        rcases simSels xs pfx hxs henv.2 key v with h | ⟨f, hf, h⟩
        · exact .inl h
        · refine .inr ⟨f, ?_, h⟩
          simp only [fieldsOfD, List.filterMap_cons] at hf ⊢
          cases fieldOfSelD c pfx x with
          | none => exact hf
          | some f' => exact List.mem_cons_of_mem _ hf
end

/-! ## the environment of the emitted module -/

theorem struct_name_ne_ID (c : Ctx) {items : List Item} (hnd : (items.map (·.name)).Nodup) (hb : ∀ it ∈ builtinAliases, it ∈ items)
    {n : String} {d : List String} {sc : Option String} {fs : List RField} (hmem : Item.struct n d sc fs ∈ items) : n ≠ "ID" := by
  intro h
  have h1 := find_of_mem (customExterns c) hnd hmem
  have h2 := find_of_mem (customExterns c) hnd (hb (.alias "ID" false (.path "String")) (by simp [builtinAliases]))
  have h3 : (Item.struct n d sc fs).name = "ID" := h
  have h4 : (Item.alias "ID" false (.path "String")).name = "ID" := rfl
  rw [h3] at h1
  rw [h4, h1] at h2
  cases h2

section EnvOfItems
variable {c : Ctx} {items : List Item}

mutual
  theorem envSelD_of (hnd : (items.map (·.name)).Nodup) (hb : ∀ it ∈ builtinAliases, it ∈ items) :
      ∀ (x : Sel) (pfx : String), (∀ it ∈ itemsOfSelD c pfx x, it ∈ items) → envSelD (moduleEnv c items) c pfx x
    | .field a fid sub, pfx => by
      intro hit
      have IH := envSelsD_of hnd hb sub
      rw [itemsOfSelD] at hit
      rw [envSelD]
      cases hsf : c.s.fields[fid]? with
      | none => trivial
      | some sf =>
        simp only [hsf] at hit ⊢
        cases hid : sf.ty.id with
        | object i =>
          simp only [hid] at hit ⊢
          have hmem := hit _ List.mem_cons_self
          exact ⟨⟨_, _, find_of_mem (customExterns c) hnd hmem⟩, struct_name_ne_ID c hnd hb hmem,
            IH _ (fun it h => hit it (by simp [h]))⟩
        | scalar k => trivial
        | enum k => trivial
        | interface k => trivial
        | union k => trivial
        | input k => trivial
    | .spread _, _ => by intro _; simp [envSelD]
    | .inline _ _, _ => by intro _; simp [envSelD]
    | .typename, _ => by intro _; simp [envSelD]
  theorem envSelsD_of (hnd : (items.map (·.name)).Nodup) (hb : ∀ it ∈ builtinAliases, it ∈ items) :
      ∀ (xs : List Sel) (pfx : String), (∀ it ∈ itemsOfSelsD c pfx xs, it ∈ items) → envSelsD (moduleEnv c items) c pfx xs
    | [], _ => by intro _; simp [envSelsD]
    | x :: xs, pfx => by
      intro hit
      rw [itemsOfSelsD] at hit
      rw [envSelsD]
      exact ⟨envSelD_of hnd hb x pfx (fun it h => hit it (by simp [h])),
        envSelsD_of hnd hb xs pfx (fun it h => hit it (by simp [h]))⟩
end

end EnvOfItems

/-! ## end to end -/

/-- the relation behind the corollary: the payload and the payload with the denied keys erased at every depth are
    `Sim`-related at `ResponseData` in the environment of the emitted module -/
theorem eraseDenied_sim (c : Ctx) (opIdx : Nat) (op : ROperation) (items : List Item)
    (hop : c.q.operations[opIdx]? = some op) (ht : TreeOpD c op = true)
    (hgen : responseForQuery c opIdx = .ok items) (hnd : EnumSpec.nodup (items.map (·.name)) = true) (j : Json) :
    Sim (moduleEnv c items) (.named "ResponseData") j (eraseDenied c op j) := by
  obtain ⟨_, hsels, hkeys⟩ := treeOpD_parts ht
  obtain ⟨pre, hitems⟩ := tree_module_shapeD c opIdx op items hop ht hgen
  have hnd' := nodup_iff'.mp hnd
  have hb : ∀ it ∈ builtinAliases, it ∈ items := fun it h => by rw [hitems]; simp [h]
  have hsub : ∀ it ∈ structItemsD c "ResponseData" (c.cs.camel op.name) op.sels, it ∈ items := by
    intro it h; rw [hitems]; simp [h]
  have hroot := find_of_mem (customExterns c) hnd' (hsub _ (by unfold structItemsD; exact List.mem_cons_self))
  have henv := envSelsD_of (c := c) hnd' hb op.sels (c.cs.camel op.name) (fun it h => hsub it (by simp [structItemsD, h]))
  exact sim_eraseObj hroot hsels hkeys (simSels op.sels _ hsels henv) j

/-- `dePath` form: any fuel, buffered or not, no `EnvOK` -/
theorem denied_field_payload_same_dePath (c : Ctx) (opIdx : Nat) (op : ROperation) (items : List Item)
    (hop : c.q.operations[opIdx]? = some op) (ht : TreeOpD c op = true)
    (hgen : responseForQuery c opIdx = .ok items) (hnd : EnumSpec.nodup (items.map (·.name)) = true)
    (b : Bool) (fuel : Nat) (j : Json) :
    dePath (moduleEnv c items) b fuel "ResponseData" j = dePath (moduleEnv c items) b fuel "ResponseData" (eraseDenied c op j) :=
  sim_sound (eraseDenied_sim c opIdx op items hop ht hgen hnd j) b fuel

/-- **C14 end to end**: for an emitted module of the class, EVERY payload deserializes at `ResponseData` exactly as the
    payload with the denied keys erased at every depth — same value or same error -/
theorem denied_field_payload_same (c : Ctx) (opIdx : Nat) (op : ROperation) (items : List Item)
    (hop : c.q.operations[opIdx]? = some op) (ht : TreeOpD c op = true)
    (hgen : responseForQuery c opIdx = .ok items) (hnd : EnumSpec.nodup (items.map (·.name)) = true)
    (hOK : EnvOK (moduleEnv c items)) (j : Json) :
    Serde.de (moduleEnv c items) (.path "ResponseData") j =
      Serde.de (moduleEnv c items) (.path "ResponseData") (eraseDenied c op j) :=
  sim_de_named hOK (eraseDenied_sim c opIdx op items hop ht hgen hnd j)

end C14G
end GqlVerif
