import GqlVerif.Proofs.C07PermCodegenC
/-!
# C07 / P31 (part D) — `Codegen.generate` under a renumbering of the type ids

`codegen_tiso`: for schemas `s`, `t` with `TypeIso R s t` (part A), every document, all options and case functions:
if `Codegen.generate s …` succeeds with modules `ms` then `Codegen.generate t …` succeeds with modules `ms'` that are
pairwise `C07.ModuleEqv` (same constants; items equal up to the order of the items and of tagged-enum variants).
-/
set_option linter.unusedSectionVars false
set_option linter.unusedVariables false
set_option linter.unusedSimpArgs false

namespace GqlVerif
namespace C07P
open Resolve Codegen C07

theorem mapM_res0_flatten {α : Type} (f g : α → Outcome (List Item)) (l : List α)
    (hfg : ∀ x ∈ l, Res0 ItemsPerm (f x) (g x)) :
    Res0 (fun a b => ItemsPerm a.flatten b.flatten) (l.mapM f) (l.mapM g) := by
  induction l with
  | nil => intro a ha; cases ha; exact ⟨[], rfl, .nil⟩
  | cons x l ih =>
    rw [List.mapM_cons, List.mapM_cons]
    refine Res0.bind (hfg x (by simp)) (fun a b hab => ?_)
    refine Res0.bind (ih fun y hy => hfg y (by simp [hy])) (fun as bs habs => ?_)
    exact Res0.pure (by simp only [List.flatten_cons]; exact ItemsPerm.append hab habs)

theorem mapM_res0_allRel {α β γ : Type} {Rel : β → γ → Prop} (f : α → Outcome β) (g : α → Outcome γ) (l : List α)
    (hfg : ∀ x ∈ l, Res0 Rel (f x) (g x)) : Res0 (AllRel Rel) (l.mapM f) (l.mapM g) := by
  induction l with
  | nil => intro a ha; cases ha; exact ⟨[], rfl, .nil⟩
  | cons x l ih =>
    rw [List.mapM_cons, List.mapM_cons]
    refine Res0.bind (hfg x (by simp)) (fun a b hab => ?_)
    refine Res0.bind (ih fun y hy => hfg y (by simp [hy])) (fun as bs habs => ?_)
    exact Res0.pure (.cons hab habs)

section
variable {R : Ren} {t : Schema} (c : Ctx) (h : TypeIso R c.s t)
include h

theorem responseItems_tiso (op : ROperation) (hop : op ∈ c.q.operations) :
    Res0 ItemsPerm (responseItems c op) (responseItems (tC R t c) (tOp R op)) := by
  have hmem : tOp R op ∈ (tC R t c).q.operations := by
    simp only [tC_q, tQ_operations]; exact List.mem_map.2 ⟨op, hop, rfl⟩
  refine ResF.res0 ?_ (C02.responseItems_fuel_sufficient (tC R t c) (tOp R op) hmem)
  unfold responseItems
  simp only [tC_s, tC_q, tC_cs, tOp_name, tOp_objectId, tOp_sels]
  exact (calc_rel c h _).1 _ _ (.object op.objectId) op.sels _

theorem fragmentItems_tiso (fid : Nat) : Res0 ItemsPerm (fragmentItems c fid) (fragmentItems (tC R t c) fid) := by
  refine ResF.res0 ?_ (C02.fragmentItems_fuel_sufficient (tC R t c) fid)
  unfold fragmentItems
  simp only [tC_s, tC_q, tC_cs, getFragment_t]
  refine ResF.bind (ResF.of_map (tFrag R) rfl) (fun fr fr' hfr => ?_)
  subst hfr
  exact (calc_rel c h _).1 _ _ fr.on fr.sels _

theorem responseForQuery_tiso (op : Nat) :
    Res0 ItemsPerm (responseForQuery c op) (responseForQuery (tC R t c) op) := by
  unfold responseForQuery
  simp only [tC_s, tC_q, allUsedTypes_tiso h, variablesItems_tiso c h, getOperation_t]
  refine Res0.bind (Res0.of_map (tU R) rfl) (fun u u' hu => ?_)
  subst hu
  refine Res0.bind (scalarItems_tiso c h u) (fun sc sc' hsc => ?_)
  refine Res0.bind (enumItems_tiso c h u) (fun en en' hen => ?_)
  simp only [tU_fragments]
  refine Res0.bind (mapM_res0_flatten _ _ _ (fun fid _ => fragmentItems_tiso c h fid)) (fun fr fr' hfr => ?_)
  refine Res0.bind (inputItems_tiso c h u) (fun inp inp' hinp => ?_)
  refine Res0.bind (Res0.of_eq rfl) (fun vars vars' hvars => ?_)
  subst hvars
  have hop : Res0 (fun o o' => o' = tOp R o ∧ o ∈ c.q.operations) (c.q.getOperation op)
      (Except.map (tOp R) (c.q.getOperation op)) := by
    intro a ha
    exact ⟨tOp R a, by rw [ha]; rfl, rfl, List.mem_of_getElem? (C02.getOperation_ok ha)⟩
  refine Res0.bind hop (fun o o' ho => ?_)
  obtain ⟨rfl, hmem⟩ := ho
  refine Res0.bind (responseItems_tiso c h o hmem) (fun resp resp' hresp => ?_)
  refine Res0.pure ?_
  exact ItemsPerm.append (ItemsPerm.append (ItemsPerm.append (ItemsPerm.append (ItemsPerm.append (ItemsPerm.append
    (.refl _) (.of_perm hsc.symm)) (.of_perm hen.symm)) (.of_perm hinp.symm)) (.refl _)) hfr) hresp

theorem selectOperation_tiso (name : String) : selectOperation (tC R t c) name = selectOperation c name := by
  simp only [selectOperation, tC_q, tC_o, tC_cs, tQ_operations, List.findIdx?_map, Function.comp_def, tOp_name]

theorem generatedModule_tiso (query operation : String) :
    Res0 ModuleEqv (generatedModule c query operation) (generatedModule (tC R t c) query operation) := by
  unfold generatedModule
  simp only [tC_o, tC_cs, selectOperation_tiso c h]
  generalize selectOperation c (c.o.normalization.operation c.cs operation) = sel
  cases sel with
  | none => intro a ha; cases ha
  | some root =>
  simp only [pure_bind]
  refine Res0.bind (responseForQuery_tiso c h root) (fun items items' hitems => ?_)
  refine Res0.pure ?_
  exact ⟨rfl, rfl, rfl, rfl, rfl, rfl, rfl, rfl, (itemsPerm_iff_itemsEqv _ _).1 hitems⟩

theorem genFrom_tiso (queryText : String) :
    Res0 (AllRel ModuleEqv) (genFrom c queryText) (genFrom (tC R t c) queryText) := by
  have h1 : selectOperation (tC R t c) = selectOperation c := by funext n; exact selectOperation_tiso c h n
  have h3 : (tC R t c).q.operations.length = c.q.operations.length := by simp
  have h4 : (tC R t c).q.operations.map (·.name) = c.q.operations.map (·.name) := by
    simp [List.map_map, Function.comp_def]
  unfold genFrom
  rw [h1, h3, h4]
  simp only [tC_o]
  have key : ∀ ops : List Nat,
      Res0 (AllRel ModuleEqv) (ops.mapM (genOne c queryText)) (ops.mapM (genOne (tC R t c) queryText)) := by
    intro ops
    refine mapM_res0_allRel _ _ _ (fun i _ => ?_)
    unfold genOne
    simp only [tC_q, getOperation_t]
    refine Res0.bind (Res0.of_map (tOp R) rfl) (fun op op' hop => ?_)
    subst hop
    exact generatedModule_tiso c h queryText op.name
  generalize c.o.operationName.bind (selectOperation c) = sel
  cases sel with
  | some i => simp only [pure_bind]; exact key _
  | none =>
    cases c.o.mode with
    | cli => simp only [pure_bind]; exact key _
    | derive => intro a ha; cases ha

end

/-- **code generation under a renumbering of the type ids**: the modules generated from `t` are the modules
generated from `s` up to the order of the items and of the variants of tagged enums; the constants of the module
(`QUERY`, `OPERATION_NAME`, names, visibility, …) are identical -/
theorem codegen_tiso {R : Ren} {s t : Schema} (h : TypeIso R s t) (cs : CaseFns) (o : Options) (queryText : String)
    (doc : QDoc) (ms : List Module) (hms : Codegen.generate s cs o queryText doc = .ok ms) :
    ∃ ms', Codegen.generate t cs o queryText doc = .ok ms' ∧ AllRel ModuleEqv ms ms' := by
  rw [generate_eq] at hms
  rw [generate_eq, resolve_tiso h doc, bind_map_ok]
  obtain ⟨q, hq, hms⟩ := C02.bind_ok hms
  rw [hq]
  exact genFrom_tiso { s := s, q := q, o := o, cs := cs } h queryText ms hms

end C07P
end GqlVerif
