import GqlVerif.Proofs.C04DefaultsRustEval
/-!
# C04 under `normalization = rust` — the `default_*` bodies of the emitted module type-check and denote the default

`C04DefaultsModule.lean` proves `default_typechecks` / `default_value_correct` for the module generated under
normalization `none`.  This file transfers both to a context `c₁` with `normalization = rust` (any normalization, in
fact: `c₁` agrees with the `none` context `c₀` on everything else, `NormAgree c₀ c₁`; the primed forms take
`c₀ := noNorm c₁`), through the renaming of `C09`:

* the `none` theorem (`C04D.default_good`) gives the literal `lit₀`, its value `x₀`, and what it is written as;
* `valueToLiteral_rename` (`C04DefaultsRustLit.lean`): the literal `lit₁` rendered under `c₁` has the same shape, its
  struct / enum names and variant identifiers are those of `lit₀` mapped by the name correspondence `Corr` of the two
  modules (`name_facts`: read off the positions of the items the two generators emit — the input types of the used
  set, in schema order; the string enums, `EnumsFrom`);
* `evalLit_rename` (`C04DefaultsRustEval.lean`): `lit₁` type-checks at the renamed type (`variableType c₁ v`, related
  to `variableType c₀ v` as the two `Variables` structs are: `variableType_tyRen`) and denotes the counterpart of `x₀`;
* `C04R.hasTy_rename`: the counterpart is a value of the renamed type; `C09N.ser_rename`: it is written as the same
  JSON.

Hypotheses: those of the `none` theorems about `c₀` / `items₀`, plus `RustSideV c₀ c₁ op items₀ items₁` (exactly the side
conditions of `C04R.variables_expressible_rust`: `NormAgree`, `IdStable`, both generations succeed, `NamesInjective`,
`EnumIdentsInjective`, `FieldsWF`).  No new condition on the default: `enumOk` (what `valueToLiteral_rename` needs of
the enum literals) follows from `ValidC` + `kindOk` for closed enums (`enumOk_of_validC`).
-/
namespace GqlVerif
namespace C04DR
open Codegen Serde C04S C04R C13 C04D C09 C09N
open C01.E2E (WireSide noNorm normAgree_noNorm)

/-! ## 1. a valid default satisfies `enumOk` -/

theorem enumOkList_of {s : Schema} {id : TypeId} : ∀ {ds : List Value}, (∀ x ∈ ds, enumOk s id x = true) →
    enumOkList s id ds = true
  | [], _ => by rw [enumOkList]
  | x :: xs, h => by
    rw [enumOkList, h x (by simp), enumOkList_of (fun y hy => h y (by simp [hy]))]
    rfl

theorem enumOkKvs_of {s : Schema} {fields : List (String × FieldType)} : ∀ {dk : List (String × Value)},
    (∀ kv ∈ dk, ∀ p, fields.find? (·.1 == kv.1) = some p → enumOk s p.2.id kv.2 = true) → enumOkKvs s fields dk = true
  | [], _ => by rw [enumOkKvs]
  | (k, v) :: rest, h => by
    rw [enumOkKvs, enumOkKvs_of (fun kv hkv => h kv (by simp [hkv])), Bool.and_true]
    cases hf : fields.find? (·.1 == k) with
    | none => rfl
    | some p => exact h (k, v) (by simp) p hf

theorem keys_valueJsonKvs : ∀ dk : List (String × Value), keys (valueJsonKvs dk) = dk.map (·.1)
  | [] => by rw [valueJsonKvs]; rfl
  | (k, v) :: rest => by
    rw [valueJsonKvs]
    simp only [keys, List.map_cons, List.cons.injEq, true_and]
    exact keys_valueJsonKvs rest

theorem kindOkKvs_mem {s : Schema} {fields : List (String × FieldType)} : ∀ {dk : List (String × Value)}
    {kv : String × Value} {p : String × FieldType}, kindOkKvs s fields dk = true → kv ∈ dk →
      fields.find? (·.1 == kv.1) = some p → kindOk s p.2.id kv.2 = true
  | [], _, _, _, h, _ => by simp at h
  | (k, v) :: rest, kv, p, hk, h, hf => by
    rw [kindOkKvs, Bool.and_eq_true] at hk
    rcases List.mem_cons.mp h with h | h
    · subst h
      have := hk.1
      simp only [hf] at this
      exact this
    · exact kindOkKvs_mem hk.2 h hf

/-- **a default that is valid (with closed enums) and satisfies `kindOk` satisfies `enumOk`** -/
theorem enumOk_of_validC {L : Leaves} {s : Schema} (U : TypeId → Prop)
    (hfn : ∀ k i, U (.input k) → s.inputs[k]? = some i → (i.fields.map (·.1)).Nodup ∧ ∀ p ∈ i.fields, U p.2.id)
    (hclosed : L.enumOpen = false) {id : TypeId} {b : Bool} {t : GTy} {j : Json} (h : ValidC L s id b t j) :
    U id → ∀ d : Value, valueJson d = j → kindOk s id d = true → enumOk s id d = true := by
  induction h with
  | null hn =>
    intro _ d hd hk
    cases d <;> simp [valueJson] at hd <;> simp [enumOk]
  | some hn hv ih => exact ih
  | bang hv ih => exact ih
  | @list id t xs hv ih =>
    intro hU d hd hk
    obtain ⟨ds, rfl, rfl⟩ := valueJson_arr hd
    rw [kindOk] at hk
    rw [enumOk]
    exact enumOkList_of (fun x hx => ih (valueJson x) (List.mem_map_of_mem hx) hU x rfl (kindOkList_mem hk hx))
  | wrap hna hnn hv ih => exact ih
  | @scalar k n nm j hn hok =>
    intro _ d hd hk
    subst hd
    cases d with
    | «enum» v => simp [kindOk, TypeId.asEnum?] at hk
    | list ds => rw [valueJson, scalarOk_arr] at hok; cases hok
    | obj dk => simp [enumOk, inputOf]
    | null => simp [enumOk]
    | var _ => simp [enumOk]
    | int _ => simp [enumOk]
    | float _ => simp [enumOk]
    | str _ => simp [enumOk]
    | bool _ => simp [enumOk]
  | @«enum» k en nm v hen hv =>
    intro _ d hd hk
    have hvm : v ∈ en.variants := by
      rcases hv with h | h
      · rw [hclosed] at h; cases h
      · exact h
    have hd' : d = .enum v := by
      cases d <;> simp [valueJson] at hd
      · simp [kindOk, TypeId.asEnum?] at hk
      · rw [hd]
    subst hd'
    simp [enumOk, TypeId.asEnum?, hen, hvm]
  | @object k i nm kvs hi hone hnd hsub habs hpres ih =>
    intro hU d hd hk
    obtain ⟨dk, rfl, rfl⟩ := valueJson_obj hd
    obtain ⟨hnames, hcl⟩ := hfn k i hU hi
    have hkk : kindOkKvs s i.fields dk = true := by
      rw [kindOk] at hk
      simpa [inputOf, hi] using hk
    rw [enumOk]
    simp only [inputOf, hi]
    refine enumOkKvs_of (fun kv hkv p hf => ?_)
    have hpm : p ∈ i.fields := List.mem_of_find?_eq_some hf
    have hpk : p.1 = kv.1 := by simpa using List.find?_some hf
    rw [keys_valueJsonKvs] at hnd
    have hfd : dk.find? (·.1 == p.1) = some kv := by
      rw [hpk]
      exact find_by_key (·.1) dk hnd kv hkv
    have hlk : Json.lookup p.1 (valueJsonKvs dk) = some (valueJson kv.2) := by
      rw [lookup_valueJsonKvs, hfd]; rfl
    exact ih p hpm (valueJson kv.2) hlk (hcl p hpm) kv.2 rfl (kindOkKvs_mem hkk hkv hf)
  | @oneOf k i nm p v hi hone hpm hv ih =>
    intro hU d hd hk
    obtain ⟨dk, rfl, hkv⟩ := valueJson_obj hd
    obtain ⟨dv, rfl, rfl⟩ : ∃ dv, dk = [(p.1, dv)] ∧ v = valueJson dv := by
      cases dk with
      | nil => rw [valueJsonKvs] at hkv; cases hkv
      | cons kv rest =>
        obtain ⟨k', dv⟩ := kv
        cases rest with
        | nil =>
          rw [valueJsonKvs, valueJsonKvs] at hkv
          simp only [List.cons.injEq, Prod.mk.injEq, and_true] at hkv
          exact ⟨dv, by rw [hkv.1], hkv.2⟩
        | cons kv2 rest2 =>
          obtain ⟨k2, v2⟩ := kv2
          rw [valueJsonKvs, valueJsonKvs] at hkv
          simp at hkv
    obtain ⟨hnames, hcl⟩ := hfn k i hU hi
    have hkd : kindOk s p.2.id dv = true := by
      rw [kindOk] at hk
      simp only [inputOf, hi, kindOkKvs, find_field hnames hpm, Bool.and_true] at hk
      exact hk
    rw [enumOk]
    simp only [inputOf, hi, enumOkKvs, find_field hnames hpm, Bool.and_true]
    exact ih (hcl p hpm) dv rfl hkd

/-! ## 2. positions -/

theorem mem_zip_append_left {α β} : ∀ {l : List α} {l' : List β} {x : α × β} (r : List α) (r' : List β),
    x ∈ l.zip l' → x ∈ (l ++ r).zip (l' ++ r')
  | [], _, _, _, _, h => by simp at h
  | _ :: _, [], _, _, _, h => by simp at h
  | a :: l, b :: l', x, r, r', h => by
    simp only [List.zip_cons_cons, List.mem_cons, List.cons_append] at h ⊢
    rcases h with h | h
    · exact Or.inl h
    · exact Or.inr (mem_zip_append_left r r' h)

theorem mem_zip_mid {α β} {a m r : List α} {a' m' r' : List β} (hl : a.length = a'.length) {x : α × β}
    (hx : x ∈ m.zip m') : x ∈ (a ++ m ++ r).zip (a' ++ m' ++ r') := by
  rw [List.append_assoc, List.append_assoc, List.zip_append hl]
  exact List.mem_append_right _ (mem_zip_append_left r r' hx)

theorem all2_of_zip {α β} {S : α → β → Prop} : ∀ {l : List α} {l' : List β}, All2 S l l' → ∀ x ∈ l.zip l', S x.1 x.2
  | _, _, .nil, x, h => by simp at h
  | _, _, .cons hab t, x, h => by
    simp only [List.zip_cons_cons, List.mem_cons] at h
    rcases h with rfl | h
    · exact hab
    · exact all2_of_zip t x h

theorem mapM_zip_mem {ε α β : Type} {f g : α → Except ε β} : ∀ {l : List α} {r r' : List β}, l.mapM f = .ok r →
    l.mapM g = .ok r' → ∀ a ∈ l, ∃ y y', f a = .ok y ∧ g a = .ok y' ∧ (y, y') ∈ r.zip r'
  | [], _, _, _, _, a, ha => by simp at ha
  | b :: l, r, r', h, h', a, ha => by
    rw [List.mapM_cons] at h h'
    obtain ⟨y, hy, h⟩ := C02.bind_ok h
    obtain ⟨ys, hys, h⟩ := C02.bind_ok h
    obtain ⟨y', hy', h'⟩ := C02.bind_ok h'
    obtain ⟨ys', hys', h'⟩ := C02.bind_ok h'
    simp only [pure, Except.pure, Except.ok.injEq] at h h'
    subst h h'
    rcases List.mem_cons.mp ha with rfl | ha
    · exact ⟨y, y', hy, hy', by simp⟩
    · obtain ⟨z, z', hz, hz', hm⟩ := mapM_zip_mem hys hys' a ha
      exact ⟨z, z', hz, hz', by simp [hm]⟩

theorem all2_find_zip {α β} {S : α → β → Prop} {pa : α → Bool} {pb : β → Bool} : ∀ {l : List α} {l' : List β},
    All2 S l l' → (∀ a b, S a b → pa a = pb b) → ∀ {x : α}, l.find? pa = some x →
      ∃ y, l'.find? pb = some y ∧ (x, y) ∈ l.zip l'
  | _, _, .nil, _, _, h => by simp at h
  | _, _, .cons (a := a) (b := b) hab t, hp, x, h => by
    have hpq := hp a b hab
    simp only [List.find?_cons] at h ⊢
    cases hpa : pa a with
    | true =>
      rw [hpa] at h
      simp only [Option.some.injEq] at h
      subst h
      rw [← hpq, hpa]
      exact ⟨b, rfl, by simp⟩
    | false =>
      rw [hpa] at h
      rw [← hpq, hpa]
      obtain ⟨y, hy, hm⟩ := all2_find_zip t hp h
      exact ⟨y, hy, by simp [hm]⟩

/-- `Env.find` in two environments related by a renaming finds items at the same position -/
theorem find_zip {R : String → String → Prop} {e e' : Env} (H : EnvRen R e e') {p p' : String} (hr : R p p')
    {it : Item} (hf : e.find p = some it) : ∃ it', e'.find p' = some it' ∧ (it, it') ∈ e.items.zip e'.items := by
  unfold Env.find at hf ⊢
  refine all2_find_zip H.items (fun a b hab => ?_) hf
  have := H.bij a.name b.name p p' hab.name hr
  by_cases hq : a.name = p
  · rw [beq_iff_eq.mpr hq, beq_iff_eq.mpr (this.mp hq)]
  · have hq' : ¬ b.name = p' := fun hb => hq (this.mpr hb)
    rw [beq_eq_false_iff_ne.mpr hq, beq_eq_false_iff_ne.mpr hq']

theorem mem_zip_partner {α β} : ∀ {l : List α} {l' : List β}, l.length = l'.length → ∀ a ∈ l, ∃ b, (a, b) ∈ l.zip l'
  | [], _, _, a, h => by simp at h
  | _ :: _, [], hl, _, _ => by simp at hl
  | x :: l, y :: l', hl, a, h => by
    rcases List.mem_cons.mp h with rfl | h
    · exact ⟨y, by simp⟩
    · obtain ⟨b, hb⟩ := mem_zip_partner (by simpa using hl) a h
      exact ⟨b, by simp [hb]⟩

theorem corr_of_pairs {e e' : Env} {it it' : Item} (h : (it, it') ∈ e.items.zip e'.items) {a b : String}
    (hab : (a, b) ∈ itemPairs it it') : Corr e e' a b :=
  List.mem_append_left _ (List.mem_flatMap.mpr ⟨(it, it'), h, hab⟩)

/-! ## 3. the names of two generated modules -/

theorem enumItem_inj {c : Ctx} (hnorm : c.o.normalization = .none) {e e' : StoredEnum}
    (h : enumItem c e = enumItem c e') : e = e' := by
  rw [enumItem_eq, enumItem_eq, hnorm] at h
  simp only [Item.gqlEnum.injEq] at h
  obtain ⟨hn, _, _, _, _, hde⟩ := h
  have hv := congrArg (List.map Prod.fst) hde
  simp only [List.map_map, Function.comp_def, List.map_id'] at hv
  cases e; cases e'
  simp only [Normalization.enumName, Normalization.camelCase] at hn
  simp only at hv
  rw [hn, hv]

/-- the relation `EV` of the application: the identifiers the two contexts give to a value of a used enum -/
def EVof (c₀ c₁ : Ctx) (U : TypeId → Prop) (en var var' : String) : Prop :=
  ∃ k e, U (.enum k) ∧ c₀.s.enums[k]? = some e ∧ en = c₀.o.normalization.enumName c₀.cs e.name ∧
    ∃ v ∈ e.variants, var = enumVariantIdent c₀.o.normalization c₀.cs v ∧
      var' = enumVariantIdent c₁.o.normalization c₁.cs v

section Transfer
variable {c₀ c₁ : Ctx} {op : Nat} {items₀ items₁ : List Item} (W : RustSideV c₀ c₁ op items₀ items₁)
include W

/-- the two modules, chunk by chunk -/
theorem decompose : ∃ u A₀ A₁ I₀ I₁ V₀ V₁ T₀ T₁, allUsedTypes c₀.s c₀.q op = .ok u ∧
    items₀ = builtinAliases ++ A₀ ++ I₀ ++ V₀ ++ T₀ ∧ items₁ = builtinAliases ++ A₁ ++ I₁ ++ V₁ ++ T₁ ∧
    A₀.length = A₁.length ∧ I₀.length = I₁.length ∧ inputItems c₀ u = .ok I₀ ∧ inputItems c₁ u = .ok I₁ ∧
    variablesItems c₀ op = .ok V₀ ∧ variablesItems c₁ op = .ok V₁ := by
  have H := W.agree
  obtain ⟨u, S₀, E₀, F₀, I₀, V₀, o, R₀, hu, hS₀, hE₀, hF₀, hI₀, hV₀, ho, hR₀, hit₀⟩ := C02.responseForQuery_ok_full W.gen₀
  obtain ⟨u', S₁, E₁, F₁, I₁, V₁, o', R₁, hu', hS₁, hE₁, hF₁, hI₁, hV₁, ho', hR₁, hit₁⟩ :=
    C02.responseForQuery_ok_full W.gen₁
  rw [H.s, H.q, hu] at hu'
  cases hu'
  have hS := scalarItems_erase H u
  rw [hS₀, hS₁] at hS
  have hE := enumItems_erase H u
  rw [hE₀, hE₁] at hE
  have hI : ORel EI (inputItems c₀ u) (inputItems c₁ u) := by
    unfold inputItems
    simp only [H.s]
    exact ORel.mapM eraseItem (fun (x : StoredInput × Nat) => inputItem_erase H x.1) _
  rw [hI₀, hI₁] at hI
  refine ⟨u, S₀ ++ E₀, S₁ ++ E₁, I₀, I₁, V₀, V₁, F₀.flatten ++ R₀, F₁.flatten ++ R₁, hu, ?_, ?_, ?_, ei_length hI,
    hI₀, hI₁, hV₀, hV₁⟩
  · rw [hit₀]; simp only [List.append_assoc]
  · rw [hit₁]; simp only [List.append_assoc]
  · simp only [List.length_append, ei_length hS, ei_length hE]

/-- `String` corresponds to `String` (the alias `ID = String` sits at the same place in both modules) -/
theorem string_corr : Corr (moduleEnv c₀ items₀) (moduleEnvN c₁ items₁) "String" "String" := by
  obtain ⟨u, A₀, A₁, I₀, I₁, V₀, V₁, T₀, T₁, _, h₀, h₁, _⟩ := decompose W
  have hz : ((Item.alias "ID" false (.path "String"), Item.alias "ID" false (.path "String")) : Item × Item) ∈
      items₀.zip items₁ := by
    rw [h₀, h₁]
    simp only [List.append_assoc]
    exact mem_zip_append_left _ _ (by simp [builtinAliases])
  exact corr_of_pairs (e := moduleEnv c₀ items₀) (e' := moduleEnvN c₁ items₁) hz (by simp [itemPairs, itemTys, tyLeaf])

/-- the items of a used input type sit at the same place in both modules -/
theorem input_zip {u : UsedTypes} (hu : allUsedTypes c₀.s c₀.q op = .ok u) {k : Nat} {i : StoredInput}
    (hk : .input k ∈ u.types) (hi : c₀.s.inputs[k]? = some i) :
    ∃ it₀ it₁, inputItem c₀ i = .ok it₀ ∧ inputItem c₁ i = .ok it₁ ∧ (it₀, it₁) ∈ items₀.zip items₁ := by
  have H := W.agree
  obtain ⟨u', A₀, A₁, I₀, I₁, V₀, V₁, T₀, T₁, hu', h₀, h₁, hA, _, hI₀, hI₁, _⟩ := decompose W
  rw [hu] at hu'
  cases hu'
  unfold inputItems at hI₀ hI₁
  rw [H.s] at hI₁
  have hmem : (i, k) ∈ c₀.s.inputs.zipIdx.filter (fun (x : StoredInput × Nat) => u.types.contains (.input x.2)) := by
    rw [List.mem_filter]
    refine ⟨?_, by simpa using hk⟩
    rw [List.mem_zipIdx_iff_getElem?]
    simpa using hi
  obtain ⟨it₀, it₁, h0, h1, hz⟩ := mapM_zip_mem hI₀ hI₁ (i, k) hmem
  refine ⟨it₀, it₁, h0, h1, ?_⟩
  rw [h₀, h₁]
  have hl : (builtinAliases ++ A₀).length = (builtinAliases ++ A₁).length := by
    simp only [List.length_append, hA]
  have := mem_zip_mid (r := V₀ ++ T₀) (r' := V₁ ++ T₁) hl hz
  simpa only [List.append_assoc] using this

/-- the `Variables` structs sit at the same place, their members are those of the declared variables -/
theorem variables_zip (hne : c₀.q.opVariables op ≠ []) : ∃ fs₀ fs₁,
    (Item.struct "Variables" (allVariableDerives c₀.o) c₀.serdeCrate fs₀,
      Item.struct "Variables" (allVariableDerives c₁.o) c₁.serdeCrate fs₁) ∈ items₀.zip items₁ ∧
    C01.All2 (C04Keys.IsMember c₀) (c₀.q.opVariables op) fs₀ ∧
    C01.All2 (C04Keys.IsMember c₁) (c₀.q.opVariables op) fs₁ := by
  have H := W.agree
  obtain ⟨u', A₀, A₁, I₀, I₁, V₀, V₁, T₀, T₁, hu', h₀, h₁, hA, hI, _, _, hV₀, hV₁⟩ := decompose W
  rcases C04Keys.variablesItems_inv c₀ op V₀ hV₀ with ⟨hnil, _⟩ | ⟨_, fs₀, dfl₀, rfl, hall₀⟩
  · exact absurd hnil hne
  rcases C04Keys.variablesItems_inv c₁ op V₁ hV₁ with ⟨hnil, _⟩ | ⟨_, fs₁, dfl₁, rfl, hall₁⟩
  · rw [H.q] at hnil; exact absurd hnil hne
  rw [H.q] at hall₁
  refine ⟨fs₀, fs₁, ?_, hall₀, hall₁⟩
  rw [h₀, h₁]
  have hl : (builtinAliases ++ A₀ ++ I₀).length = (builtinAliases ++ A₁ ++ I₁).length := by
    simp only [List.length_append, hA, hI]
  have := mem_zip_append (builtinAliases ++ A₀ ++ I₀) (builtinAliases ++ A₁ ++ I₁)
    (Item.struct "Variables" (allVariableDerives c₀.o) c₀.serdeCrate fs₀)
    (Item.struct "Variables" (allVariableDerives c₁.o) c₁.serdeCrate fs₁) (Item.defaults dfl₀ :: T₀) (Item.defaults dfl₁ :: T₁) hl
  simpa only [List.append_assoc, List.cons_append, List.nil_append] using this

end Transfer

theorem members_tyRen {R : String → String → Prop} {c₀ c₁ : Ctx} : ∀ {vars : List RVariable} {fs₀ fs₁ : List RField},
    C01.All2 (C04Keys.IsMember c₀) vars fs₀ → C01.All2 (C04Keys.IsMember c₁) vars fs₁ → All2 (FieldRen R) fs₀ fs₁ →
    ∀ v ∈ vars, ∃ t₀ t₁, variableType c₀ v = .ok t₀ ∧ variableType c₁ v = .ok t₁ ∧ TyRen R t₀ t₁
  | _, _, _, .nil, _, _, v, hv => by simp at hv
  | _, _, _, .cons h0 r0, h1, hf, v, hv => by
    cases h1 with
    | cons h1 r1 =>
      cases hf with
      | cons hf rf =>
        rcases List.mem_cons.mp hv with rfl | hv
        · obtain ⟨t₀, ht₀, rfl⟩ := h0
          obtain ⟨t₁, ht₁, rfl⟩ := h1
          exact ⟨t₀, t₁, ht₀, ht₁, hf.ty⟩
        · exact members_tyRen r0 r1 rf v hv

section Transfer
variable {c₀ c₁ : Ctx} {op : Nat} {items₀ items₁ : List Item} (W : RustSideV c₀ c₁ op items₀ items₁)
include W

local notation "E₀" => moduleEnv c₀ items₀
local notation "E₁" => moduleEnvN c₁ items₁

/-- the Rust types of a declared variable in the two modules correspond -/
theorem variableType_tyRen (hmem : ∀ it ∈ items₀, (C02.memberIdents it).Nodup) {v : RVariable}
    (hv : v ∈ c₀.q.opVariables op) :
    ∃ t₀ t₁, variableType c₀ v = .ok t₀ ∧ variableType c₁ v = .ok t₁ ∧ TyRen (Corr E₀ E₁) t₀ t₁ := by
  obtain ⟨henv, _, _, _⟩ := W.env hmem
  have hne : c₀.q.opVariables op ≠ [] := fun hnil => by rw [hnil] at hv; cases hv
  obtain ⟨fs₀, fs₁, hz, hall₀, hall₁⟩ := variables_zip W hne
  have hren := all2_of_zip henv.items _ hz
  cases hren with
  | struct _ hfs => exact members_tyRen hall₀ hall₁ hfs v hv

/-- a string enum of the first module and the item at the same place of the second come from the same schema enum -/
theorem enum_partner (hnorm : c₀.o.normalization = .none) {en : StoredEnum} {it' : Item}
    (hz : (enumItem c₀ en, it') ∈ items₀.zip items₁) : it' = enumItem c₁ en := by
  have hm := normalization_modRel W.agree W.idStable op
  rw [W.gen₀, W.gen₁] at hm
  obtain ⟨_, _, _, _, _, _, _, _, _, _, _, _, _, _, _, _, _, _, hef⟩ := (show ModRel c₀ c₁ items₀ items₁ from hm)
  rcases hef _ hz with ⟨e2, _, hx⟩ | hne
  · simp only [Prod.mk.injEq] at hx
    have := enumItem_inj hnorm hx.1
    subst this
    exact hx.2
  · simp [enumItem, isEnum] at hne

/-- **the name correspondence of the two modules relates the names the two renderers write** -/
theorem name_facts (hnorm : c₀.o.normalization = .none) (hext : c₀.o.externEnums = [])
    (hmem : ∀ it ∈ items₀, (C02.memberIdents it).Nodup) {u : UsedTypes} (hu : allUsedTypes c₀.s c₀.q op = .ok u)
    (env : InputEnv c₀ E₀ (· ∈ u.types)) :
    NameFacts c₀ c₁ (· ∈ u.types) (Corr E₀ E₁) (EVof c₀ c₁ (· ∈ u.types)) where
  inputs := by
    intro k i hk hi
    obtain ⟨it₀, it₁, h0, h1, hz⟩ := input_zip W hu hk hi
    have := corr_of_zip (e := E₀) (e' := E₁) hz
    rwa [C02.inputItem_name h0, C02.inputItem_name h1] at this
  enums := by
    intro k en hk hen
    obtain ⟨henv, _, _, _⟩ := W.env hmem
    have hf := find_enumItem c₀ op items₀ hnorm hext W.gen₀ hu E₀ rfl env k en hk hen
    have hin : enumItem c₀ en ∈ items₀ := mem_of_find hf
    obtain ⟨it', hz⟩ := mem_zip_partner (All2.length_eq henv.items) _ hin
    have := enum_partner W hnorm hz
    subst this
    refine ⟨corr_of_zip (e := E₀) (e' := E₁) hz, fun v hv => ⟨k, en, hk, hen, rfl, v, hv, rfl, rfl⟩⟩
  closed := fun k i hk hi => ⟨env.fieldNames k i hk hi, fun p hp => (env.closed k i hk hi p hp).1⟩

/-- **… and the identifiers they write for the values of an enum sit at the same place of the two enums** -/
theorem enum_facts (hnorm : c₀.o.normalization = .none) (hext : c₀.o.externEnums = [])
    (hmem : ∀ it ∈ items₀, (C02.memberIdents it).Nodup) {u : UsedTypes} (hu : allUsedTypes c₀.s c₀.q op = .ok u)
    (env : InputEnv c₀ E₀ (· ∈ u.types)) :
    EnumFacts (Corr E₀ E₁) (EVof c₀ c₁ (· ∈ u.types)) E₀ E₁ := by
  obtain ⟨henv, _, _, _⟩ := W.env hmem
  rintro en var var' ⟨k, e, hk, hen, rfl, v, hv, rfl, rfl⟩ p p' n d sp ids ser de n' d' sp' ids' ser' de' hres hr hf hf' _
  have hfe := find_enumItem c₀ op items₀ hnorm hext W.gen₀ hu E₀ rfl env k e hk hen
  have hname : c₀.o.normalization.enumName c₀.cs e.name = e.name := by rw [hnorm]; rfl
  rw [hname] at hres
  have hp : p = e.name := by
    have := resolveTy_gqlEnum E₀ (env.enums k e hk hen).1 (by rw [enumItem_eq] at hfe; exact hfe)
    rw [this] at hres
    exact (RTy.path.inj hres).symm
  subst hp
  rw [hfe] at hf
  obtain ⟨it', hf2, hz⟩ := find_zip henv hr hfe
  rw [hf'] at hf2
  have hit' := enum_partner W hnorm hz
  rw [← Option.some.inj hf2] at hit'
  rw [enumItem_eq] at hf hit'
  simp only [Option.some.injEq, Item.gqlEnum.injEq] at hf hit'
  obtain ⟨_, _, _, _, _, hde⟩ := hf
  obtain ⟨_, _, _, _, _, hde'⟩ := hit'
  rw [← hde, hde']
  simp only [identPairs, List.map_map, Function.comp_def, List.zip_map']
  exact List.mem_map.mpr ⟨v, hv, rfl⟩

/-- **the core of the transfer**: the literal rendered under `c₁` has no `compile_error!`, type-checks at the variable's
    type in `c₁`'s module, denotes a value of that type, and the value is written as the coerced canonical default -/
theorem default_good_rust (L : Leaves)
    (hnorm : c₀.o.normalization = .none)
    (hkwI : ∀ i ∈ c₀.s.inputs, keywordReplace i.name = i.name)
    (hkwS : ∀ n ∈ c₀.s.scalars, keywordReplace n = n)
    (hkwE : ∀ e ∈ c₀.s.enums, keywordReplace e.name = e.name)
    (hwf : C02.OutputOnly c₀.s c₀.q = true) (hrel : C02.InputFieldsRelevant c₀.s = true)
    (hvars : ∀ v ∈ c₀.q.opVariables op, C02.Relevant v.ty.id)
    (hdef : (Scope.defines items₀).Nodup) (hmem : ∀ it ∈ items₀, (C02.memberIdents it).Nodup)
    (hprim : ∀ it ∈ items₀, C01.notPrim it.name) (hfree : ExternsFree c₀ items₀)
    (hint : ∀ n, L.intOk n = true → inI64 n = true) (hclosed : L.enumOpen = false) (hext : c₀.o.externEnums = [])
    (v : RVariable) (hv : v ∈ c₀.q.opVariables op) (d : Value)
    (hvalid : ValidC L c₀.s v.ty.id false (gty v.ty) (valueJson d))
    (hkind : kindOk c₀.s v.ty.id d = true) (hdepth : valueDepth d < 64) :
    ∃ lit t x, valueToLiteral c₁ 64 d v.ty.id v.ty.quals = .ok lit ∧ lit.hasCompileError = false ∧
      variableType c₁ v = .ok t ∧ evalLit E₁ lit t = some x ∧ HasTy E₁ t x ∧
      Serde.ser E₁ t x =
        .ok (canon c₀.s c₀.o.skipNone v.ty.id (gty v.ty) (coerce c₀.s v.ty.id (gty v.ty) (valueJson d))) := by
  obtain ⟨lit₀, t₀, x₀, hlit₀, ht₀, hg⟩ := default_good L c₀ op items₀ hnorm hkwI hkwS hkwE hwf hrel hvars hdef hmem hprim
    hfree hint hclosed hext W.gen₀ v hv d hvalid hkind hdepth
  obtain ⟨henv, _, hw, hw'⟩ := W.env hmem
  obtain ⟨u, hu, env⟩ := inputEnv_of_module c₀ op items₀ hnorm hkwI hwf hrel hdef hmem hprim hfree W.gen₀
  have hU : v.ty.id ∈ u.types := C02.variable_types_used c₀.s c₀.q op u hu v hv (hvars v hv)
  have F := name_facts W hnorm hext hmem hu env
  have hok : enumOk c₀.s v.ty.id d = true :=
    enumOk_of_validC (· ∈ u.types) F.closed hclosed hvalid hU d rfl hkind
  -- the literal
  have hrel := valueToLiteral_rename W.agree.s W.agree.cs F 64 d v.ty.id v.ty.quals hU hok
  rw [hlit₀] at hrel
  cases hlit₁ : valueToLiteral c₁ 64 d v.ty.id v.ty.quals with
  | error err => rw [hlit₁] at hrel; exact hrel.elim
  | ok lit₁ =>
  rw [hlit₁] at hrel
  have hlr : LitRel (Corr E₀ E₁) (EVof c₀ c₁ (· ∈ u.types)) lit₀ lit₁ := hrel
  -- the type
  obtain ⟨t₀', t₁, ht₀', ht₁, htr⟩ := variableType_tyRen W hmem hv
  rw [ht₀] at ht₀'
  cases ht₀'
  -- the value
  obtain ⟨x₁, hx₁, hvr⟩ := evalLit_rename henv hw hw' (string_corr W) (enum_facts W hnorm hext hmem hu env) lit₀ lit₁ hlr
    t₀ t₁ htr x₀ hg.eval
  obtain ⟨x', hc⟩ := hasTy_rename henv hw hw' hg.ty t₁ htr
  have hxx : x₁ = x' := hc.2.2 x₁ hvr
  subst hxx
  refine ⟨lit₁, t₁, x₁, rfl, ?_, ht₁, hx₁, hc.2.1, ?_⟩
  · rw [← hasCompileError_rel lit₀ lit₁ hlr]; exact hg.noErr
  · exact (drel_eq_ok (ser_rename henv htr hvr) _).mp (good_top hg)

/-- **`default_typechecks_rust`** -/
theorem default_typechecks_rust (L : Leaves)
    (hnorm : c₀.o.normalization = .none)
    (hkwI : ∀ i ∈ c₀.s.inputs, keywordReplace i.name = i.name)
    (hkwS : ∀ n ∈ c₀.s.scalars, keywordReplace n = n)
    (hkwE : ∀ e ∈ c₀.s.enums, keywordReplace e.name = e.name)
    (hwf : C02.OutputOnly c₀.s c₀.q = true) (hrel : C02.InputFieldsRelevant c₀.s = true)
    (hvars : ∀ v ∈ c₀.q.opVariables op, C02.Relevant v.ty.id)
    (hdef : (Scope.defines items₀).Nodup) (hmem : ∀ it ∈ items₀, (C02.memberIdents it).Nodup)
    (hprim : ∀ it ∈ items₀, C01.notPrim it.name) (hfree : ExternsFree c₀ items₀)
    (hint : ∀ n, L.intOk n = true → inI64 n = true) (hclosed : L.enumOpen = false) (hext : c₀.o.externEnums = [])
    (v : RVariable) (hv : v ∈ c₀.q.opVariables op) (d : Value)
    (hvalid : ValidC L c₀.s v.ty.id false (gty v.ty) (valueJson d))
    (hkind : kindOk c₀.s v.ty.id d = true) (hdepth : valueDepth d < 64) :
    ∃ lit t x, valueToLiteral c₁ 64 d v.ty.id v.ty.quals = .ok lit ∧ lit.hasCompileError = false ∧
      variableType c₁ v = .ok t ∧ evalLit (moduleEnvN c₁ items₁) lit t = some x ∧ HasTy (moduleEnvN c₁ items₁) t x := by
  obtain ⟨lit, t, x, h1, h2, h3, h4, h5, _⟩ := default_good_rust W L hnorm hkwI hkwS hkwE hwf hrel hvars hdef hmem hprim
    hfree hint hclosed hext v hv d hvalid hkind hdepth
  exact ⟨lit, t, x, h1, h2, h3, h4, h5⟩

/-- **`default_value_correct_rust`** -/
theorem default_value_correct_rust (L : Leaves)
    (hnorm : c₀.o.normalization = .none)
    (hkwI : ∀ i ∈ c₀.s.inputs, keywordReplace i.name = i.name)
    (hkwS : ∀ n ∈ c₀.s.scalars, keywordReplace n = n)
    (hkwE : ∀ e ∈ c₀.s.enums, keywordReplace e.name = e.name)
    (hwf : C02.OutputOnly c₀.s c₀.q = true) (hrel : C02.InputFieldsRelevant c₀.s = true)
    (hvars : ∀ v ∈ c₀.q.opVariables op, C02.Relevant v.ty.id)
    (hdef : (Scope.defines items₀).Nodup) (hmem : ∀ it ∈ items₀, (C02.memberIdents it).Nodup)
    (hprim : ∀ it ∈ items₀, C01.notPrim it.name) (hfree : ExternsFree c₀ items₀)
    (hint : ∀ n, L.intOk n = true → inI64 n = true) (hclosed : L.enumOpen = false) (hext : c₀.o.externEnums = [])
    (v : RVariable) (hv : v ∈ c₀.q.opVariables op) (d : Value)
    (hvalid : ValidC L c₀.s v.ty.id false (gty v.ty) (valueJson d))
    (hkind : kindOk c₀.s v.ty.id d = true) (hdepth : valueDepth d < 64)
    (lit : LitExpr) (t : RTy) (x : Val) (hlit : valueToLiteral c₁ 64 d v.ty.id v.ty.quals = .ok lit)
    (ht : variableType c₁ v = .ok t) (hx : evalLit (moduleEnvN c₁ items₁) lit t = some x) :
    Serde.ser (moduleEnvN c₁ items₁) t x =
      .ok (canon c₀.s c₀.o.skipNone v.ty.id (gty v.ty) (coerce c₀.s v.ty.id (gty v.ty) (valueJson d))) := by
  obtain ⟨lit', t', x', hlit', _, ht', hx', _, hser⟩ := default_good_rust W L hnorm hkwI hkwS hkwE hwf hrel hvars hdef hmem
    hprim hfree hint hclosed hext v hv d hvalid hkind hdepth
  rw [hlit] at hlit'; cases hlit'
  rw [ht] at ht'; cases ht'
  rw [hx] at hx'; cases hx'
  exact hser

end Transfer

/-! ## the form of the task: a context `c₁` with `normalization = rust`, `c₀ := noNorm c₁`

`(noNorm c₁).s`, `.q`, `.cs`, `.o.skipNone`, `.o.externEnums` are definitionally `c₁`'s: the statements only mention
`c₁` (and `items₀`, the module generated under `none`, in the compile-side hypotheses). -/

/-- **`default_typechecks_rust'`** -/
theorem default_typechecks_rust' (L : Leaves) (c₁ : Ctx) (op : Nat) (items₀ items₁ : List Item)
    (W : RustSideV (noNorm c₁) c₁ op items₀ items₁)
    (hkwI : ∀ i ∈ c₁.s.inputs, keywordReplace i.name = i.name)
    (hkwS : ∀ n ∈ c₁.s.scalars, keywordReplace n = n)
    (hkwE : ∀ e ∈ c₁.s.enums, keywordReplace e.name = e.name)
    (hwf : C02.OutputOnly c₁.s c₁.q = true) (hrel : C02.InputFieldsRelevant c₁.s = true)
    (hvars : ∀ v ∈ c₁.q.opVariables op, C02.Relevant v.ty.id)
    (hdef : (Scope.defines items₀).Nodup) (hmem : ∀ it ∈ items₀, (C02.memberIdents it).Nodup)
    (hprim : ∀ it ∈ items₀, C01.notPrim it.name) (hfree : ExternsFree (noNorm c₁) items₀)
    (hint : ∀ n, L.intOk n = true → inI64 n = true) (hclosed : L.enumOpen = false) (hext : c₁.o.externEnums = [])
    (v : RVariable) (hv : v ∈ c₁.q.opVariables op) (d : Value)
    (hvalid : ValidC L c₁.s v.ty.id false (gty v.ty) (valueJson d))
    (hkind : kindOk c₁.s v.ty.id d = true) (hdepth : valueDepth d < 64) :
    ∃ lit t x, valueToLiteral c₁ 64 d v.ty.id v.ty.quals = .ok lit ∧ lit.hasCompileError = false ∧
      variableType c₁ v = .ok t ∧ evalLit (moduleEnvN c₁ items₁) lit t = some x ∧ HasTy (moduleEnvN c₁ items₁) t x :=
  default_typechecks_rust W L rfl hkwI hkwS hkwE hwf hrel hvars hdef hmem hprim hfree hint hclosed hext v hv d hvalid
    hkind hdepth

/-- **`default_value_correct_rust'`** -/
theorem default_value_correct_rust' (L : Leaves) (c₁ : Ctx) (op : Nat) (items₀ items₁ : List Item)
    (W : RustSideV (noNorm c₁) c₁ op items₀ items₁)
    (hkwI : ∀ i ∈ c₁.s.inputs, keywordReplace i.name = i.name)
    (hkwS : ∀ n ∈ c₁.s.scalars, keywordReplace n = n)
    (hkwE : ∀ e ∈ c₁.s.enums, keywordReplace e.name = e.name)
    (hwf : C02.OutputOnly c₁.s c₁.q = true) (hrel : C02.InputFieldsRelevant c₁.s = true)
    (hvars : ∀ v ∈ c₁.q.opVariables op, C02.Relevant v.ty.id)
    (hdef : (Scope.defines items₀).Nodup) (hmem : ∀ it ∈ items₀, (C02.memberIdents it).Nodup)
    (hprim : ∀ it ∈ items₀, C01.notPrim it.name) (hfree : ExternsFree (noNorm c₁) items₀)
    (hint : ∀ n, L.intOk n = true → inI64 n = true) (hclosed : L.enumOpen = false) (hext : c₁.o.externEnums = [])
    (v : RVariable) (hv : v ∈ c₁.q.opVariables op) (d : Value)
    (hvalid : ValidC L c₁.s v.ty.id false (gty v.ty) (valueJson d))
    (hkind : kindOk c₁.s v.ty.id d = true) (hdepth : valueDepth d < 64)
    (lit : LitExpr) (t : RTy) (x : Val) (hlit : valueToLiteral c₁ 64 d v.ty.id v.ty.quals = .ok lit)
    (ht : variableType c₁ v = .ok t) (hx : evalLit (moduleEnvN c₁ items₁) lit t = some x) :
    Serde.ser (moduleEnvN c₁ items₁) t x =
      .ok (canon c₁.s c₁.o.skipNone v.ty.id (gty v.ty) (coerce c₁.s v.ty.id (gty v.ty) (valueJson d))) :=
  default_value_correct_rust W L rfl hkwI hkwS hkwE hwf hrel hvars hdef hmem hprim hfree hint hclosed hext v hv d hvalid
    hkind hdepth lit t x hlit ht hx

end C04DR
end GqlVerif
