import GqlVerif.Proofs.C01NestedG
/-!
# C01 end to end (`AliasFragOp`), part S: serde — a flattened member whose type is an ALIAS (chain) of a struct

The model follows alias hops wherever serde (i.e. rustc, a type alias being transparent) does: `Serde.deFlat` on
`.path q` with `q` an `.alias` item recurses into the target, `Serde.dePath` / `Serde.serPath` likewise.

* `Chain e k q q'` — `q` resolves to `q'` through `k` `.alias` items (none of them a built-in leaf name);
* **`deFlat_chain`**, **`dePath_chain`**, **`serPath_chain`** — reading a flattened member / reading / writing at `q`
  with `fuel + k` is reading / writing at `q'` with `fuel`: the value read, the buffer left and the JSON written are THOSE OF
  THE STRUCT ITSELF;
* `MemSpec e fuel q K` — how a flattened member of the named type `q` is read, stated through `dePath … q`: it
  **borrows** (sees the whole buffer, takes nothing) or it **takes** the keys `W ⊆ K` and does not look at others;
  `memSpec_struct` (a struct item, plain or not), **`memSpec_chain`** (an alias chain to such a type);
* **`okB_deFlatsA` / `okB_deStructMapA`** — acceptance of a struct whose flattened members satisfy `MemSpec`
  (generalizes `okB_deStructMapN` of `C01NestedB`: the members need not be struct items);
* **`deFlatsA_finds` / `deStructA_finds`** — the value-level companion (generalizes `deStructN_finds` of `C01NestedG`).
-/
set_option linter.unusedSimpArgs false
set_option linter.unusedVariables false
set_option linter.unusedSectionVars false
set_option linter.unnecessarySimpa false

namespace GqlVerif
namespace C01AF
open Serde Spec C13 C03 Codegen C01 C01.E2E C01M C01N

/-- `q` resolves to `q'` through `k` type aliases -/
def Chain (e : Env) : Nat → String → String → Prop
  | 0, q, q' => q = q'
  | k + 1, q, q' => notPrim q ∧ ∃ n pub q1, e.find q = some (.alias n pub (.path q1)) ∧ Chain e k q1 q'

theorem chain_one {e : Env} {q q' n : String} {pub : Bool} (hp : notPrim q)
    (h : e.find q = some (.alias n pub (.path q'))) : Chain e 1 q q' :=
  ⟨hp, n, pub, q', h, rfl⟩

/-- **a flattened member whose type is an alias chain is read as the chain's end** (value and buffer) -/
theorem deFlat_chain (e : Env) : ∀ (k : Nat) (q q' : String) (fuel : Nat) (buf : Buf), Chain e k q q' →
    deFlat e (fuel + k) (.path q) buf = deFlat e fuel (.path q') buf
  | 0, q, q', fuel, buf, h => by cases h; rfl
  | k + 1, q, q', fuel, buf, h => by
    obtain ⟨_, n, pub, q1, hfind, hc⟩ := h
    have : deFlat e (fuel + (k + 1)) (.path q) buf = deFlat e (fuel + k) (.path q1) buf := by
      show deFlat e ((fuel + k) + 1) (.path q) buf = _
      rw [deFlat]; simp only [hfind]
    rw [this]
    exact deFlat_chain e k q1 q' fuel buf hc

/-- **… and so is any other position of that type** -/
theorem dePath_chain (e : Env) (b : Bool) : ∀ (k : Nat) (q q' : String) (fuel : Nat) (j : Json), Chain e k q q' →
    dePath e b (fuel + k) q j = dePath e b fuel q' j
  | 0, q, q', fuel, j, h => by cases h; rfl
  | k + 1, q, q', fuel, j, h => by
    obtain ⟨hp, n, pub, q1, hfind, hc⟩ := h
    have : dePath e b (fuel + (k + 1)) q j = dePath e b (fuel + k) q1 j := by
      show dePath e b ((fuel + k) + 1) q j = _
      rw [dePath]; simp only [dePrim_none hp, hfind, deTyWith]
    rw [this]
    exact dePath_chain e b k q1 q' fuel j hc

/-- **serialization through an alias chain is serialization at the chain's end** (a non-leaf value) -/
theorem serPath_chain (e : Env) : ∀ (k : Nat) (q q' : String) (fuel : Nat) (v : Val), Chain e k q q' →
    serPrim v = none → serPath e (fuel + k) q v = serPath e fuel q' v
  | 0, q, q', fuel, v, h, _ => by cases h; rfl
  | k + 1, q, q', fuel, v, h, hv => by
    obtain ⟨hp, n, pub, q1, hfind, hc⟩ := h
    have : serPath e (fuel + (k + 1)) q v = serPath e (fuel + k) q1 v := by
      show serPath e ((fuel + k) + 1) q v = _
      rw [serPath]; simp only [hv, hfind, serTyWith]
    rw [this]
    exact serPath_chain e k q1 q' fuel v hc hv

/-- … in particular for the record of a struct (what a flattened member's value is) -/
theorem serPath_chain_record (e : Env) (k : Nat) (q q' : String) (fuel : Nat) (vals : List (String × Val))
    (h : Chain e k q q') : serPath e (fuel + k) q (.record vals) = serPath e fuel q' (.record vals) :=
  serPath_chain e k q q' fuel _ h rfl

/-! ## flattened members, abstractly -/

/-- how serde reads a flattened member of the named type `q` (at fuel `fuel + 1`), through what `dePath` reads at `q`
    from an object: it **borrows** — sees every remaining entry, takes none (`deserialize_map`) — or it **takes** the
    entries with the keys `W ⊆ K` (`deserialize_struct`), and reads nothing else -/
def MemSpec (e : Env) (fuel : Nat) (q : String) (K : List String) : Prop :=
  (∀ buf, deFlat e (fuel + 1) (.path q) buf =
      (do let v ← dePath e true (fuel + 1) q (.obj (present buf)); pure (v, buf))) ∨
  (∃ W : List String, (∀ k ∈ W, k ∈ K) ∧
    (∀ buf, deFlat e (fuel + 1) (.path q) buf =
      (do let v ← dePath e true (fuel + 1) q (.obj (takeKeys W buf).1); pure (v, (takeKeys W buf).2))) ∧
    (∀ kvs, dePath e true (fuel + 1) q (.obj (kvs.filter (fun kv => W.contains kv.1))) =
      dePath e true (fuel + 1) q (.obj kvs)))

theorem MemSpec.mono {e : Env} {fuel : Nat} {q : String} {K K' : List String} (h : MemSpec e fuel q K)
    (hK : ∀ k ∈ K, k ∈ K') : MemSpec e fuel q K' := by
  rcases h with h | ⟨W, hW, h1, h2⟩
  · exact .inl h
  · exact .inr ⟨W, fun k hk => hK k (hW k hk), h1, h2⟩

/-- a struct item (plain, or with flattened members of its own) -/
theorem memSpec_struct (e : Env) (fuel : Nat) (q n : String) (d : List String) (c : Option String) (G : List RField)
    (K : List String) (hp : notPrim q) (hfind : e.find q = some (.struct n d c G))
    (hG : ∀ f ∈ G, f.flatten = false → f.wire ∈ K) : MemSpec e fuel q K := by
  cases hpl : plain G
  · left
    intro buf
    rw [deFlat_nonplain_struct e fuel q n d c G buf hfind (any_flatten_of_not_plain hpl),
      dePath_struct e true fuel q n d c G hp hfind, deStruct_obj]
  · right
    refine ⟨G.map (·.wire), ?_, ?_, ?_⟩
    · intro k hk
      obtain ⟨f, hf, rfl⟩ := List.mem_map.mp hk
      exact hG f hf (flatten_false_of_plain hpl f hf)
    · intro buf
      rw [deFlat_plain_struct e fuel q n d c G buf hfind hpl, dePath_struct e true fuel q n d c G hp hfind,
        deStruct_obj, deStructMap_plain _ _ _ _ hpl]
      cases deOwnWith (dePath e true fuel) G (takeKeys (G.map (·.wire)) buf).1 <;> rfl
    · intro kvs
      simp only [dePath_struct e true fuel q n d c G hp hfind, deStruct_obj, deStructMap_plain _ _ _ _ hpl]
      rw [deOwn_filter _ _ kvs _ (fun f hf _ => List.mem_map_of_mem hf)]

/-- **an alias chain to a type that satisfies `MemSpec` satisfies it** (with `k` more units of fuel) -/
theorem memSpec_chain (e : Env) (k : Nat) (q q' : String) (fuel : Nat) (K : List String) (hc : Chain e k q q')
    (h : MemSpec e fuel q' K) : MemSpec e (fuel + k) q K := by
  have hF : ∀ buf, deFlat e (fuel + k + 1) (.path q) buf = deFlat e (fuel + 1) (.path q') buf := by
    intro buf
    have := deFlat_chain e k q q' (fuel + 1) buf hc
    rwa [show fuel + 1 + k = fuel + k + 1 by omega] at this
  have hP : ∀ j, dePath e true (fuel + k + 1) q j = dePath e true (fuel + 1) q' j := by
    intro j
    have := dePath_chain e true k q q' (fuel + 1) j hc
    rwa [show fuel + 1 + k = fuel + k + 1 by omega] at this
  rcases h with h | ⟨W, hW, h1, h2⟩
  · left; intro buf; rw [hF, hP, h buf]
  · right
    refine ⟨W, hW, fun buf => by rw [hF, hP, h1 buf], fun kvs => by rw [hP, hP, h2 kvs]⟩

/-- what a flattened member reads from the object `kvs`: its type, from buffered content -/
def memV (e : Env) (fuel : Nat) (g : RField) (kvs : List (String × Json)) : D Val :=
  match g.ty with
  | .path q => dePath e true (fuel + 1) q (.obj kvs)
  | _ => unmodelled "flattened member of a non-path type"

def MemberOkA (e : Env) (fuel : Nat) (K : List String) (g : RField) : Prop :=
  ∃ q, g.ty = .path q ∧ MemSpec e fuel q K

/-- **acceptance of the flattened members** (struct items or aliases of such), in field order: each accepts the whole
    object -/
theorem okB_deFlatsA (e : Env) (fuel : Nat) (kvs : List (String × Json)) (K : RField → List String) :
    ∀ (fs : List RField) (L : List String) (buf : Buf),
      present buf = kvs.filter (fun kv => !L.contains kv.1) →
      (∀ g ∈ fs, g.flatten = true → MemberOkA e fuel (K g) g) →
      (∀ g ∈ fs, g.flatten = true → ∀ k ∈ L, k ∉ K g) →
      (∀ g ∈ fs, g.flatten = true → ∀ L' : List String, (∀ k ∈ L', k ∉ K g) →
        okB (memV e fuel g (kvs.filter (fun kv => !L'.contains kv.1))) = okB (memV e fuel g kvs)) →
      fs.Pairwise (fun g g' => g.flatten = true → g'.flatten = true → ∀ k ∈ K g', k ∉ K g) →
      okB (deFlatsWith (deFlat e (fuel + 1)) fs buf) =
        (fs.filter (·.flatten)).all (fun g => okB (memV e fuel g kvs))
  | [], _, _, _, _, _, _, _ => rfl
  | g :: fs, L, buf, hbuf, hok, hL, hirr, hpw => by
    rw [List.pairwise_cons] at hpw
    have hok' : ∀ g' ∈ fs, g'.flatten = true → MemberOkA e fuel (K g') g' :=
      fun g' h' => hok g' (List.mem_cons_of_mem _ h')
    have hirr' : ∀ g' ∈ fs, g'.flatten = true → ∀ L' : List String, (∀ k ∈ L', k ∉ K g') →
        okB (memV e fuel g' (kvs.filter (fun kv => !L'.contains kv.1))) = okB (memV e fuel g' kvs) :=
      fun g' h' => hirr g' (List.mem_cons_of_mem _ h')
    cases hg : g.flatten
    · simp only [deFlatsWith, hg, Bool.not_false, ↓reduceIte, List.filter_cons, Bool.false_eq_true]
      exact okB_deFlatsA e fuel kvs K fs L buf hbuf hok' (fun g' h' => hL g' (List.mem_cons_of_mem _ h')) hirr' hpw.2
    · obtain ⟨q, hty, hspec⟩ := hok g (by simp) hg
      have hmv : ∀ kvs', memV e fuel g kvs' = dePath e true (fuel + 1) q (.obj kvs') := by
        intro kvs'; simp only [memV, hty]
      simp only [deFlatsWith, hg, Bool.not_true, Bool.false_eq_true, ↓reduceIte, List.filter_cons, List.all_cons, hty]
      rcases hspec with hb | ⟨W, hWK, ht, hf⟩
      · rw [hb buf, hbuf]
        have h1 := hirr g (by simp) hg L (hL g (by simp) hg)
        have ih := okB_deFlatsA e fuel kvs K fs L buf hbuf hok'
          (fun g' h' => hL g' (List.mem_cons_of_mem _ h')) hirr' hpw.2
        rw [← ih, ← h1, hmv]
        cases dePath e true (fuel + 1) q (.obj (kvs.filter (fun kv => !L.contains kv.1))) with
        | error err => rfl
        | ok v =>
          simp only [bind, Except.bind, pure, Except.pure]
          cases deFlatsWith (deFlat e (fuel + 1)) fs buf <;> rfl
      · have hw : ∀ k ∈ W, k ∉ L := fun k hk hkL => hL g (by simp) hg k hkL (hWK k hk)
        rw [ht buf, takeKeys_fst, hbuf, filter_filter_disjoint kvs L W hw, hf kvs]
        have ih := okB_deFlatsA e fuel kvs K fs (L ++ W) (takeKeys W buf).2
          (by rw [takeKeys_snd, hbuf, filter_not_append]) hok'
          (by
            intro g' h' hf' k hk hkK
            rcases List.mem_append.mp hk with hk | hk
            · exact hL g' (List.mem_cons_of_mem _ h') hf' k hk hkK
            · exact hpw.1 g' h' hg hf' _ hkK (hWK k hk))
          hirr' hpw.2
        rw [← ih, hmv]
        cases dePath e true (fuel + 1) q (.obj kvs) with
        | error err => rfl
        | ok v =>
          simp only [bind, Except.bind, pure, Except.pure]
          cases deFlatsWith (deFlat e (fuel + 1)) fs (takeKeys W buf).2 <;> rfl

/-- **acceptance of a struct with own fields and any number of flattened members that are struct items or aliases of
    struct items** -/
theorem okB_deStructMapA (e : Env) (fuel : Nat) (pathD : String → Json → D Val) (fields : List RField)
    (kvs : List (String × Json)) (K : RField → List String) (hany : fields.any (·.flatten) = true)
    (hok : ∀ g ∈ fields, g.flatten = true → MemberOkA e fuel (K g) g)
    (hown : ∀ g ∈ fields, g.flatten = true → ∀ k ∈ (fields.filter (fun f => !f.flatten)).map (·.wire), k ∉ K g)
    (hirr : ∀ g ∈ fields, g.flatten = true → ∀ L' : List String, (∀ k ∈ L', k ∉ K g) →
      okB (memV e fuel g (kvs.filter (fun kv => !L'.contains kv.1))) = okB (memV e fuel g kvs))
    (hpw : fields.Pairwise (fun g g' => g.flatten = true → g'.flatten = true → ∀ k ∈ K g', k ∉ K g)) :
    okB (deStructMapWith pathD (deFlat e (fuel + 1)) fields kvs) =
      (okB (deOwnWith pathD (fields.filter (fun f => !f.flatten)) kvs) &&
        (fields.filter (·.flatten)).all (fun g => okB (memV e fuel g kvs))) := by
  unfold deStructMapWith
  simp only [hany, ↓reduceIte]
  rw [deOwn_filter_flatten pathD kvs fields, okB_bind2,
    okB_deFlatsA e fuel kvs K fields ((fields.filter (fun f => !f.flatten)).map (·.wire)) _
      (by rw [present_map_some]) hok hown hirr hpw]

end C01AF
end GqlVerif
