import GqlVerif.Proofs.C04DefaultsModule
import GqlVerif.Proofs.C04RustCoercionWitness
/-!
# C04 — default literals: a worked instance, and what an invalid default gives

The schema of `C04SurjectiveExamples.lean` (`scalar Date`, `enum Dir { UP DOWN }`, `input Filter { name: String!,
when: Date, dir: Dir, tags: [String!], next: Filter, sel: Sel }` — `next` boxed —, `input Sel @oneOf { byId: ID,
byName: String }`) with

```graphql
query Q($n: Int = 7, $r: Float = 3, $rs: [Float!]! = 1.5, $b: Boolean! = true, $i: ID = 9, $s: String = "hi",
        $w: Date = "2020-01-01", $d: [[Dir!]] = UP,
        $f: Filter = {name: "a", when: null, tags: "t", dir: DOWN, next: {name: "b"}, sel: {byId: 5}}, $g: [Int] = [1, 2],
        $z: Int = null, $zs: [Int] = [1, null], $k: Int) { x }
```
every literal kind: `bool`, `str`, `int`, `float` (from a float token and from an integer at `Float`), `str` from an
integer at `ID`, `some` / `none`, `vec` (a list, a coerced single value, a doubly coerced one), `box`, `struct`,
`path`, `variant`; `null` at the three kinds of nullable position (the variable itself, a list element, a member).

* `dx_bodies`: the bodies `defaultBodies` computes; `dx_hyps` + `dx_valid`: every hypothesis of `default_typechecks` /
  `default_value_correct` holds for every default; `dx_typechecks`, `dx_value_correct`: the theorems on the instance;
  `dx_run`: the model's own evaluation — each body type-checks and is written as the coerced canonical default.
* negative witnesses (`nx_*`): what an invalid default gives — see each statement.  Two are NOT rejected in any way:
  ONE is not rejected in any way: an unknown member of an input object literal is dropped silently
  (`nx_unknown_field_dropped`).  `null_default_panics`: since the repair of the generator `null` at a nullable position
  is `None` — correct, part of the instance — while `null` at a non-null position (an invalid default) and a variable
  inside a default still make it panic.
-/
namespace GqlVerif
namespace C04D
open Codegen Serde C04S C04R C13

mutual
  /-- structural equality test on `LitExpr` (the derived `BEq` does not reduce in the kernel) -/
  def litEqB : LitExpr → LitExpr → Bool
    | .bool a, .bool b => a == b
    | .str a, .str b => a == b
    | .int a, .int b => a == b
    | .float a, .float b => a == b
    | .some a, .some b => litEqB a b
    | .none, .none => true
    | .vec xs, .vec ys => litsEqB xs ys
    | .box a, .box b => litEqB a b
    | .struct n xs, .struct m ys => n == m && litFieldsEqB xs ys
    | .path a v, .path b w => a == b && v == w
    | .variant a v x, .variant b w y => a == b && v == w && litEqB x y
    | .ident a, .ident b => a == b
    | .compileError a, .compileError b => a == b
    | _, _ => false
  def litsEqB : List LitExpr → List LitExpr → Bool
    | [], [] => true
    | x :: xs, y :: ys => litEqB x y && litsEqB xs ys
    | _, _ => false
  def litFieldsEqB : List (String × LitExpr) → List (String × LitExpr) → Bool
    | [], [] => true
    | (k, x) :: xs, (l, y) :: ys => k == l && litEqB x y && litFieldsEqB xs ys
    | _, _ => false
end

def bodiesEqB : List (String × LitExpr) → List (String × LitExpr) → Bool := litFieldsEqB

/-! ## the instance -/

def dxFilter : Value :=
  .obj [("name", .str "a"), ("when", .null), ("tags", .str "t"), ("dir", .enum "DOWN"),
        ("next", .obj [("name", .str "b")]), ("sel", .obj [("byId", .int 5)])]

def dxVars : List RVariable :=
  [{ opIdx := 0, name := "n", default := some (.int 7), ty := { id := .scalar 2, quals := [] } },
   { opIdx := 0, name := "r", default := some (.int 3), ty := { id := .scalar 3, quals := [] } },
   { opIdx := 0, name := "rs", default := some (.float "1.5"),
     ty := { id := .scalar 3, quals := [.required, .list, .required] } },
   { opIdx := 0, name := "b", default := some (.bool true), ty := { id := .scalar 4, quals := [.required] } },
   { opIdx := 0, name := "i", default := some (.int 9), ty := { id := .scalar 0, quals := [] } },
   { opIdx := 0, name := "s", default := some (.str "hi"), ty := { id := .scalar 1, quals := [] } },
   { opIdx := 0, name := "w", default := some (.str "2020-01-01"), ty := { id := .scalar 5, quals := [] } },
   { opIdx := 0, name := "d", default := some (.enum "UP"), ty := { id := .enum 0, quals := [.list, .list, .required] } },
   { opIdx := 0, name := "f", default := some dxFilter, ty := { id := .input 0, quals := [] } },
   { opIdx := 0, name := "g", default := some (.list [.int 1, .int 2]), ty := { id := .scalar 2, quals := [.list] } },
   { opIdx := 0, name := "z", default := some .null, ty := { id := .scalar 2, quals := [] } },
   { opIdx := 0, name := "zs", default := some (.list [.int 1, .null]), ty := { id := .scalar 2, quals := [.list] } },
   { opIdx := 0, name := "k", default := none, ty := { id := .scalar 2, quals := [] } }]

def dxQuery : Query :=
  { operations := [{ name := "Q", kind := .query, objectId := 0, sels := [.field none 0 []] }], variables := dxVars }

def dxCtx : Ctx := { s := exSchema, q := dxQuery, o := {}, cs := ⟨id, id⟩ }
def dxItems : List Item := C09N.itemsOf dxCtx
def dxEnv : Env := moduleEnv dxCtx dxItems

set_option maxRecDepth 100000 in
theorem dx_gen : responseForQuery dxCtx 0 = .ok dxItems := C09N.itemsOf_ok (by decide +kernel)

/-- the inner `Filter { name: "b", .. }` -/
def dxInner : LitExpr :=
  .struct "Filter" [("name", .str "b"), ("when", .none), ("dir", .none), ("tags", .none), ("next", .box .none),
                    ("sel", .none)]

def dxBodies : List (String × LitExpr) :=
  [("default_n", .some (.int 7)),
   ("default_r", .some (.float "3")),
   ("default_rs", .vec [.float "1.5"]),
   ("default_b", .bool true),
   ("default_i", .some (.str "9")),
   ("default_s", .some (.str "hi")),
   ("default_w", .some (.str "2020-01-01")),
   ("default_d", .some (.vec [.some (.vec [.path "Dir" "UP"])])),
   ("default_f", .some (.struct "Filter"
      [("name", .str "a"), ("when", .none), ("dir", .some (.path "Dir" "DOWN")), ("tags", .some (.vec [.str "t"])),
       ("next", .box (.some dxInner)), ("sel", .some (.variant "Sel" "byId" (.str "5")))])),
   ("default_g", .some (.vec [.some (.int 1), .some (.int 2)])),
   ("default_z", .none),
   ("default_zs", .some (.vec [.some (.int 1), .none]))]

set_option maxRecDepth 100000 in
/-- the bodies, every literal kind -/
theorem dx_bodies : (match defaultBodies dxCtx 0 with
    | .ok bs => bodiesEqB bs dxBodies
    | .error _ => false) = true := by decide +kernel

set_option maxRecDepth 100000 in
/-- the hypotheses of `default_typechecks` on the module -/
theorem dx_hyps :
    dxCtx.o.normalization = .none ∧
    (∀ i ∈ dxCtx.s.inputs, keywordReplace i.name = i.name) ∧
    (∀ n ∈ dxCtx.s.scalars, keywordReplace n = n) ∧
    (∀ e ∈ dxCtx.s.enums, keywordReplace e.name = e.name) ∧
    C02.OutputOnly dxCtx.s dxCtx.q = true ∧ C02.InputFieldsRelevant dxCtx.s = true ∧
    (∀ v ∈ dxCtx.q.opVariables 0, C02.Relevant v.ty.id) ∧
    (Scope.defines dxItems).Nodup ∧ (∀ it ∈ dxItems, (C02.memberIdents it).Nodup) ∧
    (∀ it ∈ dxItems, C01.notPrim it.name) ∧ ExternsFree dxCtx dxItems ∧ dxCtx.o.externEnums = [] := by
  obtain ⟨_, h2, h3, h4, _, h6, _⟩ := ex_hyps false
  refine ⟨rfl, h2, h3, h4, (by decide : C02.OutputOnly exSchema dxQuery = true), h6, ?_, ?_, ?_, ?_, ?_, rfl⟩
  · have : ∀ v ∈ dxVars, C02.Relevant v.ty.id := by
      intro v hv
      simp only [dxVars, List.mem_cons, List.not_mem_nil, or_false] at hv
      rcases hv with rfl | rfl | rfl | rfl | rfl | rfl | rfl | rfl | rfl | rfl | rfl | rfl | rfl <;> trivial
    intro v hv
    exact this v (List.mem_filter.mp hv).1
  · decide +kernel
  · decide +kernel
  · decide +kernel
  · unfold ExternsFree
    decide +kernel

/-- every default of the instance is valid for its declared type (with list input coercion: `rs`, `d`, `f.tags`),
    satisfies `kindOk` and nests fewer than 64 levels -/
def defaultOkB (L : Leaves) (s : Schema) (v : RVariable) : Bool :=
  match v.default with
  | none => true
  | some d => validCB L s 20 v.ty.id false (gty v.ty) (valueJson d) && kindOk s v.ty.id d && decide (valueDepth d < 64)

/-- a token with a character that is neither a digit, `_` nor `-` is not an integer token (`String.toInt?` does not
    reduce in the kernel: the side condition of `kindOk` on a float token is shown, not computed) -/
theorem toInt?_none_of_mem (s : String) (ch : Char) (hc : ch ∈ s.toList) (hd : ch.isDigit = false) (hu : ch ≠ '_')
    (hm : ch ≠ '-') : s.toInt? = none := by
  rw [String.toInt?_eq_none_iff]
  apply Bool.eq_false_iff.mpr
  intro hi
  rw [String.isInt_iff] at hi
  rcases hi with hn | ⟨t, rfl, hn⟩
  · rcases (String.isNat_iff.mp hn).2.1 ch hc with h | h
    · rw [hd] at h; cases h
    · exact hu h
  · have hc' : ch ∈ t.toList := by
      simp only [String.toList_append, List.mem_append] at hc
      rcases hc with h | h
      · have : "-".toList = ['-'] := by decide
        rw [this, List.mem_singleton] at h
        exact absurd h hm
      · exact h
    rcases (String.isNat_iff.mp hn).2.1 ch hc' with h | h
    · rw [hd] at h; cases h
    · exact hu h

theorem dx_float_tok : "1.5".toInt? = none :=
  toInt?_none_of_mem "1.5" '.' (by decide) (by decide) (by decide) (by decide)

set_option maxRecDepth 100000 in
theorem dx_valid : ∀ v ∈ dxCtx.q.opVariables 0, defaultOkB Leaves.graphql exSchema v = true := by
  have hall : ∀ v ∈ dxVars, defaultOkB Leaves.graphql exSchema v = true := by
    intro v hv
    simp only [dxVars, List.mem_cons, List.not_mem_nil, or_false] at hv
    rcases hv with rfl | rfl | rfl | rfl | rfl | rfl | rfl | rfl | rfl | rfl | rfl | rfl | rfl
    · decide +kernel
    · decide +kernel
    · -- `$rs: [Float!]! = 1.5`: the float token
      have h1 : validCB Leaves.graphql exSchema 20 (.scalar 3) false
          (gty { id := .scalar 3, quals := [.required, .list, .required] }) (valueJson (.float "1.5")) = true := by
        decide +kernel
      have h2 : kindOk exSchema (.scalar 3) (.float "1.5") = true := by simp [kindOk, dx_float_tok]
      have h3 : valueDepth (.float "1.5") < 64 := by decide
      simp only [defaultOkB, h1, h2, h3, decide_true, Bool.and_self]
    · decide +kernel
    · decide +kernel
    · decide +kernel
    · decide +kernel
    · decide +kernel
    · decide +kernel
    · decide +kernel
    · decide +kernel
    · decide +kernel
    · decide +kernel
  intro v hv
  exact hall v (List.mem_filter.mp hv).1

theorem defaultOkB_sound {L : Leaves} {s : Schema} {v : RVariable} {d : Value} (h : defaultOkB L s v = true)
    (hd : v.default = some d) :
    ValidC L s v.ty.id false (gty v.ty) (valueJson d) ∧ kindOk s v.ty.id d = true ∧ valueDepth d < 64 := by
  simp only [defaultOkB, hd, Bool.and_eq_true, decide_eq_true_eq] at h
  exact ⟨validCB_sound L s _ _ _ _ _ h.1.1, h.1.2, h.2⟩

/-- **`default_typechecks` on the instance**: every `default_*` body type-checks at the variable's type -/
theorem dx_typechecks (v : RVariable) (hv : v ∈ dxCtx.q.opVariables 0) (d : Value) (hd : v.default = some d) :
    ∃ lit t x, valueToLiteral dxCtx 64 d v.ty.id v.ty.quals = .ok lit ∧ lit.hasCompileError = false ∧
      variableType dxCtx v = .ok t ∧ evalLit dxEnv lit t = some x ∧ HasTy dxEnv t x := by
  obtain ⟨h1, h2, h3, h4, h5, h6, h7, h8, h9, h10, h11, h12⟩ := dx_hyps
  obtain ⟨hv1, hv2, hv3⟩ := defaultOkB_sound (dx_valid v hv) hd
  exact default_typechecks Leaves.graphql dxCtx 0 dxItems h1 h2 h3 h4 h5 h6 h7 h8 h9 h10 h11 int32_sub_i64 rfl h12
    dx_gen v hv d hv1 hv2 hv3

/-- **`default_value_correct` on the instance** -/
theorem dx_value_correct (v : RVariable) (hv : v ∈ dxCtx.q.opVariables 0) (d : Value) (hd : v.default = some d) :
    ∃ lit t x, valueToLiteral dxCtx 64 d v.ty.id v.ty.quals = .ok lit ∧ variableType dxCtx v = .ok t ∧
      evalLit dxEnv lit t = some x ∧
      Serde.ser dxEnv t x =
        .ok (canon exSchema false v.ty.id (gty v.ty) (coerce exSchema v.ty.id (gty v.ty) (valueJson d))) := by
  obtain ⟨h1, h2, h3, h4, h5, h6, h7, h8, h9, h10, h11, h12⟩ := dx_hyps
  obtain ⟨hv1, hv2, hv3⟩ := defaultOkB_sound (dx_valid v hv) hd
  obtain ⟨lit, t, x, hl, _, ht, hx, _⟩ := dx_typechecks v hv d hd
  exact ⟨lit, t, x, hl, ht, hx, default_value_correct Leaves.graphql dxCtx 0 dxItems h1 h2 h3 h4 h5 h6 h7 h8 h9 h10 h11
    int32_sub_i64 rfl h12 dx_gen v hv d hv1 hv2 hv3 lit t x hl ht hx⟩

/-- run the model on one variable: literal, evaluation at the variable's type, serialization, comparison -/
def runDefault (c : Ctx) (e : Env) (v : RVariable) (expected : Json) : Bool :=
  match v.default with
  | none => false
  | some d =>
    match valueToLiteral c 64 d v.ty.id v.ty.quals, variableType c v with
    | .ok lit, .ok t =>
      (match evalLit e lit t with
       | some x => (match Serde.ser e t x with
         | .ok j => jsonEqB j expected
         | .error _ => false)
       | none => false)
    | _, _ => false

/-- the declared defaults, coerced to the declared type, in canonical form -/
def dxExpected : List Json :=
  [.int 7, .int 3, .arr [.num "1.5"], .bool true, .str "9", .str "hi", .str "2020-01-01", .arr [.arr [.str "UP"]],
   .obj [("name", .str "a"), ("when", .null), ("dir", .str "DOWN"), ("tags", .arr [.str "t"]),
         ("next", .obj [("name", .str "b"), ("when", .null), ("dir", .null), ("tags", .null), ("next", .null),
                        ("sel", .null)]),
         ("sel", .obj [("byId", .str "5")])],
   .arr [.int 1, .int 2], .null, .arr [.int 1, .null]]

set_option maxRecDepth 100000 in
/-- **the model's own run**: each body type-checks and is written as the expected JSON (the two `Float` variables
    are left to `dx_value_correct` + `dx_expected`: `String.toInt?`, inside `floatJson`, does not reduce in the kernel) -/
theorem dx_run : (((dxVars.take 12).zip dxExpected).filter (fun p => p.1.ty.id != .scalar 3)).all
    (fun p => runDefault dxCtx dxEnv p.1 p.2) = true := by
  decide +kernel

set_option maxRecDepth 100000 in
/-- the right-hand sides of `dx_value_correct`, computed: `canon (coerce (valueJson default))` is `dxExpected` -/
theorem dx_expected : ((dxVars.take 12).zip dxExpected).all (fun p =>
    match p.1.default with
    | none => false
    | some d => jsonEqB (canon exSchema false p.1.ty.id (gty p.1.ty) (coerce exSchema p.1.ty.id (gty p.1.ty) (valueJson d)))
        p.2) = true := by
  decide +kernel

/-! ## what an invalid default gives -/

/-- the literal for the default `d` of a variable of type `id` / `quals` in the instance's schema -/
def nxLit (d : Value) (id : TypeId) (quals : List Qual) : Outcome LitExpr := valueToLiteral dxCtx 64 d id quals

def isCompileError : Outcome LitExpr → Bool
  | .ok lit => lit.hasCompileError
  | .error _ => false

def isPanic (msg : String) : Outcome LitExpr → Bool
  | .error (.panic m) => m == msg
  | _ => false

/-- the literal is produced, has no `compile_error!`, and does not type-check at `t` -/
def illTyped (r : Outcome LitExpr) (t : RTy) : Bool :=
  match r with
  | .ok lit => !lit.hasCompileError && (evalLit dxEnv lit t).isNone
  | .error _ => false

set_option maxRecDepth 100000 in
/-- wrong kind — `$a: Int = "x"`, `$a: Int = 1.5`, `$a: String = 1`, `$a: Int = [1]`, `$a: Boolean = 1`: the literal
    (`Some("x".to_string())`, …) is **ill-typed** at the variable's type -/
theorem nx_wrong_kind :
    illTyped (nxLit (.str "x") (.scalar 2) []) (.opt (.path "Int")) = true ∧
    illTyped (nxLit (.float "1.5") (.scalar 2) []) (.opt (.path "Int")) = true ∧
    illTyped (nxLit (.int 1) (.scalar 1) []) (.opt (.path "String")) = true ∧
    illTyped (nxLit (.list [.int 1]) (.scalar 2) []) (.opt (.path "Int")) = true ∧
    illTyped (nxLit (.int 1) (.scalar 4) []) (.opt (.path "Boolean")) = true := by
  refine ⟨?_, ?_, ?_, ?_, ?_⟩ <;> decide +kernel

set_option maxRecDepth 100000 in
/-- an object literal at a type that is not an input object — `$a: Int = {k: 1}`: **`compile_error!`** -/
theorem nx_object_at_scalar : isCompileError (nxLit (.obj [("k", .int 1)]) (.scalar 2) []) = true := by
  decide +kernel

set_option maxRecDepth 100000 in
/-- unknown enum value — `$e: Dir = SIDEWAYS`: `Some(Dir::SIDEWAYS)`, **ill-typed** (no such variant); an enum literal
    at a type that is not an enum — `$e: String = UP`: **ill-typed**; a string literal at an enum type —
    `$e: Dir = "UP"` (the JSON spelling is the valid `"UP"`: what `kindOk` excludes): `Some("UP".to_string())`,
    **ill-typed** -/
theorem nx_enum :
    illTyped (nxLit (.enum "SIDEWAYS") (.enum 0) []) (.opt (.path "Dir")) = true ∧
    illTyped (nxLit (.enum "UP") (.scalar 1) []) (.opt (.path "String")) = true ∧
    illTyped (nxLit (.str "UP") (.enum 0) []) (.opt (.path "Dir")) = true := by
  refine ⟨?_, ?_, ?_⟩ <;> decide +kernel

set_option maxRecDepth 100000 in
/-- a missing member of non-null type — `$f: Filter = {}` (`name: String!`): `Filter { name: None, .. }`,
    **ill-typed** -/
theorem nx_missing_required : illTyped (nxLit (.obj []) (.input 0) []) (.opt (.path "Filter")) = true := by
  decide +kernel

set_option maxRecDepth 100000 in
/-- two members, or none, in a `@oneOf` literal — `$o: Sel = {byId: 1, byName: "x"}`, `$o: Sel = {}`:
    **`compile_error!`**; a member that does not exist — `$o: Sel = {bogus: 1}`: the same (no member is recognised) -/
theorem nx_oneOf :
    isCompileError (nxLit (.obj [("byId", .int 1), ("byName", .str "x")]) (.input 1) []) = true ∧
    isCompileError (nxLit (.obj []) (.input 1) []) = true ∧
    isCompileError (nxLit (.obj [("bogus", .int 1)]) (.input 1) []) = true := by
  refine ⟨?_, ?_, ?_⟩ <;> decide +kernel

set_option maxRecDepth 100000 in
/-- **an unknown member of a plain input object is NOT rejected** — `$f: Filter = {name: "a", bogus: 1}`: the literal
    is that of `{name: "a"}` (the generator walks the declared fields), it type-checks, and is written without the
    unknown member — neither `compile_error!`, nor ill-typed, nor a panic -/
theorem nx_unknown_field_dropped :
    (match nxLit (.obj [("name", .str "a"), ("bogus", .int 1)]) (.input 0) [],
           nxLit (.obj [("name", .str "a")]) (.input 0) [] with
     | .ok l1, .ok l2 => litEqB l1 l2 && !l1.hasCompileError &&
        (match evalLit dxEnv l1 (.opt (.path "Filter")) with
         | some x => (match Serde.ser dxEnv (.opt (.path "Filter")) x with
           | .ok j => jsonEqB j (.obj [("name", .str "a"), ("when", .null), ("dir", .null), ("tags", .null),
                                      ("next", .null), ("sel", .null)])
           | .error _ => false)
         | none => false)
     | _, _ => false) = true := by decide +kernel

def isOkLit (expected : LitExpr) : Outcome LitExpr → Bool
  | .ok lit => litEqB lit expected
  | .error _ => false

set_option maxRecDepth 100000 in
/-- **`null`** (restated after the repair of the generator).  At a nullable position — the variable itself
    (`$z: Int = null`), a list element (`$zs: [Int] = [1, null]`), a member (`{name: "a", when: null}`), the element
    position of an invalid list (`$z: Int = [null]`) — it is valid and rendered as `None`: CORRECT, see `z`, `zs`,
    `f.when` of the instance (`dx_typechecks`, `dx_value_correct`, `dx_run`).  At a NON-NULL position —
    `$z: Int! = null`, `$zs: [Int!] = [1, null]`, `{name: null}` (`name: String!`), the member of a `@oneOf` literal
    `{byId: null}` — it is invalid (`validCB` rejects) and the generator still **panics**; as does a variable inside a
    default (invalid: a default is a constant) -/
theorem null_default_panics :
    -- nullable positions: `None`
    validCB Leaves.graphql exSchema 20 (.scalar 2) false (.named "") (valueJson .null) = true ∧
    isOkLit .none (nxLit .null (.scalar 2) []) = true ∧
    validCB Leaves.graphql exSchema 20 (.scalar 2) false (.list (.named "")) (valueJson (.list [.int 1, .null])) = true ∧
    isOkLit (.some (.vec [.some (.int 1), .none])) (nxLit (.list [.int 1, .null]) (.scalar 2) [.list]) = true ∧
    isOkLit (.some (.vec [.none])) (nxLit (.list [.null]) (.scalar 2) []) = true ∧
    -- non-null positions: invalid, and a panic
    validCB Leaves.graphql exSchema 20 (.scalar 2) false (.nonNull (.named "")) (valueJson .null) = false ∧
    isPanic "null as default value" (nxLit .null (.scalar 2) [.required]) = true ∧
    validCB Leaves.graphql exSchema 20 (.scalar 2) false (.list (.nonNull (.named "")))
      (valueJson (.list [.int 1, .null])) = false ∧
    isPanic "null as default value" (nxLit (.list [.int 1, .null]) (.scalar 2) [.list, .required]) = true ∧
    isPanic "null as default value" (nxLit (.obj [("name", .null)]) (.input 0) []) = true ∧
    isPanic "null as default value" (nxLit (.obj [("byId", .null)]) (.input 1) []) = true ∧
    -- a variable
    isPanic "variable in variable" (nxLit (.var "v") (.scalar 2) []) = true := by
  refine ⟨?_, ?_, ?_, ?_, ?_, ?_, ?_, ?_, ?_, ?_, ?_, ?_⟩ <;> decide +kernel

end C04D
end GqlVerif
