import GqlVerif.Proofs.C01Abstract
/-!
# C01 / C03 end to end, step 2: named fragment spreads (`FragmentOp`), part A: class and closed form

`FragmentOp` extends `VariantOp` by **named fragment spreads on the parent type itself** in object-level
selection sets (the root selection set and the sub-selections of object-typed fields).  Fragment bodies are
spread-free selection sets of the class `VariantOp` (**non-recursive fragments**; recursive / nested fragments
and spreads inside abstract positions or inline fragments are out of scope).

* the generator emits one struct per spread fragment (`fragment_struct_shape`), a `#[serde(flatten)]` member per
  spread (`spreadField`), and a **type alias** where a selection set consists of a single spread
  (`bodyItemsF`);
* `fragment_items_shape` — `responseItems c op = .ok (bodyItemsF …)` for every operation of the class;
* `not_recursive_of_fragOk` — such fragments are not recursive for the generator (`fragmentIsRecursive = false`:
  no `Box`).
-/
set_option linter.unusedSimpArgs false
set_option linter.unusedVariables false
namespace GqlVerif
namespace C01
namespace E2E
open Serde Spec C13 C03 Codegen

/-! ## the class -/

/-- a fragment that may be spread into a selection set on `parent`: it exists, is on `parent` itself, is not
    named `ID` (the generator would attach the ID helper to the member), and its body is a spread-free selection
    set of the class `VariantOp` (so: **non-recursive**) with pairwise distinct response keys -/
def fragOk (s : Schema) (q : Query) (o : Options) (parent : TypeId) (fid : Nat) : Bool :=
  match q.fragments[fid]? with
  | some f => f.on == parent && f.name != "ID" && vSels s o false f.sels && EnumSpec.nodup (respKeys s f.sels)
  | none => false

mutual
  /-- one selection of an object-level selection set on `parent` -/
  def fSel (s : Schema) (q : Query) (o : Options) (parent : TypeId) : Sel → Bool
    | .field _ fid sub =>
      match s.fields[fid]? with
      | none => false
      | some sf =>
        wfQuals sf.ty.quals && !(sf.deprecation.isSome && o.deprecation == .deny) &&
        (match sf.ty.id with
         | .scalar k => (s.scalars[k]?).isSome && sub.isEmpty
         | .enum k => (s.enums[k]?).isSome && sub.isEmpty
         | .object i => (s.objects[i]?).isSome &&
            (match sub with
             | [.spread g] => fragOk s q o (.object i) g
             | _ => fSels s q o (.object i) sub)
         | .interface k => (s.interfaces[k]?).isSome && vSels s o true sub && absOk s o (.interface k) sub
         | .union u => (s.unions[u]?).isSome && vSels s o true sub && absOk s o (.union u) sub
         | .input _ => false)
    | .typename => true
    | .spread g => fragOk s q o parent g
    | .inline _ _ => false
  def fSels (s : Schema) (q : Query) (o : Options) (parent : TypeId) : List Sel → Bool
    | [] => true
    | x :: xs => fSel s q o parent x && fSels s q o parent xs
end

/-- the body of an object-level selection set: a lone spread (type alias) or a selection set of the class -/
def fBody (s : Schema) (q : Query) (o : Options) (parent : TypeId) (sels : List Sel) : Bool :=
  match sels with
  | [.spread g] => fragOk s q o parent g
  | _ => fSels s q o parent sels

/-- **the class `FragmentOp`** (decidable): as `VariantOp`, plus named fragment spreads on the parent type itself
    in the root selection set and in the sub-selections of object-typed fields; fragment bodies are
    spread-free (non-recursive fragments).  Abstract positions and inline fragment bodies are as in `VariantOp`. -/
def FragmentOp (c : Ctx) (op : ROperation) : Bool :=
  c.o.normalization == .none && (c.s.objects[op.objectId]?).isSome &&
  fBody c.s c.q c.o (.object op.objectId) op.sels

/-! ## closed form -/

/-- the flattened member emitted for a spread of `f` -/
def spreadField (c : Ctx) (f : RFragment) : RField :=
  { rust := keywordReplace (c.cs.snake f.name), ty := .path f.name, flatten := true }

def fieldOfSelF (c : Ctx) (pfx : String) : Sel → Option RField
  | .spread g => (c.q.fragments[g]?).map (spreadField c)
  | x => fieldOfSelV c pfx x

def fieldsOfF (c : Ctx) (pfx : String) (sels : List Sel) : List RField := sels.filterMap (fieldOfSelF c pfx)

def fragName (c : Ctx) (g : Nat) : String :=
  match c.q.fragments[g]? with
  | some f => f.name
  | none => ""

mutual
  def itemsF (c : Ctx) (pfx : String) : Sel → List Item
    | .field a fid sub =>
      match c.s.fields[fid]? with
      | none => []
      | some sf =>
        match sf.ty.id with
        | .object _ =>
          (match sub with
           | [.spread g] => [aliasItem (pfx ++ c.cs.camel (a.getD sf.name)) (fragName c g) false]
           | _ => .struct (pfx ++ c.cs.camel (a.getD sf.name)) c.respDerives c.serdeCrate
                    (fieldsOfF c (pfx ++ c.cs.camel (a.getD sf.name)) sub) ::
                  itemsFs c (pfx ++ c.cs.camel (a.getD sf.name)) sub)
        | .interface k => absItemsV c (pfx ++ c.cs.camel (a.getD sf.name)) (pfx ++ c.cs.camel (a.getD sf.name)) (.interface k) sub
        | .union u => absItemsV c (pfx ++ c.cs.camel (a.getD sf.name)) (pfx ++ c.cs.camel (a.getD sf.name)) (.union u) sub
        | _ => []
    | _ => []
  def itemsFs (c : Ctx) (pfx : String) : List Sel → List Item
    | [] => []
    | x :: xs => itemsF c pfx x ++ itemsFs c pfx xs
end

/-- **closed form** of the items of an object-level selection set: a type alias for a lone spread; otherwise the
    struct (own fields and one flattened member per spread, in selection order) and the nested items -/
def bodyItemsF (c : Ctx) (name pfx : String) (sels : List Sel) : List Item :=
  match sels with
  | [.spread g] => [aliasItem name (fragName c g) false]
  | _ => .struct name c.respDerives c.serdeCrate (fieldsOfF c pfx sels) :: itemsFs c pfx sels


/-! ## spread-free selections are not recursive -/

mutual
  def noSpread : Sel → Bool
    | .field _ _ sub => noSpreads sub
    | .inline _ sub => noSpreads sub
    | .spread _ => false
    | .typename => true
  def noSpreads : List Sel → Bool
    | [] => true
    | x :: xs => noSpread x && noSpreads xs
end

mutual
  theorem noSpread_of_vSel (s : Schema) (o : Options) : ∀ (x : Sel) (abs : Bool), vSel s o abs x = true → noSpread x = true
    | .field a fid sub, abs => by
      intro h
      have IH := noSpreads_of_vSels s o sub
      rw [vSel] at h
      rw [noSpread]
      cases hsf : s.fields[fid]? with
      | none => simp [hsf] at h
      | some sf =>
        simp only [hsf, Bool.and_eq_true] at h
        obtain ⟨_, hty⟩ := h
        cases hid : sf.ty.id with
        | scalar k =>
          simp only [hid, Bool.and_eq_true, List.isEmpty_iff] at hty
          rw [hty.2]; rfl
        | «enum» k =>
          simp only [hid, Bool.and_eq_true, List.isEmpty_iff] at hty
          rw [hty.2]; rfl
        | object i => simp only [hid, Bool.and_eq_true] at hty; exact IH _ hty.1.2
        | interface k => simp only [hid, Bool.and_eq_true] at hty; exact IH _ hty.1.2
        | union k => simp only [hid, Bool.and_eq_true] at hty; exact IH _ hty.1.2
        | input k => simp [hid] at hty
    | .inline t sub, abs => by
      intro h
      simp only [vSel, Bool.and_eq_true] at h
      rw [noSpread]; exact noSpreads_of_vSels s o sub _ h.1.2
    | .spread _, _ => by intro h; simp [vSel] at h
    | .typename, _ => by intro _; rfl
  theorem noSpreads_of_vSels (s : Schema) (o : Options) : ∀ (sels : List Sel) (abs : Bool), vSels s o abs sels = true →
      noSpreads sels = true
    | [], _ => by intro _; rfl
    | x :: xs, abs => by
      intro h
      obtain ⟨hx, hxs⟩ := vSels_cons h
      rw [noSpreads, noSpread_of_vSel s o x abs hx, noSpreads_of_vSels s o xs abs hxs]; rfl
end

theorem reaches_noSpreads (q : Query) (target : Nat) : ∀ (fuel : Nat) (visited : List Nat) (sels : List Sel),
    noSpreads sels = true → reachesFragment q target fuel visited sels = (false, visited)
  | 0, _, _, _ => rfl
  | fuel + 1, visited, sels, h => by
    rw [reachesFragment]
    induction sels with
    | nil => rfl
    | cons x xs ih =>
      rw [noSpreads, Bool.and_eq_true] at h
      rw [List.foldl_cons]
      cases x with
      | field a fid sub =>
        simp only [Bool.false_eq_true, ↓reduceIte]
        rw [reaches_noSpreads q target fuel visited sub (by simpa [noSpread] using h.1)]
        exact ih h.2
      | inline t sub =>
        simp only [Bool.false_eq_true, ↓reduceIte]
        rw [reaches_noSpreads q target fuel visited sub (by simpa [noSpread] using h.1)]
        exact ih h.2
      | spread g => simp [noSpread] at h
      | typename =>
        simp only [Bool.false_eq_true, ↓reduceIte]
        exact ih h.2

theorem fragOk_parts {s : Schema} {q : Query} {o : Options} {parent : TypeId} {g : Nat}
    (h : fragOk s q o parent g = true) :
    ∃ f, q.fragments[g]? = some f ∧ f.on = parent ∧ f.name ≠ "ID" ∧ vSels s o false f.sels = true ∧
      EnumSpec.nodup (respKeys s f.sels) = true := by
  unfold fragOk at h
  cases hf : q.fragments[g]? with
  | none => simp [hf] at h
  | some f =>
    simp only [hf, Bool.and_eq_true, beq_iff_eq, bne_iff_ne] at h
    exact ⟨f, rfl, h.1.1.1, h.1.1.2, h.1.2, h.2⟩

theorem not_recursive_of_fragOk {s : Schema} {q : Query} {o : Options} {parent : TypeId} {g : Nat}
    (h : fragOk s q o parent g = true) : fragmentIsRecursive q g = false := by
  obtain ⟨f, hf, _, _, hv, _⟩ := fragOk_parts h
  unfold fragmentIsRecursive
  rw [hf]
  simp only [reaches_noSpreads q g _ [] f.sels (noSpreads_of_vSels s o f.sels false hv)]

theorem getFragment_of {q : Query} {i : Nat} {x : RFragment} (h : q.fragments[i]? = some x) : q.getFragment i = .ok x := by
  simp [Query.getFragment, h, pure, Except.pure]

theorem renderField_spread (c : Ctx) (f : RFragment) (hid : f.name ≠ "ID") :
    renderField c none (keywordReplace (c.cs.snake f.name)) f.name [.required] true false none =
      .ok (some (spreadField c f)) := by
  unfold renderField
  simp [decorateType, decorateStep, bind, Except.bind, pure, Except.pure, hid, spreadField, Option.bind]


/-! ## Theorem 1 for `FragmentOp` -/

theorem fSels_cons {s : Schema} {q : Query} {o : Options} {p : TypeId} {x : Sel} {xs : List Sel}
    (h : fSels s q o p (x :: xs) = true) : fSel s q o p x = true ∧ fSels s q o p xs = true := by
  simpa [fSels] using h

theorem fBody_not_lone {s : Schema} {q : Query} {o : Options} {p : TypeId} {sels : List Sel}
    (h : ∀ g, sels ≠ [Sel.spread g]) : fBody s q o p sels = fSels s q o p sels := by
  unfold fBody
  split
  · rename_i g; exact absurd rfl (h g)
  · rfl

theorem bodyItemsF_not_lone (c : Ctx) (name pfx : String) {sels : List Sel} (h : ∀ g, sels ≠ [Sel.spread g]) :
    bodyItemsF c name pfx sels =
      .struct name c.respDerives c.serdeCrate (fieldsOfF c pfx sels) :: itemsFs c pfx sels := by
  unfold bodyItemsF
  split
  · rename_i g; exact absurd rfl (h g)
  · rfl

theorem fieldsOfF_cons (c : Ctx) (pfx : String) (x : Sel) (xs : List Sel) :
    fieldsOfF c pfx (x :: xs) = (fieldOfSelF c pfx x).toList ++ fieldsOfF c pfx xs := by
  unfold fieldsOfF
  rw [List.filterMap_cons]
  cases fieldOfSelF c pfx x <;> rfl

section CalcF
variable (c : Ctx) (hn : c.o.normalization = .none) (N M : Nat)

def F1 (fuel : Nat) : Prop := ∀ name pfx i sels e, selsDepth sels ≤ e → selsSize sels ≤ N →
  C02.Sb N M e ≤ fuel → fBody c.s c.q c.o (.object i) sels = true →
  calcSelection c fuel name pfx (.object i) sels = .ok (bodyItemsF c name pfx sels)
def F4 (fuel : Nat) : Prop := ∀ pfx i sels e, selsDepth sels ≤ e → selsSize sels ≤ N →
  C02.Fneed N M e sels.length ≤ fuel → fSels c.s c.q c.o (.object i) sels = true →
  calcFields c fuel pfx (.object i) sels = .ok (fieldsOfF c pfx sels, itemsFs c pfx sels)

theorem stepF1 (f : Nat) (H4 : F4 c N M f) : F1 c N M (f + 1) := by
  intro name pfx i sels e hD hS hF ht
  by_cases hsp : ∃ g, sels = [Sel.spread g]
  · obtain ⟨g, rfl⟩ := hsp
    rw [calcSelection.eq_2]
    have hok : fragOk c.s c.q c.o (.object i) g = true := ht
    obtain ⟨fr, hfr, _, _, _, _⟩ := fragOk_parts hok
    simp only [getFragment_of hfr, bind, Except.bind, pure, Except.pure, not_recursive_of_fragOk hok]
    simp [bodyItemsF, fragName, hfr]
  · have hsp' : ∀ g, sels ≠ [Sel.spread g] := fun g hg => hsp ⟨g, hg⟩
    rw [calcSelection.eq_3 _ _ _ _ _ _ (fun g hg => hsp ⟨g, hg⟩)]
    rw [fBody_not_lone hsp'] at ht
    have hv : variantsOf c.s (.object i) = .ok none := rfl
    have hL := C02.length_le_selsSize sels
    have hfields := H4 pfx i sels e hD hS (by
      cases e with
      | zero => simp only [C02.Fneed]; unfold C02.Sb at hF; omega
      | succ e' => simp only [C02.Fneed]; rw [C02.Sb_succ] at hF; omega) ht
    simp only [hv, bind, Except.bind, pure, Except.pure, hfields]
    rw [bodyItemsF_not_lone c name pfx hsp']
    simp [renderType]

include hn in
theorem stepF4 (hM : ∀ ty vts, variantsOf c.s ty = .ok (some vts) → vts.length ≤ M)
    (f : Nat) (H1 : F1 c N M f) (H4 : F4 c N M f) : F4 c N M (f + 1) := by
  intro pfx i sels e hD hS hF ht
  have H1a := (calc_variant c hn N M hM f).2.1
  cases sels with
  | nil => rw [calcFields.eq_2 _ _ _ _ (by omega)]; rfl
  | cons x rest =>
    cases e with
    | zero => have := C02.selsDepth_cons_pos x rest; omega
    | succ e =>
      obtain ⟨hx, hrest⟩ := fSels_cons ht
      rw [selsDepth.eq_2] at hD
      rw [selsSize.eq_2] at hS
      simp only [C02.Fneed, List.length_cons] at hF
      have hR := H4 pfx i rest (e + 1) (by omega) (by omega) (by simp only [C02.Fneed]; omega) hrest
      rw [fieldsOfF_cons, itemsFs]
      cases x with
      | field a fid sub =>
        rw [selDepth.eq_1] at hD
        rw [selSize.eq_1] at hS
        rw [calcFields.eq_3]
        rw [fSel] at hx
        cases hsf : c.s.fields[fid]? with
        | none => simp [hsf] at hx
        | some sf =>
          simp only [hsf, Bool.and_eq_true] at hx
          obtain ⟨⟨hw, hdep⟩, hty⟩ := hx
          have hdep' : (sf.deprecation.isSome && c.o.deprecation == .deny) = false := by
            cases hd : (sf.deprecation.isSome && c.o.deprecation == .deny) with
            | false => rfl
            | true => simp [hd] at hdep
          simp only [getField_of hsf, bind, Except.bind]
          cases hid : sf.ty.id with
          | scalar k =>
            simp only [hid, Bool.and_eq_true] at hty
            cases hk : c.s.scalars[k]? with
            | none => simp [hk] at hty
            | some sn =>
              simp only [getScalar_of hk, hn, C02.fieldType_none, renderField_tree c _ _ _ _ hw hdep', hR,
                pure, Except.pure]
              simp [itemsF, fieldOfSelF, fieldOfSelV, hsf, hid, leafNameV, hk]
          | «enum» k =>
            simp only [hid, Bool.and_eq_true] at hty
            cases hk : c.s.enums[k]? with
            | none => simp [hk] at hty
            | some en =>
              simp only [getEnum_of hk, hn, C02.fieldType_none, renderField_tree c _ _ _ _ hw hdep', hR,
                pure, Except.pure]
              simp [itemsF, fieldOfSelF, fieldOfSelV, hsf, hid, leafNameV, hk]
          | object j =>
            simp only [hid, Bool.and_eq_true] at hty
            have hbody : fBody c.s c.q c.o (.object j) sub = true := hty.2
            have hS' := H1 (pfx ++ c.cs.camel (a.getD sf.name)) (pfx ++ c.cs.camel (a.getD sf.name)) j sub e
              (by omega) (by omega) (by omega) hbody
            simp only [renderField_tree c _ _ _ _ hw hdep', hS', hR, pure, Except.pure]
            have hitems : itemsF c pfx (.field a fid sub) =
                bodyItemsF c (pfx ++ c.cs.camel (a.getD sf.name)) (pfx ++ c.cs.camel (a.getD sf.name)) sub := by
              rw [itemsF]; simp only [hsf, hid]; rfl
            rw [hitems]
            simp [fieldOfSelF, fieldOfSelV, hsf, hid, leafNameV]
          | interface k =>
            simp only [hid, Bool.and_eq_true] at hty
            have hS' := H1a (pfx ++ c.cs.camel (a.getD sf.name)) (pfx ++ c.cs.camel (a.getD sf.name)) (.interface k) sub e
              (by omega) (by omega) (by omega) hty.1.1 hty.1.2 hty.2
            simp only [renderField_tree c _ _ _ _ hw hdep', hS', hR, pure, Except.pure]
            simp [itemsF, fieldOfSelF, fieldOfSelV, hsf, hid, leafNameV]
          | union k =>
            simp only [hid, Bool.and_eq_true] at hty
            have hS' := H1a (pfx ++ c.cs.camel (a.getD sf.name)) (pfx ++ c.cs.camel (a.getD sf.name)) (.union k) sub e
              (by omega) (by omega) (by omega) hty.1.1 hty.1.2 hty.2
            simp only [renderField_tree c _ _ _ _ hw hdep', hS', hR, pure, Except.pure]
            simp [itemsF, fieldOfSelF, fieldOfSelV, hsf, hid, leafNameV]
          | input k => simp [hid] at hty
      | spread g =>
        rw [calcFields.eq_4]
        have hok : fragOk c.s c.q c.o (.object i) g = true := by simpa [fSel] using hx
        obtain ⟨fr, hfr, hon, hname, _, _⟩ := fragOk_parts hok
        have hne : (fr.on != TypeId.object i) = false := by simp [hon]
        simp only [getFragment_of hfr, bind, Except.bind, hR, hne, Bool.false_eq_true, ↓reduceIte,
          not_recursive_of_fragOk hok, renderField_spread c fr hname, pure, Except.pure]
        simp [fieldOfSelF, hfr, itemsF]
      | inline t sub => simp [fSel] at hx
      | typename =>
        rw [calcFields.eq_5 _ _ _ _ _ _ (by simp) (by simp), hR]
        simp [fieldOfSelF, fieldOfSelV, itemsF]

include hn in
theorem calc_fragment (hM : ∀ ty vts, variantsOf c.s ty = .ok (some vts) → vts.length ≤ M) :
    ∀ fuel, F1 c N M fuel ∧ F4 c N M fuel := by
  intro fuel
  induction fuel with
  | zero =>
    refine ⟨?_, ?_⟩
    · intro _ _ _ _ e _ _ h; unfold C02.Sb at h; omega
    · intro _ _ sels e _ _ h; have := C02.Fneed_pos N M e sels.length; omega
  | succ f ih => exact ⟨stepF1 c N M f ih.2, stepF4 c hn N M hM f ih.1 ih.2⟩

end CalcF

theorem fragmentOp_parts {c : Ctx} {op : ROperation} (h : FragmentOp c op = true) :
    c.o.normalization = .none ∧ (c.s.objects[op.objectId]?).isSome = true ∧
      fBody c.s c.q c.o (.object op.objectId) op.sels = true := by
  simp only [FragmentOp, Bool.and_eq_true, beq_iff_eq] at h
  exact ⟨h.1.1, h.1.2, h.2⟩

/-- **Theorem 1 (`fragment_items_shape`).**  For an operation of the class `FragmentOp` the response items are,
    in closed form: a type alias where a selection set is a lone spread; otherwise one struct per object-level
    selection set with one `#[serde(flatten)]` member per spread (in selection order); abstract positions as in
    `variant_items_shape`. -/
theorem fragment_items_shape (c : Ctx) (op : ROperation) (hop : op ∈ c.q.operations) (ht : FragmentOp c op = true) :
    responseItems c op = .ok (bodyItemsF c "ResponseData" (c.cs.camel op.name) op.sels) := by
  obtain ⟨hn, _, hsels⟩ := fragmentOp_parts ht
  have H := (calc_fragment c hn (C02.totalSize c.q) (c.s.objects.length + C02.maxUnion c.s)
    (C02.variants_length_le c.s) (calcFuel c.s c.q)).1
  apply H _ _ _ _ (C02.maxDepth c.q) (C02.op_depth_le c.q op hop) _ (calcFuel_Sb c) hsels
  apply C02.le_foldl_add
  left
  simp only [List.mem_append, List.mem_map]
  exact .inr ⟨op, hop, rfl⟩

/-- **… and the items of a spread fragment**: the struct named like the fragment (prefix: its upper-camel-case
    name) for its body, as for an object-level selection set of `VariantOp` -/
theorem fragment_struct_shape (c : Ctx) (hn : c.o.normalization = .none) (parent : TypeId) (g : Nat) (i : Nat)
    (hp : parent = .object i) (hok : fragOk c.s c.q c.o parent g = true) :
    ∃ f, c.q.fragments[g]? = some f ∧
      fragmentItems c g = .ok (structItemsV c f.name (c.cs.camel f.name) f.sels) := by
  obtain ⟨f, hf, hon, _, hv, _⟩ := fragOk_parts hok
  refine ⟨f, hf, ?_⟩
  unfold fragmentItems
  simp only [getFragment_of hf, bind, Except.bind]
  have hmem : f ∈ c.q.fragments := List.mem_of_getElem? hf
  have H := (calc_variant c hn (C02.totalSize c.q) (c.s.objects.length + C02.maxUnion c.s)
    (C02.variants_length_le c.s) (calcFuel c.s c.q)).1
  rw [hon, hp]
  apply H _ _ _ _ (C02.maxDepth c.q) (C02.frag_depth_le c.q f hmem) _ (calcFuel_Sb c) hv
  apply C02.le_foldl_add
  left
  simp only [List.mem_append, List.mem_map]
  exact .inl ⟨f, hmem, rfl⟩

end E2E
end C01
end GqlVerif
