import GqlVerif.Proofs.C01NestedA
/-!
# C01 / C03 end to end (`NestedOp`), part B: serde — a struct whose flattened members have flattened members themselves

The flatten lemmas of `C01AbstractG` (`deStructMap_flat`, `MemberOk`) need every flattened member to be a PLAIN struct.  The
struct of a fragment whose own body spreads a fragment is not: `struct Outer { name, #[serde(flatten)] inner: Inner }`.
serde reads such a member with `deserialize_map`: it sees **every** entry still in the buffer and takes none
(`Serde.deFlat`, the `fields.any (·.flatten)` branch), whereas a plain member takes the entries it recognises.

* `MemberOkN`, `memberVal` — a flattened member that is a struct item (plain or not), and what it reads from an object:
  its struct read from that object with buffered content — `memberVal_eq_dePath`: the very function that reads the
  fragment struct at an object position (`dePath e true (fuel + 1) name (.obj kvs)`);
* **`okB_deStructMapN`** — acceptance of a struct with own fields and any number of flattened struct members, plain or
  not: the own fields are accepted and every member accepts the WHOLE object.  Hypotheses: key sets `K g` with the own
  keys of `g` inside, pairwise disjoint and disjoint from the own keys of the struct; for a non-plain member, entries
  outside `K g` do not matter for its acceptance (`hirr`: it reads from a buffer the own keys / the keys of earlier plain
  members were taken out of).
-/
set_option linter.unusedSimpArgs false
set_option linter.unusedVariables false
set_option linter.unusedSectionVars false
set_option linter.unnecessarySimpa false

namespace GqlVerif
namespace C01N
open Serde Spec C13 C03 Codegen C01 C01.E2E C01M

/-- the member is a struct item of the environment (plain, or with flattened members of its own) -/
def MemberOkN (e : Env) (g : RField) : Prop :=
  ∃ q n d c, g.ty = .path q ∧ notPrim q ∧ e.find q = some (.struct n d c (memberFields e g))

/-- what a flattened member reads from the object `kvs`: its struct, from buffered content -/
def memberVal (e : Env) (fuel : Nat) (g : RField) (kvs : List (String × Json)) : D Val :=
  deStructMapWith (dePath e true fuel) (deFlat e fuel) (memberFields e g) kvs

/-- … which is how the struct is read at any other place (with buffered content) -/
theorem memberVal_eq_dePath (e : Env) (fuel : Nat) (g : RField) (q n : String) (d : List String) (c : Option String)
    (hty : g.ty = .path q) (hnp : notPrim q) (hfind : e.find q = some (.struct n d c (memberFields e g)))
    (kvs : List (String × Json)) : memberVal e fuel g kvs = dePath e true (fuel + 1) q (.obj kvs) := by
  rw [dePath_struct e true fuel q n d c _ hnp hfind, deStruct_obj]; rfl

theorem any_flatten_of_not_plain {fields : List RField} (h : plain fields = false) :
    fields.any (·.flatten) = true := by
  induction fields with
  | nil => simp [plain] at h
  | cons f fs ih =>
    cases hf : f.flatten
    · have : plain fs = false := by simpa [plain, hf] using h
      simp [List.any_cons, hf, ih this]
    · simp [List.any_cons, hf]

theorem flatten_false_of_plain {fields : List RField} (h : plain fields = true) : ∀ f ∈ fields, f.flatten = false := by
  intro f hf
  unfold plain at h
  have := List.all_eq_true.mp h f hf
  simpa using this

/-- `deserialize_map`: a flattened member with flattened members of its own sees every remaining entry and takes none -/
theorem deFlat_nonplain_struct (e : Env) (fuel : Nat) (q n : String) (d : List String) (c : Option String)
    (gfields : List RField) (buf : Buf) (he : e.find q = some (.struct n d c gfields))
    (hany : gfields.any (·.flatten) = true) :
    deFlat e (fuel + 1) (.path q) buf =
      (do let v ← deStructMapWith (dePath e true fuel) (deFlat e fuel) gfields (present buf)
          pure (v, buf)) := by
  rw [deFlat]
  simp only [he, hany, ↓reduceIte]

theorem filter_not_append (kvs : List (String × Json)) (L W : List String) :
    (kvs.filter (fun kv => !L.contains kv.1)).filter (fun kv => !W.contains kv.1) =
      kvs.filter (fun kv => !(L ++ W).contains kv.1) := by
  rw [List.filter_filter]
  apply List.filter_congr
  intro kv _
  cases h1 : L.contains kv.1 <;> cases h2 : W.contains kv.1 <;> simp_all

/-- **acceptance of the flattened members**, plain or not, in field order: each accepts the whole object -/
theorem okB_deFlatsN (e : Env) (fuel : Nat) (kvs : List (String × Json)) (K : RField → List String) :
    ∀ (fs : List RField) (L : List String) (buf : Buf),
      present buf = kvs.filter (fun kv => !L.contains kv.1) →
      (∀ g ∈ fs, g.flatten = true → MemberOkN e g) →
      (∀ g ∈ fs, g.flatten = true → ∀ f ∈ memberFields e g, f.flatten = false → f.wire ∈ K g) →
      (∀ g ∈ fs, g.flatten = true → ∀ k ∈ L, k ∉ K g) →
      (∀ g ∈ fs, g.flatten = true → plain (memberFields e g) = false → ∀ L' : List String, (∀ k ∈ L', k ∉ K g) →
        okB (memberVal e fuel g (kvs.filter (fun kv => !L'.contains kv.1))) = okB (memberVal e fuel g kvs)) →
      fs.Pairwise (fun g g' => g.flatten = true → g'.flatten = true → ∀ k ∈ K g', k ∉ K g) →
      okB (deFlatsWith (deFlat e (fuel + 1)) fs buf) =
        (fs.filter (·.flatten)).all (fun g => okB (memberVal e fuel g kvs))
  | [], _, _, _, _, _, _, _, _ => rfl
  | g :: fs, L, buf, hbuf, hok, hsub, hL, hirr, hpw => by
    rw [List.pairwise_cons] at hpw
    have hok' : ∀ g' ∈ fs, g'.flatten = true → MemberOkN e g' := fun g' h' => hok g' (List.mem_cons_of_mem _ h')
    have hsub' : ∀ g' ∈ fs, g'.flatten = true → ∀ f ∈ memberFields e g', f.flatten = false → f.wire ∈ K g' :=
      fun g' h' => hsub g' (List.mem_cons_of_mem _ h')
    have hirr' : ∀ g' ∈ fs, g'.flatten = true → plain (memberFields e g') = false → ∀ L' : List String, (∀ k ∈ L', k ∉ K g') →
        okB (memberVal e fuel g' (kvs.filter (fun kv => !L'.contains kv.1))) = okB (memberVal e fuel g' kvs) :=
      fun g' h' => hirr g' (List.mem_cons_of_mem _ h')
    cases hg : g.flatten
    · simp only [deFlatsWith, hg, Bool.not_false, ↓reduceIte, List.filter_cons, Bool.false_eq_true]
      exact okB_deFlatsN e fuel kvs K fs L buf hbuf hok' hsub' (fun g' h' => hL g' (List.mem_cons_of_mem _ h')) hirr' hpw.2
    · obtain ⟨q, n, d, c, hty, hnp, hfind⟩ := hok g (by simp) hg
      simp only [deFlatsWith, hg, Bool.not_true, Bool.false_eq_true, ↓reduceIte, List.filter_cons, List.all_cons, hty]
      cases hpl : plain (memberFields e g)
      · -- a member with flattened members of its own: sees the buffer, takes nothing
        have hany := any_flatten_of_not_plain hpl
        rw [deFlat_nonplain_struct e fuel q n d c _ buf hfind hany, hbuf]
        have h1 := hirr g (by simp) hg hpl L (hL g (by simp) hg)
        have ih := okB_deFlatsN e fuel kvs K fs L buf hbuf hok' hsub'
          (fun g' h' => hL g' (List.mem_cons_of_mem _ h')) hirr' hpw.2
        rw [← ih, ← h1]
        unfold memberVal
        cases deStructMapWith (dePath e true fuel) (deFlat e fuel) (memberFields e g)
            (kvs.filter (fun kv => !L.contains kv.1)) with
        | error err => rfl
        | ok v =>
          simp only [bind, Except.bind, pure, Except.pure]
          cases deFlatsWith (deFlat e (fuel + 1)) fs buf <;> rfl
      · -- a plain member: takes its own keys
        have hw : ∀ k ∈ (memberFields e g).map (·.wire), k ∉ L := by
          intro k hk hkL
          obtain ⟨f, hf, rfl⟩ := List.mem_map.mp hk
          exact hL g (by simp) hg _ hkL (hsub g (by simp) hg f hf (flatten_false_of_plain hpl f hf))
        rw [deFlat_plain_struct e fuel q n d c _ buf hfind hpl, takeKeys_fst, hbuf,
          filter_filter_disjoint kvs L _ hw, deOwn_filter _ _ kvs _ (fun f hf _ => List.mem_map_of_mem hf)]
        have ih := okB_deFlatsN e fuel kvs K fs (L ++ (memberFields e g).map (·.wire))
          (takeKeys ((memberFields e g).map (·.wire)) buf).2
          (by rw [takeKeys_snd, hbuf, filter_not_append]) hok' hsub'
          (by
            intro g' h' hf' k hk hkK
            rcases List.mem_append.mp hk with hk | hk
            · exact hL g' (List.mem_cons_of_mem _ h') hf' k hk hkK
            · obtain ⟨f, hf, rfl⟩ := List.mem_map.mp hk
              exact hpw.1 g' h' hg hf' _ hkK (hsub g (by simp) hg f hf (flatten_false_of_plain hpl f hf)))
          hirr' hpw.2
        rw [← ih]
        unfold memberVal
        rw [deStructMap_plain _ _ _ _ hpl]
        cases deOwnWith (dePath e true fuel) (memberFields e g) kvs with
        | error err => rfl
        | ok own =>
          simp only [bind, Except.bind, pure, Except.pure]
          cases deFlatsWith (deFlat e (fuel + 1)) fs (takeKeys ((memberFields e g).map (·.wire)) buf).2 <;> rfl

/-- **acceptance of a struct with own fields and any number of flattened struct members, plain or not** -/
theorem okB_deStructMapN (e : Env) (fuel : Nat) (pathD : String → Json → D Val) (fields : List RField)
    (kvs : List (String × Json)) (K : RField → List String) (hany : fields.any (·.flatten) = true)
    (hok : ∀ g ∈ fields, g.flatten = true → MemberOkN e g)
    (hsub : ∀ g ∈ fields, g.flatten = true → ∀ f ∈ memberFields e g, f.flatten = false → f.wire ∈ K g)
    (hown : ∀ g ∈ fields, g.flatten = true → ∀ k ∈ (fields.filter (fun f => !f.flatten)).map (·.wire), k ∉ K g)
    (hirr : ∀ g ∈ fields, g.flatten = true → plain (memberFields e g) = false → ∀ L' : List String, (∀ k ∈ L', k ∉ K g) →
      okB (memberVal e fuel g (kvs.filter (fun kv => !L'.contains kv.1))) = okB (memberVal e fuel g kvs))
    (hpw : fields.Pairwise (fun g g' => g.flatten = true → g'.flatten = true → ∀ k ∈ K g', k ∉ K g)) :
    okB (deStructMapWith pathD (deFlat e (fuel + 1)) fields kvs) =
      (okB (deOwnWith pathD (fields.filter (fun f => !f.flatten)) kvs) &&
        (fields.filter (·.flatten)).all (fun g => okB (memberVal e fuel g kvs))) := by
  unfold deStructMapWith
  simp only [hany, ↓reduceIte]
  rw [deOwn_filter_flatten pathD kvs fields, okB_bind2,
    okB_deFlatsN e fuel kvs K fields ((fields.filter (fun f => !f.flatten)).map (·.wire)) _
      (by rw [present_map_some]) hok hsub hown hirr hpw]

end C01N
end GqlVerif
