import GqlVerif.Proofs.C01AliasFragI
import GqlVerif.Proofs.C01NestedI
/-!
# C01 end to end (`AliasFragOp`), part J: on `NestedOp` everything is what `C01Nested*` proves

A fragment that is in `fragOkN` at some rank (`HN`: hereditarily without lone-spread bodies) has the same rank in `fragOkA`
(`fragOkA_eq_N`), and the rank recursions coincide on it (`agree_rank`): `wholeA = wholeN`, `KNa = KNn`,
`fragSideA = fragSideN`, `centA = centN`, `rustSideA = rustSideN`.  Hence, for an operation of `NestedOp`:

* **`aliasKeysOk_eq_N`**, **`aliasRustOk_eq_N`** — the side conditions are those of `nested_accepts` / `nested_roundtrip`;
* **`conformsLooseA_eq_N`** — the acceptance predicate of `aliasfrag_precise_iff` is the one of `nested_precise_iff`;
* **`canonSelA_eq_N`** — the canonical form of `aliasfrag_roundtrip` is the one of `nested_roundtrip`
  (the specification `conformsOpN` is literally the same).
-/
set_option linter.unusedSimpArgs false
set_option linter.unusedVariables false
set_option linter.unusedSectionVars false
set_option linter.unnecessarySimpa false

namespace GqlVerif
namespace C01AF
open Serde Spec C13 C03 Codegen C01 C01.E2E C01M C01N

theorem nSels_of_nBody {ok : TypeId → Nat → Bool} {s : Schema} {q : Query} {o : Options} {p : TypeId} {sels : List Sel}
    (h : nBody ok s q o p sels = true) : nSels ok s q o p sels = true := by
  by_cases hsp : ∃ g, sels = [Sel.spread g]
  · obtain ⟨g, rfl⟩ := hsp
    have : ok p g = true := h
    simp [nSels, nSel, this]
  · have hnl : ∀ g, sels ≠ [Sel.spread g] := fun g hg => hsp ⟨g, hg⟩
    rw [nBody_not_lone hnl] at h; exact h

theorem all_congr_mem {α : Type} {f g : α → Bool} : ∀ (l : List α), (∀ x ∈ l, f x = g x) → l.all f = l.all g
  | [], _ => rfl
  | x :: xs, h => by
    rw [List.all_cons, List.all_cons, h x (by simp), all_congr_mem xs (fun y hy => h y (List.mem_cons_of_mem _ hy))]

/-! ## congruence in the parameters, on a selection set of the class -/

mutual
  theorem nSel_congr (ok ok1 ok2 : TypeId → Nat → Bool) (h12 : ∀ p g, ok p g = true → ok1 p g = ok2 p g) (s : Schema)
      (q : Query) (o : Options) : ∀ (x : Sel) (p : TypeId), nSel ok s q o p x = true →
      nSel ok1 s q o p x = nSel ok2 s q o p x
    | .field a fid sub, p => by
      intro ht
      have IH := nSels_congr ok ok1 ok2 h12 s q o sub
      obtain ⟨sf, hsf⟩ := nSel_field_some ht
      rw [nSel, nSel]
      simp only [hsf]
      cases hid : sf.ty.id with
      | object i =>
        obtain ⟨_, _, _, hbody⟩ := nSel_obj hsf hid ht
        simp only []
        congr 1
        by_cases hsp : ∃ g, sub = [Sel.spread g]
        · obtain ⟨g, rfl⟩ := hsp; exact h12 _ g hbody
        · have hnl : ∀ g, sub ≠ [Sel.spread g] := fun g hg => hsp ⟨g, hg⟩
          rw [nBody_not_lone hnl] at hbody
          split
          · exact absurd rfl (hnl _)
          · exact IH _ hbody
      | scalar k => rfl
      | «enum» k => rfl
      | interface k => rfl
      | union k => rfl
      | input k => rfl
    | .spread g, p => by
      intro ht
      rw [nSel, nSel]
      exact h12 p g (by simpa [nSel] using ht)
    | .inline _ _, _ => by intro _; rw [nSel, nSel]
    | .typename, _ => by intro _; rw [nSel, nSel]
  theorem nSels_congr (ok ok1 ok2 : TypeId → Nat → Bool) (h12 : ∀ p g, ok p g = true → ok1 p g = ok2 p g) (s : Schema)
      (q : Query) (o : Options) : ∀ (sels : List Sel) (p : TypeId), nSels ok s q o p sels = true →
      nSels ok1 s q o p sels = nSels ok2 s q o p sels
    | [], _ => by intro _; rfl
    | x :: xs, p => by
      intro ht
      obtain ⟨hx, hxs⟩ := nSels_cons ht
      rw [nSels, nSels, nSel_congr ok ok1 ok2 h12 s q o x p hx, nSels_congr ok ok1 ok2 h12 s q o xs p hxs]
end

section Congr
variable (s : Schema) (q : Query) (o : Options) (ok : TypeId → Nat → Bool) (w1 w2 : Nat → Bool → Json → Bool)
  (c1 c2 : Nat → List (String × Json) → List (String × Json))

theorem looseMemN_congr (hw : ∀ p g, ok p g = true → ∀ b j, w1 g b j = w2 g b j) (p : TypeId) : ∀ (sels : List Sel),
    nSels ok s q o p sels = true → ∀ kvs, looseMemN w1 sels kvs = looseMemN w2 sels kvs
  | [], _, _ => rfl
  | x :: xs, ht, kvs => by
    obtain ⟨hx, hxs⟩ := nSels_cons ht
    have ih := looseMemN_congr hw p xs hxs kvs
    cases x with
    | spread g =>
      have hok : ok p g = true := by simpa [nSel] using hx
      rw [looseMemN, looseMemN, ih, hw p g hok]
    | field a fid sub => simpa [looseMemN] using ih
    | inline t sub => simp [nSel] at hx
    | typename => simpa [looseMemN] using ih

mutual
  theorem looseFieldN_congr : ∀ (x : Sel) (p : TypeId) (b : Bool) (v : Json),
      (∀ p g, ok p g = true → ∀ b j, w1 g b j = w2 g b j) →
      nSel ok s q o p x = true → looseFieldN w1 s q o b x v = looseFieldN w2 s q o b x v
    | .field a fid sub, p, b, v => by
      intro hw ht
      have IH1 := looseOwnN_congr sub
      have IH2 := looseArrN_congr sub
      obtain ⟨sf, hsf⟩ := nSel_field_some ht
      rw [looseFieldN, looseFieldN]
      simp only [hsf]
      cases hid : sf.ty.id with
      | object i =>
        obtain ⟨_, _, _, hbody⟩ := nSel_obj hsf hid ht
        simp only []
        cases s.objects[i]? with
        | none => rfl
        | some ob =>
          simp only []
          rw [looseLambdaN, looseLambdaN]
          congr 1
          funext j
          by_cases hsp : ∃ g, sub = [Sel.spread g]
          · obtain ⟨g, rfl⟩ := hsp
            simp only [conformsLooseN]
            exact hw _ g hbody b j
          · have hnl : ∀ g, sub ≠ [Sel.spread g] := fun g hg => hsp ⟨g, hg⟩
            rw [nBody_not_lone hnl] at hbody
            rw [conformsLooseN_not_lone hnl, conformsLooseN_not_lone hnl]
            cases j with
            | obj kvs =>
              simp only [IH1 _ b kvs hw hbody, looseMemN_congr s q o ok w1 w2 hw _ sub hbody kvs]
            | arr xs => simp only [IH2 _ b xs hw hbody]
            | null => rfl
            | bool _ => rfl
            | int _ => rfl
            | num _ => rfl
            | str _ => rfl
      | scalar k => rfl
      | «enum» k => rfl
      | interface k => rfl
      | union k => rfl
      | input k => rfl
    | .spread g, _, _, _ => by intro _ _; simp [looseFieldN]
    | .inline t sub, _, _, _ => by intro _ _; simp [looseFieldN]
    | .typename, _, _, _ => by intro _ _; simp [looseFieldN]
  theorem looseOwnN_congr : ∀ (sels : List Sel) (p : TypeId) (b : Bool) (kvs : List (String × Json)),
      (∀ p g, ok p g = true → ∀ b j, w1 g b j = w2 g b j) →
      nSels ok s q o p sels = true → looseOwnN w1 s q o b sels kvs = looseOwnN w2 s q o b sels kvs
    | [], _, _, _ => by intro _ _; rw [looseOwnN, looseOwnN]
    | x :: xs, p, b, kvs => by
      intro hw ht
      obtain ⟨hx, hxs⟩ := nSels_cons ht
      have ih := looseOwnN_congr xs p b kvs hw hxs
      cases x with
      | field a fid sub =>
        rw [looseOwnN.eq_2, looseOwnN.eq_2, ih]
        cases hsf : s.fields[fid]? with
        | none => rfl
        | some sf =>
          simp only []
          cases Json.lookup (a.getD sf.name) kvs with
          | none => rfl
          | some v => simp only [looseFieldN_congr (.field a fid sub) p b v hw hx]
      | spread g => simpa [looseOwnN] using ih
      | inline t sub => simp [nSel] at hx
      | typename => simpa [looseOwnN] using ih
  theorem looseArrN_congr : ∀ (sels : List Sel) (p : TypeId) (b : Bool) (vs : List Json),
      (∀ p g, ok p g = true → ∀ b j, w1 g b j = w2 g b j) →
      nSels ok s q o p sels = true → looseArrN w1 s q o b sels vs = looseArrN w2 s q o b sels vs
    | [], _, _, _ => by intro _ _; rw [looseArrN, looseArrN]
    | x :: xs, p, b, vs => by
      intro hw ht
      obtain ⟨hx, hxs⟩ := nSels_cons ht
      cases x with
      | field a fid sub =>
        cases vs with
        | nil => rw [looseArrN.eq_2, looseArrN.eq_2]
        | cons v vs' =>
          rw [looseArrN.eq_3, looseArrN.eq_3, looseFieldN_congr (.field a fid sub) p b v hw hx,
            looseArrN_congr xs p b vs' hw hxs]
      | spread g => simpa [looseArrN] using looseArrN_congr xs p b vs hw hxs
      | inline t sub => simp [nSel] at hx
      | typename => simpa [looseArrN] using looseArrN_congr xs p b vs hw hxs
end

theorem conformsLooseN_congr (hw : ∀ p g, ok p g = true → ∀ b j, w1 g b j = w2 g b j) (p : TypeId) (sels : List Sel)
    (ht : nBody ok s q o p sels = true) (b : Bool) (j : Json) :
    conformsLooseN w1 s q o b sels j = conformsLooseN w2 s q o b sels j := by
  by_cases hsp : ∃ g, sels = [Sel.spread g]
  · obtain ⟨g, rfl⟩ := hsp
    simp only [conformsLooseN]
    exact hw p g ht b j
  · have hnl : ∀ g, sels ≠ [Sel.spread g] := fun g hg => hsp ⟨g, hg⟩
    rw [nBody_not_lone hnl] at ht
    rw [conformsLooseN_not_lone hnl, conformsLooseN_not_lone hnl]
    cases j with
    | obj kvs =>
      simp only [looseOwnN_congr s q o ok w1 w2 sels p b kvs hw ht, looseMemN_congr s q o ok w1 w2 hw p sels ht kvs]
    | arr xs => simp only [looseArrN_congr s q o ok w1 w2 sels p b xs hw ht]
    | null => rfl
    | bool _ => rfl
    | int _ => rfl
    | num _ => rfl
    | str _ => rfl

mutual
  theorem canonFieldN_congr (skip : Bool) : ∀ (x : Sel) (p : TypeId) (v : Json),
      (∀ p g, ok p g = true → ∀ kvs, c1 g kvs = c2 g kvs) →
      nSel ok s q o p x = true → canonFieldN c1 s q skip x v = canonFieldN c2 s q skip x v
    | .field a fid sub, p, v => by
      intro hc ht
      have IH := canonEntriesN_congr skip sub
      obtain ⟨sf, hsf⟩ := nSel_field_some ht
      rw [canonFieldN, canonFieldN]
      simp only [hsf]
      cases hid : sf.ty.id with
      | object i =>
        obtain ⟨_, _, _, hbody⟩ := nSel_obj hsf hid ht
        simp only []
        rw [canonLambdaN, canonLambdaN]
        congr 1
        funext j
        by_cases hsp : ∃ g, sub = [Sel.spread g]
        · obtain ⟨g, rfl⟩ := hsp
          simp only [canonSelN]
          cases j with
          | obj kvs => simp only [cwhole, hc _ g hbody kvs]
          | arr xs => rfl
          | null => rfl
          | bool _ => rfl
          | int _ => rfl
          | num _ => rfl
          | str _ => rfl
        · have hnl : ∀ g, sub ≠ [Sel.spread g] := fun g hg => hsp ⟨g, hg⟩
          rw [nBody_not_lone hnl] at hbody
          rw [canonSelN_not_lone hnl, canonSelN_not_lone hnl]
          cases j with
          | obj kvs => simp only [IH _ kvs hc hbody]
          | arr xs => rfl
          | null => rfl
          | bool _ => rfl
          | int _ => rfl
          | num _ => rfl
          | str _ => rfl
      | scalar k => rfl
      | «enum» k => rfl
      | interface k => rfl
      | union k => rfl
      | input k => rfl
    | .spread g, _, _ => by intro _ _; simp [canonFieldN]
    | .inline t sub, _, _ => by intro _ _; simp [canonFieldN]
    | .typename, _, _ => by intro _ _; simp [canonFieldN]
  theorem canonEntriesN_congr (skip : Bool) : ∀ (sels : List Sel) (p : TypeId) (kvs : List (String × Json)),
      (∀ p g, ok p g = true → ∀ kvs, c1 g kvs = c2 g kvs) →
      nSels ok s q o p sels = true → canonEntriesN c1 s q skip sels kvs = canonEntriesN c2 s q skip sels kvs
    | [], _, _ => by intro _ _; rw [canonEntriesN, canonEntriesN]
    | x :: xs, p, kvs => by
      intro hc ht
      obtain ⟨hx, hxs⟩ := nSels_cons ht
      have ih := canonEntriesN_congr skip xs p kvs hc hxs
      cases x with
      | field a fid sub =>
        rw [canonEntriesN.eq_2, canonEntriesN.eq_2, ih]
        cases hsf : s.fields[fid]? with
        | none => rfl
        | some sf =>
          simp only []
          cases Json.lookup (a.getD sf.name) kvs with
          | none => rfl
          | some v => simp only [canonFieldN_congr skip (.field a fid sub) p v hc hx]
      | spread g =>
        have hok : ok p g = true := by simpa [nSel] using hx
        rw [canonEntriesN.eq_3, canonEntriesN.eq_3, ih, hc p g hok]
      | inline t sub => simp [nSel] at hx
      | typename => simpa [canonEntriesN] using ih
end

theorem canonSelN_congr (hc : ∀ p g, ok p g = true → ∀ kvs, c1 g kvs = c2 g kvs) (skip : Bool) (p : TypeId)
    (sels : List Sel) (ht : nBody ok s q o p sels = true) (j : Json) :
    canonSelN c1 s q skip sels j = canonSelN c2 s q skip sels j := by
  by_cases hsp : ∃ g, sels = [Sel.spread g]
  · obtain ⟨g, rfl⟩ := hsp
    simp only [canonSelN]
    cases j with
    | obj kvs => simp only [cwhole, hc p g ht kvs]
    | arr xs => rfl
    | null => rfl
    | bool _ => rfl
    | int _ => rfl
    | num _ => rfl
    | str _ => rfl
  · have hnl : ∀ g, sels ≠ [Sel.spread g] := fun g hg => hsp ⟨g, hg⟩
    rw [nBody_not_lone hnl] at ht
    rw [canonSelN_not_lone hnl, canonSelN_not_lone hnl]
    cases j with
    | obj kvs => simp only [canonEntriesN_congr s q o ok c1 c2 skip sels p kvs hc ht]
    | arr xs => rfl
    | null => rfl
    | bool _ => rfl
    | int _ => rfl
    | num _ => rfl
    | str _ => rfl

end Congr

section CongrK
variable (c : Ctx) (ok : TypeId → Nat → Bool) (K1 K2 : String → List String)
  (hk : ∀ p g, ok p g = true → K1 (fragName c g) = K2 (fragName c g))

include hk in
theorem expKeysN_congr (p : TypeId) : ∀ (sels : List Sel), nSels ok c.s c.q c.o p sels = true →
    expKeysN K1 c sels = expKeysN K2 c sels
  | [], _ => rfl
  | x :: xs, ht => by
    obtain ⟨hx, hxs⟩ := nSels_cons ht
    have ih := expKeysN_congr p xs hxs
    cases x with
    | field a fid sub => cases hsf : c.s.fields[fid]? <;> simp [expKeysN, ih, hsf]
    | spread g =>
      have hok : ok p g = true := by simpa [nSel] using hx
      simp only [expKeysN, ih, hk p g hok]
    | inline t sub => simp [nSel] at hx
    | typename => simp only [expKeysN, ih]

mutual
  theorem keysOkN_congr : ∀ (x : Sel) (p : TypeId),
      (∀ p g, ok p g = true → K1 (fragName c g) = K2 (fragName c g)) →
      nSel ok c.s c.q c.o p x = true → keysOkN K1 c x = keysOkN K2 c x
    | .field a fid sub, p => by
      intro hk ht
      have IH := keysOksN_congr sub
      obtain ⟨sf, hsf⟩ := nSel_field_some ht
      rw [keysOkN, keysOkN]
      simp only [hsf, Option.map_some]
      cases hid : sf.ty.id with
      | object i =>
        obtain ⟨_, _, _, hbody⟩ := nSel_obj hsf hid ht
        have hm := nSels_of_nBody hbody
        simp only [expKeysN_congr c ok K1 K2 hk _ sub hm, IH _ hk hm]
      | scalar k => rfl
      | «enum» k => rfl
      | interface k => rfl
      | union k => rfl
      | input k => rfl
    | .spread g, _ => by intro _ _; rfl
    | .inline _ _, _ => by intro _ _; rfl
    | .typename, _ => by intro _ _; rfl
  theorem keysOksN_congr : ∀ (sels : List Sel) (p : TypeId),
      (∀ p g, ok p g = true → K1 (fragName c g) = K2 (fragName c g)) →
      nSels ok c.s c.q c.o p sels = true → keysOksN K1 c sels = keysOksN K2 c sels
    | [], _ => by intro _ _; rfl
    | x :: xs, p => by
      intro hk ht
      obtain ⟨hx, hxs⟩ := nSels_cons ht
      rw [keysOksN, keysOksN, keysOkN_congr x p hk hx, keysOksN_congr xs p hk hxs]
end

end CongrK

mutual
  /-- the spreads at object positions of a selection set of the class satisfy `ok` -/
  theorem objSpreads_ok (ok : TypeId → Nat → Bool) (s : Schema) (q : Query) (o : Options) : ∀ (x : Sel) (p : TypeId),
      nSel ok s q o p x = true → ∀ g ∈ objSpreads s x, ∃ p', ok p' g = true
    | .field a fid sub, p => by
      intro ht g hg
      have IH := objSpreadss_ok ok s q o sub
      obtain ⟨sf, hsf⟩ := nSel_field_some ht
      rw [objSpreads] at hg
      simp only [hsf] at hg
      cases hid : sf.ty.id with
      | object i =>
        obtain ⟨_, _, _, hbody⟩ := nSel_obj hsf hid ht
        simp only [hid] at hg
        exact IH _ (nSels_of_nBody hbody) g hg
      | scalar k => simp [hid] at hg
      | «enum» k => simp [hid] at hg
      | interface k => simp [hid] at hg
      | union k => simp [hid] at hg
      | input k => simp [hid] at hg
    | .spread g', p => by
      intro ht g hg
      simp only [objSpreads, List.mem_singleton] at hg
      subst hg
      exact ⟨p, by simpa [nSel] using ht⟩
    | .inline _ _, _ => by intro ht; simp [nSel] at ht
    | .typename, _ => by intro _ g hg; simp [objSpreads] at hg
  theorem objSpreadss_ok (ok : TypeId → Nat → Bool) (s : Schema) (q : Query) (o : Options) : ∀ (sels : List Sel) (p : TypeId),
      nSels ok s q o p sels = true → ∀ g ∈ objSpreadss s sels, ∃ p', ok p' g = true
    | [], _ => by intro _ g hg; simp [objSpreadss] at hg
    | x :: xs, p => by
      intro ht g hg
      obtain ⟨hx, hxs⟩ := nSels_cons ht
      rw [objSpreadss, List.mem_append] at hg
      rcases hg with hg | hg
      · exact objSpreads_ok ok s q o x p hx g hg
      · exact objSpreadss_ok ok s q o xs p hxs g hg
end

/-! ## fragments of `fragOkN` -/

/-- a fragment of `fragOkN`: its body is not a lone spread, and an `nSels` selection set over `fragOkN` of some rank -/
theorem fragOkN_body {s : Schema} {q : Query} {o : Options} {R : Nat} {p : TypeId} {g : Nat}
    (h : fragOkN s q o R p g = true) :
    ∃ f R', q.fragments[g]? = some f ∧ f.on = p ∧ f.name ≠ "ID" ∧ fragmentIsRecursive q g = false ∧
      (∀ g', f.sels ≠ [Sel.spread g']) ∧ nSels (fragOkN s q o R') s q o f.on f.sels = true := by
  rcases fragOkN_cases h with h' | ⟨r', _, h'⟩
  · obtain ⟨f, hf, hon, hname, hv, _⟩ := fragOk_parts h'
    have hm : mSels s q o f.on f.sels = true :=
      mSels_of_fSels s q o f.sels _ (fSels_of_vSels s q o f.sels _ hv)
    have hnl : ∀ g', f.sels ≠ [Sel.spread g'] := by
      intro g' hg'
      have := noSpreads_of_vSels s o f.sels false hv
      rw [hg'] at this
      simp [noSpreads, noSpread] at this
    refine ⟨f, 0, hf, hon, hname, not_recursive_of_fragOk h', hnl, ?_⟩
    have : fragOkN s q o 0 = fragOk s q o := by funext p g'; rw [fragOkN]
    rw [this, nSels_fragOk]
    exact hm
  · obtain ⟨f, hf, hon, hname, hrec, hnl, hb⟩ := fragNew_parts h'
    exact ⟨f, r', hf, hon, hname, hrec, hnl, hb⟩

/-- **on a fragment of `fragOkN` (of any rank) the two rank functions coincide** -/
theorem fragOkA_eq_N (s : Schema) (q : Query) (o : Options) : ∀ (r : Nat) (p : TypeId) (g : Nat) (R : Nat) (p0 : TypeId),
    fragOkN s q o R p0 g = true → fragOkA s q o r p g = fragOkN s q o r p g
  | 0, p, g, _, _, _ => by rw [fragOkA, fragOkN]
  | r + 1, p, g, R, p0, h => by
    rw [fragOkA, fragOkN, fragOkA_eq_N s q o r p g R p0 h]
    congr 1
    obtain ⟨f, R', hf, _, _, _, hnl, hb⟩ := fragOkN_body h
    unfold fragNewA fragNew
    simp only [hf]
    have hl : isLone f.sels = false := by
      cases hs : f.sels with
      | nil => rfl
      | cons x xs =>
        cases xs with
        | nil =>
          cases x with
          | spread g' => exact absurd hs (hnl g')
          | field _ _ _ => rfl
          | inline _ _ => rfl
          | typename => rfl
        | cons _ _ => cases x <;> rfl
    rw [nBody_not_lone hnl, hl,
      nSels_congr (fragOkN s q o R') (fragOkA s q o r) (fragOkN s q o r)
        (fun p' g' hg' => fragOkA_eq_N s q o r p' g' R' p' hg') s q o f.sels f.on hb]
    simp

/-- **on a fragment of `fragOkN` the rank recursions coincide** -/
theorem agree_rank (c : Ctx) (hnd : fragNamesOk c = true) : ∀ (r : Nat) (g : Nat) (R : Nat) (p0 : TypeId),
    fragOkN c.s c.q c.o R p0 g = true →
    (∀ b j, wholeA c r g b j = wholeN c r g b j) ∧ KNa c r (fragName c g) = KNn c r (fragName c g) ∧
    fragSideA c r g = fragSideN c r g ∧ (∀ kvs, centA c r g kvs = centN c r g kvs) ∧
    rustSideA c r g = rustSideN c r g
  | 0, g, _, _, _ => by
    refine ⟨fun b j => by rw [wholeA, wholeN], by rw [KNa, KNn], by rw [fragSideA, fragSideN],
      fun kvs => by rw [centA, centN], by rw [rustSideA, rustSideN]⟩
  | r + 1, g, R, p0, h => by
    obtain ⟨i1, i2, i3, i4, i5⟩ := agree_rank c hnd r g R p0 h
    obtain ⟨f, R', hf, hon, _, _, hnl, hb⟩ := fragOkN_body h
    have hfon : fragOn c.q g = p0 := by simp [fragOn, hf, hon]
    have hname : fragName c g = f.name := by simp [fragName, hf]
    have hsels : fragSels c.q g = f.sels := by simp [fragSels, hf]
    have hid : idOf c.q f.name = g := idOf_name hnd hf
    have hcond : fragOkA c.s c.q c.o r p0 g = fragOkN c.s c.q c.o r p0 g := fragOkA_eq_N c.s c.q c.o r p0 g R p0 h
    have IH := fun p' g' (hg' : fragOkN c.s c.q c.o R' p' g' = true) => agree_rank c hnd r g' R' p' hg'
    have hsub : ∀ g' ∈ objSpreadss c.s f.sels, ∃ p', fragOkN c.s c.q c.o R' p' g' = true :=
      objSpreadss_ok _ c.s c.q c.o f.sels f.on hb
    have hbody : nBody (fragOkN c.s c.q c.o R') c.s c.q c.o f.on f.sels = true := by
      rw [nBody_not_lone hnl]; exact hb
    have hK : ∀ p' g', fragOkN c.s c.q c.o R' p' g' = true → KNa c r (fragName c g') = KNn c r (fragName c g') :=
      fun p' g' hg' => (IH p' g' hg').2.1
    refine ⟨fun b j => ?_, ?_, ?_, fun kvs => ?_, ?_⟩
    · rw [wholeA, wholeN, hfon, hcond, i1, hsels,
        conformsLooseN_congr c.s c.q c.o _ (wholeA c r) (wholeN c r) (fun p' g' hg' => (IH p' g' hg').1) f.on f.sels
          hbody b j]
    · rw [hname, KNa, KNn, hid, hfon, hcond, ← hname, i2, hsels,
        expKeysN_congr c _ (KNa c r) (KNn c r) hK f.on f.sels hb]
    · rw [fragSideA, fragSideN, hfon, hcond, i3, hsels,
        expKeysN_congr c _ (KNa c r) (KNn c r) hK f.on f.sels hb,
        keysOksN_congr c _ (KNa c r) (KNn c r) f.sels f.on hK hb,
        all_congr_mem (objSpreadss c.s f.sels) (fun g' hg' => by
          obtain ⟨p', hg''⟩ := hsub g' hg'
          exact (IH p' g' hg'').2.2.1)]
    · rw [centA, centN, hfon, hcond, i4, hsels,
        canonEntriesN_congr c.s c.q c.o _ (centA c r) (centN c r) c.o.skipNone f.sels f.on kvs
          (fun p' g' hg' => (IH p' g' hg').2.2.2.1) hb]
    · rw [rustSideA, rustSideN, hfon, hcond, i5, hsels,
        all_congr_mem (objSpreadss c.s f.sels) (fun g' hg' => by
          obtain ⟨p', hg''⟩ := hsub g' hg'
          exact (IH p' g' hg'').2.2.2.2)]

/-! ## an operation of `NestedOp` -/

section OnN
variable (c : Ctx) (op : ROperation) (h : NestedOp c op = true) (hnd : fragNamesOk c = true)
include h hnd

/-- **on `NestedOp` the key side condition is the one of `nested_accepts`** -/
theorem aliasKeysOk_eq_N : aliasKeysOk c op = nestedKeysOk c op := by
  obtain ⟨_, _, hb⟩ := nestedOp_parts h
  have hm := nSels_of_nBody hb
  have hK : ∀ p' g', fragOkN c.s c.q c.o c.q.fragments.length p' g' = true →
      KNa c c.q.fragments.length (fragName c g') = KNn c c.q.fragments.length (fragName c g') :=
    fun p' g' hg' => (agree_rank c hnd _ g' _ p' hg').2.1
  unfold aliasKeysOk nestedKeysOk
  rw [expKeysN_congr c _ _ _ hK _ op.sels hm, keysOksN_congr c _ _ _ op.sels _ hK hm,
    all_congr_mem (objSpreadss c.s op.sels) (fun g' hg' => by
      obtain ⟨p', hg''⟩ := objSpreadss_ok _ c.s c.q c.o op.sels _ hm g' hg'
      exact (agree_rank c hnd _ g' _ p' hg'').2.2.1)]

/-- **… and so is the Rust-name side condition** -/
theorem aliasRustOk_eq_N : aliasRustOk c op = nestedRustOk c op := by
  obtain ⟨_, _, hb⟩ := nestedOp_parts h
  have hm := nSels_of_nBody hb
  unfold aliasRustOk nestedRustOk
  rw [all_congr_mem (objSpreadss c.s op.sels) (fun g' hg' => by
      obtain ⟨p', hg''⟩ := objSpreadss_ok _ c.s c.q c.o op.sels _ hm g' hg'
      exact (agree_rank c hnd _ g' _ p' hg'').2.2.2.2)]

/-- **on `NestedOp` the acceptance predicate is the one of `nested_precise_iff`** -/
theorem conformsLooseA_eq_N (b : Bool) (j : Json) :
    conformsLooseN (wholeA c c.q.fragments.length) c.s c.q c.o b op.sels j =
      conformsLooseN (wholeN c c.q.fragments.length) c.s c.q c.o b op.sels j := by
  obtain ⟨_, _, hb⟩ := nestedOp_parts h
  exact conformsLooseN_congr c.s c.q c.o _ _ _ (fun p' g' hg' => (agree_rank c hnd _ g' _ p' hg').1) _ op.sels hb b j

/-- **on `NestedOp` the canonical form is the one of `nested_roundtrip`** -/
theorem canonSelA_eq_N (j : Json) :
    canonSelN (centA c c.q.fragments.length) c.s c.q c.o.skipNone op.sels j =
      canonSelN (centN c c.q.fragments.length) c.s c.q c.o.skipNone op.sels j := by
  obtain ⟨_, _, hb⟩ := nestedOp_parts h
  exact canonSelN_congr c.s c.q c.o _ _ _ (fun p' g' hg' => (agree_rank c hnd _ g' _ p' hg').2.2.2.1) _ _ op.sels hb j

end OnN

/-- **`aliasfrag_roundtrip` on `NestedOp` is `nested_roundtrip`**: under the hypotheses of `nested_roundtrip`, the theorem
    of this development applies and gives the same statement -/
theorem aliasfrag_roundtrip_on_N (c : Ctx) (opIdx : Nat) (op : ROperation) (items : List Item)
    (hop : c.q.operations[opIdx]? = some op) (ht : NestedOp c op = true) (hnd : fragNamesOk c = true)
    (hk : nestedKeysOk c op = true) (hr : nestedRustOk c op = true)
    (hgen : responseForQuery c opIdx = .ok items) (hok : moduleOk c items = true)
    (j : Json) (hc : conformsOpN c op j = true) :
    Serde.roundtrip (moduleEnv c items) (.path "ResponseData") j =
      .ok (normJson (canonSelN (centN c c.q.fragments.length) c.s c.q c.o.skipNone op.sels j)) := by
  rw [← canonSelA_eq_N c op ht hnd j]
  exact aliasfrag_roundtrip c opIdx op items hop (aliasFragOp_of_nestedOp c op ht) hnd
    (by rw [aliasKeysOk_eq_N c op ht hnd]; exact hk) (by rw [aliasRustOk_eq_N c op ht hnd]; exact hr) hgen hok j hc

end C01AF
end GqlVerif
