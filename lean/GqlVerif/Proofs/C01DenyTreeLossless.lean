import GqlVerif.Proofs.C01DenyTree
/-!
# P33 (2/4) — C01 end to end under `deny`, object-tree operations (`TreeOpD`): losslessness

* `conformsSel_erase` — a payload conforming to the selection **as written** (denied keys present), with the denied
  keys erased at every depth (`C14G.eraseObj` / `eraseDenied` of P26), conforms — strictly — to the **pruned** selection;
* `canonSel_erase` — the canonical form w.r.t. the pruned selection does not see the erasure:
  `canonSel (pruneSels sels) (eraseObj sels j) = canonSel (pruneSels sels) j`;
* **`treeD_lossless`** : `conformsOp c op j → Serde.de … j = .ok v → Serde.ser … v = .ok (canonSelD c op j)` where
  `canonSelD c op j = canonSel c.s c.o.skipNone (pruneSels c op.sels) j` — the canonical form of `tree_lossless` with the
  denied fields treated as NOT selected: their entries are dropped at every depth like every other unselected key
  (`treeD_lossless_erased`: the same value written as the canonical form of `eraseDenied c op j`);
  **`treeD_roundtrip`** : acceptance + losslessness as one statement about `Serde.roundtrip`;
* `treeD_lossless_pruned` / `treeD_roundtrip_pruned` (payloads conforming to the pruned operation) and the widest form
  **`treeD_roundtrip_of_erased`** (any payload whose erasure conforms to the pruned operation: the denied keys may be
  absent, of any type, duplicated) — these need no `tnOkOp`.

Side condition new in this part: `tnOkOp c op` (decidable) — in a kept selection set that selects `__typename`, no
denied field selection is *aliased* `__typename` (then the eraser would remove the entry `__typename` the strict
specification of the pruned selection asks for).  It holds whenever the response keys of every selection set are
pairwise distinct (`tnOk_of_respNodup`), in particular for the class `TreeOpR` of part 3.
-/
set_option linter.unusedSimpArgs false
set_option linter.unusedSectionVars false
set_option linter.unusedVariables false

namespace GqlVerif
namespace C01
namespace Deny
open Serde Spec C13 C03 Codegen C01.E2E C14G

/-! ## the canonical form under `deny` -/

/-- **the allowed differences under `deny`**: `canonSel` of the selection with the denied fields removed — selection
    order of the kept fields, integer ID → decimal string, `__typename`, the denied keys and every other unselected key
    dropped, `null` → absent where `skip_serializing_none` applies -/
def canonSelD (c : Ctx) (op : ROperation) (j : Json) : Json := canonSel c.s c.o.skipNone (pruneSels c op.sels) j

/-! ## the side condition on `__typename` -/

def hasTypename (sels : List Sel) : Bool := sels.any (fun x => match x with | .typename => true | _ => false)

/-- a selection set that selects `__typename` does not erase the key `__typename` -/
def tnHere (c : Ctx) (sels : List Sel) : Bool := !hasTypename sels || !(dropKeys c sels).contains "__typename"

mutual
  def tnOkSel (c : Ctx) : Sel → Bool
    | .field _ fid sub =>
      match c.s.fields[fid]? with
      | some sf => isDenied c sf || (tnHere c sub && tnOkSels c sub)
      | none => true
    | _ => true
  def tnOkSels (c : Ctx) : List Sel → Bool
    | [] => true
    | x :: xs => tnOkSel c x && tnOkSels c xs
end

/-- **side condition** (decidable): `tnHere` at the root and at every kept selection set -/
def tnOkOp (c : Ctx) (op : ROperation) : Bool := tnHere c op.sels && tnOkSels c op.sels

theorem hasTypename_of_mem {sels : List Sel} (h : Sel.typename ∈ sels) : hasTypename sels = true := by
  simp only [hasTypename, List.any_eq_true]
  exact ⟨_, h, rfl⟩

theorem tnOkSels_mem {c : Ctx} : ∀ {sels : List Sel}, tnOkSels c sels = true → ∀ x ∈ sels, tnOkSel c x = true
  | [], _, _, hx => by simp at hx
  | y :: ys, h, x, hx => by
    rw [tnOkSels, Bool.and_eq_true] at h
    rcases List.mem_cons.mp hx with rfl | hx'
    · exact h.1
    · exact tnOkSels_mem h.2 x hx'

/-! ## generic facts: `pruneSels`, `thruQuals`, lookups in the erased object -/

theorem pruneSels_eq_flatMap (c : Ctx) : ∀ sels : List Sel, pruneSels c sels = sels.flatMap (pruneSel c)
  | [] => by rw [pruneSels]; rfl
  | x :: xs => by rw [pruneSels, pruneSels_eq_flatMap c xs, List.flatMap_cons]

theorem mem_pruneSels {c : Ctx} {sels : List Sel} {y : Sel} :
    y ∈ pruneSels c sels ↔ ∃ x ∈ sels, y ∈ pruneSel c x := by
  rw [pruneSels_eq_flatMap, List.mem_flatMap]

theorem keptKey_some {c : Ctx} {x : Sel} {k : String} (h : keptKey c x = some k) :
    ∃ a fid sub sf, x = .field a fid sub ∧ c.s.fields[fid]? = some sf ∧ isDenied c sf = false ∧ k = a.getD sf.name := by
  cases x with
  | field a fid sub =>
    simp only [keptKey] at h
    cases hsf : c.s.fields[fid]? with
    | none => simp [hsf] at h
    | some sf =>
      simp only [hsf] at h
      by_cases hd : isDenied c sf = true
      · simp [hd] at h
      · simp only [hd, Bool.false_eq_true, ↓reduceIte, Option.some.injEq] at h
        exact ⟨a, fid, sub, sf, rfl, hsf, by simpa using hd, h.symm⟩
  | inline t sub => simp [keptKey] at h
  | spread g => simp [keptKey] at h
  | typename => simp [keptKey] at h

theorem keptKey_of {c : Ctx} {a : Option String} {fid : Nat} {sub : List Sel} {sf : StoredField}
    (hsf : c.s.fields[fid]? = some sf) (hd : isDenied c sf = false) :
    keptKey c (.field a fid sub) = some (a.getD sf.name) := by
  simp [keptKey, hsf, hd]

/-- with pairwise distinct kept keys the eraser's entry function is the one of *the* kept selection with that key -/
theorem eraseEntry_of_mem (c : Ctx) {x : Sel} {k : String} (hk : keptKey c x = some k) (v : Json) :
    ∀ {sels : List Sel}, x ∈ sels → (keptKeys c sels).Nodup → eraseEntry c sels k v = eraseInSel c x v
  | [], h, _ => by simp at h
  | y :: ys, h, hnd => by
    rw [eraseEntry]
    simp only [keptKeys, List.filterMap_cons] at hnd
    by_cases hy : keptKey c y = some k
    · rw [if_pos hy]
      rcases List.mem_cons.mp h with rfl | h'
      · rfl
      · exfalso
        rw [hy, List.nodup_cons] at hnd
        exact hnd.1 (List.mem_filterMap.mpr ⟨x, h', hk⟩)
    · rw [if_neg hy]
      rcases List.mem_cons.mp h with rfl | h'
      · exact absurd hk hy
      · refine eraseEntry_of_mem c hk v h' ?_
        unfold keptKeys
        cases hky : keptKey c y with
        | none => simpa [hky] using hnd
        | some k' => rw [hky, List.nodup_cons] at hnd; exact hnd.2

/-- the entries of the erased object -/
def erasedKvs (c : Ctx) (sels : List Sel) (kvs : List (String × Json)) : List (String × Json) :=
  (eraseKeys (dropKeys c sels) kvs).map (fun kv => (kv.1, eraseEntry c sels kv.1 kv.2))

theorem eraseObj_obj (c : Ctx) (sels : List Sel) (kvs : List (String × Json)) :
    eraseObj c sels (.obj kvs) = .obj (erasedKvs c sels kvs) := rfl

theorem lookup_erased (ks : List String) (h : String → Json → Json) (k : String) (hk : k ∉ ks) :
    ∀ kvs : List (String × Json),
      Json.lookup k ((eraseKeys ks kvs).map (fun kv => (kv.1, h kv.1 kv.2))) = (Json.lookup k kvs).map (h k)
  | [] => by simp [eraseKeys, Json.lookup]
  | (k', v) :: rest => by
    have ih := lookup_erased ks h k hk rest
    simp only [eraseKeys] at ih ⊢
    rw [List.filter_cons]
    by_cases hk' : k' = k
    · subst hk'
      have : (!ks.contains k') = true := by simpa using hk
      simp [this, hk, Json.lookup]
    · have hne : (k' == k) = false := by simpa using hk'
      by_cases hin : (!ks.contains k') = true
      · simp only [hin, ↓reduceIte, List.map_cons, Json.lookup, hne, Bool.false_eq_true]
        exact ih
      · simp only [hin, Bool.false_eq_true, ↓reduceIte, Json.lookup, hne]
        exact ih

theorem kept_not_drop {c : Ctx} {sels : List Sel} {k : String} (h : k ∈ keptKeys c sels) : k ∉ dropKeys c sels := by
  simp only [dropKeys, List.mem_filter, Bool.not_eq_true', List.contains_eq_mem, decide_eq_false_iff_not, not_and,
    Decidable.not_not]
  exact fun _ => h

/-- the lookup of a kept key in the erased object -/
theorem lookup_erased_kept (c : Ctx) {sels : List Sel} (hnd : (keptKeys c sels).Nodup) {x : Sel} {k : String}
    (hx : x ∈ sels) (hk : keptKey c x = some k) (kvs : List (String × Json)) :
    Json.lookup k (erasedKvs c sels kvs) = (Json.lookup k kvs).map (eraseInSel c x) := by
  unfold erasedKvs
  rw [lookup_erased _ _ k (kept_not_drop (List.mem_filterMap.mpr ⟨x, hx, hk⟩))]
  cases Json.lookup k kvs with
  | none => rfl
  | some v => simp only [Option.map_some]; rw [eraseEntry_of_mem c hk v hx hnd]

/-! ### `thruQuals` -/

/-- `g` leaves everything but objects alone, and maps objects to objects -/
structure ObjOnly (g : Json → Json) : Prop where
  null : g .null = .null
  isNull : ∀ j, (g j).isNull = j.isNull
  str : ∀ s, g (.str s) = .str s

theorem objOnly_eraseObj (c : Ctx) (sels : List Sel) : ObjOnly (eraseObj c sels) :=
  ⟨rfl, fun j => by cases j <;> rfl, fun _ => rfl⟩

theorem thruQuals_isNull {g : Json → Json} (hg : ObjOnly g) : ∀ (qs : List Qual) (j : Json),
    (thruQuals g qs j).isNull = j.isNull
  | [], j => by rw [thruQuals]; exact hg.isNull j
  | .required :: qs, j => by rw [thruQuals]; exact thruQuals_isNull hg qs j
  | .list :: qs, j => by cases j <;> rfl

theorem thruQuals_str {g : Json → Json} (hg : ObjOnly g) (s : String) : ∀ (qs : List Qual),
    thruQuals g qs (.str s) = .str s
  | [] => by rw [thruQuals]; exact hg.str s
  | .required :: qs => by rw [thruQuals]; exact thruQuals_str hg s qs
  | .list :: qs => rfl

/-- `accepts` through `thruQuals` -/
theorem accepts_thruQuals {ok ok' : Json → Bool} {g : Json → Json} (hg : ObjOnly g)
    (h : ∀ j, ok j = true → ok' (g j) = true) : ∀ (qs : List Qual),
    (∀ v, acceptsNN ok (gtyOf qs) v = true → acceptsNN ok' (gtyOf qs) (thruQuals g qs v) = true) ∧
    (∀ v, accepts ok (gtyOf qs) v = true → accepts ok' (gtyOf qs) (thruQuals g qs v) = true)
  | [] => by
    simp only [gtyOf, thruQuals, acceptsNN, accepts, Bool.or_eq_true]
    refine ⟨h, fun v hv => ?_⟩
    rcases hv with hv | hv
    · left; rw [hg.isNull]; exact hv
    · right; exact h v hv
  | .required :: qs => by
    have ih := accepts_thruQuals hg h qs
    simp only [gtyOf, thruQuals, acceptsNN, accepts]
    exact ⟨ih.1, ih.1⟩
  | .list :: qs => by
    have ih := accepts_thruQuals hg h qs
    have hnn : ∀ v, acceptsNN ok (gtyOf (.list :: qs)) v = true →
        acceptsNN ok' (gtyOf (.list :: qs)) (thruQuals g (.list :: qs) v) = true := by
      intro v hv
      cases v with
      | arr xs =>
        simp only [gtyOf, acceptsNN, thruQuals, List.all_eq_true, List.mem_map, forall_exists_index, and_imp,
          forall_apply_eq_imp_iff₂] at hv ⊢
        exact fun x hx => ih.2 x (hv x hx)
      | null => simp [gtyOf, acceptsNN] at hv
      | bool _ => simp [gtyOf, acceptsNN] at hv
      | int _ => simp [gtyOf, acceptsNN] at hv
      | num _ => simp [gtyOf, acceptsNN] at hv
      | str _ => simp [gtyOf, acceptsNN] at hv
      | obj _ => simp [gtyOf, acceptsNN] at hv
    refine ⟨hnn, fun v hv => ?_⟩
    have hv' : v.isNull = true ∨ acceptsNN ok (gtyOf (.list :: qs)) v = true := by
      simpa [gtyOf, accepts] using hv
    have goal : ∀ w, (w.isNull = true ∨ acceptsNN ok' (gtyOf (.list :: qs)) w = true) →
        accepts ok' (gtyOf (.list :: qs)) w = true := by
      intro w hw; simpa [gtyOf, accepts] using hw
    apply goal
    rcases hv' with hv' | hv'
    · left; rw [thruQuals_isNull hg]; exact hv'
    · right; exact hnn v hv'

/-- `canon` through `thruQuals` -/
theorem canon_thruQuals {lc : Json → Json} {g : Json → Json} (hg : ObjOnly g) (h : ∀ j, lc (g j) = lc j) :
    ∀ (qs : List Qual),
    (∀ v, canonNN lc (gtyOf qs) (thruQuals g qs v) = canonNN lc (gtyOf qs) v) ∧
    (∀ v, canon lc (gtyOf qs) (thruQuals g qs v) = canon lc (gtyOf qs) v)
  | [] => by
    simp only [gtyOf, thruQuals, canonNN, canon, hg.isNull]
    exact ⟨h, fun v => by rw [h]⟩
  | .required :: qs => by
    have ih := canon_thruQuals hg h qs
    simp only [gtyOf, thruQuals, canonNN, canon]
    exact ⟨ih.1, ih.1⟩
  | .list :: qs => by
    have ih := canon_thruQuals hg h qs
    have hnn : ∀ v, canonNN lc (gtyOf (.list :: qs)) (thruQuals g (.list :: qs) v) =
        canonNN lc (gtyOf (.list :: qs)) v := by
      intro v
      cases v with
      | arr xs =>
        simp only [gtyOf, canonNN, thruQuals, List.map_map]
        congr 1
        apply List.map_congr_left
        intro x _
        exact ih.2 x
      | null => rfl
      | bool _ => rfl
      | int _ => rfl
      | num _ => rfl
      | str _ => rfl
      | obj _ => rfl
    refine ⟨hnn, fun v => ?_⟩
    have e1 : ∀ w, canon lc (gtyOf (.list :: qs)) w = if w.isNull then .null else canonNN lc (gtyOf (.list :: qs)) w := by
      intro w; simp [gtyOf, canon]
    rw [e1, e1, thruQuals_isNull hg, hnn]

/-! ### `eraseInSel` on the value of a kept field -/

theorem eraseInSel_isNull (c : Ctx) (x : Sel) (v : Json) : (eraseInSel c x v).isNull = v.isNull := by
  cases x with
  | field a fid sub =>
    cases hsf : c.s.fields[fid]? with
    | none => simp [eraseInSel, hsf]
    | some sf =>
      by_cases hobj : ∃ i, sf.ty.id = .object i
      · obtain ⟨i, hid⟩ := hobj
        rw [eraseInSel_object hsf hid]
        exact thruQuals_isNull (objOnly_eraseObj c sub) _ _
      · rw [eraseInSel_leaf hsf (fun i h => hobj ⟨i, h⟩)]
  | inline t sub => simp [eraseInSel]
  | spread g => simp [eraseInSel]
  | typename => simp [eraseInSel]

theorem eraseInSel_str (c : Ctx) (x : Sel) (s : String) : eraseInSel c x (.str s) = .str s := by
  cases x with
  | field a fid sub =>
    cases hsf : c.s.fields[fid]? with
    | none => simp [eraseInSel, hsf]
    | some sf =>
      by_cases hobj : ∃ i, sf.ty.id = .object i
      · obtain ⟨i, hid⟩ := hobj
        rw [eraseInSel_object hsf hid]
        exact thruQuals_str (objOnly_eraseObj c sub) _ _
      · rw [eraseInSel_leaf hsf (fun i h => hobj ⟨i, h⟩)]
  | inline t sub => simp [eraseInSel]
  | spread g => simp [eraseInSel]
  | typename => simp [eraseInSel]

theorem eraseEntry_str (c : Ctx) (k s : String) : ∀ sels : List Sel, eraseEntry c sels k (.str s) = .str s
  | [] => by rw [eraseEntry]
  | x :: xs => by
    rw [eraseEntry]
    split
    · exact eraseInSel_str c x s
    · exact eraseEntry_str c k s xs

/-! ## strict conformance: selection as written ⟹ pruned selection on the erased payload -/

theorem confSels_append (s : Schema) (tn : String) (kvs : List (String × Json)) : ∀ xs ys : List Sel,
    confSels s tn (xs ++ ys) kvs = (confSels s tn xs kvs && confSels s tn ys kvs)
  | [], ys => by simp [confSels]
  | x :: xs, ys => by
    rw [List.cons_append, confSels, confSels, confSels_append s tn kvs xs ys, Bool.and_assoc]

/-- the response keys of the pruned selection: every response key that is not erased -/
theorem mem_respKeys_prune {c : Ctx} {sels : List Sel} {k : String} (hk : k ∈ respKeys c.s sels)
    (hd : k ∉ dropKeys c sels) : k ∈ respKeys c.s (pruneSels c sels) := by
  have kept : ∀ x ∈ sels, keptKey c x = some k → k ∈ respKeys c.s (pruneSels c sels) := by
    intro x hx hkx
    obtain ⟨a, fid, sub, sf, rfl, hsf, hden, rfl⟩ := keptKey_some hkx
    refine List.mem_filterMap.mpr ⟨.field a fid (pruneSels c sub), ?_, by simp [respKey, hsf]⟩
    exact mem_pruneSels.mpr ⟨_, hx, by rw [pruneSel_kept hsf hden]; simp⟩
  obtain ⟨x, hx, hkx⟩ := List.mem_filterMap.mp hk
  cases x with
  | field a fid sub =>
    simp only [respKey] at hkx
    cases hsf : c.s.fields[fid]? with
    | none => simp [hsf] at hkx
    | some sf =>
      simp only [hsf, Option.map_some, Option.some.injEq] at hkx
      by_cases hden : isDenied c sf = true
      · have hmem : k ∈ deniedKeys c sels :=
          List.mem_filterMap.mpr ⟨_, hx, by simp [deniedKey, hsf, hden, hkx]⟩
        have hkept : k ∈ keptKeys c sels := by
          apply Classical.byContradiction
          intro hnk
          apply hd
          simp only [dropKeys, List.mem_filter, Bool.not_eq_true', List.contains_eq_mem, decide_eq_false_iff_not]
          exact ⟨hmem, hnk⟩
        obtain ⟨x', hx', hkx'⟩ := List.mem_filterMap.mp hkept
        exact kept x' hx' hkx'
      · exact kept _ hx (by rw [keptKey_of hsf (by simpa using hden), hkx])
  | inline t sub => simp [respKey] at hkx
  | spread g => simp [respKey] at hkx
  | typename =>
    simp only [respKey, Option.some.injEq] at hkx
    subst hkx
    exact List.mem_filterMap.mpr ⟨.typename, mem_pruneSels.mpr ⟨_, hx, by rw [pruneSel_typename]; simp⟩, rfl⟩

/-- what the descent needs at one selection set -/
structure LevelOk (c : Ctx) (sels : List Sel) : Prop where
  kept : (keptKeys c sels).Nodup
  tn : hasTypename sels = true → "__typename" ∉ dropKeys c sels

theorem levelOk_of {c : Ctx} {sels : List Sel} (hk : EnumSpec.nodup (keptKeys c sels) = true) (ht : tnHere c sels = true) :
    LevelOk c sels := by
  refine ⟨nodup_iff'.mp hk, fun h => ?_⟩
  simp only [tnHere, h, Bool.not_true, Bool.false_or, Bool.not_eq_true', List.contains_eq_mem,
    decide_eq_false_iff_not] at ht
  exact ht

mutual
  theorem strict_erase_field (c : Ctx) : ∀ (a : Option String) (fid : Nat) (sub : List Sel) (v : Json),
      treeSelD c (.field a fid sub) = true → tnOkSel c (.field a fid sub) = true →
      (∀ sf, c.s.fields[fid]? = some sf → isDenied c sf = false) →
      strictField c.s (.field a fid sub) v = true →
      strictField c.s (.field a fid (pruneSels c sub)) (eraseInSel c (.field a fid sub) v) = true
    | a, fid, sub, v => by
      intro ht htn hden h
      have IH := strict_erase_sels c sub
      rw [treeSelD] at ht
      rw [tnOkSel] at htn
      simp only [strictField] at h ⊢
      cases hsf : c.s.fields[fid]? with
      | none => simp [hsf] at h
      | some sf =>
        simp only [hsf, hden sf hsf, Bool.false_or, Bool.and_eq_true] at h ht htn ⊢
        cases hid : sf.ty.id with
        | scalar k =>
          rw [eraseInSel_leaf hsf (by simp [hid])]
          simpa [hid] using h
        | «enum» k =>
          rw [eraseInSel_leaf hsf (by simp [hid])]
          simpa [hid] using h
        | object i =>
          simp only [hid, Bool.and_eq_true] at h ht ⊢
          rw [eraseInSel_object hsf hid]
          cases ho : c.s.objects[i]? with
          | none => simp [ho] at h
          | some o =>
            simp only [ho] at h ⊢
            refine (accepts_thruQuals (objOnly_eraseObj c sub) ?_ sf.ty.quals).2 v h
            intro j hj
            have hlev := levelOk_of ht.2.2 htn.1
            cases j with
            | obj kvs =>
              simp only [conformsSel, Bool.and_eq_true] at hj
              obtain ⟨⟨hnd, hall⟩, hconf⟩ := hj
              rw [eraseObj_obj]
              simp only [conformsSel, Bool.and_eq_true]
              refine ⟨⟨?_, ?_⟩, IH sub o.name kvs (fun x hx => hx) ht.2.1.2 htn.2 hlev hconf⟩
              · have := eraseObj_keys c sub kvs
                rw [eraseObj_obj] at this
                simp only [kvsOf] at this
                rw [this]
                exact nodup_iff'.mpr ((nodup_iff'.mp hnd).filter _)
              · have hkeys := eraseObj_keys c sub kvs
                rw [eraseObj_obj] at hkeys
                simp only [kvsOf] at hkeys
                simp only [List.all_eq_true, List.contains_eq_mem, decide_eq_true_eq] at hall ⊢
                intro kv hkv
                have hk1 : kv.1 ∈ (erasedKvs c sub kvs).map (·.1) := List.mem_map_of_mem hkv
                rw [hkeys, List.mem_filter] at hk1
                obtain ⟨hin, hnd'⟩ := hk1
                obtain ⟨kv0, hkv0, hkv0e⟩ := List.mem_map.mp hin
                have := hall kv0 hkv0
                rw [hkv0e] at this
                exact mem_respKeys_prune this (by simpa using hnd')
            | null => simp [conformsSel] at hj
            | bool _ => simp [conformsSel] at hj
            | int _ => simp [conformsSel] at hj
            | num _ => simp [conformsSel] at hj
            | str _ => simp [conformsSel] at hj
            | arr _ => simp [conformsSel] at hj
        | interface k => simp [hid] at ht
        | union k => simp [hid] at ht
        | input k => simp [hid] at ht
  theorem strict_erase_sels (c : Ctx) : ∀ (xs sels : List Sel) (tn : String) (kvs : List (String × Json)),
      (∀ x ∈ xs, x ∈ sels) → treeSelsD c xs = true → tnOkSels c xs = true → LevelOk c sels →
      confSels c.s tn xs kvs = true → confSels c.s tn (pruneSels c xs) (erasedKvs c sels kvs) = true
    | [], _, _, _, _, _, _, _, _ => by rw [pruneSels]; simp [confSels]
    | x :: xs, sels, tn, kvs, hsub, ht, htn, hlev, h => by
      rw [confSels, Bool.and_eq_true] at h
      obtain ⟨hx, hxs⟩ := treeSelsD_cons ht
      rw [tnOkSels, Bool.and_eq_true] at htn
      have ih := strict_erase_sels c xs sels tn kvs (fun y hy => hsub y (by simp [hy])) hxs htn.2 hlev h.2
      have hxmem : x ∈ sels := hsub x (by simp)
      rw [pruneSels, confSels_append, ih, Bool.and_true]
      cases x with
      | field a fid sub =>
        have hcx := h.1
        rw [confSel_field] at hcx
        cases hsf : c.s.fields[fid]? with
        | none => simp [hsf] at hcx
        | some sf =>
          by_cases hd : isDenied c sf = true
          · rw [pruneSel_denied hsf hd]; simp [confSels]
          · have hd' : isDenied c sf = false := by simpa using hd
            rw [pruneSel_kept hsf hd', confSels, confSels, Bool.and_true, confSel_field]
            simp only [hsf] at hcx ⊢
            rw [lookup_erased_kept c hlev.kept hxmem (keptKey_of hsf hd')]
            cases hl : Json.lookup (a.getD sf.name) kvs with
            | none => simp [hl] at hcx
            | some v =>
              simp only [hl] at hcx
              simp only [Option.map_some]
              exact strict_erase_field c a fid sub v hx htn.1
                (fun sf' hsf' => by rw [hsf] at hsf'; cases hsf'; exact hd') hcx
      | spread g => simp [confSel] at h
      | inline t sub => simp [confSel] at h
      | typename =>
        rw [pruneSel_typename, confSels, confSels, Bool.and_true]
        have hcx := h.1
        simp only [confSel] at hcx ⊢
        have hnd : "__typename" ∉ dropKeys c sels := hlev.tn (hasTypename_of_mem hxmem)
        unfold erasedKvs
        rw [lookup_erased _ _ _ hnd]
        cases hl : Json.lookup "__typename" kvs with
        | none => simp [hl] at hcx
        | some v =>
          simp only [hl] at hcx
          cases v with
          | str n =>
            simp only [Option.map_some, eraseEntry_str]
            exact hcx
          | null => simp at hcx
          | bool _ => simp at hcx
          | int _ => simp at hcx
          | num _ => simp at hcx
          | arr _ => simp at hcx
          | obj _ => simp at hcx
end

/-- **a payload conforming to the selection as written, with the denied keys erased at every depth, conforms to the
    pruned selection** (strictly: exactly one entry per kept response key) -/
theorem conformsSel_erase (c : Ctx) (tn : String) (sels : List Sel) (j : Json)
    (ht : treeSelsD c sels = true) (hk : EnumSpec.nodup (keptKeys c sels) = true)
    (h1 : tnHere c sels = true) (h2 : tnOkSels c sels = true)
    (hc : conformsSel c.s tn sels j = true) : conformsSel c.s tn (pruneSels c sels) (eraseObj c sels j) = true := by
  have hlev := levelOk_of hk h1
  cases j with
  | obj kvs =>
    simp only [conformsSel, Bool.and_eq_true] at hc
    obtain ⟨⟨hnd, hall⟩, hconf⟩ := hc
    rw [eraseObj_obj]
    simp only [conformsSel, Bool.and_eq_true]
    have hkeys := eraseObj_keys c sels kvs
    rw [eraseObj_obj] at hkeys
    simp only [kvsOf] at hkeys
    refine ⟨⟨?_, ?_⟩, strict_erase_sels c sels sels tn kvs (fun x hx => hx) ht h2 hlev hconf⟩
    · rw [hkeys]
      exact nodup_iff'.mpr ((nodup_iff'.mp hnd).filter _)
    · simp only [List.all_eq_true, List.contains_eq_mem, decide_eq_true_eq] at hall ⊢
      intro kv hkv
      have hk1 : kv.1 ∈ (erasedKvs c sels kvs).map (·.1) := List.mem_map_of_mem hkv
      rw [hkeys, List.mem_filter] at hk1
      obtain ⟨hin, hnd'⟩ := hk1
      obtain ⟨kv0, hkv0, hkv0e⟩ := List.mem_map.mp hin
      have := hall kv0 hkv0
      rw [hkv0e] at this
      exact mem_respKeys_prune this (by simpa using hnd')
  | null => simp [conformsSel] at hc
  | bool _ => simp [conformsSel] at hc
  | int _ => simp [conformsSel] at hc
  | num _ => simp [conformsSel] at hc
  | str _ => simp [conformsSel] at hc
  | arr _ => simp [conformsSel] at hc

/-! ## the canonical form of the pruned selection does not see the erasure -/

theorem canonEntries_append (s : Schema) (skip : Bool) (kvs : List (String × Json)) : ∀ xs ys : List Sel,
    canonEntries s skip (xs ++ ys) kvs = canonEntries s skip xs kvs ++ canonEntries s skip ys kvs
  | [], ys => by simp [canonEntries]
  | x :: xs, ys => by
    have ih := canonEntries_append s skip kvs xs ys
    cases x with
    | field a fid sub => rw [List.cons_append, canonEntries.eq_2, canonEntries.eq_2, ih, List.append_assoc]
    | inline t sub => rw [List.cons_append]; simpa [canonEntries] using ih
    | spread g => rw [List.cons_append]; simpa [canonEntries] using ih
    | typename => rw [List.cons_append]; simpa [canonEntries] using ih

mutual
  theorem canon_erase_field (c : Ctx) (skip : Bool) : ∀ (a : Option String) (fid : Nat) (sub : List Sel) (v : Json),
      treeSelD c (.field a fid sub) = true →
      canonField c.s skip (.field a fid (pruneSels c sub)) (eraseInSel c (.field a fid sub) v) =
        canonField c.s skip (.field a fid (pruneSels c sub)) v
    | a, fid, sub, v => by
      intro ht
      have IH := canon_erase_sels c skip sub
      rw [treeSelD] at ht
      rw [canonField, canonField]
      cases hsf : c.s.fields[fid]? with
      | none => simp [hsf] at ht
      | some sf =>
        simp only [hsf, Bool.and_eq_true] at ht ⊢
        cases hid : sf.ty.id with
        | scalar k => rw [eraseInSel_leaf hsf (by simp [hid])]
        | «enum» k => rw [eraseInSel_leaf hsf (by simp [hid])]
        | object i =>
          simp only [hid, Bool.and_eq_true] at ht ⊢
          rw [eraseInSel_object hsf hid, canonLambda]
          refine (canon_thruQuals (objOnly_eraseObj c sub) ?_ sf.ty.quals).2 v
          intro j
          cases j with
          | obj kvs =>
            rw [eraseObj_obj, canonSel, canonSel]
            congr 1
            exact IH sub kvs (fun x hx => hx) ht.2.1.2 (nodup_iff'.mp ht.2.2)
          | null => rfl
          | bool _ => rfl
          | int _ => rfl
          | num _ => rfl
          | str _ => rfl
          | arr _ => rfl
        | interface k => simp [hid] at ht
        | union k => simp [hid] at ht
        | input k => simp [hid] at ht
  theorem canon_erase_sels (c : Ctx) (skip : Bool) : ∀ (xs sels : List Sel) (kvs : List (String × Json)),
      (∀ x ∈ xs, x ∈ sels) → treeSelsD c xs = true → (keptKeys c sels).Nodup →
      canonEntries c.s skip (pruneSels c xs) (erasedKvs c sels kvs) = canonEntries c.s skip (pruneSels c xs) kvs
    | [], _, _, _, _, _ => by rw [pruneSels]; simp [canonEntries]
    | x :: xs, sels, kvs, hsub, ht, hnd => by
      obtain ⟨hx, hxs⟩ := treeSelsD_cons ht
      have ih := canon_erase_sels c skip xs sels kvs (fun y hy => hsub y (by simp [hy])) hxs hnd
      have hxmem : x ∈ sels := hsub x (by simp)
      rw [pruneSels, canonEntries_append, canonEntries_append, ih]
      congr 1
      cases x with
      | field a fid sub =>
        cases hsf : c.s.fields[fid]? with
        | none => rw [treeSelD] at hx; simp [hsf] at hx
        | some sf =>
          by_cases hd : isDenied c sf = true
          · rw [pruneSel_denied hsf hd]; simp [canonEntries]
          · have hd' : isDenied c sf = false := by simpa using hd
            rw [pruneSel_kept hsf hd', canonEntries.eq_2, canonEntries.eq_2]
            simp only [hsf, canonEntries, List.append_nil]
            rw [lookup_erased_kept c hnd hxmem (keptKey_of hsf hd')]
            cases hl : Json.lookup (a.getD sf.name) kvs with
            | none => rfl
            | some v =>
              simp only [Option.map_some, eraseInSel_isNull]
              rw [canon_erase_field c skip a fid sub v hx]
      | spread g => simp [treeSelD] at hx
      | inline t sub => simp [treeSelD] at hx
      | typename => rw [pruneSel_typename]; simp [canonEntries]
end

/-- **`canonSel` of the pruned selection does not see the erasure of the denied keys** -/
theorem canonSel_erase (c : Ctx) (skip : Bool) (sels : List Sel) (j : Json)
    (ht : treeSelsD c sels = true) (hk : EnumSpec.nodup (keptKeys c sels) = true) :
    canonSel c.s skip (pruneSels c sels) (eraseObj c sels j) = canonSel c.s skip (pruneSels c sels) j := by
  cases j with
  | obj kvs =>
    rw [eraseObj_obj, canonSel, canonSel]
    congr 1
    exact canon_erase_sels c skip sels sels kvs (fun x hx => hx) ht (nodup_iff'.mp hk)
  | null => rfl
  | bool _ => rfl
  | int _ => rfl
  | num _ => rfl
  | str _ => rfl
  | arr _ => rfl

/-! ## losslessness -/

/-- **`treeD_lossless` (C01 under `deny`).**  A response conforming to the operation AS WRITTEN is written back as
    `canonSelD c op j`: the canonical form of `tree_lossless`, with the denied fields' entries dropped at every depth. -/
theorem treeD_lossless (c : Ctx) (opIdx : Nat) (op : ROperation) (items : List Item)
    (hop : c.q.operations[opIdx]? = some op) (ht : TreeOpD c op = true) (hp : TreeOp c (pruneOp c op) = true)
    (htn : tnOkOp c op = true)
    (hgen : responseForQuery c opIdx = .ok items) (hok : moduleOk c items = true)
    (hro : rustOkSels c (pruneSels c op.sels) = true)
    (hrn : EnumSpec.nodup (rustNames c (pruneSels c op.sels)) = true)
    (j : Json) (hc : conformsOp c op j = true) (v : Val)
    (hd : Serde.de (moduleEnv c items) (.path "ResponseData") j = .ok v) :
    Serde.ser (moduleEnv c items) (.path "ResponseData") v = .ok (canonSelD c op j) := by
  obtain ⟨_, hsels, hkeys⟩ := treeOpD_parts ht
  simp only [tnOkOp, Bool.and_eq_true] at htn
  have hd' : Serde.de (moduleEnv c items) (.path "ResponseData") (eraseDenied c op j) = .ok v := by
    rw [← denied_field_payload_same' c opIdx op items hop ht hgen hok j]; exact hd
  have hc' : conformsSel c.s (rootName c op) (pruneOp c op).sels (eraseDenied c op j) = true :=
    conformsSel_erase c _ op.sels j hsels hkeys htn.1 htn.2 hc
  have := top_lossless (moduleEnv c items) c (pruneOp c op) hp (topEnvD_of_module hop ht hp hgen hok) hro hrn
    (rootName c op) (eraseDenied c op j) v hc' hd'
  rw [this]
  unfold canonSelD eraseDenied
  rw [pruneOp_sels, canonSel_erase c _ op.sels j hsels hkeys]

/-- the same value, written as the canonical form of the payload with the denied keys erased at every depth -/
theorem treeD_lossless_erased (c : Ctx) (opIdx : Nat) (op : ROperation) (items : List Item)
    (hop : c.q.operations[opIdx]? = some op) (ht : TreeOpD c op = true) (hp : TreeOp c (pruneOp c op) = true)
    (htn : tnOkOp c op = true)
    (hgen : responseForQuery c opIdx = .ok items) (hok : moduleOk c items = true)
    (hro : rustOkSels c (pruneSels c op.sels) = true)
    (hrn : EnumSpec.nodup (rustNames c (pruneSels c op.sels)) = true)
    (j : Json) (hc : conformsOp c op j = true) (v : Val)
    (hd : Serde.de (moduleEnv c items) (.path "ResponseData") j = .ok v) :
    Serde.ser (moduleEnv c items) (.path "ResponseData") v =
      .ok (canonSel c.s c.o.skipNone (pruneSels c op.sels) (eraseDenied c op j)) := by
  obtain ⟨_, hsels, hkeys⟩ := treeOpD_parts ht
  rw [treeD_lossless c opIdx op items hop ht hp htn hgen hok hro hrn j hc v hd]
  unfold canonSelD eraseDenied
  rw [canonSel_erase c _ op.sels j hsels hkeys]

/-- **`treeD_roundtrip`**: acceptance and losslessness in one statement -/
theorem treeD_roundtrip (c : Ctx) (opIdx : Nat) (op : ROperation) (items : List Item)
    (hop : c.q.operations[opIdx]? = some op) (ht : TreeOpD c op = true) (hp : TreeOp c (pruneOp c op) = true)
    (htn : tnOkOp c op = true)
    (hgen : responseForQuery c opIdx = .ok items) (hok : moduleOk c items = true)
    (hro : rustOkSels c (pruneSels c op.sels) = true)
    (hrn : EnumSpec.nodup (rustNames c (pruneSels c op.sels)) = true)
    (j : Json) (hc : conformsOp c op j = true) :
    Serde.roundtrip (moduleEnv c items) (.path "ResponseData") j = .ok (canonSelD c op j) := by
  obtain ⟨v, hv⟩ := treeD_accepts c opIdx op items hop ht hp hgen hok j hc
  unfold Serde.roundtrip
  rw [hv]
  exact treeD_lossless c opIdx op items hop ht hp htn hgen hok hro hrn j hc v hv

/-! ## payloads that already omit the denied fields -/

/-- a response conforming to the PRUNED operation (no entry for the denied fields) is written back as its canonical
    form; no `tnOkOp` here -/
theorem treeD_lossless_pruned (c : Ctx) (opIdx : Nat) (op : ROperation) (items : List Item)
    (hop : c.q.operations[opIdx]? = some op) (ht : TreeOpD c op = true) (hp : TreeOp c (pruneOp c op) = true)
    (hgen : responseForQuery c opIdx = .ok items) (hok : moduleOk c items = true)
    (hro : rustOkSels c (pruneSels c op.sels) = true)
    (hrn : EnumSpec.nodup (rustNames c (pruneSels c op.sels)) = true)
    (j : Json) (hc : conformsOp c (pruneOp c op) j = true) (v : Val)
    (hd : Serde.de (moduleEnv c items) (.path "ResponseData") j = .ok v) :
    Serde.ser (moduleEnv c items) (.path "ResponseData") v = .ok (canonSelD c op j) :=
  top_lossless (moduleEnv c items) c (pruneOp c op) hp (topEnvD_of_module hop ht hp hgen hok) hro hrn _ j v hc hd

theorem treeD_roundtrip_pruned (c : Ctx) (opIdx : Nat) (op : ROperation) (items : List Item)
    (hop : c.q.operations[opIdx]? = some op) (ht : TreeOpD c op = true) (hp : TreeOp c (pruneOp c op) = true)
    (hgen : responseForQuery c opIdx = .ok items) (hok : moduleOk c items = true)
    (hro : rustOkSels c (pruneSels c op.sels) = true)
    (hrn : EnumSpec.nodup (rustNames c (pruneSels c op.sels)) = true)
    (j : Json) (hc : conformsOp c (pruneOp c op) j = true) :
    Serde.roundtrip (moduleEnv c items) (.path "ResponseData") j = .ok (canonSelD c op j) := by
  obtain ⟨v, hv⟩ := treeD_accepts_pruned c opIdx op items hop ht hp hgen hok j hc
  unfold Serde.roundtrip
  rw [hv]
  exact treeD_lossless_pruned c opIdx op items hop ht hp hgen hok hro hrn j hc v hv

/-! ## the widest form: the denied keys may carry anything -/

/-- **any payload whose erasure conforms to the pruned operation** — the denied keys absent, present, of any type,
    duplicated — is read, and written back as `canonSelD c op j`.  No `tnOkOp` here. -/
theorem treeD_roundtrip_of_erased (c : Ctx) (opIdx : Nat) (op : ROperation) (items : List Item)
    (hop : c.q.operations[opIdx]? = some op) (ht : TreeOpD c op = true) (hp : TreeOp c (pruneOp c op) = true)
    (hgen : responseForQuery c opIdx = .ok items) (hok : moduleOk c items = true)
    (hro : rustOkSels c (pruneSels c op.sels) = true)
    (hrn : EnumSpec.nodup (rustNames c (pruneSels c op.sels)) = true)
    (j : Json) (hc : conformsOp c (pruneOp c op) (eraseDenied c op j) = true) :
    Serde.roundtrip (moduleEnv c items) (.path "ResponseData") j = .ok (canonSelD c op j) := by
  obtain ⟨_, hsels, hkeys⟩ := treeOpD_parts ht
  have h := treeD_roundtrip_pruned c opIdx op items hop ht hp hgen hok hro hrn _ hc
  unfold Serde.roundtrip at h ⊢
  rw [denied_field_payload_same' c opIdx op items hop ht hgen hok j, h]
  unfold canonSelD eraseDenied
  rw [canonSel_erase c _ op.sels j hsels hkeys]

end Deny
end C01
end GqlVerif
