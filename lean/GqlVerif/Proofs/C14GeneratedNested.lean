import GqlVerif.Proofs.C14GeneratedSwap
/-!
# P26 (2/4) — C14: a key nothing names is ignored at EVERY depth (reviewer finding 5, second half)

`Composed.denied_key_ignored_flatten` / `SerdeFuel.denied_key_ignored_de` erase a key in the *top* object of the payload
read at `p`.  Here the same for a key inside a nested object, any number of keys, at any number of positions:

* `Sim e π j j'` — inductively, along the type structure, "`j` and `j'` differ only by entries that nothing reading
  that object names".  Positions `π`: a type expression (`.ty t`), a named type (`.named p`), the elements of an array
  read at `Vec<t>` (`.elems t`), the entries of an object read at a struct with members `fs` (`.entries fs`).
  Generators: `erase` (at a named type `p`, the entries of a key `k` with `KeyFree e k p` are removed — the
  top-object step of the existing theorems), congruence through `Option` / `Box` / `Vec` (element-wise), alias and
  extern alias, and through a struct *member*: the value of the entry read by a non-flatten member `f` (no
  `deserialize_with` helper, the only member with that wire name) is replaced by a `Sim`-related one at `f.ty`;
  closed under `refl`, `symm`, `trans` (so: several keys, several positions, insertion as well as removal).
* **`sim_sound`** — `Sim e (.named p) j j' → dePath e b fuel p j = dePath e b fuel p j'` for every fuel and `b`
  (also `deTyWith` at `.ty t`; any environment: flatten members, tagged enums … are allowed at every struct passed —
  the descent itself is through own members, what `erase` needs is `KeyFree`).
* **`sim_de`** — the top-level `Serde.de` under `EnvOK e` (the two sides compute different fuels); `sim_de_of_nf` with
  no hypothesis on the environment but "neither side answers with the fuel error".
* `Sim.eraseKeys` (a list of keys at once), `Sim.insert`, `Sim.atField` / `Sim.atFieldOnly` (one entry replaced);
* an example on the generated module `denyEnv`: the key `name` two levels down (inside `owner`, inside a list
  element) is ignored by `DogF`, successfully.

* `Sim.buffered` — descending into the value of an entry that is read **through the flatten buffer** (by a member of a
  flattened fragment struct, of a variant struct of a flattened tagged enum, … — possibly by several readers):
  `C14GeneratedSwap.swap_dePath`; `readersCheck` / `Sim.buffered_of_check` — its premises as a decidable check over
  `reachSet`; an example on `denyEnv` (`Qanimal`, `Dog` variant, key `name` inside `owner`).
-/
namespace GqlVerif
namespace C14G
open Serde Composed SerdeFuel

/-! ## shape of a JSON value (what `isNull` / `dePrim` / the struct reader dispatch on) -/

/-- the constructor of a JSON value, contents of containers forgotten -/
def kind : Json → Json
  | .obj _ => .obj []
  | .arr _ => .arr []
  | j => j

theorem isNull_of_kind {j j' : Json} (h : kind j = kind j') : j.isNull = j'.isNull := by
  cases j <;> cases j' <;> simp [kind] at h <;> first | rfl | (subst h; rfl) | skip

theorem dePrim_arr (p : String) (xs xs' : List Json) : dePrim p (.arr xs) = dePrim p (.arr xs') := by
  unfold dePrim
  split
  · rfl
  · split
    · rfl
    · split
      · rfl
      · split <;> rfl

theorem dePrim_of_kind (p : String) {j j' : Json} (h : kind j = kind j') : dePrim p j = dePrim p j' := by
  cases j <;> cases j' <;> simp [kind] at h <;> first | rfl | (subst h; rfl) | exact dePrim_arr p _ _ | exact dePrim_obj p _ _

/-! ## the relation -/

/-- where in the type structure a pair of JSON values is compared -/
inductive Pos where
  /-- at a type expression -/
  | ty (t : RTy)
  /-- at a named type -/
  | named (p : String)
  /-- the elements of an array read at `Vec<t>` -/
  | elems (t : RTy)
  /-- the entries of an object read at a struct with these members -/
  | entries (fs : List RField)

/-- the item does not use `w` as a tag (and is no `@oneOf` enum, which is sensitive to every entry) -/
def noTagKey (w : String) : Item → Bool
  | .tagged _ _ _ tag _ => tag != w
  | .oneOf .. => false
  | _ => true

/-- **`j` and `j'` differ only by entries that nothing reading the object they sit in names** -/
inductive Sim (e : Env) : Pos → Json → Json → Prop
  | refl (π : Pos) (j : Json) : Sim e π j j
  | symm {π : Pos} {j j' : Json} : Sim e π j j' → Sim e π j' j
  | trans {π : Pos} {j j' j'' : Json} : Sim e π j j' → Sim e π j' j'' → Sim e π j j''
  /-- `Option<t>` -/
  | opt {t : RTy} {j j' : Json} : Sim e (.ty t) j j' → Sim e (.ty (.opt t)) j j'
  /-- `Box<t>` -/
  | box {t : RTy} {j j' : Json} : Sim e (.ty t) j j' → Sim e (.ty (.box t)) j j'
  /-- `Vec<t>`: element-wise -/
  | vec {t : RTy} {xs xs' : List Json} : Sim e (.elems t) (.arr xs) (.arr xs') → Sim e (.ty (.vec t)) (.arr xs) (.arr xs')
  | path {p : String} {j j' : Json} : Sim e (.named p) j j' → Sim e (.ty (.path p)) j j'
  | cons {t : RTy} {x x' : Json} {xs xs' : List Json} : Sim e (.ty t) x x' → Sim e (.elems t) (.arr xs) (.arr xs') →
      Sim e (.elems t) (.arr (x :: xs)) (.arr (x' :: xs'))
  /-- the top-object step: every entry of a key that nothing reading this object names is removed -/
  | erase {p k : String} {kvs : List (String × Json)} : KeyFree e k p → Sim e (.named p) (.obj kvs) (.obj (eraseKey k kvs))
  | alias {p n : String} {pub : Bool} {t : RTy} {j j' : Json} : e.find p = some (.alias n pub t) → Sim e (.ty t) j j' →
      Sim e (.named p) j j'
  | extern {p : String} {x : String × RTy} {j j' : Json} : e.find p = none → e.externs.find? (·.1 == p) = some x →
      Sim e (.ty x.2) j j' → Sim e (.named p) j j'
  /-- a struct: entry-wise -/
  | struct {p n : String} {d : List String} {sc : Option String} {fs : List RField} {kvs kvs' : List (String × Json)} :
      e.find p = some (.struct n d sc fs) → Sim e (.entries fs) (.obj kvs) (.obj kvs') → Sim e (.named p) (.obj kvs) (.obj kvs')
  /-- an entry kept as it is -/
  | keep {fs : List RField} {kv : String × Json} {kvs kvs' : List (String × Json)} :
      Sim e (.entries fs) (.obj kvs) (.obj kvs') → Sim e (.entries fs) (.obj (kv :: kvs)) (.obj (kv :: kvs'))
  /-- the entry read by the own member `f`: its value replaced by a related one at the member's type -/
  | field {fs : List RField} {f : RField} {v v' : Json} {kvs kvs' : List (String × Json)} :
      f ∈ fs → f.flatten = false → f.deserWith = none → (∀ g ∈ fs, g.flatten = false → g.wire = f.wire → g = f) →
      Sim e (.ty f.ty) v v' → Sim e (.entries fs) (.obj kvs) (.obj kvs') →
      Sim e (.entries fs) (.obj ((f.wire, v) :: kvs)) (.obj ((f.wire, v') :: kvs'))
  /-- entries `(w, v)` that are read **through the flatten buffer**, their value replaced by `v'`: every own member with
      wire name `w` of every struct that reads this JSON object (`Reach`: flattened members, newtype variants of tagged
      enums, aliases) has no `deserialize_with` helper and a type at which `v` and `v'` are related; no reachable tagged
      enum has the tag `w`, no `@oneOf` enum is reachable -/
  | buffered {p w : String} {v v' : Json} {l l' : List (String × Json)} :
      Swap w v v' l l' →
      (∀ q it, Reach e p q → e.find q = some it → noTagKey w it = true) →
      (∀ q n d sc fs f, Reach e p q → e.find q = some (.struct n d sc fs) → f ∈ fs → f.flatten = false → f.wire = w →
        f.deserWith = none) →
      (∀ q n d sc fs f, Reach e p q → e.find q = some (.struct n d sc fs) → f ∈ fs → f.flatten = false → f.wire = w →
        Sim e (.ty f.ty) v v') →
      Sim e (.named p) (.obj l) (.obj l')

/-! ## what the relation guarantees, position by position -/

def elemsOf : Json → List Json
  | .arr xs => xs
  | _ => []

def kvsOf : Json → List (String × Json)
  | .obj kvs => kvs
  | _ => []

/-- two entry lists no reader of a struct with members `fs` can tell apart: same key multiplicities, every own member
    reads the same, and the entries of all other keys (the flatten buffer) are identical -/
def EntriesSound (e : Env) (fs : List RField) (kvs kvs' : List (String × Json)) : Prop :=
  (∀ w, countKey w kvs = countKey w kvs') ∧
  (∀ g ∈ fs, g.flatten = false → ∀ b fuel, readKey (dePath e b fuel) g kvs = readKey (dePath e b fuel) g kvs') ∧
  (∀ q : String → Bool, (∀ g ∈ fs, g.flatten = false → q g.wire = false) →
    kvs.filter (fun kv => q kv.1) = kvs'.filter (fun kv => q kv.1))

def Sound (e : Env) : Pos → Json → Json → Prop
  | .ty t, j, j' => ∀ b fuel, deTyWith (dePath e b fuel) t j = deTyWith (dePath e b fuel) t j'
  | .named p, j, j' => ∀ b fuel, dePath e b fuel p j = dePath e b fuel p j'
  | .elems t, j, j' => ∀ b fuel, (elemsOf j).mapM (deTyWith (dePath e b fuel) t) = (elemsOf j').mapM (deTyWith (dePath e b fuel) t)
  | .entries fs, j, j' => EntriesSound e fs (kvsOf j) (kvsOf j')

/-! ## congruence of the struct reader in the entries -/

theorem deStructMapWith_congr (e : Env) (b : Bool) (fuel : Nat) (fs : List RField) (kvs kvs' : List (String × Json))
    (h : EntriesSound e fs kvs kvs') :
    deStructMapWith (dePath e b fuel) (deFlat e fuel) fs kvs = deStructMapWith (dePath e b fuel) (deFlat e fuel) fs kvs' := by
  obtain ⟨hc, hr, hq⟩ := h
  unfold deStructMapWith
  rw [deOwnWith_congr (dePath e b fuel) fs kvs kvs' hc (fun g hg hfl => hr g hg hfl b fuel) fs (fun _ h => h)]
  have hbuf := hq (fun k => !((fs.filter (!·.flatten)).map (·.wire)).contains k) (by
    intro g hg hfl
    have : g.wire ∈ (fs.filter (!·.flatten)).map (·.wire) :=
      List.mem_map.mpr ⟨g, List.mem_filter.mpr ⟨hg, by simp [hfl]⟩, rfl⟩
    simpa using this)
  simp only [hbuf]

/-! ## soundness -/

theorem sim_sound_aux {e : Env} {π : Pos} {j j' : Json} (h : Sim e π j j') : kind j = kind j' ∧ Sound e π j j' := by
  induction h with
  | refl π j =>
    refine ⟨rfl, ?_⟩
    cases π with
    | ty t => exact fun _ _ => rfl
    | named p => exact fun _ _ => rfl
    | elems t => exact fun _ _ => rfl
    | entries fs => exact ⟨fun _ => rfl, fun _ _ _ _ _ => rfl, fun _ _ => rfl⟩
  | @symm π j j' _ ih =>
    refine ⟨ih.1.symm, ?_⟩
    have h2 := ih.2
    cases π with
    | ty t => exact fun b fuel => (h2 b fuel).symm
    | named p => exact fun b fuel => (h2 b fuel).symm
    | elems t => exact fun b fuel => (h2 b fuel).symm
    | entries fs =>
      exact ⟨fun w => (h2.1 w).symm, fun g hg hfl b fuel => (h2.2.1 g hg hfl b fuel).symm, fun q hq => (h2.2.2 q hq).symm⟩
  | @trans π j j' j'' _ _ ih1 ih2 =>
    refine ⟨ih1.1.trans ih2.1, ?_⟩
    have h1 := ih1.2
    have h2 := ih2.2
    cases π with
    | ty t => exact fun b fuel => (h1 b fuel).trans (h2 b fuel)
    | named p => exact fun b fuel => (h1 b fuel).trans (h2 b fuel)
    | elems t => exact fun b fuel => (h1 b fuel).trans (h2 b fuel)
    | entries fs =>
      exact ⟨fun w => (h1.1 w).trans (h2.1 w), fun g hg hfl b fuel => (h1.2.1 g hg hfl b fuel).trans (h2.2.1 g hg hfl b fuel),
        fun q hq => (h1.2.2 q hq).trans (h2.2.2 q hq)⟩
  | opt _ ih =>
    refine ⟨ih.1, fun b fuel => ?_⟩
    simp only [deTyWith, isNull_of_kind ih.1, ih.2 b fuel]
  | box _ ih => exact ⟨ih.1, fun b fuel => by simp only [deTyWith]; exact ih.2 b fuel⟩
  | vec _ ih =>
    refine ⟨rfl, fun b fuel => ?_⟩
    have := ih.2 b fuel
    simp only [elemsOf] at this
    simp only [deTyWith, this]
  | path _ ih => exact ⟨ih.1, fun b fuel => by simp only [deTyWith]; exact ih.2 b fuel⟩
  | cons _ _ ih1 ih2 =>
    refine ⟨rfl, fun b fuel => ?_⟩
    have h1 := ih1.2 b fuel
    have h2 := ih2.2 b fuel
    simp only [elemsOf] at h2 ⊢
    simp only [List.mapM_cons, h1, h2]
  | @erase p k kvs hkf => exact ⟨rfl, fun b fuel => denied_key_ignored_flatten e k b fuel p kvs hkf⟩
  | @alias p n pub t j j' hf _ ih =>
    refine ⟨ih.1, fun b fuel => ?_⟩
    cases fuel with
    | zero => rw [dePath, dePath]
    | succ f =>
      rw [dePath, dePath, dePrim_of_kind p ih.1]
      split
      · rfl
      · simp only [hf]; exact ih.2 b f
  | @extern p x j j' hf hx _ ih =>
    refine ⟨ih.1, fun b fuel => ?_⟩
    cases fuel with
    | zero => rw [dePath, dePath]
    | succ f =>
      rw [dePath, dePath, dePrim_of_kind p ih.1]
      split
      · rfl
      · simp only [hf, hx]; exact ih.2 b f
  | @struct p n d sc fs kvs kvs' hf _ ih =>
    refine ⟨rfl, fun b fuel => ?_⟩
    cases fuel with
    | zero => rw [dePath, dePath]
    | succ f =>
      rw [dePath, dePath, dePrim_obj p kvs kvs']
      split
      · rfl
      · simp only [hf, deStructWith]
        exact deStructMapWith_congr e b f fs kvs kvs' ih.2
  | @keep fs kv kvs kvs' _ ih =>
    refine ⟨rfl, ?_⟩
    obtain ⟨hc, hr, hq⟩ := ih.2
    simp only [Sound, kvsOf] at hc hr hq ⊢
    refine ⟨fun w => by rw [countKey_cons, countKey_cons, hc w], fun g hg hfl b fuel => ?_, fun q hq' => ?_⟩
    · rw [readKey_cons, readKey_cons, hr g hg hfl b fuel]
    · rw [List.filter_cons, List.filter_cons, hq q hq']
  | @field fs f v v' kvs kvs' hmem hfl hdw huniq _ _ ih1 ih2 =>
    refine ⟨rfl, ?_⟩
    obtain ⟨hc, hr, hq⟩ := ih2.2
    have hv := ih1.2
    simp only [Sound, kvsOf] at hc hr hq hv ⊢
    refine ⟨fun w => by rw [countKey_cons, countKey_cons, hc w], fun g hg hgfl b fuel => ?_, fun q hq' => ?_⟩
    · rw [readKey_cons, readKey_cons, hr g hg hgfl b fuel]
      by_cases hw : f.wire = g.wire
      · have hgf : g = f := huniq g hg hgfl hw.symm
        subst hgf
        simp only [beq_self_eq_true, ↓reduceIte, deFieldWith, hdw, hv b fuel]
      · have : (f.wire == g.wire) = false := by simpa using hw
        simp only [this, Bool.false_eq_true, ↓reduceIte]
    · rw [List.filter_cons, List.filter_cons, hq q hq']
      simp only [hq' f hmem hfl, Bool.false_eq_true, ↓reduceIte]
  | @buffered p w v v' l l' hs hnt hdw _ ih =>
    refine ⟨rfl, fun b fuel => ?_⟩
    refine swap_dePath (fun q hq it hf => ?_) hs b fuel
    cases it with
    | struct n d sc fs =>
      intro f hf' hfl hw
      exact ⟨hdw q n d sc fs f hq hf hf' hfl hw, (ih q n d sc fs f hq hf hf' hfl hw).2⟩
    | tagged n d sc tag vs => simpa [okItemS, noTagKey] using hnt q _ hq hf
    | oneOf n d sc vs => simpa [okItemS, noTagKey] using hnt q _ hq hf
    | alias n pub t => trivial
    | unitStruct n d sc => trivial
    | gqlEnum n d sp vs ser de => trivial
    | defaults fns => trivial

/-- **nested positions**: two payloads that differ only by entries nothing names — at any depth below `p`, through
    `Option` / `Vec` / `Box` / struct members / aliases — are read alike at the named type `p`: same value or same error,
    for every fuel, buffered or not -/
theorem sim_sound {e : Env} {p : String} {j j' : Json} (h : Sim e (.named p) j j') (b : Bool) (fuel : Nat) :
    dePath e b fuel p j = dePath e b fuel p j' :=
  (sim_sound_aux h).2 b fuel

/-- the same at a type expression -/
theorem sim_sound_ty {e : Env} {t : RTy} {j j' : Json} (h : Sim e (.ty t) j j') (b : Bool) (fuel : Nat) :
    deTy e b fuel t j = deTy e b fuel t j' :=
  (sim_sound_aux h).2 b fuel

/-- **top level** (`Serde.de` computes its fuel from the payload; `EnvOK`: the fuel never matters) -/
theorem sim_de {e : Env} (hOK : EnvOK e) {t : RTy} {j j' : Json} (h : Sim e (.ty t) j j') : de e t j = de e t j' := by
  have h1 := deTy_fuel_indep hOK false t j (max (deFuel e j) (deFuel e j')) (Nat.le_max_left _ _)
  have h2 := deTy_fuel_indep hOK false t j' (max (deFuel e j) (deFuel e j')) (Nat.le_max_right _ _)
  unfold de
  rw [← h1, ← h2]
  exact sim_sound_ty h false _

/-- at a named type -/
theorem sim_de_named {e : Env} (hOK : EnvOK e) {p : String} {j j' : Json} (h : Sim e (.named p) j j') :
    de e (.path p) j = de e (.path p) j' :=
  sim_de hOK (.path h)

/-- no hypothesis on the environment: if neither side is answered by the fuel error, the answers agree -/
theorem sim_de_of_nf {e : Env} {t : RTy} {j j' : Json} (h : Sim e (.ty t) j j')
    (hnf : de e t j ≠ .error (.unmodelled "fuel")) (hnf' : de e t j' ≠ .error (.unmodelled "fuel")) : de e t j = de e t j' := by
  have h1 := de_stable e t j hnf (max (deFuel e j) (deFuel e j')) (Nat.le_max_left _ _)
  have h2 := de_stable e t j' hnf' (max (deFuel e j) (deFuel e j')) (Nat.le_max_right _ _)
  rw [← h1, ← h2]
  exact sim_sound_ty h false _

/-! ## derived generators -/

/-- the entries without the entries of the keys `ks` -/
def eraseKeys (ks : List String) (kvs : List (String × Json)) : List (String × Json) :=
  kvs.filter (fun kv => !ks.contains kv.1)

theorem eraseKeys_nil (kvs : List (String × Json)) : eraseKeys [] kvs = kvs := by
  simp [eraseKeys]

theorem eraseKeys_cons (k : String) (ks : List String) (kvs : List (String × Json)) :
    eraseKeys (k :: ks) kvs = eraseKeys ks (eraseKey k kvs) := by
  unfold eraseKeys eraseKey
  rw [List.filter_filter]
  apply List.filter_congr
  intro kv _
  by_cases h : kv.1 = k
  · simp [h]
  · have : (kv.1 == k) = false := by simpa using h
    simp [h]

/-- several keys at once -/
theorem Sim.eraseKeys {e : Env} {p : String} : ∀ (ks : List String) (kvs : List (String × Json)),
    (∀ k ∈ ks, KeyFree e k p) → Sim e (.named p) (.obj kvs) (.obj (eraseKeys ks kvs))
  | [], kvs, _ => by rw [eraseKeys_nil]; exact .refl _ _
  | k :: ks, kvs, h => by
    rw [eraseKeys_cons]
    exact .trans (.erase (h k (by simp))) (Sim.eraseKeys ks _ (fun k' hk' => h k' (by simp [hk'])))

/-- insertion form of `erase` -/
theorem Sim.insert {e : Env} {p k : String} (hkf : KeyFree e k p) (v : Json) (pre post : List (String × Json)) :
    Sim e (.named p) (.obj (pre ++ (k, v) :: post)) (.obj (pre ++ post)) := by
  have h1 : Sim e (.named p) (.obj (pre ++ (k, v) :: post)) (.obj (eraseKey k (pre ++ (k, v) :: post))) := .erase hkf
  have h2 : Sim e (.named p) (.obj (pre ++ post)) (.obj (eraseKey k (pre ++ post))) := .erase hkf
  rw [eraseKey_insert] at h1
  exact .trans h1 (.symm h2)

theorem Sim.entries_refl_prefix {e : Env} {fs : List RField} : ∀ (pre : List (String × Json)) {kvs kvs' : List (String × Json)},
    Sim e (.entries fs) (.obj kvs) (.obj kvs') → Sim e (.entries fs) (.obj (pre ++ kvs)) (.obj (pre ++ kvs'))
  | [], _, _, h => h
  | _ :: pre, _, _, h => .keep (Sim.entries_refl_prefix pre h)

/-- one entry, anywhere in the object, replaced: the value read by the own member `f` of the struct `p` -/
theorem Sim.atField {e : Env} {p n : String} {d : List String} {sc : Option String} {fs : List RField} {f : RField}
    (hfind : e.find p = some (.struct n d sc fs)) (hmem : f ∈ fs) (hfl : f.flatten = false) (hdw : f.deserWith = none)
    (huniq : ∀ g ∈ fs, g.flatten = false → g.wire = f.wire → g = f) {v v' : Json} (hv : Sim e (.ty f.ty) v v')
    (pre post : List (String × Json)) :
    Sim e (.named p) (.obj (pre ++ (f.wire, v) :: post)) (.obj (pre ++ (f.wire, v') :: post)) :=
  .struct hfind (Sim.entries_refl_prefix pre (.field hmem hfl hdw huniq hv (.refl _ _)))

/-! ## a decidable form of the premises of `Sim.buffered` -/

/-- every reader of the key `w` in the JSON object read at `p` has a type accepted by `P` (and no helper); no reachable
    tagged enum uses `w` as its tag, no `@oneOf` enum is reachable -/
def readersCheck (e : Env) (p w : String) (P : RTy → Bool) : Bool :=
  (reachSet e p).all (fun q => match e.find q with
    | some (.struct _ _ _ fs) => fs.all (fun f => f.flatten || f.wire != w || (f.deserWith.isNone && P f.ty))
    | some it => noTagKey w it
    | none => true)

theorem Sim.buffered_of_check {e : Env} {p w : String} {v v' : Json} {l l' : List (String × Json)} {P : RTy → Bool}
    (hc : readersCheck e p w P = true) (hP : ∀ t, P t = true → Sim e (.ty t) v v') (hs : Swap w v v' l l') :
    Sim e (.named p) (.obj l) (.obj l') := by
  simp only [readersCheck, List.all_eq_true] at hc
  have hstruct : ∀ q n d sc fs f, Reach e p q → e.find q = some (.struct n d sc fs) → f ∈ fs → f.flatten = false →
      f.wire = w → f.deserWith = none ∧ P f.ty = true := by
    intro q n d sc fs f hq hf hm hfl hw
    have := hc q ((mem_reachSet_iff e p q).mpr hq)
    simp only [hf, List.all_eq_true, Bool.or_eq_true, Bool.and_eq_true, bne_iff_ne, ne_eq, Option.isNone_iff_eq_none] at this
    rcases this f hm with (h | h) | h
    · rw [hfl] at h; cases h
    · exact absurd hw h
    · exact h
  refine .buffered hs (fun q it hq hf => ?_) (fun q n d sc fs f hq hf hm hfl hw => (hstruct q n d sc fs f hq hf hm hfl hw).1)
    (fun q n d sc fs f hq hf hm hfl hw => hP _ (hstruct q n d sc fs f hq hf hm hfl hw).2)
  have := hc q ((mem_reachSet_iff e p q).mpr hq)
  simp only [hf] at this
  cases it with
  | struct n d sc fs => rfl
  | tagged n d sc tag vs => exact this
  | oneOf n d sc vs => exact this
  | alias n pub t => rfl
  | unitStruct n d sc => rfl
  | gqlEnum n d sp vs ser de => rfl
  | defaults fns => rfl

/-- the members of the struct found at a name (decidable access: `Item` has no `DecidableEq`) -/
def structFields? : Option Item → Option (List RField)
  | some (.struct _ _ _ fs) => some fs
  | _ => none

theorem find_struct_of {e : Env} {p : String} {fs : List RField} (h : structFields? (e.find p) = some fs) :
    ∃ n d sc, e.find p = some (.struct n d sc fs) := by
  cases hf : e.find p with
  | none => rw [hf] at h; cases h
  | some it =>
    rw [hf] at h
    cases it <;> simp [structFields?] at h
    subst h
    exact ⟨_, _, _, rfl⟩

/-! ## an instance on the generated module `denyEnv`

`DogF { barks: Option<Boolean>, owner: Option<DogFowner> }`, `DogFowner { id: ID }`.  The key `name` (a key other structs
of the module use: the global check `items.all (itemOK "name")` is false) inside `owner` is ignored, and the read
succeeds. -/

theorem denyEnv_ok : EnvOK denyEnv := envOK_of_check (by decide +kernel)

example :
    de denyEnv (.path "DogF") (.obj [("barks", .bool true), ("owner", .obj [("name", .str "Ann"), ("id", .str "7"), ("name", .int 3)])]) =
    de denyEnv (.path "DogF") (.obj [("barks", .bool true), ("owner", .obj [("id", .str "7")])]) ∧
    (de denyEnv (.path "DogF") (.obj [("barks", .bool true), ("owner", .obj [("name", .str "Ann"), ("id", .str "7"), ("name", .int 3)])])).toOption.isSome = true := by
  refine ⟨?_, by decide +kernel⟩
  apply sim_de_named denyEnv_ok
  obtain ⟨n, d, sc, hfind⟩ := find_struct_of (e := denyEnv) (p := "DogF")
    (fs := [{ rust := "barks", ty := .opt (.path "Boolean") }, { rust := "owner", ty := .opt (.path "DogFowner") }])
    (by decide +kernel)
  have hkf : KeyFree denyEnv "name" "DogFowner" := keyFreeCheck_sound (by decide +kernel)
  exact Sim.atField (f := { rust := "owner", ty := .opt (.path "DogFowner") }) hfind (by simp) rfl rfl
    (by intro g hg _ hw; simp at hg; rcases hg with rfl | rfl <;> first | rfl | (exact absurd hw (by decide)))
    (.opt (.path (.erase (kvs := [("name", .str "Ann"), ("id", .str "7"), ("name", .int 3)]) hkf))) [("barks", .bool true)] []

/-- through the flatten buffer: `Qanimal { name, #[flatten] on: QanimalOn }`, `QanimalOn::Dog(QanimalOnDog { barks, owner,
    #[flatten] dog_f: DogF { barks, owner } })`.  The entry `owner` is not a member of `Qanimal`: it stays in the flatten
    buffer and is read by `QanimalOnDog.owner` (and would be read by `DogF.owner`); inside it the key `name` is ignored —
    and the read succeeds -/
example :
    de denyEnv (.path "Qanimal") (.obj [("__typename", .str "Dog"), ("name", .str "Rex"),
        ("owner", .obj [("name", .str "Ann"), ("id", .str "7")]), ("barks", .bool true)]) =
    de denyEnv (.path "Qanimal") (.obj [("__typename", .str "Dog"), ("name", .str "Rex"),
        ("owner", .obj [("id", .str "7")]), ("barks", .bool true)]) ∧
    (de denyEnv (.path "Qanimal") (.obj [("__typename", .str "Dog"), ("name", .str "Rex"),
        ("owner", .obj [("name", .str "Ann"), ("id", .str "7")]), ("barks", .bool true)])).toOption.isSome = true := by
  refine ⟨?_, by decide +kernel⟩
  apply sim_de_named denyEnv_ok
  have h1 : KeyFree denyEnv "name" "QanimalOnDogowner" := keyFreeCheck_sound (by decide +kernel)
  have h2 : KeyFree denyEnv "name" "DogFowner" := keyFreeCheck_sound (by decide +kernel)
  refine Sim.buffered_of_check (w := "owner") (v := .obj [("name", .str "Ann"), ("id", .str "7")]) (v' := .obj [("id", .str "7")])
    (P := fun t => t == .opt (.path "QanimalOnDogowner") || t == .opt (.path "DogFowner")) (by decide +kernel) ?_
    (Swap.at [("__typename", .str "Dog"), ("name", .str "Rex")] [("barks", .bool true)])
  intro t ht
  simp only [Bool.or_eq_true, beq_iff_eq] at ht
  rcases ht with rfl | rfl
  · exact .opt (.path (.erase (kvs := [("name", .str "Ann"), ("id", .str "7")]) h1))
  · exact .opt (.path (.erase (kvs := [("name", .str "Ann"), ("id", .str "7")]) h2))

end C14G
end GqlVerif
