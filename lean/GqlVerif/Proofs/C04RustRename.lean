import GqlVerif.Proofs.C04SurjectiveSerValid
import GqlVerif.Proofs.C09Normalization
/-!
# C04 under `normalization = rust` — the Serde-level half: `HasTy` commutes with a renaming of the environment

`C09NormSerde.lean` relates two environments that differ in names (`EnvRen R e e'`) and the values read / written in
them (`VRel R e e' t v v'`: equal up to the identifiers of string-enum variants).  `C04Surjective*.lean` talks about the
*typed* values of a module (`HasTy e t x`).  This file connects the two:

* `EnvRen.symm` — the hypothesis is symmetric (`Rinv R a b := R b a`);
* `ItemOK` / `ValWF e` — what is needed of the items in addition (decidable): the members of a struct have distinct
  Rust identifiers (otherwise `HasTy`, which looks a member up by name, says nothing about a shadowed member), the
  identifier list of a string enum is the second column of its `Deserialize` table (as in every `enumItem`);
* **`hasTy_rename`** — for `EnvRen R e e'`, `ValWF e`, `ValWF e'`, `TyRen R t t'`: every value `x` of `e`'s type `t`
  has a counterpart `x'` (`VRel R e e' t x x'`) which is a value of `e'`'s type `t'`, and the counterpart is unique;
* `hasTy_rename_back` — the same from `e'` to `e` (by symmetry), in the form needed for `Serialize`:
  a value of `e'`'s type `t'` is written as some value of `e`'s type `t` is.
-/
namespace GqlVerif
namespace C04R
open Serde Codegen C09 C09N C04S

/-! ## symmetry of `EnvRen` -/

/-- the converse correspondence -/
abbrev Rinv (R : String → String → Prop) : String → String → Prop := fun a b => R b a

theorem tyRen_symm {R : String → String → Prop} : ∀ {t t' : RTy}, TyRen R t t' → TyRen (Rinv R) t' t := by
  intro t
  induction t with
  | path p => intro t' h; obtain ⟨p', rfl, hr⟩ := tyRen_path h; exact hr
  | opt t ih => intro t' h; obtain ⟨u, rfl, hu⟩ := tyRen_opt h; exact ih hu
  | vec t ih => intro t' h; obtain ⟨u, rfl, hu⟩ := tyRen_vec h; exact ih hu
  | box t ih => intro t' h; obtain ⟨u, rfl, hu⟩ := tyRen_box h; exact ih hu

theorem fieldRen_symm {R : String → String → Prop} {f f' : RField} (h : FieldRen R f f') : FieldRen (Rinv R) f' f :=
  ⟨h.rust.symm, h.rename.symm, tyRen_symm h.ty, h.flatten.symm, h.skipNone.symm, h.deserWith.symm, h.default.symm⟩

theorem variantRen_symm {R : String → String → Prop} {v v' : RVariant} (h : VariantRen R v v') :
    VariantRen (Rinv R) v' v := by
  refine ⟨h.name.symm, h.rename.symm, ?_, h.other.symm⟩
  have hp := h.payload
  cases h0 : v.payload <;> cases h1 : v'.payload <;> simp only [h0, h1, OptTyRen] at hp ⊢
  exact tyRen_symm hp

theorem all2_flip {α β} {S : α → β → Prop} {T : β → α → Prop} (h : ∀ a b, S a b → T b a) :
    ∀ {l l'}, All2 S l l' → All2 T l' l
  | _, _, .nil => .nil
  | _, _, .cons hab t => .cons (h _ _ hab) (all2_flip h t)

theorem identPairs_swap (de de' : List (String × String)) : identPairs de' de = (identPairs de de').map Prod.swap := by
  unfold identPairs
  generalize de.map (·.2) = a
  generalize de'.map (·.2) = b
  induction b generalizing a with
  | nil => simp
  | cons y ys ih =>
    cases a with
    | nil => simp
    | cons x xs => simp [ih xs]

theorem kernelEq_swap {l : List (String × String)} (h : KernelEq l) : KernelEq (l.map Prod.swap) := by
  intro x hx y hy
  obtain ⟨a, ha, rfl⟩ := List.mem_map.mp hx
  obtain ⟨b, hb, rfl⟩ := List.mem_map.mp hy
  exact (h a ha b hb).symm

theorem enumRen_symm {ser de ser' de' : List (String × String)} (h : EnumRen ser de ser' de') :
    EnumRen ser' de' ser de :=
  ⟨h.keys.symm, h.ser', h.ser, by rw [identPairs_swap]; exact kernelEq_swap h.kernel⟩

theorem itemRen_symm {R : String → String → Prop} {it it' : Item} (h : ItemRen R it it') : ItemRen (Rinv R) it' it := by
  cases h with
  | struct hn hfs => exact .struct hn (all2_flip (fun _ _ => fieldRen_symm) hfs)
  | unitStruct hn => exact .unitStruct hn
  | tagged hn hvs => exact .tagged hn (all2_flip (fun _ _ => variantRen_symm) hvs)
  | «alias» hn ht => exact .alias hn (tyRen_symm ht)
  | gqlEnum hn hen => exact .gqlEnum hn (enumRen_symm hen)
  | oneOf hn hvs => exact .oneOf hn (all2_flip (fun _ _ => variantRen_symm) hvs)
  | defaults hn => exact .defaults hn

/-- **the hypothesis of the renaming theorems is symmetric** -/
theorem EnvRen.symm {R : String → String → Prop} {e e' : Env} (H : EnvRen R e e') : EnvRen (Rinv R) e' e where
  items := all2_flip (fun _ _ => itemRen_symm) H.items
  externs := all2_flip (fun _ _ h => ⟨h.1, tyRen_symm h.2⟩) H.externs
  bij := fun a a' b b' h1 h2 => (H.bij a' a b' b h1 h2).symm
  prim := fun a a' h hp => (H.prim a' a h hp.symm).symm

/-! ## what is needed of the items -/

/-- a struct / `@oneOf` enum has no two members of the same Rust identifier; the identifiers of a string enum are
    those of its `Deserialize` table -/
def ItemOK : Item → Prop
  | .struct _ _ _ fs => (fs.map (·.rust)).Nodup
  | .gqlEnum _ _ _ ids _ de => ids = de.map (·.2)
  | .oneOf _ _ _ vs => (vs.map (·.name)).Nodup
  | _ => True

instance (it : Item) : Decidable (ItemOK it) := by cases it <;> (simp only [ItemOK]; infer_instance)

def ValWF (e : Env) : Prop := ∀ it ∈ e.items, ItemOK it

instance (e : Env) : Decidable (ValWF e) := by unfold ValWF; infer_instance

theorem mem_of_find {e : Env} {p : String} {it : Item} (h : e.find p = some it) : it ∈ e.items :=
  List.mem_of_find?_eq_some h

/-! ## small facts -/

theorem isPrimName_false_iff (p : String) : isPrimName p = false ↔ C01.notPrim p := by
  simp [isPrimName, C01.notPrim, and_assoc]

theorem notPrim_ren {R : String → String → Prop} {e e' : Env} (H : EnvRen R e e') {p p' : String} (hr : R p p')
    (hp : C01.notPrim p) : C01.notPrim p' := by
  rw [← isPrimName_false_iff] at hp ⊢
  cases h : isPrimName p' with
  | false => rfl
  | true =>
    have := H.prim p p' hr (Or.inr h)
    subst this
    rw [hp] at h; cases h

theorem prim_ren {R : String → String → Prop} {e e' : Env} (H : EnvRen R e e') {p p' : String} (hr : R p p')
    (hp : isPrimName p = true) : p' = p := (H.prim p p' hr (Or.inl hp)).symm

/-- a leaf value (string, number, boolean, `Other(..)`) corresponds only to itself -/
theorem vrel_prim_eq {R : String → String → Prop} {e e' : Env} {t : RTy} {v v'' : Val} (h : VRel R e e' t v v'') :
    ∀ j, serPrim v = some j → v'' = v := by
  induction h with
  | plain _ => intros; rfl
  | some _ _ => intro j hj; simp [serPrim] at hj
  | list _ _ _ => intro j hj; simp [serPrim] at hj
  | box _ ih => exact ih
  | leaf _ => intros; rfl
  | «alias» _ _ ih => exact ih
  | «extern» _ _ _ ih => exact ih
  | record _ _ _ _ _ => intro j hj; simp [serPrim] at hj
  | taggedUnit _ => intros; rfl
  | tagged _ _ _ _ => intro j hj; simp [serPrim] at hj
  | oneOf _ _ _ _ => intro j hj; simp [serPrim] at hj
  | «enum» _ _ _ _ => intro j hj; simp [serPrim] at hj

theorem valOf_of_mem {l : List (String × Val)} (hnd : (l.map (·.1)).Nodup) {k : String} {v : Val} (h : (k, v) ∈ l) :
    C01.valOf l k = v := by
  unfold C01.valOf
  have := find_by_key (fun x : String × Val => x.1) l hnd (k, v) h
  simp only at this
  rw [this]

/-- a record whose keys are the (distinct) member identifiers is determined by its `valOf` -/
theorem vals_eq_map {fs : List RField} {vals : List (String × Val)} (hk : vals.map (·.1) = fs.map (·.rust))
    (hnd : (fs.map (·.rust)).Nodup) : vals = fs.map (fun f => (f.rust, C01.valOf vals f.rust)) := by
  have hnd' : (vals.map (·.1)).Nodup := hk ▸ hnd
  have h1 : vals = vals.map (fun kv => (kv.1, C01.valOf vals kv.1)) := by
    conv => lhs; rw [← List.map_id vals]
    apply List.map_congr_left
    intro kv hkv
    obtain ⟨k, v⟩ := kv
    simp only [id, valOf_of_mem hnd' hkv]
  have h2 : vals.map (fun kv => (kv.1, C01.valOf vals kv.1)) = (vals.map (·.1)).map (fun k => (k, C01.valOf vals k)) := by
    rw [List.map_map]; rfl
  refine h1.trans (h2.trans ?_)
  rw [hk, List.map_map]
  rfl

theorem mem_zip_of_mem_left {α β} : ∀ {l : List α} {l' : List β} {a : α}, a ∈ l → l.length = l'.length →
    ∃ b, (a, b) ∈ l.zip l'
  | [], _, _, h, _ => by cases h
  | _ :: _, [], _, _, hl => by simp at hl
  | x :: l, y :: l', a, h, hl => by
    rcases List.mem_cons.mp h with rfl | h
    · exact ⟨y, by simp⟩
    · obtain ⟨b, hb⟩ := mem_zip_of_mem_left h (by simpa using hl)
      exact ⟨b, by simp [hb]⟩

theorem all2_partner_right {α β} {S : α → β → Prop} : ∀ {l : List α} {l' : List β}, All2 S l l' →
    ∀ b ∈ l', ∃ a, (a, b) ∈ l.zip l' ∧ a ∈ l ∧ S a b
  | _, _, .nil, b, h => by cases h
  | _, _, .cons (a := x) (b := y) hab t, b, h => by
    rcases List.mem_cons.mp h with rfl | h
    · exact ⟨x, by simp, by simp, hab⟩
    · obtain ⟨a, h1, h2, h3⟩ := all2_partner_right t b h
      exact ⟨a, by simp [h1], by simp [h2], h3⟩

theorem all2_map_self {α β} {S : α → β → Prop} (g : α → β) : ∀ (l : List α), (∀ a ∈ l, S a (g a)) → All2 S l (l.map g)
  | [], _ => .nil
  | a :: l, h => .cons (h a (by simp)) (all2_map_self g l (fun x hx => h x (by simp [hx])))

theorem list_eq_map_of_pointwise {α β} (g : α → β) : ∀ {l : List α} {l' : List β}, l.length = l'.length →
    (∀ (i : Nat) a b, l[i]? = some a → l'[i]? = some b → b = g a) → l' = l.map g
  | [], [], _, _ => rfl
  | [], _ :: _, h, _ => by simp at h
  | _ :: _, [], h, _ => by simp at h
  | a :: l, b :: l', h, hs => by
    have h0 := hs 0 a b (by simp) (by simp)
    have ht := list_eq_map_of_pointwise g (l := l) (l' := l') (by simpa using h)
      (fun i x y hx hy => hs (i + 1) x y (by simpa using hx) (by simpa using hy))
    rw [List.map_cons, ← ht, ← h0]

/-! ## the members of a struct -/

section structs
variable {R : String → String → Prop} {e e' : Env} {fields : List RField} (hnd : (fields.map (·.rust)).Nodup)
  (w : RField → Val) (G : RField → RTy → Val)
include hnd

theorem struct_pw : ∀ {gs gs' : List RField}, All2 (FieldRen R) gs gs' → (∀ g ∈ gs, g ∈ fields) →
    (∀ q ∈ gs.zip gs', VRel R e e' q.1.ty (w q.1) (G q.1 q.2.ty)) →
    PW R e e' fields (gs.map fun f => (f.rust, w f)) ((gs.zip gs').map fun q => (q.1.rust, G q.1 q.2.ty))
  | _, _, .nil, _, _ => .nil
  | _, _, .cons (a := f) (b := f') _ t, hsub, hv => by
    simp only [List.map_cons, List.zip_cons_cons]
    refine .cons ⟨rfl, ⟨f, hsub f (by simp), rfl⟩, fun g hg hgr => ?_⟩
      (struct_pw t (fun g hg => hsub g (by simp [hg])) (fun q hq => hv q (by simp [List.zip_cons_cons, hq])))
    have : g = f := eq_of_key_eq (·.rust) hnd hg (hsub f (by simp)) hgr
    subst this
    exact hv (g, f') (by simp)

omit hnd in
theorem struct_uniq : ∀ {gs gs' : List RField}, All2 (FieldRen R) gs gs' → (∀ g ∈ gs, g ∈ fields) →
    (∀ q ∈ gs.zip gs', ∀ x'', VRel R e e' q.1.ty (w q.1) x'' → x'' = G q.1 q.2.ty) →
    ∀ vals'', PW R e e' fields (gs.map fun f => (f.rust, w f)) vals'' →
      vals'' = (gs.zip gs').map fun q => (q.1.rust, G q.1 q.2.ty)
  | _, _, .nil, _, _, vals'', hpw => by cases hpw; rfl
  | _, _, .cons (a := f) (b := f') _ t, hsub, hv, vals'', hpw => by
    simp only [List.map_cons] at hpw
    cases hpw with
    | cons hh ht =>
      rename_i kv'' rest''
      simp only [List.zip_cons_cons, List.map_cons]
      rw [struct_uniq t (fun g hg => hsub g (by simp [hg])) (fun q hq => hv q (by simp [List.zip_cons_cons, hq])) rest'' ht]
      obtain ⟨k'', v''⟩ := kv''
      obtain ⟨h1, _, h3⟩ := hh
      simp only at h1 h3
      subst h1
      rw [hv (f, f') (by simp) v'' (h3 f (hsub f (by simp)) rfl)]

omit hnd in
theorem struct_keys : ∀ {gs gs' : List RField}, All2 (FieldRen R) gs gs' →
    ((gs.zip gs').map fun q => (q.1.rust, G q.1 q.2.ty)).map (·.1) = gs'.map (·.rust)
  | _, _, .nil => rfl
  | _, _, .cons hab t => by
    simp only [List.zip_cons_cons, List.map_cons, struct_keys t, hab.rust]

end structs

/-! ## `HasTy` commutes with the renaming -/

/-- `x'` is **the** counterpart, at `e'`'s type `t'`, of the value `x` of `e`'s type `t` -/
def Cp (R : String → String → Prop) (e e' : Env) (t t' : RTy) (x x' : Val) : Prop :=
  VRel R e e' t x x' ∧ HasTy e' t' x' ∧ ∀ x'', VRel R e e' t x x'' → x'' = x'

/-- **`hasTy_rename`**: in two environments related by a renaming, every value of a type of the first has exactly one
    counterpart, and it is a value of the corresponding type of the second -/
theorem hasTy_rename {R : String → String → Prop} {e e' : Env} (H : EnvRen R e e') (hw : ValWF e) (hw' : ValWF e')
    {t : RTy} {x : Val} (h : HasTy e t x) : ∀ t', TyRen R t t' → ∃ x', Cp R e e' t t' x x' := by
  induction h with
  | none =>
    intro t' ht; obtain ⟨u, rfl, hu⟩ := tyRen_opt ht
    exact ⟨.unit, .plain rfl, .none, fun x'' h'' => by cases h'' with | plain _ => rfl⟩
  | some hx ih =>
    intro t' ht; obtain ⟨u, rfl, hu⟩ := tyRen_opt ht
    obtain ⟨x', hv, hty, huq⟩ := ih u hu
    refine ⟨.some x', .some hv, .some hty, fun x'' h'' => ?_⟩
    cases h'' with
    | plain hid => rw [huq _ (.plain (by simpa [idVal] using hid))]
    | some hv'' => rw [huq _ hv'']
  | @vec t0 xs hxs ih =>
    intro t' ht; obtain ⟨u, rfl, hu⟩ := tyRen_vec ht
    obtain ⟨g, hg⟩ := exists_fun_of_forall_mem xs (fun x x' => Cp R e e' t0 u x x') (fun x hx => ih x hx u hu)
    refine ⟨.list (xs.map g), vrel_ofList (all2_map_self g xs (fun a ha => (hg a ha).1)), .vec ?_, fun x'' h'' => ?_⟩
    · intro y hy
      obtain ⟨a, ha, rfl⟩ := List.mem_map.mp hy
      exact (hg a ha).2.1
    · cases h'' with
      | plain hid =>
        have hid' : idVals xs = true := by simpa [idVal] using hid
        congr 1
        conv => lhs; rw [← List.map_id xs]
        exact List.map_congr_left (fun a ha => (hg a ha).2.2 a (.plain (idVals_mem hid' a ha)))
      | list hl hx'' =>
        congr 1
        exact list_eq_map_of_pointwise g hl (fun i a b ha hb => (hg a (List.mem_of_getElem? ha)).2.2 b (hx'' i a b ha hb))
  | box hx ih =>
    intro t' ht; obtain ⟨u, rfl, hu⟩ := tyRen_box ht
    obtain ⟨x', hv, hty, huq⟩ := ih u hu
    refine ⟨x', .box hv, .box hty, fun x'' h'' => ?_⟩
    cases h'' with
    | plain hid => exact huq _ (.plain hid)
    | box hv'' => exact huq _ hv''
  | @string v =>
    intro t' ht; obtain ⟨p', rfl, hr⟩ := tyRen_path ht
    have := prim_ren H hr (by decide); subst this
    exact ⟨.str v, .leaf (j := .str v) rfl, .string, fun x'' h'' => vrel_prim_eq h'' _ rfl⟩
  | @i64 n hn =>
    intro t' ht; obtain ⟨p', rfl, hr⟩ := tyRen_path ht
    have := prim_ren H hr (by decide); subst this
    exact ⟨.int n, .leaf (j := .int n) rfl, .i64 hn, fun x'' h'' => vrel_prim_eq h'' _ rfl⟩
  | @f64 j hj =>
    intro t' ht; obtain ⟨p', rfl, hr⟩ := tyRen_path ht
    have := prim_ren H hr (by decide); subst this
    exact ⟨.float j, .leaf (j := j) rfl, .f64 hj, fun x'' h'' => vrel_prim_eq h'' _ rfl⟩
  | @bool b =>
    intro t' ht; obtain ⟨p', rfl, hr⟩ := tyRen_path ht
    have := prim_ren H hr (by decide); subst this
    exact ⟨.bool b, .leaf (j := .bool b) rfl, .bool, fun x'' h'' => vrel_prim_eq h'' _ rfl⟩
  | @«alias» p n pub t0 x hnp hf hx ih =>
    intro t' ht; obtain ⟨p', rfl, hr⟩ := tyRen_path ht
    rcases find_ren H hr with ⟨h1, _⟩ | ⟨it, it', _, h1, h2, hit⟩
    · rw [hf] at h1; cases h1
    · rw [hf] at h1; cases h1
      cases hit with
      | «alias» hn ht' =>
        obtain ⟨x', hv, hty, huq⟩ := ih _ ht'
        refine ⟨x', .alias hf hv, .alias (notPrim_ren H hr hnp) h2 hty, fun x'' h'' => ?_⟩
        cases hs : serPrim x with
        | some j => rw [vrel_prim_eq h'' j hs, vrel_prim_eq hv j hs]
        | none => exact huq _ (vrel_inv_alias hf hs h'')
  | @«extern» p q t0 x hnp hf hfx hx ih =>
    intro t' ht; obtain ⟨p', rfl, hr⟩ := tyRen_path ht
    rcases find_ren H hr with ⟨_, h2⟩ | ⟨it, it', _, h1, _, _⟩
    · rcases extern_ren H hr with ⟨h3, _⟩ | ⟨k, t1, k', t1', h3, h4, ht'⟩
      · rw [hfx] at h3; cases h3
      · rw [hfx] at h3; cases h3
        obtain ⟨x', hv, hty, huq⟩ := ih _ ht'
        refine ⟨x', .extern hf hfx hv, .extern (notPrim_ren H hr hnp) h2 h4 hty, fun x'' h'' => ?_⟩
        cases hs : serPrim x with
        | some j => rw [vrel_prim_eq h'' j hs, vrel_prim_eq hv j hs]
        | none => exact huq _ (vrel_inv_extern hf hfx hs h'')
    · rw [hf] at h1; cases h1
  | @struct p n d sc fs vals hnp hf hk hall ih =>
    intro t' ht; obtain ⟨p', rfl, hr⟩ := tyRen_path ht
    rcases find_ren H hr with ⟨h1, _⟩ | ⟨it, it', hmem, h1, h2, hit⟩
    · rw [hf] at h1; cases h1
    · rw [hf] at h1; cases h1
      cases hit with
      | struct hn hfs =>
        rename_i n' d' s' fs'
        have hnd : (fs.map (·.rust)).Nodup := hw _ hmem
        -- a choice of counterparts
        have hG : ∃ G : RField → RTy → Val, ∀ f ∈ fs, ∀ u, TyRen R f.ty u →
            Cp R e e' f.ty u (C01.valOf vals f.rust) (G f u) := by
          classical
          refine ⟨fun f u => if hc : f ∈ fs ∧ TyRen R f.ty u then Classical.choose (ih f hc.1 u hc.2) else .unit, ?_⟩
          intro f hfm u hu
          simp only [dif_pos (And.intro hfm hu)]
          exact Classical.choose_spec (ih f hfm u hu)
        obtain ⟨G, hG⟩ := hG
        have hzip : ∀ q ∈ fs.zip fs', q.1 ∈ fs ∧ FieldRen R q.1 q.2 := by
          intro q hq
          obtain ⟨i, hi⟩ := List.getElem?_of_mem hq
          rw [List.getElem?_zip_eq_some] at hi
          exact ⟨List.mem_of_getElem? hi.1, (getElem_of_all2 hfs).2 i _ _ hi.1 hi.2⟩
        have hvals := vals_eq_map hk hnd
        let vals' : List (String × Val) := (fs.zip fs').map fun q => (q.1.rust, G q.1 q.2.ty)
        have hk' : vals'.map (·.1) = fs'.map (·.rust) := struct_keys G hfs
        have hpw : PW R e e' fs vals vals' := by
          rw [hvals]
          exact struct_pw hnd (fun f => C01.valOf vals f.rust) G hfs (fun _ h => h)
            (fun q hq => (hG q.1 (hzip q hq).1 q.2.ty (hzip q hq).2.ty).1)
        have hnd' : (vals'.map (·.1)).Nodup := by
          rw [hk', ← All2.map_eq hfs (f := (·.rust)) (g := (·.rust)) (fun a b hab => hab.rust.symm)]
          exact hnd
        refine ⟨.record vals', vrel_ofPW hf hpw, .struct (notPrim_ren H hr hnp) h2 hk' ?_, fun x'' h'' => ?_⟩
        · intro f' hf'
          obtain ⟨f, hq, hfm, hff⟩ := all2_partner_right hfs f' hf'
          have hmem' : (f'.rust, G f f'.ty) ∈ vals' := by
            rw [hff.rust]
            exact List.mem_map.mpr ⟨(f, f'), hq, rfl⟩
          rw [valOf_of_mem hnd' hmem']
          exact (hG f hfm f'.ty hff.ty).2.1
        · rcases vrel_inv_struct hf rfl h'' with ⟨_, hid⟩ | ⟨vals0, vals'', h0, rfl, hpw''⟩
          · simp [idVal] at hid
          · cases h0
            congr 1
            rw [hvals] at hpw''
            exact struct_uniq (fun f => C01.valOf vals f.rust) G hfs (fun _ h => h)
              (fun q hq x'' hx'' => (hG q.1 (hzip q hq).1 q.2.ty (hzip q hq).2.ty).2.2 x'' hx'') vals'' hpw''
  | @unitStruct p n d sc hnp hf =>
    intro t' ht; obtain ⟨p', rfl, hr⟩ := tyRen_path ht
    rcases find_ren H hr with ⟨h1, _⟩ | ⟨it, it', _, h1, h2, hit⟩
    · rw [hf] at h1; cases h1
    · rw [hf] at h1; cases h1
      cases hit with
      | unitStruct hn =>
        refine ⟨.unit, .plain rfl, .unitStruct (notPrim_ren H hr hnp) h2, fun x'' h'' => ?_⟩
        cases h'' with
        | plain _ => rfl
        | leaf hj => simp [serPrim] at hj
        | «alias» h1 _ => rw [hf] at h1; cases h1
        | «extern» h1 _ _ => rw [hf] at h1; cases h1
  | @enumVariant p n d sp vs ser de name hnp hf hname =>
    intro t' ht; obtain ⟨p', rfl, hr⟩ := tyRen_path ht
    rcases find_ren H hr with ⟨h1, _⟩ | ⟨it, it', hmem, h1, h2, hit⟩
    · rw [hf] at h1; cases h1
    · rw [hf] at h1; cases h1
      cases hit with
      | gqlEnum hn hen =>
        rename_i n' d' sp' ids' ser' de'
        have hids : vs = de.map (·.2) := hw _ hmem
        have hids' : ids' = de'.map (·.2) := hw' _ (mem_of_find h2)
        have hlen : (de.map (·.2)).length = (de'.map (·.2)).length := by
          simpa using congrArg List.length hen.keys
        obtain ⟨name', hm⟩ := mem_zip_of_mem_left (hids ▸ hname) hlen
        have hm' : (name, name') ∈ identPairs de de' := hm
        refine ⟨.variant name' none, .enum hf hr h2 hm', .enumVariant (notPrim_ren H hr hnp) h2 ?_, fun x'' h'' => ?_⟩
        · rw [hids']; exact (List.of_mem_zip hm).2
        · rcases vrel_inv_enum H.bij hf hr h2 rfl h'' with ⟨_, hid⟩ | ⟨a, a'', h0, rfl, hm''⟩
          · simp [idVal] at hid
          · cases h0
            have hk : name' = a'' := (hen.kernel (name, name') hm' (name, a'') hm'').mp rfl
            rw [hk]
  | @enumOther p n d sp vs ser de v hnp hf =>
    intro t' ht; obtain ⟨p', rfl, hr⟩ := tyRen_path ht
    rcases find_ren H hr with ⟨h1, _⟩ | ⟨it, it', _, h1, h2, hit⟩
    · rw [hf] at h1; cases h1
    · rw [hf] at h1; cases h1
      cases hit with
      | gqlEnum hn hen =>
        exact ⟨.enumOther v, .leaf (j := .str v) rfl, .enumOther (notPrim_ren H hr hnp) h2,
          fun x'' h'' => vrel_prim_eq h'' _ rfl⟩
  | @oneOf p n d sc vs var t0 x0 hnp hf hvar hpay hx ih =>
    intro t' ht; obtain ⟨p', rfl, hr⟩ := tyRen_path ht
    rcases find_ren H hr with ⟨h1, _⟩ | ⟨it, it', hmem, h1, h2, hit⟩
    · rw [hf] at h1; cases h1
    · rw [hf] at h1; cases h1
      cases hit with
      | oneOf hn hvs =>
        have hnd : (vs.map (·.name)).Nodup := hw _ hmem
        obtain ⟨var', hvar', hvv⟩ := All2.mem_left hvs var hvar
        have hp := hvv.payload
        rw [hpay] at hp
        cases hp' : var'.payload with
        | none => simp [hp', OptTyRen] at hp
        | some t0' =>
          simp only [hp', OptTyRen] at hp
          obtain ⟨x0', hv, hty, huq⟩ := ih _ hp
          have hex : ∃ w ∈ vs, w.name = var.name ∧ ∃ t, w.payload = some t := ⟨var, hvar, rfl, t0, hpay⟩
          refine ⟨.variant var.name (some x0'), .oneOf hf hex ?_, ?_, fun x'' h'' => ?_⟩
          · intro w hw2 hwn t hwt
            have : w = var := eq_of_key_eq (·.name) hnd hw2 hvar hwn
            subst this
            rw [hpay] at hwt; cases hwt
            exact hv
          · rw [← hvv.name]
            exact .oneOf (notPrim_ren H hr hnp) h2 hvar' hp' hty
          · rcases vrel_inv_oneOf hf rfl h'' with ⟨_, hid⟩ | ⟨name, pv, pv'', h0, rfl, _, hpv⟩
            · simp [idVal] at hid
            · cases h0
              rw [huq _ (hpv var hvar rfl t0 hpay)]

/-! ## consequences for `Serialize` -/

theorem drel_eq_symm {α} {x y : D α} (h : DRel Eq x y) : DRel Eq y x := by
  cases x <;> cases y <;> simp only [DRel] at h ⊢
  · rename_i a b
    cases a <;> cases b <;> simp_all [ERel]
  · exact h.symm

theorem drel_eq_ok {α} {x y : D α} (h : DRel Eq x y) (out : α) : x = .ok out ↔ y = .ok out := by
  cases x <;> cases y <;> simp_all [DRel]

/-- forward: the counterpart is written as the same JSON -/
theorem hasTy_rename_ser {R : String → String → Prop} {e e' : Env} (H : EnvRen R e e') (hw : ValWF e) (hw' : ValWF e')
    {t t' : RTy} (ht : TyRen R t t') {x : Val} (h : HasTy e t x) :
    ∃ x', Cp R e e' t t' x x' ∧ DRel Eq (Serde.ser e t x) (Serde.ser e' t' x') := by
  obtain ⟨x', hc⟩ := hasTy_rename H hw hw' h t' ht
  exact ⟨x', hc, ser_rename H ht hc.1⟩

/-- **backward**: every value of `e'`'s type `t'` is written as some value of `e`'s type `t` is -/
theorem hasTy_rename_back {R : String → String → Prop} {e e' : Env} (H : EnvRen R e e') (hw : ValWF e) (hw' : ValWF e')
    {t t' : RTy} (ht : TyRen R t t') {x' : Val} (h : HasTy e' t' x') :
    ∃ x, HasTy e t x ∧ DRel Eq (Serde.ser e t x) (Serde.ser e' t' x') := by
  obtain ⟨x, hc⟩ := hasTy_rename (EnvRen.symm H) hw' hw h t (tyRen_symm ht)
  exact ⟨x, hc.2.1, drel_eq_symm (ser_rename (EnvRen.symm H) (tyRen_symm ht) hc.1)⟩

end C04R
end GqlVerif
