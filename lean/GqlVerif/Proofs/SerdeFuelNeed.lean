import GqlVerif.Proofs.SerdeFuelMono
import GqlVerif.Model.Scope
/-!
# P25 (2/3) — how much fuel the serde model needs; above it the fuel never matters

`Ranked e c cf K`: a certificate that the *same-level* jumps of the environment (jumps to a named type that do not
consume JSON input: alias → target, extern alias → target, struct → flattened member, `Box` hops of `deFlat`) are
well-founded, with at most `K` of them in a row: `c : String → Nat` (named type read by `dePath`) and
`cf : String → Nat` (named type read by `deFlat`; a `Box` around a flattened member / alias target costs one unit
there) strictly decrease along each of them, and `c p < K`.  `RankedS e c K` is the part serialization needs.

Under `Ranked e c cf K`:
* `dePath_nf` / `deFlat_nf` / `deTy_nf` / `deStructWith_nf'`: with fuel `≥ jsonSize j * K + c p + 1`
  (`(bufSize buf + 1) * K + tyCost cf t + 1` for `deFlat`) the result is never the fuel-exhaustion error;
* `dePath_fuel_eq` / `deFlat_fuel_eq` / `deTy_fuel_eq` / `deStructWith_fuel_eq`: any two fuels at or above that need
  give the same result (value or error), for `b = false` and `b = true`;
* `serPath_nf` / `serTy_nf` / `serPath_fuel_eq` / `serTy_fuel_eq`: the same for serialization (under `RankedS`), need
  `valSize v * K + c p + 1`.
-/
namespace GqlVerif
namespace SerdeFuel
open Serde

/-! ## sizes -/

theorem jsonSize_pos (j : Json) : 1 ≤ jsonSize j := by
  cases j <;> simp only [jsonSize] <;> omega

theorem jsonSize_le_of_mem : ∀ {xs : List Json} {x : Json}, x ∈ xs → jsonSize x ≤ jsonsSize xs
  | y :: ys, x, h => by
    rw [jsonsSize]
    rcases List.mem_cons.mp h with rfl | h'
    · omega
    · have := jsonSize_le_of_mem h'; omega

theorem jsonSize_le_of_mem_kvs : ∀ {kvs : List (String × Json)} {kv : String × Json}, kv ∈ kvs → jsonSize kv.2 ≤ kvsSize kvs
  | (k, v) :: rest, kv, h => by
    rw [kvsSize]
    rcases List.mem_cons.mp h with rfl | h'
    · simp only; omega
    · have := jsonSize_le_of_mem_kvs h'; omega

theorem lookup_size : ∀ {kvs : List (String × Json)} {w : String} {j : Json}, Json.lookup w kvs = some j →
    jsonSize j ≤ kvsSize kvs
  | (k, v) :: rest, w, j, h => by
    rw [kvsSize]
    rw [Json.lookup] at h
    split at h
    · cases h; omega
    · have := lookup_size h; omega

theorem kvsSize_filter_le (q : String × Json → Bool) : ∀ (kvs : List (String × Json)), kvsSize (kvs.filter q) ≤ kvsSize kvs
  | [] => Nat.le_refl _
  | (k, v) :: rest => by
    have ih := kvsSize_filter_le q rest
    rw [List.filter_cons]
    split
    · rw [kvsSize, kvsSize]; omega
    · rw [kvsSize]; omega

/-- removing the entries of a key that is present strictly shrinks the object -/
theorem kvsSize_filter_lt (tag : String) : ∀ (kvs : List (String × Json)), 1 ≤ countKey tag kvs →
    kvsSize (kvs.filter (·.1 != tag)) + 1 ≤ kvsSize kvs
  | [], h => by simp [countKey] at h
  | (k, v) :: rest, h => by
    rw [List.filter_cons, kvsSize]
    by_cases hk : k = tag
    · subst hk
      have h1 := kvsSize_filter_le (·.1 != k) rest
      have h2 := jsonSize_pos v
      simp only [bne_self_eq_false, Bool.false_eq_true, ↓reduceIte]
      omega
    · have hc : 1 ≤ countKey tag rest := by
        have hb : (k == tag) = false := by simpa using hk
        simpa [countKey, List.filter_cons, hb] using h
      have ih := kvsSize_filter_lt tag rest hc
      have hb : (k != tag) = true := by simpa using hk
      simp only [hb, ↓reduceIte]
      rw [kvsSize]; omega

/-- the payload left in a flatten buffer -/
def bufSize (buf : Buf) : Nat := kvsSize (present buf)

theorem present_map_some (l : List (String × Json)) : present (l.map some) = l := by
  unfold present
  induction l with
  | nil => rfl
  | cons a l ih => simp only [List.map_cons, List.filterMap_cons, id_eq, ih]

theorem present_cons_none (buf : Buf) : present (none :: buf) = present buf := by
  simp [present]

theorem present_cons_some (kv : String × Json) (buf : Buf) : present (some kv :: buf) = kv :: present buf := by
  simp [present]

theorem takeKeys_size (keys : List String) : ∀ (buf : Buf),
    kvsSize (takeKeys keys buf).1 ≤ bufSize buf ∧ bufSize (takeKeys keys buf).2 ≤ bufSize buf
  | [] => by simp [takeKeys, bufSize, present, kvsSize]
  | none :: rest => by
    have ih := takeKeys_size keys rest
    simp only [takeKeys, bufSize, present_cons_none] at ih ⊢
    exact ih
  | some (k, v) :: rest => by
    have ih := takeKeys_size keys rest
    simp only [takeKeys, bufSize, present_cons_some, kvsSize] at ih ⊢
    split
    · simp only [kvsSize, present_cons_none]; omega
    · simp only [kvsSize, present_cons_some]; omega

/-! ## no building block produces the fuel-exhaustion error by itself -/

theorem nf_unmodelled_lit {α : Type} {w : String} (h : w ≠ "fuel") : NF (unmodelled w : D α) := by
  intro h'
  injection h' with h'
  injection h' with h'
  exact h h'

theorem nf_mapM {α β : Type} {f : α → D β} : ∀ (xs : List α), (∀ x ∈ xs, NF (f x)) → NF (xs.mapM f)
  | [], _ => nf_ok _
  | x :: xs, h => by
    rw [List.mapM_cons]
    refine nf_bind (h x List.mem_cons_self) (fun y _ => ?_)
    exact nf_bind (nf_mapM xs (fun z hz => h z (List.mem_cons_of_mem _ hz))) (fun _ _ => nf_pure _)

theorem bind_ok_inv {α β : Type} {m : D α} {f : α → D β} {r : β} (h : m >>= f = .ok r) : ∃ x, m = .ok x ∧ f x = .ok r := by
  cases m with
  | error err => cases h
  | ok x => exact ⟨x, rfl, h⟩

theorem deIntOrString_nf (j : Json) : NF (deIntOrString j) := by
  unfold deIntOrString
  split
  · split
    · exact nf_pure _
    · exact nf_bad _
  · exact nf_pure _
  · exact nf_bad _

theorem deNestedId_nf : ∀ (t : RTy) (j : Json), NF (deNestedId t j)
  | .path _, j => by simp only [deNestedId]; exact deIntOrString_nf j
  | .box t, j => by simp only [deNestedId]; exact deNestedId_nf t j
  | .opt t, j => by
    simp only [deNestedId]
    split
    · exact nf_pure _
    · exact nf_map.mpr (deNestedId_nf t j)
  | .vec t, j => by
    cases j with
    | arr xs =>
      simp only [deNestedId]
      exact nf_map.mpr (nf_mapM xs (fun x _ => deNestedId_nf t x))
    | _ => exact nf_bad _

theorem deHelper_nf (h : String) (ty : RTy) (j : Json) : NF (deHelper h ty j) := by
  unfold deHelper
  split
  · exact deIntOrString_nf j
  · split
    · split
      · exact nf_pure _
      · exact nf_map.mpr (deIntOrString_nf j)
    · split
      · exact deNestedId_nf ty j
      · refine nf_unmodelled_lit (fun hh => ?_)
        have := congrArg String.toList hh
        simp at this

theorem missingField_nf (f : RField) : NF (missingField f) := by
  unfold missingField
  split
  · exact nf_pure _
  · split
    · exact nf_bad _
    · split
      · exact nf_pure _
      · exact nf_bad _

theorem dePrim_nf {p : String} {j : Json} {r : D Val} (h : dePrim p j = some r) : NF r := by
  unfold dePrim at h
  split at h
  · cases h; split <;> first | exact nf_pure _ | exact nf_bad _
  · split at h
    · cases h
      split
      · split <;> first | exact nf_pure _ | exact nf_bad _
      · exact nf_bad _
    · split at h
      · cases h; split <;> first | exact nf_pure _ | exact nf_bad _
      · split at h
        · cases h; split <;> first | exact nf_pure _ | exact nf_bad _
        · cases h

/-! ## the building blocks: no fuel error if the named-type reader has none on smaller payloads -/

section With
variable {path : String → Json → D Val}

theorem deTyWith_nf : ∀ (t : RTy) (j : Json), (∀ j', jsonSize j' ≤ jsonSize j → NF (path (Scope.leaf t) j')) →
    NF (deTyWith path t j)
  | .path p, j, h => by simp only [deTyWith]; exact h j (Nat.le_refl _)
  | .box t, j, h => by simp only [deTyWith]; exact deTyWith_nf t j h
  | .opt t, j, h => by
    simp only [deTyWith]
    split
    · exact nf_pure _
    · exact nf_map.mpr (deTyWith_nf t j h)
  | .vec t, j, h => by
    cases j with
    | arr xs =>
      simp only [deTyWith]
      refine nf_map.mpr (nf_mapM xs (fun x hx => deTyWith_nf t x (fun j' hj' => h j' ?_)))
      have := jsonSize_le_of_mem hx
      rw [jsonSize]; omega
    | _ => exact nf_bad _

theorem deFieldWith_nf (f : RField) (j : Json) (h : ∀ j', jsonSize j' ≤ jsonSize j → NF (path (Scope.leaf f.ty) j')) :
    NF (deFieldWith path f j) := by
  unfold deFieldWith
  cases f.deserWith with
  | some hh => exact deHelper_nf hh f.ty j
  | none => exact deTyWith_nf f.ty j h

theorem deOwnWith_nf : ∀ (fs : List RField) (kvs : List (String × Json)),
    (∀ f ∈ fs, f.flatten = false → ∀ j, jsonSize j ≤ kvsSize kvs → NF (deFieldWith path f j)) →
    NF (deOwnWith path fs kvs)
  | [], _, _ => nf_pure _
  | f :: fs, kvs, h => by
    rw [deOwnWith.eq_2]
    refine nf_bind (deOwnWith_nf fs kvs (fun f' hf' => h f' (List.mem_cons_of_mem _ hf'))) (fun rest _ => ?_)
    split
    · exact nf_pure _
    · rename_i hfl
      split
      · exact nf_bad _
      · cases hl : Json.lookup f.wire kvs with
        | none => exact nf_bind (missingField_nf f) (fun _ _ => nf_pure _)
        | some j =>
          refine nf_bind (h f List.mem_cons_self (by simpa using hfl) j (lookup_size hl)) (fun _ _ => nf_pure _)

theorem deTaggedWith_nf (b : Bool) (tag : String) (vs : List RVariant) (kvs : List (String × Json))
    (h : ∀ v ∈ vs, ∀ t, v.payload = some t → ∀ j', jsonSize j' ≤ kvsSize kvs → NF (deTyWith path t j')) :
    NF (deTaggedWith path b tag vs kvs) := by
  unfold deTaggedWith
  split
  · exact nf_bad _
  · rename_i hc
    have hsz : jsonSize (.obj (kvs.filter (·.1 != tag))) ≤ kvsSize kvs := by
      have := kvsSize_filter_lt tag kvs (by omega)
      rw [jsonSize]; omega
    have hpick : ∀ v ∈ vs,
        NF (if v.other then (pure (.variant v.name none) : D Val) else
            match v.payload with
            | none => pure (.variant v.name none)
            | some t => (fun x => Val.variant v.name (some x)) <$> deTyWith path t (.obj (kvs.filter (·.1 != tag)))) := by
      intro v hv
      split
      · exact nf_pure _
      · cases hp : v.payload with
        | none => exact nf_pure _
        | some t => exact nf_map.mpr (h v hv t hp _ hsz)
    simp only []
    split
    · rename_i name _
      cases hf : vs.find? (fun v => !v.other && v.wire == name) with
      | none =>
        simp only []
        split
        · exact nf_pure _
        · exact nf_bad _
      | some v => exact hpick v (List.mem_of_find?_eq_some hf)
    · rename_i n _
      split
      · exact nf_bad _
      · split
        · exact nf_bad _
        · cases hg : vs[n.toNat]? with
          | none =>
            simp only []
            split
            · exact nf_pure _
            · exact nf_bad _
          | some v => exact hpick v (List.mem_of_getElem? hg)
    · exact nf_bad _
  · exact nf_bad _

end With

theorem deFlatsWith_nf {flat : RTy → Buf → D (Val × Buf)} (n : Nat)
    (hsz : ∀ t buf r, flat t buf = .ok r → bufSize r.2 ≤ bufSize buf) :
    ∀ (fs : List RField), (∀ f ∈ fs, f.flatten = true → ∀ buf, bufSize buf ≤ n → NF (flat f.ty buf)) →
      ∀ buf, bufSize buf ≤ n → NF (deFlatsWith flat fs buf)
  | [], _, _, _ => nf_pure _
  | f :: fs, h, buf, hb => by
    have ih := deFlatsWith_nf n hsz fs (fun f' hf' => h f' (List.mem_cons_of_mem _ hf'))
    rw [deFlatsWith.eq_2]
    split
    · exact ih buf hb
    · rename_i hfl
      refine nf_bind (h f List.mem_cons_self (by simpa using hfl) buf hb) (fun r hr => ?_)
      have := hsz f.ty buf r hr
      exact nf_bind (ih r.2 (by omega)) (fun _ _ => nf_pure _)

theorem deStructMapWith_nf {path : String → Json → D Val} {flat : RTy → Buf → D (Val × Buf)}
    (hsz : ∀ t buf r, flat t buf = .ok r → bufSize r.2 ≤ bufSize buf)
    (fields : List RField) (kvs : List (String × Json))
    (hown : ∀ f ∈ fields, f.flatten = false → ∀ j, jsonSize j ≤ kvsSize kvs → NF (deFieldWith path f j))
    (hflat : ∀ f ∈ fields, f.flatten = true → ∀ buf, bufSize buf ≤ kvsSize kvs → NF (flat f.ty buf)) :
    NF (deStructMapWith path flat fields kvs) := by
  unfold deStructMapWith
  refine nf_bind (deOwnWith_nf fields kvs hown) (fun own _ => ?_)
  split
  · refine nf_bind (deFlatsWith_nf (kvsSize kvs) hsz fields hflat _ ?_) (fun _ _ => nf_pure _)
    unfold bufSize
    rw [present_map_some]
    exact kvsSize_filter_le _ kvs
  · exact nf_pure _

theorem deStructWith_nf {path : String → Json → D Val} {flat : RTy → Buf → D (Val × Buf)}
    (hsz : ∀ t buf r, flat t buf = .ok r → bufSize r.2 ≤ bufSize buf)
    (fields : List RField) (j : Json)
    (hown : ∀ f ∈ fields, f.flatten = false → ∀ j', jsonSize j' + 1 ≤ jsonSize j → NF (deFieldWith path f j'))
    (hflat : ∀ f ∈ fields, f.flatten = true → ∀ buf, bufSize buf + 1 ≤ jsonSize j → NF (flat f.ty buf)) :
    NF (deStructWith path flat fields j) := by
  unfold deStructWith
  cases j with
  | obj kvs =>
    refine deStructMapWith_nf hsz fields kvs (fun f hf hfl j' hj' => hown f hf hfl j' ?_)
      (fun f hf hfl buf hb => hflat f hf hfl buf ?_)
    · rw [jsonSize]; omega
    · rw [jsonSize]; omega
  | arr xs =>
    simp only []
    split
    · exact nf_bad _
    · rename_i hany
      split
      · exact nf_bad _
      · refine nf_map.mpr (nf_mapM _ (fun fx hfx => ?_))
        obtain ⟨f, x⟩ := fx
        have hf : f ∈ fields := (List.of_mem_zip hfx).1
        have hx : x ∈ xs := (List.of_mem_zip hfx).2
        have hfl : f.flatten = false := by
          cases hh : f.flatten with
          | false => rfl
          | true => exact absurd (List.any_eq_true.mpr ⟨f, hf, hh⟩) hany
        refine nf_bind (hown f hf hfl x ?_) (fun _ _ => nf_pure _)
        have := jsonSize_le_of_mem hx
        rw [jsonSize]; omega
  | _ => exact nf_bad _

/-- a flattened member never hands on more than it received -/
theorem deFlat_size (e : Env) : ∀ (fuel : Nat) (t : RTy) (buf : Buf) (r : Val × Buf),
    deFlat e fuel t buf = .ok r → bufSize r.2 ≤ bufSize buf := by
  intro fuel
  induction fuel with
  | zero => intro t buf r h; rw [deFlat] at h; cases h
  | succ n ih =>
    intro t buf r h
    cases t with
    | box t => rw [deFlat] at h; exact ih t buf r h
    | opt t => simp only [deFlat] at h; cases h
    | vec t => simp only [deFlat] at h; cases h
    | path p =>
      rw [deFlat] at h
      split at h
      · exact ih _ buf r h
      · split at h
        · obtain ⟨v, _, h⟩ := bind_ok_inv h
          cases h; exact Nat.le_refl _
        · obtain ⟨own, _, h⟩ := bind_ok_inv h
          cases h
          exact (takeKeys_size _ buf).2
      · obtain ⟨v, _, h⟩ := bind_ok_inv h
        cases h; exact Nat.le_refl _
      · cases h

/-! ## the certificate -/

/-- cost of a type expression in flatten / alias-target position: the cost of its named type plus one per `Box`
    (`deFlat` spends one unit of fuel per `Box`) -/
def tyCost (c : String → Nat) : RTy → Nat
  | .path p => c p
  | .box t => tyCost c t + 1
  | .opt t => tyCost c t
  | .vec t => tyCost c t

theorem leaf_le_tyCost (c : String → Nat) : ∀ t : RTy, c (Scope.leaf t) ≤ tyCost c t
  | .path p => Nat.le_refl _
  | .box t => by have := leaf_le_tyCost c t; simp only [Scope.leaf, tyCost]; omega
  | .opt t => by simpa only [Scope.leaf, tyCost] using leaf_le_tyCost c t
  | .vec t => by simpa only [Scope.leaf, tyCost] using leaf_le_tyCost c t

/-- **the hypothesis on the environment**: two ranks, `c` for a named type read from JSON (`dePath`) and `cf` for a
    named type read as a flattened member (`deFlat`, where every `Box` costs a unit of fuel).  `c` strictly decreases
    from an alias / extern alias to its target and from a struct to its flattened members, `cf` from an alias to its
    target and from a struct to its flattened members (`Box`es counted: `tyCost cf`); `c` stays below `K`. -/
structure Ranked (e : Env) (c cf : String → Nat) (K : Nat) : Prop where
  bound : ∀ p, c p < K
  alias : ∀ p n pub t, e.find p = some (.alias n pub t) → c (Scope.leaf t) < c p
  extern : ∀ p x, e.find p = none → e.externs.find? (·.1 == p) = some x → c (Scope.leaf x.2) < c p
  flat : ∀ p n d sc fields, e.find p = some (.struct n d sc fields) → ∀ f ∈ fields, f.flatten = true → tyCost cf f.ty < c p
  aliasF : ∀ p n pub t, e.find p = some (.alias n pub t) → tyCost cf t < cf p
  flatF : ∀ p n d sc fields, e.find p = some (.struct n d sc fields) → ∀ f ∈ fields, f.flatten = true →
    tyCost cf f.ty < cf p

/-- one rank for both positions (every `Box` in an alias target counted) is a certificate -/
theorem Ranked.of_single {e : Env} {c : String → Nat} {K : Nat} (bound : ∀ p, c p < K)
    (alias : ∀ p n pub t, e.find p = some (.alias n pub t) → tyCost c t < c p)
    (extern : ∀ p x, e.find p = none → e.externs.find? (·.1 == p) = some x → c (Scope.leaf x.2) < c p)
    (flat : ∀ p n d sc fields, e.find p = some (.struct n d sc fields) → ∀ f ∈ fields, f.flatten = true → tyCost c f.ty < c p) :
    Ranked e c c K :=
  ⟨bound, fun p n pub t h => Nat.lt_of_le_of_lt (leaf_le_tyCost c t) (alias p n pub t h), extern, flat, alias, flat⟩

/-- the part of the certificate serialization needs: `c` decreases from an alias (extern alias) to its target's named
    type (serialization spends no fuel on `Box`) -/
structure RankedS (e : Env) (c : String → Nat) (K : Nat) : Prop where
  bound : ∀ p, c p < K
  alias : ∀ p n pub t, e.find p = some (.alias n pub t) → c (Scope.leaf t) < c p
  extern : ∀ p x, e.find p = none → e.externs.find? (·.1 == p) = some x → c (Scope.leaf x.2) < c p

theorem Ranked.toS {e : Env} {c cf : String → Nat} {K : Nat} (hr : Ranked e c cf K) : RankedS e c K :=
  ⟨hr.bound, hr.alias, hr.extern⟩

/-! ## never out of fuel above the need -/

theorem mul_succ_le {a b K : Nat} (h : a + 1 ≤ b) : a * K + K ≤ b * K := by
  have := Nat.mul_le_mul_right K h
  rw [Nat.succ_mul] at this
  exact this

theorem de_nf {e : Env} {c cf : String → Nat} {K : Nat} (hr : Ranked e c cf K) : ∀ (fuel : Nat),
    (∀ b p j, jsonSize j * K + c p + 1 ≤ fuel → NF (dePath e b fuel p j)) ∧
    (∀ t buf, (bufSize buf + 1) * K + tyCost cf t + 1 ≤ fuel → NF (deFlat e fuel t buf)) := by
  intro fuel
  induction fuel with
  | zero => exact ⟨fun b p j h => by omega, fun t buf h => by omega⟩
  | succ n ih =>
    obtain ⟨ihP, ihF⟩ := ih
    -- a type expression read at the same level
    have hTy : ∀ b t j, jsonSize j * K + c (Scope.leaf t) + 1 ≤ n → NF (deTyWith (dePath e b n) t j) := by
      intro b t j h
      refine deTyWith_nf t j (fun j' hj' => ihP b _ j' ?_)
      have := Nat.mul_le_mul_right K hj'
      omega
    -- a type expression read one level down
    have hTy' : ∀ b t j, jsonSize j * K + K ≤ n → NF (deTyWith (dePath e b n) t j) := by
      intro b t j h
      have := hr.bound (Scope.leaf t)
      exact hTy b t j (by omega)
    have hField : ∀ b f j, jsonSize j * K + K ≤ n → NF (deFieldWith (dePath e b n) f j) := by
      intro b f j h
      have := hr.bound (Scope.leaf f.ty)
      refine deFieldWith_nf f j (fun j' hj' => ihP b _ j' ?_)
      have := Nat.mul_le_mul_right K hj'
      omega
    refine ⟨fun b p j h => ?_, fun t buf h => ?_⟩
    · rw [dePath]
      split
      · rename_i r hprim; exact dePrim_nf hprim
      · cases hfind : e.find p with
        | none =>
          simp only []
          cases hx : e.externs.find? (·.1 == p) with
          | none =>
            refine nf_unmodelled_lit (fun hh => ?_)
            have := congrArg String.toList hh
            simp at this
          | some x =>
            have := hr.extern p x hfind hx
            exact hTy b x.2 j (by omega)
        | some it =>
          cases it with
          | alias n' pub t =>
            have h1 := hr.alias p n' pub t hfind
            exact hTy b t j (by omega)
          | struct n' d sc fields =>
            simp only []
            refine deStructWith_nf (deFlat_size e n) fields j (fun f _ _ j' hj' => hField b f j' ?_)
              (fun f hf hfl buf hb => ihF f.ty buf ?_)
            · have := mul_succ_le (K := K) hj'; omega
            · have h1 := hr.flat p n' d sc fields hfind f hf hfl
              have := Nat.mul_le_mul_right K hb
              omega
          | unitStruct n' d sc =>
            simp only []
            split
            · exact nf_pure _
            · exact nf_bad _
          | tagged n' d sc tag vs =>
            simp only []
            cases j with
            | obj kvs =>
              refine deTaggedWith_nf b tag vs kvs (fun v _ t _ j' hj' => hTy' true t j' ?_)
              have : jsonSize j' + 1 ≤ jsonSize (.obj kvs) := by rw [jsonSize]; omega
              have := mul_succ_le (K := K) this; omega
            | arr xs => exact nf_unmodelled_lit (by decide)
            | _ => exact nf_bad _
          | gqlEnum n' d sp vs ser de =>
            simp only []
            split
            · split
              · exact nf_pure _
              · exact nf_pure _
            · exact nf_bad _
          | oneOf n' d sc vs =>
            simp only []
            split
            · rename_i k v _
              split
              · split
                · refine nf_map.mpr (hTy' b _ v ?_)
                  have : jsonSize v + 1 ≤ jsonSize (.obj [(k, v)]) := by simp only [jsonSize, kvsSize]; omega
                  have := mul_succ_le (K := K) this; omega
                · exact nf_unmodelled_lit (by decide)
              · exact nf_bad _
            · exact nf_bad _
          | defaults fns => exact nf_unmodelled_lit (by decide)
    · cases t with
      | box t =>
        rw [deFlat]
        refine ihF t buf ?_
        simp only [tyCost] at h; omega
      | opt t => simp only [deFlat]; exact nf_unmodelled_lit (by decide)
      | vec t => simp only [deFlat]; exact nf_unmodelled_lit (by decide)
      | path p =>
        rw [deFlat]
        simp only [tyCost] at h
        have hK : bufSize buf * K + K ≤ n := by
          have : (bufSize buf + 1) * K = bufSize buf * K + K := Nat.succ_mul _ _
          omega
        have hno : ∀ α : Type, NF (unmodelled ("flatten of " ++ p) : D α) := by
          intro α
          refine nf_unmodelled_lit (fun hh => ?_)
          have := congrArg String.toList hh
          simp at this
        cases hfind : e.find p with
        | none => exact hno _
        | some it =>
          cases it with
          | alias n' pub t' =>
            have h1 := hr.aliasF p n' pub t' hfind
            exact ihF t' buf (by omega)
          | struct n' d sc fields =>
            simp only []
            split
            · refine nf_bind ?_ (fun _ _ => nf_pure _)
              refine deStructMapWith_nf (deFlat_size e n) fields _ (fun f _ _ j' hj' => hField true f j' ?_)
                (fun f hf hfl buf' hb => ihF f.ty buf' ?_)
              · have : jsonSize j' ≤ bufSize buf := hj'
                have := Nat.mul_le_mul_right K this; omega
              · have h1 := hr.flatF p n' d sc fields hfind f hf hfl
                have : bufSize buf' ≤ bufSize buf := hb
                have := Nat.mul_le_mul_right K (Nat.add_le_add_right this 1)
                omega
            · refine nf_bind ?_ (fun _ _ => nf_pure _)
              refine deOwnWith_nf fields _ (fun f _ _ j' hj' => hField true f j' ?_)
              have := (takeKeys_size (fields.map (·.wire)) buf).1
              have : jsonSize j' ≤ bufSize buf := by omega
              have := Nat.mul_le_mul_right K this; omega
          | tagged n' d sc tag vs =>
            refine nf_bind ?_ (fun _ _ => nf_pure _)
            refine deTaggedWith_nf true tag vs _ (fun v _ t _ j' hj' => hTy' true t j' ?_)
            have : jsonSize j' ≤ bufSize buf := hj'
            have := Nat.mul_le_mul_right K this; omega
          | unitStruct n' d sc => exact hno _
          | gqlEnum n' d sp vs ser de => exact hno _
          | oneOf n' d sc vs => exact hno _
          | defaults fns => exact hno _

/-- **`dePath` never runs out of fuel above its need** -/
theorem dePath_nf {e : Env} {c cf : String → Nat} {K : Nat} (hr : Ranked e c cf K) (b : Bool) (fuel : Nat) (p : String) (j : Json)
    (h : jsonSize j * K + c p + 1 ≤ fuel) : dePath e b fuel p j ≠ .error fuelErr :=
  (de_nf hr fuel).1 b p j h

/-- **`deFlat` never runs out of fuel above its need** -/
theorem deFlat_nf {e : Env} {c cf : String → Nat} {K : Nat} (hr : Ranked e c cf K) (fuel : Nat) (t : RTy) (buf : Buf)
    (h : (bufSize buf + 1) * K + tyCost cf t + 1 ≤ fuel) : deFlat e fuel t buf ≠ .error fuelErr :=
  (de_nf hr fuel).2 t buf h

/-- **`deTy` never runs out of fuel above its need** -/
theorem deTy_nf {e : Env} {c cf : String → Nat} {K : Nat} (hr : Ranked e c cf K) (b : Bool) (fuel : Nat) (t : RTy) (j : Json)
    (h : jsonSize j * K + c (Scope.leaf t) + 1 ≤ fuel) : deTy e b fuel t j ≠ .error fuelErr := by
  refine deTyWith_nf t j (fun j' hj' => dePath_nf hr b fuel _ j' ?_)
  have := Nat.mul_le_mul_right K hj'
  omega

/-- the struct reader as `dePath` calls it for a struct item `p` of the environment (`fuel` is what is left after
    the jump to `p`) -/
theorem deStructWith_nf' {e : Env} {c cf : String → Nat} {K : Nat} (hr : Ranked e c cf K) (b : Bool) (fuel : Nat)
    {p n : String} {d : List String} {sc : Option String} {fields : List RField}
    (hfind : e.find p = some (.struct n d sc fields)) (j : Json) (h : jsonSize j * K + c p ≤ fuel) :
    deStructWith (dePath e b fuel) (deFlat e fuel) fields j ≠ .error fuelErr := by
  refine deStructWith_nf (deFlat_size e fuel) fields j (fun f _ _ j' hj' => ?_) (fun f hf hfl buf hb => ?_)
  · refine deFieldWith_nf f j' (fun j'' hj'' => dePath_nf hr b fuel _ j'' ?_)
    have h1 := hr.bound (Scope.leaf f.ty)
    have h2 := mul_succ_le (K := K) hj'
    have h3 := Nat.mul_le_mul_right K hj''
    omega
  · refine deFlat_nf hr fuel f.ty buf ?_
    have h1 := hr.flat p n d sc fields hfind f hf hfl
    have h2 := Nat.mul_le_mul_right K hb
    omega

/-! ## above the need the fuel does not matter -/

theorem eq_of_nf_le {α : Type} (f : Nat → D α) (hmono : ∀ {n m : Nat}, n ≤ m → Le (f n) (f m)) {need fuel fuel' : Nat}
    (hnf : NF (f need)) (h1 : need ≤ fuel) (h2 : need ≤ fuel') : f fuel = f fuel' := by
  rw [hmono h1 hnf, hmono h2 hnf]

/-- **`dePath`**: any two fuels at or above the need agree (value or error), buffered or not -/
theorem dePath_fuel_eq {e : Env} {c cf : String → Nat} {K : Nat} (hr : Ranked e c cf K) (b : Bool) (fuel fuel' : Nat)
    (p : String) (j : Json) (h1 : jsonSize j * K + c p + 1 ≤ fuel) (h2 : jsonSize j * K + c p + 1 ≤ fuel') :
    dePath e b fuel p j = dePath e b fuel' p j :=
  eq_of_nf_le (fun n => dePath e b n p j) (fun h => dePath_le e b h p j) (dePath_nf hr b _ p j (Nat.le_refl _)) h1 h2

/-- **`deFlat`**: any two fuels at or above the need agree (value, buffer handed on, or error) -/
theorem deFlat_fuel_eq {e : Env} {c cf : String → Nat} {K : Nat} (hr : Ranked e c cf K) (fuel fuel' : Nat)
    (t : RTy) (buf : Buf) (h1 : (bufSize buf + 1) * K + tyCost cf t + 1 ≤ fuel)
    (h2 : (bufSize buf + 1) * K + tyCost cf t + 1 ≤ fuel') :
    deFlat e fuel t buf = deFlat e fuel' t buf :=
  eq_of_nf_le (fun n => deFlat e n t buf) (fun h => deFlat_le e h t buf) (deFlat_nf hr _ t buf (Nat.le_refl _)) h1 h2

/-- **`deTy`**: any two fuels at or above the need agree -/
theorem deTy_fuel_eq {e : Env} {c cf : String → Nat} {K : Nat} (hr : Ranked e c cf K) (b : Bool) (fuel fuel' : Nat)
    (t : RTy) (j : Json) (h1 : jsonSize j * K + c (Scope.leaf t) + 1 ≤ fuel)
    (h2 : jsonSize j * K + c (Scope.leaf t) + 1 ≤ fuel') :
    deTy e b fuel t j = deTy e b fuel' t j :=
  eq_of_nf_le (fun n => deTy e b n t j) (fun h => deTyWith_le (fun p j => dePath_le e b h p j) t j)
    (deTy_nf hr b _ t j (Nat.le_refl _)) h1 h2

/-- **`deStructWith`** (for a struct item of the environment): any two fuels at or above the need agree -/
theorem deStructWith_fuel_eq {e : Env} {c cf : String → Nat} {K : Nat} (hr : Ranked e c cf K) (b : Bool) (fuel fuel' : Nat)
    {p n : String} {d : List String} {sc : Option String} {fields : List RField}
    (hfind : e.find p = some (.struct n d sc fields)) (j : Json)
    (h1 : jsonSize j * K + c p ≤ fuel) (h2 : jsonSize j * K + c p ≤ fuel') :
    deStructWith (dePath e b fuel) (deFlat e fuel) fields j = deStructWith (dePath e b fuel') (deFlat e fuel') fields j :=
  eq_of_nf_le (fun n => deStructWith (dePath e b n) (deFlat e n) fields j)
    (fun h => deStructWith_le (fun p j => dePath_le e b h p j) (fun t buf => deFlat_le e h t buf) fields j)
    (deStructWith_nf' hr b _ hfind j (Nat.le_refl _)) h1 h2

/-! ## serialization -/

theorem valSize_pos (v : Val) : 1 ≤ valSize v := by
  cases v with
  | variant n pl => cases pl <;> simp only [valSize] <;> omega
  | _ => simp only [valSize] <;> omega

theorem valSize_le_of_mem : ∀ {xs : List Val} {x : Val}, x ∈ xs → valSize x ≤ valsSize xs
  | y :: ys, x, h => by
    rw [valsSize]
    rcases List.mem_cons.mp h with rfl | h'
    · omega
    · have := valSize_le_of_mem h'; omega

theorem valSize_le_of_find : ∀ {vals : List (String × Val)} {q : String × Val → Bool} {nv : String × Val},
    vals.find? q = some nv → valSize nv.2 ≤ fieldsSize vals
  | (k, v) :: rest, q, nv, h => by
    rw [fieldsSize]
    rw [List.find?_cons] at h
    split at h
    · cases h; simp only; omega
    · have := valSize_le_of_find h; omega

section SerWith
variable {path : String → Val → D Json}

theorem serTyWith_nf : ∀ (t : RTy) (v : Val), (∀ v', valSize v' ≤ valSize v → NF (path (Scope.leaf t) v')) →
    NF (serTyWith path t v)
  | .path p, v, h => by simp only [serTyWith]; exact h v (Nat.le_refl _)
  | .box t, v, h => by simp only [serTyWith]; exact serTyWith_nf t v h
  | .opt t, v, h => by
    cases v with
    | some x =>
      simp only [serTyWith]
      refine serTyWith_nf t x (fun v' hv' => h v' ?_)
      simp only [valSize]; omega
    | unit => exact nf_pure _
    | _ => exact nf_unmodelled_lit (by decide)
  | .vec t, v, h => by
    cases v with
    | list xs =>
      simp only [serTyWith]
      refine nf_map.mpr (nf_mapM xs (fun x hx => serTyWith_nf t x (fun v' hv' => h v' ?_)))
      have := valSize_le_of_mem hx
      simp only [valSize]; omega
    | _ => exact nf_unmodelled_lit (by decide)

theorem serFieldsWith_nf : ∀ (fs : List RField) (vals : List (String × Val)),
    (∀ f ∈ fs, ∀ v, valSize v ≤ fieldsSize vals → NF (serTyWith path f.ty v)) → NF (serFieldsWith path fs vals)
  | [], _, _ => nf_pure _
  | f :: fs, vals, h => by
    rw [serFieldsWith.eq_2]
    refine nf_bind (serFieldsWith_nf fs vals (fun f' hf' => h f' (List.mem_cons_of_mem _ hf'))) (fun rest _ => ?_)
    cases hfd : vals.find? (·.1 == f.rust) with
    | none =>
      refine nf_unmodelled_lit (fun hh => ?_)
      have := congrArg String.toList hh
      simp at this
    | some nv =>
      have hv := h f List.mem_cons_self nv.2 (valSize_le_of_find hfd)
      simp only []
      split
      · refine nf_bind hv (fun x _ => ?_)
        split
        · exact nf_pure _
        · exact nf_bad _
      · split
        · exact nf_pure _
        · exact nf_bind hv (fun _ _ => nf_pure _)

end SerWith

theorem ser_nf {e : Env} {c : String → Nat} {K : Nat} (hr : RankedS e c K) : ∀ (fuel : Nat) (p : String) (v : Val),
    valSize v * K + c p + 1 ≤ fuel → NF (serPath e fuel p v) := by
  intro fuel
  induction fuel with
  | zero => intro p v h; omega
  | succ n ih =>
    intro p v h
    have hTy : ∀ t v', valSize v' * K + c (Scope.leaf t) + 1 ≤ n → NF (serTyWith (serPath e n) t v') := by
      intro t v' h'
      refine serTyWith_nf t v' (fun v'' hv'' => ih _ v'' ?_)
      have := Nat.mul_le_mul_right K hv''
      omega
    have hTy' : ∀ t v', valSize v' + 1 ≤ valSize v → NF (serTyWith (serPath e n) t v') := by
      intro t v' h'
      have h1 := hr.bound (Scope.leaf t)
      have h2 := mul_succ_le (K := K) h'
      exact hTy t v' (by omega)
    rw [serPath]
    split
    · exact nf_pure _
    · cases hfind : e.find p with
      | none =>
        simp only []
        cases hx : e.externs.find? (·.1 == p) with
        | none =>
          refine nf_unmodelled_lit (fun hh => ?_)
          have := congrArg String.toList hh
          simp at this
        | some x =>
          have := hr.extern p x hfind hx
          exact hTy x.2 v (by omega)
      | some it =>
        cases it with
        | alias n' pub t =>
          have h1 := hr.alias p n' pub t hfind
          exact hTy t v (by omega)
        | struct n' d sc fields =>
          simp only []
          cases v with
          | record vals =>
            refine nf_map.mpr (serFieldsWith_nf fields vals (fun f _ v' hv' => hTy' f.ty v' ?_))
            simp only [valSize]; omega
          | _ => exact nf_unmodelled_lit (by decide)
        | unitStruct n' d sc => exact nf_pure _
        | tagged n' d sc tag vs =>
          simp only []
          cases v with
          | variant name payload =>
            simp only []
            split
            · exact nf_pure _
            · rename_i var pv _ _
              split
              · refine nf_bind (hTy' _ pv (by simp only [valSize]; omega)) (fun x _ => ?_)
                split
                · exact nf_pure _
                · exact nf_unmodelled_lit (by decide)
              · exact nf_unmodelled_lit (by decide)
            · exact nf_unmodelled_lit (by decide)
          | _ => exact nf_unmodelled_lit (by decide)
        | gqlEnum n' d sp vs ser de =>
          simp only []
          split
          · split
            · exact nf_pure _
            · exact nf_unmodelled_lit (by decide)
          · exact nf_unmodelled_lit (by decide)
        | oneOf n' d sc vs =>
          simp only []
          split
          · rename_i name pv _
            split
            · split
              · exact nf_bind (hTy' _ pv (by simp only [valSize]; omega)) (fun _ _ => nf_pure _)
              · exact nf_unmodelled_lit (by decide)
            · exact nf_unmodelled_lit (by decide)
          · exact nf_unmodelled_lit (by decide)
        | defaults fns => exact nf_unmodelled_lit (by decide)

/-- **`serPath` never runs out of fuel above its need** -/
theorem serPath_nf {e : Env} {c : String → Nat} {K : Nat} (hr : RankedS e c K) (fuel : Nat) (p : String) (v : Val)
    (h : valSize v * K + c p + 1 ≤ fuel) : serPath e fuel p v ≠ .error fuelErr :=
  ser_nf hr fuel p v h

/-- **`serTy` never runs out of fuel above its need** -/
theorem serTy_nf {e : Env} {c : String → Nat} {K : Nat} (hr : RankedS e c K) (fuel : Nat) (t : RTy) (v : Val)
    (h : valSize v * K + c (Scope.leaf t) + 1 ≤ fuel) : serTy e fuel t v ≠ .error fuelErr := by
  refine serTyWith_nf t v (fun v' hv' => serPath_nf hr fuel _ v' ?_)
  have := Nat.mul_le_mul_right K hv'
  omega

/-- **`serPath`**: any two fuels at or above the need agree -/
theorem serPath_fuel_eq {e : Env} {c : String → Nat} {K : Nat} (hr : RankedS e c K) (fuel fuel' : Nat)
    (p : String) (v : Val) (h1 : valSize v * K + c p + 1 ≤ fuel) (h2 : valSize v * K + c p + 1 ≤ fuel') :
    serPath e fuel p v = serPath e fuel' p v :=
  eq_of_nf_le (fun n => serPath e n p v) (fun h => serPath_le e h p v) (serPath_nf hr _ p v (Nat.le_refl _)) h1 h2

/-- **`serTy`**: any two fuels at or above the need agree -/
theorem serTy_fuel_eq {e : Env} {c : String → Nat} {K : Nat} (hr : RankedS e c K) (fuel fuel' : Nat)
    (t : RTy) (v : Val) (h1 : valSize v * K + c (Scope.leaf t) + 1 ≤ fuel)
    (h2 : valSize v * K + c (Scope.leaf t) + 1 ≤ fuel') :
    serTy e fuel t v = serTy e fuel' t v :=
  eq_of_nf_le (fun n => serTy e n t v) (fun h => serTyWith_le (fun p v => serPath_le e h p v) t v)
    (serTy_nf hr _ t v (Nat.le_refl _)) h1 h2

end SerdeFuel
end GqlVerif
