import GqlVerif.Proofs.C01MixedContent
/-!
# C01 end to end (`MixedOp`), `SameContent`: a generated module under `skip_serializing_none`, with an integer `ID`

Every difference `SameContent` allows occurs in one round trip of a generated module (`skCtx`, `skipNone := true`):
schema `mxSchema` of `C01MixedE` with `Dog { id: ID!  name  barks  tags: [String] }`;
`fragment DogFields on Dog { barks tags }`, `fragment AnimalName on Animal { __typename name }`;
`query Q { dog { id name ...DogFields } animal { __typename ...AnimalName ...DogFields } }`.
For the payload `skJson` (`dog.id = 7` an integer, `dog.tags = null`):
* `sk_roundtrip_content` — `mixed_roundtrip_content` on the module (every hypothesis by `decide +kernel`);
* `sk_content` — written out: `id` comes back as `"7"`, `dog.tags` (a `null` under skip-none) is dropped, `dog.barks = null` stays
  (no modifier: `skip_serializing_none` is not attached), the keys of `animal` are reordered, `__typename` once;
* `sk_roundtrip` — that value **is** what the round trip returns.
-/
set_option linter.unusedSimpArgs false
set_option linter.unusedVariables false
set_option linter.unusedSectionVars false
set_option linter.unnecessarySimpa false

namespace GqlVerif
namespace C01M
open Serde Spec C13 C03 Codegen C01 C01.E2E

def skSchema : Schema :=
  { objects := [{ name := "Query", fields := [0, 1], implements := [] },
                { name := "Dog", fields := [2, 3, 5, 6], implements := [0] },
                { name := "Cat", fields := [2, 4], implements := [0] }]
    fields := [{ name := "dog", ty := { id := .object 1, quals := [] }, parent := .object 0, deprecation := none },
               { name := "animal", ty := { id := .interface 0, quals := [] }, parent := .object 0, deprecation := none },
               { name := "name", ty := { id := .scalar 1, quals := [.required] }, parent := .interface 0, deprecation := none },
               { name := "barks", ty := { id := .scalar 4, quals := [] }, parent := .object 1, deprecation := none },
               { name := "lives", ty := { id := .scalar 2, quals := [] }, parent := .object 2, deprecation := none },
               { name := "tags", ty := { id := .scalar 1, quals := [.list] }, parent := .object 1, deprecation := none },
               { name := "id", ty := { id := .scalar 0, quals := [.required] }, parent := .object 1, deprecation := none }]
    interfaces := [{ name := "Animal", fields := [2] }]
    scalars := ["ID", "String", "Int", "Float", "Boolean"] }

/-- `query Q { dog { id name ...DogFields } animal { __typename ...AnimalName ...DogFields } }` -/
def skOp : ROperation :=
  { name := "Q", kind := .query, objectId := 0,
    sels := [.field none 0 [.field none 6 [], .field none 2 [], .spread 0],
             .field none 1 [.typename, .spread 1, .spread 0]] }

def skQuery : Query :=
  { operations := [skOp]
    fragments := [{ name := "DogFields", on := .object 1, sels := [.field none 3 [], .field none 5 []] },
                  { name := "AnimalName", on := .interface 0, sels := [.typename, .field none 2 []] }] }

def skCtx : Ctx := { s := skSchema, q := skQuery, o := { skipNone := true }, cs := ⟨id, id⟩ }

def skItems : List Item := okOr (responseForQuery skCtx 0)

theorem sk_gen : responseForQuery skCtx 0 = .ok skItems := gen_of_isOk (by decide +kernel)
theorem sk_class : MixedOp skCtx skOp = true := by decide +kernel
theorem sk_not_F : FragmentOp skCtx skOp = false := by decide +kernel
theorem sk_not_S : VariantSpreadOp skCtx skOp = false := by decide +kernel
theorem sk_keys : mixedKeysOk skCtx skOp = true := by decide +kernel
theorem sk_rust : mixedRustOk skCtx skOp = true := by decide +kernel
theorem sk_ok : moduleOk skCtx skItems = true := by decide +kernel

def skJson : Json :=
  .obj [("dog", .obj [("tags", .null), ("barks", .null), ("name", .str "Rex"), ("id", .int 7)]),
        ("animal", .obj [("__typename", .str "Dog"), ("name", .str "Rex"), ("barks", .bool false),
                         ("tags", .arr [.str "a", .null])])]

def skOut : Json :=
  .obj [("dog", .obj [("id", .str "7"), ("name", .str "Rex"), ("barks", .null)]),
        ("animal", .obj [("name", .str "Rex"), ("__typename", .str "Dog"), ("barks", .bool false),
                         ("tags", .arr [.str "a", .null])])]

set_option maxRecDepth 8000 in
theorem sk_conforms : conformsOpM skCtx skOp skJson = true := by
  simp only [skJson]
  simp [conformsOpM, skCtx, skOp, skQuery, expandSels, expandSel, conformsV, confSelsV, confSelV, keysSelsV, keysSelV,
    fragApplies, rtName, skSchema, Json.lookup, accepts, acceptsNN, gtyOf, scalarOk, idOk, floatOk, stringOk, boolOk,
    Json.isNull, EnumSpec.nodup, List.range, List.range.loop, conformsAt, Schema.implementors, List.zipIdx]
  decide

set_option maxRecDepth 8000 in
theorem sk_canon : normJson (canonSelM skSchema skQuery true skOp.sels skJson) = skOut := by
  simp only [skJson, skOut]
  simp [canonSelM, canonEntriesM, canonFieldM, canonSelV, canonSelD, canonEntriesD, canonFieldD, loneG, canonEntriesBD,
    canonVarD, onNamed, absEntries, absRest, hasStruct, isBSpread, isFieldSel, canonAbsV, canonEntriesV, canonFieldV,
    canonInlV, tagName, fragSels, skOp, skQuery, skSchema, objName, rtName, fieldKeys, fieldKey, Json.lookup, canon, canonNN,
    gtyOf, Json.isNull, skipQ, idCanon, normJson, normKvs, normList, Json.normObj, Json.insert]
  decide

/-- **`mixed_roundtrip_content` on a generated module under skip-none** -/
theorem sk_roundtrip_content :
    ∃ out, Serde.roundtrip (moduleEnv skCtx skItems) (.path "ResponseData") skJson = .ok out ∧
      SameContent true skJson out :=
  mixed_roundtrip_content skCtx 0 skOp skItems rfl sk_class sk_keys sk_rust sk_gen sk_ok skJson sk_conforms

/-- the round trip, computed by `mixed_roundtrip` -/
theorem sk_roundtrip : Serde.roundtrip (moduleEnv skCtx skItems) (.path "ResponseData") skJson = .ok skOut := by
  rw [mixed_roundtrip skCtx 0 skOp skItems rfl sk_class sk_keys sk_rust sk_gen sk_ok skJson sk_conforms]
  exact congrArg Except.ok sk_canon

/-- written out: integer `ID` → string, a `null` list dropped under skip-none, key order changed, `__typename` kept once at the
    abstract position -/
theorem sk_content : SameContent true skJson skOut := by
  have h : SameContent true skJson (normJson (canonSelM skSchema skQuery true skOp.sels skJson)) :=
    mixed_content skCtx skOp sk_class skJson sk_conforms
  rw [sk_canon] at h
  exact h

/-- … and dropping the `null` is a difference only skip-none allows: the same pair is **not** `SameContent false` -/
theorem sk_not_content_noskip : ¬ SameContent false skJson skOut := by
  intro h
  simp only [skJson, skOut] at h
  obtain ⟨v1, hl1, h1⟩ := SameContent.entry (by simp) h "dog"
    (.obj [("id", .str "7"), ("name", .str "Rex"), ("barks", .null)]) (by simp)
  simp only [Json.lookup, beq_self_eq_true, ↓reduceIte, Option.some.injEq] at hl1
  subst hl1
  have := SameContent.no_loss h1 "tags" .null (by simp [Json.lookup])
  simp at this

end C01M
end GqlVerif
