import GqlVerif.Proofs.C01RecursiveB
/-!
# C01 / C03 end to end, step 3 (`RecFragmentOp`), part C: top level over `Codegen.responseForQuery`

* `topEnvR_of_module` — the hypotheses of part B hold for the module `responseForQuery` emits: the struct of every
  reachable fragment is in the module (`usedFrags_reach`, `C02.selected_types_used`, `recfragment_struct_shape`),
  the static depth of every selection set is below the number of items (`depthR_sels`), `Serde.deFuel` is enough
  for a payload of any size (`deFuel_R`: 4 jumps to named types per nesting level of the payload);
* **`recfragment_precise_iff` / `recfragment_precise`** (C03): `Serde.de (moduleEnv c items) ResponseData j` succeeds
  **iff** `conformsLooseR c.s c.q c.o (jsonSize j) false op.sels j`;
* specification: `conformsOpR c op k j` = the specification `conformsV` of `C01AbstractA` on the root selection set
  with every spread unfolded (as the inline fragment `... on T { body }`, GraphQL §6.4.3) to depth `k`
  (`expandR`); `conformsR_loose`: conforming (for any `k ≥ 2 * jsonSize j`) ⇒ `conformsLooseR`;
* **`recfragment_accepts`**: every conforming response is accepted.

Hypotheses (decidable): `RecFragmentOp c op`, `recKeysOk c op` (keys disjoint between a fragment and its siblings,
in the operation and inside every reachable fragment), `moduleOk c items`.
-/
set_option linter.unusedSimpArgs false
set_option linter.unusedVariables false
set_option linter.unusedSectionVars false
set_option linter.unnecessarySimpa false
namespace GqlVerif
namespace C01
namespace E2E
open Serde Spec C13 C03 Codegen

/-! ## top level -/

/-- **keys disjoint between every fragment and its siblings** (and between the fragments of one selection set), at
    every level of the operation and inside the body of every reachable fragment (decidable) -/
def recKeysOk (c : Ctx) (op : ROperation) : Bool :=
  fragKeysOk c op &&
  (usedFrags c.q op.sels).all (fun g =>
    keysOksF c.s c.q (fragSels c.q g) && EnumSpec.nodup (expKeys c.s c.q (fragSels c.q g)))

/-- what the end-to-end theorems need of the environment (discharged for the environment built from
    `responseForQuery` by `topEnvR_of_module`) -/
structure TopEnvR (e : Env) (c : Ctx) (op : ROperation) : Prop where
  root : BodyEnvR e c "ResponseData" (c.cs.camel op.name) op.sels
  world : RWorld e c (usedFrags c.q op.sels) e.items.length
  depth : selsDepth op.sels ≤ e.items.length
  two : 2 ≤ e.items.length

theorem deFuel_R (e : Env) (j : Json) (h2 : 2 ≤ e.items.length) :
    4 * jsonSize j + 2 * e.items.length + 4 ≤ deFuel e j := by
  unfold deFuel
  rw [Nat.add_mul]
  have h1 : jsonSize j * 4 ≤ jsonSize j * (e.items.length + e.externs.length + 2) :=
    Nat.mul_le_mul_left _ (by omega)
  omega

/-- **`ResponseData` accepts exactly `conformsLooseR … (jsonSize j) false`** (generic environment) -/
theorem top_accepts_iffR (e : Env) (c : Ctx) (op : ROperation) (ht : RecFragmentOp c op = true)
    (hk : recKeysOk c op = true) (he : TopEnvR e c op) (j : Json) :
    okB (Serde.de e (.path "ResponseData") j) = conformsLooseR c.s c.q c.o (jsonSize j) false op.sels j := by
  obtain ⟨_, _, hsels, hcl, _⟩ := recFragmentOp_parts ht
  simp only [recKeysOk, fragKeysOk, Bool.and_eq_true] at hk
  rw [de_top]
  exact accR he.world (jsonSize j) op.objectId op.sels _ _ hsels (closedFrags_parts hcl).1 he.root hk.1.1 hk.1.2
    he.depth false _ (deFuel_R e j he.two) j (Nat.le_refl _)

theorem topEnvR_of_module {c : Ctx} {opIdx : Nat} {op : ROperation} {items : List Item}
    (hop : c.q.operations[opIdx]? = some op) (ht : RecFragmentOp c op = true) (hk : recKeysOk c op = true)
    (hgen : responseForQuery c opIdx = .ok items) (hok : moduleOk c items = true) :
    TopEnvR (moduleEnv c items) c op := by
  obtain ⟨u, S, E, F, I, V, o, resp, hu, hS, hE, hF, ho, hresp, hitems⟩ := responseForQuery_parts_full hgen
  rw [hop] at ho; cases ho
  obtain ⟨hn, _, hsels, hcl, hfok⟩ := recFragmentOp_parts ht
  obtain ⟨hcl1, hcl2⟩ := closedFrags_parts hcl
  rw [recfragment_items_shape c op (List.mem_of_getElem? hop) ht] at hresp
  cases hresp
  simp only [moduleOk, Bool.and_eq_true, List.all_eq_true, decide_eq_true_eq, List.isEmpty_iff] at hok
  obtain ⟨⟨⟨⟨hnd, hnp⟩, hext⟩, htab⟩, hnoext⟩ := hok
  simp only [recKeysOk, Bool.and_eq_true, List.all_eq_true] at hk
  have hsub : ∀ it ∈ bodyItemsR c "ResponseData" (c.cs.camel op.name) op.sels, it ∈ items := by
    intro it h; rw [hitems]; simp [h]
  have M : ModFacts c items u op.sels := {
    hn := hn
    nodup := nodup_iff'.mp hnd
    np := hnp
    ext := fun x hx => ⟨(hext x hx).1, fun it hit => by simpa using (hext x hx).2 it hit⟩
    tables := fun n d sp vs ser de hm => by simpa using htab _ hm
    builtin := fun it h => by rw [hitems]; simp [h]
    scalars := fun k n hk hn' hnd' => by
      have := scalarItems_mem hS hk hn' hnd'
      simp only [hn, Normalization.scalarName, Normalization.camelCase] at this
      rw [hitems]; simp [this]
    enums := fun k en hk hen => by
      have := enumItems_mem hE hk hen (by simp [hnoext])
      rw [hitems]; simp [this]
    used := C02.selected_types_used c.s c.q opIdx u hu op hop }
  have hlen : (moduleEnv c items).items.length = items.length := rfl
  -- the items of every reachable fragment are in the module
  have hfragmem : ∀ g ∈ usedFrags c.q op.sels, ∀ f, c.q.fragments[g]? = some f →
      (Item.struct f.name c.respDerives c.serdeCrate (fieldsOfR c (c.cs.camel f.name) f.sels) ::
        itemsRs c (c.cs.camel f.name) f.sels) ∈ F := by
    intro g hg f hf
    have hr := usedFrags_reach c.q op.sels g hg
    have hused : g ∈ u.fragments := M.used _ hr
    obtain ⟨its, hits, hfi⟩ := C02.mapM_ok_of_mem hF g ((C02.mem_sortNat _ _).mpr hused)
    obtain ⟨f', hf', hshape⟩ := recfragment_struct_shape c hn g (hfok g hg)
    rw [hf] at hf'; cases hf'
    rw [hshape] at hfi; cases hfi
    exact hits
  have hFlen : F.flatten.length ≤ items.length := by rw [hitems]; simp only [List.length_append]; omega
  have hworld : RWorld (moduleEnv c items) c (usedFrags c.q op.sels) items.length := {
    closed := hcl2
    ok := hfok
    env := by
      intro g hg
      obtain ⟨f, i, hf, hon, _, hnt, hr⟩ := fragBodyOk_parts (hfok g hg)
      have hin : ∀ it ∈ (Item.struct f.name c.respDerives c.serdeCrate (fieldsOfR c (c.cs.camel f.name) f.sels) ::
          itemsRs c (c.cs.camel f.name) f.sels), it ∈ items := by
        intro it hit
        rw [hitems]
        have : it ∈ F.flatten := List.mem_flatten.mpr ⟨_, hfragmem g hg f hf, hit⟩
        simp [this]
      unfold FragEnvR
      rw [hf]
      exact ⟨structEnv_of M _ _ (hin _ (by simp)),
        envSelsR_of M f.sels _ i hr (fun x hx it h => hin it (by simp [mem_itemsRs hx h]))
          (fun x hx => reach_step_spread (usedFrags_reach c.q op.sels g hg) hf hx)⟩
    keys := fun g hg => by simpa using hk.2 g hg
    depth := by
      intro g hg
      obtain ⟨f, i, hf, hon, _, hnt, hr⟩ := fragBodyOk_parts (hfok g hg)
      have hs : fragSels c.q g = f.sels := by simp [fragSels, hf]
      have h1 := length_le_flatten (hfragmem g hg f hf)
      have h2 := depthR_sels c f.sels (c.cs.camel f.name) _ hr
      rw [hs]
      simp only [List.length_cons] at h1
      omega }
  have h4 : builtinAliases.length = 4 := rfl
  have htwo : 2 ≤ items.length := by rw [hitems]; simp only [List.length_append]; omega
  by_cases hsp : ∃ g, op.sels = [Sel.spread g]
  · obtain ⟨g, hg⟩ := hsp
    refine ⟨?_, hworld, ?_, htwo⟩
    · unfold BodyEnvR
      rw [hg]
      simp only
      exact aliasEnvR_of M _ _ (fragmentIsRecursive c.q g) (hsub _ (by rw [hg]; simp [bodyItemsR]))
    · rw [hg, hlen]; simp [selsDepth, selDepth]; omega
  · have hnl : ∀ g, op.sels ≠ [Sel.spread g] := fun g hg => hsp ⟨g, hg⟩
    have hsels' := hsels
    rw [rBody_not_lone hnl] at hsels'
    have hbody := bodyItemsR_not_lone c "ResponseData" (c.cs.camel op.name) hnl
    rw [hbody] at hsub
    refine ⟨?_, hworld, ?_, htwo⟩
    · unfold BodyEnvR
      split
      · exact absurd (by assumption) (hnl _)
      · exact ⟨structEnv_of M _ _ (hsub _ (by simp)),
          envSelsR_of M op.sels _ op.objectId hsels' (fun x hx it h => hsub it (by simp [mem_itemsRs hx h]))
            (fun x hx => .here hx)⟩
    · have hd := depthR_sels c op.sels (c.cs.camel op.name) _ hsels'
      rw [hlen, hitems, hbody]
      simp only [List.length_append, List.length_cons]
      omega

/-- **`recfragment_precise` (C03), as an equivalence.**  The emitted `ResponseData` accepts `j` **iff**
    `conformsLooseR … (jsonSize j) false op.sels j`. -/
theorem recfragment_precise_iff (c : Ctx) (opIdx : Nat) (op : ROperation) (items : List Item)
    (hop : c.q.operations[opIdx]? = some op) (ht : RecFragmentOp c op = true) (hk : recKeysOk c op = true)
    (hgen : responseForQuery c opIdx = .ok items) (hok : moduleOk c items = true) (j : Json) :
    okB (Serde.de (moduleEnv c items) (.path "ResponseData") j) =
      conformsLooseR c.s c.q c.o (jsonSize j) false op.sels j :=
  top_accepts_iffR (moduleEnv c items) c op ht hk (topEnvR_of_module hop ht hk hgen hok) j

theorem recfragment_precise (c : Ctx) (opIdx : Nat) (op : ROperation) (items : List Item)
    (hop : c.q.operations[opIdx]? = some op) (ht : RecFragmentOp c op = true) (hk : recKeysOk c op = true)
    (hgen : responseForQuery c opIdx = .ok items) (hok : moduleOk c items = true) (j : Json) (v : Val)
    (hd : Serde.de (moduleEnv c items) (.path "ResponseData") j = .ok v) :
    conformsLooseR c.s c.q c.o (jsonSize j) false op.sels j = true := by
  rw [← recfragment_precise_iff c opIdx op items hop ht hk hgen hok j, hd]; rfl


/-! ## the specification side

GraphQL §6.4.3: CollectFields treats a fragment spread like an inline fragment with the fragment's type condition
and selection set.  With recursive fragments the unfolding never ends on the *selection* side, but a response is
finite: `expandR q k` unfolds spreads to nesting depth `k` (one unit per spread followed and per field entered);
the specification of `C01AbstractA`, `conformsV`, is applied to the selection set unfolded **deeper than the
payload is nested** (`k ≥ 2 * jsonSize j`; the verdict no longer depends on `k` then, the residual spreads lie
below every object of the payload). -/

/-- unfold fragment spreads (as inline fragments on the fragment's type condition) to nesting depth `k` -/
def expandR (q : Query) : Nat → Sel → Sel
  | 0, x => x
  | k + 1, x =>
    match x with
    | .field a fid sub => .field a fid (sub.map (expandR q k))
    | .inline t sub => .inline t (sub.map (expandR q k))
    | .spread g => (match q.fragments[g]? with
      | some f => .inline f.on (f.sels.map (expandR q k))
      | none => .spread g)
    | .typename => .typename

/-- a response conforms to the operation (GraphQL spec §6.4): the response object of the root selection set,
    spreads unfolded to depth `k`, executed on the root object type -/
def conformsOpR (c : Ctx) (op : ROperation) (k : Nat) (j : Json) : Bool :=
  conformsV c.s op.objectId (op.sels.map (expandR c.q k)) j

theorem map_eq_self {α} {f : α → α} : ∀ {l : List α}, (∀ y ∈ l, f y = y) → l.map f = l
  | [], _ => rfl
  | a :: l, h => by rw [List.map_cons, h a (by simp), map_eq_self (fun y hy => h y (by simp [hy]))]

theorem noSpreads_mem : ∀ {sels : List Sel}, noSpreads sels = true → ∀ y ∈ sels, noSpread y = true
  | [], _, _, hy => by simp at hy
  | x :: xs, h, y, hy => by
    rw [noSpreads, Bool.and_eq_true] at h
    rcases List.mem_cons.mp hy with rfl | hy'
    · exact h.1
    · exact noSpreads_mem h.2 y hy'

theorem expandR_noSpread (q : Query) : ∀ (k : Nat) (x : Sel), noSpread x = true → expandR q k x = x
  | 0, _, _ => rfl
  | k + 1, .field a fid sub, h => by
    rw [noSpread] at h
    simp only [expandR]
    rw [map_eq_self (fun y hy => expandR_noSpread q k y (noSpreads_mem h y hy))]
  | k + 1, .inline t sub, h => by
    rw [noSpread] at h
    simp only [expandR]
    rw [map_eq_self (fun y hy => expandR_noSpread q k y (noSpreads_mem h y hy))]
  | k + 1, .spread g, h => by simp [noSpread] at h
  | k + 1, .typename, _ => rfl

/-- size-restricted monotonicity of `accepts` -/
theorem accepts_mono_size (f g : Json → Bool) (n : Nat) (h : ∀ j, jsonSize j ≤ n → f j = true → g j = true)
    (t : GTy) (v : Json) (hv : jsonSize v ≤ n) (hf : accepts f t v = true) : accepts g t v = true := by
  let g' : Json → Bool := fun j => if jsonSize j ≤ n then g j else f j
  have h1 : accepts g' t v = true := by
    refine (accepts_mono f g' ?_ t).2 v hf
    intro j hj
    by_cases hs : jsonSize j ≤ n
    · simp only [g', hs, ↓reduceIte]; exact h j hs hj
    · simp only [g', hs, ↓reduceIte]; exact hj
  rw [← (accepts_congr_size g' g n (by intro j hj; simp only [g', hj, ↓reduceIte]) t).2 v hv]
  exact h1

section SLR
variable (s : Schema) (q : Query) (o : Options) (G : List Nat)
  (hok : ∀ g ∈ G, fragBodyOk s q o g = true)
  (hcl : ∀ g ∈ G, ∀ g' ∈ spreadIdss (fragSels q g), g' ∈ G)

/-- induction hypothesis: a conforming response object of size `≤ n` of a selection set unfolded to depth
    `≥ 2 n` is accepted -/
def SLR (n : Nat) : Prop :=
  ∀ k, 2 * n ≤ k → ∀ b i sels j, jsonSize j ≤ n → rBody s q o (.object i) sels = true →
    (∀ g ∈ spreadIdss sels, g ∈ G) → conformsV s i (sels.map (expandR q k)) j = true →
    conformsLooseR s q o n b sels j = true

variable {n : Nat} (IH : SLR s q o G n)
include IH

theorem slFieldR (p : TypeId) (a : Option String) (fid : Nat) (sub : List Sel)
    (ht : rSel s q o p (.field a fid sub) = true) (hG : ∀ g ∈ spreadIdss sub, g ∈ G) (k : Nat) (hk : 2 * n ≤ k)
    (b : Bool) (v : Json) (hv : jsonSize v ≤ n)
    (h : strictFieldV s (expandR q (k + 1) (.field a fid sub)) v = true) :
    looseFieldP s o (conformsLooseR s q o n) b (.field a fid sub) v = true := by
  cases hsf : s.fields[fid]? with
  | none => rw [rSel] at ht; simp [hsf] at ht
  | some sf =>
    by_cases hobj : ∃ i, sf.ty.id = .object i
    · obtain ⟨i, hid⟩ := hobj
      rw [rSel] at ht
      simp only [expandR, strictFieldV] at h
      rw [looseFieldP]
      simp only [hsf, hid, Bool.and_eq_true] at h ht ⊢
      cases ho : s.objects[i]? with
      | none => simp [ho] at ht
      | some ob =>
        simp only []
        refine accepts_mono_size _ _ n ?_ _ v hv h
        intro j hjs hj
        simp only [conformsAt, List.any_eq_true, List.mem_range, Bool.and_eq_true, fragApplies, beq_iff_eq] at hj
        obtain ⟨rt, _, hrt, hc⟩ := hj
        subst hrt
        exact IH k hk b i sub j hjs ht.2.2 hG hc
    · have hno : ∀ i, sf.ty.id ≠ .object i := fun i h => hobj ⟨i, h⟩
      have hv' := vSel_of_rSel_nonobj ht hsf hno
      have hl : looseFieldP s o (conformsLooseR s q o n) b (.field a fid sub) v =
          looseFieldV s o b (.field a fid sub) v := by
        rw [looseFieldP]
        simp only [hsf]
      rw [hl]
      rw [expandR_noSpread q _ _ (noSpread_of_vSel s o _ false hv')] at h
      exact slField s o _ false b v hv' h

theorem slOwnR : ∀ (sels : List Sel) (p : TypeId) (b : Bool) (i : Nat) (kvs : List (String × Json)) (k : Nat),
    rSels s q o p sels = true → (∀ g ∈ spreadIdss sels, g ∈ G) → 2 * n ≤ k → kvsSize kvs ≤ n →
    (∀ key, countKey key kvs ≤ 1) → confSelsV s i (sels.map (expandR q (k + 1))) kvs = true →
    looseOwnP s o (conformsLooseR s q o n) b sels kvs = true
  | [], _, _, _, _, _, _, _, _, _, _, _ => by simp [looseOwnP]
  | x :: xs, p, b, i, kvs, k, ht, hG, hk, hsz, hc, h => by
    obtain ⟨hx, hxs⟩ := rSels_cons ht
    rw [List.map_cons, confSelsV, Bool.and_eq_true] at h
    rw [spreadIdss] at hG
    have ih := slOwnR xs p b i kvs k hxs (fun g hg => hG g (by simp [hg])) hk hsz hc h.2
    cases x with
    | field a fid sub =>
      have hcx := h.1
      have hexp : expandR q (k + 1) (.field a fid sub) = .field a fid (sub.map (expandR q k)) := rfl
      rw [hexp, confSelV_field] at hcx
      rw [looseOwnP, ih, Bool.and_true]
      cases hsf : s.fields[fid]? with
      | none => simp [hsf] at hcx
      | some sf =>
        simp only [hsf] at hcx ⊢
        cases hl : Json.lookup (a.getD sf.name) kvs with
        | none => simp [hl] at hcx
        | some v =>
          simp only [hl] at hcx ⊢
          have hvs := jsonSize_lookup hl
          have := slFieldR s q o G IH p a fid sub hx (fun g hg => hG g (by rw [spreadIds]; simp [hg])) k hk b v
            (by omega) (by rw [hexp]; exact hcx)
          simp [hc, this]
    | spread g => simpa [looseOwnP] using ih
    | inline t sub => simp [rSel] at hx
    | typename => simpa [looseOwnP] using ih

include hok hcl in
theorem slMemR (i : Nat) (kvs : List (String × Json)) (hsz : kvsSize kvs ≤ n) (hc : ∀ key, countKey key kvs ≤ 1) :
    ∀ (sels : List Sel) (k : Nat), rSels s q o (.object i) sels = true → (∀ g, Sel.spread g ∈ sels → g ∈ G) →
    2 * n + 1 ≤ k → confSelsV s i (sels.map (expandR q (k + 1))) kvs = true →
    looseMemP s q o (conformsLooseR s q o n) sels kvs = true
  | [], _, _, _, _, _ => by simp [looseMemP]
  | x :: xs, k, ht, hG, hk, h => by
    obtain ⟨hx, hxs⟩ := rSels_cons ht
    rw [List.map_cons, confSelsV, Bool.and_eq_true] at h
    have ih := slMemR i kvs hsz hc xs k hxs (fun g hg => hG g (List.mem_cons_of_mem _ hg)) hk h.2
    cases x with
    | spread g =>
      have hsok : spreadOk q (.object i) g = true := by simpa [rSel] using hx
      obtain ⟨fr, hfr, hon, _⟩ := spreadOk_parts hsok
      have hgG := hG g (by simp)
      obtain ⟨fr', i', hfr', hon', _, _, hr⟩ := fragBodyOk_parts (hok g hgG)
      rw [hfr] at hfr'; cases hfr'
      have hsels : fragSels q g = fr.sels := by simp [fragSels, hfr]
      have hii : i' = i := by rw [hon] at hon'; cases hon'; rfl
      subst hii
      have h1 := h.1
      obtain ⟨k', rfl⟩ : ∃ k', k = k' + 1 := ⟨k - 1, by omega⟩
      have hexp : expandR q (k' + 1 + 1) (.spread g) = .inline fr.on (fr.sels.map (expandR q (k' + 1))) := by
        simp [expandR, hfr]
      rw [hexp] at h1
      simp only [confSelV, hon, fragApplies, beq_self_eq_true, Bool.not_true, Bool.false_or] at h1
      rw [looseMemP, ih, Bool.and_true, hsels]
      have hclg := hcl g hgG
      rw [hsels] at hclg
      exact slOwnR s q o G IH fr.sels (.object i') true i' kvs k' hr hclg (by omega) hsz hc h1
    | field a fid sub => simpa [looseMemP] using ih
    | inline t sub => simpa [looseMemP] using ih
    | typename => simpa [looseMemP] using ih

end SLR

section SLR2
variable (s : Schema) (q : Query) (o : Options) (G : List Nat)
  (hok : ∀ g ∈ G, fragBodyOk s q o g = true)
  (hcl : ∀ g ∈ G, ∀ g' ∈ spreadIdss (fragSels q g), g' ∈ G)
include hok hcl

theorem slR_succ {n : Nat} (IH : SLR s q o G n) : SLR s q o G (n + 1) := by
  intro k hk b i sels j hj ht hG hc
  cases j with
  | obj kvs =>
    rw [jsonSize_obj] at hj
    simp only [conformsV, Bool.and_eq_true] at hc
    have hcnt := countKey_le_one_of_nodup (nodup_iff'.mp hc.1.1)
    obtain ⟨k', rfl⟩ : ∃ k', k = k' + 1 := ⟨k - 1, by omega⟩
    by_cases hsp : ∃ g, sels = [Sel.spread g]
    · obtain ⟨g, rfl⟩ := hsp
      have hsok : spreadOk q (.object i) g = true := ht
      obtain ⟨fr, hfr, hon, _⟩ := spreadOk_parts hsok
      have hgG := hG g (by simp [spreadIdss, spreadIds])
      obtain ⟨fr', i', hfr', hon', _, hnt, hr⟩ := fragBodyOk_parts (hok g hgG)
      rw [hfr] at hfr'; cases hfr'
      have hsels : fragSels q g = fr.sels := by simp [fragSels, hfr]
      have hii : i' = i := by rw [hon] at hon'; cases hon'; rfl
      subst hii
      obtain ⟨k'', rfl⟩ : ∃ k'', k' = k'' + 1 := ⟨k' - 1, by omega⟩
      have hexp : expandR q (k'' + 1 + 1) (.spread g) = .inline fr.on (fr.sels.map (expandR q (k'' + 1))) := by
        simp [expandR, hfr]
      have h2 := hc.2
      simp only [List.map_cons, List.map_nil, hexp, confSelsV, confSelV, hon, fragApplies, beq_self_eq_true,
        Bool.not_true, Bool.false_or, Bool.and_true] at h2
      have hclg := hcl g hgG
      rw [hsels] at hclg
      have hown := slOwnR s q o G IH fr.sels (.object i') b i' kvs k'' hr hclg (by omega) (by omega) hcnt h2
      simp only [conformsLooseR, looseBodyP, hsels, looseStructP, hown,
        looseMemP_nospread s q o _ kvs fr.sels hnt, Bool.and_self]
    · have hnl : ∀ g, sels ≠ [Sel.spread g] := fun g hg => hsp ⟨g, hg⟩
      rw [rBody_not_lone hnl] at ht
      have hown := slOwnR s q o G IH sels (.object i) b i kvs k' ht hG (by omega) (by omega) hcnt hc.2
      have hmem := slMemR s q o G hok hcl IH i kvs (by omega) hcnt sels k' ht
        (fun g hg => hG g (mem_spreadIdss_spread hg)) (by omega) hc.2
      simp only [conformsLooseR, looseBodyP, looseStructP, hown, hmem, Bool.and_self]
  | null => simp [conformsV] at hc
  | bool _ => simp [conformsV] at hc
  | int _ => simp [conformsV] at hc
  | num _ => simp [conformsV] at hc
  | str _ => simp [conformsV] at hc
  | arr _ => simp [conformsV] at hc

/-- every response conforming to the specification (on the selection set unfolded to depth `≥ 2 n`) is accepted -/
theorem conformsR_loose : ∀ n, SLR s q o G n
  | 0 => by
    intro _ _ _ _ _ j hj
    have := jsonSize_pos j; omega
  | n + 1 => slR_succ s q o G hok hcl (conformsR_loose n)

end SLR2

/-- **`recfragment_accepts`.**  Every response that conforms to the operation with its spreads unfolded deeper than
    the payload is nested (any `k ≥ 2 * jsonSize j`) is accepted by the emitted `ResponseData`. -/
theorem recfragment_accepts (c : Ctx) (opIdx : Nat) (op : ROperation) (items : List Item)
    (hop : c.q.operations[opIdx]? = some op) (ht : RecFragmentOp c op = true) (hk : recKeysOk c op = true)
    (hgen : responseForQuery c opIdx = .ok items) (hok : moduleOk c items = true)
    (j : Json) (k : Nat) (hkj : 2 * jsonSize j ≤ k) (hc : conformsOpR c op k j = true) :
    ∃ v, Serde.de (moduleEnv c items) (.path "ResponseData") j = .ok v := by
  obtain ⟨_, _, hsels, hcl, hfok⟩ := recFragmentOp_parts ht
  obtain ⟨hcl1, hcl2⟩ := closedFrags_parts hcl
  have := recfragment_precise_iff c opIdx op items hop ht hk hgen hok j
  rw [conformsR_loose c.s c.q c.o _ hfok hcl2 (jsonSize j) k hkj false op.objectId op.sels j (Nat.le_refl _) hsels
    hcl1 hc] at this
  exact (okB_iff _).mp this

end E2E
end C01
end GqlVerif
