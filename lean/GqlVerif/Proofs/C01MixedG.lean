import GqlVerif.Proofs.C01MixedF
/-!
# C01 end to end (`MixedOp`, `MixedOp2`), part G: side conditions on `FragmentOp`; the side conditions are needed

* `rustOkSelD_of_V` / `mixedRustOk_of_fragRustOk` — on `FragmentOp` the side condition `mixedRustOk` follows from `fragRustOk`
  (the one of `fragment_roundtrip`); **`fragment_roundtrip` is the instance of `mixed_roundtrip` on `FragmentOp`**
  (`mixed_roundtrip_on_F'`: same hypotheses, and the result `normJson (canonSelM … j)` is `canonSelF … j`);
* `canonFieldD_eq_V`, `canonSelM_eq_F` — on `FragmentOp` the canonical form **is** `canonSelF` (syntactically, for every `j`);
* `mixed_keys_needed` — `mixedKeysOk` cannot be dropped: `dog { barks ...DogFields }` (`barks` selected directly and through
  the fragment) is in `MixedOp`, the module is generated and `moduleOk`, `mixedRustOk` holds, the response conforms — and
  `barks: true` comes back as `barks: null`;
* `mixed2_oi_needed` — `oiSels` (no aliased inline fragment in an object-level selection set) cannot be dropped from
  `MixedOp2`: for `dog { ... on Dog { ...DogFields } }` every other hypothesis holds and the selected `barks` is lost (the
  generator ignores inline fragments in object-level selection sets);
* `mixed_rust_needed` — `mixedRustOk` cannot be dropped: a fragment named like a sibling field.
-/
set_option linter.unusedSimpArgs false
set_option linter.unusedVariables false
set_option linter.unusedSectionVars false
set_option linter.unnecessarySimpa false

namespace GqlVerif
namespace C01M
open Serde Spec C13 C03 Codegen C01 C01.E2E

/-! ## `fragRustOk ⇒ mixedRustOk` on `FragmentOp` -/

theorem varRust_nil (c : Ctx) (vt : TypeId) : ∀ (sub : List Sel), (∀ g, Sel.spread g ∉ sub) →
    vt ∉ sub.filterMap inlineTy → varRust c vt sub = []
  | [], _, _ => rfl
  | x :: xs, hns, hvt => by
    have hns' : ∀ g, Sel.spread g ∉ xs := fun g hm => hns g (List.mem_cons_of_mem _ hm)
    cases x with
    | inline t isub =>
      have hne : (t == vt) = false := by
        cases h : t == vt with
        | false => rfl
        | true => exact absurd (by simp [inlineTy, beq_iff_eq.mp h]) hvt
      have hvt' : vt ∉ xs.filterMap inlineTy := fun hm => hvt (by simp [List.filterMap_cons, inlineTy, hm])
      simp [varRust, hne, varRust_nil c vt xs hns' hvt']
    | spread g => exact absurd List.mem_cons_self (hns g)
    | field a fid sub =>
      have hvt' : vt ∉ xs.filterMap inlineTy := by simpa [List.filterMap_cons, inlineTy] using hvt
      simp [varRust, varRust_nil c vt xs hns' hvt']
    | typename =>
      have hvt' : vt ∉ xs.filterMap inlineTy := by simpa [List.filterMap_cons, inlineTy] using hvt
      simp [varRust, varRust_nil c vt xs hns' hvt']

/-- with at most one inline fragment per type and no spread, the Rust names of a variant struct are those of its inline
    fragment -/
theorem varRust_nodup (c : Ctx) (vt : TypeId) : ∀ (sub : List Sel), (∀ g, Sel.spread g ∉ sub) →
    (sub.filterMap inlineTy).Nodup → (∀ t isub, Sel.inline t isub ∈ sub → (rustNames c isub).Nodup) →
    (varRust c vt sub).Nodup
  | [], _, _, _ => by simp [varRust]
  | x :: xs, hns, hnd, hin => by
    have hns' : ∀ g, Sel.spread g ∉ xs := fun g hm => hns g (List.mem_cons_of_mem _ hm)
    have hin' : ∀ t isub, Sel.inline t isub ∈ xs → (rustNames c isub).Nodup :=
      fun t isub hm => hin t isub (List.mem_cons_of_mem _ hm)
    cases x with
    | inline t isub =>
      simp only [List.filterMap_cons, inlineTy, List.nodup_cons] at hnd
      by_cases htv : t = vt
      · subst htv
        simp only [varRust, beq_self_eq_true, ↓reduceIte, varRust_nil c t xs hns' hnd.1, List.append_nil]
        exact hin t isub (by simp)
      · have hne : (t == vt) = false := by simpa using htv
        simp only [varRust, hne, Bool.false_eq_true, ↓reduceIte, List.nil_append]
        exact varRust_nodup c vt xs hns' hnd.2 hin'
    | spread g => exact absurd List.mem_cons_self (hns g)
    | field a fid sub =>
      have hnd' : (xs.filterMap inlineTy).Nodup := by simpa [List.filterMap_cons, inlineTy] using hnd
      simp only [varRust]
      exact varRust_nodup c vt xs hns' hnd' hin'
    | typename =>
      have hnd' : (xs.filterMap inlineTy).Nodup := by simpa [List.filterMap_cons, inlineTy] using hnd
      simp only [varRust]
      exact varRust_nodup c vt xs hns' hnd' hin'

theorem rustNames_inline_of_V {c : Ctx} : ∀ {sub : List Sel}, rustOkSelsV c sub = true →
    ∀ t isub, Sel.inline t isub ∈ sub → (rustNames c isub).Nodup := by
  intro sub h t isub hm
  have := rustOkSelsV_mem h _ hm
  rw [rustOkSelV, Bool.and_eq_true] at this
  exact nodup_iff'.mp this.1

mutual
  /-- for spread-free selections of `VariantOp`, the side condition of `VariantSpreadOp` follows from that of `VariantOp` -/
  theorem rustOkSelD_of_V (c : Ctx) : ∀ (x : Sel) (abs : Bool), vSel c.s c.o abs x = true → rustOkSelV c x = true →
      rustOkSelD c x = true
    | .field a fid sub, abs => by
      intro h hro
      have IH := rustOkSelsD_of_V c sub
      rw [rustOkSelV, Bool.and_eq_true] at hro
      rw [rustOkSelD, Bool.and_eq_true, Bool.and_eq_true]
      rw [vSel] at h
      cases hsf : c.s.fields[fid]? with
      | none => simp [hsf] at h
      | some sf =>
        simp only [hsf, Bool.and_eq_true] at h
        obtain ⟨_, hty⟩ := h
        rw [vtsOfField_of hsf, fieldTy_of hsf]
        have key : ∀ (ty : TypeId) abs', vSels c.s c.o abs' sub = true →
            EnumSpec.nodup (rustNamesB c ty sub ++ (if isAbsField c fid then ["on"] else [])) = true ∧
              rustOkSelsD c sub = true := by
          intro ty abs' hs
          rw [rustNamesB_noSpread c _ sub (no_spread_of_vSels hs)]
          exact ⟨hro.1, IH abs' hs hro.2⟩
        cases hid : sf.ty.id with
        | scalar k =>
          simp only [hid, Bool.and_eq_true, List.isEmpty_iff] at hty
          have := hty.2; subst this
          refine ⟨key _ false rfl, by simp [vtsOfTy]⟩
        | «enum» k =>
          simp only [hid, Bool.and_eq_true, List.isEmpty_iff] at hty
          have := hty.2; subst this
          refine ⟨key _ false rfl, by simp [vtsOfTy]⟩
        | object i =>
          simp only [hid, Bool.and_eq_true] at hty
          refine ⟨key _ false hty.1.2, by simp [vtsOfTy]⟩
        | interface k =>
          simp only [hid, Bool.and_eq_true] at hty
          refine ⟨key _ true hty.1.2, ?_⟩
          obtain ⟨_, _, _, _, _, _, hnd, _⟩ := absOk_parts hty.2
          simp only [List.all_eq_true]
          intro vt _
          exact nodup_iff'.mpr (varRust_nodup c vt sub (no_spread_of_vSels hty.1.2) hnd (rustNames_inline_of_V hro.2))
        | union k =>
          simp only [hid, Bool.and_eq_true] at hty
          refine ⟨key _ true hty.1.2, ?_⟩
          obtain ⟨_, _, _, _, _, _, hnd, _⟩ := absOk_parts hty.2
          simp only [List.all_eq_true]
          intro vt _
          exact nodup_iff'.mpr (varRust_nodup c vt sub (no_spread_of_vSels hty.1.2) hnd (rustNames_inline_of_V hro.2))
        | input k => simp [hid] at hty
    | .inline t isub, abs => by
      intro h hro
      simp only [vSel, Bool.and_eq_true] at h
      rw [rustOkSelV, Bool.and_eq_true] at hro
      rw [rustOkSelD]
      exact rustOkSelsD_of_V c isub false h.1.2 hro.2
    | .spread _, _ => by intro h; simp [vSel] at h
    | .typename, _ => by intro _ _; simp [rustOkSelD]
  theorem rustOkSelsD_of_V (c : Ctx) : ∀ (sels : List Sel) (abs : Bool), vSels c.s c.o abs sels = true →
      rustOkSelsV c sels = true → rustOkSelsD c sels = true
    | [], _ => by intro _ _; rfl
    | x :: xs, abs => by
      intro h hro
      obtain ⟨hx, hxs⟩ := vSels_cons h
      rw [rustOkSelsV, Bool.and_eq_true] at hro
      rw [rustOkSelsD, rustOkSelD_of_V c x abs hx hro.1, rustOkSelsD_of_V c xs abs hxs hro.2]; rfl
end

mutual
  theorem rustOkSelM_of_F (c : Ctx) : ∀ (x : Sel) (p : TypeId), fSel c.s c.q c.o p x = true → rustOkSelF c x = true →
      rustOkSelM c x = true
    | .field a fid sub, p => by
      intro h hro
      have IH := rustOkSelsM_of_F c sub
      cases hsf : c.s.fields[fid]? with
      | none => rw [fSel] at h; simp [hsf] at h
      | some sf =>
        by_cases hobj : ∃ i, sf.ty.id = .object i
        · obtain ⟨i, hid⟩ := hobj
          rw [fSel] at h
          simp only [hsf, hid, Bool.and_eq_true] at h
          have hb : fBody c.s c.q c.o (.object i) sub = true := h.2.2
          unfold rustOkSelF at hro
          unfold rustOkSelM
          simp only [hsf, hid, Option.map_some] at hro ⊢
          by_cases hsp : ∃ g, sub = [Sel.spread g]
          · obtain ⟨g, rfl⟩ := hsp; exact hro
          · have hnl : ∀ g, sub ≠ [Sel.spread g] := fun g hg => hsp ⟨g, hg⟩
            rw [fBody_not_lone hnl] at hb
            have h2 : (EnumSpec.nodup (rustNamesF c sub) && rustOkSelsF c sub) = true := by
              revert hro
              split
              · exact fun _ => absurd rfl (hnl _)
              · exact id
            rw [Bool.and_eq_true] at h2
            split
            · exact absurd rfl (hnl _)
            · rw [h2.1, IH _ hb h2.2]; rfl
        · have hno : ∀ i, sf.ty.id ≠ .object i := fun i h => hobj ⟨i, h⟩
          have hv := vSel_of_fSel_nonobj h hsf hno
          have hroV : rustOkSelV c (.field a fid sub) = true := by
            unfold rustOkSelF at hro
            simp only [hsf, Option.map_some] at hro
            cases hid : sf.ty.id with
            | object i => exact absurd hid (hno i)
            | scalar k => simpa only [hid] using hro
            | «enum» k => simpa only [hid] using hro
            | interface k => simpa only [hid] using hro
            | union k => simpa only [hid] using hro
            | input k => simpa only [hid] using hro
          have hD := rustOkSelD_of_V c _ false hv hroV
          unfold rustOkSelM
          simp only [hsf, Option.map_some]
          cases hid : sf.ty.id with
          | object i => exact absurd hid (hno i)
          | scalar k => exact hD
          | «enum» k => exact hD
          | interface k => exact hD
          | union k => exact hD
          | input k => exact hD
    | .spread g, _ => by intro _ h; simpa [rustOkSelF, rustOkSelM] using h
    | .inline _ _, _ => by intro h; simp [fSel] at h
    | .typename, _ => by intro _ _; simp [rustOkSelM]
  theorem rustOkSelsM_of_F (c : Ctx) : ∀ (sels : List Sel) (p : TypeId), fSels c.s c.q c.o p sels = true →
      rustOkSelsF c sels = true → rustOkSelsM c sels = true
    | [], _ => by intro _ _; rfl
    | x :: xs, p => by
      intro h hro
      obtain ⟨hx, hxs⟩ := fSels_cons h
      rw [rustOkSelsF, Bool.and_eq_true] at hro
      rw [rustOkSelsM, rustOkSelM_of_F c x p hx hro.1, rustOkSelsM_of_F c xs p hxs hro.2]; rfl
end

/-- on `FragmentOp` the side condition `mixedRustOk` follows from `fragRustOk` (the one of `fragment_roundtrip`) -/
theorem mixedRustOk_of_fragRustOk (c : Ctx) (op : ROperation) (h : FragmentOp c op = true)
    (hr : fragRustOk c op = true) : mixedRustOk c op = true := by
  obtain ⟨_, _, hb⟩ := fragmentOp_parts h
  simp only [fragRustOk, Bool.and_eq_true] at hr
  simp only [mixedRustOk, Bool.and_eq_true]
  refine ⟨?_, hr.2⟩
  by_cases hsp : ∃ g, op.sels = [Sel.spread g]
  · obtain ⟨g, hg⟩ := hsp
    rw [hg] at hr ⊢
    simpa [rustOkSelsF, rustOkSelF, rustOkSelsM, rustOkSelM] using hr.1
  · have hnl : ∀ g, op.sels ≠ [Sel.spread g] := fun g hg => hsp ⟨g, hg⟩
    rw [fBody_not_lone hnl] at hb
    exact rustOkSelsM_of_F c op.sels _ hb hr.1

/-- **`fragment_roundtrip` is the instance of `mixed_roundtrip` on `FragmentOp`**: the hypotheses of `fragment_roundtrip`
    give those of `mixed_roundtrip`, the specification is the same (`conformsOpM_eq_F`), and the result is the same
    canonical form -/
theorem mixed_roundtrip_on_F' (c : Ctx) (opIdx : Nat) (op : ROperation) (items : List Item)
    (hop : c.q.operations[opIdx]? = some op) (ht : FragmentOp c op = true) (hk : fragKeysOk c op = true)
    (hr : fragRustOk c op = true)
    (hgen : responseForQuery c opIdx = .ok items) (hok : moduleOk c items = true)
    (j : Json) (hc : conformsOpF c op j = true) :
    Serde.roundtrip (moduleEnv c items) (.path "ResponseData") j =
      .ok (normJson (canonSelM c.s c.q c.o.skipNone op.sels j)) ∧
    normJson (canonSelM c.s c.q c.o.skipNone op.sels j) = canonSelF c.s c.q c.o.skipNone op.sels j :=
  ⟨mixed_roundtrip c opIdx op items hop (mixedOp_of_fragmentOp c op ht) (mixedKeysOk_of_fragKeysOk c op hk)
      (mixedRustOk_of_fragRustOk c op ht hr) hgen hok j hc,
    mixed_roundtrip_on_F c opIdx op items hop ht hk hr (mixedRustOk_of_fragRustOk c op ht hr) hgen hok j hc⟩

/-! ## `canonSelM = canonSelF` on `FragmentOp` (syntactically) -/

theorem loneG_noSpreads {sub : List Sel} (h : noSpreads sub = true) : loneG sub = none := by
  apply loneG_none_of_ne
  intro g hg
  subst hg
  simp [noSpreads, noSpread] at h

mutual
  /-- on spread-free selections the canonical form of `VariantSpreadOp` is the one of `VariantOp` -/
  theorem canonFieldD_eq_V (s : Schema) (q : Query) (skip : Bool) : ∀ (x : Sel), noSpread x = true →
      (∀ v, canonFieldD s q skip x v = canonFieldV s skip x v) ∧
      (∀ t isub, x = .inline t isub → ∀ kvs, canonEntriesD s q skip isub kvs = canonEntriesV s skip isub kvs)
    | .field a fid sub => by
      intro h
      rw [noSpread] at h
      have IH := canonEntriesD_eq_V s q skip sub h
      refine ⟨fun v => ?_, fun t isub he => by cases he⟩
      rw [canonFieldD, canonFieldV]
      cases hsf : s.fields[fid]? with
      | none => rfl
      | some sf =>
        simp only []
        cases hid : sf.ty.id with
        | scalar k => rfl
        | «enum» k => rfl
        | input k => rfl
        | object i =>
          simp only []
          have hE : ∀ kvs, canonEntriesD s q skip sub kvs = canonEntriesV s skip sub kvs := fun kvs => (IH kvs).1
          simp only [hE]
          congr 1
        | interface k =>
          simp only [loneG_noSpreads h]
          have hE : ∀ rest kvs, canonEntriesBD s q skip (.interface k) rest sub kvs = canonEntriesV s skip sub kvs :=
            fun rest kvs => (IH kvs).2.1 _ rest
          have hV : ∀ n kvs, canonVarD s q skip n sub kvs = canonInlV s skip n sub kvs := fun n kvs => (IH kvs).2.2 n
          simp only [hE, hV]
          congr 1
        | union k =>
          simp only [loneG_noSpreads h]
          have hE : ∀ rest kvs, canonEntriesBD s q skip (.union k) rest sub kvs = canonEntriesV s skip sub kvs :=
            fun rest kvs => (IH kvs).2.1 _ rest
          have hV : ∀ n kvs, canonVarD s q skip n sub kvs = canonInlV s skip n sub kvs := fun n kvs => (IH kvs).2.2 n
          simp only [hE, hV]
          congr 1
    | .inline t isub => by
      intro h
      rw [noSpread] at h
      refine ⟨fun v => by simp [canonFieldD, canonFieldV], fun t' isub' he kvs => ?_⟩
      cases he
      exact (canonEntriesD_eq_V s q skip isub h kvs).1
    | .spread _ => by intro h; simp [noSpread] at h
    | .typename => by
      intro _
      exact ⟨fun v => by simp [canonFieldD, canonFieldV], fun t isub he => by cases he⟩
  theorem canonEntriesD_eq_V (s : Schema) (q : Query) (skip : Bool) : ∀ (sels : List Sel), noSpreads sels = true →
      ∀ kvs, canonEntriesD s q skip sels kvs = canonEntriesV s skip sels kvs ∧
        (∀ ty rest, canonEntriesBD s q skip ty rest sels kvs = canonEntriesV s skip sels kvs) ∧
        (∀ n, canonVarD s q skip n sels kvs = canonInlV s skip n sels kvs)
    | [] => by intro _ kvs; simp [canonEntriesD, canonEntriesV, canonEntriesBD, canonVarD, canonInlV]
    | x :: xs => by
      intro h kvs
      rw [noSpreads, Bool.and_eq_true] at h
      obtain ⟨h1, h2⟩ := canonFieldD_eq_V s q skip x h.1
      obtain ⟨i1, i2, i3⟩ := canonEntriesD_eq_V s q skip xs h.2 kvs
      cases x with
      | field a fid sub =>
        refine ⟨?_, fun ty rest => ?_, fun n => ?_⟩
        · rw [canonEntriesD.eq_2, canonEntriesV.eq_2, i1]
          cases hsf : s.fields[fid]? with
          | none => rfl
          | some sf =>
            simp only []
            cases Json.lookup (a.getD sf.name) kvs with
            | none => rfl
            | some v => simp only [h1 v]
        · rw [canonEntriesBD.eq_2, canonEntriesV.eq_2, i2 ty rest]
          cases hsf : s.fields[fid]? with
          | none => rfl
          | some sf =>
            simp only []
            cases Json.lookup (a.getD sf.name) kvs with
            | none => rfl
            | some v => simp only [h1 v]
        · simpa [canonVarD, canonInlV] using i3 n
      | inline t isub =>
        refine ⟨by simpa [canonEntriesD, canonEntriesV] using i1,
          fun ty rest => by simpa [canonEntriesBD, canonEntriesV] using i2 ty rest, fun n => ?_⟩
        rw [canonVarD.eq_2, canonInlV.eq_2, i3 n, h2 t isub rfl kvs]
      | spread g => simp [noSpread] at h
      | typename =>
        exact ⟨by simpa [canonEntriesD, canonEntriesV] using i1,
          fun ty rest => by simpa [canonEntriesBD, canonEntriesV] using i2 ty rest,
          fun n => by simpa [canonVarD, canonInlV] using i3 n⟩
end

mutual
  theorem canonFieldM_eq_F (s : Schema) (q : Query) (o : Options) (skip : Bool) : ∀ (x : Sel) (p : TypeId),
      fSel s q o p x = true → ∀ v, canonFieldM s q skip x v = canonFieldF s q skip x v
    | .field a fid sub, p => by
      intro h v
      have IH := canonEntriesM_eq_F s q o skip sub
      cases hsf : s.fields[fid]? with
      | none => rw [fSel] at h; simp [hsf] at h
      | some sf =>
        by_cases hobj : ∃ i, sf.ty.id = .object i
        · obtain ⟨i, hid⟩ := hobj
          rw [fSel] at h
          simp only [hsf, hid, Bool.and_eq_true] at h
          have hb : fBody s q o (.object i) sub = true := h.2.2
          rw [canonFieldM, canonFieldF]
          simp only [hsf, hid]
          rw [canonLambdaM, canonLambdaF]
          congr 1
          funext j
          by_cases hsp : ∃ g, sub = [Sel.spread g]
          · obtain ⟨g, rfl⟩ := hsp; rfl
          · have hnl : ∀ g, sub ≠ [Sel.spread g] := fun g hg => hsp ⟨g, hg⟩
            rw [fBody_not_lone hnl] at hb
            rw [canonSelM_not_lone hnl, canonSelF_not_lone hnl]
            cases j with
            | obj kvs => simp only [IH _ hb kvs]
            | null => rfl
            | bool _ => rfl
            | int _ => rfl
            | num _ => rfl
            | str _ => rfl
            | arr _ => rfl
        · have hno : ∀ i, sf.ty.id ≠ .object i := fun i h => hobj ⟨i, h⟩
          have hv := vSel_of_fSel_nonobj h hsf hno
          rw [canonFieldM_nonobj hsf hno, (canonFieldD_eq_V s q skip _ (noSpread_of_vSel s o _ false hv)).1 v]
          rw [canonFieldF]
          simp only [hsf]
    | .spread _, _ => by intro _ v; simp [canonFieldM, canonFieldF]
    | .inline _ _, _ => by intro h; simp [fSel] at h
    | .typename, _ => by intro _ v; simp [canonFieldM, canonFieldF]
  theorem canonEntriesM_eq_F (s : Schema) (q : Query) (o : Options) (skip : Bool) : ∀ (sels : List Sel) (p : TypeId),
      fSels s q o p sels = true → ∀ kvs, canonEntriesM s q skip sels kvs = canonEntriesF s q skip sels kvs
    | [], _ => by intro _ _; simp [canonEntriesM, canonEntriesF]
    | x :: xs, p => by
      intro h kvs
      obtain ⟨hx, hxs⟩ := fSels_cons h
      have ih := canonEntriesM_eq_F s q o skip xs p hxs kvs
      cases x with
      | field a fid sub =>
        rw [canonEntriesM.eq_2, canonEntriesF.eq_2, ih]
        cases hsf : s.fields[fid]? with
        | none => rfl
        | some sf =>
          simp only []
          cases Json.lookup (a.getD sf.name) kvs with
          | none => rfl
          | some v => simp only [canonFieldM_eq_F s q o skip _ p hx v]
      | spread g => rw [canonEntriesM.eq_3, canonEntriesF.eq_3, ih]
      | inline t sub => simp [fSel] at hx
      | typename => simpa [canonEntriesM, canonEntriesF] using ih
end

/-- **on `FragmentOp` the canonical form is `canonSelF`** (the same function, for every `j`) -/
theorem canonSelM_eq_F (c : Ctx) (op : ROperation) (h : FragmentOp c op = true) (skip : Bool) (j : Json) :
    canonSelM c.s c.q skip op.sels j = canonSelF c.s c.q skip op.sels j := by
  obtain ⟨_, _, hb⟩ := fragmentOp_parts h
  by_cases hsp : ∃ g, op.sels = [Sel.spread g]
  · obtain ⟨g, hg⟩ := hsp; rw [hg]; rfl
  · have hnl : ∀ g, op.sels ≠ [Sel.spread g] := fun g hg => hsp ⟨g, hg⟩
    rw [fBody_not_lone hnl] at hb
    rw [canonSelM_not_lone hnl, canonSelF_not_lone hnl]
    cases j with
    | obj kvs => simp only [canonEntriesM_eq_F c.s c.q c.o skip op.sels _ hb kvs]
    | null => rfl
    | bool _ => rfl
    | int _ => rfl
    | num _ => rfl
    | str _ => rfl
    | arr _ => rfl

/-! ## the side conditions are needed (generated modules on `mxSchema`) -/

/-- `dog { barks ...DogFields }`: `barks` is selected directly and through the fragment -/
def kDog : List Sel := [.field none 3 [], .spread 0]

def kJson : Json :=
  .obj [("dog", .obj [("barks", .bool true)]), ("animal", .obj [("__typename", .str "Cat"), ("name", .str "Tom")])]

set_option maxRecDepth 8000 in
/-- **`mixedKeysOk` is needed**: the operation is in `MixedOp`, the module is generated and `moduleOk`, `mixedRustOk` holds,
    the response conforms; only `mixedKeysOk` fails — and the round trip turns `barks: true` into `barks: null` (the own
    field consumed the key before the flattened member `DogFields` saw the buffer; known finding `C01-overlap`) -/
theorem mixed_keys_needed :
    MixedOp (mxCtx kDog mxAnimal) (mxOp kDog mxAnimal) = true ∧
    mixedKeysOk (mxCtx kDog mxAnimal) (mxOp kDog mxAnimal) = false ∧
    mixedRustOk (mxCtx kDog mxAnimal) (mxOp kDog mxAnimal) = true ∧
    isOkO (responseForQuery (mxCtx kDog mxAnimal) 0) = true ∧
    moduleOk (mxCtx kDog mxAnimal) (okOr (responseForQuery (mxCtx kDog mxAnimal) 0)) = true ∧
    conformsOpM (mxCtx kDog mxAnimal) (mxOp kDog mxAnimal) kJson = true ∧
    (match Serde.roundtrip (moduleEnv (mxCtx kDog mxAnimal) (okOr (responseForQuery (mxCtx kDog mxAnimal) 0)))
        (.path "ResponseData") kJson with
     | .ok (.obj [("dog", .obj [("barks", .null)]), ("animal", .obj [("name", .str "Tom"), ("__typename", .str "Cat")])]) =>
       true
     | _ => false) = true := by
  refine ⟨by decide +kernel, by decide +kernel, by decide +kernel, by decide +kernel, by decide +kernel, ?_,
    by decide +kernel⟩
  simp only [kDog, mxAnimal, kJson]; confM_eval

/-- `dog { ... on Dog { ...DogFields } }`: an aliased inline fragment in an object-level selection set -/
def oDog : List Sel := [.inline (.object 1) [.spread 0]]

set_option maxRecDepth 8000 in
/-- **`oiSels` is needed in `MixedOp2`**: every other part of the class and every other hypothesis of `mixed2_roundtrip`
    holds, the response conforms (as written: `barks` is selected) — and `barks` is lost: the generator ignores inline
    fragments in object-level selection sets, `Qdog` is a struct without fields -/
theorem mixed2_oi_needed :
    aliasWfSels (mxCtx oDog mxAnimal).q (mxOp oDog mxAnimal).sels = true ∧
    aliasOkSels (mxCtx oDog mxAnimal) (mxOp oDog mxAnimal).sels = true ∧
    noAliasHere (mxOp oDog mxAnimal).sels = true ∧
    MixedOp (mxCtx oDog mxAnimal) (normOp (mxOp oDog mxAnimal)) = true ∧
    oiSels mxSchema (mxOp oDog mxAnimal).sels = false ∧
    mixedKeysOk (mxCtx oDog mxAnimal) (normOp (mxOp oDog mxAnimal)) = true ∧
    mixedRustOk (mxCtx oDog mxAnimal) (normOp (mxOp oDog mxAnimal)) = true ∧
    isOkO (responseForQuery (mxCtx oDog mxAnimal) 0) = true ∧
    moduleOk (mxCtx oDog mxAnimal) (okOr (responseForQuery (mxCtx oDog mxAnimal) 0)) = true ∧
    conformsOpM (mxCtx oDog mxAnimal) (mxOp oDog mxAnimal) kJson = true ∧
    (match Serde.roundtrip (moduleEnv (mxCtx oDog mxAnimal) (okOr (responseForQuery (mxCtx oDog mxAnimal) 0)))
        (.path "ResponseData") kJson with
     | .ok (.obj [("dog", .obj []), ("animal", .obj [("name", .str "Tom"), ("__typename", .str "Cat")])]) => true
     | _ => false) = true := by
  refine ⟨by decide +kernel, by decide +kernel, by decide +kernel, by decide +kernel, by decide +kernel, by decide +kernel,
    by decide +kernel, by decide +kernel, by decide +kernel, ?_, by decide +kernel⟩
  simp only [oDog, mxAnimal, kJson]; confM_eval

/-! ### `mixedRustOk`: `fragment name on Dog { barks }`, `query Q { dog { name ...name } animal { __typename } }` -/

def rnOp : ROperation :=
  { name := "Q", kind := .query, objectId := 0,
    sels := [.field none 0 [.field none 2 [], .spread 0], .field none 1 [.typename]] }

def rnCtx : Ctx :=
  { s := mxSchema
    q := { operations := [rnOp], fragments := [{ name := "name", on := .object 1, sels := [.field none 3 []] }] }
    o := {}, cs := ⟨id, id⟩ }

def rnJson : Json :=
  .obj [("dog", .obj [("name", .str "Rex"), ("barks", .bool true)]), ("animal", .obj [("__typename", .str "Cat")])]

set_option maxRecDepth 8000 in
/-- **`mixedRustOk` is needed**: the struct `Qdog { name: String, name: name (flatten) }` (which does not compile as Rust)
    is emitted by a module that is `moduleOk` for an operation of `MixedOp` with `mixedKeysOk`; the conforming response is
    accepted (`mixed_accepts`) but cannot be written back in the model (the value found under the Rust name `name` for the
    flattened member is the own field's: "can only flatten structs and maps") -/
theorem mixed_rust_needed :
    MixedOp rnCtx rnOp = true ∧ mixedKeysOk rnCtx rnOp = true ∧ mixedRustOk rnCtx rnOp = false ∧
    isOkO (responseForQuery rnCtx 0) = true ∧ moduleOk rnCtx (okOr (responseForQuery rnCtx 0)) = true ∧
    conformsOpM rnCtx rnOp rnJson = true ∧
    okB (Serde.roundtrip (moduleEnv rnCtx (okOr (responseForQuery rnCtx 0))) (.path "ResponseData") rnJson) = false := by
  refine ⟨by decide +kernel, by decide +kernel, by decide +kernel, by decide +kernel, by decide +kernel, ?_,
    by decide +kernel⟩
  simp only [rnJson]
  simp [conformsOpM, rnCtx, rnOp, expandSels, expandSel, conformsV, confSelsV, confSelV, keysSelsV, keysSelV,
    fragApplies, rtName, mxSchema, Json.lookup, accepts, acceptsNN, gtyOf, scalarOk, floatOk, stringOk, boolOk,
    Json.isNull, EnumSpec.nodup, List.range, List.range.loop, conformsAt, Schema.implementors, List.zipIdx]

end C01M
end GqlVerif
