import GqlVerif.Proofs.C01NestedC
import GqlVerif.Proofs.AcyclicModulesClasses
/-!
# C01 / C03 end to end (`NestedOp`), part D: the rank recursion; `ResponseData` accepts exactly `conformsLooseN`

Part C is parametric in "what a spread fragment accepts" (`whole`), "which keys it reads" (`KN`) and "what is known of the
environment" (`fenv`).  Here they are defined by recursion on the rank of `fragOkN`, a fragment keeping the value of the
first rank at which it is in the class:

* `wholeN c r g b j` — what the struct of the fragment `g` accepts: rank `0` `conformsLooseV` of its (spread-free) body, a
  fragment new at rank `r + 1` `conformsLooseN (wholeN c r)` of its body — **own fields, and every fragment spread in the
  body accepts the whole object**;
* `KNn c r name` — the response keys the struct named `name` reads at its own object level, through its flattened members;
* `FragEnvN e c r g` — the environment: the fragment's name resolves to the struct of `nested_fragment_shape`, …;
* `fragSideN c r g` — decidable side condition: keys disjoint between a spread and its siblings inside the fragment body,
  recursively;
* **`fragAccN`** — by induction on the rank: `FragAcc e c (wholeN c r) (KNn c r) g` for every fragment of rank `r`
  (hypothesis: fragment names pairwise distinct, `fragNamesOk`);
* `nestedKeysOk`, `TopEnvN`, **`top_accepts_iffN`** — in an environment that is `EnvOK` (fuel independence, `SerdeFuel`):
  `okB (Serde.de e ResponseData j) = conformsLooseN (wholeN c R) … false op.sels j`, `R = c.q.fragments.length`.
-/
set_option linter.unusedSimpArgs false
set_option linter.unusedVariables false
set_option linter.unusedSectionVars false
set_option linter.unnecessarySimpa false

namespace GqlVerif
namespace C01N
open Serde Spec C13 C03 Codegen C01 C01.E2E C01M

/-! ## entries with other keys do not matter -/

theorem keep_notin (L : List String) {k : String} (hk : k ∉ L) (v : Json) :
    (fun kv : String × Json => !L.contains kv.1) (k, v) = true := by simp [hk]

theorem looseSelsV_filter (s : Schema) (o : Options) (b : Bool) (L : List String) (kvs : List (String × Json)) :
    ∀ (sels : List Sel), (∀ k ∈ fieldKeys s sels, k ∉ L) →
    looseSelsV s o b sels (kvs.filter (fun kv => !L.contains kv.1)) = looseSelsV s o b sels kvs
  | [], _ => by simp [looseSelsV]
  | x :: xs, h => by
    have ih := looseSelsV_filter s o b L kvs xs (fun k hk => h k (by
      simp only [fieldKeys, List.filterMap_cons] at hk ⊢
      cases fieldKey s x <;> simp [hk]))
    cases x with
    | field a fid sub =>
      rw [looseSelsV.eq_2, looseSelsV.eq_2, ih]
      cases hsf : s.fields[fid]? with
      | none => rfl
      | some sf =>
        have hk : a.getD sf.name ∉ L := h _ (by simp [fieldKeys, fieldKey, hsf])
        simp only [countKey_filter (fun kv => !L.contains kv.1) (a.getD sf.name) (keep_notin L hk),
          lookup_filter (fun kv => !L.contains kv.1) (a.getD sf.name) (keep_notin L hk)]
    | spread g => simpa [looseSelsV] using ih
    | inline t sub => simpa [looseSelsV] using ih
    | typename => simpa [looseSelsV] using ih

theorem looseOwnN_filter (whole : Nat → Bool → Json → Bool) (s : Schema) (q : Query) (o : Options) (b : Bool)
    (L : List String) (kvs : List (String × Json)) :
    ∀ (sels : List Sel), (∀ k ∈ fieldKeys s sels, k ∉ L) →
    looseOwnN whole s q o b sels (kvs.filter (fun kv => !L.contains kv.1)) = looseOwnN whole s q o b sels kvs
  | [], _ => by simp [looseOwnN]
  | x :: xs, h => by
    have ih := looseOwnN_filter whole s q o b L kvs xs (fun k hk => h k (by
      simp only [fieldKeys, List.filterMap_cons] at hk ⊢
      cases fieldKey s x <;> simp [hk]))
    cases x with
    | field a fid sub =>
      rw [looseOwnN.eq_2, looseOwnN.eq_2, ih]
      cases hsf : s.fields[fid]? with
      | none => rfl
      | some sf =>
        have hk : a.getD sf.name ∉ L := h _ (by simp [fieldKeys, fieldKey, hsf])
        simp only [countKey_filter (fun kv => !L.contains kv.1) (a.getD sf.name) (keep_notin L hk),
          lookup_filter (fun kv => !L.contains kv.1) (a.getD sf.name) (keep_notin L hk)]
    | spread g => simpa [looseOwnN] using ih
    | inline t sub => simpa [looseOwnN] using ih
    | typename => simpa [looseOwnN] using ih

theorem looseMemN_filter (whole : Nat → Bool → Json → Bool) (L : List String) (kvs : List (String × Json)) :
    ∀ (sels : List Sel), (∀ g, Sel.spread g ∈ sels →
      whole g true (.obj (kvs.filter (fun kv => !L.contains kv.1))) = whole g true (.obj kvs)) →
    looseMemN whole sels (kvs.filter (fun kv => !L.contains kv.1)) = looseMemN whole sels kvs
  | [], _ => rfl
  | x :: xs, h => by
    have ih := looseMemN_filter whole L kvs xs (fun g hg => h g (List.mem_cons_of_mem _ hg))
    cases x with
    | spread g => rw [looseMemN, looseMemN, ih, h g (by simp)]
    | field a fid sub => simpa [looseMemN] using ih
    | inline t sub => simpa [looseMemN] using ih
    | typename => simpa [looseMemN] using ih

theorem fieldKeys_sub_expKeysN (KN : String → List String) (c : Ctx) : ∀ (sels : List Sel),
    ∀ k ∈ fieldKeys c.s sels, k ∈ expKeysN KN c sels
  | [], k, hk => by simp [fieldKeys] at hk
  | x :: xs, k, hk => by
    have ih := fieldKeys_sub_expKeysN KN c xs
    cases x with
    | field a fid sub =>
      simp only [fieldKeys, List.filterMap_cons, fieldKey] at hk
      rw [expKeysN]
      cases hsf : c.s.fields[fid]? with
      | none => simp only [hsf, Option.map_none] at hk; simpa using ih k hk
      | some sf =>
        simp only [hsf, Option.map_some, List.mem_cons] at hk
        rcases hk with rfl | hk
        · simp
        · exact List.mem_append_right _ (ih k hk)
    | spread g =>
      rw [expKeysN]
      exact List.mem_append_right _ (ih k (by simpa [fieldKeys, List.filterMap_cons, fieldKey] using hk))
    | inline t sub =>
      have : expKeysN KN c (.inline t sub :: xs) = expKeysN KN c xs := by simp [expKeysN]
      rw [this]
      exact ih k (by simpa [fieldKeys, List.filterMap_cons, fieldKey] using hk)
    | typename =>
      have : expKeysN KN c (.typename :: xs) = expKeysN KN c xs := by simp [expKeysN]
      rw [this]
      exact ih k (by simpa [fieldKeys, List.filterMap_cons, fieldKey] using hk)

theorem spreadKeys_sub_expKeysN (KN : String → List String) (c : Ctx) : ∀ (sels : List Sel) (g : Nat),
    Sel.spread g ∈ sels → ∀ k ∈ KN (fragName c g), k ∈ expKeysN KN c sels
  | [], g, hg, _, _ => by simp at hg
  | x :: xs, g, hg, k, hk => by
    have ih := spreadKeys_sub_expKeysN KN c xs g
    rcases List.mem_cons.mp hg with rfl | hg'
    · rw [expKeysN]; exact List.mem_append_left _ hk
    · cases x with
      | field a fid sub => rw [expKeysN]; exact List.mem_append_right _ (ih hg' k hk)
      | spread g' => rw [expKeysN]; exact List.mem_append_right _ (ih hg' k hk)
      | inline t sub =>
        have : expKeysN KN c (.inline t sub :: xs) = expKeysN KN c xs := by simp [expKeysN]
        rw [this]; exact ih hg' k hk
      | typename =>
        have : expKeysN KN c (.typename :: xs) = expKeysN KN c xs := by simp [expKeysN]
        rw [this]; exact ih hg' k hk

/-! ## fragments by name -/

def idOfAux (name : String) : List RFragment → Nat
  | [] => 0
  | f :: fs => if f.name == name then 0 else idOfAux name fs + 1

/-- the (first) fragment named `name` -/
def idOf (q : Query) (name : String) : Nat := idOfAux name q.fragments

theorem idOfAux_spec : ∀ (fs : List RFragment) (g : Nat) (f : RFragment), (fs.map (·.name)).Nodup → fs[g]? = some f →
    idOfAux f.name fs = g
  | [], g, f, _, h => by simp at h
  | f0 :: fs, 0, f, _, h => by
    simp only [List.getElem?_cons_zero, Option.some.injEq] at h
    subst h; simp [idOfAux]
  | f0 :: fs, g + 1, f, hnd, h => by
    simp only [List.getElem?_cons_succ] at h
    simp only [List.map_cons, List.nodup_cons] at hnd
    have hne : (f0.name == f.name) = false := by
      have : f.name ∈ fs.map (·.name) := List.mem_map_of_mem (List.mem_of_getElem? h)
      cases hq : f0.name == f.name
      · rfl
      · exact absurd ((beq_iff_eq.mp hq) ▸ this) hnd.1
    simp only [idOfAux, hne, Bool.false_eq_true, ↓reduceIte, idOfAux_spec fs g f hnd.2 h]

/-- fragment names are pairwise distinct (decidable; GraphQL §5.5.1.1) -/
def fragNamesOk (c : Ctx) : Bool := EnumSpec.nodup (c.q.fragments.map (·.name))

theorem idOf_name {c : Ctx} (hnd : fragNamesOk c = true) {g : Nat} {f : RFragment} (hf : c.q.fragments[g]? = some f) :
    idOf c.q f.name = g :=
  idOfAux_spec _ g f (nodup_iff'.mp hnd) hf

def fragOn (q : Query) (g : Nat) : TypeId :=
  match q.fragments[g]? with
  | some f => f.on
  | none => .input 0

/-! ## the rank recursion -/

/-- **what the struct of the fragment `g` accepts** -/
def wholeN (c : Ctx) : Nat → Nat → Bool → Json → Bool
  | 0, g, b, j => conformsLooseV c.s c.o b (fragSels c.q g) j
  | r + 1, g, b, j =>
    if fragOkN c.s c.q c.o r (fragOn c.q g) g then wholeN c r g b j
    else conformsLooseN (wholeN c r) c.s c.q c.o b (fragSels c.q g) j

/-- the response keys the struct named `name` reads at its own object level (own keys and those of its flattened members) -/
def KNn (c : Ctx) : Nat → String → List String
  | 0, name => fieldKeys c.s (fragSels c.q (idOf c.q name))
  | r + 1, name =>
    if fragOkN c.s c.q c.o r (fragOn c.q (idOf c.q name)) (idOf c.q name) then KNn c r name
    else expKeysN (KNn c r) c (fragSels c.q (idOf c.q name))

/-- the environment of the fragment `g`: its name resolves to the struct of `nested_fragment_shape`, and so on below -/
def FragEnvN (e : Env) (c : Ctx) : Nat → Nat → Prop
  | 0, g => FragEnv e c g
  | r + 1, g =>
    if fragOkN c.s c.q c.o r (fragOn c.q g) g = true then FragEnvN e c r g
    else match c.q.fragments[g]? with
      | some f => StructEnv e f.name (fieldsOfF c (c.cs.camel f.name) f.sels) ∧
          envSelsN (FragEnvN e c r) e c (c.cs.camel f.name) f.sels
      | none => True

mutual
  /-- the spreads at object positions of a selection set (not through fragment bodies) -/
  def objSpreads (s : Schema) : Sel → List Nat
    | .field _ fid sub =>
      match s.fields[fid]? with
      | none => []
      | some sf =>
        match sf.ty.id with
        | .object _ => objSpreadss s sub
        | _ => []
    | .spread g => [g]
    | _ => []
  def objSpreadss (s : Schema) : List Sel → List Nat
    | [] => []
    | x :: xs => objSpreads s x ++ objSpreadss s xs
end

/-- **keys disjoint between a spread and its siblings, inside the body of the fragment `g`** and of the fragments spread
    there (decidable) -/
def fragSideN (c : Ctx) : Nat → Nat → Bool
  | 0, _ => true
  | r + 1, g =>
    if fragOkN c.s c.q c.o r (fragOn c.q g) g then fragSideN c r g
    else keysOksN (KNn c r) c (fragSels c.q g) && EnumSpec.nodup (expKeysN (KNn c r) c (fragSels c.q g)) &&
      (objSpreadss c.s (fragSels c.q g)).all (fragSideN c r)

mutual
  theorem envSelN_and {fenv : Nat → Prop} {P : Nat → Prop} {e : Env} {c : Ctx} : ∀ (x : Sel) (pfx : String),
      envSelN fenv e c pfx x → (∀ g ∈ objSpreads c.s x, P g) → envSelN (fun g => fenv g ∧ P g) e c pfx x
    | .field a fid sub, pfx => by
      intro h hP
      have IH := @envSelsN_and fenv P e c sub
      rw [envSelN] at h ⊢
      rw [objSpreads] at hP
      cases hsf : c.s.fields[fid]? with
      | none => trivial
      | some sf =>
        simp only [hsf] at h hP ⊢
        cases hid : sf.ty.id with
        | object i =>
          simp only [hid] at h hP ⊢
          by_cases hsp : ∃ g, sub = [Sel.spread g]
          · obtain ⟨g, rfl⟩ := hsp
            simp only at h ⊢
            exact ⟨h.1, h.2, hP g (by simp [objSpreadss, objSpreads])⟩
          · have hnl : ∀ g, sub ≠ [Sel.spread g] := fun g hg => hsp ⟨g, hg⟩
            have h' : StructEnv e (pfx ++ c.cs.camel (a.getD sf.name))
                (fieldsOfF c (pfx ++ c.cs.camel (a.getD sf.name)) sub) ∧
                envSelsN fenv e c (pfx ++ c.cs.camel (a.getD sf.name)) sub := by
              revert h; split
              · exact fun _ => absurd rfl (hnl _)
              · exact id
            split
            · exact absurd rfl (hnl _)
            · exact ⟨h'.1, IH _ h'.2 hP⟩
        | scalar k => simpa only [hid] using h
        | «enum» k => simpa only [hid] using h
        | interface k => simpa only [hid] using h
        | union k => simpa only [hid] using h
        | input k => simpa only [hid] using h
    | .spread g, pfx => by
      intro h hP
      rw [envSelN] at h ⊢
      exact ⟨h, hP g (by simp [objSpreads])⟩
    | .inline _ _, _ => by intro _ _; simp [envSelN]
    | .typename, _ => by intro _ _; simp [envSelN]
  theorem envSelsN_and {fenv : Nat → Prop} {P : Nat → Prop} {e : Env} {c : Ctx} : ∀ (sels : List Sel) (pfx : String),
      envSelsN fenv e c pfx sels → (∀ g ∈ objSpreadss c.s sels, P g) → envSelsN (fun g => fenv g ∧ P g) e c pfx sels
    | [], _ => by intro _ _; simp [envSelsN]
    | x :: xs, pfx => by
      intro h hP
      rw [envSelsN] at h ⊢
      rw [objSpreadss] at hP
      exact ⟨envSelN_and x pfx h.1 (fun g hg => hP g (List.mem_append_left _ hg)),
        envSelsN_and xs pfx h.2 (fun g hg => hP g (List.mem_append_right _ hg))⟩
end

theorem FragAcc.congr {e : Env} {c : Ctx} {whole whole' : Nat → Bool → Json → Bool} {KN KN' : String → List String}
    {g : Nat} (fa : FragAcc e c whole KN g) (hw : ∀ b j, whole' g b j = whole g b j)
    (hk : KN' (fragName c g) = KN (fragName c g)) : FragAcc e c whole' KN' g := by
  obtain ⟨n, d, cr, G, hnp, hfind, hG⟩ := fa.str
  obtain ⟨N, hacc⟩ := fa.acc
  refine ⟨⟨n, d, cr, G, hnp, hfind, by rw [hk]; exact hG⟩, ⟨N, fun fd hfd b j => by rw [hw]; exact hacc fd hfd b j⟩, ?_⟩
  intro L hL b kvs
  rw [hw, hw]
  exact fa.irr L (by rw [← hk]; exact hL) b kvs

/-- **what the struct of a fragment of rank `r` accepts, exactly** (by induction on the rank) -/
theorem fragAccN (e : Env) (c : Ctx) (hnd : fragNamesOk c = true) : ∀ (r : Nat) (p : TypeId) (g : Nat),
    fragOkN c.s c.q c.o r p g = true → FragEnvN e c r g → fragSideN c r g = true →
    FragAcc e c (wholeN c r) (KNn c r) g
  | 0, p, g => by
    intro h henv _
    rw [fragOkN] at h
    obtain ⟨fr, hfr, hon, _, hv, _⟩ := fragOk_parts h
    have hname : fragName c g = fr.name := by simp [fragName, hfr]
    have hsels : fragSels c.q g = fr.sels := by simp [fragSels, hfr]
    have hid : idOf c.q fr.name = g := idOf_name hnd hfr
    have hKN : KNn c 0 fr.name = fieldKeys c.s fr.sels := by rw [KNn, hid, hsels]
    rw [FragEnvN] at henv
    unfold FragEnv at henv
    rw [hfr] at henv
    obtain ⟨hs, henvV⟩ := henv
    obtain ⟨hp, _, n, d, cr, hfind⟩ := hs
    refine ⟨⟨n, d, cr, fieldsOfV c (c.cs.camel fr.name) fr.sels, hname ▸ hp, hname ▸ hfind, ?_⟩,
      ⟨2 * selsDepth fr.sels + 2, ?_⟩, ?_⟩
    · intro f hf _
      rw [hname, hKN, ← wire_fieldsOfV c _ false fr.sels hv]
      exact List.mem_map_of_mem hf
    · intro fd hfd b j
      rw [hname, wholeN, hsels]
      exact structV_accepts_iff e c _ _ fr.sels false hv henvV ⟨hp, ‹_›, n, d, cr, hfind⟩ b fd hfd j
    · intro L hL b kvs
      rw [hname, hKN] at hL
      simp only [wholeN, hsels, conformsLooseV]
      exact looseSelsV_filter c.s c.o b L kvs fr.sels (fun k hk hkL => hL k hkL hk)
  | r + 1, p, g => by
    intro h henv hside
    have IH := fragAccN e c hnd r
    by_cases hold : fragOkN c.s c.q c.o r p g = true
    · -- already of rank `r`
      obtain ⟨fr, hfr, hon, _, _⟩ := fragOkN_spec c.s c.q c.o r p g hold
      have hfon : fragOn c.q g = p := by simp [fragOn, hfr, hon]
      have hname : fragName c g = fr.name := by simp [fragName, hfr]
      have hid : idOf c.q fr.name = g := idOf_name hnd hfr
      rw [FragEnvN, hfon, if_pos hold] at henv
      rw [fragSideN, hfon, if_pos hold] at hside
      refine (IH p g hold henv hside).congr (fun b j => ?_) ?_
      · rw [wholeN, hfon, if_pos hold]
      · rw [hname, KNn, hid, hfon, if_pos hold]
    · -- new at rank `r + 1`
      have holdf : fragOkN c.s c.q c.o r p g = false := by simpa using hold
      rw [fragOkN, holdf, Bool.false_or] at h
      obtain ⟨fr, hfr, hon, _, _, hnl, hb⟩ := fragNew_parts h
      have hfon : fragOn c.q g = p := by simp [fragOn, hfr, hon]
      have hname : fragName c g = fr.name := by simp [fragName, hfr]
      have hsels : fragSels c.q g = fr.sels := by simp [fragSels, hfr]
      have hid : idOf c.q fr.name = g := idOf_name hnd hfr
      have hKN : KNn c (r + 1) fr.name = expKeysN (KNn c r) c fr.sels := by
        rw [KNn, hid, hfon, if_neg hold, hsels]
      have hwh : ∀ b j, wholeN c (r + 1) g b j = conformsLooseN (wholeN c r) c.s c.q c.o b fr.sels j := by
        intro b j; rw [wholeN, hfon, if_neg hold, hsels]
      rw [FragEnvN, hfon, if_neg hold] at henv
      simp only [hfr] at henv
      rw [fragSideN, hfon] at hside
      simp only [holdf, Bool.false_eq_true, ↓reduceIte, hsels, Bool.and_eq_true, List.all_eq_true] at hside
      obtain ⟨⟨hko, hkeys⟩, hsub⟩ := hside
      obtain ⟨hs, henvs⟩ := henv
      have hok := fragOkN_spec c.s c.q c.o r
      have hfa : ∀ p' g', fragOkN c.s c.q c.o r p' g' = true →
          (FragEnvN e c r g' ∧ fragSideN c r g' = true) → FragAcc e c (wholeN c r) (KNn c r) g' :=
        fun p' g' h1 h2 => IH p' g' h1 h2.1 h2.2
      have henvs' := envSelsN_and (P := fun g' => fragSideN c r g' = true) fr.sels _ henvs hsub
      obtain ⟨N, hN⟩ := accStructN e c _ (wholeN c r) (KNn c r) _ hok hfa (c.cs.camel fr.name) fr.name fr.on fr.sels
        (accSelsN e c _ (wholeN c r) (KNn c r) _ fr.sels _ hok hfa) hnl hb henvs' hko hkeys hs
      obtain ⟨_, h2, _, _⟩ := flat_hypsN hok (KNn c r) (c.cs.camel fr.name) fr.on fr.sels hb (nodup_iff'.mp hkeys)
      obtain ⟨hp, _, n, d, cr, hfind⟩ := hs
      refine ⟨⟨n, d, cr, fieldsOfF c (c.cs.camel fr.name) fr.sels, hname ▸ hp, hname ▸ hfind, ?_⟩, ⟨N, ?_⟩, ?_⟩
      · intro f hf hfl
        rw [hname, hKN]
        exact h2 f hf hfl
      · intro fd hfd b j
        rw [hname, hwh]
        exact hN b fd hfd j
      · intro L hL b kvs
        rw [hname, hKN] at hL
        rw [hwh, hwh, conformsLooseN_not_lone hnl, conformsLooseN_not_lone hnl]
        simp only
        rw [looseOwnN_filter _ _ _ _ _ L kvs fr.sels
            (fun k hk hkL => hL k hkL (fieldKeys_sub_expKeysN (KNn c r) c fr.sels k hk)),
          looseMemN_filter _ L kvs fr.sels (fun g' hg' => by
            have hokg' : fragOkN c.s c.q c.o r fr.on g' = true := by
              simpa [nSel] using nSels_mem hb _ hg'
            have hfg' := envSelsN_mem henvs' _ hg'
            rw [envSelN] at hfg'
            exact (hfa _ g' hokg' hfg').irr L
              (fun k hkL hk => hL k hkL (spreadKeys_sub_expKeysN (KNn c r) c fr.sels g' hg' k hk)) true kvs)]

/-! ## top level (generic environment) -/

/-- keys disjoint between a spread at an object position and its siblings: at every object level of the operation, and
    inside the bodies of the spread fragments (decidable) -/
def nestedKeysOk (c : Ctx) (op : ROperation) : Bool :=
  keysOksN (KNn c c.q.fragments.length) c op.sels &&
  EnumSpec.nodup (expKeysN (KNn c c.q.fragments.length) c op.sels) &&
  (objSpreadss c.s op.sels).all (fragSideN c c.q.fragments.length)

structure TopEnvN (e : Env) (c : Ctx) (op : ROperation) : Prop where
  root : BodyEnvN (FragEnvN e c c.q.fragments.length) e c "ResponseData" (c.cs.camel op.name) op.sels
  ok : SerdeFuel.EnvOK e

theorem bodyEnvN_and {fenv : Nat → Prop} {P : Nat → Prop} {e : Env} {c : Ctx} {name pfx : String} {sels : List Sel}
    (h : BodyEnvN fenv e c name pfx sels) (hP : ∀ g ∈ objSpreadss c.s sels, P g) :
    BodyEnvN (fun g => fenv g ∧ P g) e c name pfx sels := by
  by_cases hsp : ∃ g, sels = [Sel.spread g]
  · obtain ⟨g, rfl⟩ := hsp
    unfold BodyEnvN at h ⊢
    simp only at h ⊢
    exact ⟨h.1, h.2, hP g (by simp [objSpreadss, objSpreads])⟩
  · have hnl : ∀ g, sels ≠ [Sel.spread g] := fun g hg => hsp ⟨g, hg⟩
    have h' := bodyEnvN_not_lone hnl h
    unfold BodyEnvN
    split
    · exact absurd rfl (hnl _)
    · exact ⟨h'.1, envSelsN_and sels pfx h'.2 hP⟩

/-- **`ResponseData` accepts exactly `conformsLooseN … false`** (generic environment) -/
theorem top_accepts_iffN (e : Env) (c : Ctx) (op : ROperation) (ht : NestedOp c op = true) (hnd : fragNamesOk c = true)
    (hk : nestedKeysOk c op = true) (he : TopEnvN e c op) (j : Json) :
    okB (Serde.de e (.path "ResponseData") j) =
      conformsLooseN (wholeN c c.q.fragments.length) c.s c.q c.o false op.sels j := by
  obtain ⟨_, _, hsels⟩ := nestedOp_parts ht
  simp only [nestedKeysOk, Bool.and_eq_true, List.all_eq_true] at hk
  obtain ⟨⟨hko, hkeys⟩, hsub⟩ := hk
  have hfa : ∀ p' g', fragOkN c.s c.q c.o c.q.fragments.length p' g' = true →
      (FragEnvN e c c.q.fragments.length g' ∧ fragSideN c c.q.fragments.length g' = true) →
      FragAcc e c (wholeN c c.q.fragments.length) (KNn c c.q.fragments.length) g' :=
    fun p' g' h1 h2 => fragAccN e c hnd _ p' g' h1 h2.1 h2.2
  obtain ⟨N, hN⟩ := bodyN_accepts_iff e c _ (wholeN c c.q.fragments.length) (KNn c c.q.fragments.length) _
    (fragOkN_spec c.s c.q c.o _) hfa (c.cs.camel op.name) "ResponseData" _ op.sels hsels
    (bodyEnvN_and (P := fun g' => fragSideN c c.q.fragments.length g' = true) he.root hsub) hko hkeys
  rw [de_top, ← SerdeFuel.dePath_fuel_indep he.ok false "ResponseData" j (max N (deFuel e j)) (Nat.le_max_right _ _)]
  exact hN false _ (Nat.le_max_left _ _) j

end C01N
end GqlVerif
